(* Proofs/RouterProofs.v — C24 *)
From Verif Require Import Bytes Codec Router.

Lemma nth_upd_other {A} (f : A -> A) d : forall l i j, i <> j -> nth j (upd_nth i f l) d = nth j l d.
Proof.
  induction l as [|x l IH]; intros i j H; [destruct i; reflexivity|].
  destruct i, j; cbn; try congruence; auto.
Qed.

Lemma nth_upd_same {A} (f : A -> A) d : forall l i, i < length l -> nth i (upd_nth i f l) d = f (nth i l d).
Proof.
  induction l as [|x l IH]; intros i H; cbn in *; [lia|]. destruct i; cbn; [reflexivity | apply IH; lia].
Qed.

Lemma upd_out {A} (f : A -> A) : forall l i, length l <= i -> upd_nth i f l = l.
Proof.
  induction l as [|x l IH]; intros i H; cbn in *; [destruct i; reflexivity|]. destruct i; [lia|]. cbn. f_equal. apply IH. lia.
Qed.

Section AssocLemmas.
  Context {V : Type}.
  Lemma aget_aset_same k (v : V) : forall l, aget k (aset k v l) = Some v.
  Proof.
    induction l as [|[k' v'] l IH]; cbn; [rewrite bytes_eqb_refl; reflexivity|].
    destruct (bytes_eqb k k') eqn:E; cbn; [rewrite bytes_eqb_refl; reflexivity|].
    destruct (bytes_ltb k k'); cbn; [rewrite bytes_eqb_refl; reflexivity | rewrite E; exact IH].
  Qed.
  Lemma aget_aset_other k k2 (v : V) : k2 <> k -> forall l, aget k2 (aset k v l) = aget k2 l.
  Proof.
    intros N. apply bytes_eqb_neq in N.
    induction l as [|[k' v'] l IH]; cbn; [rewrite N; reflexivity|].
    destruct (bytes_eqb k k') eqn:E; cbn.
    - apply bytes_eqb_eq in E. subst k'. rewrite N. reflexivity.
    - destruct (bytes_ltb k k'); cbn; [rewrite N; reflexivity|]. destruct (bytes_eqb k2 k'); [reflexivity | exact IH].
  Qed.
  Lemma aget_adel_other k k2 : k2 <> k -> forall l : list (bytes * V), aget k2 (adel k l) = aget k2 l.
  Proof.
    intros N. apply bytes_eqb_neq in N.
    induction l as [|[k' v'] l IH]; cbn; [reflexivity|].
    destruct (bytes_eqb k k') eqn:E; cbn.
    - apply bytes_eqb_eq in E. subst k'. rewrite N. reflexivity.
    - destruct (bytes_eqb k2 k'); [reflexivity | exact IH].
  Qed.
End AssocLemmas.

(* the (backing storage, bucket) pairs an operation may modify; for a copy racing with a writer that
   includes the source bucket, which the concurrent client modifies *)
Definition targets (c : cfg) (o : op) : list (nat * bytes) :=
  match o with
  | CreateBucket b _ | DeleteBucket b | Put b _ _ | Del b _ => [(route c b, b)]
  | Copy _ _ db _ _ | PartCopy _ _ db _ _ => [(route c db, db)]
  | CopyAt _ sb _ db _ _ _ _ => [(route c sb, sb); (route c db, db)]
  | Head _ _ _ | ListBuckets => []
  end.

Lemma get_store_upd_other f w i j : i <> j -> get_store (upd_nth i f w) j = get_store w j.
Proof. intros H. unfold get_store. apply nth_upd_other. exact H. Qed.

Lemma get_store_upd_same f w i : get_store (upd_nth i f w) i = if i <? length w then f (get_store w i) else get_store w i.
Proof.
  unfold get_store. destruct (i <? length w) eqn:E.
  - apply Nat.ltb_lt in E. apply nth_upd_same. exact E.
  - apply Nat.ltb_ge in E. rewrite upd_out by exact E. reflexivity.
Qed.

Lemma upd_nth_length {A} (f : A -> A) : forall l i, length (upd_nth i f l) = length l.
Proof. induction l as [|x l IH]; intros [|i]; cbn; auto. Qed.

(* a bucket that an update of backing i leaves alone is left alone in every backing *)
Lemma aget_upd_fun f w i j b2 :
  (forall s, aget b2 (f s) = aget b2 s) -> aget b2 (get_store (upd_nth i f w) j) = aget b2 (get_store w j).
Proof.
  intros H. destruct (Nat.eq_dec i j) as [->|N]; [|rewrite get_store_upd_other by exact N; reflexivity].
  rewrite get_store_upd_same. match goal with |- context [if ?cnd then _ else _] => destruct cnd end; [apply H | reflexivity].
Qed.
Lemma aget_upd_const s' w i j b2 :
  aget b2 s' = aget b2 (get_store w i) -> aget b2 (get_store (upd_nth i (fun _ => s') w) j) = aget b2 (get_store w j).
Proof.
  intros H. destruct (Nat.eq_dec i j) as [->|N]; [|rewrite get_store_upd_other by exact N; reflexivity].
  rewrite get_store_upd_same. match goal with |- context [if ?cnd then _ else _] => destruct cnd end; [exact H | reflexivity].
Qed.

Lemma put_obj_other s b k ob s' b2 : put_obj s b k ob = Some s' -> b2 <> b -> aget b2 s' = aget b2 s.
Proof.
  unfold put_obj. destruct (aget b s); [|discriminate]. intros E N. inversion E; subst. apply aget_aset_other. exact N.
Qed.
Lemma del_obj_other s b k s' b2 : del_obj s b k = Some s' -> b2 <> b -> aget b2 s' = aget b2 s.
Proof.
  unfold del_obj. destruct (aget b s); [|discriminate]. intros E N. inversion E; subst. apply aget_aset_other. exact N.
Qed.
Lemma apply_writer_other wr s b k b2 : b2 <> b -> aget b2 (apply_writer wr s b k) = aget b2 s.
Proof.
  intros N. unfold apply_writer. destruct wr as [o|].
  - destruct (put_obj s b k o) eqn:E; [eapply put_obj_other; eassumption | reflexivity].
  - destruct (del_obj s b k) eqn:E; [eapply del_obj_other; eassumption | reflexivity].
Qed.

Lemma cross_copy_gen_other sh sg ds sb sk db dk co mp now s' r b2 :
  cross_copy_gen sh sg ds sb sk db dk co mp now = (Some s', r) -> b2 <> db -> aget b2 s' = aget b2 ds.
Proof.
  unfold cross_copy_gen. destruct (find_version sh sb sk (co_vid co)) as [x|[src v]]; [discriminate|].
  destruct (negb (cross_conditions (co_conds co) src)); [discriminate|].
  destruct (find_version sg sb sk (co_vid co)) as [x|[got v']]; [discriminate|].
  destruct (negb (etag_eqb src got)); [discriminate|].
  destruct (read_window _ _); [|discriminate]. destruct (put_obj ds db dk _) eqn:E; [|discriminate].
  intros H N. inversion H; subst. eapply put_obj_other; eassumption.
Qed.
Lemma cross_copy_other ss ds sb sk db dk co mp now s' r b2 :
  cross_copy ss ds sb sk db dk co mp now = (Some s', r) -> b2 <> db -> aget b2 s' = aget b2 ds.
Proof.
  unfold cross_copy. destruct (find_version ss sb sk (co_vid co)) as [x|[src v]]; [discriminate|].
  destruct (negb (cross_conditions (co_conds co) src)); [discriminate|].
  destruct (read_window _ _); [|discriminate]. destruct (put_obj ds db dk _) eqn:E; [|discriminate].
  intros H N. inversion H; subst. eapply put_obj_other; eassumption.
Qed.
Lemma inner_copy_other ss ds sb sk db dk co mp now s' r b2 :
  inner_copy ss ds sb sk db dk co mp now = (Some s', r) -> b2 <> db -> aget b2 s' = aget b2 ds.
Proof.
  unfold inner_copy. destruct (find_version ss sb sk (co_vid co)) as [x|[src v]]; [discriminate|].
  destruct (inner_conditions (co_conds co) src); [|discriminate].
  destruct ((if mp then part_window else read_window) _ _); [|discriminate]. destruct (put_obj ds db dk _) eqn:E; [|discriminate].
  intros H N. inversion H; subst. eapply put_obj_other; eassumption.
Qed.
Lemma cross_copy_at_other k wr ss ds sb sk db dk co mp now s' r b2 :
  cross_copy_at k wr ss ds sb sk db dk co mp now = (Some s', r) -> b2 <> db -> aget b2 s' = aget b2 ds.
Proof. unfold cross_copy_at. destruct k as [|[|[|k]]]; apply cross_copy_gen_other. Qed.

(* isolation: a bucket that is not among the operation's targets is unchanged in EVERY backing storage *)
Lemma step_other_bucket c now w o j b2 :
  (forall i b, In (i, b) (targets c o) -> b2 <> b) ->
  aget b2 (get_store (fst (step c now w o)) j) = aget b2 (get_store w j).
Proof.
  intros H.
  destruct o as [b v|b|b k ob|b k|b k vid|sb sk db dk co|sb sk db dk co| |part sb sk db dk co kk wr]; cbn [step targets] in *.
  - assert (N : b2 <> b) by (eapply H; left; reflexivity).
    destruct (aget b (get_store w (route c b))); cbn [fst]; [reflexivity|]. apply aget_upd_fun. intros s. apply aget_aset_other. exact N.
  - assert (N : b2 <> b) by (eapply H; left; reflexivity).
    destruct (aget b (get_store w (route c b))) as [bk|]; cbn [fst]; [|reflexivity].
    destruct (bucket_empty bk); cbn [fst]; [|reflexivity]. apply aget_upd_fun. intros s. apply aget_adel_other. exact N.
  - assert (N : b2 <> b) by (eapply H; left; reflexivity).
    destruct (put_obj (get_store w (route c b)) b k ob) eqn:E; cbn [fst]; [|reflexivity].
    apply aget_upd_const. eapply put_obj_other; eassumption.
  - assert (N : b2 <> b) by (eapply H; left; reflexivity).
    destruct (del_obj (get_store w (route c b)) b k) eqn:E; cbn [fst]; [|reflexivity].
    apply aget_upd_const. eapply del_obj_other; eassumption.
  - destruct (find_version (get_store w (route c b)) b k vid) as [r|[ob v]]; reflexivity.
  - assert (N : b2 <> db) by (eapply H; left; reflexivity).
    destruct (same_instance c sb db).
    + destruct (inner_copy _ _ sb sk db dk co false now) as [[s'|] r] eqn:E; cbn [fst]; [|reflexivity].
      apply aget_upd_const. eapply inner_copy_other; eassumption.
    + destruct (cross_copy _ _ sb sk db dk co false now) as [[s'|] r] eqn:E; cbn [fst]; [|reflexivity].
      apply aget_upd_const. eapply cross_copy_other; eassumption.
  - assert (N : b2 <> db) by (eapply H; left; reflexivity).
    destruct (aget db (get_store w (route c db))); cbn [fst]; [|reflexivity].
    destruct (same_instance c sb db).
    + destruct (inner_copy _ _ sb sk db dk co true now) as [[s'|] r] eqn:E; cbn [fst]; [|reflexivity].
      apply aget_upd_const. eapply inner_copy_other; eassumption.
    + destruct (cross_copy _ _ sb sk db dk co true now) as [[s'|] r] eqn:E; cbn [fst]; [|reflexivity].
      apply aget_upd_const. eapply cross_copy_other; eassumption.
  - reflexivity.
  - assert (N1 : b2 <> sb) by (eapply H; left; reflexivity).
    assert (N2 : b2 <> db) by (eapply H; right; left; reflexivity).
    set (wr_w := fun w0 : world => upd_nth (route c sb) (fun s => apply_writer wr s sb sk) w0).
    assert (HW : forall w0 j0, aget b2 (get_store (wr_w w0) j0) = aget b2 (get_store w0 j0)).
    { intros w0 j0. apply aget_upd_fun. intros s. apply apply_writer_other. exact N1. }
    destruct (part && _); cbn [fst]; [apply HW|].
    destruct (same_instance c sb db).
    + destruct (kk <=? 1).
      * destruct (inner_copy _ _ sb sk db dk co part now) as [[s'|] r] eqn:E; cbn [fst]; [|apply HW].
        rewrite aget_upd_const; [apply HW|]. eapply inner_copy_other; eassumption.
      * destruct (inner_copy _ _ sb sk db dk co part now) as [[s'|] r] eqn:E; cbn [fst]; rewrite HW; [|reflexivity].
        apply aget_upd_const. eapply inner_copy_other; eassumption.
    + destruct (cross_copy_at kk wr _ _ sb sk db dk co part now) as [[s'|] r] eqn:E; cbn [fst]; [|apply HW].
      rewrite aget_upd_const; [apply HW|]. eapply cross_copy_at_other; eassumption.
Qed.

(* ... and a backing storage that is not among the targets is unchanged as a whole *)
Lemma step_other_storage c now w o j :
  (forall i b, In (i, b) (targets c o) -> j <> i) -> get_store (fst (step c now w o)) j = get_store w j.
Proof.
  intros H.
  assert (U : forall b f w0, In (route c b, b) (targets c o) -> get_store (upd_nth (route c b) f w0) j = get_store w0 j).
  { intros b f w0 T. apply get_store_upd_other. intros E. exact (H _ _ T (eq_sym E)). }
  destruct o as [b v|b|b k ob|b k|b k vid|sb sk db dk co|sb sk db dk co| |part sb sk db dk co kk wr]; cbn [step targets] in *.
  - destruct (aget b (get_store w (route c b))); cbn [fst]; [reflexivity | apply U; left; reflexivity].
  - destruct (aget b (get_store w (route c b))) as [bk|]; cbn [fst]; [|reflexivity].
    destruct (bucket_empty bk); cbn [fst]; [apply U; left; reflexivity | reflexivity].
  - destruct (put_obj (get_store w (route c b)) b k ob); cbn [fst]; [apply U; left; reflexivity | reflexivity].
  - destruct (del_obj (get_store w (route c b)) b k); cbn [fst]; [apply U; left; reflexivity | reflexivity].
  - destruct (find_version (get_store w (route c b)) b k vid) as [r|[ob v]]; reflexivity.
  - destruct ((if same_instance c sb db then inner_copy else cross_copy) _ _ sb sk db dk co false now) as [[s'|] r]; cbn [fst];
      [apply U; left; reflexivity | reflexivity].
  - destruct (aget db (get_store w (route c db))); cbn [fst]; [|reflexivity].
    destruct ((if same_instance c sb db then inner_copy else cross_copy) _ _ sb sk db dk co true now) as [[s'|] r]; cbn [fst];
      [apply U; left; reflexivity | reflexivity].
  - reflexivity.
  - assert (US : forall f w0, get_store (upd_nth (route c sb) f w0) j = get_store w0 j) by (intros; apply U; left; reflexivity).
    assert (UD : forall f w0, get_store (upd_nth (route c db) f w0) j = get_store w0 j) by (intros; apply U; right; left; reflexivity).
    destruct (part && _); cbn [fst]; [apply US|].
    destruct (same_instance c sb db).
    + destruct (kk <=? 1);
      destruct (inner_copy _ _ sb sk db dk co part now) as [[s'|] r]; cbn [fst]; rewrite ?US, ?UD, ?US; reflexivity.
    + destruct (cross_copy_at kk wr _ _ sb sk db dk co part now) as [[s'|] r]; cbn [fst]; rewrite ?UD, ?US; reflexivity.
Qed.

Lemma step_length c now w o : length (fst (step c now w o)) = length w.
Proof.
  destruct o as [b v|b|b k ob|b k|b k vid|sb sk db dk co|sb sk db dk co| |part sb sk db dk co kk wr]; cbn [step].
  - destruct (aget b _); cbn [fst]; rewrite ?upd_nth_length; reflexivity.
  - destruct (aget b _) as [bk|]; cbn [fst]; [|reflexivity]. destruct (bucket_empty bk); cbn [fst]; rewrite ?upd_nth_length; reflexivity.
  - destruct (put_obj _ b k ob); cbn [fst]; rewrite ?upd_nth_length; reflexivity.
  - destruct (del_obj _ b k); cbn [fst]; rewrite ?upd_nth_length; reflexivity.
  - destruct (find_version _ b k vid) as [r|[ob v]]; reflexivity.
  - destruct ((if same_instance c sb db then inner_copy else cross_copy) _ _ sb sk db dk co false now) as [[s'|] r]; cbn [fst]; rewrite ?upd_nth_length; reflexivity.
  - destruct (aget db _); cbn [fst]; [|reflexivity].
    destruct ((if same_instance c sb db then inner_copy else cross_copy) _ _ sb sk db dk co true now) as [[s'|] r]; cbn [fst]; rewrite ?upd_nth_length; reflexivity.
  - reflexivity.
  - destruct (part && _); cbn [fst]; [rewrite upd_nth_length; reflexivity|].
    destruct (same_instance c sb db).
    + destruct (kk <=? 1); destruct (inner_copy _ _ sb sk db dk co part now) as [[s'|] r]; cbn [fst]; rewrite ?upd_nth_length; reflexivity.
    + destruct (cross_copy_at kk wr _ _ sb sk db dk co part now) as [[s'|] r]; cbn [fst]; rewrite ?upd_nth_length; reflexivity.
Qed.

(* sorting neither loses nor invents names *)
Lemma In_ins x y l : In x (ins y l) <-> x = y \/ In x l.
Proof.
  induction l as [|z l IH]; cbn; [intuition|]. destruct (bytes_ltb z y); cbn; rewrite ?IH; intuition.
Qed.
Lemma In_isort x l : In x (isort l) <-> In x l.
Proof. induction l as [|y l IH]; cbn; [tauto|]. rewrite In_ins, IH. intuition. Qed.

(* ---------- copy options: the middleware's re-implementation vs the storage's own ---------- *)
Lemma conditions_agree c o : cross_conditions c o = inner_conditions c o.
Proof.
  unfold cross_conditions, inner_conditions.
  destruct (c_im c) as [e1|], (c_inm c) as [e2|], (c_ius c) as [t|], (c_ims c) as [t'|]; cbn;
    repeat (match goal with |- context [ec_matches ?e o] => destruct (ec_matches e o) end; cbn);
    try reflexivity; repeat (match goal with |- context [(?a <? ?b)%Z] => destruct (a <? b)%Z end; cbn); reflexivity.
Qed.

Lemma conditions_second_granularity c o o' :
  o_data o = o_data o' -> o_m o = o_m o' -> trunc_s (o_lm o) = trunc_s (o_lm o') -> cross_conditions c o = cross_conditions c o'.
Proof.
  intros D M H. unfold cross_conditions. rewrite H.
  assert (E : forall e, ec_matches e o = ec_matches e o') by (intros [d m| |]; cbn; rewrite ?D, ?M; reflexivity).
  destruct (c_im c), (c_inm c); rewrite ?E; reflexivity.
Qed.

Lemma sizeZ_nonneg d : (0 <= sizeZ d)%Z.
Proof. unfold sizeZ. lia. Qed.

(* the two ways of opening the window agree except for a ranged part copy of an empty source *)
Lemma window_agree r size : (0 <= size)%Z -> (size = 0%Z -> is_ranged r = false) -> part_window r size = read_window r size.
Proof.
  intros Hs Hx. unfold part_window, read_window. destruct (norm_window r size) as [[a b]|] eqn:E; [|reflexivity].
  destruct (reader_ok r (a, b) size) eqn:R; [rewrite orb_true_r; reflexivity|]. rewrite orb_false_r.
  destruct (covers_part (a, b) size) eqn:C; [|reflexivity]. exfalso.
  unfold covers_part in C. cbn in C. apply andb_true_iff in C. destruct C as [C1 C2].
  apply Z.eqb_eq in C1. apply Z.eqb_eq in C2. subst a b.
  unfold reader_ok in R. cbn in R. apply orb_false_iff in R. destruct R as [R1 R2]. apply Z.ltb_ge in R1.
  assert (size = 0%Z) by lia. specialize (Hx H). destruct r; cbn in Hx; try discriminate.
  cbn in R2. subst size. discriminate.
Qed.

Lemma copy_kinds_agree ss ds sb sk db dk co mp now :
  (forall src v, find_version ss sb sk (co_vid co) = inr (src, v) -> mp = true -> o_data src = [] -> is_ranged (co_range co) = false) ->
  snd (cross_copy ss ds sb sk db dk co mp now) = snd (inner_copy ss ds sb sk db dk co mp now).
Proof.
  intros Hx. unfold cross_copy, inner_copy.
  destruct (find_version ss sb sk (co_vid co)) as [r|[src v]] eqn:F; [reflexivity|].
  rewrite conditions_agree. destruct (inner_conditions (co_conds co) src); cbn [negb]; [|reflexivity].
  assert (W : (if mp then part_window else read_window) (co_range co) (sizeZ (o_data src)) = read_window (co_range co) (sizeZ (o_data src))).
  { destruct mp; [|reflexivity]. apply window_agree; [apply sizeZ_nonneg|]. intros Z0. apply (Hx src v eq_refl eq_refl).
    unfold sizeZ in Z0. destruct (o_data src); [reflexivity | cbn in Z0; lia]. }
  rewrite W. destruct (read_window _ _); [|reflexivity].
  unfold put_obj. destruct (aget db ds); reflexivity.
Qed.

Lemma copy_stores_agree ss ds sb sk db dk co mp now :
  (forall src v, find_version ss sb sk (co_vid co) = inr (src, v) ->
     (mp = true -> o_data src = [] -> is_ranged (co_range co) = false) /\
     (mp = true \/ (o_u src = false /\ o_t src = false /\ (o_m src = false \/ is_ranged (co_range co) = true)))) ->
  cross_copy ss ds sb sk db dk co mp now = inner_copy ss ds sb sk db dk co mp now.
Proof.
  intros Hx. unfold cross_copy, inner_copy.
  destruct (find_version ss sb sk (co_vid co)) as [r|[src v]] eqn:F; [reflexivity|].
  destruct (Hx src v eq_refl) as [H1 H2].
  rewrite conditions_agree. destruct (inner_conditions (co_conds co) src); cbn [negb]; [|reflexivity].
  assert (W : (if mp then part_window else read_window) (co_range co) (sizeZ (o_data src)) = read_window (co_range co) (sizeZ (o_data src))).
  { destruct mp; [|reflexivity]. apply window_agree; [apply sizeZ_nonneg|]. intros Z0. apply (H1 eq_refl).
    unfold sizeZ in Z0. destruct (o_data src); [reflexivity | cbn in Z0; lia]. }
  rewrite W. destruct (read_window _ _) as [win|]; [|reflexivity].
  assert (O : copied_obj src win (is_ranged (co_range co)) true mp now = copied_obj src win (is_ranged (co_range co)) false mp now).
  { unfold copied_obj. destruct H2 as [->|(U & T & M)]; [reflexivity|]. rewrite U, T. destruct mp; [reflexivity|]. cbn.
    destruct M as [M|M]; [rewrite M; destruct (is_ranged (co_range co)); reflexivity | rewrite M; reflexivity]. }
  rewrite O. reflexivity.
Qed.

(* content and content type always survive *)
Lemma copied_obj_content src win rg mp now :
  o_data (copied_obj src win rg true mp now) = o_data (copied_obj src win rg false mp now) /\
  o_c (copied_obj src win rg true mp now) = o_c (copied_obj src win rg false mp now).
Proof. split; reflexivity. Qed.

(* ---------- a copy racing with a writer ---------- *)
Lemma etag_eqb_refl o : etag_eqb o o = true.
Proof. unfold etag_eqb. rewrite bytes_eqb_refl, Bool.eqb_reflx. reflexivity. Qed.
Lemma etag_eqb_data a b : etag_eqb a b = true -> o_data a = o_data b.
Proof. unfold etag_eqb. intros H. apply andb_true_iff in H. destruct H as [H _]. apply bytes_eqb_eq. exact H. Qed.

(* when nothing happens between the source calls the call sequence is the copy *)
Lemma cross_copy_gen_same s ds sb sk db dk co mp now :
  cross_copy_gen s s ds sb sk db dk co mp now = cross_copy s ds sb sk db dk co mp now.
Proof.
  unfold cross_copy_gen, cross_copy.
  destruct (find_version s sb sk (co_vid co)) as [r|[src v]]; [reflexivity|].
  destruct (negb (cross_conditions (co_conds co) src)); [reflexivity|].
  rewrite etag_eqb_refl. cbn [negb]. destruct (read_window _ _) as [win|]; reflexivity.
Qed.

(* the writer between HeadObject and GetObject: the copy-first outcome, the writer-first outcome, or
   a failed precondition that leaves the destination untouched *)
Lemma cross_copy_gen_race s sw ds sb sk db dk co mp now :
  cross_copy_gen s sw ds sb sk db dk co mp now = cross_copy s ds sb sk db dk co mp now \/
  cross_copy_gen s sw ds sb sk db dk co mp now = cross_copy sw ds sb sk db dk co mp now \/
  cross_copy_gen s sw ds sb sk db dk co mp now = (None, RPrecondition).
Proof.
  unfold cross_copy_gen, cross_copy.
  destruct (find_version s sb sk (co_vid co)) as [r|[src v]]; [left; reflexivity|].
  destruct (negb (cross_conditions (co_conds co) src)); [left; reflexivity|].
  destruct (find_version sw sb sk (co_vid co)) as [r|[got v']]; [right; left; reflexivity|].
  destruct (etag_eqb src got) eqn:E; cbn [negb]; [|right; right; reflexivity].
  left. rewrite <- (etag_eqb_data _ _ E). destruct (read_window _ _) as [win|]; reflexivity.
Qed.

Lemma cross_copy_at_atomic k wr ss ds sb sk db dk co mp now :
  let ssw := apply_writer wr ss sb sk in
  cross_copy_at k wr ss ds sb sk db dk co mp now = cross_copy ss ds sb sk db dk co mp now \/
  cross_copy_at k wr ss ds sb sk db dk co mp now = cross_copy ssw ds sb sk db dk co mp now \/
  cross_copy_at k wr ss ds sb sk db dk co mp now = (None, RPrecondition).
Proof.
  cbv zeta. unfold cross_copy_at. destruct k as [|[|[|k]]].
  - right; left. apply cross_copy_gen_same.
  - right; left. apply cross_copy_gen_same.
  - apply cross_copy_gen_race.
  - left. apply cross_copy_gen_same.
Qed.

(* ---------- the ambient transaction ---------- *)
Lemma get_set0 w p : w <> [] -> get_store (set0 w p) 0 = p.
Proof. destruct w; [congruence|]. reflexivity. Qed.
Lemma get_set0_other w p j : j <> 0 -> get_store (set0 w p) j = get_store w j.
Proof. intros H. unfold set0. apply get_store_upd_other. auto. Qed.
Lemma set0_set0 w p q : set0 (set0 w p) q = set0 w q.
Proof. destruct w; reflexivity. Qed.
Lemma set0_get w : set0 w (get_store w 0) = w.
Proof. destruct w; reflexivity. Qed.
Lemma set0_nonempty w p : w <> [] -> set0 w p <> [].
Proof. destruct w; [congruence | discriminate]. Qed.
Lemma step_nonempty c now w o : w <> [] -> fst (step c now w o) <> [].
Proof. intros H E. pose proof (step_length c now w o) as L. rewrite E in L. destruct w; [congruence | discriminate]. Qed.

(* the same operations without any transaction, on the same clock *)
Fixpoint plain_run (c : cfg) (n : Z) (w : world) (ops : list pop) : world * list res :=
  match ops with
  | [] => (w, [])
  | p :: r => let now := (n * 1000 + 537)%Z in
              let '(w1, x) := step c now w (resolve c w p now) in
              let '(w2, xs) := plain_run c (n + 1)%Z w1 r in (w2, x :: xs)
  end.

Lemma tx_run_plain c : forall ops n w pend, w <> [] ->
  tx_run c n w pend ops =
  (set0 (fst (plain_run c n (set0 w pend) ops)) (get_store w 0),
   get_store (fst (plain_run c n (set0 w pend) ops)) 0,
   snd (plain_run c n (set0 w pend) ops)).
Proof.
  induction ops as [|p ops IH]; intros n w pend Hw; cbn [tx_run plain_run].
  - cbn [fst snd]. rewrite set0_set0, set0_get, get_set0 by exact Hw. reflexivity.
  - set (view := set0 w pend).
    destruct (step c (n * 1000 + 537)%Z view (resolve c view p (n * 1000 + 537)%Z)) as [v1 x] eqn:E.
    assert (Hv1 : v1 <> []).
    { replace v1 with (fst (step c (n * 1000 + 537)%Z view (resolve c view p (n * 1000 + 537)%Z))) by (rewrite E; reflexivity).
      apply step_nonempty. apply set0_nonempty. exact Hw. }
    rewrite (IH (n + 1)%Z (set0 v1 (get_store w 0)) (get_store v1 0) (set0_nonempty _ _ Hv1)).
    rewrite set0_set0, set0_get, get_set0 by exact Hv1.
    destruct (plain_run c (n + 1)%Z v1 ops) as [w2 xs]. reflexivity.
Qed.
