(* Proofs/StreamProofs.v — C40: the streaming reader delivers a prefix of the resolved version or fails. *)
From Verif Require Import Bytes Codec Stream.
From Coq Require Import ZifyBool ZifyN ZifyNat.

Definition rest_of (st0 : pstore) (r : reader) : bytes :=
  (match r_cur r with Some (rem, lim) => firstn lim rem | None => [] end) ++ expected st0 (r_todo r).

Definition RInv (st0 : pstore) (E : bytes) (r : reader) : Prop :=
  match r_st r with
  | Failed => exists t, E = r_out r ++ t
  | Running => r_out r ++ rest_of st0 r = E
  | AtEof => r_out r = E /\ r_todo r = [] /\ r_cur r = None
  end.

Definition lk_ok (st0 : pstore) (todo : list entry) (lookup : N -> option bytes) : Prop :=
  forall e, In e todo -> lookup (e_pid e) = ps_get st0 (e_pid e) \/ lookup (e_pid e) = None.

Lemma firstn_split_min (k lim : nat) (rem : bytes) :
  k <= lim -> firstn lim rem = firstn k rem ++ firstn (lim - k) (skipn k rem).
Proof.
  revert lim rem. induction k as [|k IH]; intros lim rem H; cbn.
  - rewrite Nat.sub_0_r. reflexivity.
  - destruct lim as [|lim]; [lia|]. destruct rem as [|x rem]; cbn; [destruct (lim - k); reflexivity|].
    rewrite (IH lim rem) by lia. reflexivity.
Qed.

Lemma firstn_zero_min (lim : nat) (rem : bytes) : Nat.min lim (length rem) = 0 -> firstn lim rem = [].
Proof. destruct lim, rem; cbn; intros H; try reflexivity; lia. Qed.

(* one Read call keeps the invariant; the remaining part list only shrinks *)
Lemma read_loop_inv st0 E lookup n : 0 < n -> forall fuel r,
  r_st r = Running -> RInv st0 E r -> lk_ok st0 (r_todo r) lookup ->
  let r' := fst (read_loop fuel lookup n r) in
  RInv st0 E r' /\ incl (r_todo r') (r_todo r).
Proof.
  intros Hn. induction fuel as [|f IH]; intros r RS HI LK; cbn [read_loop].
  - cbn. split; [exact HI|apply incl_refl].
  - unfold RInv in HI. rewrite RS in HI. unfold rest_of in HI.
    destruct (r_cur r) as [[rem lim]|] eqn:RC.
    + destruct (Nat.min n (Nat.min lim (length rem))) as [|k'] eqn:K.
      * (* this part is exhausted *)
        assert (Nat.min lim (length rem) = 0) as Z by lia.
        rewrite (firstn_zero_min lim rem Z) in HI. cbn in HI.
        specialize (IH {| r_todo := r_todo r; r_cur := None; r_out := r_out r; r_st := r_st r |}).
        cbn in IH. apply IH; [exact RS| |exact LK]. unfold RInv. cbn. rewrite RS. unfold rest_of. cbn. exact HI.
      * remember (S k') as kk eqn:KK. cbn [fst r_todo]. split; [|apply incl_refl]. unfold RInv. cbn [r_st]. rewrite RS.
        unfold rest_of. cbn [r_cur r_out r_todo].
        rewrite <- HI, <- !app_assoc. f_equal. rewrite app_assoc. f_equal.
        apply eq_sym, firstn_split_min. lia.
    + destruct (r_todo r) as [|e rest] eqn:RT.
      * cbn. split; [|apply incl_refl]. unfold RInv. cbn. cbn in HI. unfold expected in HI. cbn in HI.
        rewrite app_nil_r in HI. auto.
      * destruct (LK e (or_introl eq_refl)) as [L|L].
        -- destruct (lookup (e_pid e)) as [c|] eqn:LE.
           ++ specialize (IH {| r_todo := rest; r_cur := Some (skipn (e_skip e) c, e_limit e); r_out := r_out r; r_st := r_st r |}).
              cbn in IH. destruct IH as [I1 I2]; [exact RS| |intros x Hx; apply LK; right; exact Hx|].
              ** unfold RInv. cbn [r_st]. rewrite RS. unfold rest_of. cbn [r_cur r_out r_todo]. rewrite <- HI. cbn [app]. f_equal.
                 unfold expected. cbn [map concat]. f_equal. unfold contrib. rewrite <- L. reflexivity.
              ** split; [exact I1|]. intros x Hx. right. apply I2. exact Hx.
           ++ cbn. split; [|intros x Hx; right; exact Hx]. unfold RInv. cbn. eexists. rewrite <- HI. cbn. reflexivity.
        -- rewrite L. cbn. split; [|intros x Hx; right; exact Hx]. unfold RInv. cbn. eexists. rewrite <- HI. cbn. reflexivity.
Qed.

Lemma read_loop_status fuel lookup n r : r_st r = Running ->
  r_st (fst (read_loop fuel lookup n r)) = Failed -> exists e, In e (r_todo r) /\ lookup (e_pid e) = None.
Proof.
  revert r. induction fuel as [|f IH]; intros r RS H; cbn [read_loop] in H; [cbn in H; congruence|].
  destruct (r_cur r) as [[rem lim]|].
  - destruct (Nat.min n (Nat.min lim (length rem))); [|cbn in H; congruence].
    apply IH in H; [|exact RS]. exact H.
  - destruct (r_todo r) as [|e rest]; [cbn in H; discriminate|].
    destruct (lookup (e_pid e)) eqn:L.
    + apply IH in H; [|exact RS]. cbn in H. destruct H as (x & Hx & Lx). exists x. split; [right; exact Hx|exact Lx].
    + exists e. split; [left; reflexivity|exact L].
Qed.

(* ---------- system level ---------- *)
Definition SInv (st0 : pstore) (todo : list entry) (s : sys) : Prop :=
  RInv st0 (expected st0 todo) (s_rd s) /\ incl (r_todo (s_rd s)) todo /\ s_snap s = st0 /\ env_ok st0 todo (s_store s).

Lemma env_ok_refl st0 todo : env_ok st0 todo st0.
Proof. intros e _. left. reflexivity. Qed.

Lemma start_inv m st0 todo : SInv st0 todo (start m st0 todo).
Proof.
  split; [|split; [apply incl_refl|split; [reflexivity|apply env_ok_refl]]].
  unfold RInv, start, mk_reader, rest_of. cbn. reflexivity.
Qed.

Lemma sys_step_inv st0 todo s l :
  SInv st0 todo s -> labels_ok st0 todo [l] -> SInv st0 todo (fst (sys_step s l)).
Proof.
  intros (HI & HS & HN & HE) HL. destruct l as [n|st'].
  - destruct HL as [Hn _]. cbn [sys_step]. unfold reader_read.
    destruct (r_st (s_rd s)) eqn:RS.
    + (* running *)
      assert (LK : lk_ok st0 (r_todo (s_rd s)) (match s_mode s with TxFree => ps_get (s_store s) | Snapshot => ps_get (s_snap s) end)).
      { intros e He. destruct (s_mode s); [apply HE; apply HS; exact He|]. rewrite HN. left. reflexivity. }
      pose proof (read_loop_inv st0 (expected st0 todo) _ n Hn (read_fuel (s_rd s)) (s_rd s) RS HI LK) as [I1 I2].
      destruct (read_loop _ _ n (s_rd s)) as [r' o]. cbn in *.
      split; [exact I1|]. split; [intros x Hx; apply HS; apply I2; exact Hx|]. split; assumption.
    + (* already at EOF: Read keeps answering EOF *)
      unfold RInv in HI. rewrite RS in HI. destruct HI as (O1 & O2 & O3).
      unfold read_fuel. rewrite O2. cbn. rewrite O3, O2. cbn.
      split; [unfold RInv; cbn; auto|]. split; [intros x []|]. split; assumption.
    + cbn. split; [exact HI|]. split; [exact HS|]. split; assumption.
  - destruct HL as [HE' _]. cbn. split; [exact HI|]. split; [exact HS|]. split; assumption.
Qed.

Lemma sys_run_inv st0 todo : forall ls s,
  SInv st0 todo s -> labels_ok st0 todo ls -> SInv st0 todo (fst (sys_run s ls)).
Proof.
  induction ls as [|l ls IH]; intros s HI HL; cbn [sys_run]; [exact HI|].
  destruct (sys_step s l) as [s1 o] eqn:ST. destruct (sys_run s1 ls) as [s2 os] eqn:SR. cbn.
  assert (SInv st0 todo s1) as H1.
  { change s1 with (fst (s1, o)). rewrite <- ST. apply sys_step_inv; [exact HI|].
    destruct l; cbn in HL |- *; destruct HL as [A _]; split; auto. }
  change s2 with (fst (s2, os)). rewrite <- SR. apply IH; [exact H1|]. destruct l; cbn in HL; exact (proj2 HL).
Qed.

(* bytes delivered are always a prefix of the resolved version; clean EOF only after all of it *)
Lemma prefix_or_error m st0 todo ls :
  labels_ok st0 todo ls ->
  let r := s_rd (fst (sys_run (start m st0 todo) ls)) in
  (exists t, expected st0 todo = r_out r ++ t) /\ (r_st r = AtEof -> r_out r = expected st0 todo).
Proof.
  intros HL r. pose proof (sys_run_inv st0 todo ls _ (start_inv m st0 todo) HL) as (HI & _).
  fold r in HI. unfold RInv in HI. destruct (r_st r) eqn:RS.
  - split; [eexists; symmetry; exact HI|discriminate].
  - destruct HI as (O1 & _). split; [exists []; rewrite app_nil_r; symmetry; exact O1|intros _; exact O1].
  - split; [exact HI|discriminate].
Qed.

(* snapshot mode (SQL part store inside the read transaction): the reader never fails, whatever the environment does *)
Lemma snapshot_never_fails st0 todo : (forall e, In e todo -> ps_get st0 (e_pid e) <> None) ->
  forall ls s, SInv st0 todo s -> s_mode s = Snapshot -> r_st (s_rd s) <> Failed -> labels_ok st0 todo ls ->
  r_st (s_rd (fst (sys_run s ls))) <> Failed.
Proof.
  intros HP. induction ls as [|l ls IH]; intros s HI HM HF HL; cbn [sys_run]; [exact HF|].
  destruct (sys_step s l) as [s1 o] eqn:ST. destruct (sys_run s1 ls) as [s2 os] eqn:SR. cbn.
  assert (SInv st0 todo s1) as H1.
  { change s1 with (fst (s1, o)). rewrite <- ST. apply sys_step_inv; [exact HI|].
    destruct l; cbn in HL |- *; destruct HL as [A _]; split; auto. }
  change s2 with (fst (s2, os)). rewrite <- SR. apply IH; [exact H1| | |destruct l; cbn in HL; exact (proj2 HL)].
  - destruct l; cbn in ST; [destruct (reader_read _ _ _) in ST|]; inversion ST; subst; cbn; exact HM.
  - destruct l as [n|st']; cbn [sys_step] in ST.
    + destruct HI as (HR & HS & HN & _). rewrite HM in ST. unfold reader_read in ST.
      destruct (r_st (s_rd s)) eqn:RS; [| |contradiction].
      * destruct (read_loop _ _ n (s_rd s)) as [r' o'] eqn:RL. inversion ST; subst s1 o. cbn. intros F.
        pose proof (read_loop_status (read_fuel (s_rd s)) (ps_get (s_snap s)) n (s_rd s) RS) as X.
        rewrite RL in X. cbn in X. destruct (X F) as (e & He & Le). rewrite HN in Le. exact (HP e (HS e He) Le).
      * destruct (read_loop _ _ n (s_rd s)) as [r' o'] eqn:RL. inversion ST; subst s1 o. cbn. intros F.
        (* at EOF the loop returns EOF again *)
        clear -RL RS F HR. unfold RInv in HR. rewrite RS in HR. destruct HR as (_ & O2 & O3).
        unfold read_fuel in RL. rewrite O2 in RL. cbn in RL. rewrite O3, O2 in RL. inversion RL; subst. cbn in F. discriminate.
    + inversion ST; subst. cbn. exact HF.
Qed.

(* ---------- one Read call of one reader ---------- *)
Lemma reader_read_inv st0 E lookup n r :
  0 < n -> RInv st0 E r -> lk_ok st0 (r_todo r) lookup ->
  RInv st0 E (fst (reader_read lookup n r)) /\ incl (r_todo (fst (reader_read lookup n r))) (r_todo r).
Proof.
  intros Hn HI LK. unfold reader_read. destruct (r_st r) eqn:RS.
  - exact (read_loop_inv st0 E lookup n Hn (read_fuel r) r RS HI LK).
  - unfold RInv in HI. rewrite RS in HI. destruct HI as (O1 & O2 & O3).
    unfold read_fuel. rewrite O2. cbn. rewrite O3, O2. cbn. split; [unfold RInv; cbn; auto|intros x []].
  - cbn. split; [exact HI|apply incl_refl].
Qed.

Lemma reader_read_nofail st0 E lookup n r :
  RInv st0 E r -> (forall e, In e (r_todo r) -> lookup (e_pid e) <> None) -> r_st r <> Failed ->
  r_st (fst (reader_read lookup n r)) <> Failed.
Proof.
  intros HI HL HF. unfold reader_read. destruct (r_st r) eqn:RS; [| |contradiction].
  - intros F. destruct (read_loop_status (read_fuel r) lookup n r RS F) as (e & He & Le). exact (HL e He Le).
  - unfold RInv in HI. rewrite RS in HI. destruct HI as (_ & O2 & O3).
    unfold read_fuel. rewrite O2. cbn. rewrite O3, O2. cbn. discriminate.
Qed.

(* ---------- several range readers sharing one read transaction ---------- *)
Lemma set_nth_length {A} (l : list A) i x : length (set_nth l i x) = length l.
Proof. revert i. induction l as [|y l IH]; intros [|i]; cbn; try reflexivity. rewrite IH. reflexivity. Qed.
Lemma nth_set_nth_same {A} (l : list A) i x y : nth_error l i = Some y -> nth_error (set_nth l i x) i = Some x.
Proof. revert i. induction l as [|z l IH]; intros [|i] H; cbn in *; try discriminate; [reflexivity|]. apply IH. exact H. Qed.
Lemma nth_set_nth_other {A} (l : list A) i j x : i <> j -> nth_error (set_nth l i x) j = nth_error l j.
Proof.
  revert i j. induction l as [|z l IH]; intros [|i] [|j] H; cbn; try reflexivity; [contradiction|]. apply IH. lia.
Qed.
Lemma all_true_nth l i : all_true l = true -> nth_error l i = Some false -> False.
Proof.
  unfold all_true. intros H N. apply nth_error_In in N. rewrite forallb_forall in H. specialize (H false N). discriminate.
Qed.

Definition MInv (st0 : pstore) (todos : list (list entry)) (s : msys) : Prop :=
  (forall i r, nth_error (ms_rds s) i = Some r ->
      exists todo, nth_error todos i = Some todo /\ RInv st0 (expected st0 todo) r /\ incl (r_todo r) todo) /\
  ms_snap s = st0 /\ env_ok st0 (concat todos) (ms_store s) /\
  (ms_tx s = true \/ all_true (ms_closed s) = true) /\
  (ms_mode s = Snapshot -> forall i r, nth_error (ms_rds s) i = Some r -> nth_error (ms_closed s) i = Some false ->
      r_st r <> Failed).

Lemma in_concat_nth {A} (ls : list (list A)) i l x : nth_error ls i = Some l -> In x l -> In x (concat ls).
Proof.
  revert i. induction ls as [|y ls IH]; intros [|i] H Hx; cbn in *; try discriminate.
  - inversion H; subst. apply in_or_app. left. exact Hx.
  - apply in_or_app. right. eapply IH; eassumption.
Qed.

Lemma mstart_inv m st0 todos : MInv st0 todos (mstart m st0 todos).
Proof.
  unfold MInv, mstart. cbn. split; [|split; [reflexivity|split; [apply env_ok_refl|split]]].
  - intros i r H. rewrite nth_error_map in H. destruct (nth_error todos i) as [todo|] eqn:T; [|discriminate].
    cbn in H. inversion H; subst. exists todo. split; [reflexivity|]. split; [|apply incl_refl].
    unfold RInv, mk_reader, rest_of. cbn. reflexivity.
  - destruct todos; cbn; [right; reflexivity|left; reflexivity].
  - intros _ i r H _. rewrite nth_error_map in H. destruct (nth_error todos i); [|discriminate].
    cbn in H. inversion H; subst. cbn. discriminate.
Qed.

Lemma msys_step_inv st0 todos s l :
  (forall e, In e (concat todos) -> ps_get st0 (e_pid e) <> None) ->
  MInv st0 todos s -> mlabels_ok st0 (concat todos) [l] -> MInv st0 todos (fst (msys_step s l)).
Proof.
  intros HP (HR & HN & HE & HT & HF) HL. destruct l as [i n|i|st'].
  - destruct HL as [Hn _]. cbn [msys_step].
    destruct (nth_error (ms_rds s) i) as [r|] eqn:NR; [|cbn; repeat split; assumption].
    destruct (nth_error (ms_closed s) i) as [[|]|] eqn:NC; try (cbn; repeat split; assumption).
    destruct (HR i r NR) as (todo & T & RI & INC).
    set (lookup := match ms_mode s with TxFree => ps_get (ms_store s)
                   | Snapshot => if ms_tx s then ps_get (ms_snap s) else (fun _ => None) end).
    assert (LK : lk_ok st0 (r_todo r) lookup).
    { intros e He. subst lookup. destruct (ms_mode s).
      - apply HE. eapply in_concat_nth; [exact T|]. apply INC. exact He.
      - destruct (ms_tx s); [rewrite HN; left; reflexivity|right; reflexivity]. }
    destruct (reader_read_inv st0 (expected st0 todo) lookup n r Hn RI LK) as [I1 I2].
    destruct (reader_read lookup n r) as [r' o] eqn:RR. cbn [fst] in *.
    split; [|split; [exact HN|split; [exact HE|split; [exact HT|]]]].
    + intros j rj Hj. cbn [ms_rds] in Hj. destruct (Nat.eq_dec i j) as [<-|NE].
      * rewrite (nth_set_nth_same _ _ _ _ NR) in Hj. inversion Hj; subst rj. exists todo. split; [exact T|].
        split; [exact I1|]. intros x Hx. apply INC. apply I2. exact Hx.
      * rewrite (nth_set_nth_other _ _ _ _ NE) in Hj. apply HR. exact Hj.
    + intros HM j rj Hj Cj. cbn [ms_rds ms_closed ms_mode] in *. destruct (Nat.eq_dec i j) as [<-|NE].
      * rewrite (nth_set_nth_same _ _ _ _ NR) in Hj. inversion Hj; subst rj.
        assert (TX : ms_tx s = true) by (destruct HT as [X|X]; [exact X|exfalso; eapply all_true_nth; eassumption]).
        pose proof (reader_read_nofail st0 (expected st0 todo) lookup n r RI) as NF. rewrite RR in NF. cbn in NF.
        apply NF; [|exact (HF HM i r NR NC)].
        intros e He. subst lookup. rewrite HM, TX, HN. apply HP. eapply in_concat_nth; [exact T|]. apply INC. exact He.
      * rewrite (nth_set_nth_other _ _ _ _ NE) in Hj. apply (HF HM j rj Hj Cj).
  - cbn [msys_step]. destruct (nth_error (ms_closed s) i) as [[|]|] eqn:NC; try (cbn; repeat split; assumption).
    cbn. split; [exact HR|split; [exact HN|split; [exact HE|split]]].
    + destruct (all_true (set_nth (ms_closed s) i true)) eqn:AT; [right; exact AT|].
      destruct HT as [X|X]; [left; rewrite X; reflexivity|exfalso; eapply all_true_nth; eassumption].
    + intros HM j rj Hj Cj. cbn [ms_rds ms_closed ms_mode] in *. destruct (Nat.eq_dec i j) as [<-|NE].
      * pose proof (nth_set_nth_same (ms_closed s) i true false NC) as X. congruence.
      * pose proof (nth_set_nth_other (ms_closed s) i j true NE) as X. apply (HF HM j rj Hj). congruence.
  - destruct HL as [HE' _]. cbn. repeat split; assumption.
Qed.

Lemma msys_run_inv st0 todos :
  (forall e, In e (concat todos) -> ps_get st0 (e_pid e) <> None) ->
  forall ls s, MInv st0 todos s -> mlabels_ok st0 (concat todos) ls -> MInv st0 todos (fst (msys_run s ls)).
Proof.
  intros HP. induction ls as [|l ls IH]; intros s HI HL; cbn [msys_run]; [exact HI|].
  destruct (msys_step s l) as [s1 o] eqn:ST. destruct (msys_run s1 ls) as [s2 os] eqn:SR. cbn.
  assert (MInv st0 todos s1) as H1.
  { change s1 with (fst (s1, o)). rewrite <- ST. apply msys_step_inv; [exact HP|exact HI|].
    destruct l; cbn in HL |- *; try destruct HL as [A _]; auto. }
  change s2 with (fst (s2, os)). rewrite <- SR. apply IH; [exact H1|]. destruct l; cbn in HL; tauto.
Qed.

(* the outbox view: a part with a pending DeletePart entry is invisible, anything else is what the inner store holds *)
Lemma ob_visible_get inner pend pid :
  ps_get (ob_visible inner pend) pid = if existsb (N.eqb pid) pend then None else ps_get inner pid.
Proof.
  unfold ob_visible. induction inner as [|[q c] inner IH]; cbn [filter ps_get fst]; [destruct (existsb _ pend); reflexivity|].
  destruct (existsb (N.eqb q) pend) eqn:Q; cbn [negb].
  - rewrite IH. destruct (N.eqb q pid) eqn:E; [|reflexivity]. apply N.eqb_eq in E. subst q. rewrite Q. reflexivity.
  - cbn [ps_get]. destruct (N.eqb q pid) eqn:E.
    + apply N.eqb_eq in E. subst q. rewrite Q. reflexivity.
    + exact IH.
Qed.

Lemma ob_env_ok st0 todo inner pend :
  env_ok st0 todo inner -> env_ok st0 todo (ob_visible inner pend).
Proof.
  intros H e He. rewrite ob_visible_get. destruct (existsb _ pend); [right; reflexivity|apply H; exact He].
Qed.

Lemma rinv_prefix st0 E r : RInv st0 E r -> (exists t, E = r_out r ++ t) /\ (r_st r = AtEof -> r_out r = E).
Proof.
  unfold RInv. destruct (r_st r) eqn:RS; intros HI.
  - split; [eexists; symmetry; exact HI|discriminate].
  - destruct HI as (O1 & _). split; [exists []; rewrite app_nil_r; symmetry; exact O1|intros _; exact O1].
  - split; [exact HI|discriminate].
Qed.

Lemma msys_run_mode ls : forall s, ms_mode (fst (msys_run s ls)) = ms_mode s.
Proof.
  induction ls as [|l ls IH]; intros s; cbn [msys_run]; [reflexivity|].
  destruct (msys_step s l) as [s1 o] eqn:ST. destruct (msys_run s1 ls) as [s2 os] eqn:SR. cbn.
  change s2 with (fst (s2, os)). rewrite <- SR, IH. change s1 with (fst (s1, o)). rewrite <- ST.
  destruct l as [i n|i|st']; cbn [msys_step].
  - destruct (nth_error (ms_rds s) i); [|reflexivity]. destruct (nth_error (ms_closed s) i) as [[|]|]; try reflexivity.
    destruct (reader_read _ n r). reflexivity.
  - destruct (nth_error (ms_closed s) i) as [[|]|]; reflexivity.
  - reflexivity.
Qed.

Lemma multi_range_full m st0 todos ls :
  (forall e, In e (concat todos) -> ps_get st0 (e_pid e) <> None) -> mlabels_ok st0 (concat todos) ls ->
  let s := fst (msys_run (mstart m st0 todos) ls) in
  (forall i r, nth_error (ms_rds s) i = Some r ->
     exists todo, nth_error todos i = Some todo /\ (exists t, expected st0 todo = r_out r ++ t) /\
                  (r_st r = AtEof -> r_out r = expected st0 todo)) /\
  (m = Snapshot -> forall i r, nth_error (ms_rds s) i = Some r -> nth_error (ms_closed s) i = Some false -> r_st r <> Failed).
Proof.
  intros HP HL s. pose proof (msys_run_inv st0 todos HP ls _ (mstart_inv m st0 todos) HL) as (HR & _ & _ & _ & HF).
  fold s in HR, HF. split.
  - intros i r H. destruct (HR i r H) as (todo & T & RI & _). exists todo. split; [exact T|]. apply (rinv_prefix st0). exact RI.
  - intros HM. apply HF. unfold s. rewrite msys_run_mode. exact HM.
Qed.
