(* Proofs/MetaGcSafe.v — C08, collector half: the invariant of the storage operations is preserved by
   every GC step, a condemned id stays dead until (and after) its external delete, for every
   interleaving of operation transactions and GC steps of any number of collectors.
   The three facts about Meta.step are Section hypotheses (proved in Proofs/MetaPartsOps.v by p-meta2);
   after the section closes they are explicit premises of every theorem. *)
From Coq Require Import Lia ZifyBool ZifyN ZifyNat.
From Verif Require Import Bytes Codec Md5 Meta MetaGc MetaPartsDefs MetaGcBasics.

(* an observation that makes the reconcile loop do nothing *)
Definition harmless (o : obs) : Prop := ob_ref o = Some (ob_actual o) /\ ob_actual o <> 0%N.

Definition GInv (g : gstate) : Prop :=
  PartsInv (ms g)
  /\ Forall harmless (g_obs g)
  /\ Forall (fun p => (p < next_id (ms g))%N) (g_cand g)
  /\ Forall (Dead (ms g)) (g_cond g).

Lemma GInv_intro g :
  PartsInv (ms g) -> Forall harmless (g_obs g) -> Forall (fun p => (p < next_id (ms g))%N) (g_cand g) ->
  Forall (Dead (ms g)) (g_cond g) -> GInv g.
Proof. unfold GInv. auto. Qed.

Lemma harmless_noop s o b : harmless o -> apply_obs s o b = s.
Proof.
  intros [Hr Hz]. unfold apply_obs. rewrite Hr.
  destruct (N.eqb_spec (ob_actual o) 0); [contradiction|]. now rewrite N.eqb_refl.
Qed.

Lemma In_nodup_N x l : In x (nodup_N l) -> In x l.
Proof.
  induction l as [|y l IH]; cbn; auto. destruct (mem_N y l); cbn; intuition.
Qed.

Lemma reconciliation_harmless s : PartsInv s -> Forall harmless (reconciliation s).
Proof.
  intros [Hreg _]. unfold reconciliation. apply Forall_app. split; apply Forall_forall; intros o Ho.
  - apply in_map_iff in Ho. destruct Ho as [p [<- Hp]]. apply In_nodup_N in Hp.
    apply in_map_iff in Hp. destruct Hp as [row [<- Hrow]].
    pose proof (count_rows_pos s row Hrow) as Hpos.
    unfold harmless. cbn. rewrite live_rows_count. split; auto.
    rewrite Hreg. destruct (N.eqb_spec (count_rows s (p_pid row)) 0); [contradiction|reflexivity].
  - apply in_map_iff in Ho. destruct Ho as [[p c] [<- Hp]]. apply filter_In in Hp. cbn in Hp.
    destruct Hp as [Hin Hz]. rewrite live_rows_count in Hz. apply N.eqb_eq in Hz.
    specialize (Hreg p). rewrite Hz in Hreg. cbn in Hreg.
    exfalso. eapply reg_get_None_notin; eauto.
Qed.

Lemma init_PartsInv : PartsInv init.
Proof. repeat split; cbn; intros; try contradiction; try discriminate; auto. Qed.
Lemma ginit_GInv : GInv ginit.
Proof. apply GInv_intro; cbn; auto using init_PartsInv. Qed.

(* ---- Dead and PartsInv under the collector's writes ---- *)
Lemma Dead_dedup_shrink s d pid :
  (forall e, In e d -> In e (dedup s)) -> Dead s pid -> Dead (set_dedup s d) pid.
Proof. intros Hsub (H1 & H2 & H3 & H4). repeat split; auto. intros c Hc. eapply H3; eauto. Qed.

Lemma PartsInv_dedup s d :
  PartsInv s ->
  (forall c p, In (c, p) d -> In (c, p) (dedup s) \/ exists row, In row (parts s) /\ p_content row = c /\ p_pid row = p) ->
  PartsInv (set_dedup s d).
Proof.
  intros (H1 & H2 & H3 & H4) Hd. repeat split; auto; cbn [dedup registry store set_dedup] in *.
  - destruct (Hd _ _ H) as [Hin|[row [Hrow [_ <-]]]]; [now apply H3 in Hin|].
    rewrite H1. pose proof (count_rows_pos s row Hrow).
    destruct (N.eqb_spec (count_rows s (p_pid row)) 0); [contradiction|discriminate].
  - destruct (Hd _ _ H) as [Hin|[row [Hrow [<- <-]]]]; [now apply H3 in Hin|]. auto.
Qed.

Lemma prune_backfill_PartsInv s : PartsInv s -> PartsInv (prune_backfill s).
Proof.
  intros H. destruct (prune_backfill_shape s) as [d Hd].
  pose proof (prune_backfill_dedup_In s) as Hin. rewrite Hd in *. cbn [dedup set_dedup] in Hin.
  apply PartsInv_dedup; auto. intros c p Hc. destruct (Hin c p Hc) as [[? _]|?]; auto.
Qed.
Lemma prune_backfill_Dead s pid : Dead s pid -> Dead (prune_backfill s) pid.
Proof.
  intros HD. destruct (prune_backfill_shape s) as [d Hd].
  pose proof (prune_backfill_dedup_In s) as Hin. rewrite Hd in *. cbn [dedup set_dedup] in Hin.
  destruct HD as (H1 & H2 & H3 & H4). repeat split; auto. cbn [dedup set_dedup].
  intros c Hc. destruct (Hin c pid Hc) as [[? _]|[row [Hrow [_ Hp]]]]; [eapply H3; eauto|].
  eapply count_rows_zero; eauto.
Qed.

Lemma store_del_PartsInv s pid : PartsInv s -> Dead s pid -> PartsInv (store_del s pid).
Proof.
  intros (H1 & H2 & H3 & H4) (D1 & D2 & D3 & D4). unfold store_del.
  repeat split; cbn [parts registry dedup store next_id set_store]; auto.
  - intros row Hrow. rewrite store_get_del_other; auto. eapply count_rows_zero; eauto.
  - now apply H3 in H.
  - destruct (H3 _ _ H) as [_ Hs]. rewrite store_get_del_other; auto.
    intros ->. eapply D3; eauto.
  - intros p c Hin. apply filter_In in Hin. destruct Hin as [Hin _]. eauto.
Qed.
Lemma store_del_Dead s pid q : Dead s q -> Dead (store_del s pid) q.
Proof. intros (D1 & D2 & D3 & D4). repeat split; auto. Qed.

(* under the invariant Condemn never finds a zero-count registry row: it condemns exactly when no
   registry row and no part row exists, and writes only the dedup index *)
Lemma condemn_one_GInv g pid :
  GInv g -> (pid < next_id (ms g))%N -> GInv (condemn_one g pid).
Proof.
  intros (HP & HO & HC & HD) Hlt. unfold condemn_one.
  destruct (condemn_check (ms g) pid) as [[|] s'] eqn:Ec; [|apply GInv_intro; auto].
  pose proof (condemn_check_true _ _ _ Ec) as (Hz & Hr & Hparts & Hstore & Hdedup & Hnext & Hoth).
  assert (s' = ms g) as ->.
  { unfold condemn_check in Ec. destruct HP as (H1 & _). rewrite (H1 pid), Hz in Ec. cbn in Ec.
    now inversion Ec. }
  unfold drop_dedup_of.
  assert (forall e, In e (filter (fun x => negb (N.eqb (snd x) pid)) (dedup (ms g))) -> In e (dedup (ms g))) as Hsub
    by (intros e He; apply filter_In in He; tauto).
  assert (PartsInv (set_dedup (ms g) (filter (fun x => negb (N.eqb (snd x) pid)) (dedup (ms g))))) as HP'.
  { apply PartsInv_dedup; auto. }
  apply GInv_intro; cbn [ms g_obs g_cand g_cond set_cond set_ms]; auto.
  apply Forall_app. split.
  - eapply Forall_impl; [|exact HD]. intros q. now apply Dead_dedup_shrink.
  - constructor; [|constructor]. unfold Dead. split; [exact Hz|]. split; [exact Hr|]. split; [|exact Hlt].
    cbn [dedup set_dedup]. intros c Hc. apply filter_In in Hc. cbn in Hc. rewrite N.eqb_refl in Hc.
    destruct Hc. discriminate.
Qed.

Lemma orphan_put_PartsInv s c : PartsInv s -> PartsInv (snd (orphan_put s c)).
Proof.
  intros (H1 & H2 & H3 & H4). unfold orphan_put, fresh, store_put. cbn.
  assert (forall p c0, store_get (store s) p = Some c0 -> N.eqb (next_id s) p = false) as Hfresh.
  { intros p c0 Hs. apply store_get_In in Hs. apply H4 in Hs. lia. }
  unfold PartsInv. cbn. split; [exact H1|]. split; [|split].
  - intros row Hrow. rewrite (Hfresh _ _ (H2 row Hrow)). auto.
  - intros c0 pid Hin. destruct (H3 _ _ Hin) as [Ha Hb]. split; auto. now rewrite (Hfresh _ _ Hb).
  - intros p c0 [Heq|Hin]; [inversion Heq; lia|]. apply H4 in Hin. lia.
Qed.
Lemma orphan_put_Dead s c pid : Dead s pid -> Dead (snd (orphan_put s c)) pid.
Proof. intros (D1 & D2 & D3 & D4). unfold orphan_put, fresh, store_put. repeat split; cbn; auto. lia. Qed.

Section Interleavings.
  Hypothesis step_parts_inv : forall i h s o, PartsInv s -> PartsInv (fst (step i h s o)).
  Hypothesis step_dead : forall i h s o pid, PartsInv s -> Dead s pid -> Dead (fst (step i h s o)) pid.
  Hypothesis step_next_id_mono : forall i h s o, PartsInv s -> (next_id s <= next_id (fst (step i h s o)))%N.

  Lemma op_GInv g i h o : GInv g -> GInv (set_ms g (fst (step i h (ms g) o))).
  Proof.
    intros (HP & HO & HC & HD). apply GInv_intro; cbn [ms g_obs g_cand g_cond set_ms]; auto.
    - eapply Forall_impl; [|exact HC]. intros p Hp. cbn in Hp.
      pose proof (step_next_id_mono i h (ms g) o HP). lia.
    - eapply Forall_impl; [|exact HD]. intros p. now apply step_dead.
  Qed.

  Lemma Forall_remove_nth {A} (P : A -> Prop) k l : Forall P l -> Forall P (remove_nth k l).
  Proof.
    intros H. apply Forall_forall. intros x Hx. apply nth_error_remove_nth_In in Hx.
    rewrite Forall_forall in H. auto.
  Qed.

  Lemma gstep_GInv g st : GInv g -> GInv (gstep_fn g st).
  Proof.
    intros HG. destruct st; cbn [gstep_fn].
    - now apply op_GInv.
    - destruct HG as (HP & HO & HC & HD). apply GInv_intro; cbn; auto.
      apply Forall_app. split; auto using reconciliation_harmless.
    - destruct (nth_error (g_obs g) k) as [o|] eqn:En; auto.
      destruct HG as (HP & HO & HC & HD).
      assert (harmless o) as Hh by (rewrite Forall_forall in HO; apply HO; eapply nth_error_In; eauto).
      rewrite harmless_noop by auto.
      apply GInv_intro; cbn; auto using Forall_remove_nth.
    - destruct HG as (HP & HO & HC & HD).
      assert (next_id (prune_backfill (ms g)) = next_id (ms g)) as Hn
        by (destruct (prune_backfill_shape (ms g)) as [d ->]; reflexivity).
      apply GInv_intro; cbn [ms g_obs g_cand g_cond set_ms]; auto.
      + now apply prune_backfill_PartsInv.
      + eapply Forall_impl; [|exact HD]. intros p. apply prune_backfill_Dead.
    - destruct HG as (HP & HO & HC & HD). apply GInv_intro; cbn; auto.
      apply Forall_app. split; auto. apply Forall_forall. intros p Hp.
      apply filter_In in Hp. destruct Hp as [Hp _]. apply in_map_iff in Hp. destruct Hp as [[q c] [<- Hin]].
      destruct HP as (_ & _ & _ & H4). eauto.
    - destruct (nth_error (g_cand g) k) as [pid|] eqn:En; auto.
      destruct HG as (HP & HO & HC & HD).
      apply condemn_one_GInv.
      + apply GInv_intro; cbn; auto using Forall_remove_nth.
      + cbn. rewrite Forall_forall in HC. apply HC. eapply nth_error_In; eauto.
    - destruct (nth_error (g_cond g) k) as [pid|] eqn:En; auto.
      destruct HG as (HP & HO & HC & HD).
      assert (Dead (ms g) pid) as Hd by (rewrite Forall_forall in HD; apply HD; eapply nth_error_In; eauto).
      apply GInv_intro; cbn [ms g_obs g_cand g_cond set_ms set_cond]; auto.
      { now apply store_del_PartsInv. }
      apply Forall_remove_nth. eapply Forall_impl; [|exact HD]. intros q. apply store_del_Dead.
    - destruct HG as (HP & HO & HC & HD). apply GInv_intro; cbn; auto using Forall_remove_nth.
    - destruct HG as (HP & HO & HC & HD). apply GInv_intro; cbn [ms g_obs g_cand g_cond set_ms]; auto.
      + now apply orphan_put_PartsInv.
      + eapply Forall_impl; [|exact HC]. intros p Hp. cbn in *. lia.
      + eapply Forall_impl; [|exact HD]. intros p. apply orphan_put_Dead.
    - destruct HG as (HP & HO & HC & HD). apply GInv_intro; cbn; auto.
    - pose proof (op_GInv g i h o HG) as HG'.
      destruct (step i h (ms g) o) as [s' r] eqn:Es. cbn [fst] in HG'.
      destruct HG' as (HP & HO & HC & HD). apply GInv_intro; cbn [ms g_obs g_cand g_cond set_ms set_junk]; auto.
  Qed.

  Lemma trace_GInv tr : forall g, GInv g -> GInv (run_trace g tr).
  Proof.
    induction tr as [|st tr IH]; cbn; auto. intros g HG. apply IH. now apply gstep_GInv.
  Qed.

  (* every part row of every reachable state has its bytes in the store *)
  Lemma safe_from g tr : GInv g ->
    forall row, In row (parts (ms (run_trace g tr))) ->
      store_get (store (ms (run_trace g tr))) (p_pid row) = Some (p_content row).
  Proof. intros HG. destruct (trace_GInv tr g HG) as ((_ & H2 & _) & _). exact H2. Qed.

  (* a condemned id is never referenced again, whatever happens before or after its external delete *)
  Lemma dead_forever tr : forall g pid, GInv g -> In pid (g_cond g) ->
    Dead (ms (run_trace g tr)) pid.
  Proof.
    (* strengthen: keep the id in an extra slot of the condemned pool that no step removes *)
    assert (forall tr g pid, GInv g -> Dead (ms g) pid -> Dead (ms (run_trace g tr)) pid) as H.
    { induction tr0 as [|st tr0 IH]; cbn; auto. intros g pid HG HD. apply IH; [now apply gstep_GInv|].
      destruct HG as (HP & HO & HC & HDs).
      destruct st; cbn [gstep_fn]; cbn [ms set_ms set_obs set_cand set_cond set_junk]; auto.
      - destruct (nth_error (g_obs g) k) as [o|] eqn:En; auto. cbn.
        rewrite harmless_noop; auto. rewrite Forall_forall in HO. apply HO. eapply nth_error_In; eauto.
      - now apply prune_backfill_Dead.
      - destruct (nth_error (g_cand g) k) as [q|] eqn:En; auto.
        unfold condemn_one. cbn [ms set_cand].
        destruct (condemn_check (ms g) q) as [[|] s'] eqn:Ec; auto. cbn.
        assert (s' = ms g) as ->.
        { pose proof (condemn_check_true _ _ _ Ec) as (Hz & _).
          unfold condemn_check in Ec. destruct HP as (H1 & _). rewrite (H1 q), Hz in Ec. cbn in Ec.
          now inversion Ec. }
        apply Dead_dedup_shrink; auto. intros e He. apply filter_In in He. tauto.
      - destruct (nth_error (g_cond g) k) as [q|] eqn:En; auto.
      - now apply orphan_put_Dead.
      - pose proof (step_dead i h (ms g) o pid HP HD) as Hd.
        destruct (step i h (ms g) o) as [s' r]. exact Hd. }
    intros g pid HG Hin. apply H; auto. destruct HG as (_ & _ & _ & HD). rewrite Forall_forall in HD. auto.
  Qed.
End Interleavings.

(* reading an object whose part rows are all present returns the concatenation of the recorded contents *)
Lemma read_parts_ok s ps :
  (forall row, In row ps -> store_get (store s) (p_pid row) = Some (p_content row)) ->
  read_parts s ps = Some (concat (map p_content ps)).
Proof.
  unfold read_parts.
  assert (forall l acc, (forall row, In row l -> store_get (store s) (p_pid row) = Some (p_content row)) ->
            fold_left (fun acc p => match acc, store_get (store s) (p_pid p) with
                                    | Some a, Some c => Some (a ++ c)
                                    | _, _ => None
                                    end) l (Some acc) = Some (acc ++ concat (map p_content l))) as H.
  { induction l as [|x l IH]; cbn; intros acc Hl; [now rewrite app_nil_r|].
    rewrite (Hl x) by now left. rewrite IH by (intros; apply Hl; now right). now rewrite app_assoc. }
  intros Hl. now rewrite (H ps [] Hl).
Qed.

Lemma In_insert_sorted p q l : In q (insert_sorted p l) -> q = p \/ In q l.
Proof.
  induction l as [|x l IH]; cbn; [intuition|].
  destruct (p_seq p <=? p_seq x)%N; cbn; intuition.
Qed.
Lemma In_sort_parts q l : In q (sort_parts l) -> In q l.
Proof.
  unfold sort_parts. induction l as [|x l IH]; cbn; auto.
  intros H. apply In_insert_sorted in H. intuition.
Qed.
Lemma row_parts_sub s r row : In row (row_parts s r) -> In row (parts s).
Proof.
  unfold row_parts, obj_parts. intros H. apply In_sort_parts in H. apply filter_In in H. tauto.
Qed.
