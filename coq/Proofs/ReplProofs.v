(* Proofs/ReplProofs.v — lockstep of the replication wrapper model. *)
From Verif Require Import Bytes Codec ObjCache Repl.
Local Open Scope N_scope.

(* ---------- the filtered calls sent to the secondaries ---------- *)
Lemma put_strip m k cid ct me tg cl c m' :
  m_put m k cid ct me tg cl c = (m', Ok) -> m_put m k cid ct me tg cl PNone = (m', Ok).
Proof.
  unfold m_put. destruct (match c with PNone => _ | _ => _ end); intros E; inversion E; reflexivity.
Qed.
Lemma append_strip m k cid off m' :
  m_append m k cid off = (m', Ok) -> m_append m k cid None = (m', Ok).
Proof.
  unfold m_append. destruct (match off with None => _ | _ => _ end); intros E; inversion E; reflexivity.
Qed.

(* ---------- forwarding ---------- *)
Lemma fwd_all_ok (f : store -> store * err) (g : store -> store) l :
  (forall t, In t l -> f t = (g t, Ok)) -> fwd f l = (map g l, Ok).
Proof.
  induction l as [|t l IH]; intros H; cbn [fwd map]; [reflexivity|].
  rewrite (H t (or_introl eq_refl)). rewrite IH by (intros t' I; apply H; right; exact I). reflexivity.
Qed.
Lemma fwd_ids_all_ok (f : store -> N -> store * err) (g : store -> store) (idf : store -> N) l :
  (forall t, In t l -> f t (idf t) = (g t, Ok)) -> fwd_ids f l (map idf l) = Some (map g l, Ok).
Proof.
  induction l as [|t l IH]; intros H; cbn [fwd_ids map]; [reflexivity|].
  rewrite (H t (or_introl eq_refl)). rewrite IH by (intros t' I; apply H; right; exact I). reflexivity.
Qed.

(* ---------- upload ids ---------- *)
Lemma pos_of_off t j : pos_of t (t_off t + N.of_nat j) = Some j.
Proof.
  unfold pos_of. destruct (t_off t + N.of_nat j <? t_off t) eqn:E.
  - apply N.ltb_lt in E. lia.
  - f_equal. lia.
Qed.
Lemma pos_of_Some t id j : pos_of t id = Some j -> id = t_off t + N.of_nat j.
Proof.
  unfold pos_of. destruct (id <? t_off t) eqn:E; [discriminate|]. apply N.ltb_ge in E.
  intros H; inversion H. lia.
Qed.
Lemma mlookup_mdel_other id id' m : id <> id' -> mlookup id' (mdel id m) = mlookup id' m.
Proof.
  intros H. induction m as [|[i v] m IH]; cbn; [reflexivity|].
  destruct (i =? id) eqn:E.
  - apply N.eqb_eq in E; subst. destruct (id =? id') eqn:E2; [apply N.eqb_eq in E2; contradiction | exact IH].
  - cbn. destruct (i =? id'); [reflexivity | exact IH].
Qed.

Lemma nth_upd_nth_same {A} (f : A -> A) l j x : nth_error l j = Some x -> nth_error (upd_nth j f l) j = Some (f x).
Proof. revert j; induction l as [|y l IH]; intros [|j]; cbn; try discriminate; [intros E; inversion E; reflexivity | apply IH]. Qed.
Lemma nth_upd_nth_other {A} (f : A -> A) l j j' : j <> j' -> nth_error (upd_nth j f l) j' = nth_error l j'.
Proof.
  revert j j'; induction l as [|y l IH]; intros [|j] [|j'] H; cbn; try reflexivity; try congruence.
  apply IH. congruence.
Qed.

(* ---------- the lockstep relation ---------- *)
Definition same (p t : store) : Prop := t_objs t = t_objs p /\ t_ups t = t_ups p.
Definition sec_ids (secs : list store) (j : nat) : list N := map (fun t => t_off t + N.of_nat j) secs.
Definition rel (s : rst) : Prop :=
  Forall (same (p_prim s)) (p_secs s) /\
  (forall j u, nth_error (t_ups (p_prim s)) j = Some u -> ru_open u = true ->
     mlookup (t_off (p_prim s) + N.of_nat j) (p_map s) = Some (sec_ids (p_secs s) j)).

(* object calls *)
Lemma with_objs_id t : with_objs t (t_objs t) = t.
Proof. destruct t; reflexivity. Qed.

Lemma obj_call_rel s fp fs s' r :
  (forall m m', fp m = (m', Ok) -> fs m = (m', Ok)) ->
  (forall m m' e, fp m = (m', e) -> e <> Ok -> m' = m) ->
  rel s -> obj_call s fp fs = (s', r) ->
  rel s' /\ r = QS (snd (fp (t_objs (p_prim s)))).
Proof.
  intros Hs Hfail (HF & HM). unfold obj_call, on_objs.
  destruct (fp (t_objs (p_prim s))) as [m e] eqn:E. cbn [snd].
  assert (e <> Ok -> (mkRst (with_objs (p_prim s) m) (p_secs s) (p_map s) (p_ids s), QS e) = (s', r) ->
          rel s' /\ r = QS e) as Herr.
  { intros Hne X. rewrite (Hfail _ _ _ E Hne), with_objs_id in X. inversion X; subst.
    split; [|reflexivity]. destruct s; split; assumption. }
  destruct e; try (apply Herr; discriminate).
  rewrite (fwd_all_ok _ (fun t => with_objs t m)).
  - intros X; inversion X; subst. split; [|reflexivity]. split.
    + cbn [p_prim p_secs]. rewrite Forall_map. eapply Forall_impl; [|exact HF].
      intros t [A B0]. split; cbn; [reflexivity | exact B0].
    + cbn [p_prim p_secs p_map t_ups t_off with_objs]. intros j u Hn Ho.
      rewrite (HM j u Hn Ho). unfold sec_ids. rewrite map_map. reflexivity.
  - intros t I. rewrite Forall_forall in HF. destruct (HF t I) as [A _]. rewrite A.
    rewrite (Hs _ _ E). reflexivity.
Qed.

(* failing object calls leave the object map alone *)
Lemma put_fail m k cid ct me tg cl c m' e : m_put m k cid ct me tg cl c = (m', e) -> e <> Ok -> m' = m.
Proof. unfold m_put. destruct (match c with PNone => _ | _ => _ end); intros E; inversion E; congruence. Qed.
Lemma append_fail m k cid off m' e : m_append m k cid off = (m', e) -> e <> Ok -> m' = m.
Proof. unfold m_append. destruct (match off with None => _ | _ => _ end); intros E; inversion E; congruence. Qed.
Lemma copy_fail m a b0 rm ct me rt tg cl m' e : m_copy m a b0 rm ct me rt tg cl = (m', e) -> e <> Ok -> m' = m.
Proof. unfold m_copy. destruct (ocur m a) as [[o|]|]; intros E; inversion E; congruence. Qed.
Lemma delete_fail m k c m' e : m_delete m k c = (m', e) -> e <> Ok -> m' = m.
Proof.
  unfold m_delete. destruct (versioned k).
  - destruct (rcond_holds c (ocur_obj m k)); intros E; inversion E; congruence.
  - destruct (ocur_obj m k); [destruct (rcond_holds c (Some r))|destruct c]; intros E; inversion E; congruence.
Qed.
Lemma tag_fail m k tg m' e : m_tag m k tg = (m', e) -> e <> Ok -> m' = m.
Proof. unfold m_tag. destruct (ocur m k) as [[o|]|]; intros E; inversion E; congruence. Qed.
Lemma trans_fail m k cl c m' e : m_trans m k cl c = (m', e) -> e <> Ok -> m' = m.
Proof.
  unfold m_trans. destruct (class_ok cl); [|intros E; inversion E; congruence].
  destruct (ocur_obj m k); [destruct (rcond_holds c (Some r))|]; intros E; inversion E; congruence.
Qed.

(* multipart calls on corresponding ids of storages in the same state *)
Lemma mp_same (f : store -> N -> store * err) :
  (f = (fun t id => t_mabort t id) \/ f = (fun t id => t_mcomplete t id) \/ exists pn cid, f = (fun t id => t_mpart t id pn cid)) ->
  forall p t j p' e, same p t -> f p (t_off p + N.of_nat j) = (p', e) ->
  exists t', f t (t_off t + N.of_nat j) = (t', e) /\ same p' t' /\ t_off t' = t_off t /\ t_off p' = t_off p.
Proof.
  intros Hf p t j p' e [So Su] E.
  destruct p as [po pu poff], t as [to tu toff]. cbn in So, Su. subst to tu.
  destruct Hf as [-> | [-> | (pn & cid & ->)]]; cbn beta in *.
  - unfold t_mabort, find_up, t_upd in *. rewrite pos_of_off in *. cbn [t_ups t_objs t_off] in *.
    destruct (nth_error pu j) as [u|]; [destruct (ru_open u)|]; inversion E; subst;
      eexists; (split; [reflexivity|]); repeat split.
  - unfold t_mcomplete, find_up, t_upd in *. rewrite pos_of_off in *. cbn [t_ups t_objs t_off] in *.
    destruct (nth_error pu j) as [u|]; [destruct (ru_open u); [destruct (negb (seq_from 1 (ru_parts u)))|]|]; inversion E; subst;
      eexists; (split; [reflexivity|]); repeat split.
  - unfold t_mpart, find_up, t_upd in *. rewrite pos_of_off in *. cbn [t_ups t_objs t_off] in *.
    destruct (nth_error pu j) as [u|]; [destruct (ru_open u)|]; inversion E; subst;
      eexists; (split; [reflexivity|]); repeat split.
Qed.

(* what a successful multipart call does to the upload list of the storage *)
Lemma mp_effect (f : store -> N -> store * err) (drop : bool) :
  ((drop = true /\ (f = (fun t id => t_mabort t id) \/ f = (fun t id => t_mcomplete t id))) \/
   (drop = false /\ exists pn cid, f = (fun t id => t_mpart t id pn cid))) ->
  forall p id p', f p id = (p', Ok) ->
  exists j u, id = t_off p + N.of_nat j /\ nth_error (t_ups p) j = Some u /\ ru_open u = true /\
    (forall j', j' <> j -> nth_error (t_ups p') j' = nth_error (t_ups p) j') /\
    (exists u', nth_error (t_ups p') j = Some u' /\ ru_open u' = negb drop).
Proof.
  intros Hf p id p' E.
  assert (forall (h : rup -> rup) j u, nth_error (t_ups p) j = Some u ->
          (forall j', j' <> j -> nth_error (upd_nth j h (t_ups p)) j' = nth_error (t_ups p) j') /\
          nth_error (upd_nth j h (t_ups p)) j = Some (h u)) as Hupd.
  { intros h j u Hn. split; [intros j' Hne; apply nth_upd_nth_other; congruence | apply nth_upd_nth_same; exact Hn]. }
  destruct Hf as [[-> [-> | ->]] | [-> (pn & cid & ->)]]; cbn beta in E.
  - unfold t_mabort, find_up, t_upd in E. destruct (pos_of p id) as [j|] eqn:P; [|discriminate].
    destruct (nth_error (t_ups p) j) as [u|] eqn:Hn; [|discriminate]. destruct (ru_open u) eqn:Ho; [|discriminate].
    inversion E; subst. exists j, u. destruct (Hupd ru_close j u Hn) as [A B0].
    refine (conj _ (conj Hn (conj Ho (conj A _)))); [apply pos_of_Some; exact P | eexists; split; [exact B0 | reflexivity]].
  - unfold t_mcomplete, find_up, t_upd in E. destruct (pos_of p id) as [j|] eqn:P; [|discriminate].
    destruct (nth_error (t_ups p) j) as [u|] eqn:Hn; [|discriminate]. destruct (ru_open u) eqn:Ho; [|discriminate].
    destruct (negb (seq_from 1 (ru_parts u))); [discriminate|].
    inversion E; subst. exists j, u. destruct (Hupd ru_close j u Hn) as [A B0].
    refine (conj _ (conj Hn (conj Ho (conj A _)))); [apply pos_of_Some; exact P | eexists; split; [exact B0 | reflexivity]].
  - unfold t_mpart, find_up, t_upd in E. destruct (pos_of p id) as [j|] eqn:P; [|discriminate].
    destruct (nth_error (t_ups p) j) as [u|] eqn:Hn; [|discriminate]. destruct (ru_open u) eqn:Ho; [|discriminate].
    inversion E; subst. exists j, u.
    destruct (Hupd (fun x => ru_set_parts x (insert_part (pn, cid) (ru_parts x))) j u Hn) as [A B0].
    refine (conj _ (conj Hn (conj Ho (conj A _)))); [apply pos_of_Some; exact P | eexists; split; [exact B0 | reflexivity]].
Qed.

Lemma mp_fail (f : store -> N -> store * err) :
  (f = (fun t id => t_mabort t id) \/ f = (fun t id => t_mcomplete t id) \/ exists pn cid, f = (fun t id => t_mpart t id pn cid)) ->
  forall p id p' e, f p id = (p', e) -> e <> Ok -> p' = p.
Proof.
  intros Hf p id p' e E Hne. destruct Hf as [-> | [-> | (pn & cid & ->)]]; cbn beta in E.
  - unfold t_mabort in E. destruct (find_up p id) as [u|]; [destruct (ru_open u)|]; inversion E; congruence.
  - unfold t_mcomplete in E. destruct (find_up p id) as [u|]; [destruct (ru_open u); [destruct (negb _)|]|]; inversion E; congruence.
  - unfold t_mpart in E. destruct (find_up p id) as [u|]; [destruct (ru_open u)|]; inversion E; congruence.
Qed.

Lemma mp_call_rel s u f drop s' r :
  ((drop = true /\ (f = (fun t id => t_mabort t id) \/ f = (fun t id => t_mcomplete t id))) \/
   (drop = false /\ exists pn cid, f = (fun t id => t_mpart t id pn cid))) ->
  rel s -> mp_call s u f drop = (s', r) -> rel s' /\ r <> QPanic.
Proof.
  intros Hf (HF & HM) E. unfold mp_call in E.
  assert (f = (fun t id => t_mabort t id) \/ f = (fun t id => t_mcomplete t id) \/ exists pn cid, f = (fun t id => t_mpart t id pn cid)) as Hf3.
  { destruct Hf as [[_ [H|H]]|[_ H]]; auto. }
  destruct (nth_error (p_ids s) (N.to_nat u)) as [pid|]; [|inversion E; subst; split; [split; assumption | discriminate]].
  destruct (f (p_prim s) pid) as [p' e] eqn:Ep.
  assert (e <> Ok -> rel s' /\ r <> QPanic) as Herr.
  { intros Hne. rewrite (mp_fail f Hf3 _ _ _ _ Ep Hne) in E.
    destruct e; try congruence; inversion E; subst; (split; [destruct s; split; assumption | discriminate]). }
  destruct e; try (apply Herr; discriminate). clear Herr.
  destruct (mp_effect f drop Hf _ _ _ Ep) as (j & up & -> & Hn & Ho & Hoth & (up' & Hn' & Ho')).
  rewrite (HM j up Hn Ho) in E.
  (* every secondary performs the corresponding call successfully *)
  assert (forall t, In t (p_secs s) -> exists t', f t (t_off t + N.of_nat j) = (t', Ok) /\ same p' t' /\ t_off t' = t_off t) as Hsec.
  { intros t I. rewrite Forall_forall in HF.
    destruct (mp_same f Hf3 _ _ _ _ _ (HF t I) Ep) as (t' & A & B0 & C & _). exists t'. auto. }
  set (g := fun t => fst (f t (t_off t + N.of_nat j))).
  assert (forall t, In t (p_secs s) -> f t (t_off t + N.of_nat j) = (g t, Ok)) as Hg.
  { intros t I. destruct (Hsec t I) as (t' & A & _). unfold g. rewrite A. reflexivity. }
  unfold sec_ids in E. rewrite (fwd_ids_all_ok f g _ _ Hg) in E.
  assert (t_off p' = t_off (p_prim s)) as Hoff.
  { rewrite Forall_forall in HF. destruct (p_secs s) as [|t0 l] eqn:Es.
    - (* no secondaries: offsets of the primary are never touched by these calls *)
      destruct Hf3 as [-> | [-> | (pn & cid & ->)]]; cbn beta in Ep;
        [unfold t_mabort in Ep | unfold t_mcomplete in Ep | unfold t_mpart in Ep];
        unfold t_upd in Ep; destruct (find_up (p_prim s) _) as [x|]; try discriminate;
        destruct (ru_open x); try discriminate; try (destruct (negb _); try discriminate);
        destruct (pos_of (p_prim s) _); inversion Ep; reflexivity.
    - destruct (mp_same f Hf3 _ _ _ _ _ (HF t0 (or_introl eq_refl)) Ep) as (_ & _ & _ & _ & D). exact D. }
  inversion E; subst. split; [|discriminate]. split.
  - cbn [p_prim p_secs]. rewrite Forall_map. rewrite Forall_forall. intros t I.
    destruct (Hsec t I) as (t' & A & B0 & _). unfold g. rewrite A. exact B0.
  - cbn [p_prim p_secs p_map]. intros j' u' Hn2 Ho2. rewrite Hoff.
    assert (sec_ids (map g (p_secs s)) j' = sec_ids (p_secs s) j') as Hids.
    { unfold sec_ids. rewrite map_map. apply map_ext_in. intros t I. destruct (Hsec t I) as (t' & A & _ & C).
      unfold g. rewrite A. cbn [fst]. rewrite C. reflexivity. }
    rewrite Hids.
    destruct (Nat.eq_dec j' j) as [->|Hne].
    + rewrite Hn' in Hn2. inversion Hn2; subst u'. rewrite Ho2 in Ho'.
      destruct drop; [discriminate|]. apply HM with (u := up); assumption.
    + rewrite (Hoth j' Hne) in Hn2.
      destruct drop; [|apply HM with (u := u'); assumption].
      rewrite mlookup_mdel_other by lia. apply HM with (u := u'); assumption.
Qed.

Lemma mcreate_rel s k ct me tg cl s' r :
  rel s -> rstep s (QMCreate k ct me tg cl) = (s', r) -> rel s' /\ r = QS Ok.
Proof.
  intros (HF & HM) E. cbn [rstep] in E. unfold t_mcreate in E. inversion E; subst. clear E. split; [|reflexivity].
  rewrite map_map. cbn [fst snd].
  split; cbn [p_prim p_secs p_map with_ups t_ups t_objs t_off].
  - rewrite Forall_map. eapply Forall_impl; [|exact HF]. intros t [A B0]. split; cbn; congruence.
  - intros j u Hn Ho.
    assert (sec_ids (map (fun t => with_ups t (t_ups t ++ [mkRU k ct me tg cl [] true])) (p_secs s)) j = sec_ids (p_secs s) j) as Hids.
    { unfold sec_ids. rewrite map_map. reflexivity. }
    rewrite Hids. cbn [mlookup].
    destruct (Nat.lt_ge_cases j (length (t_ups (p_prim s)))) as [Hlt|Hge].
    + rewrite nth_error_app1 in Hn by exact Hlt.
      destruct (t_off (p_prim s) + N.of_nat (length (t_ups (p_prim s))) =? t_off (p_prim s) + N.of_nat j) eqn:Q.
      * apply N.eqb_eq in Q. lia.
      * apply HM with (u := u); assumption.
    + assert (j = length (t_ups (p_prim s))) as ->.
      { assert (j < length (t_ups (p_prim s) ++ [mkRU k ct me tg cl [] true]))%nat as L by (apply nth_error_Some; congruence).
        rewrite app_length in L. cbn in L. lia. }
      rewrite N.eqb_refl. f_equal. rewrite map_map. unfold sec_ids. apply map_ext_in. intros t I.
      rewrite Forall_forall in HF. destruct (HF t I) as [_ B0]. cbn [snd]. rewrite B0. reflexivity.
Qed.

Lemma delete_many_rel s b es s' r : rel s -> rstep s (QDeleteMany b es) = (s', r) -> rel s' /\ exists l, r = QDel l.
Proof.
  intros (HF & HM) E. cbn [rstep] in E.
  destruct (m_delete_many (t_objs (p_prim s)) b es) as [mp l] eqn:Ep.
  rewrite (fwd_all_ok _ (fun t => with_objs t mp)) in E.
  - inversion E; subst. split; [|eexists; reflexivity]. split; cbn [p_prim p_secs p_map with_objs t_ups t_off].
    + rewrite Forall_map. eapply Forall_impl; [|exact HF]. intros t [A B0]. split; cbn; [reflexivity | exact B0].
    + intros j u Hn Ho. rewrite (HM j u Hn Ho). unfold sec_ids. rewrite map_map. reflexivity.
  - intros t I. rewrite Forall_forall in HF. destruct (HF t I) as [A _]. unfold on_objs. rewrite A, Ep. reflexivity.
Qed.

Definition in_scope (o : rop) : bool := match o with QRestart => false | _ => true end.

Theorem lockstep s o : in_scope o = true -> rel s -> rel (fst (rstep s o)) /\ snd (rstep s o) <> QPanic.
Proof.
  intros S R. destruct o; try discriminate S; cbn [rstep].
  - destruct (obj_call s _ _) as [s' r] eqn:E. cbn [fst snd].
    destruct (obj_call_rel _ _ _ _ _ (fun m m' => put_strip m k cid ct meta tags cls c m')
                (fun m m' e => put_fail m k cid ct meta tags cls c m' e) R E) as [A ->]. split; [exact A | discriminate].
  - destruct (obj_call s _ _) as [s' r] eqn:E. cbn [fst snd].
    destruct (obj_call_rel _ _ _ _ _ (fun m m' => append_strip m k cid off m')
                (fun m m' e => append_fail m k cid off m' e) R E) as [A ->]. split; [exact A | discriminate].
  - destruct (obj_call s _ _) as [s' r] eqn:E. cbn [fst snd].
    destruct (obj_call_rel _ _ _ _ _ (fun m m' H => H)
                (fun m m' e => copy_fail m src dst rm ct meta rt tags cls m' e) R E) as [A ->]. split; [exact A | discriminate].
  - destruct (obj_call s _ _) as [s' r] eqn:E. cbn [fst snd].
    destruct (obj_call_rel _ _ _ _ _ (fun m m' H => H) (fun m m' e => delete_fail m k c m' e) R E) as [A ->].
    split; [exact A | discriminate].
  - destruct (rstep s (QDeleteMany b es)) as [s' r] eqn:E. cbn [rstep] in E. cbn [fst snd].
    destruct (delete_many_rel s b es s' r R E) as [A [l ->]]. rewrite E. split; [exact A | discriminate].
  - destruct (obj_call s _ _) as [s' r] eqn:E. cbn [fst snd].
    destruct (obj_call_rel _ _ _ _ _ (fun m m' H => H) (fun m m' e => tag_fail m k tags m' e) R E) as [A ->].
    split; [exact A | discriminate].
  - destruct (obj_call s _ _) as [s' r] eqn:E. cbn [fst snd].
    destruct (obj_call_rel _ _ _ _ _ (fun m m' H => H) (fun m m' e => trans_fail m k cls c m' e) R E) as [A ->].
    split; [exact A | discriminate].
  - destruct (rstep s (QMCreate k ct meta tags cls)) as [s' r] eqn:E. cbn [rstep] in E.
    destruct (mcreate_rel s k ct meta tags cls s' r R E) as [A ->]. rewrite E. split; [exact A | discriminate].
  - destruct (mp_call s u _ false) as [s' r] eqn:E. cbn [fst snd].
    eapply mp_call_rel; [|exact R | exact E]. right. split; [reflexivity|]. eexists _, _. reflexivity.
  - destruct (mp_call s u _ true) as [s' r] eqn:E. cbn [fst snd].
    eapply mp_call_rel; [|exact R | exact E]. left. split; [reflexivity|]. right. reflexivity.
  - destruct (mp_call s u _ true) as [s' r] eqn:E. cbn [fst snd].
    eapply mp_call_rel; [|exact R | exact E]. left. split; [reflexivity|]. left. reflexivity.
  - split; [exact R | discriminate].
  - split; [exact R | discriminate].
Qed.

Lemma rel_rst0 : rel rst0.
Proof.
  split; cbn.
  - repeat constructor.
  - intros [|j] u H; discriminate H.
Qed.

Lemma rel_objs_eq s : rel s -> forall t, In t (p_secs s) -> t_objs t = t_objs (p_prim s) /\ t_ups t = t_ups (p_prim s).
Proof. intros [HF _] t I. rewrite Forall_forall in HF. exact (HF t I). Qed.

(* the executable observation agrees: equal states are seen as converged *)
Lemma listN_eqb_refl l : listN_eqb l l = true.
Proof. induction l; cbn; [reflexivity|]. rewrite N.eqb_refl. exact IHl. Qed.
Lemma etag_eqb_refl e : etag_eqb e e = true.
Proof. destruct e; cbn; [apply N.eqb_refl | apply listN_eqb_refl]. Qed.
Lemma stack_eqb_refl l : stack_eqb l l = true.
Proof.
  induction l as [|v l IH]; cbn; [reflexivity|]. rewrite IH, andb_true_r.
  destruct v as [o|]; [|reflexivity]. unfold rver_eqb, robj_eqb.
  rewrite listN_eqb_refl, !N.eqb_refl, etag_eqb_refl. reflexivity.
Qed.
Lemma parts_eqb_refl l : parts_eqb l l = true.
Proof. induction l as [|x l IH]; cbn; [reflexivity|]. rewrite !N.eqb_refl, IH. reflexivity. Qed.
Lemma ups_eqb_refl l : ups_eqb l l = true.
Proof.
  induction l as [|x l IH]; cbn; [reflexivity|].
  unfold K_eqb. rewrite !N.eqb_refl, parts_eqb_refl, IH. reflexivity.
Qed.
Lemma rel_converged s : rel s -> converged s = true.
Proof.
  intros R. unfold converged. apply forallb_forall. intros t I.
  destruct (rel_objs_eq s R t I) as [A B0]. unfold same_view, open_ups. rewrite A, B0, ups_eqb_refl, andb_true_r.
  apply forallb_forall. intros k _. apply stack_eqb_refl.
Qed.

Theorem history_lockstep ops : forall s, forallb in_scope ops = true -> rel s ->
  Forall (fun rc => fst rc <> QPanic /\ snd rc = true) (rrun s ops).
Proof.
  induction ops as [|o ops IH]; intros s S R; cbn [rrun]; [constructor|].
  cbn in S. apply andb_true_iff in S as [S1 S2].
  destruct (lockstep s o S1 R) as [R1 NP]. destruct (rstep s o) as [s1 r]. cbn [fst snd] in *.
  constructor; [split; [exact NP | apply rel_converged; exact R1] | apply IH; assumption].
Qed.
