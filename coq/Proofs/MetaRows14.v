(* Proofs/MetaRows14.v — M-META: GET is stable under operations addressed elsewhere; the headline history-level
   statement of C01 (GET returns the bytes of the last acknowledged write); NoSuchKey / NoSuchBucket exactness. *)
From Verif Require Import Bytes Codec Md5 Meta MetaBasics MetaPartsDefs MetaParts MetaPartsOps MetaPartsOwned.
From Verif Require Import MetaRows1 MetaRows2 MetaRows3 MetaRows4 MetaRows5 MetaRows6 MetaRows7 MetaRows8 MetaRows9
  MetaRows10 MetaRows11 MetaRows12 MetaRows13.
From Coq Require Import ZifyBool ZifyN ZifyNat.

Lemma get_frame_eq s s' b k v :
  PartsInv s -> PartsInv s' -> krows s' b k = krows s b k ->
  (forall x, In x (krows s b k) -> obj_parts s' (o_id x) = obj_parts s (o_id x)) ->
  find_bucket s b <> None -> find_bucket s' b <> None -> op_get s' b k v = op_get s b k v.
Proof.
  intros P P' F1 F2 Hb Hb'. unfold op_get, lookup.
  destruct (find_bucket s b); [|congruence]. destruct (find_bucket s' b); [|congruence].
  assert (G : forall r, In r (krows s b k) ->
              read_parts s' (row_parts s' r) = read_parts s (row_parts s r)).
  { intros r Hr. rewrite (get_recorded_bytes s' r P'), (get_recorded_bytes s r P).
    unfold row_parts. rewrite (F2 r Hr). reflexivity. }
  destruct v as [v|]; rewrite ?find_latest_krows, ?find_version_krows, F1.
  - destruct (find _ (krows s b k)) as [r|] eqn:E; [|reflexivity]. apply find_some in E. destruct E as [Hr _].
    destruct (o_dm r); [reflexivity|]. rewrite (G r Hr). reflexivity.
  - destruct (find _ (krows s b k)) as [r|] eqn:E; [|reflexivity]. apply find_some in E. destruct E as [Hr _].
    destruct (o_dm r); [reflexivity|]. rewrite (G r Hr). reflexivity.
Qed.

Lemma get_obj_facts s b k v v' e sz lm ct bd : op_get s b k v = RObj v' e sz lm ct bd ->
  find_bucket s b <> None /\ exists x, In x (objs s) /\ o_bucket x = b.
Proof.
  intros Hh. unfold op_get, lookup in Hh. destruct (find_bucket s b); [|discriminate Hh]. split; [discriminate|].
  destruct v as [v|].
  - destruct (find_version s b k v) as [r|] eqn:E; [|discriminate Hh]. apply find_version_some in E.
    destruct E as (I & K & _). apply on_key_eq in K. exists r. tauto.
  - destruct (find_latest s b k) as [r|] eqn:E; [|discriminate Hh]. apply find_latest_some in E.
    destruct E as (I & K & _). apply on_key_eq in K. exists r. tauto.
Qed.

(* a GET that succeeded keeps returning the same answer, bytes included, while no operation is addressed to
   that (bucket,key) *)
Lemma gets_stable ops b k v : Forall (fun o => op_key o <> Some (b, k)) ops ->
  forall i hist s, IdsOk s -> PartsInv s -> forall v' e sz lm ct bd,
  op_get s b k v = RObj v' e sz lm ct bd ->
  op_get (fst (run_from i hist s ops)) b k v = RObj v' e sz lm ct bd.
Proof.
  induction 1 as [|o ops Ho _ IH]; intros i hist s H P v' e sz lm ct bd Hh; cbn [run_from]; [exact Hh|].
  destruct (step_frame i hist s o b k H Ho) as [F1 F2]. pose proof (step_ids i hist s o H) as H'.
  pose proof (step_parts_inv i hist s o P) as P'.
  destruct (get_obj_facts _ _ _ _ _ _ _ _ _ _ Hh) as [Hb Hx].
  pose proof (step_bucket_kept i hist s o b Hx Hb) as Hb'.
  destruct (step i hist s o) as [s' r]. cbn [fst] in *. apply IH; [exact H' | exact P'|].
  rewrite <- Hh. apply get_frame_eq; assumption.
Qed.

Lemma run_gets_stable ops mid b k v : Forall (fun o => elsewhere o b k) mid ->
  forall v' e sz lm ct bd,
  op_get (fst (run ops)) b k v = RObj v' e sz lm ct bd ->
  op_get (fst (run (ops ++ mid))) b k v = RObj v' e sz lm ct bd.
Proof.
  intros F v' e sz lm ct bd Hh. unfold run. rewrite run_from_app.
  apply gets_stable; [apply Forall_elsewhere; exact F | apply (proj1 (run_inv1 ops)) | apply (proj1 (run_parts_inv ops)) | exact Hh].
Qed.

(* the result of a trailing GET *)
Lemma run_get_last l b k vr :
  snd (run (l ++ [OGet b k vr])) = snd (run l) ++ [op_get (fst (run l)) b k (resolve_vref vr)].
Proof. rewrite run_snoc. cbn [step snd]. reflexivity. Qed.

(* ---------- headline: GET returns the bytes of the last acknowledged write ---------- *)
Lemma run_put_then_get ops b k c cr mid s1 rs v e :
  run (ops ++ [OPut b k c cr]) = (s1, rs ++ [RPut v e]) -> Forall (fun o => elsewhere o b k) mid ->
  exists lm,
  snd (run ((ops ++ [OPut b k c cr]) ++ mid ++ [OGet b k VRNone])) =
  snd (run ((ops ++ [OPut b k c cr]) ++ mid)) ++ [RObj v (mk_md5 c) (zlen c) lm None (Some c)].
Proof.
  intros H F. pose proof (f_equal fst H) as Es. cbn [fst] in Es.
  apply run_snoc_res in H.
  destruct (put_get_your_write _ _ _ _ _ _ _ _ _ _ (proj1 (run_parts_inv ops)) (run_oinv ops) H) as [lm [G _]].
  exists lm. rewrite app_assoc, run_get_last. f_equal. f_equal. cbn [resolve_vref].
  apply run_gets_stable; [exact F|]. rewrite Es. exact G.
Qed.

Lemma run_copy_then_get ops sb sk vr db dk mid s1 rs v e :
  run (ops ++ [OCp sb sk vr db dk]) = (s1, rs ++ [RPut v e]) -> Forall (fun o => elsewhere o db dk) mid ->
  exists sv sz slm ct lm body,
  op_get (fst (run ops)) sb sk (resolve_vref vr) = RObj sv e sz slm ct (Some body) /\
  snd (run ((ops ++ [OCp sb sk vr db dk]) ++ mid ++ [OGet db dk VRNone])) =
  snd (run ((ops ++ [OCp sb sk vr db dk]) ++ mid)) ++ [RObj v e sz lm ct (Some body)].
Proof.
  intros H F. pose proof (f_equal fst H) as Es. cbn [fst] in Es.
  apply run_snoc_res in H.
  destruct (copy_get_your_write _ _ _ _ _ _ _ _ _ _ _ (proj1 (run_parts_inv ops)) (run_oinv ops) H)
    as (sv & sz & slm & ct & lm & body & G0 & G & _).
  exists sv, sz, slm, ct, lm, body. split; [exact G0|]. rewrite app_assoc, run_get_last. f_equal. f_equal.
  cbn [resolve_vref]. apply run_gets_stable; [exact F|]. rewrite Es. exact G.
Qed.

Lemma run_append_then_get ops b k c off mid s1 rs e sz :
  run (ops ++ [OApp b k c off]) = (s1, rs ++ [RAppend e sz]) -> Forall (fun o => elsewhere o b k) mid ->
  exists v lm ct,
  snd (run ((ops ++ [OApp b k c off]) ++ mid ++ [OGet b k VRNone])) =
  snd (run ((ops ++ [OApp b k c off]) ++ mid)) ++
  [RObj v e sz lm ct (Some (match op_get (fst (run ops)) b k None with RObj _ _ _ _ _ (Some p) => p | _ => [] end ++ c))].
Proof.
  intros H F. pose proof (f_equal fst H) as Es. cbn [fst] in Es.
  apply run_snoc_res in H.
  destruct (append_get_your_write _ _ _ _ _ _ _ _ _ _ (proj1 (run_parts_inv ops)) (run_oinv ops) H) as (v & lm & ct & G).
  exists v, lm, ct. rewrite app_assoc, run_get_last. f_equal. f_equal. cbn [resolve_vref].
  apply run_gets_stable; [exact F|]. rewrite Es. exact G.
Qed.

Lemma run_complete_then_get ops b k u m cr mid s1 rs v e :
  run (ops ++ [OCpl b k u m cr]) = (s1, rs ++ [RPut v e]) -> Forall (fun o => elsewhere o b k) mid ->
  exists up sz lm ct,
  find_upload (fst (run ops)) b k u = Some up /\
  e = mk_multi (map p_content (sort_parts (obj_parts (fst (run ops)) (o_id up)))) /\
  snd (run ((ops ++ [OCpl b k u m cr]) ++ mid ++ [OGet b k VRNone])) =
  snd (run ((ops ++ [OCpl b k u m cr]) ++ mid)) ++
  [RObj v e sz lm ct (Some (concat (map p_content (sort_parts (obj_parts (fst (run ops)) (o_id up))))))].
Proof.
  intros H F. pose proof (f_equal fst H) as Es. cbn [fst] in Es.
  apply run_snoc_res in H. destruct (run_inv1 ops) as [[I1 I2] _].
  destruct (complete_get_your_write _ _ _ _ _ _ _ _ _ _ _ (proj1 (run_parts_inv ops)) I1 I2 H)
    as (up & sz & lm & ct & Hu & He & G & _).
  exists up, sz, lm, ct. split; [exact Hu|]. split; [exact He|]. rewrite app_assoc, run_get_last. f_equal. f_equal.
  cbn [resolve_vref]. apply run_gets_stable; [exact F|]. rewrite Es. exact G.
Qed.

(* ---------- NoSuchKey / NoSuchBucket exactness ---------- *)
Lemma find_bucket_none_iff s b : find_bucket s b = None <-> forall x, In x (buckets s) -> b_name x <> b.
Proof.
  unfold find_bucket. split.
  - intros H x Hx E. pose proof (find_none _ _ H x Hx) as N. cbn in N. rewrite E, bytes_eqb_refl in N. discriminate.
  - intros H. destruct (find _ (buckets s)) as [x|] eqn:E; [|reflexivity]. apply find_some in E.
    destruct E as [Hx E]. apply bytes_eqb_eq in E. exfalso. exact (H x Hx E).
Qed.
Lemma find_latest_none_iff s b k : find_latest s b k = None <->
  forall r, In r (objs s) -> ~ (on_key b k r = true /\ completed r = true /\ o_latest r = true).
Proof.
  unfold find_latest. split.
  - intros H r Hr (K & C & L). pose proof (find_none _ _ H r Hr) as N. cbn in N. rewrite K, C, L in N. discriminate.
  - intros H. destruct (find _ (objs s)) as [r|] eqn:E; [|reflexivity]. apply find_some in E. destruct E as [Hr E].
    apply andb_true_iff in E. destruct E as [E L]. apply andb_true_iff in E. exfalso. apply (H r Hr). tauto.
Qed.

Lemma get_nosuchbucket_iff s b k v : op_get s b k v = RErr NoSuchBucket <-> forall x, In x (buckets s) -> b_name x <> b.
Proof.
  rewrite <- find_bucket_none_iff. unfold op_get, lookup. destruct (find_bucket s b) as [bk|]; [|tauto].
  split; [|discriminate]. destruct v as [v|].
  - destruct (find_version s b k v) as [r|]; [|discriminate]. destruct (o_dm r); [discriminate|].
    destruct (o_size r <? 0)%Z; [discriminate|]. destruct (read_parts s (row_parts s r)); discriminate.
  - destruct (find_latest s b k) as [r|]; [|discriminate]. destruct (o_dm r); [discriminate|].
    destruct (o_size r <? 0)%Z; [discriminate|]. destruct (read_parts s (row_parts s r)); discriminate.
Qed.
Lemma get_nosuchkey_iff s b k : op_get s b k None = RErr NoSuchKey <->
  (exists x, In x (buckets s) /\ b_name x = b) /\
  forall r, In r (objs s) -> ~ (on_key b k r = true /\ completed r = true /\ o_latest r = true).
Proof.
  rewrite <- find_latest_none_iff. unfold op_get, lookup, find_bucket.
  destruct (find (fun x => bytes_eqb (b_name x) b) (buckets s)) as [bk|] eqn:E.
  - apply find_some in E. destruct E as [Hx E]. apply bytes_eqb_eq in E.
    destruct (find_latest s b k) as [r|].
    + split; [|intros [_ N]; discriminate N]. destruct (o_dm r); [discriminate|].
      destruct (o_size r <? 0)%Z; [discriminate|]. destruct (read_parts s (row_parts s r)); discriminate.
    + split; [intros _; split; [exists bk; tauto | reflexivity] | reflexivity].
  - split; [discriminate|]. intros [[x [Hx Ex]] _]. pose proof (find_none _ _ E x Hx) as N. cbn in N.
    rewrite Ex, bytes_eqb_refl in N. discriminate.
Qed.
Lemma head_nosuchbucket_iff s b k v : op_head s b k v = RErr NoSuchBucket <-> forall x, In x (buckets s) -> b_name x <> b.
Proof.
  rewrite <- find_bucket_none_iff. unfold op_head, lookup. destruct (find_bucket s b) as [bk|]; [|tauto].
  split; [|discriminate]. destruct v as [v|].
  - destruct (find_version s b k v) as [r|]; [|discriminate]. destruct (o_dm r); discriminate.
  - destruct (find_latest s b k) as [r|]; [|discriminate]. destruct (o_dm r); discriminate.
Qed.
Lemma head_nosuchkey_iff s b k : op_head s b k None = RErr NoSuchKey <->
  (exists x, In x (buckets s) /\ b_name x = b) /\
  forall r, In r (objs s) -> ~ (on_key b k r = true /\ completed r = true /\ o_latest r = true).
Proof.
  rewrite <- find_latest_none_iff. unfold op_head, lookup, find_bucket.
  destruct (find (fun x => bytes_eqb (b_name x) b) (buckets s)) as [bk|] eqn:E.
  - apply find_some in E. destruct E as [Hx E]. apply bytes_eqb_eq in E.
    destruct (find_latest s b k) as [r|].
    + split; [|intros [_ N]; discriminate N]. destruct (o_dm r); discriminate.
    + split; [intros _; split; [exists bk; tauto | reflexivity] | reflexivity].
  - split; [discriminate|]. intros [[x [Hx Ex]] _]. pose proof (find_none _ _ E x Hx) as N. cbn in N.
    rewrite Ex, bytes_eqb_refl in N. discriminate.
Qed.
