(* Proofs/MetaRows7.v — M-META at row level, layer 7: key-only deletes in versioned buckets create delete
   markers and destroy no non-null version (C02); multi-step version persistence. *)
From Verif Require Import Bytes Codec Md5 Meta MetaBasics MetaRows1 MetaRows2 MetaRows3 MetaRows4 MetaRows5 MetaRows6.
From Coq Require Import ZifyBool ZifyN ZifyNat.

Lemma delete_marker i hist s b k cr s' x st :
  bucket_ver s b = Some st -> st <> VUnset ->
  step i hist s (ODel b k VRNone cr) = (s', x) -> not_err x ->
  x = RDel (Some (VId i)) true /\
  exists m, find_latest s' b k = Some m /\ o_vid m = Some (VId i) /\ o_dm m = true /\ o_id m = next_id s.
Proof.
  intros Hst Hn. unfold bucket_ver in Hst. destruct (find_bucket s b) as [bk|] eqn:Hb; [|discriminate].
  cbn [option_map] in Hst. inversion Hst as [Hv]. clear Hst.
  cbn [step resolve_vref]. unfold op_delete. intros H Hx. apply commit_ok in H; [|exact Hx]. destruct H as [H U].
  revert H. change (find_bucket (with_ids s i) b) with (find_bucket s b). rewrite Hb.
  unfold meta_delete. cbv beta zeta. rewrite Hv.
  repeat dm; intros H; try congruence;
  pose proof (f_equal fst H) as H1; pose proof (f_equal snd H) as H2; cbn [fst snd] in H1, H2;
  try (subst x; contradiction); (split; [congruence|]).
  all: match type of H1 with context[insert_row ?s1 ?mk] =>
         exists (mk (next_id s1) (clock s1)); split; [|split; [reflexivity | split; [reflexivity|]]] end.
  all: try (apply find_latest_unique; [exact U | subst s' | | reflexivity | reflexivity]).
  all: try (rewrite (sm_objs _ _ (same_delete_unreferenced _ _)), insert_row_objs; apply in_or_app; right; left; reflexivity).
  all: try (unfold on_key, mk_row; cbn [o_bucket o_key]; rewrite !bytes_eqb_refl; reflexivity).
  all: unfold mk_row; cbn [o_id]; unfold set_latest; rewrite ?update_row_next, ?delete_row_next;
       unfold remove_parts_of; rewrite ?remove_part_rows_next; reflexivity.
Qed.

Lemma delete_keeps_versions i hist s b k cr st n r :
  Inv1 s -> bucket_ver s b = Some st -> st <> VUnset -> find_version s b k (VId n) = Some r ->
  exists r', find_version (fst (step i hist s (ODel b k VRNone cr))) b k (VId n) = Some r' /\ core r' = core r /\
             obj_parts (fst (step i hist s (ODel b k VRNone cr))) (o_id r) = obj_parts s (o_id r).
Proof.
  intros H Hst Hn F. apply step_version_persists; [exact H | exact F|].
  cbn [may_destroy resolve_vref]. rewrite Hst. destruct st; try contradiction; rewrite !andb_false_r; reflexivity.
Qed.

(* along a run: no step is one of the destroying operations for the version's current row *)
Fixpoint no_destroy (i : N) (hist : list res) (s : mstate) (ops : list op) (b k : bytes) (n : N) : Prop :=
  match ops with
  | [] => True
  | o :: rest =>
      (forall r, find_version s b k (VId n) = Some r -> may_destroy s o b k n r = false) /\
      no_destroy (i + 1) (snd (step i hist s o) :: hist) (fst (step i hist s o)) rest b k n
  end.

Lemma run_from_version_persists ops b k n : forall i hist s r,
  Inv1 s -> find_version s b k (VId n) = Some r -> no_destroy i hist s ops b k n ->
  exists r', find_version (fst (run_from i hist s ops)) b k (VId n) = Some r' /\ core r' = core r /\
             obj_parts (fst (run_from i hist s ops)) (o_id r) = obj_parts s (o_id r).
Proof.
  induction ops as [|o ops IH]; intros i hist s r H F N; cbn [run_from].
  - exists r. repeat split. exact F.
  - destruct N as [N1 N2].
    destruct (step_version_persists i hist s o b k n r H F (N1 r F)) as (r1 & F1 & C1 & P1).
    pose proof (step_inv1 i hist s o H) as H'.
    destruct (step i hist s o) as [s1 x]. cbn [fst snd] in *.
    destruct (IH (i + 1)%N (x :: hist) s1 r1 H' F1 N2) as (r2 & F2 & C2 & P2).
    exists r2. split; [exact F2|]. split; [congruence|].
    destruct (core_fields _ _ C1) as (E & _). rewrite E in P2. congruence.
Qed.

Lemma run_version_persists ops mid b k n r :
  find_version (fst (run ops)) b k (VId n) = Some r ->
  no_destroy (N.of_nat (length ops)) (rev (snd (run ops))) (fst (run ops)) mid b k n ->
  exists r', find_version (fst (run (ops ++ mid))) b k (VId n) = Some r' /\ core r' = core r /\
             obj_parts (fst (run (ops ++ mid))) (o_id r) = obj_parts (fst (run ops)) (o_id r).
Proof.
  intros F N. unfold run. rewrite run_from_app. apply run_from_version_persists; [apply run_inv1 | exact F | exact N].
Qed.
