(* Proofs/LifecycleSweepProofs.v — C25, second part: paging independence of the per-key decisions,
   guarded actions, noncurrent transitions *)
From Verif Require Import Bytes Codec Listing ListingProofs Lifecycle LifecycleProofs LifecycleSweep.
From Coq Require Import ZifyBool ZifyN ZifyNat.
Open Scope Z_scope.

(* ------------------------------------------------------------ paging by identity, on a list whose
   entries are pairwise distinguishable by the marker *)
Section FollowLocal.
  Context {A : Type} (mark : A -> A -> bool).
  Hypothesis Hrefl : forall a, mark a a = true.

  Lemma after_first_local l1 e l2 :
    (forall x, In x l1 -> mark e x = false) -> after_first (mark e) (l1 ++ e :: l2) = l2.
  Proof.
    induction l1 as [|x l1 IH]; intros Hn; cbn [app after_first].
    - rewrite Hrefl. reflexivity.
    - rewrite (Hn x (or_introl eq_refl)). apply IH. intros y Hy. apply Hn. right; exact Hy.
  Qed.

  (* pairwise distinguishable: an entry marks no EARLIER or LATER entry of the list *)
  Fixpoint distinct_marks (l : list A) : Prop :=
    match l with
    | [] => True
    | x :: l' => (forall y, In y l' -> mark x y = false /\ mark y x = false) /\ distinct_marks l'
    end.

  Lemma distinct_marks_app_l l1 e l2 : distinct_marks (l1 ++ e :: l2) -> forall x, In x l1 -> mark e x = false.
  Proof.
    induction l1 as [|a l1 IH]; cbn [app distinct_marks]; [intros _ x []|].
    intros [H1 H2] x [<-|Hx].
    - apply (H1 e). apply in_or_app. right; left; reflexivity.
    - apply IH; assumption.
  Qed.

  Lemma follow_local l max :
    distinct_marks l -> (1 <= max)%nat -> forall fuel marker,
    (exists P, l = P ++ match marker with None => l | Some m => after_first (mark m) l end) ->
    (length (match marker with None => l | Some m => after_first (mark m) l end) < fuel)%nat ->
    follow_ident mark fuel l marker max = match marker with None => l | Some m => after_first (mark m) l end.
  Proof.
    intros HD Hm. induction fuel as [|fuel IH]; intros marker [P HP] Hlen; [lia|].
    cbn [follow_ident]. set (a := match marker with None => l | Some m => after_first (mark m) l end) in *.
    destruct (max <? length a)%nat eqn:T.
    - apply Nat.ltb_lt in T.
      assert (a <> []) as Ha by (intros E; rewrite E in T; cbn in T; lia).
      destruct (last_opt_firstn_some a max Hm Ha) as [e L]. rewrite L.
      destruct (last_opt_app _ _ L) as [l1 E1].
      pose proof (firstn_skipn max a) as FS. pose proof (skipn_length max a) as SL.
      remember (skipn max a) as tl eqn:Etl. clear Etl.
      assert (a = l1 ++ e :: tl) as Ea by (rewrite <- FS, E1, <- app_assoc; reflexivity).
      assert (after_first (mark e) l = tl) as HA.
      { rewrite HP, Ea, app_assoc. apply after_first_local.
        rewrite HP, Ea, app_assoc in HD. apply (distinct_marks_app_l _ _ _ HD). }
      rewrite (IH (Some e)).
      + rewrite HA. exact FS.
      + exists (P ++ l1 ++ [e]). rewrite HA. rewrite HP at 1. rewrite Ea. rewrite <- !app_assoc. reflexivity.
      + rewrite HA. lia.
    - apply Nat.ltb_ge in T. apply firstn_all2. exact T.
  Qed.
End FollowLocal.

(* ------------------------------------------------------------ versions: every page size collects the
   whole listing *)
Definition vid_pair (v : sver) : bytes * bytes := (v_key (sv_ver v), v_id (sv_ver v)).
Definition uniq_versions (vs : list sver) : Prop := NoDup (map vid_pair vs).

Lemma same_ver_refl a : same_ver a a = true.
Proof. unfold same_ver. rewrite !bytes_eqb_refl. reflexivity. Qed.
Lemma same_ver_pair a b : same_ver a b = true <-> vid_pair a = vid_pair b.
Proof.
  unfold same_ver, vid_pair. rewrite andb_true_iff, !bytes_eqb_eq. split; [intros [-> ->]; reflexivity | intros H; inversion H; auto].
Qed.

Lemma uniq_distinct vs : uniq_versions vs -> distinct_marks same_ver vs.
Proof.
  unfold uniq_versions. induction vs as [|v vs IH]; cbn [map distinct_marks]; [auto|].
  intros H. inversion H as [|? ? Hn Hd]; subst. split; [|apply IH; exact Hd].
  intros y Hy. assert (vid_pair v <> vid_pair y) as Hne.
  { intros E. apply Hn. rewrite E. apply in_map; exact Hy. }
  split.
  - destruct (same_ver v y) eqn:S; [|reflexivity]. apply same_ver_pair in S. contradiction.
  - destruct (same_ver y v) eqn:S; [|reflexivity]. apply same_ver_pair in S. symmetry in S. contradiction.
Qed.

Lemma collect_versions_all cap vs :
  (1 <= cap)%nat -> uniq_versions vs -> collect_versions cap vs = vs.
Proof.
  intros Hc Hu. unfold collect_versions.
  apply (follow_local same_ver same_ver_refl vs cap (uniq_distinct vs Hu) Hc (S (length vs)) None).
  - exists []. reflexivity.
  - lia.
Qed.

Lemma eff_cap_pos pg : (1 <= eff_cap pg)%nat.
Proof. unfold eff_cap. destruct pg; [lia|]. lia. Qed.

(* uniqueness survives the version-id addressed actions *)
Lemma NoDup_map_filter {A C} (f : A -> C) (p : A -> bool) l : NoDup (map f l) -> NoDup (map f (filter p l)).
Proof.
  induction l as [|x l IH]; cbn; [auto|]. intros H. inversion H as [|? ? Hn Hd]; subst.
  destruct (p x); cbn; [|apply IH; exact Hd]. constructor; [|apply IH; exact Hd].
  intros Hin. apply Hn. apply in_map_iff in Hin. destruct Hin as (y & E & Hy). apply filter_In in Hy.
  rewrite <- E. apply in_map. tauto.
Qed.

Lemma exec_vdels_uniq acts : forall st, uniq_versions st -> uniq_versions (snd (exec_vdels st acts)).
Proof.
  induction acts as [|a acts IH]; intros st Hu; cbn [exec_vdels]; [exact Hu|].
  destruct (exec_vdel st a) as [e1 st1] eqn:E1.
  assert (uniq_versions st1) as Hu1.
  { unfold exec_vdel in E1. destruct a; try (inversion E1; subst; exact Hu).
    destruct (find_ver key vid st); inversion E1; subst; [|exact Hu].
    unfold uniq_versions, remove_ver. apply NoDup_map_filter. exact Hu. }
  specialize (IH st1 Hu1). destruct (exec_vdels st1 acts) as [e2 st2]. exact IH.
Qed.

Lemma find_ver_pair k i st v : find_ver k i st = Some v -> vid_pair v = (k, i) /\ In v st.
Proof.
  induction st as [|x st IH]; cbn [find_ver]; [discriminate|].
  destruct (bytes_eqb (v_key (sv_ver x)) k && bytes_eqb (v_id (sv_ver x)) i) eqn:E.
  - intros H; inversion H; subst. apply andb_true_iff in E. destruct E as [E1 E2].
    apply bytes_eqb_eq in E1, E2. unfold vid_pair. rewrite E1, E2. split; [reflexivity | left; reflexivity].
  - intros H. destruct (IH H). split; [assumption | right; assumption].
Qed.

Lemma replace_ver_pairs k i n st : vid_pair n = (k, i) -> map vid_pair (replace_ver k i n st) = map vid_pair st.
Proof.
  intros Hn. unfold replace_ver. rewrite map_map. apply map_ext_in. intros x _.
  destruct (bytes_eqb (v_key (sv_ver x)) k && bytes_eqb (v_id (sv_ver x)) i) eqn:E; [|reflexivity].
  apply andb_true_iff in E. destruct E as [E1 E2]. apply bytes_eqb_eq in E1, E2.
  rewrite Hn. unfold vid_pair. rewrite E1, E2. reflexivity.
Qed.

Lemma swap_ver_pair v : vid_pair (swap_ver v) = vid_pair v.
Proof. unfold swap_ver. destruct (sv_swap v) as [[e lm]|]; reflexivity. Qed.

Lemma exec_vtranss_uniq ds : forall st, uniq_versions st -> uniq_versions (snd (exec_vtranss st ds)).
Proof.
  induction ds as [|d ds IH]; intros st Hu; cbn [exec_vtranss]; [exact Hu|].
  destruct (exec_vtrans st d) as [e1 st1] eqn:E1.
  assert (uniq_versions st1) as Hu1.
  { unfold exec_vtrans in E1. destruct d as [listed target].
    destruct (find_ver (v_key (sv_ver listed)) (v_id (sv_ver listed)) st) as [held|] eqn:F; [|inversion E1; subst; exact Hu].
    destruct (find_ver_pair _ _ _ _ F) as [Hp _].
    destruct (bytes_eqb (sv_etag (swap_ver held)) (sv_etag listed)); inversion E1; subst; unfold uniq_versions;
      rewrite replace_ver_pairs; try exact Hu; rewrite <- Hp; [|apply swap_ver_pair].
    pose proof (swap_ver_pair held) as Hs. unfold vid_pair in *. cbn. exact Hs. }
  specialize (IH st1 Hu1). destruct (exec_vtranss st1 ds) as [e2 st2]. exact IH.
Qed.

(* the three version sweeps, as reconcile_s chains them *)
Definition version_sweeps (rules : list srule) (now : Z) (cap : nat) (vs : list sver) : list eact * list sver :=
  let rs := map sr_rule rules in
  let '(a2, v1) := exec_vdels vs (dm_decisions rs (collect_versions cap vs)) in
  let '(a3, v2) := exec_vdels v1 (nce_decisions rs now (collect_versions cap v1)) in
  let '(a4, v3) := exec_vtranss v2 (nct_decisions rules now (collect_versions cap v2)) in
  (a2 ++ a3 ++ a4, v3).

Lemma version_sweeps_whole rules now cap vs :
  (1 <= cap)%nat -> uniq_versions vs ->
  version_sweeps rules now cap vs =
  (let rs := map sr_rule rules in
   let '(a2, v1) := exec_vdels vs (dm_decisions rs vs) in
   let '(a3, v2) := exec_vdels v1 (nce_decisions rs now v1) in
   let '(a4, v3) := exec_vtranss v2 (nct_decisions rules now v2) in
   (a2 ++ a3 ++ a4, v3)).
Proof.
  intros Hc Hu. unfold version_sweeps. cbn zeta.
  rewrite (collect_versions_all cap vs Hc Hu).
  pose proof (exec_vdels_uniq (dm_decisions (map sr_rule rules) vs) vs Hu) as Hu1.
  destruct (exec_vdels vs (dm_decisions (map sr_rule rules) vs)) as [a2 v1]. cbn [snd] in Hu1.
  rewrite (collect_versions_all cap v1 Hc Hu1).
  pose proof (exec_vdels_uniq (nce_decisions (map sr_rule rules) now v1) v1 Hu1) as Hu2.
  destruct (exec_vdels v1 (nce_decisions (map sr_rule rules) now v1)) as [a3 v2]. cbn [snd] in Hu2.
  rewrite (collect_versions_all cap v2 Hc Hu2). reflexivity.
Qed.

Lemma version_sweeps_page_independent rules now pg1 pg2 vs :
  uniq_versions vs ->
  version_sweeps rules now (eff_cap pg1) vs = version_sweeps rules now (eff_cap pg2) vs.
Proof.
  intros Hu. rewrite !version_sweeps_whole by (auto using eff_cap_pos). reflexivity.
Qed.

(* ------------------------------------------------------------ guarded actions on objects *)
Lemma expire_one_sound rules now o st k e ok :
  In (EDelete k e ok) (fst (expire_one rules now o st)) ->
  k = skey o /\ e = o_etag (so_obj o) /\ exp_justified rules now (so_obj o) /\
  (ok = true -> exists held cur, find_obj (skey o) st = Some held /\ client_apply held = Some cur /\
                                 o_etag (so_obj cur) = o_etag (so_obj o)).
Proof.
  unfold expire_one. destruct (expire_decision rules now (so_obj o)) as [r|] eqn:D; [|intros []].
  pose proof (expire_decision_justified _ _ _ _ D) as HJ.
  destruct (find_obj (skey o) st) as [held|] eqn:F.
  - destruct (client_apply held) as [cur|] eqn:C.
    + destruct (bytes_eqb (o_etag (so_obj cur)) (o_etag (so_obj o))) eqn:G; cbn [fst]; intros [H|[]]; inversion H; subst;
        repeat split; auto; intros Hok; try discriminate.
      exists held, cur. apply bytes_eqb_eq in G. auto.
    + cbn [fst]. intros [H|[]]. inversion H; subst. repeat split; auto. discriminate.
  - cbn [fst]. intros [H|[]]. inversion H; subst. repeat split; auto. discriminate.
Qed.

Lemma transition_one_sound rules now o st k c e ok :
  In (ETransition k c e ok) (fst (transition_one rules now o st)) ->
  k = skey o /\ e = o_etag (so_obj o) /\ trans_justified rules now (so_obj o) c /\
  (ok = true -> exists held cur, find_obj (skey o) st = Some held /\ client_apply held = Some cur /\
                                 o_etag (so_obj cur) = o_etag (so_obj o)).
Proof.
  unfold transition_one. destruct (transition_decision rules now (so_obj o)) as [[d tgt]|] eqn:D; [|intros []].
  pose proof (transition_decision_justified _ _ _ _ _ D) as HJ.
  destruct (find_obj (skey o) st) as [held|] eqn:F.
  - destruct (client_apply held) as [cur|] eqn:C.
    + destruct (bytes_eqb (o_etag (so_obj cur)) (o_etag (so_obj o))) eqn:G; cbn [fst]; intros [H|[]]; inversion H; subst;
        repeat split; auto; intros Hok; try discriminate.
      exists held, cur. apply bytes_eqb_eq in G. auto.
    + cbn [fst]. intros [H|[]]. inversion H; subst. repeat split; auto. discriminate.
  - cbn [fst]. intros [H|[]]. inversion H; subst. repeat split; auto. discriminate.
Qed.

(* when a client's PUT changes the ETag, a successful guarded call met the untouched entry *)
Lemma client_apply_untouched held cur g :
  (forall e lm, so_client held = Some (CPut e lm) -> e <> g) ->
  o_etag (so_obj held) = g ->
  client_apply held = Some cur -> o_etag (so_obj cur) = g -> cur = held /\ so_client held = None.
Proof.
  unfold client_apply. intros Hne Hh. destruct (so_client held) as [[e lm|]|] eqn:C; intros H1 H2; inversion H1; subst.
  - cbn in H2. exfalso. apply (Hne e lm eq_refl). exact H2.
  - auto.
Qed.

(* every action of a sweep comes from one step on a listed entry *)
Lemma run_page_In step page : forall st a,
  In a (fst (run_page step page st)) -> exists o st', In o page /\ In a (fst (step o st')).
Proof.
  induction page as [|o page IH]; intros st a; cbn [run_page]; [intros []|].
  destruct (step o st) as [a1 st1] eqn:S1. destruct (run_page step page st1) as [a2 st2] eqn:R.
  cbn [fst]. intros H. apply in_app_or in H. destruct H as [H|H].
  - exists o, st. split; [left; reflexivity|]. rewrite S1. exact H.
  - specialize (IH st1 a). rewrite R in IH. destruct (IH H) as (o' & st' & Ho & Ha). exists o', st'. split; [right|]; assumption.
Qed.

Lemma obj_sweep_In step fuel cap : forall start st a,
  In a (fst (obj_sweep step fuel cap start st)) -> exists o st', In a (fst (step o st')).
Proof.
  induction fuel as [|fuel IH]; intros start st a; cbn [obj_sweep]; [intros []|].
  set (page := firstn cap (filter (after_key start) st)).
  destruct (run_page step page st) as [a1 st1] eqn:R.
  destruct ((cap <? length (filter (after_key start) st))%nat && negb (is_nil page)).
  - destruct (obj_sweep step fuel cap (option_map skey (last_opt page)) st1) as [a2 st2] eqn:S.
    cbn [fst]. intros H. apply in_app_or in H. destruct H as [H|H].
    + pose proof (run_page_In step page st a) as RP. rewrite R in RP. destruct (RP H) as (o & st' & _ & Ha). eauto.
    + specialize (IH (option_map skey (last_opt page)) st1 a). rewrite S in IH. apply IH. exact H.
  - cbn [fst]. intros H. pose proof (run_page_In step page st a) as RP. rewrite R in RP. destruct (RP H) as (o & st' & _ & Ha). eauto.
Qed.

(* ------------------------------------------------------------ version-id addressed actions *)
Lemma exec_vdels_In acts : forall st k i f,
  In (EDeleteVersion k i f) (fst (exec_vdels st acts)) ->
  In (ADeleteVersion k i) acts /\ exists st' v, find_ver k i st' = Some v /\ f = is_some (sv_swap v).
Proof.
  induction acts as [|a acts IH]; intros st k i f; cbn [exec_vdels]; [intros []|].
  destruct (exec_vdel st a) as [e1 st1] eqn:E1. destruct (exec_vdels st1 acts) as [e2 st2] eqn:E2.
  cbn [fst]. intros H. apply in_app_or in H. destruct H as [H|H].
  - unfold exec_vdel in E1. destruct a; try (inversion E1; subst; destruct H).
    destruct (find_ver key vid st) as [v|] eqn:F; inversion E1; subst; [|destruct H].
    destruct H as [H|[]]. inversion H; subst. split; [left; reflexivity|]. exists st, v. auto.
  - specialize (IH st1 k i f). rewrite E2 in IH. destruct (IH H) as [H1 H2]. split; [right; exact H1 | exact H2].
Qed.

Lemma exec_vtranss_In ds : forall st k i c e ok,
  In (ETransitionVersion k i c e ok) (fst (exec_vtranss st ds)) ->
  exists listed st' held, In (listed, c) ds /\ k = v_key (sv_ver listed) /\ i = v_id (sv_ver listed) /\
    e = sv_etag listed /\ find_ver k i st' = Some held /\ ok = bytes_eqb (sv_etag (swap_ver held)) (sv_etag listed).
Proof.
  induction ds as [|d ds IH]; intros st k i c e ok; cbn [exec_vtranss]; [intros []|].
  destruct (exec_vtrans st d) as [e1 st1] eqn:E1. destruct (exec_vtranss st1 ds) as [e2 st2] eqn:E2.
  cbn [fst]. intros H. apply in_app_or in H. destruct H as [H|H].
  - unfold exec_vtrans in E1. destruct d as [listed target].
    destruct (find_ver (v_key (sv_ver listed)) (v_id (sv_ver listed)) st) as [held|] eqn:F; [|inversion E1; subst; destruct H].
    destruct (bytes_eqb (sv_etag (swap_ver held)) (sv_etag listed)) eqn:G; inversion E1; subst;
      destruct H as [H|[]]; inversion H; subst; exists listed, st, held; repeat split; auto; left; reflexivity.
  - specialize (IH st1 k i c e ok). rewrite E2 in IH. destruct (IH H) as (l & s' & h & Hin & R).
    exists l, s', h. split; [right; exact Hin | exact R].
Qed.

Lemma swap_ver_untouched held g :
  (forall e lm, sv_swap held = Some (e, lm) -> e <> g) ->
  sv_etag (swap_ver held) = g -> swap_ver held = held /\ sv_swap held = None.
Proof.
  unfold swap_ver. destruct (sv_swap held) as [[e lm]|] eqn:S; intros Hne H; [|auto].
  cbn in H. exfalso. apply (Hne e lm eq_refl). exact H.
Qed.

(* ------------------------------------------------------------ noncurrent transitions: never early, keeps newer *)
Definition nct_justified (rules : list srule) (now : Z) (v : sver) (since cnt : Z) (c : bytes) : Prop :=
  exists r t d, In r rules /\ r_enabled (sr_rule r) = true /\ In t (sr_nct r) /\ nt_class t = c /\ nt_days t = Some d /\
    s3_days_due since d <= now /\
    rule_matches (sr_rule r) (v_key (sv_ver v)) (v_size (sv_ver v)) (v_tags (sv_ver v)) = true /\
    (forall N, nt_newer t = Some N -> N < cnt) /\ c <> eff_class (sv_class v).

Lemma nct_rule_loop_inv (P : bytes -> Prop) now since newer v m ts chosen :
  (forall t d, In t ts -> m = true -> nt_days t = Some d -> next_midnight (since + d * day) <= now ->
               (forall N, nt_newer t = Some N -> N < newer) ->
               bytes_eqb (nt_class t) (eff_class (sv_class v)) = false -> P (nt_class t)) ->
  (forall d c, chosen = Some (d, c) -> P c) ->
  forall d c, nct_rule_loop now since newer v m ts chosen = Some (d, c) -> P c.
Proof.
  revert chosen; induction ts as [|t rest IH]; intros chosen Ht Hc d c; cbn [nct_rule_loop]; [apply Hc|].
  assert (forall t0 d0, In t0 rest -> m = true -> nt_days t0 = Some d0 -> next_midnight (since + d0 * day) <= now ->
             (forall N, nt_newer t0 = Some N -> N < newer) ->
             bytes_eqb (nt_class t0) (eff_class (sv_class v)) = false -> P (nt_class t0)) as Ht'
    by (intros t0 d0 H0; apply Ht; right; exact H0).
  destruct (nt_days t) as [dd|] eqn:TD; [|apply IH; auto].
  destruct (negb (next_midnight (since + dd * day) <=? now)) eqn:R; [apply IH; auto|].
  destruct (match nt_newer t with Some n => newer <=? n | None => false end) eqn:NW; [apply IH; auto|].
  destruct (bytes_eqb (nt_class t) (eff_class (sv_class v))) eqn:C; [apply IH; auto|].
  destruct m; cbn [negb]; [|apply Hc].
  assert (P (nt_class t)) as Pt.
  { apply (Ht t dd); auto; [left; reflexivity | apply negb_false_iff in R; lia |].
    intros N EN. rewrite EN in NW. lia. }
  destruct chosen as [[cd cc]|].
  - destruct (cd <? next_midnight (since + dd * day)); apply IH; auto; intros d0 c0 E; inversion E; subst; auto; try (eapply Hc; reflexivity).
  - apply IH; auto. intros d0 c0 E; inversion E; subst; auto.
Qed.

Lemma nct_decision_justified rules now since newer v d c :
  nct_decision rules now since newer v = Some (d, c) -> nct_justified rules now v since newer c.
Proof.
  unfold nct_decision.
  assert (forall rs chosen,
            (forall r, In r rs -> In r rules /\ r_enabled (sr_rule r) = true) ->
            (forall d c, chosen = Some (d, c) -> nct_justified rules now v since newer c) ->
            forall d c, fold_left (fun ch r => nct_rule_loop now since newer v
                           (rule_matches (sr_rule r) (v_key (sv_ver v)) (v_size (sv_ver v)) (v_tags (sv_ver v))) (sr_nct r) ch) rs chosen = Some (d, c) ->
            nct_justified rules now v since newer c) as H.
  { induction rs as [|r rs IH]; intros chosen Hrs Hc d0 c0; cbn [fold_left]; [apply Hc|].
    apply IH; [intros r0 H0; apply Hrs; right; exact H0|].
    apply nct_rule_loop_inv; [|exact Hc].
    intros t dd Ht Hm Hd Hdue Hn Hcl. destruct (Hrs r (or_introl eq_refl)) as [Hin Hen].
    exists r, t, dd. repeat split; auto.
    - unfold s3_days_due. pose proof (next_midnight_ge_s3 (since + dd * day)). lia.
    - intros E. rewrite E, bytes_eqb_refl in Hcl. discriminate. }
  apply (H (filter is_nct_rule rules) None); [|discriminate].
  intros r Hr. apply filter_In in Hr. destruct Hr as [Hin Hr]. split; [exact Hin|].
  unfold is_nct_rule in Hr. apply andb_true_iff in Hr. tauto.
Qed.

Definition noncurrent_s (v : sver) : bool := negb (v_latest (sv_ver v) || v_dm (sv_ver v)).
Definition last_since_s (prev : option Z) (before : list sver) : option Z :=
  match last_opt before with Some w => Some (v_lm (sv_ver w)) | None => prev end.
Lemma last_since_s_cons prev v before : last_since_s prev (v :: before) = last_since_s (Some (v_lm (sv_ver v))) before.
Proof.
  unfold last_since_s. destruct before as [|w before]; [reflexivity|].
  change (last_opt (v :: w :: before)) with (last_opt (w :: before)).
  destruct (last_opt (w :: before)) eqn:L; [reflexivity|]. apply last_opt_None in L. discriminate.
Qed.

Lemma nct_loop_sound rules now vs : forall prev newer v c,
  In (v, c) (nct_loop rules now prev newer vs) ->
  exists before after since,
    vs = before ++ v :: after /\ v_latest (sv_ver v) = false /\ v_dm (sv_ver v) = false /\
    last_since_s prev before = Some since /\
    exists cnt, nct_justified rules now v since cnt c /\ cnt <= newer + Z.of_nat (length (filter noncurrent_s before)).
Proof.
  induction vs as [|x rest IH]; intros prev newer v c; cbn [nct_loop]; [intros []|].
  destruct (v_latest (sv_ver x) || v_dm (sv_ver x)) eqn:LD.
  - intros H. destruct (IH _ _ _ _ H) as (before & after & since & E & R1 & R2 & R3 & cnt & J & Hc).
    exists (x :: before), after, since. rewrite last_since_s_cons. repeat split; auto; [rewrite E; reflexivity|].
    exists cnt. split; [exact J|]. cbn [filter]. unfold noncurrent_s at 1. rewrite LD. cbn [negb]. exact Hc.
  - destruct prev as [since0|].
    + intros H. apply in_app_or in H. destruct H as [H|H].
      * destruct (nct_decision rules now since0 newer x) as [[d c0]|] eqn:D; [|destruct H].
        destruct H as [H|[]]. inversion H; subst. apply orb_false_iff in LD. destruct LD as [L1 L2].
        exists [], rest, since0. repeat split; auto. exists newer. split; [eapply nct_decision_justified; eauto | cbn; lia].
      * destruct (IH _ _ _ _ H) as (before & after & since & E & R1 & R2 & R3 & cnt & J & Hc).
        exists (x :: before), after, since. rewrite last_since_s_cons. repeat split; auto; [rewrite E; reflexivity|].
        exists cnt. split; [exact J|]. cbn [filter]. unfold noncurrent_s at 1. rewrite LD. cbn [negb length]. lia.
    + intros H. destruct (IH _ _ _ _ H) as (before & after & since & E & R1 & R2 & R3 & cnt & J & Hc).
      exists (x :: before), after, since. rewrite last_since_s_cons. repeat split; auto; [rewrite E; reflexivity|].
      exists cnt. split; [exact J|]. cbn [filter]. unfold noncurrent_s at 1. rewrite LD. cbn [negb length]. lia.
Qed.

(* ------------------------------------------------------------ object sweeps: any page size visits the
   sorted listing entry by entry, exactly like one page holding everything *)
Lemma run_page_app step p1 : forall p2 st,
  run_page step (p1 ++ p2) st =
  (let '(a1, s1) := run_page step p1 st in let '(a2, s2) := run_page step p2 s1 in (a1 ++ a2, s2)).
Proof.
  induction p1 as [|o p1 IH]; intros p2 st; cbn [app run_page].
  - destruct (run_page step p2 st). reflexivity.
  - destruct (step o st) as [a s]. rewrite IH. destruct (run_page step p1 s) as [a1 s1].
    destruct (run_page step p2 s1) as [a2 s2]. rewrite app_assoc. reflexivity.
Qed.

Lemma sorted_by_map_keys {A} (f : A -> bytes) (g : A -> A) l :
  (forall x, f (g x) = f x) -> sorted_by f l -> sorted_by f (map g l).
Proof.
  intros Hg. induction l as [|x l IH]; cbn; [auto|]. intros [H1 H2]. split; [|auto].
  intros y Hy. apply in_map_iff in Hy. destruct Hy as (z & <- & Hz). rewrite !Hg. apply H1; exact Hz.
Qed.

Lemma filter_filter_weaker {A} (p q : A -> bool) l :
  (forall x, q x = false -> p x = false) -> filter p (filter q l) = filter p l.
Proof.
  intros H. induction l as [|x l IH]; cbn; [reflexivity|].
  destruct (q x) eqn:Q; cbn; [rewrite IH; reflexivity|]. rewrite (H x Q). exact IH.
Qed.

Lemma filter_map_fix {A} (p : A -> bool) (g : A -> A) l :
  (forall x, p (g x) = p x) -> (forall x, p x = true -> g x = x) -> filter p (map g l) = filter p l.
Proof.
  intros H1 H2. induction l as [|x l IH]; cbn; [reflexivity|]. rewrite H1.
  destruct (p x) eqn:P; [rewrite (H2 x P), IH; reflexivity | exact IH].
Qed.

Section SweepWhole.
  Variable step : sobj -> list sobj -> list eact * list sobj.
  (* a step on entry o leaves every entry with a greater key where and what it is, and keeps the key order *)
  Hypothesis step_local : forall o st m, bltb m (skey o) = false ->
    filter (after_key (Some m)) (snd (step o st)) = filter (after_key (Some m)) st.
  Hypothesis step_sorted : forall o st, sorted_by skey st -> sorted_by skey (snd (step o st)).

  Lemma run_page_local page : forall st m,
    (forall o, In o page -> bltb m (skey o) = false) ->
    filter (after_key (Some m)) (snd (run_page step page st)) = filter (after_key (Some m)) st.
  Proof.
    induction page as [|o page IH]; intros st m H; cbn [run_page]; [reflexivity|].
    destruct (step o st) as [a s1] eqn:S. destruct (run_page step page s1) as [a2 s2] eqn:R. cbn [snd].
    pose proof (IH s1 m (fun x Hx => H x (or_intror Hx))) as H1. rewrite R in H1. cbn [snd] in H1. rewrite H1.
    pose proof (step_local o st m (H o (or_introl eq_refl))) as H2. rewrite S in H2. exact H2.
  Qed.

  Lemma run_page_sorted page : forall st, sorted_by skey st -> sorted_by skey (snd (run_page step page st)).
  Proof.
    induction page as [|o page IH]; intros st H; cbn [run_page]; [exact H|].
    pose proof (step_sorted o st H) as H1. destruct (step o st) as [a s1]. cbn [snd] in H1.
    specialize (IH s1 H1). destruct (run_page step page s1) as [a2 s2]. exact IH.
  Qed.

  Lemma sorted_le_last (R : list sobj) cap e :
    sorted_by skey R -> last_opt (firstn cap R) = Some e -> forall o, In o (firstn cap R) -> bltb (skey e) (skey o) = false.
  Proof.
    intros HS L o Ho. destruct (last_opt_app _ _ L) as [l1 E1].
    assert (sorted_by skey (firstn cap R)) as HF.
    { rewrite <- (firstn_skipn cap R) in HS. apply sorted_by_app in HS. tauto. }
    rewrite E1 in HF, Ho. apply sorted_by_app in HF. destruct HF as (_ & _ & H3).
    destruct (bltb (skey e) (skey o)) eqn:Bq; [|reflexivity]. apply bltb_lt in Bq. exfalso.
    apply in_app_or in Ho. destruct Ho as [Ho|[<-|[]]].
    - apply (bcmp_lt_irrefl (skey e)). eapply bcmp_lt_trans; [exact Bq|]. apply H3; [exact Ho | left; reflexivity].
    - eapply bcmp_lt_irrefl; eauto.
  Qed.

  Lemma obj_sweep_whole cap : (1 <= cap)%nat -> forall fuel start st,
    sorted_by skey st ->
    (length (filter (after_key start) st) < fuel)%nat ->
    obj_sweep step fuel cap start st = run_page step (filter (after_key start) st) st.
  Proof.
    intros Hc. induction fuel as [|fuel IH]; intros start st HS Hlen; [lia|].
    cbn [obj_sweep]. set (R := filter (after_key start) st) in *.
    assert (sorted_by skey R) as HSR by (apply sorted_by_filter; exact HS).
    destruct (run_page step (firstn cap R) st) as [a st1] eqn:RP.
    destruct (Nat.ltb_spec cap (length R)) as [T|T].
    - assert (R <> []) as HR by (intros E; rewrite E in T; cbn in T; lia).
      destruct (last_opt_firstn_some R cap Hc HR) as [e L]. rewrite L. cbn [option_map].
      assert (is_nil (firstn cap R) = false) as -> by (destruct (firstn cap R); [discriminate | reflexivity]).
      cbn [negb andb].
      assert (In e R) as HeR.
      { destruct (last_opt_app _ _ L) as [l1 E1]. rewrite <- (firstn_skipn cap R), E1.
        apply in_or_app; left. apply in_or_app; right; left; reflexivity. }
      assert (filter (after_key (Some (skey e))) st1 = skipn cap R) as HN.
      { pose proof (run_page_local (firstn cap R) st (skey e) (sorted_le_last R cap e HSR L)) as H1.
        rewrite RP in H1. cbn [snd] in H1. rewrite H1.
        apply (after_page skey st (after_key start) cap e HS); [|exact L].
        intros x _ Hb. destruct start as [m|]; [|reflexivity]. cbn [after_key].
        unfold R in HeR. apply filter_In in HeR. destruct HeR as [_ Hm]. cbn [after_key] in Hm.
        apply bltb_lt. apply bltb_lt in Hb, Hm. eapply bcmp_lt_trans; eauto. }
      pose proof (run_page_sorted (firstn cap R) st HS) as HS1. rewrite RP in HS1. cbn [snd] in HS1.
      rewrite (IH (Some (skey e)) st1 HS1); [|rewrite HN, skipn_length; lia].
      rewrite HN.
      replace (run_page step R st) with (run_page step (firstn cap R ++ skipn cap R) st) by (rewrite firstn_skipn; reflexivity).
      rewrite run_page_app. rewrite RP.
      destruct (run_page step (skipn cap R) st1) as [a2 st2]. reflexivity.
    - rewrite (firstn_all2 R) in RP by exact T. rewrite RP. reflexivity.
  Qed.
End SweepWhole.

Lemma find_obj_key k st o : find_obj k st = Some o -> skey o = k.
Proof.
  induction st as [|x st IH]; cbn [find_obj]; [discriminate|].
  destruct (bytes_eqb (skey x) k) eqn:E; [|exact IH]. intros H; inversion H; subst. apply bytes_eqb_eq; exact E.
Qed.
Lemma client_apply_key held cur : client_apply held = Some cur -> skey cur = skey held.
Proof. unfold client_apply. destruct (so_client held) as [[e lm|]|]; intros H; inversion H; reflexivity. Qed.

Lemma remove_obj_local k st m : bltb m k = false ->
  filter (after_key (Some m)) (remove_obj k st) = filter (after_key (Some m)) st.
Proof.
  intros Hk. unfold remove_obj. apply filter_filter_weaker. intros x Hx. cbn [after_key].
  apply negb_false_iff in Hx. apply bytes_eqb_eq in Hx. rewrite Hx. exact Hk.
Qed.
Lemma replace_obj_local k n st m : skey n = k -> bltb m k = false ->
  filter (after_key (Some m)) (replace_obj k n st) = filter (after_key (Some m)) st.
Proof.
  intros Hn Hk. unfold replace_obj. apply filter_map_fix; intros x; cbn [after_key].
  - destruct (bytes_eqb (skey x) k) eqn:E; [|reflexivity]. apply bytes_eqb_eq in E. rewrite Hn, E. reflexivity.
  - intros Hx. destruct (bytes_eqb (skey x) k) eqn:E; [|reflexivity]. apply bytes_eqb_eq in E. rewrite E, Hk in Hx. discriminate.
Qed.
Lemma remove_obj_sorted k st : sorted_by skey st -> sorted_by skey (remove_obj k st).
Proof. apply sorted_by_filter. Qed.
Lemma replace_obj_sorted k n st : skey n = k -> sorted_by skey st -> sorted_by skey (replace_obj k n st).
Proof.
  intros Hn. unfold replace_obj. apply sorted_by_map_keys. intros x.
  destruct (bytes_eqb (skey x) k) eqn:E; [|reflexivity]. apply bytes_eqb_eq in E. rewrite Hn, E. reflexivity.
Qed.

Lemma expire_one_local rules now o st m : bltb m (skey o) = false ->
  filter (after_key (Some m)) (snd (expire_one rules now o st)) = filter (after_key (Some m)) st.
Proof.
  intros Hm. unfold expire_one. destruct (expire_decision rules now (so_obj o)); [|reflexivity].
  destruct (find_obj (skey o) st) as [held|] eqn:F; [|reflexivity].
  destruct (client_apply held) as [cur|] eqn:C; [|apply remove_obj_local; exact Hm].
  destruct (bytes_eqb (o_etag (so_obj cur)) (o_etag (so_obj o))); cbn [snd];
    [apply remove_obj_local; exact Hm | apply replace_obj_local; [|exact Hm]].
  rewrite (client_apply_key _ _ C). eapply find_obj_key; eauto.
Qed.
Lemma expire_one_sorted rules now o st : sorted_by skey st -> sorted_by skey (snd (expire_one rules now o st)).
Proof.
  intros HS. unfold expire_one. destruct (expire_decision rules now (so_obj o)); [|exact HS].
  destruct (find_obj (skey o) st) as [held|] eqn:F; [|exact HS].
  destruct (client_apply held) as [cur|] eqn:C; [|apply remove_obj_sorted; exact HS].
  destruct (bytes_eqb (o_etag (so_obj cur)) (o_etag (so_obj o))); cbn [snd];
    [apply remove_obj_sorted; exact HS | apply replace_obj_sorted; [|exact HS]].
  rewrite (client_apply_key _ _ C). eapply find_obj_key; eauto.
Qed.
Lemma transition_one_local rules now o st m : bltb m (skey o) = false ->
  filter (after_key (Some m)) (snd (transition_one rules now o st)) = filter (after_key (Some m)) st.
Proof.
  intros Hm. unfold transition_one. destruct (transition_decision rules now (so_obj o)) as [[d t]|]; [|reflexivity].
  destruct (find_obj (skey o) st) as [held|] eqn:F; [|reflexivity].
  destruct (client_apply held) as [cur|] eqn:C; [|apply remove_obj_local; exact Hm].
  pose proof (find_obj_key _ _ _ F) as Hk. pose proof (client_apply_key _ _ C) as Hc.
  destruct (bytes_eqb (o_etag (so_obj cur)) (o_etag (so_obj o))); cbn [snd]; apply replace_obj_local; try exact Hm.
  - unfold skey in *. cbn. congruence.
  - congruence.
Qed.
Lemma transition_one_sorted rules now o st : sorted_by skey st -> sorted_by skey (snd (transition_one rules now o st)).
Proof.
  intros HS. unfold transition_one. destruct (transition_decision rules now (so_obj o)) as [[d t]|]; [|exact HS].
  destruct (find_obj (skey o) st) as [held|] eqn:F; [|exact HS].
  destruct (client_apply held) as [cur|] eqn:C; [|apply remove_obj_sorted; exact HS].
  pose proof (find_obj_key _ _ _ F) as Hk. pose proof (client_apply_key _ _ C) as Hc.
  destruct (bytes_eqb (o_etag (so_obj cur)) (o_etag (so_obj o))); cbn [snd]; apply replace_obj_sorted; try exact HS.
  - unfold skey in *. cbn. congruence.
  - congruence.
Qed.

(* both object sweeps: the page size does not matter *)
Lemma expire_sweep_page_independent rules now pg1 pg2 st :
  sorted_by skey st ->
  obj_sweep (expire_one rules now) (S (length st)) (eff_cap pg1) None st =
  obj_sweep (expire_one rules now) (S (length st)) (eff_cap pg2) None st.
Proof.
  intros HS.
  assert (length (filter (after_key None) st) < S (length st))%nat as HL by (pose proof (filter_len (after_key None) st); lia).
  rewrite !(obj_sweep_whole (expire_one rules now) (expire_one_local rules now) (expire_one_sorted rules now) _ (eff_cap_pos _) _ None st HS HL).
  reflexivity.
Qed.
Lemma transition_sweep_page_independent rules now pg1 pg2 st :
  sorted_by skey st ->
  obj_sweep (transition_one rules now) (S (length st)) (eff_cap pg1) None st =
  obj_sweep (transition_one rules now) (S (length st)) (eff_cap pg2) None st.
Proof.
  intros HS.
  assert (length (filter (after_key None) st) < S (length st))%nat as HL by (pose proof (filter_len (after_key None) st); lia).
  rewrite !(obj_sweep_whole (transition_one rules now) (transition_one_local rules now) (transition_one_sorted rules now) _ (eff_cap_pos _) _ None st HS HL).
  reflexivity.
Qed.

(* every version-id addressed delete removes an entry of the state the pass started with *)
Lemma exec_vdels_from acts : forall st k i f,
  In (EDeleteVersion k i f) (fst (exec_vdels st acts)) ->
  In (ADeleteVersion k i) acts /\ exists v, In v st /\ vid_pair v = (k, i) /\ f = is_some (sv_swap v).
Proof.
  induction acts as [|a acts IH]; intros st k i f; cbn [exec_vdels]; [intros []|].
  destruct (exec_vdel st a) as [e1 st1] eqn:E1. destruct (exec_vdels st1 acts) as [e2 st2] eqn:E2.
  cbn [fst]. intros H. apply in_app_or in H. destruct H as [H|H].
  - unfold exec_vdel in E1. destruct a; try (inversion E1; subst; destruct H).
    destruct (find_ver key vid st) as [v|] eqn:F; inversion E1; subst; [|destruct H].
    destruct H as [H|[]]. inversion H; subst. split; [left; reflexivity|].
    destruct (find_ver_pair _ _ _ _ F) as [Hp Hin]. exists v. auto.
  - specialize (IH st1 k i f). rewrite E2 in IH. destruct (IH H) as [H1 (v & Hv & R)]. split; [right; exact H1|].
    exists v. split; [|exact R].
    unfold exec_vdel in E1. destruct a; try (inversion E1; subst; exact Hv).
    destruct (find_ver key vid st); inversion E1; subst; [|exact Hv].
    unfold remove_ver in Hv. apply filter_In in Hv. tauto.
Qed.

Lemma sweep_expire_sound rules now fuel cap start st k e ok :
  In (EDelete k e ok) (fst (obj_sweep (expire_one rules now) fuel cap start st)) ->
  exists o st', k = skey o /\ e = o_etag (so_obj o) /\ exp_justified rules now (so_obj o) /\
    (ok = true -> exists held cur, find_obj (skey o) st' = Some held /\ client_apply held = Some cur /\
                                   o_etag (so_obj cur) = o_etag (so_obj o)).
Proof.
  intros H. destruct (obj_sweep_In _ _ _ _ _ _ H) as (o & st' & Ha).
  exists o, st'. apply (expire_one_sound rules now o st' k e ok Ha).
Qed.

Lemma sweep_transition_sound rules now fuel cap start st k c e ok :
  In (ETransition k c e ok) (fst (obj_sweep (transition_one rules now) fuel cap start st)) ->
  exists o st', k = skey o /\ e = o_etag (so_obj o) /\ trans_justified rules now (so_obj o) c /\
    (ok = true -> exists held cur, find_obj (skey o) st' = Some held /\ client_apply held = Some cur /\
                                   o_etag (so_obj cur) = o_etag (so_obj o)).
Proof.
  intros H. destruct (obj_sweep_In _ _ _ _ _ _ H) as (o & st' & Ha).
  exists o, st'. apply (transition_one_sound rules now o st' k c e ok Ha).
Qed.
