(* Proofs/SigV4EncProofs.v — encoding lemmas for the SigV4 model (C29, reused by C28). *)
From Verif Require Import Bytes Codec SigV4 SigV4Spec.
From Coq Require Import Permutation.

Ltac bytecases c := destruct c; try reflexivity.

(* ---- uriEncode = documented UriEncode ---- *)
Definition qchunk (c : byte) : bytes :=
  if beqb c " "%byte then B"+" else if go_should_escape_query c then pct c else [c].
Definition uri_post (x : bytes) : bytes :=
  replace_pct7E (replace_byte "*"%byte B"%2A" (replace_byte "+"%byte B"%20" x)).
Definition spec_chunk (ks : bool) (c : byte) : bytes :=
  if is_unreserved c || (ks && beqb c "/"%byte) then [c] else pct c.

Lemma uri_post_chunk c rest : uri_post (qchunk c ++ rest) = spec_chunk false c ++ uri_post rest.
Proof. bytecases c. Qed.

Lemma uri_encode_eq_spec s : uri_encode s = spec_uri_encode false s.
Proof.
  unfold uri_encode, go_query_escape, spec_uri_encode.
  change (uri_post (flat_map qchunk s) = flat_map (spec_chunk false) s).
  induction s as [|c s IH]; [reflexivity|].
  cbn [flat_map]. rewrite uri_post_chunk, IH. reflexivity.
Qed.

(* ---- the canonical URI of a spec-encoded path ---- *)
Lemma canon_uri_body_chunk c rest :
  canon_uri_body (spec_chunk true c ++ rest) = spec_chunk true c ++ canon_uri_body rest.
Proof. bytecases c. Qed.

Lemma canon_uri_body_spec p : canon_uri_body (spec_uri_encode true p) = spec_uri_encode true p.
Proof.
  unfold spec_uri_encode. change (canon_uri_body (flat_map (spec_chunk true) p) = flat_map (spec_chunk true) p).
  induction p as [|c p IH]; [reflexivity|].
  cbn [flat_map]. rewrite canon_uri_body_chunk, IH. reflexivity.
Qed.

Lemma go_unescape_chunk ks c rest :
  go_unescape false (spec_chunk ks c ++ rest) = option_map (cons c) (go_unescape false rest).
Proof. destruct ks; destruct c; cbn; destruct (go_unescape false rest); reflexivity. Qed.

Lemma go_unescape_spec ks p : go_unescape false (spec_uri_encode ks p) = Some p.
Proof.
  unfold spec_uri_encode. change (go_unescape false (flat_map (spec_chunk ks) p) = Some p).
  induction p as [|c p IH]; [reflexivity|].
  cbn [flat_map]. rewrite go_unescape_chunk, IH. reflexivity.
Qed.

Lemma chunk_valid ks c : forallb (fun c => byte_in c B"!$&'()*+,;=:@[]%" || negb (go_should_escape_path c)) (spec_chunk ks c) = true.
Proof. destruct ks; bytecases c. Qed.
Lemma chunk_noctl ks c : existsb is_ctl (spec_chunk ks c) = false.
Proof. destruct ks; bytecases c. Qed.

Lemma spec_valid_encoded ks p : go_valid_encoded_path (spec_uri_encode ks p) = true.
Proof.
  unfold go_valid_encoded_path, spec_uri_encode. change (forallb (fun c => byte_in c B"!$&'()*+,;=:@[]%" || negb (go_should_escape_path c)) (flat_map (spec_chunk ks) p) = true).
  induction p as [|c p IH]; [reflexivity|]. cbn [flat_map]. rewrite forallb_app, chunk_valid, IH. reflexivity.
Qed.
Lemma spec_noctl ks p : existsb is_ctl (spec_uri_encode ks p) = false.
Proof.
  unfold spec_uri_encode. change (existsb is_ctl (flat_map (spec_chunk ks) p) = false).
  induction p as [|c p IH]; [reflexivity|]. cbn [flat_map]. rewrite existsb_app, chunk_noctl, IH. reflexivity.
Qed.

Lemma escaped_path_spec ks p : go_escaped_path (spec_uri_encode ks p) = Some (spec_uri_encode ks p).
Proof. unfold go_escaped_path. rewrite spec_noctl, go_unescape_spec, spec_valid_encoded. reflexivity. Qed.

Lemma spec_encode_nonempty ks c p : spec_uri_encode ks (c :: p) <> [].
Proof. unfold spec_uri_encode. cbn [flat_map]. destruct (is_unreserved c || (ks && beqb c "/"%byte)); discriminate. Qed.

Lemma canon_uri_standard p :
  go_escaped_path (spec_uri_encode true p) = Some (spec_uri_encode true p) /\
  canonical_uri (spec_uri_encode true p) = spec_canonical_uri p.
Proof.
  split; [apply escaped_path_spec|].
  destruct p as [|c p]; [reflexivity|].
  unfold canonical_uri, spec_canonical_uri.
  pose proof (spec_encode_nonempty true c p) as Hn.
  destruct (spec_uri_encode true (c :: p)) eqn:E; [contradiction|]. rewrite <- E. apply canon_uri_body_spec.
Qed.

(* clients that write the hex digits of the escapes in lower case are canonicalised to the same string *)
Definition lower_chunk (c : byte) : bytes :=
  if is_unreserved c || beqb c "/"%byte then [c] else map lower_byte (pct c).
Lemma canon_uri_body_lower_chunk c rest :
  canon_uri_body (lower_chunk c ++ rest) = spec_chunk true c ++ canon_uri_body rest.
Proof. bytecases c. Qed.
Lemma canon_uri_lower_hex p :
  canon_uri_body (flat_map lower_chunk p) = spec_uri_encode true p.
Proof.
  unfold spec_uri_encode. change (canon_uri_body (flat_map lower_chunk p) = flat_map (spec_chunk true) p).
  induction p as [|c p IH]; [reflexivity|]. cbn [flat_map]. rewrite canon_uri_body_lower_chunk, IH. reflexivity.
Qed.
