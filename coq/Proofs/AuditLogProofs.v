(* Proofs/AuditLogProofs.v — lemmas for C27 (and the validator facts reused by C26). *)
From Verif Require Import Bytes Codec AuditLog.
From Coq Require Import ZifyBool ZifyN ZifyNat.
Local Open Scope N_scope.

(* ---------------------------------------------------------------- primitives *)
Lemma byteN_Nbyte x : x < 256 -> byteN (Nbyte x) = x.
Proof.
  intros Hx. unfold byteN, Nbyte. destruct (Byte.of_N x) eqn:E.
  - apply Byte.to_of_N; exact E.
  - apply Byte.of_N_None_iff in E. lia.
Qed.

Lemma length_be k n : length (be k n) = k.
Proof. induction k; cbn [be length]; congruence. Qed.

Lemma lenN_be k n : lenN (be k n) = N.of_nat k.
Proof. unfold lenN. rewrite length_be. reflexivity. Qed.

Lemma be_val_go k : forall n acc,
  fold_left (fun a b => 256 * a + byteN b) (be k n) acc = acc * 256 ^ N.of_nat k + n mod 256 ^ N.of_nat k.
Proof.
  induction k as [|k IH]; intros n acc.
  - cbn. rewrite N.mod_1_r. lia.
  - cbn [be fold_left]. rewrite IH.
    rewrite byteN_Nbyte by (apply N.mod_lt; lia).
    replace (N.of_nat (S k)) with (N.succ (N.of_nat k)) by lia.
    rewrite N.pow_succ_r'.
    rewrite (N.mul_comm 256 (256 ^ N.of_nat k)).
    rewrite (N.mod_mul_r n (256 ^ N.of_nat k) 256) by (try apply N.pow_nonzero; lia).
    lia.
Qed.

Lemma be_val_be k n : n < 256 ^ N.of_nat k -> be_val (be k n) = n.
Proof. intros Hn. unfold be_val. rewrite be_val_go. rewrite N.mod_small by exact Hn. lia. Qed.

Lemma takeN_app x : forall r, takeN (lenN x) (x ++ r) = Some (x, r).
Proof.
  induction x as [|b x IH]; intros r.
  - cbn. destruct r; reflexivity.
  - cbn [app takeN]. replace (lenN (b :: x) =? 0) with false by (unfold lenN; cbn [length]; lia).
    replace (lenN (b :: x) - 1) with (lenN x) by (unfold lenN; cbn [length]; lia).
    rewrite IH. reflexivity.
Qed.

Lemma rtake_app x r : x <> [] -> rtake (lenN x) (x ++ r) = ROk x r.
Proof.
  intros Hx. unfold rtake. destruct (x ++ r) eqn:E.
  - destruct x; [contradiction | discriminate].
  - rewrite <- E, takeN_app. reflexivity.
Qed.

Lemma rtake_len x r k : lenN x = k -> 0 < k -> rtake k (x ++ r) = ROk x r.
Proof. intros <- Hk. apply rtake_app. intros ->. cbn in Hk. lia. Qed.

Lemma rnum_be k n r : (0 < k)%nat -> n < 256 ^ N.of_nat k -> rnum (N.of_nat k) (be k n ++ r) = ROk n r.
Proof.
  intros Hk Hn. unfold rnum. rewrite (rtake_len (be k n) r) by (try apply lenN_be; lia).
  cbn [rbind]. rewrite be_val_be by exact Hn. reflexivity.
Qed.

Lemma rnum4 n r : n < 2 ^ 32 -> rnum 4 (be 4 n ++ r) = ROk n r.
Proof. intros Hn. apply (rnum_be 4 n r); [lia | exact Hn]. Qed.
Lemma rnum8 n r : n < 2 ^ 64 -> rnum 8 (be 8 n ++ r) = ROk n r.
Proof. intros Hn. apply (rnum_be 8 n r); [lia | exact Hn]. Qed.
Lemma rnum2 n r : n < 65536 -> rnum 2 (be 2 n ++ r) = ROk n r.
Proof. intros Hn. apply (rnum_be 2 n r); [lia | exact Hn]. Qed.

Definition str_ok (s : bytes) : Prop := lenN s < 2 ^ 32.
Definition i32_ok (z : Z) : Prop := (- 2 ^ 31 <= z < 2 ^ 31)%Z.
Definition i64_ok (z : Z) : Prop := (- 2 ^ 63 <= z < 2 ^ 63)%Z.

Lemma rbytes_wbytes b r : str_ok b -> rbytes (wbytes b ++ r) = ROk b r.
Proof.
  intros Hb. unfold rbytes, wbytes, u32. rewrite <- app_assoc.
  rewrite (rnum4 (lenN b) (b ++ r)) by exact Hb.
  cbn [rbind]. destruct b as [|c b].
  - reflexivity.
  - replace (lenN (c :: b) =? 0) with false by (unfold lenN; cbn [length]; lia).
    apply rtake_app. discriminate.
Qed.

Lemma to_signed_32 z : i32_ok z -> to_signed 32 (Z.to_N (z mod 2 ^ 32)) = z.
Proof.
  intros Hz. unfold i32_ok in Hz. unfold to_signed.
  assert (0 <= z mod 2 ^ 32 < 2 ^ 32)%Z by (apply Z.mod_pos_bound; lia).
  rewrite Z2N.id by lia.
  destruct (Z_lt_le_dec z 0).
  - replace (z mod 2 ^ 32)%Z with (z + 2 ^ 32)%Z.
    2:{ apply (Z.mod_unique_pos z (2 ^ 32) (-1)); lia. }
    replace (z + 2 ^ 32 <? 2 ^ (32 - 1))%Z with false by lia. lia.
  - rewrite Z.mod_small by lia. replace (z <? 2 ^ (32 - 1))%Z with true by lia. reflexivity.
Qed.

Lemma to_signed_64 z : i64_ok z -> to_signed 64 (Z.to_N (z mod 2 ^ 64)) = z.
Proof.
  intros Hz. unfold i64_ok in Hz. unfold to_signed.
  assert (0 <= z mod 2 ^ 64 < 2 ^ 64)%Z by (apply Z.mod_pos_bound; lia).
  rewrite Z2N.id by lia.
  destruct (Z_lt_le_dec z 0).
  - replace (z mod 2 ^ 64)%Z with (z + 2 ^ 64)%Z.
    2:{ apply (Z.mod_unique_pos z (2 ^ 64) (-1)); lia. }
    replace (z + 2 ^ 64 <? 2 ^ (64 - 1))%Z with false by lia. lia.
  - rewrite Z.mod_small by lia. replace (z <? 2 ^ (64 - 1))%Z with true by lia. reflexivity.
Qed.

Lemma ri32_i32 z r : i32_ok z -> ri32 (i32 z ++ r) = ROk z r.
Proof.
  intros Hz. unfold ri32, i32.
  assert (0 <= z mod 2 ^ 32 < 2 ^ 32)%Z by (apply Z.mod_pos_bound; lia).
  rewrite rnum4 by lia.
  cbn [rbind]. rewrite to_signed_32 by exact Hz. reflexivity.
Qed.

Lemma ri64_i64 z r : i64_ok z -> ri64 (i64 z ++ r) = ROk z r.
Proof.
  intros Hz. unfold ri64, i64.
  assert (0 <= z mod 2 ^ 64 < 2 ^ 64)%Z by (apply Z.mod_pos_bound; lia).
  rewrite rnum8 by lia.
  cbn [rbind]. rewrite to_signed_64 by exact Hz. reflexivity.
Qed.

Lemma ru16 n r : n < 65536 -> rnum 2 (u16 n ++ r) = ROk n r.
Proof. intros Hn. unfold u16. apply rnum2; exact Hn. Qed.

(* ---------------------------------------------------------------- well-formed entries *)
Definition logd_ok (d : logd) : Prop :=
  str_ok (l_op d) /\ str_ok (l_phase d) /\ str_ok (l_bucket d) /\ str_ok (l_key d) /\ str_ok (l_upload d) /\
  str_ok (l_srcb d) /\ str_ok (l_srck d) /\ str_ok (l_cred d) /\ str_ok (l_auth d) /\ str_ok (l_reqid d) /\
  str_ok (l_trace d) /\ str_ok (l_ip d) /\ str_ok (l_outcome d) /\ str_ok (l_errcode d) /\ str_ok (l_err d) /\
  i32_ok (l_part d) /\ i32_ok (l_status d) /\ i64_ok (l_dur d).

(* what a version <= 1 record can carry: everything else is rebuilt by the decoders *)
Definition legacy_canonical (d : logd) : Prop :=
  l_srcb d = [] /\ l_srck d = [] /\ l_auth d = B"anonymous" /\ l_reqid d = [] /\ l_trace d = [] /\
  l_ip d = [] /\ l_errcode d = [] /\ l_dur d = 0%Z /\
  l_status d = (if is_empty (l_err d) then 200 else 500)%Z /\
  l_outcome d = (if is_empty (l_err d) then B"success" else B"error").

Definition wf_details (ver : N) (ty : bytes) (d : details) : Prop :=
  match d with
  | DGenesis => ty = t_genesis
  | DLog l => ty = t_log /\ logd_ok l /\ (ver <= 1 -> legacy_canonical l)
  | DGround root sE sM => ty = t_grounding /\ str_ok root /\ lenN sE = ed_sig_size /\ lenN sM = mldsa_sig_size
  | DNone => ty <> t_genesis /\ ty <> t_log /\ ty <> t_grounding
  end.

Definition wf_hash (e : entry) : Prop :=
  e_ver e < 65536 /\ i64_ok (e_ts e) /\ str_ok (e_type e) /\ wf_details (e_ver e) (e_type e) (e_det e).

Definition no_src (d : details) : Prop :=
  match d with DLog l => l_srcb l = [] /\ l_srck l = [] | _ => True end.

Definition wf_bin (e : entry) : Prop :=
  wf_hash e /\ lenN (e_prev e) = sha_size /\ lenN (e_hash e) = sha_size /\ lenN (e_sig e) = ed_sig_size /\
  (e_ver e = 2 -> no_src (e_det e)).

Ltac rd_step :=
  first [ rewrite rbytes_wbytes by assumption
        | rewrite ri32_i32 by assumption
        | rewrite ri64_i64 by assumption
        | rewrite ru16 by assumption ];
  cbn [rbind].

Lemma eqb_genesis_log : bytes_eqb t_log t_genesis = false. Proof. reflexivity. Qed.
Lemma eqb_ground_genesis : bytes_eqb t_grounding t_genesis = false. Proof. reflexivity. Qed.
Lemma eqb_ground_log : bytes_eqb t_grounding t_log = false. Proof. reflexivity. Qed.

Lemma str_ok_nil : str_ok []. Proof. unfold str_ok. cbn. lia. Qed.

Lemma dec_logd_enc ver d r :
  logd_ok d -> (ver <= 1 -> legacy_canonical d) -> (ver = 2 -> l_srcb d = [] /\ l_srck d = []) ->
  dec_logd ver (logd_bin_part ver d ++ r) = ROk d r.
Proof.
  intros Hok Hleg Hv2.
  destruct d as [op phase bucket key upload part srcb srck cred auth reqid trace ip status outcome errcode err dur].
  unfold logd_ok, legacy_canonical in *. cbn in Hok, Hleg, Hv2.
  destruct Hok as (?&?&?&?&?&?&?&?&?&?&?&?&?&?&?&?&?&?).
  unfold logd_bin_part, dec_logd. cbn [l_op l_phase l_bucket l_key l_upload l_part l_srcb
    l_srck l_cred l_auth l_reqid l_trace l_ip l_status l_outcome l_errcode l_err l_dur].
  destruct (3 <=? ver) eqn:E3; destruct (ver <=? 1) eqn:E1; try lia.
  - (* ver >= 3 *)
    repeat rewrite <- app_assoc. repeat rd_step. reflexivity.
  - (* ver <= 1 *)
    destruct Hleg as (-> & -> & -> & -> & -> & -> & -> & -> & -> & ->); [lia|].
    repeat rewrite <- app_assoc. cbn [app]. repeat rd_step. reflexivity.
  - (* ver = 2 *)
    destruct Hv2 as (-> & ->); [lia|].
    repeat rewrite <- app_assoc. cbn [app]. repeat rd_step. reflexivity.
Qed.

Lemma dec_details_enc ver ty d dp r :
  wf_details ver ty d -> (ver = 2 -> no_src d) -> details_bin_part ver d = Some dp ->
  dec_details ver ty (dp ++ r) = ROk d r.
Proof.
  intros Hwf Hv2 Henc. unfold dec_details. destruct d as [|l|root sE sM|]; cbn [wf_details] in Hwf; cbn [details_bin_part] in Henc.
  - subst ty. injection Henc as <-. reflexivity.
  - destruct Hwf as (-> & Hok & Hleg). injection Henc as <-. rewrite eqb_genesis_log.
    rewrite (bytes_eqb_refl t_log).
    rewrite dec_logd_enc by (try assumption; exact Hv2). reflexivity.
  - destruct Hwf as (-> & Hroot & HE & HM). rewrite HE, HM in Henc.
    rewrite !N.eqb_refl in Henc. cbn [andb] in Henc.
    remember (wbytes root ++ sE ++ sM) as X eqn:EX. injection Henc as <-. subst X.
    rewrite eqb_ground_genesis, eqb_ground_log. rewrite (bytes_eqb_refl t_grounding).
    repeat rewrite <- app_assoc. rd_step.
    rewrite (rtake_len sE) by (try exact HE; reflexivity). cbn [rbind].
    rewrite (rtake_len sM) by (try exact HM; reflexivity). cbn [rbind]. reflexivity.
  - destruct Hwf as (Hg & Hl & Hr). injection Henc as <-.
    apply bytes_eqb_neq in Hg, Hl, Hr. rewrite Hg, Hl, Hr. reflexivity.
Qed.

Theorem dec_bin_enc_bin e bs r : wf_bin e -> enc_bin e = Some bs -> dec_bin (bs ++ r) = ROk e r.
Proof.
  intros (Hwf & Hp & Hh & Hs & Hv2) Henc. destruct Hwf as (Hver & Hts & Hty & Hdet).
  destruct e as [ver ts ty det prev hash sig]. cbn [e_ver e_ts e_type e_det e_prev e_hash e_sig] in *.
  unfold enc_bin in Henc. cbn [e_ver e_ts e_type e_det e_prev e_hash e_sig] in Henc.
  destruct (details_bin_part ver det) as [dp|] eqn:Edp; [|discriminate].
  rewrite Hp, Hh, Hs in Henc. rewrite !N.eqb_refl in Henc. cbn [andb] in Henc.
  remember (u16 ver ++ i64 ts ++ wbytes ty ++ dp ++ prev ++ hash ++ sig) as X eqn:EX. injection Henc as <-. subst X.
  unfold dec_bin. repeat rewrite <- app_assoc. repeat rd_step.
  rewrite (dec_details_enc ver ty det dp) by assumption. cbn [rbind].
  rewrite (rtake_len prev) by (try exact Hp; reflexivity). cbn [rbind].
  rewrite (rtake_len hash) by (try exact Hh; reflexivity). cbn [rbind].
  rewrite (rtake_len sig) by (try exact Hs; reflexivity). cbn [rbind]. reflexivity.
Qed.

(* a whole file: the read loop returns exactly the entries written, then clean EOF *)
Lemma dec_bin_nil : dec_bin [] = RErr EEof. Proof. reflexivity. Qed.

Lemma rev'_rev {A} (l : list A) : rev' l = rev l.
Proof. unfold rev'. rewrite rev_append_rev, app_nil_r. reflexivity. Qed.

Lemma dec_all_concat : forall L chunks acc fuel,
  Forall2 (fun e c => wf_bin e /\ enc_bin e = Some c) L chunks -> (length L < fuel)%nat ->
  dec_all fuel (concat chunks) acc = (rev acc ++ L, None).
Proof.
  induction L as [|e L IH]; intros chunks acc fuel HF Hfuel; inversion HF; subst.
  - destruct fuel; [cbn in Hfuel; lia|]. cbn. rewrite rev'_rev, app_nil_r. reflexivity.
  - destruct fuel; [cbn in Hfuel; lia|]. cbn [concat dec_all].
    destruct H1 as [Hwf Henc]. rewrite (dec_bin_enc_bin e y (concat l') Hwf Henc).
    rewrite (IH l' (e :: acc) fuel H3) by (cbn in Hfuel; lia).
    cbn [rev]. rewrite <- app_assoc. reflexivity.
Qed.

(* ---------------------------------------------------------------- JSON (struct level) *)
Lemma hex_val_digit n : n < 16 -> hex_val (hex_digit n) = Some n.
Proof.
  intros Hn. assert (n = 0 \/ n = 1 \/ n = 2 \/ n = 3 \/ n = 4 \/ n = 5 \/ n = 6 \/ n = 7 \/ n = 8 \/ n = 9 \/
                     n = 10 \/ n = 11 \/ n = 12 \/ n = 13 \/ n = 14 \/ n = 15) as Hc by lia.
  repeat (destruct Hc as [-> | Hc]; [reflexivity|]). subst; reflexivity.
Qed.

Lemma Nbyte_split b : Nbyte (16 * (byteN b / 16) + byteN b mod 16) = b.
Proof.
  rewrite <- N.div_mod by lia. unfold Nbyte, byteN. rewrite Byte.of_to_N. reflexivity.
Qed.

Lemma hex_dec_enc b : hex_dec (hex_enc b) = Some b.
Proof.
  induction b as [|c b IH]; [reflexivity|]. cbn [hex_enc hex_dec].
  assert (byteN c < 256) by (unfold byteN; pose proof (Byte.to_N_bounded c); lia).
  rewrite !hex_val_digit by (try apply N.mod_lt; try apply N.div_lt_upper_bound; lia).
  rewrite IH, Nbyte_split. reflexivity.
Qed.

Lemma hex_dec_partial_enc b : hex_dec_partial (hex_enc b) = b.
Proof.
  induction b as [|c b IH]; [reflexivity|]. cbn [hex_enc hex_dec_partial].
  assert (byteN c < 256) by (unfold byteN; pose proof (Byte.to_N_bounded c); lia).
  rewrite !hex_val_digit by (try apply N.mod_lt; try apply N.div_lt_upper_bound; lia).
  rewrite IH, Nbyte_split. reflexivity.
Qed.

Lemma dflt_omit s : dflt (omit s) = s. Proof. destruct s; reflexivity. Qed.
Lemma dfltZ_omitZ z : dfltZ (omitZ z) = z.
Proof. unfold omitZ. destruct (z =? 0)%Z eqn:E; cbn; lia. Qed.

(* type/details agree; legacy versions carry only their own layout (no numeric ranges needed here) *)
Definition wf_json (e : entry) : Prop :=
  match e_det e with
  | DGenesis => e_type e = t_genesis
  | DLog l => e_type e = t_log /\ (e_ver e <= 1 -> legacy_canonical l)
  | DGround _ _ _ => e_type e = t_grounding
  | DNone => e_type e <> t_genesis /\ e_type e <> t_log /\ e_type e <> t_grounding
  end.

Theorem dec_json_enc_json e : wf_json e -> dec_json (enc_json e) = Some e.
Proof.
  intros Hwf. destruct e as [ver ts ty det prev hash sig]. unfold wf_json in Hwf. cbn [e_det e_type e_ver] in Hwf.
  unfold dec_json, enc_json. cbn [j_prev j_hash j_sig j_ver j_type j_det e_ver e_ts e_type e_det e_prev e_hash e_sig].
  rewrite !hex_dec_enc. unfold dec_json_details.
  destruct det as [|l|root sE sM|]; cbn [enc_json_details].
  - subst ty. reflexivity.
  - destruct Hwf as [-> Hleg]. rewrite eqb_genesis_log, (bytes_eqb_refl t_log).
    destruct l as [op phase bucket key upload part srcb srck cred auth reqid trace ip status outcome errcode err dur].
    cbn [l_op l_phase l_bucket l_key l_upload l_part l_srcb l_srck l_cred l_auth l_reqid l_trace l_ip l_status
         l_outcome l_errcode l_err l_dur].
    destruct (ver <=? 1) eqn:E1.
    + destruct Hleg as (Hsb & Hsk & Ha & Hr & Ht & Hi & Hec & Hd & Hst & Ho); [lia|]. cbn in Hsb, Hsk, Ha, Hr, Ht, Hi, Hec, Hd, Hst, Ho.
      subst. unfold logd_of_v1. rewrite !dflt_omit, dfltZ_omitZ. reflexivity.
    + rewrite !dflt_omit, dfltZ_omitZ. reflexivity.
  - subst ty. rewrite eqb_ground_genesis, eqb_ground_log, (bytes_eqb_refl t_grounding).
    rewrite !hex_dec_partial_enc. reflexivity.
  - destruct Hwf as (Hg & Hl & Hr). apply bytes_eqb_neq in Hg, Hl, Hr. rewrite Hg, Hl, Hr. reflexivity.
Qed.

(* ---------------------------------------------------------------- hash input: what it determines *)
Definition strip_src_l (l : logd) : logd :=
  {| l_op := l_op l; l_phase := l_phase l; l_bucket := l_bucket l; l_key := l_key l; l_upload := l_upload l;
     l_part := l_part l; l_srcb := []; l_srck := []; l_cred := l_cred l; l_auth := l_auth l; l_reqid := l_reqid l;
     l_trace := l_trace l; l_ip := l_ip l; l_status := l_status l; l_outcome := l_outcome l;
     l_errcode := l_errcode l; l_err := l_err l; l_dur := l_dur l |}.
Definition strip_src_d (d : details) : details := match d with DLog l => DLog (strip_src_l l) | _ => d end.
(* the entry without the two copy-source fields *)
Definition strip_src (e : entry) : entry :=
  {| e_ver := e_ver e; e_ts := e_ts e; e_type := e_type e; e_det := strip_src_d (e_det e);
     e_prev := e_prev e; e_hash := e_hash e; e_sig := e_sig e |}.
(* ... and without hash and signature: everything CalculateHash could possibly cover *)
Definition core (e : entry) : entry :=
  {| e_ver := e_ver e; e_ts := e_ts e; e_type := e_type e; e_det := strip_src_d (e_det e);
     e_prev := e_prev e; e_hash := []; e_sig := [] |}.

Definition hver (v : N) : N := if v <=? 1 then v else 2.

(* a reader for the hash input layout (specification device: a left inverse of hash_input) *)
Definition hi_dec (l : bytes) : rd entry :=
  rdo ver, r <- rnum 2 l; rdo ts, r <- ri64 r; rdo ty, r <- rbytes r;
  rdo det, r <- dec_details (hver ver) ty r;
  ROk {| e_ver := ver; e_ts := ts; e_type := ty; e_det := det; e_prev := r; e_hash := []; e_sig := [] |} [].

Lemma hash_part_as_bin ver d : details_hash_part ver d = details_bin_part (hver ver) (strip_src_d d).
Proof.
  destruct d as [|l| |]; try reflexivity. cbn [details_hash_part details_bin_part strip_src_d]. f_equal.
  unfold logd_hash_part, logd_bin_part, hver. cbn [strip_src_l l_op l_phase l_bucket l_key l_upload l_part l_srcb l_srck
    l_cred l_auth l_reqid l_trace l_ip l_status l_outcome l_errcode l_err l_dur].
  destruct (ver <=? 1) eqn:E.
  - rewrite E. replace (3 <=? ver) with false by lia. reflexivity.
  - cbn. reflexivity.
Qed.

Lemma wf_details_strip ver ty d : wf_details ver ty d -> wf_details (hver ver) ty (strip_src_d d) /\ no_src (strip_src_d d).
Proof.
  destruct d as [|l| |]; cbn [wf_details strip_src_d no_src]; try tauto.
  intros (Hty & Hok & Hleg). unfold logd_ok, legacy_canonical in *.
  cbn [strip_src_l l_op l_phase l_bucket l_key l_upload l_part l_srcb l_srck
    l_cred l_auth l_reqid l_trace l_ip l_status l_outcome l_errcode l_err l_dur].
  pose proof str_ok_nil as Hnil.
  split; [split; [tauto | split] | split; reflexivity].
  - destruct Hok as (?&?&?&?&?&?&?&?&?&?&?&?&?&?&?&?&?&?).
    repeat (split; [first [assumption | exact Hnil]|]). assumption.
  - intros Hv. assert (ver <= 1) as Hv' by (unfold hver in Hv; destruct (ver <=? 1) eqn:E; lia).
    destruct (Hleg Hv') as (?&?&?&?&?&?&?&?&?&?).
    repeat (split; [first [assumption | reflexivity]|]). assumption.
Qed.

Lemma hi_dec_hash_input e x : wf_hash e -> hash_input e = Some x -> hi_dec x = ROk (core e) [].
Proof.
  intros (Hver & Hts & Hty & Hdet) Hx. destruct e as [ver ts ty det prev hash sig].
  cbn [e_ver e_ts e_type e_det e_prev e_hash e_sig] in *. unfold hash_input in Hx.
  cbn [e_ver e_ts e_type e_det e_prev e_hash e_sig] in Hx.
  destruct (details_hash_part ver det) as [dp|] eqn:Edp; [|discriminate].
  remember (u16 ver ++ i64 ts ++ wbytes ty ++ dp ++ prev) as X eqn:EX. injection Hx as <-. subst X.
  rewrite hash_part_as_bin in Edp. destruct (wf_details_strip ver ty det Hdet) as [Hwf' Hns].
  unfold hi_dec. repeat rd_step.
  rewrite (dec_details_enc (hver ver) ty (strip_src_d det) dp prev Hwf' (fun _ => Hns) Edp). cbn [rbind].
  reflexivity.
Qed.

Theorem hash_input_determines_core e1 e2 x :
  wf_hash e1 -> wf_hash e2 -> hash_input e1 = Some x -> hash_input e2 = Some x -> core e1 = core e2.
Proof.
  intros H1 H2 X1 X2. pose proof (hi_dec_hash_input e1 x H1 X1) as A. pose proof (hi_dec_hash_input e2 x H2 X2) as C.
  rewrite A in C. assert (forall a b : entry, ROk a [] = ROk b [] -> a = b) as Inj by (intros a b E; congruence).
  apply Inj. exact C.
Qed.

Lemma hash_input_long e x : hash_input e = Some x -> (10 <= length x)%nat.
Proof.
  unfold hash_input. destruct (details_hash_part (e_ver e) (e_det e)) as [dp|]; [|discriminate].
  intros Hx. assert (x = u16 (e_ver e) ++ i64 (e_ts e) ++ wbytes (e_type e) ++ dp ++ e_prev e) as -> by congruence.
  unfold u16, i64. rewrite !app_length, !length_be. lia.
Qed.

(* ================================================================ the validator *)
Section ValidatorFacts.
Variable H : bytes -> bytes.
Variables vE vM : bytes -> bytes -> bool.
Variables (useE useM : bool) (block : N).

Notation ventry := (validate_entry H vE vM useE useM block).
Notation vfrom := (validate_from H vE vM useE useM block).

Definition expected_prev (st : vstate) : bytes := if v_idx st =? 0 then genesis_prev H else v_prev st.
Definition sealed (e : entry) : Prop := exists x, hash_input e = Some x /\ H x = e_hash e.

Lemma ventry_ok st e st' : ventry st e = VOk st' ->
  sealed e /\ e_prev e = expected_prev st /\ (useE = true -> vE (e_hash e) (e_sig e) = true) /\
  v_prev st' = e_hash e /\ v_idx st' = v_idx st + 1.
Proof.
  unfold validate_entry. intros Hv.
  destruct (hash_input e) as [x|] eqn:Ehi; [|discriminate].
  destruct (bytes_eqb (H x) (e_hash e)) eqn:Eh; cbn [negb] in Hv; [|discriminate].
  apply bytes_eqb_eq in Eh.
  assert (e_prev e = expected_prev st /\
          (if useE && negb (vE (e_hash e) (e_sig e)) then false else true) = true /\
          v_prev st' = e_hash e /\ v_idx st' = v_idx st + 1) as (Hp & Hs & Hpr & Hidx).
  { unfold expected_prev. destruct (v_idx st =? 0) eqn:Ei; cbn [andb negb] in Hv.
    - destruct (bytes_eqb (e_type e) t_genesis); cbn [negb] in Hv; [|discriminate].
      destruct (bytes_eqb (e_prev e) (genesis_prev H)) eqn:Ep; cbn [negb] in Hv; [|discriminate].
      apply bytes_eqb_eq in Ep. split; [exact Ep|].
      destruct (useE && negb (vE (e_hash e) (e_sig e))); [discriminate|]. split; [reflexivity|].
      repeat match type of Hv with
             | context [match ?c with _ => _ end] => destruct c; try discriminate
             end; injection Hv as <-; cbn; split; reflexivity.
    - destruct (bytes_eqb (e_prev e) (v_prev st)) eqn:Ep; cbn [negb] in Hv; [|discriminate].
      apply bytes_eqb_eq in Ep. split; [exact Ep|].
      destruct (useE && negb (vE (e_hash e) (e_sig e))); [discriminate|]. split; [reflexivity|].
      repeat match type of Hv with
             | context [match ?c with _ => _ end] => destruct c; try discriminate
             end; injection Hv as <-; cbn; split; reflexivity. }
  split; [exists x; split; [exact Ehi | exact Eh]|].
  split; [exact Hp|]. split; [|split; assumption].
  intros ->. cbn [andb] in Hs. destruct (vE (e_hash e) (e_sig e)); [reflexivity | discriminate].
Qed.

Fixpoint chain (p : bytes) (l : list entry) : Prop :=
  match l with [] => True | e :: t => e_prev e = p /\ chain (e_hash e) t end.

Lemma vfrom_ok : forall l st st', vfrom st l = VOk st' ->
  Forall sealed l /\ chain (expected_prev st) l /\
  (useE = true -> Forall (fun e => vE (e_hash e) (e_sig e) = true) l).
Proof.
  induction l as [|e l IH]; intros st st' Hv.
  - cbn. repeat split; constructor.
  - cbn [validate_from] in Hv. destruct (ventry st e) as [st1| |] eqn:E1; try discriminate.
    destruct (ventry_ok st e st1 E1) as (Hs & Hp & Hsig & Hpr & Hidx).
    destruct (IH st1 st' Hv) as (IH1 & IH2 & IH3).
    assert (expected_prev st1 = e_hash e) as Hexp.
    { unfold expected_prev. rewrite Hidx. replace (v_idx st + 1 =? 0) with false by lia. exact Hpr. }
    rewrite Hexp in IH2.
    split; [constructor; assumption|]. split; [cbn; split; assumption|].
    intros Hu. constructor; [apply Hsig; exact Hu | apply IH3; exact Hu].
Qed.
End ValidatorFacts.

(* ================================================================ hash chains *)
Section Chains.
Variable H : bytes -> bytes.
Variable occ : list bytes.
Hypothesis Hcf : forall x y, In x occ -> In y occ -> H x = H y -> x = y.
Hypothesis Hpith : In B"pithos" occ.
Let G := genesis_prev H.

Definition inocc (e : entry) : Prop := exists x, hash_input e = Some x /\ In x occ /\ H x = e_hash e.
Definition tip (g : bytes) (P : list entry) : bytes := last (map e_hash P) g.

Lemma last_indep {A} (b : A) l d d' : last (b :: l) d = last (b :: l) d'.
Proof.
  revert b; induction l as [|c l IH]; intros b; [reflexivity|].
  change (last (b :: c :: l) d) with (last (c :: l) d). change (last (b :: c :: l) d') with (last (c :: l) d'). apply IH.
Qed.
Lemma last_cons {A} (a : A) l d : last (a :: l) d = last l a.
Proof. destruct l as [|b l]; [reflexivity|]. change (last (a :: b :: l) d) with (last (b :: l) d). apply last_indep. Qed.

Lemma tip_cons g e P : tip g (e :: P) = tip (e_hash e) P.
Proof. unfold tip. cbn [map]. apply last_cons. Qed.

Lemma chain_app : forall P g S, chain g (P ++ S) <-> chain g P /\ chain (tip g P) S.
Proof.
  induction P as [|e P IH]; intros g S.
  - cbn. tauto.
  - cbn [app chain]. rewrite IH, tip_cons. tauto.
Qed.

Lemma tip_in g P : In (tip g P) (g :: map e_hash P).
Proof.
  revert g; induction P as [|e P IH]; intros g; [left; reflexivity|].
  rewrite tip_cons. right. cbn [map]. apply IH.
Qed.

Lemma tip_in_tail g A e Bs : In (tip g (A ++ e :: Bs)) (map e_hash (e :: Bs)).
Proof.
  revert g; induction A as [|a A IH]; intros g.
  - cbn [app]. rewrite tip_cons. cbn [map]. apply tip_in.
  - cbn [app]. rewrite tip_cons. apply IH.
Qed.

Lemma nodup_disjoint {A} (l1 l2 : list A) x : NoDup (l1 ++ l2) -> In x l1 -> In x l2 -> False.
Proof.
  induction l1 as [|a l1 IH]; intros Hn H1 H2; [contradiction|].
  cbn in Hn. apply NoDup_cons_iff in Hn. destruct Hn as [Hna Hn]. destruct H1 as [->|H1].
  - apply Hna. apply in_or_app. right; exact H2.
  - apply IH; assumption.
Qed.

Lemma nodup_snoc {A} (l : list A) a : NoDup l -> ~ In a l -> NoDup (l ++ [a]).
Proof.
  induction l as [|b l IH]; intros Hn Hi; cbn.
  - constructor; [intros [] | constructor].
  - apply NoDup_cons_iff in Hn. destruct Hn as [Hnb Hn]. constructor.
    + intros Hin. apply in_app_or in Hin. destruct Hin as [Hin|[->|[]]]; [contradiction|]. apply Hi; left; reflexivity.
    + apply IH; [assumption|]. intros Hin; apply Hi; right; exact Hin.
Qed.

Lemma same_hash_core e1 e2 : wf_hash e1 -> wf_hash e2 -> inocc e1 -> inocc e2 -> e_hash e1 = e_hash e2 -> core e1 = core e2.
Proof.
  intros W1 W2 (x1 & X1 & O1 & H1) (x2 & X2 & O2 & H2) Eh.
  assert (x1 = x2) as -> by (apply Hcf; try assumption; congruence).
  eapply hash_input_determines_core; eassumption.
Qed.

Lemma core_prev e1 e2 : core e1 = core e2 -> e_prev e1 = e_prev e2.
Proof. intros E. apply (f_equal e_prev) in E. exact E. Qed.

Lemma not_genesis e : inocc e -> e_hash e <> G.
Proof.
  intros (x & X & O & Hx) E. unfold G, genesis_prev in E. rewrite <- Hx in E.
  apply Hcf in E; try assumption. subst x. apply hash_input_long in X. cbn in X. lia.
Qed.

Lemma chain_nodup : forall L, Forall wf_hash L -> Forall inocc L -> chain G L -> NoDup (G :: map e_hash L).
Proof.
  induction L as [|e L0 IH] using rev_ind; intros Hwf Hin Hch.
  - cbn. constructor; [intros [] | constructor].
  - apply Forall_app in Hwf. destruct Hwf as [Hwf0 Hwfe]. apply Forall_app in Hin. destruct Hin as [Hin0 Hine].
    inversion Hwfe; subst. inversion Hine; subst. clear Hwfe Hine.
    apply chain_app in Hch. destruct Hch as [Hch0 [Hpe _]].
    specialize (IH Hwf0 Hin0 Hch0).
    rewrite map_app. cbn [map]. change (G :: map e_hash L0 ++ [e_hash e]) with ((G :: map e_hash L0) ++ [e_hash e]).
    apply nodup_snoc; [exact IH|]. intros [Hg | Hm].
    + apply (not_genesis e); [assumption | symmetry; exact Hg].
    + apply in_map_iff in Hm. destruct Hm as (e0 & Eh & He0).
      apply in_split in He0. destruct He0 as (A & Bs & ->).
      apply Forall_app in Hwf0. destruct Hwf0 as [_ HwfB]. inversion HwfB; subst.
      apply Forall_app in Hin0. destruct Hin0 as [_ HinB]. inversion HinB; subst.
      assert (e_prev e0 = e_prev e) as Epp by (apply core_prev, same_hash_core; assumption).
      apply chain_app in Hch0. destruct Hch0 as [_ [Hp0 _]].
      rewrite Hp0, Hpe in Epp.
      rewrite map_app in IH. cbn [map] in IH.
      change (G :: map e_hash A ++ e_hash e0 :: map e_hash Bs) with ((G :: map e_hash A) ++ (map e_hash (e0 :: Bs))) in IH.
      apply (nodup_disjoint _ _ (tip G A) IH); [apply tip_in|]. rewrite Epp. apply tip_in_tail.
Qed.

Lemma tip_inj_aux Lall A D SA : NoDup (G :: map e_hash Lall) -> Lall = (A ++ D) ++ SA -> tip G (A ++ D) = tip G A -> D = [].
Proof.
  intros Hn -> Et. destruct D as [|d D]; [reflexivity|]. exfalso.
  rewrite <- app_assoc, map_app in Hn.
  change (G :: map e_hash A ++ map e_hash ((d :: D) ++ SA)) with ((G :: map e_hash A) ++ map e_hash ((d :: D) ++ SA)) in Hn.
  apply (nodup_disjoint _ _ (tip G A) Hn); [apply tip_in|].
  rewrite <- Et. rewrite map_app. apply in_or_app. left. apply tip_in_tail.
Qed.

Lemma tip_inj Lall A SA P S : NoDup (G :: map e_hash Lall) -> Lall = A ++ SA -> Lall = P ++ S -> tip G A = tip G P -> A = P.
Proof.
  intros Hn EA EP Et. assert (A ++ SA = P ++ S) as E by congruence.
  apply app_eq_app in E. destruct E as (D & [[-> ->] | [-> ->]]).
  - rewrite (tip_inj_aux Lall P D SA Hn) by (try assumption; rewrite EA; reflexivity). apply app_nil_r.
  - symmetry in Et. rewrite (tip_inj_aux Lall A D S Hn) by (try assumption; rewrite EP; reflexivity). symmetry; apply app_nil_r.
Qed.

Lemma strip_src_of_core a b : core a = core b -> e_hash a = e_hash b -> e_sig a = e_sig b -> strip_src a = strip_src b.
Proof.
  intros Ec Eh Es. unfold core in Ec. unfold strip_src. injection Ec as E1 E2 E3 E4 E5. congruence.
Qed.

Lemma prefix_core : forall L' Lall P S,
  Lall = P ++ S ->
  Forall wf_hash Lall -> Forall inocc Lall -> NoDup (G :: map e_hash Lall) -> chain G Lall ->
  Forall wf_hash L' -> Forall inocc L' -> chain (tip G P) L' ->
  (forall e', In e' L' -> exists e, In e Lall /\ e_hash e = e_hash e' /\ e_sig e = e_sig e') ->
  exists n, map strip_src L' = map strip_src (firstn n S).
Proof.
  induction L' as [|e' T' IH]; intros Lall P S EL Hwf Hin Hnd Hch Hwf' Hin' Hch' Hm.
  - exists 0%nat. reflexivity.
  - inversion Hwf'; subst. inversion Hin'; subst. destruct Hch' as [Hp' Hch'].
    destruct (Hm e' (or_introl eq_refl)) as (e & He & Eh & Es).
    apply in_split in He. destruct He as (A & Bs & EA).
    assert (wf_hash e /\ inocc e) as [We Ie].
    { rewrite EA in Hwf, Hin. apply Forall_app in Hwf. destruct Hwf as [_ Hw]. inversion Hw; subst.
      apply Forall_app in Hin. destruct Hin as [_ Hi]. inversion Hi; subst. split; assumption. }
    assert (core e = core e') as Ec by (apply same_hash_core; assumption).
    assert (e_prev e = tip G A) as Hpe.
    { rewrite EA in Hch. apply chain_app in Hch. destruct Hch as [_ [Hq _]]. exact Hq. }
    assert (A = P) as ->.
    { assert (tip G A = tip G P) as Et by (rewrite <- Hpe, <- Hp'; apply core_prev; exact Ec).
      exact (tip_inj (P ++ S) A (e :: Bs) P S Hnd EA eq_refl Et). }
    assert (S = e :: Bs) as -> by (apply (app_inv_head P); congruence).
    destruct (IH (P ++ e :: Bs) (P ++ [e]) Bs) as (n & En); try assumption.
    + rewrite <- app_assoc. reflexivity.
    + unfold tip. rewrite map_app. cbn [map]. rewrite last_last. rewrite Eh. exact Hch'.
    + intros e2 Hin2. apply Hm. right; exact Hin2.
    + exists (Datatypes.S n). cbn [firstn map]. rewrite En. f_equal. symmetry. apply strip_src_of_core; assumption.
Qed.
End Chains.

(* ================================================================ tamper detection *)
Definition occ_of (L L' : list entry) : list bytes := B"pithos" :: map hi_or_empty (L ++ L').
Definition signed_pairs (L : list entry) : list (bytes * bytes) :=
  flat_map (fun e => (e_hash e, e_sig e) ::
                     match e_det e with DGround root sE _ => [(root, sE)] | _ => [] end) L.

Lemma sealed_inocc H occ l : (forall e, In e l -> In (hi_or_empty e) occ) -> Forall (sealed H) l -> Forall (inocc H occ) l.
Proof.
  intros Ho Hs. rewrite Forall_forall in *. intros e He. destruct (Hs e He) as (x & X & Hx).
  exists x. split; [exact X|]. split; [|exact Hx]. specialize (Ho e He). unfold hi_or_empty in Ho. rewrite X in Ho. exact Ho.
Qed.

Theorem chain_detects_stmt : forall (H : bytes -> bytes) (vE vM : bytes -> bytes -> bool) (useM : bool) (block : N)
    (L L' : list entry),
  Forall wf_hash L -> Forall wf_hash L' ->
  accepted H vE vM true useM block L = true ->
  accepted H vE vM true useM block L' = true ->
  (forall x y, In x (occ_of L L') -> In y (occ_of L L') -> H x = H y -> x = y) ->
  (forall d s, vE d s = true -> In (d, s) (signed_pairs L)) ->
  (forall e' e root sE sM, In e' L' -> In e L -> e_det e = DGround root sE sM -> e_hash e' <> root) ->
  exists n, map strip_src L' = map strip_src (firstn n L).
Proof.
  intros H vE vM useM block L L' Hwf Hwf' Hacc Hacc' Hcf Hsuf Hdom.
  unfold accepted, validate in Hacc, Hacc'.
  destruct (validate_from H vE vM true useM block init_state L) as [st| |] eqn:EL; try discriminate.
  destruct (validate_from H vE vM true useM block init_state L') as [st'| |] eqn:EL'; try discriminate.
  destruct (vfrom_ok _ _ _ _ _ _ _ _ _ EL) as (Hs & Hc & _).
  destruct (vfrom_ok _ _ _ _ _ _ _ _ _ EL') as (Hs' & Hc' & Hsig'). specialize (Hsig' eq_refl).
  change (expected_prev H init_state) with (genesis_prev H) in Hc, Hc'.
  assert (Forall (inocc H (occ_of L L')) L) as Hin.
  { apply sealed_inocc; [|exact Hs]. intros e He. right. apply in_map. apply in_or_app. left; exact He. }
  assert (Forall (inocc H (occ_of L L')) L') as Hin'.
  { apply sealed_inocc; [|exact Hs']. intros e He. right. apply in_map. apply in_or_app. right; exact He. }
  assert (In B"pithos" (occ_of L L')) as Hp by (left; reflexivity).
  pose proof (chain_nodup H (occ_of L L') Hcf Hp L Hwf Hin Hc) as Hnd.
  apply (prefix_core H (occ_of L L') Hcf L' L [] L eq_refl); try assumption.
  intros e' He'. rewrite Forall_forall in Hsig'. specialize (Hsig' e' He').
  apply Hsuf in Hsig'. unfold signed_pairs in Hsig'. apply in_flat_map in Hsig'.
  destruct Hsig' as (e & He & Hpair). destruct Hpair as [Hpair | Hpair].
  - exists e. injection Hpair as E1 E2. auto.
  - exfalso. destruct (e_det e) as [| |root sE sM|] eqn:Ed; try contradiction.
    destruct Hpair as [Hpair|[]]. injection Hpair as E1 E2.
    apply (Hdom e' e root sE sM He' He Ed). symmetry; exact E1.
Qed.

Lemma validate_report_ok H vE vM useE useM block : forall l st n,
  validate_report H vE vM useE useM block st l = FOk n <->
  exists st', validate_from H vE vM useE useM block st l = VOk st' /\ v_idx st' = n.
Proof.
  induction l as [|e l IH]; intros st n; cbn.
  - split; [intros E; injection E as <-; exists st; auto | intros (st' & E & <-); injection E as <-; reflexivity].
  - destruct (validate_entry H vE vM useE useM block st e); [apply IH | |];
      (split; [discriminate | intros (st' & E & _); discriminate]).
Qed.

(* every recorded field of an entry (the stored hash and signature are what protects them) *)
Definition recorded (e : entry) : entry :=
  {| e_ver := e_ver e; e_ts := e_ts e; e_type := e_type e; e_det := e_det e; e_prev := e_prev e;
     e_hash := []; e_sig := [] |}.
