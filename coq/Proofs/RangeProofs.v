(* Proofs/RangeProofs.v — lemmas for C05 (range reads). *)
From Verif Require Import Bytes Codec Range.
From Coq Require Import ZifyBool ZifyN ZifyNat.
Local Open Scope Z_scope.

(* [zslice l a b]: the elements of l at positions p with a <= p < b (positions are Z, clamped) *)
Definition zslice (l : bytes) (a b : Z) : bytes :=
  firstn (Z.to_nat (b - Z.max a 0)) (skipn (Z.to_nat a) l).

Lemma firstn_ge_length {A} (l : list A) n : (length l <= n)%nat -> firstn n l = l.
Proof. intros H. apply firstn_all2; exact H. Qed.

Lemma zslice_skip x R a b : lenZ x <= a ->
  zslice (x ++ R) a b = zslice R (a - lenZ x) (b - lenZ x).
Proof.
  unfold zslice, lenZ. intros H.
  rewrite skipn_app. rewrite skipn_all2 by lia. cbn [app].
  replace (Z.to_nat a - length x)%nat with (Z.to_nat (a - Z.of_nat (length x))) by lia.
  f_equal. lia.
Qed.

Lemma zslice_nil_right l a b : b <= 0 -> zslice l a b = [].
Proof. unfold zslice. intros H. replace (Z.to_nat (b - Z.max a 0)) with 0%nat by lia. reflexivity. Qed.

Lemma zslice_overlap x R a b : a < lenZ x -> 0 < b -> a < b ->
  zslice (x ++ R) a b =
  firstn (Z.to_nat (Z.min b (lenZ x) - Z.max a 0)) (skipn (Z.to_nat (Z.max a 0)) x)
  ++ zslice R (a - lenZ x) (b - lenZ x).
Proof.
  unfold zslice, lenZ. intros Ha Hb Hab.
  replace (Z.to_nat a) with (Z.to_nat (Z.max a 0)) by lia.
  set (a' := Z.to_nat (Z.max a 0)).
  rewrite skipn_app. replace (a' - length x)%nat with 0%nat by lia. cbn [skipn].
  rewrite firstn_app. rewrite skipn_length.
  replace (Z.to_nat (a - Z.of_nat (length x))) with 0%nat by lia. cbn [skipn].
  f_equal.
  - destruct (Z_le_gt_dec b (Z.of_nat (length x))) as [Hle|Hgt].
    + f_equal. lia.
    + rewrite firstn_ge_length by (rewrite skipn_length; lia).
      rewrite firstn_ge_length by (rewrite skipn_length; lia). reflexivity.
  - f_equal. lia.
Qed.

(* the plan computed by createRangeReader reads exactly the requested positions; [pre] are the
   parts already passed (idx of them), [off] their total size *)
Lemma plan_go_spec : forall parts pre off gs ge,
  off = total pre -> gs < ge ->
  exists p, plan_go (length pre) off (map lenZ parts) gs ge = Some p /\
            read_plan (pre ++ parts) p = zslice (concat parts) (gs - off) (ge - off).
Proof.
  induction parts as [|x parts IH]; intros pre off gs ge Hoff Hlt.
  - exists []. split; [reflexivity|]. cbn. unfold zslice. rewrite skipn_nil, firstn_nil. reflexivity.
  - cbn [map plan_go concat].
    assert (Hpre : total (pre ++ [x]) = off + lenZ x).
    { unfold total, lenZ in *. rewrite concat_app, app_length. cbn. rewrite app_nil_r. lia. }
    assert (Hlen : length (pre ++ [x]) = S (length pre)) by (rewrite app_length; cbn; lia).
    destruct (off + lenZ x <=? gs) eqn:E1.
    + destruct (IH (pre ++ [x]) (off + lenZ x) gs ge (eq_sym Hpre) Hlt) as [p [Hp Hr]].
      rewrite Hlen in Hp. exists p. split; [exact Hp|].
      rewrite <- app_assoc in Hr. cbn [app] in Hr. rewrite Hr.
      rewrite zslice_skip by lia. f_equal; lia.
    + destruct (ge <=? off) eqn:E2.
      * exists []. split; [reflexivity|]. cbn. rewrite zslice_nil_right by lia. reflexivity.
      * set (rs := if off <? gs then gs - off else 0).
        set (re := if ge <? off + lenZ x then ge - off else lenZ x).
        assert (Hrs : rs = Z.max (gs - off) 0) by (unfold rs; destruct (off <? gs) eqn:E; lia).
        assert (Hre : re = Z.min (ge - off) (lenZ x)) by (unfold re; destruct (ge <? off + lenZ x) eqn:E; lia).
        assert (0 <= lenZ x) by (unfold lenZ; lia).
        destruct (re <? rs) eqn:E3; [exfalso; lia|].
        destruct (IH (pre ++ [x]) (off + lenZ x) gs ge (eq_sym Hpre) Hlt) as [p [Hp Hr]].
        rewrite Hlen in Hp. rewrite Hp. eexists. split; [reflexivity|].
        unfold read_plan in *. cbn [map concat read_seg].
        rewrite <- app_assoc in Hr. cbn [app] in Hr. rewrite Hr.
        rewrite app_nth2 by lia. rewrite Nat.sub_diag. cbn [nth].
        rewrite zslice_overlap by lia.
        rewrite Hrs, Hre.
        replace (Z.min (ge - off) (lenZ x) - Z.max (gs - off) 0) with (Z.min (ge - off) (lenZ x) - Z.max (gs - off) 0) by lia.
        replace (gs - (off + lenZ x)) with (gs - off - lenZ x) by lia.
        replace (ge - (off + lenZ x)) with (ge - off - lenZ x) by lia.
        reflexivity.
Qed.

Definition slice (l : bytes) (s e : Z) : bytes := firstn (Z.to_nat (e - s)) (skipn (Z.to_nat s) l).

Lemma plan_concat_stmt : forall (parts : list bytes) (objsize s e : Z),
  0 <= s < e ->
  exists p, create_range_reader (map lenZ parts) objsize {| b_start := Some s; b_end := Some e |} = RRPlan p /\
            read_plan parts p = slice (concat parts) s e.
Proof.
  intros parts objsize s e H. unfold create_range_reader. cbn [b_start b_end].
  destruct (e <=? s) eqn:E; [exfalso; lia|].
  destruct (plan_go_spec parts [] 0 s e eq_refl ltac:(lia)) as [p [Hp Hr]].
  cbn [length app] in *. rewrite Hp. exists p. split; [reflexivity|].
  rewrite Hr. unfold zslice, slice. rewrite !Z.sub_0_r. f_equal. lia.
Qed.
