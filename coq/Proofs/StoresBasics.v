(* Proofs/StoresBasics.v — association-list facts and the generalized (mid-transaction) invariant of
   Model/MetaGcStores.v with the lemmas for the transaction building blocks. *)
From Coq Require Import Lia ZifyBool ZifyN ZifyNat.
From Verif Require Import Bytes Codec MetaGc MetaGcStores.

(* ---- registry ---- *)
Lemma rget_set_same r p c : rget (rset r p c) p = Some c.
Proof. induction r as [|[q d] r IH]; cbn; [now rewrite N.eqb_refl|]. destruct (N.eqb q p) eqn:E; cbn; rewrite E; auto. Qed.
Lemma rget_set_other r p q c : q <> p -> rget (rset r p c) q = rget r q.
Proof.
  intros Hn. induction r as [|[a d] r IH]; cbn.
  - destruct (N.eqb_spec p q); congruence.
  - destruct (N.eqb_spec a p); cbn.
    + subst a. destruct (N.eqb_spec p q); congruence.
    + destruct (N.eqb a q); auto.
Qed.
Lemma rget_del_same r p : rget (rdel r p) p = None.
Proof. induction r as [|[a d] r IH]; cbn; auto. destruct (N.eqb a p) eqn:E; cbn; auto. now rewrite E. Qed.
Lemma rget_del_other r p q : q <> p -> rget (rdel r p) q = rget r q.
Proof.
  intros Hn. induction r as [|[a d] r IH]; cbn; auto.
  destruct (N.eqb_spec a p); cbn.
  - subst a. destruct (N.eqb_spec p q); [congruence|exact IH].
  - destruct (N.eqb a q); auto.
Qed.
Lemma rget_None_notin r p : rget r p = None -> forall c, ~ In (p, c) r.
Proof.
  induction r as [|[a d] r IH]; cbn; intros H c; auto.
  destruct (N.eqb_spec a p); [discriminate|]. intros [Heq|Hin]; [inversion Heq; congruence | eapply IH; eauto].
Qed.

(* ---- blobs ---- *)
Lemma pair_eqb_eq a b : pair_eqb a b = true <-> a = b.
Proof.
  destruct a, b. unfold pair_eqb. cbn. rewrite andb_true_iff, !N.eqb_eq. split; [intros []; congruence|inversion 1; auto].
Qed.
Lemma pair_eqb_refl a : pair_eqb a a = true. Proof. now apply pair_eqb_eq. Qed.
Lemma pair_eqb_neq a b : pair_eqb a b = false <-> a <> b.
Proof. rewrite <- pair_eqb_eq. destruct (pair_eqb a b); split; congruence. Qed.
Lemma bget_del_same b k : bget (bdel b k) k = None.
Proof.
  induction b as [|[a c] b IH]; cbn; auto. destruct (pair_eqb a k) eqn:E; cbn; auto. now rewrite E.
Qed.
Lemma bget_del_other b k q : q <> k -> bget (bdel b k) q = bget b q.
Proof.
  intros Hn. induction b as [|[a c] b IH]; cbn; auto.
  destruct (pair_eqb a k) eqn:E; cbn.
  - apply pair_eqb_eq in E. subst a. assert (pair_eqb k q = false) as -> by (apply pair_eqb_neq; congruence). auto.
  - destruct (pair_eqb a q); auto.
Qed.
Lemma bget_In b k c : bget b k = Some c -> In (k, c) b.
Proof.
  induction b as [|[a d] b IH]; cbn; [discriminate|].
  destruct (pair_eqb a k) eqn:E; intros H.
  - apply pair_eqb_eq in E. inversion H. subst. now left.
  - right. auto.
Qed.
Lemma bget_cons_other b k c q : q <> k -> bget ((k, c) :: b) q = bget b q.
Proof. intros H. cbn. assert (pair_eqb k q = false) as -> by (apply pair_eqb_neq; congruence). auto. Qed.
Lemma In_bdel b k x : In x (bdel b k) -> In x b.
Proof. unfold bdel. rewrite filter_In. tauto. Qed.

(* ---- counting part rows ---- *)
Definition cntid (id : N) (l : list srow) : N := N.of_nat (length (filter (fun r => N.eqb (r_id r) id) l)).
Lemma scount_cntid s id : scount s id = cntid id (rows s). Proof. reflexivity. Qed.
Lemma cntid_app id a b : cntid id (a ++ b) = (cntid id a + cntid id b)%N.
Proof. unfold cntid. now rewrite filter_app, app_length, Nat2N.inj_add. Qed.
Lemma cntid_cons id r l : cntid id (r :: l) = ((if N.eqb (r_id r) id then 1 else 0) + cntid id l)%N.
Proof. unfold cntid. cbn [filter]. destruct (N.eqb (r_id r) id); cbn [length]; [rewrite Nat2N.inj_succ|]; lia. Qed.
Lemma cntid_split id sel l : cntid id l = (cntid id (filter sel l) + cntid id (filter (fun r => negb (sel r)) l))%N.
Proof.
  induction l as [|r l IH]; cbn; auto. rewrite cntid_cons, IH.
  destruct (sel r); cbn; rewrite cntid_cons; lia.
Qed.
Lemma cntid_pos_In id l : cntid id l <> 0%N -> exists r, In r l /\ r_id r = id.
Proof.
  unfold cntid. intros H. destruct (filter (fun r => N.eqb (r_id r) id) l) as [|r t] eqn:E; [cbn in H; lia|].
  assert (In r (filter (fun r => N.eqb (r_id r) id) l)) as Hin by (rewrite E; now left).
  apply filter_In in Hin. destruct Hin as [Hin Heq]. apply N.eqb_eq in Heq. eauto.
Qed.
Lemma cntid_In_pos id l r : In r l -> r_id r = id -> cntid id l <> 0%N.
Proof.
  intros Hin Heq. unfold cntid.
  assert (In r (filter (fun r => N.eqb (r_id r) id) l)) as H by (apply filter_In; split; auto; now apply N.eqb_eq).
  destruct (filter _ l); [contradiction|cbn; lia].
Qed.

Definition optn (n : N) : option N := if N.eqb n 0 then None else Some n.
Definition bump (e : N -> N) (id : N) : N -> N := fun x => if N.eqb x id then (e x + 1)%N else e x.
Definition unbump (e : N -> N) (id : N) : N -> N := fun x => if N.eqb x id then (e x - 1)%N else e x.
Definition none_new : N -> Prop := fun _ => False.
Definition zero_e : N -> N := fun _ => 0%N.

(* the invariant at any point inside a transaction: [e id] references to id are acquired in the registry but not
   (or no longer) backed by a part row; [nw] are the fresh ids written in this transaction and not yet registered;
   [D] is a set of dead ids (condemned by a collector) that must stay dead *)
Record PI (D : N -> Prop) (s : sst) (e : N -> N) (nw : N -> Prop) : Prop := {
  pi_reg : forall id, rget (reg s) id = optn (scount s id + e id);
  pi_present : forall r, In r (rows s) -> bget (blobs s) (r_store r, r_id r) = Some (r_cont r);
  pi_idx : forall st c id, In ((st, c), id) (idx s) ->
             bget (blobs s) (st, id) = Some c /\ (rget (reg s) id <> None \/ nw id);
  pi_bound : forall k c, In (k, c) (blobs s) -> (snd k < nextp s)%N;
  pi_ebound : forall id, e id <> 0%N -> (id < nextp s)%N;
  pi_new : forall id, nw id -> rget (reg s) id = None /\ ~ D id /\ (id < nextp s)%N;
  pi_dead : forall id, D id -> scount s id = 0%N /\ rget (reg s) id = None
                                /\ (forall k, ~ In (k, id) (idx s)) /\ (id < nextp s)%N
}.
Definition SInv (D : N -> Prop) (s : sst) : Prop := PI D s zero_e none_new.

Lemma PI_ext D s e e' nw nw' : (forall x, e x = e' x) -> (forall x, nw x <-> nw' x) -> PI D s e nw -> PI D s e' nw'.
Proof.
  intros He Hn [H1 H2 H3 H4 H5 H6 H7]. constructor; auto.
  - intros id. now rewrite <- He.
  - intros st c id Hin. destruct (H3 _ _ _ Hin) as [Ha [Hb|Hb]]; split; auto. right. now apply Hn.
  - intros id. rewrite <- He. auto.
  - intros id Hid. apply H6. now apply Hn.
Qed.

Lemma PI_holds D s h e nw : PI D s e nw -> PI D (w_holds s h) e nw.
Proof. intros [H1 H2 H3 H4 H5 H6 H7]. constructor; auto. Qed.

Lemma PI_row_bound D s e nw r : PI D s e nw -> In r (rows s) -> (r_id r < nextp s)%N.
Proof. intros H Hin. apply (pi_bound _ _ _ _ H (r_store r, r_id r) (r_cont r)). apply bget_In. now apply (pi_present _ _ _ _ H). Qed.
Lemma PI_reg_bound D s e nw id : PI D s e nw -> rget (reg s) id <> None -> (id < nextp s)%N.
Proof.
  intros H Hr. rewrite (pi_reg _ _ _ _ H) in Hr. unfold optn in Hr.
  destruct (N.eqb_spec (scount s id + e id) 0); [congruence|].
  destruct (N.eq_dec (e id) 0) as [He|He]; [|now apply (pi_ebound _ _ _ _ H)].
  destruct (cntid_pos_In id (rows s)) as [r [Hin <-]]; [rewrite <- scount_cntid; lia|].
  eapply PI_row_bound; eauto.
Qed.
Lemma PI_fresh D s e nw : PI D s e nw ->
  scount s (nextp s) = 0%N /\ e (nextp s) = 0%N /\ rget (reg s) (nextp s) = None /\ ~ D (nextp s) /\ ~ nw (nextp s)
  /\ (forall k, ~ In (k, nextp s) (idx s)) /\ (forall st, bget (blobs s) (st, nextp s) = None).
Proof.
  intros H.
  assert (scount s (nextp s) = 0%N) as Hc.
  { destruct (N.eq_dec (scount s (nextp s)) 0) as [|Hn]; auto. rewrite scount_cntid in Hn.
    destruct (cntid_pos_In _ _ Hn) as [r [Hin Heq]]. pose proof (PI_row_bound _ _ _ _ _ H Hin). lia. }
  assert (e (nextp s) = 0%N) as He.
  { destruct (N.eq_dec (e (nextp s)) 0) as [|Hn]; auto. pose proof (pi_ebound _ _ _ _ H _ Hn). lia. }
  repeat split; auto.
  - rewrite (pi_reg _ _ _ _ H), Hc, He. reflexivity.
  - intros Hd. destruct (pi_dead _ _ _ _ H _ Hd) as (_ & _ & _ & Hlt). lia.
  - intros Hn. destruct (pi_new _ _ _ _ H _ Hn) as (_ & _ & Hlt). lia.
  - intros k Hin. destruct k as [st c]. destruct (pi_idx _ _ _ _ H _ _ _ Hin) as [Hb _].
    apply bget_In in Hb. apply (pi_bound _ _ _ _ H) in Hb. cbn in Hb. lia.
  - intros st. destruct (bget (blobs s) (st, nextp s)) eqn:E; auto.
    apply bget_In in E. apply (pi_bound _ _ _ _ H) in E. cbn in E. lia.
Qed.
