(* Proofs/MetaPartsExtGc.v — the collector interleaving theorems (MetaGcSafe.v / MetaGcFinal.v, over traces whose
   operation steps are Meta.step) extended to traces whose operation steps may also be the extended operations
   of Model/MetaExt.v (xstep: ranged GET, UploadPartCopy, ranged copy). *)
From Coq Require Import Lia ZifyBool ZifyN ZifyNat.
From Verif Require Import Bytes Codec Md5 Meta MetaExt MetaGc MetaPartsDefs MetaParts MetaPartsOps MetaPartsExt
  MetaGcBasics MetaGcSafe MetaGcConverge MetaGcFinal.

(* a step of the extended interleaving model: any step of MetaGc, or one extended operation transaction *)
Inductive xgstep :=
  | XG (st : gstep)
  | XOpx (i : N) (h : list res) (o : xop).

Definition xgstep_fn (g : gstate) (st : xgstep) : gstate :=
  match st with
  | XG st => gstep_fn g st
  | XOpx i h o => set_ms g (fst (xstep i h (ms g) o))
  end.
Definition xrun_trace (g : gstate) (tr : list xgstep) : gstate := fold_left xgstep_fn tr g.

Lemma xop_GInv g i h o : GInv g -> GInv (set_ms g (fst (xstep i h (ms g) o))).
Proof.
  intros (HP & HO & HC & HD). apply GInv_intro; cbn [ms g_obs g_cand g_cond set_ms]; auto.
  - apply xstep_parts_inv. exact HP.
  - eapply Forall_impl; [|exact HC]. intros p Hp. cbn in Hp.
    pose proof (xstep_next_id_mono i h (ms g) o HP). lia.
  - eapply Forall_impl; [|exact HD]. intros p. now apply xstep_dead.
Qed.

Lemma xgstep_GInv g st : GInv g -> GInv (xgstep_fn g st).
Proof.
  intros HG. destruct st as [st|i h o]; cbn [xgstep_fn].
  - apply (gstep_GInv step_parts_inv step_dead step_next_id_mono). exact HG.
  - apply xop_GInv. exact HG.
Qed.

Lemma xtrace_GInv tr : forall g, GInv g -> GInv (xrun_trace g tr).
Proof.
  unfold xrun_trace. induction tr as [|st tr IH]; cbn [fold_left]; auto. intros g HG. apply IH. now apply xgstep_GInv.
Qed.

(* one step of the collector model keeps a dead id dead *)
Lemma gstep_Dead g st pid : GInv g -> Dead (ms g) pid -> Dead (ms (gstep_fn g st)) pid.
Proof.
  intros HG HD. destruct HG as (HP & HO & HC & HDs).
  destruct st; cbn [gstep_fn]; cbn [ms set_ms set_obs set_cand set_cond set_junk]; auto.
  - now apply step_dead.
  - destruct (nth_error (g_obs g) k) as [o|] eqn:En; auto. cbn.
    rewrite harmless_noop; auto. rewrite Forall_forall in HO. apply HO. eapply nth_error_In; eauto.
  - now apply prune_backfill_Dead.
  - destruct (nth_error (g_cand g) k) as [q|] eqn:En; auto.
    unfold condemn_one. cbn [ms set_cand].
    destruct (condemn_check (ms g) q) as [[|] s'] eqn:Ec; auto. cbn.
    assert (s' = ms g) as ->.
    { pose proof (condemn_check_true _ _ _ Ec) as (Hz & _).
      unfold condemn_check in Ec. destruct HP as (H1 & _). rewrite (H1 q), Hz in Ec. cbn in Ec.
      now inversion Ec. }
    apply Dead_dedup_shrink; auto. intros e He. apply filter_In in He. tauto.
  - destruct (nth_error (g_cond g) k) as [q|] eqn:En; auto.
  - now apply orphan_put_Dead.
  - pose proof (step_dead i h (ms g) o pid HP HD) as Hd.
    destruct (step i h (ms g) o) as [s' r]. exact Hd.
Qed.

Lemma xgstep_Dead g st pid : GInv g -> Dead (ms g) pid -> Dead (ms (xgstep_fn g st)) pid.
Proof.
  intros HG HD. destruct st as [st|i h o]; cbn [xgstep_fn].
  - now apply gstep_Dead.
  - cbn [ms set_ms]. destruct HG as (HP & _). now apply xstep_dead.
Qed.

Lemma xdead_from tr : forall g pid, GInv g -> Dead (ms g) pid -> Dead (ms (xrun_trace g tr)) pid.
Proof.
  unfold xrun_trace. induction tr as [|st tr IH]; cbn [fold_left]; auto. intros g pid HG HD.
  apply IH; [now apply xgstep_GInv | now apply xgstep_Dead].
Qed.

(* ---- the trace theorems over extended traces ---- *)
Theorem xgc_reach_GInv : forall tr, GInv (xrun_trace ginit tr).
Proof. intros tr. apply xtrace_GInv. apply ginit_GInv. Qed.

Theorem xgc_safe : forall tr, let g := xrun_trace ginit tr in
  forall row, In row (parts (ms g)) -> store_get (store (ms g)) (p_pid row) = Some (p_content row).
Proof. cbn. intros tr. destruct (xgc_reach_GInv tr) as ((_ & H2 & _) & _). exact H2. Qed.

Theorem xgc_readable : forall tr, let g := xrun_trace ginit tr in
  forall r, read_parts (ms g) (row_parts (ms g) r) = Some (concat (map p_content (row_parts (ms g) r))).
Proof.
  cbn. intros tr r. apply get_recorded_bytes. destruct (xgc_reach_GInv tr) as (HP & _). exact HP.
Qed.

Theorem xgc_condemned_dead : forall tr1 tr2 pid, let g1 := xrun_trace ginit tr1 in
  In pid (g_cond g1) ->
  let s := ms (xrun_trace g1 tr2) in
  count_rows s pid = 0%N /\ reg_get (registry s) pid = None /\ (forall c, ~ In (c, pid) (dedup s))
  /\ (pid < next_id s)%N.
Proof.
  cbn. intros tr1 tr2 pid Hin. apply xdead_from; [apply xgc_reach_GInv|].
  destruct (xgc_reach_GInv tr1) as (_ & _ & _ & HD). rewrite Forall_forall in HD. auto.
Qed.
