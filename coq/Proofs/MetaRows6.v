(* Proofs/MetaRows6.v — M-META at row level, layer 6: read-your-write at row level (C01):
   after an acknowledged write the row found by key (and by the returned version id) is the one written. *)
From Verif Require Import Bytes Codec Md5 Meta MetaBasics MetaRows1 MetaRows2 MetaRows3 MetaRows4 MetaRows5.
From Coq Require Import ZifyBool ZifyN ZifyNat.

Definition not_err (r : res) : Prop := match r with RErr _ => False | _ => True end.

Lemma commit_ok s0 r s' x : commit s0 r = (s', x) -> not_err x -> r = (s', x) /\ unique_ok s' = true.
Proof.
  unfold commit. destruct r as [s1 r1]. cbn [fst snd].
  destruct r1; intros H N; try (inversion H; subst; contradiction);
  (destruct (unique_ok s1 && parts_unique_ok s1) eqn:E;
   [apply andb_true_iff in E; inversion H; subst; tauto | inversion H; subst; contradiction]).
Qed.

Lemma head_of_latest s b k x :
  unique_ok s = true -> find_bucket s b <> None -> In x (objs s) -> on_key b k x = true -> completed x = true ->
  o_latest x = true -> o_dm x = false ->
  op_head s b k None = RObj (row_vid x) (o_etag x) (o_size x) (o_updated x) (o_ctype x) None.
Proof.
  intros U Hb Hx K C L D. unfold op_head, lookup. destruct (find_bucket s b); [|congruence].
  rewrite (find_latest_unique s b k x U Hx K C L), D. reflexivity.
Qed.
Lemma head_of_version s b k v x :
  unique_ok s = true -> find_bucket s b <> None -> In x (objs s) -> on_key b k x = true -> completed x = true ->
  o_vid x = Some v -> o_dm x = false ->
  op_head s b k (Some v) = RObj v (o_etag x) (o_size x) (o_updated x) (o_ctype x) None.
Proof.
  intros U Hb Hx K C V D. unfold op_head, lookup. destruct (find_bucket s b); [|congruence].
  rewrite (find_version_unique s b k v x U Hx K C V), D. unfold row_vid. rewrite V. reflexivity.
Qed.

(* the row a write leaves behind *)
Definition written_row (b k : bytes) (v : vid) (e : etag) (sz : Z) (ct : option bytes) (x : orow) : Prop :=
  on_key b k x = true /\ completed x = true /\ o_latest x = true /\ o_vid x = Some v /\ o_dm x = false /\
  o_etag x = e /\ o_size x = sz /\ o_ctype x = ct.

Lemma update_row_in s r : In (o_id r) (map o_id (objs s)) ->
  exists lk, In (with_row r (o_latest r) (clock s) lk) (objs (update_row s r)).
Proof.
  intros H. apply in_map_iff in H. destruct H as [y [E Hy]]. exists (o_lock y + 1)%N.
  rewrite update_row_objs. apply in_map_iff. exists y. split; [|exact Hy].
  unfold upd_fun. rewrite E, N.eqb_refl. reflexivity.
Qed.

Lemma set_latest_ids s r l : map o_id (objs (set_latest s r l)) = map o_id (objs s).
Proof. apply update_row_ids. Qed.

Lemma remove_parts_of_objs s oid : objs (fst (remove_parts_of s oid)) = objs s.
Proof. apply remove_part_rows_objs. Qed.

Ltac in_ids :=
  let Hin := fresh "Hin" in
  match goal with
  | H : find_null _ _ _ = Some ?r |- In (o_id ?r) _ => pose proof (in_map o_id _ _ (proj1 (find_null_some _ _ _ _ H))) as Hin
  | H : find_latest _ _ _ = Some ?r |- In (o_id ?r) _ => pose proof (in_map o_id _ _ (proj1 (find_latest_some _ _ _ _ H))) as Hin
  | H : find_upload _ _ _ _ = Some ?r |- In (o_id ?r) _ => pose proof (in_map o_id _ _ (proj1 (find_upload_some _ _ _ _ _ H))) as Hin
  end;
  repeat (rewrite set_latest_ids in Hin || rewrite remove_parts_of_objs in Hin || rewrite delete_row_objs in Hin);
  repeat (rewrite set_latest_ids || rewrite remove_parts_of_objs); exact Hin.

Ltac wr_fields :=
  unfold written_row, on_key, completed, mk_row; cbn [with_row o_bucket o_key o_upload o_latest o_vid o_dm o_etag o_size o_ctype];
  rewrite ?bytes_eqb_refl; repeat split; reflexivity.

Lemma meta_put_written s vn b k w c v e :
  snd (fst (meta_put s vn b k w c)) = RPut v e ->
  e = w_etag w /\ find_bucket s b <> None /\
  exists x, In x (objs (fst (fst (meta_put s vn b k w c)))) /\ written_row b k v e (w_size w) (w_ctype w) x.
Proof.
  unfold meta_put. cbv beta zeta. repeat dm; cbn [fst snd]; intros H; try discriminate H; inversion H; subst;
  (split; [reflexivity|]; split; [congruence|]).
  all: rewrite ?save_part_rows_objs, ?remove_parts_of_objs.
  all: try (rewrite insert_row_objs; eexists; split; [apply in_or_app; right; left; reflexivity | wr_fields]).
  all: match goal with |- context[update_row ?s1 ?r1] =>
         destruct (update_row_in s1 r1) as [lk Hlk]; [cbn [o_id]; in_ids|];
         eexists; split; [exact Hlk | wr_fields] end.
Qed.

Lemma meta_put_buckets s vn b k w c : buckets (fst (fst (meta_put s vn b k w c))) = buckets s.
Proof.
  exact (proj1 (Tr_buckets_next b k None false s _ (meta_put_Tr b k None false s s vn w c (Tr_refl _ _ _ _ _)))).
Qed.
Lemma meta_put_res s vn b k w c :
  match snd (fst (meta_put s vn b k w c)) with RErr _ | RPut _ _ => True | _ => False end.
Proof. unfold meta_put. cbv beta zeta. repeat (dm; cbn [fst snd]); exact I. Qed.

Lemma written_head s b k v e sz ct x :
  unique_ok s = true -> find_bucket s b <> None -> In x (objs s) -> written_row b k v e sz ct x ->
  op_head s b k None = RObj v e sz (o_updated x) ct None /\
  op_head s b k (Some v) = RObj v e sz (o_updated x) ct None.
Proof.
  intros U Hb Hx (K & C & L & V & D & <- & <- & <-). split.
  - rewrite (head_of_latest s b k x U Hb Hx K C L D). unfold row_vid. rewrite V. reflexivity.
  - apply head_of_version; assumption.
Qed.

Lemma find_bucket_buckets s s' b : buckets s' = buckets s -> find_bucket s' b = find_bucket s b.
Proof. intros E. unfold find_bucket. rewrite E. reflexivity. Qed.

(* the common tail of put / copy / append-into-a-new-version *)
Lemma meta_put_then_head s1 vn b k w c u v e s' :
  snd (fst (meta_put s1 vn b k w c)) = RPut v e ->
  s' = delete_unreferenced (fst (fst (meta_put s1 vn b k w c))) u -> unique_ok s' = true ->
  e = w_etag w /\ exists lm,
  op_head s' b k None = RObj v e (w_size w) lm (w_ctype w) None /\
  op_head s' b k (Some v) = RObj v e (w_size w) lm (w_ctype w) None.
Proof.
  intros H -> U. destruct (meta_put_written _ _ _ _ _ _ _ _ H) as (He & Hb & x & Hx & W).
  split; [exact He|]. exists (o_updated x).
  pose proof (same_delete_unreferenced u (fst (fst (meta_put s1 vn b k w c)))) as [E1 _ E3 _].
  apply written_head; try assumption.
  - rewrite (find_bucket_buckets _ _ b E3), (find_bucket_buckets _ _ b (meta_put_buckets _ _ _ _ _ _)). exact Hb.
  - rewrite E1. exact Hx.
Qed.

(* C01, PutObject: the acknowledged version id and ETag are what HEAD by key and HEAD by that version id
   return, with the size of the body *)
Lemma put_read_your_write i hist s b k c cr s' v e :
  step i hist s (OPut b k c cr) = (s', RPut v e) ->
  e = mk_md5 c /\ exists lm,
  op_head s' b k None = RObj v e (zlen c) lm None None /\
  op_head s' b k (Some v) = RObj v e (zlen c) lm None None.
Proof.
  cbn [step]. unfold op_put. intros H. apply commit_ok in H; [|exact I]. destruct H as [H U].
  revert H. repeat dm. intros H.
  pose proof (f_equal fst H) as H1; pose proof (f_equal snd H) as H2; cbn [fst snd] in H1, H2.
  pose proof (meta_put_then_head _ _ _ _ _ _ _ _ _ _ H2 (eq_sym H1) U) as X.
  unfold plain_obj in X. cbn [w_etag w_size w_ctype] in X. exact X.
Qed.

(* C01, CopyObject: the destination reads back with the source's ETag, size and content type *)
Lemma copy_read_your_write i hist s sb sk vr db dk s' v e :
  step i hist s (OCp sb sk vr db dk) = (s', RPut v e) ->
  exists sv sz slm ct lm,
  op_head s sb sk (resolve_vref vr) = RObj sv e sz slm ct None /\
  op_head s' db dk None = RObj v e sz lm ct None /\
  op_head s' db dk (Some v) = RObj v e sz lm ct None.
Proof.
  cbn [step]. unfold op_copy. intros H. apply commit_ok in H; [|exact I]. destruct H as [H U].
  revert H. cbv beta zeta. repeat dm; intros H; try discriminate H;
  pose proof (f_equal fst H) as H1; pose proof (f_equal snd H) as H2; cbn [fst snd] in H1, H2; try discriminate H2.
  destruct (meta_put_then_head _ _ _ _ _ _ _ _ _ _ H2 (eq_sym H1) U) as [He [lm [G1 G2]]].
  cbn [w_etag w_size w_ctype] in *. subst e.
  match goal with Hl : lookup _ _ _ _ = inl (Some ?o) |- _ =>
    exists (row_vid o), (o_size o), (o_updated o), (o_ctype o), lm; split; [|split; assumption];
    change (op_head s sb sk (resolve_vref vr)) with (op_head (with_ids s i) sb sk (resolve_vref vr));
    unfold op_head; rewrite Hl; reflexivity end.
Qed.


Lemma step_buckets_keyed i hist s o bk : op_key o = Some bk -> buckets (fst (step i hist s o)) = buckets s.
Proof.
  intros E. destruct (step_cases i hist s o) as [(b & k & _ & T)|[E' _]]; [|congruence].
  exact (proj1 (Tr_buckets_next _ _ _ _ _ _ T)).
Qed.

(* C01, AppendObject: the acknowledged ETag and total size are what HEAD by key returns *)
Lemma append_read_your_write i hist s b k c off s' e sz :
  step i hist s (OApp b k c off) = (s', RAppend e sz) ->
  exists v lm ct, op_head s' b k None = RObj v e sz lm ct None.
Proof.
  intros H0. pose proof (step_buckets_keyed i hist s (OApp b k c off) (b, k) eq_refl) as Eb.
  rewrite H0 in Eb. cbn [fst] in Eb. revert H0.
  cbn [step]. unfold op_append. intros H. apply commit_ok in H; [|exact I]. destruct H as [H U].
  revert H. cbv beta zeta. repeat dm; intros H; try discriminate H;
  pose proof (f_equal fst H) as H1; pose proof (f_equal snd H) as H2; cbn [fst snd] in H1, H2; try discriminate H2.
  all: try match goal with Hr : snd (fst (meta_put ?a1 ?a2 ?a3 ?a4 ?a5 ?a6)) = _ |- _ =>
         pose proof (meta_put_res a1 a2 a3 a4 a5 a6) as R; rewrite Hr in R; try contradiction end.
  all: assert (Hb : find_bucket s' b <> None)
         by (rewrite (find_bucket_buckets _ _ b Eb);
             match goal with Hf : find_bucket _ _ = Some _ |- _ =>
               unfold find_bucket in *; cbn [buckets with_ids] in Hf; congruence end).
  (* a new version through meta_put *)
  all: try match goal with Hr : snd (fst (meta_put _ _ _ _ _ _)) = RPut ?v0 ?e0 |- _ =>
         inversion H2; subst;
         destruct (meta_put_then_head _ _ _ _ _ _ _ _ _ _ Hr eq_refl U) as [_ [lm [G1 _]]];
         cbn [w_size w_ctype] in G1; eexists _, _, _; exact G1 end.
  (* in place on the current row *)
  all: try match goal with |- context[update_row ?s1 ?r1] => idtac end.
  all: inversion H2; subst.
  all: try (match type of U with context[update_row ?s1 ?r1] =>
         destruct (update_row_in s1 r1) as [lk Hlk]; [cbn [o_id]; in_ids|] end;
       match type of Hlk with In ?x _ =>
         rewrite (head_of_latest _ b k x U Hb);
           [eexists _, _, _; reflexivity | rewrite save_part_rows_objs; exact Hlk
           | unfold on_key; cbn [with_row o_bucket o_key]; rewrite !bytes_eqb_refl; reflexivity
           | reflexivity | reflexivity | reflexivity] end).
  (* a fresh null row *)
  all: match type of U with context[insert_row ?s1 ?mk] =>
         rewrite (head_of_latest _ b k (mk (next_id s1) (clock s1)) U Hb);
           [eexists _, _, _; reflexivity
           | rewrite save_part_rows_objs, insert_row_objs; apply in_or_app; right; left; reflexivity
           | unfold on_key, mk_row; cbn [o_bucket o_key]; rewrite !bytes_eqb_refl; reflexivity
           | reflexivity | reflexivity | reflexivity] end.
Qed.
