(* Proofs/MetaPartsOwned.v — no dangling part rows in M-META: in every reachable state each part row belongs to
   an existing object row that is not a delete marker; row ids are old ids.  Together with NoOrphans
   (MetaPartsOps.v): every stored part is referenced by a part row of an existing object version / pending upload. *)
From Verif Require Import Bytes Codec Md5 Meta MetaPartsDefs MetaParts MetaPartsOps.
From Coq Require Import ZifyBool ZifyN ZifyNat.

Definition agrees (s : mstate) (r : orow) : Prop :=
  forall x, In x (objs s) -> o_id x = o_id r -> o_dm x = o_dm r.
Definition has_id (s : mstate) (id : N) : Prop := exists x, In x (objs s) /\ o_id x = id.
Definition owner (s : mstate) (id : N) : Prop := exists x, In x (objs s) /\ o_id x = id /\ o_dm x = false.

(* pending-upload rows are never delete markers: a property of the row value (so it survives stale copies) *)
Definition row_ok (r : orow) : Prop := o_upload r <> None -> o_dm r = false.

Record OInv (s : mstate) : Prop := {
  o_pend : forall r, In r (objs s) -> row_ok r;
  o_fresh : forall r, In r (objs s) -> (o_id r < next_id s)%N;
  o_dmfun : forall r1 r2, In r1 (objs s) -> In r2 (objs s) -> o_id r1 = o_id r2 -> o_dm r1 = o_dm r2;
  o_owned : forall row, In row (parts s) -> owner s (p_obj row)
}.

Definition osame (s s' : mstate) : Prop :=
  objs s' = objs s /\ parts s' = parts s /\ (next_id s <= next_id s')%N.

Lemma osame_refl s : osame s s. Proof. repeat split; lia. Qed.
Lemma osame_trans a b c : osame a b -> osame b c -> osame a c.
Proof. intros [A1 [A2 A3]] [B1 [B2 B3]]. repeat split; try congruence; lia. Qed.

Lemma oinv_osame s s' : osame s s' -> OInv s -> OInv s'.
Proof.
  intros [O [P Nx]] [H0 H1 H2 H3]. constructor; unfold owner in *; rewrite ?O, ?P; auto.
  intros r Hr. specialize (H1 r Hr). lia.
Qed.
Lemma owner_osame s s' id : objs s' = objs s -> owner s id -> owner s' id.
Proof. intros O H. unfold owner. rewrite O. exact H. Qed.
Lemma agrees_objs s s' r : objs s' = objs s -> agrees s r -> agrees s' r.
Proof. intros O H. unfold agrees. rewrite O. exact H. Qed.
Lemma agrees_In s r : OInv s -> In r (objs s) -> agrees s r.
Proof. intros [_ _ H2 _] I x Hx E. apply H2; auto. Qed.

(* ---- frames of the part primitives ---- *)
Lemma remove_ref_objs s p : objs (fst (remove_ref s p)) = objs s /\ parts (fst (remove_ref s p)) = parts s /\
                            next_id (fst (remove_ref s p)) = next_id s.
Proof.
  unfold remove_ref. destruct (reg_get (registry s) p) as [c|]; [|auto].
  destruct (c <? 1)%N; [auto|]. destruct (c =? 1)%N; cbn; auto.
Qed.
Lemma remove_refs_objs l : forall s, objs (fst (remove_refs s l)) = objs s /\
  parts (fst (remove_refs s l)) = parts s /\ next_id (fst (remove_refs s l)) = next_id s.
Proof.
  induction l as [|p l IH]; intros s; cbn [remove_refs]; [auto|].
  destruct (remove_ref s p) as [s1 z] eqn:E1. destruct (remove_refs s1 l) as [s2 zs] eqn:E2. cbn [fst].
  destruct (remove_ref_objs s p) as [A1 [A2 A3]]. rewrite E1 in *. cbn [fst] in *.
  destruct (IH s1) as [B1 [B2 B3]]. rewrite E2 in *. cbn [fst] in *. repeat split; congruence.
Qed.
Lemma remove_part_rows_frame s sel s' zs : remove_part_rows s sel = (s', zs) ->
  objs s' = objs s /\ parts s' = filter (fun p => negb (sel p)) (parts s) /\ next_id s' = next_id s.
Proof.
  unfold remove_part_rows. intros H.
  match type of H with remove_refs ?X ?Y = _ => destruct (remove_refs_objs Y X) as [A1 [A2 A3]] end.
  rewrite H in *. cbn [fst] in *. auto.
Qed.
Lemma save_part_rows_frame ps : forall s oid seq,
  objs (save_part_rows s oid ps seq) = objs s /\ next_id (save_part_rows s oid ps seq) = next_id s /\
  forall row, In row (parts (save_part_rows s oid ps seq)) -> In row (parts s) \/ p_obj row = oid.
Proof.
  induction ps as [|np ps IH]; intros s oid seq; [cbn; auto|].
  rewrite save_part_rows_step. destruct (IH (save_one s oid seq np) oid (seq + 1)%N) as [A1 [A2 A3]].
  assert (F : objs (save_one s oid seq np) = objs s /\ next_id (save_one s oid seq np) = next_id s /\
              parts (save_one s oid seq np) = parts s ++ [{| p_obj := oid; p_seq := seq; p_pid := n_pid np; p_content := n_content np |}]).
  { unfold save_one. destruct (n_pre np); cbn; auto. }
  destruct F as [F1 [F2 F3]]. repeat split; try congruence.
  intros row Hr. destruct (A3 row Hr) as [I|I]; [|right; exact I]. rewrite F3 in I.
  apply in_app_or in I. destruct I as [I|[<-|[]]]; [left; exact I | right; reflexivity].
Qed.
Lemma put_fresh_part_frame s c np s' : put_fresh_part s c = (np, s') -> osame s s'.
Proof.
  unfold put_fresh_part. cbn [fresh]. intros H.
  match type of H with context [dedup_get ?X ?Y] => destruct (dedup_get X Y) as [sh|] end.
  - match type of H with context [try_add_refs ?X ?Y] => destruct (try_add_refs X Y) end;
      inversion H; subst; unfold osame; cbn; repeat split; lia.
  - inversion H; subst; unfold osame; cbn; repeat split; lia.
Qed.
Lemma delete_unreferenced_frame l : forall s, osame s (delete_unreferenced s l).
Proof.
  unfold delete_unreferenced. induction l as [|x l IH]; intros s; cbn [fold_left]; [apply osame_refl|].
  eapply osame_trans; [|apply IH]. unfold osame; cbn. repeat split; lia.
Qed.
Lemma set_registry_frame s r : osame s (set_registry s r).
Proof. unfold osame; cbn. repeat split; lia. Qed.
Lemma with_ids_frame s i : osame s (with_ids s i).
Proof. unfold osame; cbn. repeat split; lia. Qed.

(* ---- object-row primitives ---- *)
Definition upd (r : orow) (now : N) (x : orow) : orow :=
  if N.eqb (o_id x) (o_id r) then with_row r (o_latest r) now (o_lock x + 1) else x.
Lemma update_row_objs s r : objs (update_row s r) = map (upd r (clock s)) (objs s) /\
  parts (update_row s r) = parts s /\ next_id (update_row s r) = next_id s.
Proof. unfold update_row; cbn. auto. Qed.
Lemma upd_id r now x : o_id (upd r now x) = o_id x.
Proof. unfold upd. destruct (N.eqb (o_id x) (o_id r)) eqn:E; [|reflexivity]. apply N.eqb_eq in E. cbn. auto. Qed.
Lemma upd_dm r now x : o_dm (upd r now x) = if N.eqb (o_id x) (o_id r) then o_dm r else o_dm x.
Proof. unfold upd. destruct (N.eqb (o_id x) (o_id r)); reflexivity. Qed.

Lemma upd_ok r now x : row_ok r -> row_ok x -> row_ok (upd r now x).
Proof. unfold upd. intros A C. destruct (N.eqb (o_id x) (o_id r)); [exact A | exact C]. Qed.

Lemma oinv_update_row s r : OInv s -> row_ok r -> (o_dm r = true -> agrees s r) -> OInv (update_row s r).
Proof.
  intros [H0 H1 H2 H3] Hok Ha. destruct (update_row_objs s r) as [O [P Nx]].
  constructor; unfold owner; rewrite ?O, ?P, ?Nx.
  - intros x Hx. apply in_map_iff in Hx. destruct Hx as [y [<- Hy]]. apply upd_ok; [exact Hok | apply H0; exact Hy].
  - intros x Hx. apply in_map_iff in Hx. destruct Hx as [y [<- Hy]]. rewrite upd_id. apply H1; exact Hy.
  - intros x1 x2 I1 I2 E. apply in_map_iff in I1. apply in_map_iff in I2.
    destruct I1 as [y1 [<- J1]]. destruct I2 as [y2 [<- J2]]. rewrite !upd_id in E. rewrite !upd_dm, E.
    destruct (N.eqb (o_id y2) (o_id r)); [reflexivity | apply H2; auto].
  - intros row Hr. destruct (H3 row Hr) as [y [Iy [Ey Dy]]].
    exists (upd r (clock s) y). split; [apply in_map; exact Iy|]. rewrite upd_id, upd_dm. split; [exact Ey|].
    destruct (N.eqb (o_id y) (o_id r)) eqn:E; [|exact Dy]. apply N.eqb_eq in E.
    destruct (o_dm r) eqn:Dr; [|reflexivity]. pose proof (Ha eq_refl y Iy E) as Q. congruence.
Qed.
Lemma oinv_set_latest s r l : OInv s -> row_ok r -> agrees s r -> OInv (set_latest s r l).
Proof. intros H Hok Ha. unfold set_latest. apply oinv_update_row; [exact H | exact Hok | intros _; exact Ha]. Qed.

Lemma has_id_update_row s r id : has_id s id -> has_id (update_row s r) id.
Proof.
  intros [x [I E]]. destruct (update_row_objs s r) as [O _]. unfold has_id. rewrite O.
  exists (upd r (clock s) x). split; [apply in_map; exact I | rewrite upd_id; exact E].
Qed.
Lemma owner_update_row s r : has_id s (o_id r) -> o_dm r = false -> owner (update_row s r) (o_id r).
Proof.
  intros [x [I E]] Dr. destruct (update_row_objs s r) as [O _]. unfold owner. rewrite O.
  exists (upd r (clock s) x). split; [apply in_map; exact I|]. rewrite upd_id, upd_dm, E, N.eqb_refl. auto.
Qed.
Lemma agrees_set_latest s r l q : agrees s r -> agrees s q -> agrees (set_latest s r l) q.
Proof.
  intros Ar Aq x Hx E. unfold set_latest in Hx. destruct (update_row_objs s (with_row r l (o_updated r) (o_lock r))) as [O _].
  rewrite O in Hx. apply in_map_iff in Hx. destruct Hx as [y [<- Iy]]. rewrite upd_id in E. rewrite upd_dm.
  cbn [o_id o_dm with_row]. destruct (N.eqb (o_id y) (o_id r)) eqn:E2; [|apply Aq; auto].
  apply N.eqb_eq in E2. rewrite <- (Ar y Iy E2). apply Aq; auto.
Qed.

Lemma oinv_delete_row s id : OInv s -> (forall row, In row (parts s) -> p_obj row <> id) -> OInv (delete_row s id).
Proof.
  intros [H0 H1 H2 H3] Hn. constructor; unfold owner, delete_row; cbn [objs parts next_id set_objs].
  - intros r Hr. apply filter_In in Hr. apply H0, Hr.
  - intros r Hr. apply filter_In in Hr. apply H1, Hr.
  - intros r1 r2 I1 I2. apply filter_In in I1. apply filter_In in I2. apply H2; [apply I1 | apply I2].
  - intros row Hr. destruct (H3 row Hr) as [y [Iy [Ey Dy]]]. exists y. repeat split; auto.
    apply filter_In. split; [exact Iy|]. apply negb_true_iff, N.eqb_neq. rewrite Ey. apply Hn; exact Hr.
Qed.
Lemma agrees_delete_row s id r : agrees s r -> agrees (delete_row s id) r.
Proof. intros A x Hx. unfold delete_row in Hx. cbn in Hx. apply filter_In in Hx. apply A, Hx. Qed.

Lemma no_parts_of_dm s r : OInv s -> agrees s r -> o_dm r = true ->
  forall row, In row (parts s) -> p_obj row <> o_id r.
Proof.
  intros [_ _ _ H3] A Dr row Hr E. destruct (H3 row Hr) as [y [Iy [Ey Dy]]].
  rewrite (A y Iy) in Dy by congruence. congruence.
Qed.

Lemma oinv_remove_part_rows s sel s' zs : remove_part_rows s sel = (s', zs) -> OInv s -> OInv s'.
Proof.
  intros H [H0 H1 H2 H3]. destruct (remove_part_rows_frame _ _ _ _ H) as [O [P Nx]].
  constructor; unfold owner; rewrite ?O, ?P, ?Nx; auto.
  intros row Hr. apply filter_In in Hr. apply H3, Hr.
Qed.
Lemma remove_parts_of_none s id s' zs : remove_parts_of s id = (s', zs) ->
  forall row, In row (parts s') -> p_obj row <> id.
Proof.
  intros H row Hr. unfold remove_parts_of in H. destruct (remove_part_rows_frame _ _ _ _ H) as [_ [P _]].
  rewrite P in Hr. apply filter_In in Hr. destruct Hr as [_ Hr]. apply negb_true_iff, N.eqb_neq in Hr. exact Hr.
Qed.

Lemma oinv_save s oid ps seq : OInv s -> owner s oid -> OInv (save_part_rows s oid ps seq).
Proof.
  intros [H0 H1 H2 H3] Ho. destruct (save_part_rows_frame ps s oid seq) as [O [Nx P]].
  constructor; unfold owner; rewrite ?O, ?Nx; auto.
  intros row Hr. destruct (P row Hr) as [I | ->]; [apply H3; exact I | exact Ho].
Qed.

Lemma oinv_insert_row s b k v l dm upl w id s' :
  insert_row s (mk_row b k v l dm upl w) = (id, s') -> OInv s -> (upl <> None -> dm = false) ->
  OInv s' /\ (dm = false -> owner s' id) /\ (forall q, agrees s q -> (o_id q < next_id s)%N -> agrees s' q) /\
  (forall i, has_id s i -> has_id s' i).
Proof.
  unfold insert_row. cbn [fresh tick]. intros H [H0 H1 H2 H3] Hud. inversion H; subst id s'; clear H.
  set (nr := mk_row b k v l dm upl w (next_id s) (clock s)).
  assert (Hid : o_id nr = next_id s) by reflexivity.
  assert (Hdm : o_dm nr = dm) by reflexivity.
  repeat apply conj.
  - constructor; unfold owner; cbn [objs parts next_id set_objs]; fold nr.
    + intros r Hr. apply in_app_or in Hr. destruct Hr as [Hr|[<-|[]]]; [apply H0; exact Hr | exact Hud].
    + intros r Hr. apply in_app_or in Hr. destruct Hr as [Hr|[<-|[]]]; [specialize (H1 r Hr); lia | rewrite Hid; lia].
    + intros r1 r2 I1 I2 E. apply in_app_or in I1. apply in_app_or in I2.
      destruct I1 as [I1|[<-|[]]]; destruct I2 as [I2|[<-|[]]]; auto.
      * specialize (H1 r1 I1). rewrite Hid in E. lia.
      * specialize (H1 r2 I2). rewrite Hid in E. lia.
    + intros row Hr. destruct (H3 row Hr) as [y [Iy Ey]]. exists y. split; [apply in_or_app; left; exact Iy | exact Ey].
  - intros ->. exists nr. cbn [objs set_objs]. fold nr. split; [apply in_or_app; right; left; reflexivity | auto].
  - intros q A Hq x Hx E. cbn [objs set_objs] in Hx. fold nr in Hx. apply in_app_or in Hx.
    destruct Hx as [Hx|[<-|[]]]; [apply A; auto | rewrite Hid in E; lia].
  - intros i [x [I E]]. exists x. cbn [objs set_objs]. split; [apply in_or_app; left; exact I | exact E].
Qed.

(* ---- finds return rows of the table ---- *)
Lemma find_latest_In s b k r : find_latest s b k = Some r -> In r (objs s).
Proof. unfold find_latest. intros H. apply find_some in H. apply H. Qed.
Lemma find_version_In s b k v r : find_version s b k v = Some r -> In r (objs s).
Proof. unfold find_version. intros H. apply find_some in H. apply H. Qed.
Lemma find_upload_In s b k u r : find_upload s b k u = Some r -> In r (objs s).
Proof. unfold find_upload. intros H. apply find_some in H. apply H. Qed.
Lemma fold_max_created_In l : forall a r, fold_left max_created l a = Some r -> a = Some r \/ In r l.
Proof.
  induction l as [|x l IH]; intros a r H; cbn [fold_left] in H; [left; exact H|].
  apply IH in H. destruct H as [H|H]; [|right; right; exact H].
  unfold max_created in H. destruct a as [y|].
  - destruct (o_created y <? o_created x)%N; inversion H; subst; [right; left; reflexivity | left; reflexivity].
  - inversion H; subst. right; left; reflexivity.
Qed.
Lemma find_next_latest_In s b k e r : find_next_latest s b k e = Some r -> In r (objs s).
Proof.
  unfold find_next_latest. intros H. apply fold_max_created_In in H. destruct H as [H|H]; [discriminate|].
  apply filter_In in H. apply H.
Qed.

(* ---- operations ---- *)
Ltac is_err H Hne := inversion H; subst; exfalso; eapply Hne; reflexivity.

Lemma oinv_opt_set_latest s (o : option orow) l :
  OInv s -> (forall r, o = Some r -> In r (objs s)) ->
  let s' := match o with Some r => set_latest s r l | None => s end in
  OInv s' /\ (forall i, has_id s i -> has_id s' i) /\ (forall q, agrees s q -> agrees s' q).
Proof.
  intros H Hin. destruct o as [r|]; cbn zeta; [|auto].
  assert (A : agrees s r) by (apply agrees_In; [exact H | apply Hin; reflexivity]).
  assert (K : row_ok r) by (apply (o_pend s H); apply Hin; reflexivity).
  repeat apply conj.
  - apply oinv_set_latest; assumption.
  - intros i Hi. apply has_id_update_row. exact Hi.
  - intros q Aq. apply agrees_set_latest; assumption.
Qed.

Lemma remove_parts_of_oinv s id s' zs : remove_parts_of s id = (s', zs) -> OInv s ->
  OInv s' /\ objs s' = objs s /\ (forall row, In row (parts s') -> p_obj row <> id).
Proof.
  intros H Hi. repeat apply conj.
  - unfold remove_parts_of in H. eapply oinv_remove_part_rows; [exact H | exact Hi].
  - unfold remove_parts_of in H. apply (remove_part_rows_frame _ _ _ _ H).
  - eapply remove_parts_of_none; exact H.
Qed.

Lemma meta_put_oinv s vn b k w c s' r unref :
  meta_put s vn b k w c = (s', r, unref) -> (forall e, r <> RErr e) -> OInv s -> OInv s'.
Proof.
  intros H Hne Hi. unfold meta_put in H. cbv zeta in H.
  destruct (find_bucket s b) as [bk|]; [|is_err H Hne].
  destruct (cond_fails c (find_latest s b k)); [is_err H Hne|].
  set (s1 := match find_latest s b k with
             | Some r => if is_cond c then set_latest s r (o_latest r) else s
             | None => s end) in H.
  assert (O1 : OInv s1).
  { unfold s1. destruct (find_latest s b k) as [lat|] eqn:FL; [|exact Hi]. destruct (is_cond c); [|exact Hi].
    apply find_latest_In in FL.
    apply oinv_set_latest; [exact Hi | apply (o_pend s Hi); exact FL | apply agrees_In; [exact Hi | exact FL]]. }
  set (s2 := match find_latest s1 b k with Some r => set_latest s1 r false | None => s1 end) in H.
  destruct (oinv_opt_set_latest s1 (find_latest s1 b k) false O1) as [O2 [Hid _]].
  { intros r0 E. eapply find_latest_In; exact E. }
  fold s2 in O2, Hid.
  assert (Hfresh : forall v id s3, insert_row s2 (mk_row b k v true false None w) = (id, s3) ->
                     OInv (save_part_rows s3 id (w_parts w) 0)).
  { intros v id s3 E. destruct (oinv_insert_row _ _ _ _ _ _ _ _ _ _ E O2) as [O3 [Ow _]]; [intros A; contradiction|].
    apply oinv_save; [exact O3 | apply Ow; reflexivity]. }
  destruct (b_ver bk).
  2: { destruct (insert_row s2 _) as [id s3] eqn:E. inversion H; subst. eapply Hfresh; exact E. }
  all: destruct (is_inm c && match find_null s1 b k with Some _ => true | None => false end); [is_err H Hne|].
  all: destruct (find_null s1 b k) as [nr|] eqn:FN;
    [| destruct (insert_row s2 _) as [id s3] eqn:E; inversion H; subst; eapply Hfresh; exact E].
  all: match type of H with context [remove_parts_of (update_row ?S ?R) ?Y] =>
         destruct (remove_parts_of (update_row S R) Y) as [s4 un] eqn:E;
         assert (O3 : OInv (update_row S R)) by (apply oinv_update_row; [exact O2 | intros A; contradiction | cbn [o_dm]; discriminate]);
         assert (W3 : owner (update_row S R) (o_id nr))
           by (apply (owner_update_row S R); [cbn [o_id]; apply Hid; exists nr; split;
                 [eapply find_version_In; exact FN | reflexivity] | reflexivity]) end.
  all: inversion H; subst; clear H.
  all: destruct (remove_parts_of_oinv _ _ _ _ E O3) as [O4 [Ob _]].
  all: apply oinv_save; [exact O4 | eapply owner_osame; [exact Ob | exact W3]].
Qed.

Ltac commit_split Hi Hne :=
  match goal with |- context [commit ?s0 ?X] =>
    destruct (commit_cases s0 X) as [->|[-> Hne]]; [exact Hi|] end.

Lemma oinv_delete_unreferenced s l : OInv s -> OInv (delete_unreferenced s l).
Proof. apply oinv_osame. apply delete_unreferenced_frame. Qed.

Lemma op_put_oinv s0 vn b k content c : OInv s0 -> OInv (fst (op_put s0 vn b k content c)).
Proof.
  intros Hi. unfold op_put. commit_split Hi Hne.
  destruct (put_fresh_part s0 content) as [np s1] eqn:E1.
  destruct (meta_put s1 vn b k (plain_obj (mk_md5 content) (zlen content) [np]) c) as [[s2 r] un] eqn:E2.
  cbn [fst snd] in *. apply oinv_delete_unreferenced.
  eapply meta_put_oinv; [exact E2 | exact Hne |].
  eapply oinv_osame; [eapply put_fresh_part_frame; exact E1 | exact Hi].
Qed.

Lemma purge_row_oinv s r s' un : purge_row s r = (s', un) -> OInv s -> agrees s r -> OInv s'.
Proof.
  unfold purge_row. intros H Hi Ha. destruct (o_dm r) eqn:Dr.
  - inversion H; subst. apply oinv_delete_row; [exact Hi|]. apply no_parts_of_dm; assumption.
  - destruct (remove_parts_of s (o_id r)) as [s1 u] eqn:E. inversion H; subst.
    destruct (remove_parts_of_oinv _ _ _ _ E Hi) as [O1 [_ Nn]]. apply oinv_delete_row; assumption.
Qed.

Lemma oinv_opt_set_latest_a s (o : option orow) l :
  OInv s -> (forall r, o = Some r -> agrees s r /\ row_ok r) ->
  OInv (match o with Some r => set_latest s r l | None => s end).
Proof.
  intros H Hin. destruct o as [r|]; [|exact H]. destruct (Hin r eq_refl) as [A K].
  apply oinv_set_latest; assumption.
Qed.

Lemma oinv_insert_row' s b k v l dm upl w id s' :
  insert_row s (mk_row b k v l dm upl w) = (id, s') -> OInv s -> (upl <> None -> dm = false) -> OInv s'.
Proof. intros E H U. apply (oinv_insert_row _ _ _ _ _ _ _ _ _ _ E H U). Qed.

Lemma meta_delete_oinv s vn bk b k v c s' r unref :
  meta_delete s vn bk b k v c = (s', r, unref) -> (forall e, r <> RErr e) -> OInv s -> OInv s'.
Proof.
  intros H Hne Hi. unfold meta_delete in H. cbv zeta in H. destruct v as [v|].
  - destruct (find_version s b k v) as [ve|] eqn:FV; [|inversion H; subst; exact Hi].
    match type of H with (if ?X then _ else _) = _ => destruct X; [is_err H Hne|] end.
    destruct (purge_row s ve) as [s1 un] eqn:E. inversion H; subst; clear H.
    apply purge_row_oinv in E; [|exact Hi | apply agrees_In; [exact Hi | eapply find_version_In; exact FV]].
    destruct (o_latest ve); [|exact E].
    destruct (find_next_latest s1 b k (o_id ve)) as [nx|] eqn:FX; [|exact E].
    apply find_next_latest_In in FX.
    apply oinv_set_latest; [exact E | apply (o_pend s1 E); exact FX | apply agrees_In; assumption].
  - destruct (del_cond_fails c (find_latest s b k)); [is_err H Hne|].
    assert (Hcur : forall cur, find_latest s b k = Some cur -> agrees s cur /\ row_ok cur).
    { intros cur FL. apply find_latest_In in FL. split; [apply agrees_In; assumption | apply (o_pend s Hi); exact FL]. }
    destruct (b_ver bk).
    + destruct (find_latest s b k) as [cur|]; [|inversion H; subst; exact Hi].
      destruct (Hcur cur eq_refl) as [Ac Kc].
      match type of H with context [purge_row ?X ?Y] => destruct (purge_row X Y) as [s1 un] eqn:E end.
      inversion H; subst; clear H. destruct (is_cond c).
      * apply purge_row_oinv in E; [exact E | apply oinv_set_latest; assumption | apply agrees_set_latest; assumption].
      * apply purge_row_oinv in E; assumption.
    + match type of H with context [insert_row ?X ?Y] => destruct (insert_row X Y) as [id s1] eqn:E end.
      inversion H; subst; clear H. eapply oinv_insert_row'; [exact E | | intros A; contradiction].
      apply oinv_opt_set_latest_a; [exact Hi | exact Hcur].
    + destruct (find_null s b k) as [nr|].
      * destruct (remove_parts_of s (o_id nr)) as [s1 un] eqn:E.
        match type of H with context [insert_row ?X ?Y] => destruct (insert_row X Y) as [id s2] eqn:E2 end.
        inversion H; subst; clear H. eapply oinv_insert_row'; [exact E2 | | intros A; contradiction].
        destruct (remove_parts_of_oinv _ _ _ _ E Hi) as [O1 [Ob Nn]].
        apply oinv_opt_set_latest_a; [apply oinv_delete_row; assumption|].
        intros cur FL. destruct (Hcur cur FL) as [Ac Kc]. split; [|exact Kc].
        apply agrees_delete_row. eapply agrees_objs; [exact Ob | exact Ac].
      * match type of H with context [insert_row ?X ?Y] => destruct (insert_row X Y) as [id s1] eqn:E end.
        inversion H; subst; clear H. eapply oinv_insert_row'; [exact E | | intros A; contradiction].
        apply oinv_opt_set_latest_a; [exact Hi | exact Hcur].
Qed.

Lemma op_delete_oinv s0 vn b k v c : OInv s0 -> OInv (fst (op_delete s0 vn b k v c)).
Proof.
  intros Hi. unfold op_delete. commit_split Hi Hne. cbv zeta in *.
  destruct (find_bucket s0 b) as [bk|]; [|exact Hi].
  match goal with |- OInv (fst (if ?X then _ else _)) => destruct X end.
  - destruct (meta_delete s0 vn bk b k v c) as [[s1 r] un] eqn:E. cbn [fst snd] in *.
    apply oinv_delete_unreferenced. eapply meta_delete_oinv; [exact E | exact Hne | exact Hi].
  - destruct (is_cond c); exact Hi.
Qed.

Lemma set_buckets_frame s b : osame s (set_buckets s b).
Proof. unfold osame; cbn. repeat split; lia. Qed.

Lemma op_mb_oinv s b : OInv s -> OInv (fst (op_mb s b)).
Proof.
  intros Hi. unfold op_mb. destruct (find_bucket s b); [exact Hi|].
  eapply oinv_osame; [apply set_buckets_frame | exact Hi].
Qed.
Lemma op_rb_oinv s b : OInv s -> OInv (fst (op_rb s b)).
Proof.
  intros Hi. unfold op_rb. destruct (find_bucket s b); [|exact Hi]. destruct (existsb _ _); [exact Hi|].
  eapply oinv_osame; [apply set_buckets_frame | exact Hi].
Qed.
Lemma op_ver_oinv s b v : OInv s -> OInv (fst (op_ver s b v)).
Proof.
  intros Hi. unfold op_ver. destruct (find_bucket s b); [|exact Hi].
  eapply oinv_osame; [apply set_buckets_frame | exact Hi].
Qed.
Lemma op_cmu_oinv s u b k : OInv s -> OInv (fst (op_cmu s u b k)).
Proof.
  intros Hi. unfold op_cmu. destruct (find_bucket s b); [|exact Hi].
  destruct (insert_row s _) as [id s1] eqn:E. cbn [fst].
  eapply oinv_insert_row'; [exact E | exact Hi | reflexivity].
Qed.

Lemma op_upload_part_oinv s0 b k u pn content : OInv s0 -> OInv (fst (op_upload_part s0 b k u pn content)).
Proof.
  intros Hi. unfold op_upload_part. commit_split Hi Hne.
  destruct (find_bucket s0 b) as [bk|] eqn:Fb; [|exact Hi].
  destruct (find_upload s0 b k u) as [up|]; [|exact Hi].
  destruct (put_fresh_part s0 content) as [np s1] eqn:E1.
  destruct (meta_upload_part s1 b k u pn np) as [[s2 r] un] eqn:E2. cbn [fst snd] in *.
  apply oinv_delete_unreferenced.
  assert (O1 : OInv s1) by (eapply oinv_osame; [eapply put_fresh_part_frame; exact E1 | exact Hi]).
  unfold meta_upload_part in E2.
  destruct (find_bucket s1 b); [|is_err E2 Hne].
  destruct (find_upload s1 b k u) as [r1|] eqn:FU; [|is_err E2 Hne].
  match type of E2 with context [remove_part_rows ?X ?Y] => destruct (remove_part_rows X Y) as [s3 un3] eqn:E3 end.
  inversion E2; subst; clear E2.
  assert (W : owner s1 (o_id r1)).
  { pose proof (find_upload_In _ _ _ _ _ FU) as I. exists r1. repeat split; auto.
    apply (o_pend s1 O1 r1 I). unfold find_upload in FU. apply find_some in FU. destruct FU as [_ FU].
    destruct (o_upload r1); [discriminate|]. rewrite andb_false_r in FU. discriminate. }
  apply (oinv_save s3 (o_id r1) [np] pn); [eapply oinv_remove_part_rows; [exact E3 | exact O1]|].
  eapply owner_osame; [apply (remove_part_rows_frame _ _ _ _ E3) | exact W].
Qed.

Lemma op_abort_oinv s0 b k u : OInv s0 -> OInv (fst (op_abort s0 b k u)).
Proof.
  intros Hi. unfold op_abort. commit_split Hi Hne.
  destruct (find_bucket s0 b) as [bk|]; [|exact Hi].
  destruct (find_upload s0 b k u) as [up|]; [|exact Hi].
  destruct (remove_parts_of s0 (o_id up)) as [s1 un] eqn:E. cbn [fst].
  apply oinv_delete_unreferenced. destruct (remove_parts_of_oinv _ _ _ _ E Hi) as [O1 [_ Nn]].
  apply oinv_delete_row; assumption.
Qed.

Lemma op_copy_oinv s0 vn sb sk sv db dk : OInv s0 -> OInv (fst (op_copy s0 vn sb sk sv db dk)).
Proof.
  intros Hi. unfold op_copy. commit_split Hi Hne. cbv zeta in *.
  destruct (lookup s0 sb sk sv) as [[src|]|e]; try exact Hi.
  destruct (negb (manifest_complete s0 src)); [exact Hi|].
  destruct (try_add_refs (registry s0) (map p_pid (row_parts s0 src))) as [reg|] eqn:T; [|exact Hi].
  match goal with |- context [meta_put ?a ?b ?c ?d ?e ?f] =>
    destruct (meta_put a b c d e f) as [[s2 r] un] eqn:E2 end.
  cbn [fst snd] in *. apply oinv_delete_unreferenced.
  eapply meta_put_oinv; [exact E2 | exact Hne |].
  eapply oinv_osame; [apply set_registry_frame | exact Hi].
Qed.

Ltac d_if := match goal with |- OInv (fst (if ?X then _ else _)) => destruct X end.
Ltac d_match := match goal with |- OInv (fst (match ?X with _ => _ end)) => destruct X end.

Lemma finish_oinv sX (o : option orow) r' un :
  OInv sX -> (forall r, o = Some r -> agrees sX r /\ row_ok r) -> o_upload r' = None -> o_dm r' = false ->
  OInv (delete_unreferenced (update_row (match o with Some r => set_latest sX r false | None => sX end) r') un).
Proof.
  intros Hi Ho U Dm. apply oinv_delete_unreferenced. apply oinv_update_row.
  - apply oinv_opt_set_latest_a; assumption.
  - intros A. contradiction.
  - rewrite Dm. discriminate.
Qed.

Lemma op_complete_oinv s0 vn b k u decl c : OInv s0 -> OInv (fst (op_complete s0 vn b k u decl c)).
Proof.
  intros Hi. unfold op_complete. commit_split Hi Hne. cbv beta zeta in *.
  destruct (find_bucket s0 b) as [bk|]; [|exact Hi].
  destruct (find_upload s0 b k u) as [up|]; [|exact Hi].
  d_if; [exact Hi|]. d_match; [exact Hi|]. d_if; [exact Hi|].
  set (s1 := match find_latest s0 b k with
             | Some r => if is_cond c then set_latest s0 r (o_latest r) else s0
             | None => s0 end) in *.
  assert (O1 : OInv s1).
  { unfold s1. destruct (find_latest s0 b k) as [lat|] eqn:FL; [|exact Hi]. destruct (is_cond c); [|exact Hi].
    apply find_latest_In in FL.
    apply oinv_set_latest; [exact Hi | apply (o_pend s0 Hi); exact FL | apply agrees_In; [exact Hi | exact FL]]. }
  assert (Hcur : forall cur, find_latest s1 b k = Some cur -> agrees s1 cur /\ row_ok cur).
  { intros cur FL. apply find_latest_In in FL. split; [apply agrees_In; assumption | apply (o_pend s1 O1); exact FL]. }
  destruct (b_ver bk).
  2: { cbn [fst]. apply finish_oinv; auto. }
  all: destruct (find_null s1 b k) as [nr|]; [|cbn [fst]; apply finish_oinv; auto].
  all: destruct (is_inm c); [exact O1|].
  all: destruct (remove_parts_of s1 (o_id nr)) as [s2 un] eqn:E; cbn [fst].
  all: destruct (remove_parts_of_oinv _ _ _ _ E O1) as [O2 [Ob Nn]].
  all: apply finish_oinv; auto; [apply oinv_delete_row; assumption|].
  all: intros cur FL; destruct (Hcur cur FL) as [Ac Kc]; split; [|exact Kc].
  all: apply agrees_delete_row; eapply agrees_objs; [exact Ob | exact Ac].
Qed.

Lemma op_append_oinv s0 vn b k content off : OInv s0 -> OInv (fst (op_append s0 vn b k content off)).
Proof.
  intros Hi. unfold op_append. commit_split Hi Hne. cbv beta zeta in *.
  destruct (find_bucket s0 b) as [bk|]; [|exact Hi].
  set (existing := match find_latest s0 b k with
                   | Some r => if o_dm r then None else Some r
                   | None => None end) in *.
  d_if; [exact Hi|]. d_if; [exact Hi|].
  destruct (put_fresh_part s0 content) as [np s1] eqn:E1.
  assert (O1 : OInv s1) by (eapply oinv_osame; [eapply put_fresh_part_frame; exact E1 | exact Hi]).
  set (old_parts := match existing with Some r => row_parts s1 r | None => [] end) in *.
  destruct (b_ver bk).
  2: { destruct (try_add_refs (registry s1) (map p_pid old_parts)) as [reg|] eqn:T; [|exfalso; eapply Hne; reflexivity].
       match goal with |- context [meta_put ?a ?b ?c ?d ?e ?f] =>
         destruct (meta_put a b c d e f) as [[s2 r] un] eqn:E2 end.
       cbn [fst snd] in *. apply oinv_delete_unreferenced.
       eapply meta_put_oinv; [exact E2 | | eapply oinv_osame; [apply set_registry_frame | exact O1]].
       intros e Er. subst r. eapply Hne. reflexivity. }
  all: destruct (find_latest s1 b k) as [old|] eqn:FL.
  all: try (destruct (insert_row s1 _) as [id s2] eqn:E; cbn [fst];
            destruct (oinv_insert_row _ _ _ _ _ _ _ _ _ _ E O1) as [O2 [Ow _]]; [intros A; contradiction|];
            apply (oinv_save s2 id [np] 0); [exact O2 | apply Ow; reflexivity]).
  all: cbn [fst]; apply find_latest_In in FL.
  all: match goal with |- OInv (save_part_rows (update_row ?S ?R) ?I ?P ?Q) =>
         apply (oinv_save (update_row S R) I P Q);
         [apply oinv_update_row; [exact O1 | intros A; contradiction | cbn [o_dm]; discriminate]
         | apply (owner_update_row S R); [exists old; split; [exact FL | reflexivity] | reflexivity]] end.
Qed.

Lemma step_oinv i hist s o : OInv s -> OInv (fst (step i hist s o)).
Proof.
  intros H. assert (Hw : OInv (with_ids s i)) by (eapply oinv_osame; [apply with_ids_frame | exact H]).
  destruct o; cbn [step fst]; try exact Hw.
  - apply op_mb_oinv; exact Hw.
  - apply op_rb_oinv; exact Hw.
  - apply op_ver_oinv; exact Hw.
  - apply op_put_oinv; exact Hw.
  - apply op_delete_oinv; exact Hw.
  - apply op_cmu_oinv; exact Hw.
  - apply op_upload_part_oinv; exact Hw.
  - apply op_complete_oinv; exact Hw.
  - apply op_abort_oinv; exact Hw.
  - apply op_append_oinv; exact Hw.
  - apply op_copy_oinv; exact Hw.
Qed.

Lemma run_from_oinv ops : forall i hist s, OInv s -> OInv (fst (run_from i hist s ops)).
Proof.
  induction ops as [|o ops IH]; intros i hist s H; cbn [run_from]; [exact H|].
  destruct (step i hist s o) as [s' r] eqn:E. apply IH.
  change s' with (fst (s', r)). rewrite <- E. apply step_oinv. exact H.
Qed.

Lemma init_oinv : OInv init.
Proof. constructor; cbn; intros; contradiction. Qed.

Theorem run_oinv : forall ops, OInv (fst (run ops)).
Proof. intros ops. apply run_from_oinv. exact init_oinv. Qed.

(* every part row of a reachable state belongs to an existing object row that is not a delete marker *)
Theorem run_parts_owned : forall ops row, In row (parts (fst (run ops))) ->
  exists r, In r (objs (fst (run ops))) /\ o_id r = p_obj row /\ o_dm r = false.
Proof. intros ops row H. apply (o_owned _ (run_oinv ops) row H). Qed.

(* every stored part of a reachable state is referenced by a part row of an existing object version or pending upload *)
Theorem run_stored_is_referenced : forall ops p c, store_get (store (fst (run ops))) p = Some c ->
  exists row r, In row (parts (fst (run ops))) /\ p_pid row = p /\ p_content row = c /\
                In r (objs (fst (run ops))) /\ o_id r = p_obj row /\ o_dm r = false.
Proof.
  intros ops p c H. destruct (run_parts_inv ops) as [[_ [P _]] No].
  destruct (No p c H) as [row [I E]]. destruct (run_parts_owned ops row I) as [r [Ir [Er Dr]]].
  exists row, r. repeat split; auto. specialize (P row I). rewrite E in P. congruence.
Qed.

(* delete markers carry no parts *)
Theorem run_dm_no_parts : forall ops r row, In r (objs (fst (run ops))) -> o_dm r = true ->
  In row (parts (fst (run ops))) -> p_obj row <> o_id r.
Proof.
  intros ops r row I Dr Hr. apply (no_parts_of_dm _ r (run_oinv ops)); auto.
  apply agrees_In; [apply run_oinv | exact I].
Qed.
