(* Proofs/TransitionOps.v — the transition step of Model/Transition.v: exactly the addressed row changes, where
   its parts go, and why other versions and shared parts survive *)
From Verif Require Import Bytes Codec Transition TransitionProofs.
From Coq Require Import ZifyBool ZifyN ZifyNat.

Definition blob_of (s : state) (p : part) : option N := blob_get (p_store p, p_id p) (s_blobs s).

(* ---------------- addressing ---------------- *)
Lemma find_idx_spec f vs i : find_idx f vs = Some i ->
  exists r, nth_error vs i = Some r /\ f r = true /\ forall j r', (j < i)%nat -> nth_error vs j = Some r' -> f r' = false.
Proof.
  revert i; induction vs as [|x vs IH]; intros i; cbn [find_idx]; [discriminate|].
  destruct (f x) eqn:E.
  - intros H; inversion H; subst. exists x. split; [reflexivity|]. split; [exact E|]. intros j r' Hj; lia.
  - destruct (find_idx f vs) as [i'|] eqn:F; [|discriminate]. cbn. intros H; inversion H; subst.
    destruct (IH i' eq_refl) as (r & H1 & H2 & H3). exists r. split; [exact H1|]. split; [exact H2|].
    intros [|j] r' Hj Hn; cbn in Hn; [inversion Hn; subst; exact E | apply (H3 j r'); [lia | exact Hn]].
Qed.
Lemma find_idx_ext f g vs : (forall r, In r vs -> f r = g r) -> find_idx f vs = find_idx g vs.
Proof.
  induction vs as [|x vs IH]; intros H; [reflexivity|]. cbn [find_idx]. rewrite (H x (or_introl eq_refl)).
  rewrite IH; [reflexivity | intros r Hr; apply H; right; exact Hr].
Qed.
Lemma find_idx_update f i g vs : (forall r, f (g r) = f r) -> find_idx f (update_nth i g vs) = find_idx f vs.
Proof.
  intros Hf. revert i; induction vs as [|x vs IH]; intros [|i]; cbn [update_nth find_idx]; try reflexivity.
  - rewrite Hf. reflexivity.
  - rewrite IH. reflexivity.
Qed.
Lemma resolve_update_obj vs i o v : resolve (update_nth i (set_obj o) vs) v = resolve vs v.
Proof. destruct v; cbn [resolve]; try reflexivity; apply find_idx_update; intros r; reflexivity. Qed.

(* the row a selector resolves to is one that carries what the selector names *)
Lemma resolve_addresses vs v i r : resolve vs v = Some i -> nth_error vs i = Some r ->
  match v with
  | VLatest => v_latest r = true
  | VOrd n => v_ord r = n
  | VNull => v_null r = true
  | VUnknown => False
  end.
Proof.
  destruct v; cbn [resolve]; intros H Hn; try discriminate;
    destruct (find_idx_spec _ _ _ H) as (r0 & H1 & H2 & _); rewrite Hn in H1; inversion H1; subst; auto.
  apply N.eqb_eq; exact H2.
Qed.

(* ---------------- replace_row_obj ---------------- *)
Lemma replace_row_versions s k i o' :
  versions_of k (s_objs (replace_row_obj s k i o')) = update_nth i (set_obj o') (versions_of k (s_objs s)).
Proof. unfold replace_row_obj. cbn [with_objs s_objs]. apply versions_of_set_same. Qed.
Lemma replace_row_other s k i o' k' : k' <> k ->
  versions_of k' (s_objs (replace_row_obj s k i o')) = versions_of k' (s_objs s).
Proof. intros Hn. unfold replace_row_obj. cbn [with_objs s_objs]. apply versions_of_set_other, Hn. Qed.

Definition ifmatch_holds (s : state) (k : okey) (r : ver) (im : ifmatch) : Prop :=
  match im with
  | IMOrd n => exists rr, find_row s k (VOrd n) = Some rr /\ v_dm rr = false /\ etag_eqb (v_obj r) (v_obj rr) = true
  | _ => True
  end.

(* the shape of a successful transition *)
Lemma transition_unfold cfg s k v c im s' :
  step cfg s (OTransition k v c im) = (s', None) ->
  exists i r s1 rows shared,
    valid_class c = true /\ resolve (versions_of k (s_objs s)) v = Some i /\
    nth_error (versions_of k (s_objs s)) i = Some r /\ v_dm r = false /\ ifmatch_holds s k r im /\
    move_parts s (cfg_get c cfg) (o_parts (v_obj r)) = (s1, rows, shared, true) /\
    all_live s1 shared = true /\
    s' = register (remove_rows (replace_row_obj (add_refs s1 shared) k i
                                  (mkO (Some c) (map fst rows) (o_meta (v_obj r)) (o_tags (v_obj r)) (o_mp (v_obj r))))
                               (o_parts (v_obj r))) rows.
Proof.
  cbn [step]. unfold do_transition.
  destruct (negb (known_version s k v)); [discriminate|].
  destruct (match im with IMOrd n => _ | _ => Some None end) as [ref|] eqn:Href; [|discriminate].
  destruct (valid_class c) eqn:Hv; cbn [negb]; [|discriminate].
  destruct (resolve (versions_of k (s_objs s)) v) as [i|] eqn:Hr; [|discriminate].
  destruct (nth_error (versions_of k (s_objs s)) i) as [r|] eqn:Hn; [|discriminate].
  destruct (v_dm r) eqn:Hdm; [discriminate|].
  destruct (match ref with Some ro => negb (etag_eqb (v_obj r) ro) | None => false end) eqn:Him; [discriminate|].
  destruct (move_parts s (cfg_get c cfg) (o_parts (v_obj r))) as [[[s1 rows] shared] ok] eqn:Hm.
  destruct ok; cbn [negb]; [|discriminate].
  destruct (all_live s1 shared) eqn:Hl; cbn [negb]; [|discriminate].
  intros E; inversion E. exists i, r, s1, rows, shared.
  repeat split; auto.
  unfold ifmatch_holds. destruct im as [| |n]; auto.
  destruct (find_row s k (VOrd n)) as [rr|] eqn:Hf; [|discriminate].
  destruct (v_dm rr) eqn:Hd; [discriminate|]. inversion Href; subst ref.
  exists rr. split; [reflexivity|]. split; [exact Hd|]. apply negb_false_iff. exact Him.
Qed.

Lemma transition_preserves cfg s k v c im s' :
  step cfg s (OTransition k v c im) = (s', None) ->
  exists i r o',
    resolve (versions_of k (s_objs s)) v = Some i /\ nth_error (versions_of k (s_objs s)) i = Some r /\
    v_dm r = false /\ valid_class c = true /\ ifmatch_holds s k r im /\
    (* the addressed row: same ordinal / version id / flags / created_at; only the object record changes *)
    nth_error (versions_of k (s_objs s')) i = Some (set_obj o' r) /\
    o_class o' = Some c /\ o_meta o' = o_meta (v_obj r) /\ o_tags o' = o_tags (v_obj r) /\ o_mp o' = o_mp (v_obj r) /\
    map p_cont (o_parts o') = map p_cont (o_parts (v_obj r)) /\
    (forall p, In p (o_parts o') -> p_store p = cfg_get c cfg) /\
    (* every other row of the key, every other key and the bucket states are untouched *)
    (forall j, j <> i -> nth_error (versions_of k (s_objs s')) j = nth_error (versions_of k (s_objs s)) j) /\
    length (versions_of k (s_objs s')) = length (versions_of k (s_objs s)) /\
    (forall k', k' <> k -> versions_of k' (s_objs s') = versions_of k' (s_objs s)) /\
    s_st0 s' = s_st0 s /\ s_st1 s' = s_st1 s.
Proof.
  intros H. destruct (transition_unfold _ _ _ _ _ _ _ H) as (i & r & s1 & rows & shared & Hv & Hr & Hn & Hdm & Him & Hm & Hl & ->).
  destruct (move_parts_spec _ _ _ _ _ _ Hm) as (H1 & H2 & H3 & H4 & H5 & H6 & H7 & H8 & H9 & H10 & H11).
  set (o' := mkO (Some c) (map fst rows) (o_meta (v_obj r)) (o_tags (v_obj r)) (o_mp (v_obj r))).
  set (s2 := add_refs s1 shared).
  assert (Hobjs : s_objs s2 = s_objs s) by (subst s2; cbn; exact H1).
  assert (Hso : s_objs (register (remove_rows (replace_row_obj s2 k i o') (o_parts (v_obj r))) rows) = s_objs (replace_row_obj s2 k i o')).
  { cbn [register add_refs with_reg s_objs]. apply remove_rows_objs. }
  exists i, r, o'. rewrite Hso, replace_row_versions, Hobjs.
  split; [exact Hr|]. split; [exact Hn|]. split; [exact Hdm|]. split; [exact Hv|]. split; [exact Him|].
  split; [apply nth_update_same, Hn|].
  split; [reflexivity|]. split; [reflexivity|]. split; [reflexivity|]. split; [reflexivity|].
  split; [exact H6|]. split; [exact H7|].
  split; [intros j Hj; apply nth_update_other, Hj|].
  split; [apply update_nth_length|].
  split; [intros k' Hk; rewrite replace_row_other by exact Hk; rewrite Hobjs; reflexivity|].
  assert (Hst : forall s0 ps, s_st0 (remove_rows s0 ps) = s_st0 s0 /\ s_st1 (remove_rows s0 ps) = s_st1 s0).
  { intros s0 ps; revert s0; induction ps as [|p ps IH]; intros s0; cbn [remove_rows fold_left]; [auto|].
    fold (remove_rows (remove_row s0 p) ps). destruct (IH (remove_row s0 p)) as [A1 A2]. rewrite A1, A2.
    unfold remove_row. destruct (reg_dec (p_id p) (s_reg s0)) as [rr z]. destruct z; cbn; auto. }
  cbn [register add_refs with_reg s_st0 s_st1].
  destruct (Hst (replace_row_obj s2 k i o') (o_parts (v_obj r))) as [A1 A2]. rewrite A1, A2.
  subst s2. cbn [replace_row_obj with_objs add_refs with_reg s_st0 s_st1].
  clear - Hm. revert s s1 rows shared Hm.
  induction (o_parts (v_obj r)) as [|p ps IH]; intros s s1 rows shared; cbn [move_parts].
  - intros E; inversion E; auto.
  - destruct (p_store p =? cfg_get c cfg)%N.
    + destruct (move_parts s (cfg_get c cfg) ps) as [[[s2 rows2] sh2] ok2] eqn:E2. intros E; inversion E; subst. eapply IH; eauto.
    + destruct (blob_get (p_store p, p_id p) (s_blobs s)); [|intros E; inversion E].
      destruct (move_parts _ (cfg_get c cfg) ps) as [[[s2 rows2] sh2] ok2] eqn:E2. intros E; inversion E; subst.
      destruct (IH _ _ _ _ E2) as [B1 B2]. cbn in B1, B2. auto.
Qed.

Lemma failed_step_unchanged cfg s o e : snd (step cfg s o) = Some e -> fst (step cfg s o) = s.
Proof.
  destruct o; cbn [step].
  - unfold do_put. destruct (write_fresh s (store_for cfg cls) cont) as [[s1 p] pre]. discriminate.
  - unfold do_append. destruct (status_of s k); try reflexivity;
      (destruct (current_object s k) as [[i r]|];
       [destruct (write_fresh s (store_for cfg (o_class (v_obj r))) cont) as [[s1 p] pre];
        try (destruct (all_live s1 (map p_id (o_parts (v_obj r))))); try discriminate; reflexivity
       | destruct (write_fresh s (store_for cfg None) cont) as [[s1 p] pre]; discriminate]).
  - unfold do_copy. destruct (negb (known_version s src sv)); [reflexivity|].
    destruct (find_row s src sv) as [r|]; [|reflexivity]. destruct (v_dm r); [reflexivity|].
    destruct (copy_parts s (store_for cfg cls) (o_parts (v_obj r))) as [[[s1 rows] shared] ok].
    destruct (negb ok); [reflexivity|]. destruct (negb (all_live s1 shared)); [reflexivity | discriminate].
  - unfold do_transition. destruct (negb (known_version s k v)); [reflexivity|].
    destruct (match im with IMOrd n => _ | _ => Some None end) as [ref|]; [|reflexivity].
    destruct (negb (valid_class cls)); [reflexivity|].
    destruct (resolve (versions_of k (s_objs s)) v) as [i|]; [|reflexivity].
    destruct (nth_error (versions_of k (s_objs s)) i) as [r|]; [|reflexivity].
    destruct (v_dm r); [reflexivity|].
    destruct (match ref with Some ro => negb (etag_eqb (v_obj r) ro) | None => false end); [reflexivity|].
    destruct (move_parts s (cfg_get cls cfg) (o_parts (v_obj r))) as [[[s1 rows] shared] ok].
    destruct (negb ok); [reflexivity|]. destruct (negb (all_live s1 shared)); [reflexivity | discriminate].
  - unfold do_delete. destruct (negb (known_version s k v)); [reflexivity|].
    destruct v; try (destruct (resolve (versions_of k (s_objs s)) _); discriminate).
    destruct (status_of s k); try discriminate.
    destruct (resolve (versions_of k (s_objs s)) VLatest); discriminate.
  - discriminate.
  - unfold do_multipart. destruct (write_many s (store_for cfg cls) cs) as [[s1 ps] fl]. discriminate.
  - reflexivity.
  - reflexivity.
  - reflexivity.
  - reflexivity.
  - reflexivity.
Qed.

(* a transition whose If-Match names an ETag different from the addressed version's is refused *)
Lemma transition_ifmatch_mismatch cfg s k v c n i r rr :
  known_version s k v = true -> valid_class c = true ->
  resolve (versions_of k (s_objs s)) v = Some i -> nth_error (versions_of k (s_objs s)) i = Some r -> v_dm r = false ->
  find_row s k (VOrd n) = Some rr -> v_dm rr = false -> etag_eqb (v_obj r) (v_obj rr) = false ->
  step cfg s (OTransition k v c (IMOrd n)) = (s, Some PreconditionFailed).
Proof.
  intros Hk Hv Hr Hn Hd Hf Hd2 He. cbn [step]. unfold do_transition.
  rewrite Hk, Hf, Hd2, Hv, Hr, Hn, Hd, He. reflexivity.
Qed.

(* ---------------- bytes ---------------- *)
Lemma rows_with_absent i ps : (forall p, In p ps -> p_id p <> i) -> rows_with i ps = 0%N.
Proof.
  induction ps as [|p ps IH]; intros H; [reflexivity|]. unfold rows_with in *. cbn [map]. rewrite occ_cons.
  assert (E : (p_id p =? i)%N = false) by (apply N.eqb_neq, H; left; reflexivity).
  rewrite E, IH; [reflexivity | intros q Hq; apply H; right; exact Hq].
Qed.
Lemma occ_filter i f ps : (forall q, In q ps -> p_id q = i -> f q = true) ->
  occ i (map p_id (filter f ps)) = occ i (map p_id ps).
Proof.
  induction ps as [|p ps IH]; intros H; [reflexivity|]. cbn [filter map].
  assert (IH' : occ i (map p_id (filter f ps)) = occ i (map p_id ps)) by (apply IH; intros q Hq; apply H; right; exact Hq).
  destruct (f p) eqn:Ef; cbn [map]; rewrite !occ_cons.
  - rewrite IH'. reflexivity.
  - destruct (p_id p =? i)%N eqn:E; [apply N.eqb_eq in E; rewrite (H p (or_introl eq_refl) E) in Ef; discriminate|].
    rewrite IH'. reflexivity.
Qed.
Lemma all_live_In s ids i : all_live s ids = true -> In i ids -> (1 <= reg_get i (s_reg s))%N.
Proof. unfold all_live. rewrite forallb_forall. intros H Hi. specialize (H _ Hi). lia. Qed.

(* a part whose id the transitioned version does not carry, or for which the registry counts more
   references than the transitioned version has rows, keeps its bytes *)
Lemma transition_spares cfg s k v c im s' i r st id :
  step cfg s (OTransition k v c im) = (s', None) ->
  resolve (versions_of k (s_objs s)) v = Some i -> nth_error (versions_of k (s_objs s)) i = Some r ->
  (id < s_nextp s)%N ->
  (rows_with id (o_parts (v_obj r)) = 0 \/ rows_with id (o_parts (v_obj r)) < reg_get id (s_reg s))%N ->
  blob_get (st, id) (s_blobs s') = blob_get (st, id) (s_blobs s).
Proof.
  intros H Hr Hn Hi Hc.
  destruct (transition_unfold _ _ _ _ _ _ _ H) as (i0 & r0 & s1 & rows & shared & Hv & Hr0 & Hn0 & Hdm & Him & Hm & Hl & ->).
  rewrite Hr in Hr0; inversion Hr0; subst i0. rewrite Hn in Hn0; inversion Hn0; subst r0.
  destruct (move_parts_spec _ _ _ _ _ _ Hm) as (H1 & H2 & H3 & H4 & H5 & H6 & H7 & H8 & H9 & H10 & H11).
  cbn [register add_refs with_reg s_blobs].
  set (s3 := replace_row_obj _ _ _ _).
  destruct (remove_rows_keeps (o_parts (v_obj r)) s3 st id) as [Hb _].
  { subst s3. cbn [replace_row_obj with_objs add_refs with_reg s_reg]. rewrite reg_get_add_refs, H2.
    destruct Hc as [Hc|Hc]; [left; exact Hc | right; lia]. }
  rewrite Hb. subst s3. cbn [replace_row_obj with_objs add_refs with_reg s_blobs]. apply H9, Hi.
Qed.

(* after the transition every part row of the addressed version is backed, in the store it names, by the
   bytes the corresponding old row had *)
Lemma transition_routes_bytes cfg s k v c im s' i r :
  step cfg s (OTransition k v c im) = (s', None) ->
  resolve (versions_of k (s_objs s)) v = Some i -> nth_error (versions_of k (s_objs s)) i = Some r ->
  (forall p, In p (o_parts (v_obj r)) -> (p_id p < s_nextp s)%N) ->
  (forall p q, In p (o_parts (v_obj r)) -> In q (o_parts (v_obj r)) -> p_id p = p_id q -> p_store p = p_store q) ->
  exists r', nth_error (versions_of k (s_objs s')) i = Some r' /\
    forall n, option_map (blob_of s') (nth_error (o_parts (v_obj r')) n) = option_map (blob_of s) (nth_error (o_parts (v_obj r)) n).
Proof.
  intros H Hr Hn L1 L2.
  destruct (transition_preserves _ _ _ _ _ _ _ H) as (i0 & r0 & o' & Hr0 & Hn0 & _ & _ & _ & Hn' & _).
  rewrite Hr in Hr0; inversion Hr0; subst i0. rewrite Hn in Hn0; inversion Hn0; subst r0.
  destruct (transition_unfold _ _ _ _ _ _ _ H) as (i0 & r0 & s1 & rows & shared & Hv & Hr0' & Hn0' & Hdm & Him & Hm & Hl & Hs').
  rewrite Hr in Hr0'; inversion Hr0'; subst i0. rewrite Hn in Hn0'; inversion Hn0'; subst r0.
  destruct (move_parts_spec _ _ _ _ _ _ Hm) as (H1 & H2 & H3 & H4 & H5 & H6 & H7 & H8 & H9 & H10 & H11).
  exists (set_obj o' r). split; [exact Hn'|].
  assert (Ho' : o_parts o' = map fst rows).
  { subst s'. revert Hn'. cbn [register add_refs with_reg s_objs].
    destruct (remove_rows_objs (o_parts (v_obj r)) (replace_row_obj (add_refs s1 shared) k i
               (mkO (Some c) (map fst rows) (o_meta (v_obj r)) (o_tags (v_obj r)) (o_mp (v_obj r))))) as (Ho & _).
    rewrite Ho, replace_row_versions. cbn [add_refs with_reg s_objs]. rewrite H1.
    rewrite (nth_update_same i _ _ r Hn). intros Hx. inversion Hx as [Hy]. unfold set_obj in Hy. inversion Hy. reflexivity. }
  intros n. cbn [set_obj v_obj]. rewrite Ho', nth_error_map.
  destruct (H10 n) as [Hn2|(q & Hq & Hge)]; [|apply nth_error_In in Hq; specialize (L1 _ Hq); lia].
  destruct (nth_error rows n) as [pb|] eqn:En; cbn [option_map] in *; [|unfold blob_of; exact Hn2].
  etransitivity; [|exact Hn2]. f_equal. unfold blob_of.
  subst s'. cbn [register add_refs with_reg s_blobs].
  set (s3 := replace_row_obj _ _ _ _).
  destruct (remove_rows_keeps (o_parts (v_obj r)) s3 (p_store (fst pb)) (p_id (fst pb))) as [Hb _].
  { destruct (H11 pb (nth_error_In _ _ En)) as [(Hfl & Hin & Hst)|(Hfl & Hfresh)].
    - right. subst s3. cbn [replace_row_obj with_objs add_refs with_reg s_reg]. rewrite reg_get_add_refs, H2.
      assert (Hocc : occ (p_id (fst pb)) shared = rows_with (p_id (fst pb)) (o_parts (v_obj r))).
      { rewrite H8. unfold rows_with. apply occ_filter. intros q Hq Hid.
        apply N.eqb_eq. rewrite <- Hst. apply L2; auto. }
      assert (Hin' : In (p_id (fst pb)) shared).
      { rewrite H8. apply in_map. apply filter_In. split; [exact Hin | apply N.eqb_eq; exact Hst]. }
      pose proof (all_live_In _ _ _ Hl Hin') as Hlive. rewrite H2 in Hlive. lia.
    - left. apply rows_with_absent. intros p Hp Heq. specialize (L1 _ Hp). lia. }
  rewrite Hb. subst s3. reflexivity.
Qed.

Lemma read_parts_nth s s' ps ps' :
  (forall n, option_map (blob_of s') (nth_error ps' n) = option_map (blob_of s) (nth_error ps n)) ->
  read_parts s' ps' = read_parts s ps.
Proof.
  revert ps'; induction ps as [|p ps IH]; intros ps' H.
  - destruct ps' as [|p' ps']; [reflexivity|]. specialize (H 0%nat). discriminate.
  - destruct ps' as [|p' ps']; [specialize (H 0%nat); discriminate|].
    pose proof (H 0%nat) as H0. cbn [nth_error option_map] in H0. inversion H0 as [Hb].
    cbn [read_parts]. unfold blob_of in Hb. rewrite Hb.
    rewrite (IH ps'); [reflexivity|]. intros n. apply (H (S n)).
Qed.
Lemma read_parts_ext s s' ps :
  (forall q, In q ps -> blob_of s' q = blob_of s q) -> read_parts s' ps = read_parts s ps.
Proof.
  induction ps as [|p ps IH]; intros H; [reflexivity|]. cbn [read_parts].
  pose proof (H p (or_introl eq_refl)) as Hp. unfold blob_of in Hp. rewrite Hp.
  rewrite IH; [reflexivity | intros q Hq; apply H; right; exact Hq].
Qed.

(* any list of part rows (another version of the key, an object of another key) whose parts are not
   exclusively referenced by the transitioned version reads the same bytes afterwards *)
Lemma transition_spares_object cfg s k v c im s' i r qs :
  step cfg s (OTransition k v c im) = (s', None) ->
  resolve (versions_of k (s_objs s)) v = Some i -> nth_error (versions_of k (s_objs s)) i = Some r ->
  (forall q, In q qs -> (p_id q < s_nextp s)%N /\
       (rows_with (p_id q) (o_parts (v_obj r)) = 0 \/ rows_with (p_id q) (o_parts (v_obj r)) < reg_get (p_id q) (s_reg s))%N) ->
  read_parts s' qs = read_parts s qs.
Proof.
  intros H Hr Hn Hq. apply read_parts_ext. intros q Hin. destruct (Hq q Hin) as [H1 H2].
  unfold blob_of. eapply transition_spares; eauto.
Qed.

(* every OTHER version of the key is the same row, addressed by the same selectors, and reads the same bytes *)
Lemma transition_other_versions cfg s k v c im s' i r j rj :
  step cfg s (OTransition k v c im) = (s', None) ->
  resolve (versions_of k (s_objs s)) v = Some i -> nth_error (versions_of k (s_objs s)) i = Some r ->
  j <> i -> nth_error (versions_of k (s_objs s)) j = Some rj ->
  (forall q, In q (o_parts (v_obj rj)) -> (p_id q < s_nextp s)%N /\
       (rows_with (p_id q) (o_parts (v_obj r)) = 0 \/ rows_with (p_id q) (o_parts (v_obj r)) < reg_get (p_id q) (s_reg s))%N) ->
  nth_error (versions_of k (s_objs s')) j = Some rj /\
  (forall w, resolve (versions_of k (s_objs s')) w = resolve (versions_of k (s_objs s)) w) /\
  read_parts s' (o_parts (v_obj rj)) = read_parts s (o_parts (v_obj rj)).
Proof.
  intros H Hr Hn Hj Hnj Hq.
  destruct (transition_preserves _ _ _ _ _ _ _ H) as (i0 & r0 & o' & Hr0 & Hn0 & _ & _ & _ & Hn' & _ & _ & _ & _ & _ & _ & Hoth & _).
  rewrite Hr in Hr0; inversion Hr0; subst i0.
  split; [rewrite Hoth by exact Hj; exact Hnj|]. split.
  - intros w.
    destruct (transition_unfold _ _ _ _ _ _ _ H) as (i0 & r1 & s1 & rows & shared & Hv & Hr1 & Hn1 & Hdm & Him & Hm & Hl & ->).
    destruct (move_parts_spec _ _ _ _ _ _ Hm) as (H1 & _).
    cbn [register add_refs with_reg s_objs].
    destruct (remove_rows_objs (o_parts (v_obj r1)) (replace_row_obj (add_refs s1 shared) k i0
               (mkO (Some c) (map fst rows) (o_meta (v_obj r1)) (o_tags (v_obj r1)) (o_mp (v_obj r1))))) as (Ho & _).
    rewrite Ho, replace_row_versions. cbn [add_refs with_reg s_objs]. rewrite H1. apply resolve_update_obj.
  - exact (transition_spares_object cfg s k v c im s' i r _ H Hr Hn Hq).
Qed.

Lemma transition_reads_same cfg s k v c im s' i r :
  step cfg s (OTransition k v c im) = (s', None) ->
  resolve (versions_of k (s_objs s)) v = Some i -> nth_error (versions_of k (s_objs s)) i = Some r ->
  (forall p, In p (o_parts (v_obj r)) -> (p_id p < s_nextp s)%N) ->
  (forall p q, In p (o_parts (v_obj r)) -> In q (o_parts (v_obj r)) -> p_id p = p_id q -> p_store p = p_store q) ->
  read s' k v = read s k v.
Proof.
  intros H Hr Hn L1 L2.
  destruct (transition_routes_bytes _ _ _ _ _ _ _ _ _ H Hr Hn L1 L2) as (r' & Hn' & Hb).
  assert (Hres : resolve (versions_of k (s_objs s')) v = Some i).
  { destruct (transition_unfold _ _ _ _ _ _ _ H) as (i0 & r1 & s1 & rows & shared & Hv & Hr1 & Hn1 & Hdm & Him & Hm & Hl & ->).
    destruct (move_parts_spec _ _ _ _ _ _ Hm) as (H1 & _).
    cbn [register add_refs with_reg s_objs].
    destruct (remove_rows_objs (o_parts (v_obj r1)) (replace_row_obj (add_refs s1 shared) k i0
               (mkO (Some c) (map fst rows) (o_meta (v_obj r1)) (o_tags (v_obj r1)) (o_mp (v_obj r1))))) as (Ho & _).
    rewrite Ho, replace_row_versions. cbn [add_refs with_reg s_objs]. rewrite H1, resolve_update_obj. exact Hr. }
  unfold read, find_row. rewrite Hres, Hr, Hn', Hn. apply read_parts_nth. exact Hb.
Qed.

(* ---------------- store kinds: the read mode is admissible for every store ---------------- *)
Lemma all_tx_free_nth kd : forallb negb kd = true -> forall i, nth i kd false = false.
Proof.
  induction kd as [|b kd IH]; intros H i; [destruct i; reflexivity|].
  cbn [forallb] in H. apply andb_true_iff in H as [Hb Hr]. destruct i; cbn [nth].
  - destruct b; [discriminate | reflexivity].
  - apply IH, Hr.
Qed.
Lemma read_mode_admissible kd ps : forallb (part_mode_ok kd (tx_free_streaming kd)) ps = true.
Proof.
  apply forallb_forall. intros p _. unfold part_mode_ok.
  destruct (tx_free_streaming kd) eqn:E; [|reflexivity]. cbn [negb orb].
  unfold needs_tx. unfold tx_free_streaming in E. rewrite (all_tx_free_nth kd E). reflexivity.
Qed.
Lemma read_parts_k_eq kd s ps : read_parts_k kd s ps = read_parts s ps.
Proof. unfold read_parts_k. rewrite read_mode_admissible. reflexivity. Qed.
Lemma read_k_eq kd s k v : read_k kd s k v = read s k v.
Proof. unfold read_k, read. destruct (find_row s k v); [apply read_parts_k_eq | reflexivity]. Qed.
(* a mode decision taken from ONE store (e.g. the default store) is not admissible in general *)
Lemma single_store_mode_inadmissible :
  exists kd p, part_mode_ok kd (negb (needs_tx kd 0)) p = false.
Proof. exists [false; true; false], (mkP 0 1 0). reflexivity. Qed.
