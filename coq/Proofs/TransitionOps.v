(* Proofs/TransitionOps.v — the transition step of Model/Transition.v: what is preserved, where the parts
   go, and why shared parts survive *)
From Verif Require Import Bytes Codec Transition TransitionProofs.
From Coq Require Import ZifyBool ZifyN ZifyNat.

Definition blob_of (s : state) (p : part) : option N := blob_get (p_store p, p_id p) (s_blobs s).

Lemma find_replace_same s k v o o' :
  find_version s k v = Some o -> find_version (replace_version s k v o') k v = Some o'.
Proof.
  unfold find_version, replace_version. cbn [with_objs s_objs]. rewrite versions_of_set_same.
  destruct v as [n|].
  - destruct (fst k =? 1)%N; [|discriminate]. intros H. apply find_ord_update_same. congruence.
  - destruct (versions_of k (s_objs s)) as [|[m o0] r]; [discriminate | reflexivity].
Qed.
Lemma replace_ords s k v o' :
  map fst (versions_of k (s_objs (replace_version s k v o'))) = map fst (versions_of k (s_objs s)).
Proof.
  unfold replace_version. cbn [with_objs s_objs]. rewrite versions_of_set_same.
  destruct v as [n|]; [apply update_ord_ords|].
  destruct (versions_of k (s_objs s)) as [|[m o0] r]; reflexivity.
Qed.
Lemma replace_other s k v o' k' v' : k' <> k ->
  find_version (replace_version s k v o') k' v' = find_version s k' v'.
Proof.
  intros Hn. unfold find_version, replace_version. cbn [with_objs s_objs].
  rewrite versions_of_set_other by exact Hn. reflexivity.
Qed.

Lemma register_objs s rows : s_objs (register s rows) = s_objs s /\ s_blobs (register s rows) = s_blobs s.
Proof. split; reflexivity. Qed.

(* the shape of a successful transition *)
Lemma transition_unfold cfg s k v c s' :
  step cfg s (OTransition k v c) = (s', None) ->
  exists o s1 rows shared,
    valid_class c = true /\ find_version s k v = Some o /\
    move_parts s (cfg_get c cfg) (o_parts o) = (s1, rows, shared, true) /\
    all_live s1 shared = true /\
    s' = register (remove_rows (replace_version (add_refs s1 shared) k v
                                  (mkO (Some c) (map fst rows) (o_meta o) (o_tags o))) (o_parts o)) rows.
Proof.
  cbn [step]. unfold do_transition.
  destruct (negb (known_version s k v)); [discriminate|].
  destruct (valid_class c) eqn:Hv; cbn [negb]; [|discriminate].
  destruct (find_version s k v) as [o|] eqn:Hf; [|discriminate].
  destruct (move_parts s (cfg_get c cfg) (o_parts o)) as [[[s1 rows] shared] ok] eqn:Hm.
  destruct ok; cbn [negb]; [|discriminate].
  destruct (all_live s1 shared) eqn:Hl; cbn [negb]; [|discriminate].
  intros E; inversion E. exists o, s1, rows, shared. auto.
Qed.

Lemma transition_preserves cfg s k v c s' :
  step cfg s (OTransition k v c) = (s', None) ->
  exists o o', find_version s k v = Some o /\ find_version s' k v = Some o' /\ valid_class c = true /\
    o_class o' = Some c /\ o_meta o' = o_meta o /\ o_tags o' = o_tags o /\
    map p_cont (o_parts o') = map p_cont (o_parts o) /\
    map fst (versions_of k (s_objs s')) = map fst (versions_of k (s_objs s)) /\
    (forall p, In p (o_parts o') -> p_store p = cfg_get c cfg) /\
    (forall k' v', k' <> k -> find_version s' k' v' = find_version s k' v').
Proof.
  intros H. destruct (transition_unfold _ _ _ _ _ _ H) as (o & s1 & rows & shared & Hv & Hf & Hm & Hl & ->).
  destruct (move_parts_spec _ _ _ _ _ _ Hm) as (H1 & H2 & H3 & H4 & H5 & H6 & H7 & H8 & H9 & H10 & H11).
  exists o, (mkO (Some c) (map fst rows) (o_meta o) (o_tags o)).
  set (o' := mkO _ _ _ _). set (s2 := add_refs s1 shared).
  assert (Hobjs : s_objs s2 = s_objs s) by (subst s2; cbn; exact H1).
  assert (Hf2 : find_version s2 k v = Some o) by (unfold find_version in *; rewrite Hobjs; exact Hf).
  assert (Hso : s_objs (register (remove_rows (replace_version s2 k v o') (o_parts o)) rows) = s_objs (replace_version s2 k v o')).
  { cbn [register add_refs with_reg s_objs]. apply remove_rows_objs. }
  split; [exact Hf|]. split.
  { unfold find_version at 1. rewrite Hso. apply (find_replace_same s2 k v o o' Hf2). }
  split; [exact Hv|]. split; [reflexivity|]. split; [reflexivity|]. split; [reflexivity|].
  split; [exact H6|]. split.
  { rewrite Hso, replace_ords, Hobjs. reflexivity. }
  split; [exact H7|].
  intros k' v' Hn. unfold find_version at 1. rewrite Hso.
  change (find_version (replace_version s2 k v o') k' v' = find_version s k' v').
  rewrite replace_other by exact Hn. unfold find_version. rewrite Hobjs. reflexivity.
Qed.

Lemma failed_step_unchanged cfg s o e : snd (step cfg s o) = Some e -> fst (step cfg s o) = s.
Proof.
  destruct o; cbn [step].
  - unfold do_put. destruct (write_fresh s (store_for cfg cls) cont) as [[s1 p] pre]. discriminate.
  - unfold do_append. destruct (find_version s k None) as [o|].
    + destruct (write_fresh s (store_for cfg (o_class o)) cont) as [[s1 p] pre].
      destruct (fst k =? 1)%N; [destruct (all_live s1 (map p_id (o_parts o)))|]; try discriminate; reflexivity.
    + destruct (write_fresh s (store_for cfg None) cont) as [[s1 p] pre]. discriminate.
  - unfold do_copy. destruct (negb (known_version s src sv)); [reflexivity|].
    destruct (find_version s src sv) as [o|]; [|reflexivity].
    destruct (copy_parts s (store_for cfg cls) (o_parts o)) as [[[s1 rows] shared] ok].
    destruct (negb ok); [reflexivity|]. destruct (negb (all_live s1 shared)); [reflexivity | discriminate].
  - unfold do_transition. destruct (negb (known_version s k v)); [reflexivity|].
    destruct (negb (valid_class cls)); [reflexivity|]. destruct (find_version s k v) as [o|]; [|reflexivity].
    destruct (move_parts s (cfg_get cls cfg) (o_parts o)) as [[[s1 rows] shared] ok].
    destruct (negb ok); [reflexivity|]. destruct (negb (all_live s1 shared)); [reflexivity | discriminate].
  - unfold do_delete. destruct v, (fst k =? 1)%N; try reflexivity.
    + destruct (find_ord n (versions_of k (s_objs s))); [discriminate | reflexivity].
    + destruct (versions_of k (s_objs s)) as [|[? ?] ?]; discriminate.
  - reflexivity.
  - reflexivity.
  - reflexivity.
  - reflexivity.
Qed.

(* ---------------- bytes ---------------- *)
Lemma rows_with_absent i ps : (forall p, In p ps -> p_id p <> i) -> rows_with i ps = 0%N.
Proof.
  induction ps as [|p ps IH]; intros H; [reflexivity|]. unfold rows_with in *. cbn [map]. rewrite occ_cons.
  assert (E : (p_id p =? i)%N = false) by (apply N.eqb_neq, H; left; reflexivity).
  rewrite E, IH; [reflexivity | intros q Hq; apply H; right; exact Hq].
Qed.
Lemma occ_filter i f ps : (forall q, In q ps -> p_id q = i -> f q = true) ->
  occ i (map p_id (filter f ps)) = occ i (map p_id ps).
Proof.
  induction ps as [|p ps IH]; intros H; [reflexivity|]. cbn [filter map].
  assert (IH' : occ i (map p_id (filter f ps)) = occ i (map p_id ps)) by (apply IH; intros q Hq; apply H; right; exact Hq).
  destruct (f p) eqn:Ef; cbn [map]; rewrite !occ_cons.
  - rewrite IH'. reflexivity.
  - destruct (p_id p =? i)%N eqn:E; [apply N.eqb_eq in E; rewrite (H p (or_introl eq_refl) E) in Ef; discriminate|].
    rewrite IH'. reflexivity.
Qed.
Lemma all_live_In s ids i : all_live s ids = true -> In i ids -> (1 <= reg_get i (s_reg s))%N.
Proof. unfold all_live. rewrite forallb_forall. intros H Hi. specialize (H _ Hi). lia. Qed.
Lemma occ_pos i ids : In i ids -> (1 <= occ i ids)%N.
Proof.
  induction ids as [|j ids IH]; [intros []|]. rewrite occ_cons. intros [->|H]; [rewrite N.eqb_refl; lia|].
  specialize (IH H). lia.
Qed.

(* a part whose id the transitioned object does not carry, or for which the registry counts more
   references than the transitioned object has rows, keeps its bytes *)
Lemma transition_spares cfg s k v c s' o st i :
  step cfg s (OTransition k v c) = (s', None) -> find_version s k v = Some o ->
  (i < s_nextp s)%N ->
  (rows_with i (o_parts o) = 0 \/ rows_with i (o_parts o) < reg_get i (s_reg s))%N ->
  blob_get (st, i) (s_blobs s') = blob_get (st, i) (s_blobs s).
Proof.
  intros H Hf Hi Hc. destruct (transition_unfold _ _ _ _ _ _ H) as (o0 & s1 & rows & shared & Hv & Hf0 & Hm & Hl & ->).
  rewrite Hf in Hf0; inversion Hf0; subst o0; clear Hf0.
  destruct (move_parts_spec _ _ _ _ _ _ Hm) as (H1 & H2 & H3 & H4 & H5 & H6 & H7 & H8 & H9 & H10 & H11).
  cbn [register add_refs with_reg s_blobs].
  set (s3 := replace_version _ _ _ _).
  destruct (remove_rows_keeps (o_parts o) s3 st i) as [Hb _].
  { subst s3. cbn [replace_version with_objs add_refs with_reg s_reg]. rewrite reg_get_add_refs, H2.
    destruct Hc as [Hc|Hc]; [left; exact Hc | right; lia]. }
  rewrite Hb. subst s3. cbn [replace_version with_objs add_refs with_reg s_blobs]. apply H9, Hi.
Qed.

(* after the transition every part row of the object is backed, in the store it names, by the bytes the
   corresponding old row had *)
Lemma transition_routes_bytes cfg s k v c s' o :
  step cfg s (OTransition k v c) = (s', None) -> find_version s k v = Some o ->
  (forall p, In p (o_parts o) -> (p_id p < s_nextp s)%N) ->
  (forall p q, In p (o_parts o) -> In q (o_parts o) -> p_id p = p_id q -> p_store p = p_store q) ->
  exists o', find_version s' k v = Some o' /\
    forall n, option_map (blob_of s') (nth_error (o_parts o') n) = option_map (blob_of s) (nth_error (o_parts o) n).
Proof.
  intros H Hf L1 L2.
  destruct (transition_preserves _ _ _ _ _ _ H) as (o0 & o' & Hf0 & Hf' & _).
  rewrite Hf in Hf0; inversion Hf0; subst o0; clear Hf0.
  destruct (transition_unfold _ _ _ _ _ _ H) as (o0 & s1 & rows & shared & Hv & Hf0 & Hm & Hl & Hs').
  rewrite Hf in Hf0; inversion Hf0; subst o0; clear Hf0.
  destruct (move_parts_spec _ _ _ _ _ _ Hm) as (H1 & H2 & H3 & H4 & H5 & H6 & H7 & H8 & H9 & H10 & H11).
  exists o'. split; [exact Hf'|].
  assert (Ho' : o_parts o' = map fst rows).
  { subst s'. revert Hf'. unfold find_version at 1. cbn [register add_refs with_reg s_objs].
    destruct (remove_rows_objs (o_parts o) (replace_version (add_refs s1 shared) k v (mkO (Some c) (map fst rows) (o_meta o) (o_tags o)))) as (Ho & _).
    rewrite Ho. intros Hx.
    assert (Hf2 : find_version (add_refs s1 shared) k v = Some o) by (unfold find_version in *; cbn [add_refs with_reg s_objs]; rewrite H1; exact Hf).
    pose proof (find_replace_same _ k v o (mkO (Some c) (map fst rows) (o_meta o) (o_tags o)) Hf2) as Hy.
    unfold find_version in Hy. rewrite Hy in Hx. inversion Hx. reflexivity. }
  intros n. rewrite Ho', nth_error_map.
  destruct (H10 n) as [Hn|(q & Hq & Hge)]; [|apply nth_error_In in Hq; specialize (L1 _ Hq); lia].
  destruct (nth_error rows n) as [pb|] eqn:En; cbn [option_map] in *; [|unfold blob_of; exact Hn].
  etransitivity; [|exact Hn]. f_equal. unfold blob_of.
  (* the blob of the new row survives the removal of the old rows *)
  subst s'. cbn [register add_refs with_reg s_blobs].
  set (s3 := replace_version _ _ _ _).
  destruct (remove_rows_keeps (o_parts o) s3 (p_store (fst pb)) (p_id (fst pb))) as [Hb _].
  { destruct (H11 pb (nth_error_In _ _ En)) as [(Hfl & Hin & Hst)|(Hfl & Hfresh)].
    - right. subst s3. cbn [replace_version with_objs add_refs with_reg s_reg]. rewrite reg_get_add_refs, H2.
      assert (Hocc : occ (p_id (fst pb)) shared = rows_with (p_id (fst pb)) (o_parts o)).
      { rewrite H8. unfold rows_with. apply occ_filter. intros q Hq Hid.
        apply N.eqb_eq. rewrite <- Hst. apply L2; auto. }
      assert (Hin' : In (p_id (fst pb)) shared).
      { rewrite H8. apply in_map. apply filter_In. split; [exact Hin | apply N.eqb_eq; exact Hst]. }
      pose proof (all_live_In _ _ _ Hl Hin') as Hlive. rewrite H2 in Hlive. lia.
    - left. apply rows_with_absent. intros p Hp Heq. specialize (L1 _ Hp). lia. }
  rewrite Hb. subst s3. reflexivity.
Qed.

Lemma read_parts_nth s s' ps ps' :
  (forall n, option_map (blob_of s') (nth_error ps' n) = option_map (blob_of s) (nth_error ps n)) ->
  read_parts s' ps' = read_parts s ps.
Proof.
  revert ps'; induction ps as [|p ps IH]; intros ps' H.
  - destruct ps' as [|p' ps']; [reflexivity|]. specialize (H 0%nat). discriminate.
  - destruct ps' as [|p' ps']; [specialize (H 0%nat); discriminate|].
    pose proof (H 0%nat) as H0. cbn [nth_error option_map] in H0. inversion H0 as [Hb].
    cbn [read_parts]. unfold blob_of in Hb. rewrite Hb.
    rewrite (IH ps'); [reflexivity|]. intros n. apply (H (S n)).
Qed.

Lemma read_parts_ext s s' ps :
  (forall q, In q ps -> blob_of s' q = blob_of s q) -> read_parts s' ps = read_parts s ps.
Proof.
  induction ps as [|p ps IH]; intros H; [reflexivity|]. cbn [read_parts].
  pose proof (H p (or_introl eq_refl)) as Hp. unfold blob_of in Hp. rewrite Hp.
  rewrite IH; [reflexivity | intros q Hq; apply H; right; exact Hq].
Qed.

(* any other object whose parts are not exclusively referenced by the transitioned object reads the same
   bytes after the transition *)
Lemma transition_spares_object cfg s k v c s' o qs :
  step cfg s (OTransition k v c) = (s', None) -> find_version s k v = Some o ->
  (forall q, In q qs -> (p_id q < s_nextp s)%N /\
                        (rows_with (p_id q) (o_parts o) = 0 \/ rows_with (p_id q) (o_parts o) < reg_get (p_id q) (s_reg s))%N) ->
  read_parts s' qs = read_parts s qs.
Proof.
  intros H Hf Hq. apply read_parts_ext. intros q Hin. destruct (Hq q Hin) as [H1 H2].
  unfold blob_of. eapply transition_spares; eauto.
Qed.

Lemma transition_reads_same cfg s k v c s' o :
  step cfg s (OTransition k v c) = (s', None) -> find_version s k v = Some o ->
  (forall p, In p (o_parts o) -> (p_id p < s_nextp s)%N) ->
  (forall p q, In p (o_parts o) -> In q (o_parts o) -> p_id p = p_id q -> p_store p = p_store q) ->
  read s' k v = read s k v.
Proof.
  intros H Hf L1 L2. destruct (transition_routes_bytes _ _ _ _ _ _ _ H Hf L1 L2) as (o' & Hf' & Hn).
  unfold read. rewrite Hf, Hf'. apply read_parts_nth. exact Hn.
Qed.
