(* Proofs/ListingProofs.v — C06: the S3 listing specification is a legitimate oracle (sound,
   complete, strictly ordered, paging partitions it); the faithful model equals it on the
   LIKE-safe, delimiter-free region and is refuted outside. *)
From Verif Require Import Bytes Codec Listing.
From Coq Require Import Sorting.Sorted ZifyBool ZifyN ZifyNat.

(* ------------------------------------------------------------ order on byte strings ----- *)
Lemma byteN_inj a b : byteN a = byteN b -> a = b.
Proof.
  unfold byteN. intros H. pose proof (Byte.of_to_N a) as Ha. pose proof (Byte.of_to_N b) as Hb.
  rewrite H in Ha. congruence.
Qed.

Lemma bcmp_refl a : bcmp a a = Eq.
Proof. induction a as [|x a IH]; cbn; [reflexivity|]. rewrite N.compare_refl. exact IH. Qed.

Lemma bcmp_eq a b : bcmp a b = Eq -> a = b.
Proof.
  revert b; induction a as [|x a IH]; intros [|y b]; cbn; try congruence.
  destruct (N.compare (byteN x) (byteN y)) eqn:E; try discriminate.
  intros H. apply N.compare_eq in E. apply byteN_inj in E. subst. f_equal. apply IH; exact H.
Qed.

Lemma bcmp_antisym a b : bcmp b a = CompOpp (bcmp a b).
Proof.
  revert b; induction a as [|x a IH]; intros [|y b]; cbn; try reflexivity.
  rewrite (N.compare_antisym (byteN x) (byteN y)).
  destruct (N.compare (byteN x) (byteN y)); cbn; auto.
Qed.

Lemma bcmp_lt_trans a b c : bcmp a b = Lt -> bcmp b c = Lt -> bcmp a c = Lt.
Proof.
  revert b c; induction a as [|x a IH]; intros [|y b] [|z c]; cbn; try congruence.
  destruct (N.compare (byteN x) (byteN y)) eqn:E1; try discriminate;
  destruct (N.compare (byteN y) (byteN z)) eqn:E2; try discriminate; intros H1 H2.
  - apply N.compare_eq in E1, E2. rewrite E1, E2, N.compare_refl. eapply IH; eauto.
  - apply N.compare_eq in E1. rewrite E1, E2. reflexivity.
  - apply N.compare_eq in E2. rewrite <- E2, E1. reflexivity.
  - rewrite N.compare_lt_iff in *. assert (byteN x < byteN z)%N as H by lia.
    apply N.compare_lt_iff in H. rewrite H. reflexivity.
Qed.

Lemma bcmp_gt_lt a b : bcmp a b = Gt -> bcmp b a = Lt.
Proof. intros H. rewrite bcmp_antisym, H. reflexivity. Qed.

Lemma bcmp_lt_irrefl a : bcmp a a <> Lt.
Proof. rewrite bcmp_refl. discriminate. Qed.

Lemma bltb_lt a b : bltb a b = true <-> bcmp a b = Lt.
Proof. unfold bltb. destruct (bcmp a b); split; congruence. Qed.

Lemma bltb_nil k : k <> [] -> bltb [] k = true.
Proof. destruct k; [congruence | reflexivity]. Qed.

(* ------------------------------------------------------------ lists sorted by a key ----- *)
Section SortedBy.
  Context {A : Type} (f : A -> bytes).

  Fixpoint sorted_by (l : list A) : Prop :=
    match l with
    | [] => True
    | x :: l' => (forall y, In y l' -> bcmp (f x) (f y) = Lt) /\ sorted_by l'
    end.

  Lemma sorted_by_filter p l : sorted_by l -> sorted_by (filter p l).
  Proof.
    induction l as [|x l IH]; cbn; [auto|]. intros [H1 H2]. destruct (p x); cbn; auto.
    split; auto. intros y Hy. apply filter_In in Hy. apply H1. tauto.
  Qed.

  Lemma sorted_by_app l1 l2 :
    sorted_by (l1 ++ l2) ->
    sorted_by l1 /\ sorted_by l2 /\ forall x y, In x l1 -> In y l2 -> bcmp (f x) (f y) = Lt.
  Proof.
    induction l1 as [|a l1 IH]; cbn.
    - intros H. repeat split; auto. intros x y [].
    - intros [H1 H2]. destruct (IH H2) as (S1 & S2 & S3). repeat split; auto.
      + intros y Hy. apply H1. apply in_or_app; auto.
      + intros x y [<-|Hx] Hy; [apply H1; apply in_or_app; auto | apply S3; auto].
  Qed.

  (* everything strictly after the element e of a sorted list is exactly its tail *)
  Lemma filter_after_elem l1 e l2 :
    sorted_by (l1 ++ e :: l2) ->
    filter (fun x => bltb (f e) (f x)) (l1 ++ e :: l2) = l2.
  Proof.
    intros H. apply sorted_by_app in H. destruct H as (S1 & S2 & S3). cbn in S2. destruct S2 as [S2 S2'].
    rewrite filter_app. cbn.
    assert (filter (fun x => bltb (f e) (f x)) l1 = []) as ->.
    { clear S1. induction l1 as [|a l1 IH]; cbn; [reflexivity|].
      assert (bltb (f e) (f a) = false) as ->.
      { destruct (bltb (f e) (f a)) eqn:E; [|reflexivity]. apply bltb_lt in E.
        pose proof (S3 a e (or_introl eq_refl) (or_introl eq_refl)) as H.
        exfalso. apply (bcmp_lt_irrefl (f e)). eapply bcmp_lt_trans; eauto. }
      apply IH. intros x y Hx Hy. apply S3; [right|]; auto. }
    assert (bltb (f e) (f e) = false) as ->.
    { destruct (bltb (f e) (f e)) eqn:E; [|reflexivity]. apply bltb_lt in E. exfalso; eapply bcmp_lt_irrefl; eauto. }
    cbn. clear S3 S2'. induction l2 as [|a l2 IH]; cbn; [reflexivity|].
    assert (bltb (f e) (f a) = true) as -> by (apply bltb_lt; apply S2; left; reflexivity).
    f_equal. apply IH. intros y Hy. apply S2. right; exact Hy.
  Qed.

  (* two strictly sorted lists with the same elements are equal *)
  Lemma sorted_by_unique (Hinj : forall x y, f x = f y -> x = y) l1 l2 :
    sorted_by l1 -> sorted_by l2 -> (forall x, In x l1 <-> In x l2) -> l1 = l2.
  Proof.
    revert l2; induction l1 as [|a l1 IH]; intros [|b l2] S1 S2 H.
    - reflexivity.
    - exfalso. apply (proj2 (H b)). left; reflexivity.
    - exfalso. apply (proj1 (H a)). left; reflexivity.
    - cbn in S1, S2. destruct S1 as [A1 S1], S2 as [B1 S2].
      assert (a = b) as ->.
      { destruct (proj1 (H a) (or_introl eq_refl)) as [E|Ia]; [congruence|].
        destruct (proj2 (H b) (or_introl eq_refl)) as [E|Ib]; [congruence|].
        exfalso. apply (bcmp_lt_irrefl (f a)). eapply bcmp_lt_trans; [apply A1; exact Ib | apply B1; exact Ia]. }
      f_equal. apply IH; auto. intros x. split; intros Hx.
      + destruct (proj1 (H x) (or_intror Hx)) as [E|I]; [|exact I]. subst x.
        exfalso. apply (bcmp_lt_irrefl (f b)). apply A1; exact Hx.
      + destruct (proj2 (H x) (or_intror Hx)) as [E|I]; [|exact I]. subst x.
        exfalso. apply (bcmp_lt_irrefl (f b)). apply B1; exact Hx.
  Qed.

  Lemma sorted_by_StronglySorted l :
    sorted_by l <-> StronglySorted (fun x y => bcmp x y = Lt) (map f l).
  Proof.
    induction l as [|x l IH]; cbn; [split; [constructor | auto]|]. split.
    - intros [H1 H2]. constructor; [apply IH; exact H2|]. apply Forall_forall. intros y Hy.
      apply in_map_iff in Hy. destruct Hy as (z & <- & Hz). apply H1; exact Hz.
    - intros H. inversion H as [|? ? Hs Hf]; subst. split; [|apply IH; exact Hs].
      intros y Hy. rewrite Forall_forall in Hf. apply Hf. apply in_map; exact Hy.
  Qed.
End SortedBy.

(* ------------------------------------------------------------ the two insertion sorts --- *)
Lemma insert_entry_In e l x : In x (insert_entry e l) -> x = e \/ In x l.
Proof.
  induction l as [|a l IH]; cbn; [intros [<-|[]]; auto|].
  destruct (bcmp (name e) (name a)); cbn; [auto | intros [<-|H]; auto | intros [<-|H]; auto].
  destruct (IH H); auto.
Qed.
Lemma insert_entry_keeps e l x : In x l -> In x (insert_entry e l).
Proof.
  induction l as [|a l IH]; cbn; [intros []|].
  destruct (bcmp (name e) (name a)); cbn; intros [<-|H]; auto.
Qed.
Lemma insert_entry_name e l : In (name e) (map name (insert_entry e l)).
Proof.
  induction l as [|a l IH]; cbn; [auto|].
  destruct (bcmp (name e) (name a)) eqn:E; cbn; auto.
  apply bcmp_eq in E. auto.
Qed.
Lemma insert_entry_sorted e l : sorted_by name l -> sorted_by name (insert_entry e l).
Proof.
  induction l as [|a l IH]; cbn; [intros _; split; [intros y []|exact I]|].
  intros [H1 H2]. destruct (bcmp (name e) (name a)) eqn:E; cbn.
  - split; assumption.
  - split; [|split; assumption]. intros y [<-|Hy]; [exact E|]. eapply bcmp_lt_trans; [exact E | apply H1; exact Hy].
  - split; [|apply IH; exact H2]. intros y Hy. apply insert_entry_In in Hy. destruct Hy as [->|Hy].
    + apply bcmp_gt_lt; exact E.
    + apply H1; exact Hy.
Qed.

Lemma sort_entries_sorted l : sorted_by name (sort_entries l).
Proof. induction l as [|a l IH]; cbn; [exact I | apply insert_entry_sorted; exact IH]. Qed.
Lemma sort_entries_In l x : In x (sort_entries l) -> In x l.
Proof.
  induction l as [|a l IH]; cbn; [auto|]. intros H. apply insert_entry_In in H. destruct H; auto.
Qed.
Lemma sort_entries_names l x : In x l -> In (name x) (map name (sort_entries l)).
Proof.
  induction l as [|a l IH]; cbn; [intros []|]. intros [<-|H]; [apply insert_entry_name|].
  specialize (IH H). apply in_map_iff in IH. destruct IH as (y & E & Hy). rewrite <- E.
  apply in_map. apply insert_entry_keeps; exact Hy.
Qed.

Lemma insert_key_In k l x : In x (insert_key k l) <-> x = k \/ In x l.
Proof.
  induction l as [|a l IH]; cbn; [split; [intros [<-|[]]; auto | intros [->|[]]; auto]|].
  destruct (bcmp k a) eqn:E; cbn.
  - apply bcmp_eq in E. subst. split; [auto | intros [->|H]; auto].
  - split; [intros [<-|H]; auto | intros [->|H]; auto].
  - rewrite IH. split; [intros [<-|[->|H]]; auto | intros [->|[<-|H]]; auto].
Qed.
Lemma insert_key_sorted k l : sorted_by id l -> sorted_by id (insert_key k l).
Proof.
  induction l as [|a l IH]; cbn; [intros _; split; [intros y []|exact I]|].
  intros [H1 H2]. destruct (bcmp k a) eqn:E; cbn.
  - split; assumption.
  - split; [|split; assumption]. intros y [<-|Hy]; [exact E|]. eapply bcmp_lt_trans; [exact E | apply H1; exact Hy].
  - split; [|apply IH; exact H2]. intros y Hy. apply insert_key_In in Hy. destruct Hy as [->|Hy].
    + apply bcmp_gt_lt; exact E.
    + apply H1; exact Hy.
Qed.
Lemma sort_keys_sorted l : sorted_by id (sort_keys l).
Proof. induction l as [|a l IH]; cbn; [exact I | apply insert_key_sorted; exact IH]. Qed.
Lemma sort_keys_In l x : In x (sort_keys l) <-> In x l.
Proof. induction l as [|a l IH]; cbn; [tauto|]. rewrite insert_key_In, IH. split; intros [H|H]; auto. Qed.

(* ------------------------------------------------------------ find_sub / classify -------- *)
Lemma is_prefix_app p r : is_prefix p (p ++ r) = true.
Proof. apply is_prefix_spec. exists r; reflexivity. Qed.

Lemma find_sub_prefix d s : is_prefix d s = true -> find_sub d s = Some [].
Proof.
  destruct s as [|a s]; intros H.
  - destruct d; [reflexivity | discriminate].
  - cbn [find_sub]. rewrite H. reflexivity.
Qed.

Lemma find_sub_app d x r : find_sub d (x ++ d ++ r) <> None.
Proof.
  induction x as [|a x IH].
  - cbn [app]. rewrite find_sub_prefix; [discriminate | apply is_prefix_app].
  - cbn [app find_sub]. destruct (is_prefix d (a :: x ++ d ++ r)); [discriminate|].
    destruct (find_sub d (x ++ d ++ r)); [discriminate | contradiction].
Qed.

(* the bytes before the first occurrence: s = x ++ d ++ rest *)
Lemma find_sub_Some d s x : find_sub d s = Some x -> exists r, s = x ++ d ++ r.
Proof.
  revert x; induction s as [|a s IH]; intros x; cbn.
  - destruct d; cbn; [intros H; inversion H; exists []; reflexivity | discriminate].
  - destruct (is_prefix d (a :: s)) eqn:E.
    + intros H; inversion H; subst. apply is_prefix_spec in E. exact E.
    + destruct (find_sub d s) as [y|] eqn:F; cbn; [|discriminate].
      intros H; inversion H; subst. destruct (IH y eq_refl) as [r ->]. exists r; reflexivity.
Qed.

Lemma skipn_prefix p k : is_prefix p k = true -> k = p ++ skipn (length p) k.
Proof.
  intros H. apply is_prefix_spec in H. destruct H as [r ->].
  rewrite skipn_app, skipn_all, Nat.sub_diag. reflexivity.
Qed.

(* an entry's kind is determined by its name: a listing never contains a key and a common
   prefix of the same name *)
Lemma classify_name_inj prefix delim k1 k2 :
  is_prefix prefix k1 = true -> is_prefix prefix k2 = true ->
  name (classify prefix delim k1) = name (classify prefix delim k2) ->
  classify prefix delim k1 = classify prefix delim k2.
Proof.
  intros P1 P2. unfold classify. destruct delim as [|c delim]; cbn [name]; [congruence|].
  set (d := c :: delim).
  assert (forall k x, is_prefix prefix k = true -> k = prefix ++ x ++ d ->
                      find_sub d (skipn (length prefix) k) <> None) as HK.
  { intros k x _ ->. rewrite skipn_app, skipn_all, Nat.sub_diag. cbn [skipn app].
    replace (x ++ d) with (x ++ d ++ []) by (rewrite app_nil_r; reflexivity). apply find_sub_app. }
  destruct (find_sub d (skipn (length prefix) k1)) as [x1|] eqn:F1;
  destruct (find_sub d (skipn (length prefix) k2)) as [x2|] eqn:F2; cbn [name]; intros E.
  - rewrite E; reflexivity.
  - exfalso. apply (HK k2 x1 P2); [symmetry; exact E | exact F2].
  - exfalso. apply (HK k1 x2 P1); [exact E | exact F1].
  - rewrite E; reflexivity.
Qed.

(* ------------------------------------------------------------ the specification ---------- *)
Lemma spec_entries_sound keys prefix delim e :
  In e (spec_entries keys prefix delim) ->
  exists k, In k keys /\ is_prefix prefix k = true /\ classify prefix delim k = e.
Proof.
  unfold spec_entries. intros H. apply sort_entries_In in H. apply in_map_iff in H.
  destruct H as (k & E & Hk). apply filter_In in Hk. exists k. tauto.
Qed.

Lemma spec_entries_complete keys prefix delim k :
  In k keys -> is_prefix prefix k = true -> In (classify prefix delim k) (spec_entries keys prefix delim).
Proof.
  intros Hk Hp.
  assert (In (classify prefix delim k) (map (classify prefix delim) (filter (is_prefix prefix) keys))) as H.
  { apply in_map. apply filter_In. auto. }
  apply sort_entries_names in H. apply in_map_iff in H. destruct H as (e & En & He).
  fold (spec_entries keys prefix delim) in He.
  destruct (spec_entries_sound _ _ _ _ He) as (k' & Hk' & Hp' & <-).
  rewrite <- (classify_name_inj prefix delim k' k Hp' Hp En). exact He.
Qed.

Lemma spec_entries_sorted keys prefix delim : sorted_by name (spec_entries keys prefix delim).
Proof. apply sort_entries_sorted. Qed.

Lemma after_marker_sorted m l : sorted_by name l -> sorted_by name (after_marker m l).
Proof. destruct m; cbn; [apply sorted_by_filter | auto]. Qed.

Lemma last_opt_app {A} (l : list A) e : last_opt l = Some e -> exists l1, l = l1 ++ [e].
Proof.
  induction l as [|a l IH]; cbn; [discriminate|]. destruct l as [|b l].
  - intros H; inversion H; subst. exists []; reflexivity.
  - intros H. destruct (IH H) as [l1 E]. exists (a :: l1). cbn. rewrite <- E. reflexivity.
Qed.
Lemma last_opt_None {A} (l : list A) : last_opt l = None -> l = [].
Proof. induction l as [|a l IH]; cbn; [reflexivity|]. destruct l; [discriminate | intros H; specialize (IH H); discriminate]. Qed.

(* paging over any list sorted by name: the entries after the last entry of a full page are the rest *)
Lemma after_page {A} (f : A -> bytes) (E : list A) (p : A -> bool) (max : nat) e :
  sorted_by f E ->
  (forall x, In x E -> bltb (f e) (f x) = true -> p x = true) ->
  last_opt (firstn max (filter p E)) = Some e ->
  filter (fun x => bltb (f e) (f x)) E = skipn max (filter p E).
Proof.
  intros HS Himp HL.
  assert (filter (fun x => bltb (f e) (f x)) E = filter (fun x => bltb (f e) (f x)) (filter p E)) as ->.
  { clear HS HL. induction E as [|a E IH]; cbn; [reflexivity|].
    destruct (bltb (f e) (f a)) eqn:Hba.
    - rewrite (Himp a (or_introl eq_refl) Hba). cbn. rewrite Hba. f_equal. apply IH. intros x Hx; apply Himp; right; exact Hx.
    - destruct (p a); cbn; [rewrite Hba|]; apply IH; intros x Hx; apply Himp; right; exact Hx. }
  destruct (last_opt_app _ _ HL) as [l1 E1].
  pose proof (firstn_skipn max (filter p E)) as FS. rewrite E1 in FS.
  rewrite <- FS at 1. rewrite <- app_assoc. cbn [app].
  apply filter_after_elem. rewrite app_assoc_reverse in FS. cbn [app] in FS. rewrite FS.
  apply sorted_by_filter; exact HS.
Qed.

Lemma spec_follow_all keys prefix delim max :
  1 <= max -> forall fuel marker,
  length (after_marker marker (spec_entries keys prefix delim)) < fuel ->
  spec_follow fuel keys prefix delim marker max = after_marker marker (spec_entries keys prefix delim).
Proof.
  intros Hmax. induction fuel as [|fuel IH]; intros marker Hlen; [lia|].
  cbn [spec_follow]. unfold spec_page.
  set (E := spec_entries keys prefix delim) in *. set (A := after_marker marker E) in *.
  destruct (max <? length A) eqn:T.
  - apply Nat.ltb_lt in T.
    destruct (last_opt (firstn max A)) as [e|] eqn:L.
    + assert (after_marker (Some (name e)) E = skipn max A) as HA.
      { unfold A, after_marker. destruct marker as [m|].
        - apply (after_page name E (fun x => bltb m (name x)) max e); [apply spec_entries_sorted | | exact L].
          intros x Hx Hb. apply bltb_lt. apply bltb_lt in Hb. eapply bcmp_lt_trans; [|exact Hb].
          destruct (last_opt_app _ _ L) as [l1 E1].
          assert (In e (firstn max A)) as He by (rewrite E1; apply in_or_app; right; left; reflexivity).
          assert (In e A) as He' by (rewrite <- (firstn_skipn max A); apply in_or_app; left; exact He).
          clear He; rename He' into He. unfold A, after_marker in He. apply filter_In in He.
          apply bltb_lt. tauto.
        - assert (filter (fun _ : entry => true) E = E) as FT by (clear; induction E as [|a E IH]; cbn; congruence).
          unfold A in L. cbn [after_marker] in L. rewrite <- FT in L.
          rewrite (after_page name E (fun _ => true) max e (spec_entries_sorted _ _ _) (fun _ _ _ => eq_refl) L).
          rewrite FT. reflexivity. }
      rewrite IH.
      * fold E. rewrite HA. apply firstn_skipn.
      * fold E. rewrite HA. rewrite skipn_length. lia.
    + apply last_opt_None in L. assert (length (firstn max A) = 0) as H0 by (rewrite L; reflexivity).
      rewrite firstn_length in H0. lia.
  - apply Nat.ltb_ge in T. apply firstn_all2. exact T.
Qed.

(* ============================================================ the faithful model ========= *)
(* ---- LIKE coincides with the byte-exact prefix test on the safe region ---- *)
Lemma like_pct_nil s : like [pct] s = true.
Proof.
  cbn [like]. rewrite beqb_refl. induction s as [|x s IH]; [reflexivity|].
  cbn [like is_nil andb orb]. rewrite andb_false_r. cbn [orb]. exact IH.
Qed.

Lemma like_cons_lit c p s :
  beqb c pct = false -> beqb c usc = false ->
  like (c :: p) s = match s with [] => false | x :: s' => eq_nocase c x && like p s' end.
Proof. intros H1 H2. cbn [like]. rewrite H1, H2. reflexivity. Qed.

Lemma like_prefix_exact p k :
  no_like_special p = true -> case_safe p k = true -> like_prefix p k = is_prefix p k.
Proof.
  unfold like_prefix. revert k; induction p as [|c p IH]; intros k HS HC.
  - cbn [app is_prefix]. apply like_pct_nil.
  - cbn [no_like_special forallb] in HS. apply andb_true_iff in HS. destruct HS as [Hc HS].
    apply andb_true_iff in Hc. destruct Hc as [Hp Hu]. apply negb_true_iff in Hp, Hu.
    cbn [app]. rewrite like_cons_lit by assumption. destruct k as [|x k]; [reflexivity|].
    cbn [case_safe] in HC. apply andb_true_iff in HC. destruct HC as [H1 HC].
    cbn [is_prefix]. rewrite (IH k HS HC). f_equal.
    destruct (beqb c x) eqn:E.
    + apply beqb_eq in E. subst. unfold eq_nocase. apply beqb_refl.
    + rewrite orb_false_r in H1. apply negb_true_iff in H1. exact H1.
Qed.

(* ---- keys after a marker, as a sorted list ---- *)
Definition afterk (marker : option bytes) (l : list bytes) : list bytes :=
  match marker with None => l | Some m => filter (fun k => bltb m k) l end.

Lemma afterk_sorted m l : sorted_by id l -> sorted_by id (afterk m l).
Proof. destruct m; cbn; [apply sorted_by_filter | auto]. Qed.

Definition matching (keys : list bytes) (prefix : bytes) : list bytes :=
  sort_keys (filter (is_prefix prefix) keys).

Lemma sql_rows_safe keys prefix marker :
  ~ In [] keys -> no_like_special prefix = true ->
  (forall k, In k keys -> case_safe prefix k = true) ->
  sql_rows keys prefix (opt_default marker) = afterk marker (matching keys prefix).
Proof.
  intros Hne HS HC. apply (sorted_by_unique id (fun x y H => H)).
  - apply sort_keys_sorted.
  - apply afterk_sorted. apply sort_keys_sorted.
  - intros x. unfold sql_rows, matching. rewrite sort_keys_In, filter_In.
    destruct marker as [m|]; cbn [afterk opt_default].
    + rewrite filter_In, sort_keys_In, filter_In. split.
      * intros [Hk Hb]. apply andb_true_iff in Hb. rewrite (like_prefix_exact _ _ HS (HC x Hk)) in Hb. tauto.
      * intros [[Hk Hp] Hb]. split; [exact Hk|]. rewrite (like_prefix_exact _ _ HS (HC x Hk)), Hp, Hb. reflexivity.
    + rewrite sort_keys_In, filter_In. split.
      * intros [Hk Hb]. apply andb_true_iff in Hb. rewrite (like_prefix_exact _ _ HS (HC x Hk)) in Hb. tauto.
      * intros [Hk Hp]. split; [exact Hk|]. rewrite (like_prefix_exact _ _ HS (HC x Hk)), Hp.
        cbn [andb]. apply bltb_nil. intros ->. contradiction.
Qed.

(* ---- the HTTP loop without a delimiter is a single iteration ---- *)
Lemma feed_short max c objs :
  length c + length objs < max -> feed max c objs = (c ++ objs, None).
Proof.
  revert c; induction objs as [|k rest IH]; intros c H; cbn [feed].
  - rewrite app_nil_r. reflexivity.
  - cbn [length] in H. assert (max <=? length (c ++ [k]) = false) as ->.
    { apply Nat.leb_gt. rewrite app_length. cbn. lia. }
    rewrite IH; [|rewrite app_length; cbn; lia]. rewrite <- app_assoc. reflexivity.
Qed.

Lemma feed_exact max c objs e :
  length c + length objs = max -> last_opt objs = Some e ->
  feed max c objs = (c ++ objs, Some (e, [])).
Proof.
  revert c; induction objs as [|k rest IH]; intros c H L; [discriminate|]. cbn [feed].
  destruct rest as [|k2 rest].
  - cbn in L. injection L as L. subst k. assert (max <=? length (c ++ [e]) = true) as ->.
    { apply Nat.leb_le. rewrite app_length. cbn in *. lia. }
    reflexivity.
  - assert (max <=? length (c ++ [k]) = false) as ->.
    { apply Nat.leb_gt. rewrite app_length. cbn in *. lia. }
    rewrite (IH (c ++ [k])); [| rewrite app_length; cbn in *; lia | exact L].
    rewrite <- app_assoc. reflexivity.
Qed.

Lemma last_opt_firstn_some {A} (l : list A) max :
  1 <= max -> l <> [] -> exists e, last_opt (firstn max l) = Some e.
Proof.
  intros Hm Hl. destruct (last_opt (firstn max l)) as [e|] eqn:L; [eauto|].
  apply last_opt_None in L. destruct l; [congruence|]. destruct max; [lia | discriminate].
Qed.

Lemma http_list_nodelim keys prefix marker max :
  1 <= max ->
  let rows := sql_rows keys prefix (opt_default marker) in
  http_list keys prefix [] marker max =
  Some {| h_objs := firstn max rows; h_cps := []; h_trunc := max <? length rows;
          h_next := if max <? length rows then last_opt (firstn max rows) else None |}.
Proof.
  intros Hm rows. unfold http_list, loop_fuel.
  replace (eff_max max) with max by (destruct max; [lia | reflexivity]).
  replace (2 * length keys + 5) with (S (2 * length keys + 4)) by lia.
  cbn [http_loop]. unfold storage_list. fold rows. cbn [s_objs s_cps s_trunc].
  destruct (Nat.lt_ge_cases (length rows) max) as [Hlt|Hge].
  - rewrite (firstn_all2 rows) by lia. rewrite feed_short by (cbn; lia).
    assert (max <? length rows = false) as -> by (apply Nat.ltb_ge; lia). reflexivity.
  - assert (rows <> []) as Hne by (intros E; rewrite E in Hge; cbn in Hge; lia).
    destruct (last_opt_firstn_some rows max Hm Hne) as [e L].
    rewrite (feed_exact max [] (firstn max rows) e); [| rewrite firstn_length; cbn; lia | exact L].
    cbn [app is_nil negb orb]. rewrite L. destruct (max <? length rows); reflexivity.
Qed.

(* ---- following the model's next markers without a delimiter ---- *)
Lemma client_follow_nodelim keys prefix max :
  1 <= max -> ~ In [] keys -> no_like_special prefix = true ->
  (forall k, In k keys -> case_safe prefix k = true) ->
  forall fuel marker,
  length (afterk marker (matching keys prefix)) < fuel ->
  all_objs (client_follow fuel keys prefix [] marker max) = afterk marker (matching keys prefix) /\
  all_cps (client_follow fuel keys prefix [] marker max) = [].
Proof.
  intros Hm Hne HS HC. induction fuel as [|fuel IH]; intros marker Hlen; [lia|].
  cbn [client_follow]. rewrite http_list_nodelim by exact Hm. cbn zeta.
  rewrite (sql_rows_safe keys prefix marker Hne HS HC).
  set (K := matching keys prefix) in *. set (A := afterk marker K) in *.
  cbn [h_trunc h_next]. destruct (max <? length A) eqn:T.
  - apply Nat.ltb_lt in T.
    assert (A <> []) as HA by (intros E; rewrite E in T; cbn in T; lia).
    destruct (last_opt_firstn_some A max Hm HA) as [e L]. rewrite L.
    assert (afterk (Some e) K = skipn max A) as HK.
    { unfold A, afterk. destruct marker as [m|].
      - apply (after_page id K (fun x => bltb m x) max e); [apply sort_keys_sorted | | exact L].
        intros x Hx Hb. apply bltb_lt. apply bltb_lt in Hb. eapply bcmp_lt_trans; [|exact Hb].
        destruct (last_opt_app _ _ L) as [l1 E1].
        assert (In e (firstn max A)) as He by (rewrite E1; apply in_or_app; right; left; reflexivity).
        assert (In e A) as He' by (rewrite <- (firstn_skipn max A); apply in_or_app; left; exact He).
        unfold A, afterk in He'. apply filter_In in He'. apply bltb_lt. tauto.
      - assert (filter (fun _ : bytes => true) K = K) as FT by (clear; induction K as [|a K IH]; cbn; congruence).
        unfold A in L. cbn [afterk] in L. rewrite <- FT in L.
        pose proof (after_page id K (fun _ => true) max e (sort_keys_sorted _) (fun _ _ _ => eq_refl) L) as HP.
        unfold id in HP. rewrite FT in HP. exact HP. }
    destruct (IH (Some e)) as [I1 I2]; [rewrite HK, skipn_length; lia|].
    unfold all_objs, all_cps in *. cbn [flat_map h_objs h_cps]. rewrite I1, I2, HK.
    split; [apply firstn_skipn | reflexivity].
  - apply Nat.ltb_ge in T. unfold all_objs, all_cps. cbn [flat_map h_objs h_cps].
    rewrite app_nil_r, firstn_all2 by exact T. auto.
Qed.

(* ---- the specification without a delimiter, in terms of keys ---- *)
Lemma sorted_by_map {A} (f : A -> bytes) l : sorted_by f l -> sorted_by id (map f l).
Proof.
  induction l as [|x l IH]; cbn; [auto|]. intros [H1 H2]. split; [|auto].
  intros y Hy. apply in_map_iff in Hy. destruct Hy as (z & <- & Hz). apply H1; exact Hz.
Qed.

Lemma spec_entries_nodelim keys prefix :
  spec_entries keys prefix [] = map EKey (matching keys prefix).
Proof.
  set (E := spec_entries keys prefix []).
  assert (forall e, In e E -> e = EKey (name e)) as Hk.
  { intros e He. destruct (spec_entries_sound _ _ _ _ He) as (k & _ & _ & <-). reflexivity. }
  assert (map name E = matching keys prefix) as HN.
  { apply (sorted_by_unique id (fun x y H => H)).
    - apply sorted_by_map. apply spec_entries_sorted.
    - apply sort_keys_sorted.
    - intros x. unfold matching. rewrite sort_keys_In, filter_In, in_map_iff. split.
      + intros (e & <- & He). destruct (spec_entries_sound _ _ _ _ He) as (k & Hk1 & Hk2 & <-). cbn. auto.
      + intros [H1 H2]. exists (EKey x). split; [reflexivity|].
        apply (spec_entries_complete keys prefix [] x H1 H2). }
  rewrite <- HN. rewrite map_map. clear HN. induction E as [|e E IH]; cbn; [reflexivity|].
  rewrite <- (Hk e (or_introl eq_refl)). f_equal. apply IH. intros x Hx; apply Hk; right; exact Hx.
Qed.

Lemma after_marker_map_EKey m l : after_marker m (map EKey l) = map EKey (afterk m l).
Proof.
  destruct m as [m|]; [|reflexivity]. cbn [after_marker afterk].
  induction l as [|k l IH]; [reflexivity|]. cbn [map filter name].
  destruct (bltb m k); cbn [map]; rewrite IH; reflexivity.
Qed.
Lemma entry_keys_map_EKey l : entry_keys (map EKey l) = l.
Proof.
  induction l as [|k l IH]; [reflexivity|]. unfold entry_keys in *.
  cbn [map flat_map app]. rewrite IH. reflexivity.
Qed.
Lemma entry_cps_map_EKey l : entry_cps (map EKey l) = [].
Proof.
  induction l as [|k l IH]; [reflexivity|]. unfold entry_cps in *.
  cbn [map flat_map app]. exact IH.
Qed.

Lemma filter_len {A} (p : A -> bool) l : length (filter p l) <= length l.
Proof. induction l as [|a l IH]; cbn; [lia|]. destruct (p a); cbn; lia. Qed.

Lemma matching_length keys prefix : length (matching keys prefix) <= length keys.
Proof.
  unfold matching. assert (forall l, length (sort_keys l) <= length l) as H.
  { induction l as [|a l IH]; [cbn; lia|].
    change (sort_keys (a :: l)) with (insert_key a (sort_keys l)). cbn [length].
    assert (forall k l, length (insert_key k l) <= S (length l)) as HI.
    { intros k l0; induction l0 as [|b l0 IH0]; [cbn; lia|]. cbn [insert_key].
      destruct (bcmp k b); cbn [length] in *; lia. }
    specialize (HI a (sort_keys l)). lia. }
  etransitivity; [apply H|]. apply filter_len.
Qed.
Lemma afterk_length m l : length (afterk m l) <= length l.
Proof. destruct m; cbn; [apply filter_len | lia]. Qed.

(* the partial theorem, in the shape used by Properties/C06.v *)
Lemma listing_partial keys prefix marker max :
  1 <= max -> ~ In [] keys -> no_like_special prefix = true ->
  (forall k, In k keys -> case_safe prefix k = true) ->
  let pages := client_follow (page_cap keys) keys prefix [] marker max in
  let expected := after_marker marker (spec_entries keys prefix []) in
  all_objs pages = entry_keys expected /\ all_cps pages = entry_cps expected.
Proof.
  intros Hm Hne HS HC. cbn zeta.
  rewrite spec_entries_nodelim, after_marker_map_EKey, entry_keys_map_EKey, entry_cps_map_EKey.
  apply client_follow_nodelim; auto. unfold page_cap.
  pose proof (afterk_length marker (matching keys prefix)). pose proof (matching_length keys prefix). lia.
Qed.

Lemma page_partial keys prefix marker max :
  1 <= max -> ~ In [] keys -> no_like_special prefix = true ->
  (forall k, In k keys -> case_safe prefix k = true) ->
  exists r, http_list keys prefix [] marker max = Some r /\
    map EKey (h_objs r) = fst (spec_page keys prefix [] marker max) /\ h_cps r = [] /\
    h_trunc r = snd (spec_page keys prefix [] marker max).
Proof.
  intros Hm Hne HS HC. rewrite http_list_nodelim by exact Hm. cbn zeta.
  rewrite (sql_rows_safe keys prefix marker Hne HS HC). eexists; split; [reflexivity|].
  unfold spec_page. rewrite spec_entries_nodelim, after_marker_map_EKey. cbn [fst snd h_objs h_cps h_trunc].
  rewrite firstn_map, map_length. auto.
Qed.

(* ---- remaining facts used by Properties/C06.v ---- *)
Lemma sort_entries_length l : length (sort_entries l) <= length l.
Proof.
  induction l as [|a l IH]; [cbn; lia|].
  change (sort_entries (a :: l)) with (insert_entry a (sort_entries l)). cbn [length].
  assert (forall e l0, length (insert_entry e l0) <= S (length l0)) as HI.
  { intros e l0; induction l0 as [|b l0 IH0]; [cbn; lia|]. cbn [insert_entry].
    destruct (bcmp (name e) (name b)); cbn [length] in *; lia. }
  specialize (HI a (sort_entries l)). lia.
Qed.

Lemma spec_entries_length keys prefix delim : length (spec_entries keys prefix delim) <= length keys.
Proof.
  unfold spec_entries. etransitivity; [apply sort_entries_length|]. rewrite map_length. apply filter_len.
Qed.

Lemma after_marker_length m l : length (after_marker m l) <= length l.
Proof. destruct m; cbn; [apply filter_len | lia]. Qed.

Lemma paging_partition keys prefix delim marker max :
  1 <= max ->
  spec_follow (S (length keys)) keys prefix delim marker max =
  after_marker marker (spec_entries keys prefix delim).
Proof.
  intros Hm. apply spec_follow_all; [exact Hm|].
  pose proof (after_marker_length marker (spec_entries keys prefix delim)).
  pose proof (spec_entries_length keys prefix delim). lia.
Qed.

Lemma common_prefix_iff_delimiter prefix delim k :
  (exists p, classify prefix delim k = ECP p) <->
  delim <> [] /\ exists x r, skipn (length prefix) k = x ++ delim ++ r.
Proof.
  unfold classify. destruct delim as [|c d].
  - split; [intros [p H]; discriminate | intros [H _]; congruence].
  - set (dl := c :: d). split.
    + intros [p H]. split; [discriminate|].
      destruct (find_sub dl (skipn (length prefix) k)) as [x|] eqn:F; [|discriminate].
      destruct (find_sub_Some _ _ _ F) as [r Hr]. eauto.
    + intros [_ (x & r & E)]. rewrite E.
      destruct (find_sub dl (x ++ dl ++ r)) as [y|] eqn:F; [eauto|].
      exfalso. apply (find_sub_app dl x r). exact F.
Qed.

Lemma common_prefix_shape prefix delim k p :
  is_prefix prefix k = true -> classify prefix delim k = ECP p ->
  exists x r, k = prefix ++ x ++ delim ++ r /\ p = prefix ++ x ++ delim /\ find_sub delim (x ++ delim ++ r) = Some x.
Proof.
  intros Hp. unfold classify. destruct delim as [|c d]; [discriminate|]. set (dl := c :: d).
  destruct (find_sub dl (skipn (length prefix) k)) as [x|] eqn:F; [|discriminate].
  intros H; inversion H; subst. destruct (find_sub_Some _ _ _ F) as [r Hr].
  exists x, r. split; [|split; [reflexivity|]].
  - rewrite (skipn_prefix prefix k Hp) at 1. rewrite Hr. reflexivity.
  - rewrite <- Hr. exact F.
Qed.

(* ---- ListParts ---- *)
Lemma insert_N_In n l x : In x (insert_N n l) -> x = n \/ In x l.
Proof.
  induction l as [|a l IH]; cbn; [intros [<-|[]]; auto|].
  destruct (n <? a)%N; cbn; [intros [<-|H]; auto|].
  destruct (n =? a)%N; cbn; [auto|]. intros [<-|H]; auto. destruct (IH H); auto.
Qed.
Lemma sort_N_In l x : In x (sort_N l) -> In x l.
Proof. induction l as [|a l IH]; cbn; [auto|]. intros H. apply insert_N_In in H. destruct H; auto. Qed.

Lemma parts_page parts marker max :
  1 <= max -> (forall p, In p parts -> (0 < p)%N) ->
  let r := parts_http parts marker max in
  let '(pg, tr) := parts_spec_page parts marker max in
  p_parts r = pg /\ p_trunc r = tr /\ p_next r = (if tr then last_opt pg else None).
Proof.
  intros Hm Hpos. cbn zeta. unfold parts_http, parts_spec_page, parts_storage.
  replace (eff_max max) with max by (destruct max; [lia | reflexivity]).
  set (a := match marker with None => sort_N parts | Some m => filter (fun p => (m <? p)%N) (sort_N parts) end).
  assert (filter (fun p => ((match marker with Some x => x | None => 0%N end) <? p)%N) (sort_N parts) = a) as ->.
  { unfold a. destruct marker as [m|]; [reflexivity|].
    assert (forall l, (forall p, In p l -> (0 < p)%N) -> filter (fun p => (0 <? p)%N) l = l) as HF.
    { induction l as [|x l IH]; cbn; [reflexivity|]. intros H.
      assert ((0 <? x)%N = true) as -> by (apply N.ltb_lt; apply H; left; reflexivity).
      f_equal. apply IH. intros p Hp; apply H; right; exact Hp. }
    apply HF. intros p Hp. apply Hpos. apply sort_N_In; exact Hp. }
  destruct max as [|max']; [lia|]. set (max := S max') in *.
  destruct (max <? length a) eqn:T.
  - apply Nat.ltb_lt in T. assert (max <=? length (firstn max a) = true) as ->.
    { apply Nat.leb_le. rewrite firstn_length. lia. }
    cbn. auto.
  - apply Nat.ltb_ge in T. destruct (max <=? length (firstn max a)); cbn; auto.
Qed.

(* ============================================================ versions / uploads ========= *)
(* ---- paging by entry identity: the marker of a page names its last entry ---- *)
Section FollowIdent.
  Context {A : Type} (mark : A -> A -> bool) (Hmark : forall a b, mark a b = true <-> a = b).

  Lemma after_first_app l1 e l2 : ~ In e l1 -> after_first (mark e) (l1 ++ e :: l2) = l2.
  Proof.
    induction l1 as [|x l1 IH]; intros Hn; cbn [app after_first].
    - assert (mark e e = true) as -> by (apply Hmark; reflexivity). reflexivity.
    - destruct (mark e x) eqn:E.
      + apply Hmark in E. subst. exfalso. apply Hn. left; reflexivity.
      + apply IH. intros H. apply Hn. right; exact H.
  Qed.

  Definition ident_after (l : list A) (marker : option A) : list A :=
    match marker with None => l | Some m => after_first (mark m) l end.

  Lemma follow_ident_all l max :
    NoDup l -> 1 <= max -> forall fuel marker,
    (exists P, l = P ++ ident_after l marker) -> length (ident_after l marker) < fuel ->
    follow_ident mark fuel l marker max = ident_after l marker.
  Proof.
    intros ND Hm. induction fuel as [|fuel IH]; intros marker [P HP] Hlen; [lia|].
    cbn [follow_ident]. fold (ident_after l marker). set (a := ident_after l marker) in *.
    destruct (max <? length a) eqn:T.
    - apply Nat.ltb_lt in T.
      assert (a <> []) as Ha by (intros E; rewrite E in T; cbn in T; lia).
      destruct (last_opt_firstn_some a max Hm Ha) as [e L]. rewrite L.
      destruct (last_opt_app _ _ L) as [l1 E1].
      pose proof (firstn_skipn max a) as FS. pose proof (skipn_length max a) as SL.
      remember (skipn max a) as tl eqn:Etl. clear Etl.
      assert (a = l1 ++ e :: tl) as Ea by (rewrite <- FS, E1, <- app_assoc; reflexivity).
      assert (ident_after l (Some e) = tl) as HA.
      { cbn [ident_after]. rewrite HP, Ea, app_assoc. apply after_first_app.
        rewrite HP, Ea, app_assoc in ND. apply NoDup_remove_2 in ND. intros H. apply ND. apply in_or_app; left; exact H. }
      rewrite IH.
      + rewrite HA. exact FS.
      + exists (P ++ l1 ++ [e]). rewrite HA. rewrite HP at 1. rewrite Ea.
        rewrite <- !app_assoc. reflexivity.
      + rewrite HA. lia.
    - apply Nat.ltb_ge in T. apply firstn_all2. exact T.
  Qed.
End FollowIdent.

Lemma ventry_eqb_eq a b : ventry_eqb a b = true <-> a = b.
Proof.
  destruct a as [k v d|p], b as [k' v' d'|p']; cbn; try (split; [discriminate | congruence]).
  - rewrite !andb_true_iff, !bytes_eqb_eq, Bool.eqb_true_iff. split; [intros [[-> ->] ->]; reflexivity | intros H; inversion H; auto].
  - rewrite bytes_eqb_eq. split; congruence.
Qed.

Lemma existsb_ventry e seen : existsb (ventry_eqb e) seen = true <-> In e seen.
Proof.
  rewrite existsb_exists. split.
  - intros (x & Hx & E). apply ventry_eqb_eq in E. subst; exact Hx.
  - intros H. exists e. split; [exact H | apply ventry_eqb_eq; reflexivity].
Qed.

Lemma dedup_In l : forall seen e, In e (dedup_ventries l seen) <-> In e l /\ ~ In e seen.
Proof.
  induction l as [|x l IH]; intros seen e; cbn [dedup_ventries]; [cbn; tauto|].
  destruct (existsb (ventry_eqb x) seen) eqn:E.
  - apply existsb_ventry in E. rewrite IH. cbn [In]. split; [tauto|]. intros [[<-|H] Hn]; [contradiction | tauto].
  - assert (~ In x seen) as Hx by (intros H; apply existsb_ventry in H; congruence).
    cbn [In]. rewrite IH. cbn [In]. split.
    + intros [<-|[H Hn]]; [tauto|]. split; [tauto|]. intros H1; apply Hn; right; exact H1.
    + intros [[<-|H] Hn]; [left; reflexivity|].
      destruct (ventry_eqb x e) eqn:Ex; [apply ventry_eqb_eq in Ex; left; exact Ex|].
      right. split; [exact H|]. intros [->|H1]; [|contradiction].
      rewrite (proj2 (ventry_eqb_eq e e) eq_refl) in Ex. discriminate.
Qed.

Lemma dedup_NoDup l : forall seen, NoDup (dedup_ventries l seen).
Proof.
  induction l as [|x l IH]; intros seen; cbn [dedup_ventries]; [constructor|].
  destruct (existsb (ventry_eqb x) seen); [apply IH|]. constructor; [|apply IH].
  intros H. apply dedup_In in H. destruct H as [_ H]. apply H. left; reflexivity.
Qed.

Lemma insert_by_In {A} (cmp : A -> A -> comparison) x l y : In y (insert_by cmp x l) <-> y = x \/ In y l.
Proof.
  induction l as [|a l IH]; cbn [insert_by In]; [split; [intros [<-|[]]; auto | intros [->|[]]; auto]|].
  destruct (cmp x a); cbn [In].
  - split; [intros [<-|H]; auto | intros [->|H]; auto].
  - split; [intros [<-|H]; auto | intros [->|H]; auto].
  - rewrite IH. split; [intros [<-|[->|H]]; auto | intros [->|[<-|H]]; auto].
Qed.
Lemma sort_by_In {A} (cmp : A -> A -> comparison) l y : In y (sort_by cmp l) <-> In y l.
Proof.
  induction l as [|a l IH]; [cbn; tauto|].
  change (sort_by cmp (a :: l)) with (insert_by cmp a (sort_by cmp l)).
  rewrite insert_by_In, IH. cbn [In]. split; intros [H|H]; auto.
Qed.

Lemma spec_ventries_In rows prefix delim e :
  In e (spec_ventries rows prefix delim) <->
  exists r, In r rows /\ is_prefix prefix (vr_key r) = true /\ vclassify prefix delim r = e.
Proof.
  unfold spec_ventries. rewrite dedup_In, in_map_iff. split.
  - intros [(r & E & Hr) _]. apply sort_by_In in Hr. apply filter_In in Hr. exists r. tauto.
  - intros (r & H1 & H2 & E). split; [|intros []]. exists r. split; [exact E|].
    apply sort_by_In. apply filter_In. auto.
Qed.

Lemma spec_uentries_In ups prefix delim e :
  In e (spec_uentries ups prefix delim) <->
  exists r, In r ups /\ is_prefix prefix (fst r) = true /\ uclassify prefix delim r = e.
Proof.
  unfold spec_uentries. rewrite dedup_In, in_map_iff. split.
  - intros [(r & E & Hr) _]. apply sort_by_In in Hr. apply filter_In in Hr. exists r. tauto.
  - intros (r & H1 & H2 & E). split; [|intros []]. exists r. split; [exact E|].
    apply sort_by_In. apply filter_In. auto.
Qed.

Lemma ident_paging_partition (l : list ventry) max :
  NoDup l -> 1 <= max -> follow_ident ventry_eqb (S (length l)) l None max = l.
Proof.
  intros ND Hm.
  apply (follow_ident_all ventry_eqb ventry_eqb_eq l max ND Hm (S (length l)) None); [exists []; reflexivity | cbn; lia].
Qed.
