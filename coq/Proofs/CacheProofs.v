(* Proofs/CacheProofs.v — lemmas for C19 *)
From Verif Require Import Bytes Codec Cache CacheSpec.
From Coq Require Import ZifyBool ZifyN ZifyNat.

(* ---------- association lists ---------- *)
Lemma alookup_aset_eq {A} k (v : A) l : alookup k (aset k v l) = Some v.
Proof. unfold aset; cbn. rewrite bytes_eqb_refl. reflexivity. Qed.

Lemma alookup_aremove_eq {A} k (l : list (bytes * A)) : alookup k (aremove k l) = None.
Proof.
  induction l as [|[k' v] l IH]; cbn; [reflexivity|].
  destruct (bytes_eqb k k') eqn:E; [exact IH|]. cbn. rewrite E. exact IH.
Qed.

Lemma alookup_aremove_neq {A} k k' (l : list (bytes * A)) :
  k <> k' -> alookup k' (aremove k l) = alookup k' l.
Proof.
  intros N. induction l as [|[k2 v] l IH]; cbn; [reflexivity|].
  destruct (bytes_eqb k k2) eqn:E.
  - apply bytes_eqb_eq in E; subst k2.
    destruct (bytes_eqb k' k) eqn:E2; [apply bytes_eqb_eq in E2; congruence | exact IH].
  - cbn. destruct (bytes_eqb k' k2); [reflexivity | exact IH].
Qed.

Lemma alookup_aset_neq {A} k k' (v : A) l : k <> k' -> alookup k' (aset k v l) = alookup k' l.
Proof.
  intros N. unfold aset; cbn.
  destruct (bytes_eqb k' k) eqn:E; [apply bytes_eqb_eq in E; congruence|].
  apply alookup_aremove_neq; exact N.
Qed.

Lemma alookup_aremove_some {A} k k' (l : list (bytes * A)) v :
  alookup k' (aremove k l) = Some v -> alookup k' l = Some v.
Proof.
  intros H. destruct (bytes_eq_dec k k') as [->|N].
  - rewrite alookup_aremove_eq in H; discriminate.
  - rewrite alookup_aremove_neq in H by exact N. exact H.
Qed.

Lemma nlookup_nset_eq {A} k (v : A) l : nlookup k (nset k v l) = Some v.
Proof. unfold nset; cbn. rewrite Nat.eqb_refl. reflexivity. Qed.

Lemma nlookup_nremove_eq {A} k (l : list (nat * A)) : nlookup k (nremove k l) = None.
Proof.
  induction l as [|[k' v] l IH]; cbn; [reflexivity|].
  destruct (Nat.eqb k k') eqn:E; [exact IH|]. cbn. rewrite E. exact IH.
Qed.

Lemma nlookup_nremove_neq {A} k k' (l : list (nat * A)) :
  k <> k' -> nlookup k' (nremove k l) = nlookup k' l.
Proof.
  intros N. induction l as [|[k2 v] l IH]; cbn; [reflexivity|].
  destruct (Nat.eqb k k2) eqn:E.
  - apply Nat.eqb_eq in E; subst k2.
    destruct (Nat.eqb k' k) eqn:E2; [apply Nat.eqb_eq in E2; congruence | exact IH].
  - cbn. destruct (Nat.eqb k' k2); [reflexivity | exact IH].
Qed.

Lemma nlookup_nset_neq {A} k k' (v : A) l : k <> k' -> nlookup k' (nset k v l) = nlookup k' l.
Proof.
  intros N. unfold nset; cbn.
  destruct (Nat.eqb k' k) eqn:E; [apply Nat.eqb_eq in E; congruence|].
  apply nlookup_nremove_neq; exact N.
Qed.

Lemma skipn_length_firstn {A} n (l : list A) : skipn (length (firstn n l)) l = skipn n l.
Proof.
  revert l; induction n as [|n IH]; intros [|x l]; cbn; try reflexivity. apply IH.
Qed.

(* ---------- in-memory persistor: the map only ever holds reference values ---------- *)
Definition map_le (m cur : list (bytes * bytes)) : Prop :=
  forall k v, alookup k m = Some v -> alookup k cur = Some v.

Lemma map_le_remove_l m cur k : map_le m cur -> map_le (aremove k m) cur.
Proof. intros H k' v Hl. apply H. eapply alookup_aremove_some; exact Hl. Qed.

Lemma map_le_remove_both m cur k : map_le m cur -> map_le (aremove k m) (aremove k cur).
Proof.
  intros H k' v Hl. destruct (bytes_eq_dec k k') as [->|N].
  - rewrite alookup_aremove_eq in Hl; discriminate.
  - rewrite alookup_aremove_neq in * by exact N. apply H; exact Hl.
Qed.

Lemma map_le_set_both m cur k v : map_le m cur -> map_le (aset k v m) (aset k v cur).
Proof.
  intros H k' v' Hl. destruct (bytes_eq_dec k k') as [->|N].
  - rewrite alookup_aset_eq in *. exact Hl.
  - rewrite alookup_aset_neq in * by exact N. apply H; exact Hl.
Qed.

Lemma remove_all_mem_map ks p :
  p_map (remove_all PMem ks p) = fold_left (fun m k => aremove k m) ks (p_map p)
  /\ p_dir (remove_all PMem ks p) = p_dir p /\ p_inodes (remove_all PMem ks p) = p_inodes p.
Proof.
  revert p; induction ks as [|k ks IH]; intros p; cbn; [auto|].
  destruct (IH (p_remove PMem k p)) as (H1 & H2 & H3). cbn in *. auto.
Qed.

Lemma map_le_fold_remove ks m cur : map_le m cur -> map_le (fold_left (fun m k => aremove k m) ks m) cur.
Proof. revert m; induction ks as [|k ks IH]; intros m H; cbn; [exact H|]. apply IH, map_le_remove_l, H. Qed.

(* the cache-level invariant for the in-memory persistor *)
Definition cinv (c : cst) (cur : list (bytes * bytes)) : Prop :=
  c_kind c = PMem /\ map_le (p_map (c_p c)) cur.

Lemma cinv_track_set k sz c c' cur : cinv c cur -> c_track_set k sz c = Some c' -> cinv c' cur.
Proof.
  intros [Hk Hm] H. unfold c_track_set in H.
  destruct (pol_track_set (c_now c) k sz (c_pol c)) as [[ev pol']|]; [|discriminate].
  inversion H; subst; clear H. split; cbn; [exact Hk|].
  rewrite Hk. destruct (remove_all_mem_map ev (c_p c)) as (-> & _ & _).
  apply map_le_fold_remove, Hm.
Qed.

Lemma cinv_begin k hint c c' w cur : cinv c cur -> c_begin k hint c = Some (c', w) -> cinv c' cur /\ w = WrMem [].
Proof.
  intros Hc H. unfold c_begin in H.
  assert (forall c1, cinv c1 cur ->
            (let (p', w0) := p_open (c_kind c1) k (c_p c1) in
             Some ({| c_kind := c_kind c1; c_pol := c_pol c1; c_p := p'; c_now := c_now c1 |}, w0)) = Some (c', w) ->
            cinv c' cur /\ w = WrMem []) as Hopen.
  { intros c1 [Hk Hm] H1. rewrite Hk in H1. cbn in H1. inversion H1; subst. split; [split; [reflexivity | exact Hm] | reflexivity]. }
  destruct (0 <=? hint)%Z.
  - destruct (c_track_set k hint c) as [c1|] eqn:E; [|discriminate].
    apply (Hopen c1); [eapply cinv_track_set; eassumption | exact H].
  - apply (Hopen c); assumption.
Qed.

Lemma cinv_chunk buf chunk c cur :
  cinv c cur -> exists c', c_chunk (WrMem buf) chunk c = (c', WrMem (buf ++ chunk)) /\ cinv c' cur.
Proof. intros [Hk Hm]. unfold c_chunk; cbn. eexists; split; [reflexivity|]. split; assumption. Qed.

Lemma cinv_end_ok k hint buf total c c' cur :
  cinv c cur -> c_end_ok k hint (WrMem buf) total c = Some c' -> cinv c' (aset k buf cur).
Proof.
  intros [Hk Hm] H. unfold c_end_ok in H.
  set (c1 := {| c_kind := c_kind c; c_pol := c_pol c; c_p := p_commit k (WrMem buf) (c_p c); c_now := c_now c |}) in *.
  assert (cinv c1 (aset k buf cur)) as H1.
  { split; [exact Hk|]. cbn. apply map_le_set_both, Hm. }
  destruct (0 <=? hint)%Z; [inversion H; subst; exact H1 | eapply cinv_track_set; eassumption].
Qed.

Lemma cinv_end_err k c cur : cinv c cur -> cinv (c_end_err k c) (aremove k cur).
Proof.
  intros [Hk Hm]. split; [exact Hk|]. cbn. rewrite Hk; cbn. apply map_le_remove_both, Hm.
Qed.

Lemma cinv_get k c cur : cinv c cur ->
  cinv (fst (c_get k c)) cur /\
  (snd (c_get k c) = None \/ exists v, alookup k cur = Some v /\ snd (c_get k c) = Some (RdMem v 0)).
Proof.
  intros [Hk Hm]. split; [split; assumption|]. cbn. rewrite Hk; cbn.
  destruct (alookup k (p_map (c_p c))) as [v|] eqn:E; [|left; reflexivity].
  right. exists v. split; [apply Hm; exact E | reflexivity].
Qed.

Lemma cinv_set k v hint c c' cur :
  cinv c cur -> c_set k v hint None c = Some c' -> cinv c' (aset k v cur).
Proof.
  intros Hc H. unfold c_set in H.
  destruct (c_begin k hint c) as [[c1 w]|] eqn:E; [|discriminate].
  destruct (cinv_begin _ _ _ _ _ _ Hc E) as [H1 ->].
  destruct (cinv_chunk [] v c1 cur H1) as (c2 & E2 & H2). rewrite E2 in H. cbn [app] in H.
  eapply cinv_end_ok; eassumption.
Qed.

Lemma cinv_set_fail k v hint n c c' cur :
  cinv c cur -> c_set k v hint (Some n) c = Some c' -> cinv c' (aremove k cur).
Proof.
  intros Hc H. unfold c_set in H.
  destruct (c_begin k hint c) as [[c1 w]|] eqn:E; [|discriminate].
  destruct (cinv_begin _ _ _ _ _ _ Hc E) as [H1 ->].
  destruct (cinv_chunk [] (firstn n v) c1 cur H1) as (c2 & E2 & H2). rewrite E2 in H.
  inversion H; subst. apply cinv_end_err, H2.
Qed.

(* world invariant: cache invariant + the running Sets of model and reference agree *)
Definition pend_rel (ws : list (nat * pending)) (gs : list (nat * (bytes * bytes * bytes))) : Prop :=
  forall s, match nlookup s ws, nlookup s gs with
            | Some pd, Some (k, fed, src) => pd_key pd = k /\ pd_wr pd = WrMem fed /\ pd_src pd = src
            | None, None => True
            | _, _ => False
            end.

Definition handles_cache (hs : list (nat * handle)) : Prop :=
  forall h hd, nlookup h hs = Some hd -> exists r, hd = HCache r.

Definition winv (w : world) (g : ghost) : Prop :=
  cinv (w_c w) (g_cur g) /\ pend_rel (w_sets w) (g_pend g) /\ handles_cache (w_handles w).

Lemma handles_cache_set hs h r : handles_cache hs -> handles_cache (nset h (HCache r) hs).
Proof.
  intros H h' hd Hl. destruct (Nat.eq_dec h h') as [->|N].
  - rewrite nlookup_nset_eq in Hl. inversion Hl. eexists; reflexivity.
  - rewrite nlookup_nset_neq in Hl by exact N. eapply H; exact Hl.
Qed.

Lemma handles_cache_remove hs h : handles_cache hs -> handles_cache (nremove h hs).
Proof.
  intros H h' hd Hl. destruct (Nat.eq_dec h h') as [->|N].
  - rewrite nlookup_nremove_eq in Hl. discriminate.
  - rewrite nlookup_nremove_neq in Hl by exact N. eapply H; exact Hl.
Qed.

Lemma pend_rel_set ws gs s pd k fed src :
  pend_rel ws gs -> pd_key pd = k -> pd_wr pd = WrMem fed -> pd_src pd = src ->
  pend_rel (nset s pd ws) (nset s (k, fed, src) gs).
Proof.
  intros H H1 H2 H3 s'. destruct (Nat.eq_dec s s') as [->|N].
  - rewrite !nlookup_nset_eq. auto.
  - rewrite !nlookup_nset_neq by exact N. apply H.
Qed.

Lemma pend_rel_remove ws gs s : pend_rel ws gs -> pend_rel (nremove s ws) (nremove s gs).
Proof.
  intros H s'. destruct (Nat.eq_dec s s') as [->|N].
  - rewrite !nlookup_nremove_eq. exact I.
  - rewrite !nlookup_nremove_neq by exact N. apply H.
Qed.

Ltac inv H := inversion H; subst; clear H.
Ltac mk := split; [| split]; cbn.

(* one step of a cache operation preserves the invariant and a Get is sound *)
Lemma step_mem_sound o w g r w' :
  cache_op o = true -> winv w g -> step o w = Some (r, w') ->
  winv w' (gstep g o) /\
  match o with
  | OGet k => r = RMiss \/ exists v, alookup k (g_cur g) = Some v /\ r = RVal v
  | _ => True
  end.
Proof.
  intros Hop (Hc & Hp & Hh) H. destruct o; try discriminate Hop; cbn [step step1] in H; cbn [gstep].
  - (* OSet *)
    destruct (c_set k v hint None (w_c w)) as [c|] eqn:E; [|discriminate]. inv H.
    split; [|exact I]. mk; [eapply cinv_set; eassumption | exact Hp | exact Hh].
  - (* OSetFail *)
    destruct (c_set k v hint (Some n) (w_c w)) as [c|] eqn:E; [|discriminate]. inv H.
    split; [|exact I]. mk; [eapply cinv_set_fail; eassumption | exact Hp | exact Hh].
  - (* OGet *)
    destruct (cinv_get k _ _ Hc) as [Hc' Hr].
    destruct (c_get k (w_c w)) as [c r0] eqn:E. cbn [fst snd] in *.
    destruct Hr as [->|(v & Hv & ->)].
    + inv H. split; [mk; assumption | left; reflexivity].
    + inv H. split; [mk; assumption|]. right. exists v. split; [exact Hv|]. reflexivity.
  - (* ORemove *)
    inv H. split; [|exact I]. mk; [apply cinv_end_err, Hc | exact Hp | exact Hh].
  - (* OOpen *)
    split; [|exact I].
    destruct (nlookup h (w_handles w)) eqn:El; [inv H; mk; assumption|].
    destruct (cinv_get k _ _ Hc) as [Hc' _].
    destruct (c_get k (w_c w)) as [c r0] eqn:E. cbn [fst] in Hc'.
    destruct r0; inv H; mk; try assumption. apply handles_cache_set, Hh.
  - (* OBegin *)
    split; [|exact I]. pose proof (Hp s) as Hs.
    destruct (nlookup s (w_sets w)) as [pd|] eqn:E1; destruct (nlookup s (g_pend g)) as [[[k0 fed] src]|] eqn:E2;
      try contradiction.
    + inv H. mk; assumption.
    + destruct (c_begin k hint (w_c w)) as [[c wr0]|] eqn:E; [|discriminate]. inv H.
      destruct (cinv_begin _ _ _ _ _ _ Hc E) as [Hc' ->].
      mk; [exact Hc' | | exact Hh]. apply pend_rel_set; auto.
  - (* OFeed *)
    split; [|exact I]. pose proof (Hp s) as Hs.
    destruct (nlookup s (w_sets w)) as [pd|] eqn:E1; destruct (nlookup s (g_pend g)) as [[[k0 fed] src]|] eqn:E2;
      try contradiction.
    + destruct Hs as (Hk & Hw & Hsrc). rewrite Hsrc in H.
      destruct (firstn n src) as [|b chunk] eqn:Ef.
      * (* nothing delivered: the world is unchanged *)
        inversion H; subst r w'; clear H.
        mk; [exact Hc | | exact Hh].
        intros s'. destruct (Nat.eq_dec s s') as [<-|N].
        -- rewrite nlookup_nset_eq, E1. rewrite app_nil_r. repeat split; auto.
           rewrite Hsrc, <- (skipn_length_firstn n src), Ef. reflexivity.
        -- rewrite nlookup_nset_neq by exact N. apply Hp.
      * inversion H; subst r w'; clear H. unfold feed. rewrite E1, Hw.
        destruct (cinv_chunk fed (b :: chunk) _ _ Hc) as (c' & Ec & Hc'). rewrite Ec.
        mk; [exact Hc' | | exact Hh]. apply pend_rel_set; auto. cbn [pd_src].
        change (skipn (length (b :: chunk)) (pd_src pd) = skipn n src).
        rewrite Hsrc, <- Ef. apply skipn_length_firstn.
    + inv H. mk; assumption.
  - (* OEof *)
    split; [|exact I]. pose proof (Hp s) as Hs.
    destruct (nlookup s (w_sets w)) as [pd|] eqn:E1; destruct (nlookup s (g_pend g)) as [[[k0 fed] src]|] eqn:E2;
      try contradiction.
    + destruct Hs as (Hk & Hw & Hsrc). rewrite Hw in H.
      destruct (c_end_ok (pd_key pd) (pd_hint pd) (WrMem fed) (pd_total pd) (w_c w)) as [c|] eqn:E; [|discriminate].
      inv H. mk; [eapply cinv_end_ok; eassumption | apply pend_rel_remove, Hp | exact Hh].
    + inv H. mk; assumption.
  - (* OErr *)
    split; [|exact I]. pose proof (Hp s) as Hs.
    destruct (nlookup s (w_sets w)) as [pd|] eqn:E1; destruct (nlookup s (g_pend g)) as [[[k0 fed] src]|] eqn:E2;
      try contradiction.
    + destruct Hs as (Hk & Hw & Hsrc). inv H. mk; [apply cinv_end_err, Hc | apply pend_rel_remove, Hp | exact Hh].
    + inv H. mk; assumption.
  - (* ORead *)
    split; [|exact I].
    destruct (nlookup h (w_handles w)) as [hd|] eqn:El; [|inv H; mk; assumption].
    destruct (Hh _ _ El) as [r0 ->]. cbn [h_read] in H.
    destruct (rd_read r0 n (c_p (w_c w))) as [c r1]. inv H.
    mk; [exact Hc | exact Hp | apply handles_cache_set, Hh].
  - (* OFinish *)
    split; [|exact I].
    destruct (nlookup h (w_handles w)) as [hd|] eqn:El; [|inv H; mk; assumption].
    destruct (Hh _ _ El) as [r0 ->]. cbn [h_read] in H. inv H.
    mk; [exact Hc | exact Hp | apply handles_cache_remove, Hh].
  - (* OClose *)
    split; [|exact I].
    destruct (nlookup h (w_handles w)) as [hd|] eqn:El; [|inv H; mk; assumption].
    destruct (Hh _ _ El) as [r0 ->]. inv H.
    mk; [exact Hc | exact Hp | apply handles_cache_remove, Hh].
Qed.

Lemma winv_init pl mp : winv (w_init PMem pl mp) g0.
Proof.
  mk; [split; [reflexivity | intros k v H; discriminate] | intros s; exact I | intros h hd H; discriminate].
Qed.

Lemma run_mem_sound ops : forall w g rs,
  forallb cache_op ops = true -> winv w g -> run ops w = Some rs -> get_sound g ops rs.
Proof.
  induction ops as [|o ops IH]; intros w g rs Hops Hw H; cbn in H.
  - inv H. exact I.
  - cbn in Hops. apply andb_true_iff in Hops as [Ho Hops].
    destruct (step o w) as [[r w']|] eqn:E; [|discriminate].
    destruct (run ops w') as [rs'|] eqn:E2; [|discriminate]. inv H.
    destruct (step_mem_sound _ _ _ _ _ Ho Hw E) as [Hw' Hr].
    cbn [get_sound]. split; [destruct o; exact Hr || exact I | eapply IH; eassumption].
Qed.

(* all interleavings, in-memory persistor *)
Lemma mem_get_sound pl mp ops rs :
  forallb cache_op ops = true -> run ops (w_init PMem pl mp) = Some rs -> get_sound g0 ops rs.
Proof. intros Ho H. eapply run_mem_sound; [exact Ho | apply winv_init | exact H]. Qed.

(* ---------- refutations by concrete histories ---------- *)
Definition val10 : bytes := content 1 10.

(* filesystem persistor: a Get between the open-truncate and the end of a streaming Set returns a prefix *)
Definition fs_partial_ops : list op := [OBegin 0 B"a" val10 (-1); OFeed 0 4; OGet B"a"].
Lemma fs_partial_run :
  run fs_partial_ops (w_init PFs EvictNothing 64) = Some [ROk; ROk; RVal (firstn 4 val10)].
Proof. vm_compute. reflexivity. Qed.
Lemma fs_partial_unsound : ~ get_sound g0 fs_partial_ops [ROk; ROk; RVal (firstn 4 val10)].
Proof.
  cbn. intros (_ & _ & [H | (v & Hv & _)] & _); [discriminate H | discriminate Hv].
Qed.

(* filesystem persistor: a Set truncates and rewrites the file under an open reader: the reader delivers a mix *)
Definition fs_mixed_ops : list op :=
  [OSet B"a" val10 10; OOpen 0 B"a"; ORead 0 4; OSet B"a" (content 2 10) 10; OFinish 0].
Lemma fs_mixed_run :
  run fs_mixed_ops (w_init PFs EvictNothing 64)
  = Some [ROk; ROpen B"h"; RVal (firstn 4 val10); ROk; RVal (skipn 4 (content 2 10))].
Proof. vm_compute. reflexivity. Qed.

(* LFU: one entry larger than the size limit (or key limit 0) pops the empty heap *)
Lemma lfu_panic_size : run [OSet B"a" (content 1 5) 5] (w_init PMem (LfuSize 4) 64) = None.
Proof. vm_compute. reflexivity. Qed.
Lemma lfu_panic_keys : run [OSet B"a" (content 1 1) 1] (w_init PMem (LfuKeys 0) 64) = None.
Proof. vm_compute. reflexivity. Qed.
Lemma lfu_panic_fill : run [PInner B"a" (content 1 9); PGet B"a"] (w_init PMem (LfuSize 4) 64) = None.
Proof. vm_compute. reflexivity. Qed.

(* part store, in-memory persistor: a miss fill that finishes after DeletePart re-inserts the deleted bytes *)
Definition stale_ops : list op := [PInner B"a" val10; POpen 0 B"a"; PDelete B"a"; OFinish 0; PGet B"a"].
Lemma stale_run :
  run stale_ops (w_init PMem EvictNothing 64) = Some [ROk; ROpen B"s"; ROk; RVal val10; RVal val10].
Proof. vm_compute. reflexivity. Qed.
Lemma stale_unsound : ~ part_sound [] stale_ops [ROk; ROpen B"s"; ROk; RVal val10; RVal val10].
Proof. cbn. intros (_ & _ & _ & _ & H & _). discriminate H. Qed.

(* part store, filesystem persistor: GetPart during a miss fill of the same part returns a prefix *)
Definition part_partial_ops : list op := [PInner B"a" val10; POpen 0 B"a"; ORead 0 4; PGet B"a"].
Lemma part_partial_run :
  run part_partial_ops (w_init PFs EvictNothing 64) = Some [ROk; ROpen B"s"; RVal (firstn 4 val10); RVal (firstn 4 val10)].
Proof. vm_compute. reflexivity. Qed.
Lemma part_partial_unsound :
  ~ part_sound [] part_partial_ops [ROk; ROpen B"s"; RVal (firstn 4 val10); RVal (firstn 4 val10)].
Proof. cbn. intros (_ & _ & _ & H & _). vm_compute in H. discriminate H. Qed.

(* the size limit is exceeded although it is satisfiable: re-Set of a key evicts that key's own old heap entry *)
Definition stored_bytes (w : world) : nat :=
  fold_right (fun kv n => length (snd kv) + n) 0 (p_map (c_p (w_c w))).
Fixpoint final (ops : list op) (w : world) : option world :=
  match ops with
  | [] => Some w
  | o :: rest => match step o w with None => None | Some (_, w') => final rest w' end
  end.
Lemma size_limit_exceeded :
  option_map stored_bytes
    (final [OSet B"a" (content 1 5) 5; OSet B"b" (content 2 3) 3; OSet B"a" (content 3 8) 8] (w_init PMem (LfuSize 10) 64))
  = Some 11.
Proof. vm_compute. reflexivity. Qed.

(* ---------- EvictNothing never panics ---------- *)
Definition pol_none (w : world) : Prop := c_pol (w_c w) = PolNone.

Lemma track_set_none k sz c : c_pol c = PolNone -> exists c', c_track_set k sz c = Some c' /\ c_pol c' = PolNone.
Proof. intros H. unfold c_track_set. rewrite H. cbn. eexists; split; reflexivity. Qed.

Lemma begin_none k hint c : c_pol c = PolNone -> exists c' w, c_begin k hint c = Some (c', w) /\ c_pol c' = PolNone.
Proof.
  intros H. unfold c_begin. destruct (0 <=? hint)%Z.
  - destruct (track_set_none k hint c H) as (c1 & -> & H1).
    destruct (p_open (c_kind c1) k (c_p c1)) as [p' w]. eexists _, _; split; [reflexivity | exact H1].
  - destruct (p_open (c_kind c) k (c_p c)) as [p' w]. eexists _, _; split; [reflexivity | exact H].
Qed.

Lemma chunk_none w chunk c : c_pol c = PolNone -> c_pol (fst (c_chunk w chunk c)) = PolNone.
Proof. intros H. unfold c_chunk. destruct (p_write w chunk (c_p c)); cbn. exact H. Qed.

Lemma end_ok_none k hint w total c : c_pol c = PolNone -> exists c', c_end_ok k hint w total c = Some c' /\ c_pol c' = PolNone.
Proof.
  intros H. unfold c_end_ok. destruct (0 <=? hint)%Z; [eexists; split; [reflexivity | exact H]|].
  apply track_set_none. exact H.
Qed.

Lemma end_err_none k c : c_pol c = PolNone -> c_pol (c_end_err k c) = PolNone.
Proof. intros H. unfold c_end_err; cbn. rewrite H. reflexivity. Qed.

Lemma set_none k v hint fail c : c_pol c = PolNone -> exists c', c_set k v hint fail c = Some c' /\ c_pol c' = PolNone.
Proof.
  intros H. unfold c_set. destruct (begin_none k hint c H) as (c1 & w & -> & H1).
  destruct fail as [n|].
  - pose proof (chunk_none w (firstn n v) c1 H1) as H2. destruct (c_chunk w (firstn n v) c1) as [c2 w2]; cbn in H2.
    eexists; split; [reflexivity | apply end_err_none, H2].
  - pose proof (chunk_none w v c1 H1) as H2. destruct (c_chunk w v c1) as [c2 w2]; cbn in H2.
    apply end_ok_none, H2.
Qed.

Lemma get_none k c : c_pol c = PolNone -> c_pol (fst (c_get k c)) = PolNone.
Proof. intros H. cbn. rewrite H. reflexivity. Qed.

Lemma fill_fail_none sid ov w : pol_none w -> pol_none (fill_fail sid ov w).
Proof.
  unfold pol_none, fill_fail. intros H. destruct (nlookup sid (w_sets w)); [|exact H].
  destruct ov; cbn; rewrite H; reflexivity.
Qed.

Lemma feed_none sid c w : pol_none w -> pol_none (feed sid c w).
Proof.
  unfold pol_none, feed. intros H. destruct (nlookup sid (w_sets w)) as [pd|]; [|exact H].
  pose proof (chunk_none (pd_wr pd) c (w_c w) H) as H2. destruct (c_chunk (pd_wr pd) c (w_c w)); cbn in *. exact H2.
Qed.

Lemma fill_ok_none sid w : pol_none w -> exists w', fill_ok sid w = Some w' /\ pol_none w'.
Proof.
  unfold pol_none, fill_ok. intros H. destruct (nlookup sid (w_sets w)) as [pd|]; [|eexists; split; [reflexivity | exact H]].
  destruct (end_ok_none (pd_key pd) (pd_hint pd) (pd_wr pd) (pd_total pd) (w_c w) H) as (c' & -> & H').
  eexists; split; [reflexivity | exact H'].
Qed.

Lemma h_read_none hd n w : pol_none w -> exists c hd' w', h_read hd n w = Some (c, hd', w') /\ pol_none w'.
Proof.
  intros H. destruct hd as [r | data off | data off written active sid]; cbn [h_read].
  - destruct n as [n|]; [destruct (rd_read r n (c_p (w_c w))) |]; eexists _, _, _; split; try reflexivity; exact H.
  - eexists _, _, _; split; [reflexivity | exact H].
  - set (c := match n with Some n0 => firstn n0 (skipn off data) | None => skipn off data end).
    set (eof := match n with Some n0 => length c <? n0 | None => true end).
    set (written' := if active && (0 <? length c) then written + length c else written).
    set (over := active && (0 <? length c) && (w_maxpart w <? written')).
    set (w1 := if active && (0 <? length c) then if over then fill_fail sid true w else feed sid c w else w).
    assert (pol_none w1) as H1.
    { unfold w1. destruct (active && (0 <? length c)); [|exact H].
      destruct over; [apply fill_fail_none | apply feed_none]; exact H. }
    destruct (eof && (active && negb over)).
    + destruct (fill_ok_none sid w1 H1) as (w2 & -> & H2). eexists _, _, _; split; [reflexivity | exact H2].
    + eexists _, _, _; split; [reflexivity | exact H1].
Qed.

Lemma h_close_none hd w : pol_none w -> pol_none (h_close hd w).
Proof.
  intros H. destruct hd as [r | data off | data off written [|] sid]; cbn; try exact H. apply fill_fail_none, H.
Qed.

Lemma step1_none o w : pol_none w -> exists r w', step1 o w = Some (r, w') /\ pol_none w'.
Proof.
  intros H. unfold pol_none in H. destruct o; cbn [step1].
  - destruct (set_none k v hint None (w_c w) H) as (c & -> & Hc). eexists _, _; split; [reflexivity | exact Hc].
  - destruct (set_none k v hint (Some n) (w_c w) H) as (c & -> & Hc). eexists _, _; split; [reflexivity | exact Hc].
  - pose proof (get_none k (w_c w) H) as Hg. destruct (c_get k (w_c w)) as [c [r|]]; cbn in Hg;
      eexists _, _; (split; [reflexivity | exact Hg]).
  - eexists _, _; split; [reflexivity | apply end_err_none, H].
  - destruct (nlookup h (w_handles w)); [eexists _, _; split; [reflexivity | exact H]|].
    pose proof (get_none k (w_c w) H) as Hg. destruct (c_get k (w_c w)) as [c [r|]]; cbn in Hg;
      eexists _, _; (split; [reflexivity | exact Hg]).
  - destruct (nlookup s (w_sets w)); [eexists _, _; split; [reflexivity | exact H]|].
    destruct (begin_none k hint (w_c w) H) as (c & wr0 & -> & Hc). eexists _, _; split; [reflexivity | exact Hc].
  - destruct (nlookup s (w_sets w)) as [pd|]; [|eexists _, _; split; [reflexivity | exact H]].
    eexists _, _; split; [reflexivity|]. destruct (firstn n (pd_src pd)); [exact H | apply feed_none, H].
  - destruct (nlookup s (w_sets w)) as [pd|]; [|eexists _, _; split; [reflexivity | exact H]].
    destruct (end_ok_none (pd_key pd) (pd_hint pd) (pd_wr pd) (pd_total pd) (w_c w) H) as (c & -> & Hc).
    eexists _, _; split; [reflexivity | exact Hc].
  - destruct (nlookup s (w_sets w)) as [pd|]; eexists _, _; (split; [reflexivity|]); [apply end_err_none, H | exact H].
  - destruct (nlookup h (w_handles w)) as [hd|]; [|eexists _, _; split; [reflexivity | exact H]].
    destruct (h_read_none hd (Some n) w H) as (c & hd' & w' & -> & H'). eexists _, _; split; [reflexivity | exact H'].
  - destruct (nlookup h (w_handles w)) as [hd|]; [|eexists _, _; split; [reflexivity | exact H]].
    destruct (h_read_none hd None w H) as (c & hd' & w' & -> & H'). eexists _, _; split; [reflexivity|].
    apply (h_close_none hd' w') in H'. exact H'.
  - destruct (nlookup h (w_handles w)) as [hd|]; eexists _, _; (split; [reflexivity|]); [|exact H].
    apply (h_close_none hd w) in H. exact H.
  - destruct (length v <=? w_maxpart w).
    + destruct (set_none id v (Z.of_nat (length v)) None (w_c w) H) as (c & Hs & Hc). cbn. rewrite Hs.
      eexists _, _; split; [reflexivity | exact Hc].
    + eexists _, _; split; [reflexivity|]. apply end_err_none, H.
  - destruct (alookup id (w_inner w)); eexists _, _; (split; [reflexivity | exact H]).
  - destruct (alookup id (w_inner w)); eexists _, _; (split; [reflexivity|]); [apply end_err_none, H | exact H].
  - destruct (nlookup h (w_handles w)); [eexists _, _; split; [reflexivity | exact H]|].
    pose proof (get_none id (w_c w) H) as Hg. destruct (c_get id (w_c w)) as [c [r|]]; cbn in Hg.
    + eexists _, _; split; [reflexivity | exact Hg].
    + cbn [set_c w_inner w_hints w_c w_handles w_sets w_nextsid].
      destruct (alookup id (w_inner w)) as [data|]; [|eexists _, _; split; [reflexivity | exact Hg]].
      destruct (mem_bytes id (w_hints w)); [eexists _, _; split; [reflexivity | exact Hg]|].
      destruct (begin_none id (-1) c Hg) as (c2 & wr0 & -> & Hc2). eexists _, _; split; [reflexivity | exact Hc2].
  - eexists _, _; split; [reflexivity | exact H].
Qed.

Lemma step_none o w : pol_none w -> exists r w', step o w = Some (r, w') /\ pol_none w'.
Proof.
  intros H. destruct o; try apply step1_none; try exact H. cbn [step].
  destruct (step1_none (POpen tmp_handle id) w H) as (r & w1 & -> & H1).
  destruct r; try (eexists _, _; split; [reflexivity | exact H1]).
  apply step1_none, H1.
Qed.

Lemma run_none ops : forall w, pol_none w -> run ops w <> None.
Proof.
  induction ops as [|o ops IH]; intros w H; cbn; [discriminate|].
  destruct (step_none o w H) as (r & w' & -> & H'). specialize (IH w' H').
  destruct (run ops w'); [discriminate | contradiction].
Qed.
