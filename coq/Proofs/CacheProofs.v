(* Proofs/CacheProofs.v — lemmas for C19 *)
From Verif Require Import Bytes Codec Cache CacheSpec.
From Coq Require Import ZifyBool ZifyN ZifyNat.

(* ---------- association lists ---------- *)
Lemma alookup_aset_eq {A} k (v : A) l : alookup k (aset k v l) = Some v.
Proof. unfold aset; cbn. rewrite bytes_eqb_refl. reflexivity. Qed.

Lemma alookup_aremove_eq {A} k (l : list (bytes * A)) : alookup k (aremove k l) = None.
Proof.
  induction l as [|[k' v] l IH]; cbn; [reflexivity|].
  destruct (bytes_eqb k k') eqn:E; [exact IH|]. cbn. rewrite E. exact IH.
Qed.

Lemma alookup_aremove_neq {A} k k' (l : list (bytes * A)) :
  k <> k' -> alookup k' (aremove k l) = alookup k' l.
Proof.
  intros N. induction l as [|[k2 v] l IH]; cbn; [reflexivity|].
  destruct (bytes_eqb k k2) eqn:E.
  - apply bytes_eqb_eq in E; subst k2.
    destruct (bytes_eqb k' k) eqn:E2; [apply bytes_eqb_eq in E2; congruence | exact IH].
  - cbn. destruct (bytes_eqb k' k2); [reflexivity | exact IH].
Qed.

Lemma alookup_aset_neq {A} k k' (v : A) l : k <> k' -> alookup k' (aset k v l) = alookup k' l.
Proof.
  intros N. unfold aset; cbn.
  destruct (bytes_eqb k' k) eqn:E; [apply bytes_eqb_eq in E; congruence|].
  apply alookup_aremove_neq; exact N.
Qed.

Lemma alookup_aremove_some {A} k k' (l : list (bytes * A)) v :
  alookup k' (aremove k l) = Some v -> alookup k' l = Some v.
Proof.
  intros H. destruct (bytes_eq_dec k k') as [->|N].
  - rewrite alookup_aremove_eq in H; discriminate.
  - rewrite alookup_aremove_neq in H by exact N. exact H.
Qed.

Lemma nlookup_nset_eq {A} k (v : A) l : nlookup k (nset k v l) = Some v.
Proof. unfold nset; cbn. rewrite Nat.eqb_refl. reflexivity. Qed.

Lemma nlookup_nremove_eq {A} k (l : list (nat * A)) : nlookup k (nremove k l) = None.
Proof.
  induction l as [|[k' v] l IH]; cbn; [reflexivity|].
  destruct (Nat.eqb k k') eqn:E; [exact IH|]. cbn. rewrite E. exact IH.
Qed.

Lemma nlookup_nremove_neq {A} k k' (l : list (nat * A)) :
  k <> k' -> nlookup k' (nremove k l) = nlookup k' l.
Proof.
  intros N. induction l as [|[k2 v] l IH]; cbn; [reflexivity|].
  destruct (Nat.eqb k k2) eqn:E.
  - apply Nat.eqb_eq in E; subst k2.
    destruct (Nat.eqb k' k) eqn:E2; [apply Nat.eqb_eq in E2; congruence | exact IH].
  - cbn. destruct (Nat.eqb k' k2); [reflexivity | exact IH].
Qed.

Lemma nlookup_nset_neq {A} k k' (v : A) l : k <> k' -> nlookup k' (nset k v l) = nlookup k' l.
Proof.
  intros N. unfold nset; cbn.
  destruct (Nat.eqb k' k) eqn:E; [apply Nat.eqb_eq in E; congruence|].
  apply nlookup_nremove_neq; exact N.
Qed.

Lemma skipn_length_firstn {A} n (l : list A) : skipn (length (firstn n l)) l = skipn n l.
Proof.
  revert l; induction n as [|n IH]; intros [|x l]; cbn; try reflexivity. apply IH.
Qed.

(* ---------- in-memory persistor: the map only ever holds reference values ---------- *)
Definition map_le (m cur : list (bytes * bytes)) : Prop :=
  forall k v, alookup k m = Some v -> alookup k cur = Some v.

Lemma map_le_remove_l m cur k : map_le m cur -> map_le (aremove k m) cur.
Proof. intros H k' v Hl. apply H. eapply alookup_aremove_some; exact Hl. Qed.

Lemma map_le_remove_both m cur k : map_le m cur -> map_le (aremove k m) (aremove k cur).
Proof.
  intros H k' v Hl. destruct (bytes_eq_dec k k') as [->|N].
  - rewrite alookup_aremove_eq in Hl; discriminate.
  - rewrite alookup_aremove_neq in * by exact N. apply H; exact Hl.
Qed.

Lemma map_le_set_both m cur k v : map_le m cur -> map_le (aset k v m) (aset k v cur).
Proof.
  intros H k' v' Hl. destruct (bytes_eq_dec k k') as [->|N].
  - rewrite alookup_aset_eq in *. exact Hl.
  - rewrite alookup_aset_neq in * by exact N. apply H; exact Hl.
Qed.

Lemma remove_all_mem_map ks p :
  p_map (remove_all PMem ks p) = fold_left (fun m k => aremove k m) ks (p_map p)
  /\ p_dir (remove_all PMem ks p) = p_dir p /\ p_inodes (remove_all PMem ks p) = p_inodes p.
Proof.
  revert p; induction ks as [|k ks IH]; intros p; cbn; [auto|].
  destruct (IH (p_remove PMem k p)) as (H1 & H2 & H3). cbn in *. auto.
Qed.

Lemma map_le_fold_remove ks m cur : map_le m cur -> map_le (fold_left (fun m k => aremove k m) ks m) cur.
Proof. revert m; induction ks as [|k ks IH]; intros m H; cbn; [exact H|]. apply IH, map_le_remove_l, H. Qed.

(* the cache-level invariant for the in-memory persistor *)
Definition cinv (c : cst) (cur : list (bytes * bytes)) : Prop :=
  c_kind c = PMem /\ map_le (p_map (c_p c)) cur.

Lemma cinv_track_set k sz c c' cur : cinv c cur -> c_track_set k sz c = Some c' -> cinv c' cur.
Proof.
  intros [Hk Hm] H. unfold c_track_set in H.
  destruct (pol_track_set (c_now c) k sz (c_pol c)) as [[ev pol']|]; [|discriminate].
  inversion H; subst; clear H. split; cbn; [exact Hk|].
  rewrite Hk. destruct (remove_all_mem_map ev (c_p c)) as (-> & _ & _).
  apply map_le_fold_remove, Hm.
Qed.

Lemma cinv_begin k hint c c' w cur : cinv c cur -> c_begin k hint c = Some (c', w) -> cinv c' cur /\ w = WrMem [].
Proof.
  intros Hc H. unfold c_begin in H.
  assert (forall c1, cinv c1 cur ->
            (let (p', w0) := p_open (c_kind c1) k (c_p c1) in
             Some ({| c_kind := c_kind c1; c_pol := c_pol c1; c_p := p'; c_now := c_now c1 |}, w0)) = Some (c', w) ->
            cinv c' cur /\ w = WrMem []) as Hopen.
  { intros c1 [Hk Hm] H1. rewrite Hk in H1. cbn in H1. inversion H1; subst. split; [split; [reflexivity | exact Hm] | reflexivity]. }
  destruct (0 <=? hint)%Z.
  - destruct (c_track_set k hint c) as [c1|] eqn:E; [|discriminate].
    apply (Hopen c1); [eapply cinv_track_set; eassumption | exact H].
  - apply (Hopen c); assumption.
Qed.

Lemma cinv_chunk buf chunk c cur :
  cinv c cur -> exists c', c_chunk (WrMem buf) chunk c = (c', WrMem (buf ++ chunk)) /\ cinv c' cur.
Proof. intros [Hk Hm]. unfold c_chunk; cbn. eexists; split; [reflexivity|]. split; assumption. Qed.

Lemma cinv_end_ok k hint buf total c c' cur :
  cinv c cur -> c_end_ok k hint (WrMem buf) total c = Some c' -> cinv c' (aset k buf cur).
Proof.
  intros [Hk Hm] H. unfold c_end_ok in H.
  set (c1 := {| c_kind := c_kind c; c_pol := c_pol c; c_p := p_commit k (WrMem buf) (c_p c); c_now := c_now c |}) in *.
  assert (cinv c1 (aset k buf cur)) as H1.
  { split; [exact Hk|]. cbn. apply map_le_set_both, Hm. }
  destruct (0 <=? hint)%Z; [inversion H; subst; exact H1 | eapply cinv_track_set; eassumption].
Qed.

Lemma cinv_end_err k c cur : cinv c cur -> cinv (c_end_err k c) (aremove k cur).
Proof.
  intros [Hk Hm]. split; [exact Hk|]. cbn. rewrite Hk; cbn. apply map_le_remove_both, Hm.
Qed.

Lemma cinv_get k c cur : cinv c cur ->
  cinv (fst (c_get k c)) cur /\
  (snd (c_get k c) = None \/ exists v, alookup k cur = Some v /\ snd (c_get k c) = Some (RdMem v 0)).
Proof.
  intros [Hk Hm]. split; [split; assumption|]. cbn. rewrite Hk; cbn.
  destruct (alookup k (p_map (c_p c))) as [v|] eqn:E; [|left; reflexivity].
  right. exists v. split; [apply Hm; exact E | reflexivity].
Qed.

Lemma cinv_set k v hint c c' cur :
  cinv c cur -> c_set k v hint None c = Some c' -> cinv c' (aset k v cur).
Proof.
  intros Hc H. unfold c_set in H.
  destruct (c_begin k hint c) as [[c1 w]|] eqn:E; [|discriminate].
  destruct (cinv_begin _ _ _ _ _ _ Hc E) as [H1 ->].
  destruct (cinv_chunk [] v c1 cur H1) as (c2 & E2 & H2). rewrite E2 in H. cbn [app] in H.
  eapply cinv_end_ok; eassumption.
Qed.

Lemma cinv_set_fail k v hint n c c' cur :
  cinv c cur -> c_set k v hint (Some n) c = Some c' -> cinv c' (aremove k cur).
Proof.
  intros Hc H. unfold c_set in H.
  destruct (c_begin k hint c) as [[c1 w]|] eqn:E; [|discriminate].
  destruct (cinv_begin _ _ _ _ _ _ Hc E) as [H1 ->].
  destruct (cinv_chunk [] (firstn n v) c1 cur H1) as (c2 & E2 & H2). rewrite E2 in H.
  inversion H; subst. apply cinv_end_err, H2.
Qed.

(* world invariant: cache invariant + the running Sets of model and reference agree *)
Definition pend_rel (ws : list (nat * pending)) (gs : list (nat * (bytes * bytes * bytes))) : Prop :=
  forall s, match nlookup s ws, nlookup s gs with
            | Some pd, Some (k, fed, src) => pd_key pd = k /\ pd_wr pd = WrMem fed /\ pd_src pd = src /\ pd_failat pd = None
            | None, None => True
            | _, _ => False
            end.

Definition handles_cache (hs : list (nat * handle)) : Prop :=
  forall h hd, nlookup h hs = Some hd -> exists r, hd = HCache r.

Definition winv (w : world) (g : ghost) : Prop :=
  cinv (w_c w) (g_cur g) /\ pend_rel (w_sets w) (g_pend g) /\ handles_cache (w_handles w).

Lemma handles_cache_set hs h r : handles_cache hs -> handles_cache (nset h (HCache r) hs).
Proof.
  intros H h' hd Hl. destruct (Nat.eq_dec h h') as [->|N].
  - rewrite nlookup_nset_eq in Hl. inversion Hl. eexists; reflexivity.
  - rewrite nlookup_nset_neq in Hl by exact N. eapply H; exact Hl.
Qed.

Lemma handles_cache_remove hs h : handles_cache hs -> handles_cache (nremove h hs).
Proof.
  intros H h' hd Hl. destruct (Nat.eq_dec h h') as [->|N].
  - rewrite nlookup_nremove_eq in Hl. discriminate.
  - rewrite nlookup_nremove_neq in Hl by exact N. eapply H; exact Hl.
Qed.

Lemma pend_rel_set ws gs s pd k fed src :
  pend_rel ws gs -> pd_key pd = k -> pd_wr pd = WrMem fed -> pd_src pd = src -> pd_failat pd = None ->
  pend_rel (nset s pd ws) (nset s (k, fed, src) gs).
Proof.
  intros H H1 H2 H3 H4 s'. destruct (Nat.eq_dec s s') as [->|N].
  - rewrite !nlookup_nset_eq. auto.
  - rewrite !nlookup_nset_neq by exact N. apply H.
Qed.

Lemma pend_rel_remove ws gs s : pend_rel ws gs -> pend_rel (nremove s ws) (nremove s gs).
Proof.
  intros H s'. destruct (Nat.eq_dec s s') as [->|N].
  - rewrite !nlookup_nremove_eq. exact I.
  - rewrite !nlookup_nremove_neq by exact N. apply H.
Qed.

Ltac inv H := inversion H; subst; clear H.
Ltac mk := split; [| split]; cbn.

(* one step of a cache operation preserves the invariant and a Get is sound *)
Lemma step_mem_sound o w g r w' :
  cache_op o = true -> winv w g -> step o w = Some (r, w') ->
  winv w' (gstep g o) /\
  match o with
  | OGet k => r = RMiss \/ exists v, alookup k (g_cur g) = Some v /\ r = RVal v
  | _ => True
  end.
Proof.
  intros Hop (Hc & Hp & Hh) H. destruct o; try discriminate Hop; cbn [step step1] in H; cbn [gstep].
  - (* OSet *)
    destruct (c_set k v hint None (w_c w)) as [c|] eqn:E; [|discriminate]. inv H.
    split; [|exact I]. mk; [eapply cinv_set; eassumption | exact Hp | exact Hh].
  - (* OSetFail *)
    destruct (c_set k v hint (Some n) (w_c w)) as [c|] eqn:E; [|discriminate]. inv H.
    split; [|exact I]. mk; [eapply cinv_set_fail; eassumption | exact Hp | exact Hh].
  - (* OGet *)
    destruct (cinv_get k _ _ Hc) as [Hc' Hr].
    destruct (c_get k (w_c w)) as [c r0] eqn:E. cbn [fst snd] in *.
    destruct Hr as [->|(v & Hv & ->)].
    + inv H. split; [mk; assumption | left; reflexivity].
    + inv H. split; [mk; assumption|]. right. exists v. split; [exact Hv|]. reflexivity.
  - (* ORemove *)
    inv H. split; [|exact I]. mk; [apply cinv_end_err, Hc | exact Hp | exact Hh].
  - (* OOpen *)
    split; [|exact I].
    destruct (nlookup h (w_handles w)) eqn:El; [inv H; mk; assumption|].
    destruct (cinv_get k _ _ Hc) as [Hc' _].
    destruct (c_get k (w_c w)) as [c r0] eqn:E. cbn [fst] in Hc'.
    destruct r0; inv H; mk; try assumption. apply handles_cache_set, Hh.
  - (* OBegin *)
    split; [|exact I]. pose proof (Hp s) as Hs.
    destruct (nlookup s (w_sets w)) as [pd|] eqn:E1; destruct (nlookup s (g_pend g)) as [[[k0 fed] src]|] eqn:E2;
      try contradiction.
    + inv H. mk; assumption.
    + destruct (c_begin k hint (w_c w)) as [[c wr0]|] eqn:E; [|discriminate]. inv H.
      destruct (cinv_begin _ _ _ _ _ _ Hc E) as [Hc' ->].
      mk; [exact Hc' | | exact Hh]. apply pend_rel_set; auto.
  - (* OFeed *)
    split; [|exact I]. pose proof (Hp s) as Hs.
    destruct (nlookup s (w_sets w)) as [pd|] eqn:E1; destruct (nlookup s (g_pend g)) as [[[k0 fed] src]|] eqn:E2;
      try contradiction.
    + destruct Hs as (Hk & Hw & Hsrc & Hfa). rewrite Hsrc in H.
      destruct (firstn n src) as [|b chunk] eqn:Ef.
      * (* nothing delivered: the world is unchanged *)
        inversion H; subst r w'; clear H.
        mk; [exact Hc | | exact Hh].
        intros s'. destruct (Nat.eq_dec s s') as [<-|N].
        -- rewrite nlookup_nset_eq, E1. rewrite app_nil_r. repeat split; auto.
           rewrite Hsrc, <- (skipn_length_firstn n src), Ef. reflexivity.
        -- rewrite nlookup_nset_neq by exact N. apply Hp.
      * inversion H; subst r w'; clear H. unfold feed. rewrite E1, Hw.
        destruct (cinv_chunk fed (b :: chunk) _ _ Hc) as (c' & Ec & Hc'). rewrite Ec, Hfa.
        mk; [exact Hc' | | exact Hh]. apply pend_rel_set; auto. cbn [pd_src].
        change (skipn (length (b :: chunk)) (pd_src pd) = skipn n src).
        rewrite Hsrc, <- Ef. apply skipn_length_firstn.
    + inv H. mk; assumption.
  - (* OEof *)
    split; [|exact I]. pose proof (Hp s) as Hs.
    destruct (nlookup s (w_sets w)) as [pd|] eqn:E1; destruct (nlookup s (g_pend g)) as [[[k0 fed] src]|] eqn:E2;
      try contradiction.
    + destruct Hs as (Hk & Hw & Hsrc & Hfa). rewrite Hw in H.
      destruct (c_end_ok (pd_key pd) (pd_hint pd) (WrMem fed) (pd_total pd) (w_c w)) as [c|] eqn:E; [|discriminate].
      inv H. mk; [eapply cinv_end_ok; eassumption | apply pend_rel_remove, Hp | exact Hh].
    + inv H. mk; assumption.
  - (* OErr *)
    split; [|exact I]. pose proof (Hp s) as Hs.
    destruct (nlookup s (w_sets w)) as [pd|] eqn:E1; destruct (nlookup s (g_pend g)) as [[[k0 fed] src]|] eqn:E2;
      try contradiction.
    + destruct Hs as (Hk & Hw & Hsrc & Hfa). inv H. mk; [apply cinv_end_err, Hc | apply pend_rel_remove, Hp | exact Hh].
    + inv H. mk; assumption.
  - (* ORead *)
    split; [|exact I].
    destruct (nlookup h (w_handles w)) as [hd|] eqn:El; [|inv H; mk; assumption].
    destruct (Hh _ _ El) as [r0 ->]. cbn [h_read would_hang] in H.
    destruct (rd_read r0 n (c_p (w_c w))) as [c r1]. inv H.
    mk; [exact Hc | exact Hp | apply handles_cache_set, Hh].
  - (* OFinish *)
    split; [|exact I].
    destruct (nlookup h (w_handles w)) as [hd|] eqn:El; [|inv H; mk; assumption].
    destruct (Hh _ _ El) as [r0 ->]. cbn [h_read would_hang] in H. inv H.
    mk; [exact Hc | exact Hp | apply handles_cache_remove, Hh].
  - (* OClose *)
    split; [|exact I].
    destruct (nlookup h (w_handles w)) as [hd|] eqn:El; [|inv H; mk; assumption].
    destruct (Hh _ _ El) as [r0 ->]. inv H.
    mk; [exact Hc | exact Hp | apply handles_cache_remove, Hh].
Qed.

Lemma winv_init pl mp : winv (w_init PMem pl mp) g0.
Proof.
  mk; [split; [reflexivity | intros k v H; discriminate] | intros s; exact I | intros h hd H; discriminate].
Qed.

Lemma run_mem_sound ops : forall w g rs,
  forallb cache_op ops = true -> winv w g -> run ops w = Some rs -> get_sound g ops rs.
Proof.
  induction ops as [|o ops IH]; intros w g rs Hops Hw H; cbn in H.
  - inv H. exact I.
  - cbn in Hops. apply andb_true_iff in Hops as [Ho Hops].
    destruct (step o w) as [[r w']|] eqn:E; [|discriminate].
    destruct (run ops w') as [rs'|] eqn:E2; [|discriminate]. inv H.
    destruct (step_mem_sound _ _ _ _ _ Ho Hw E) as [Hw' Hr].
    cbn [get_sound]. split; [destruct o; exact Hr || exact I | eapply IH; eassumption].
Qed.

(* all interleavings, in-memory persistor *)
Lemma mem_get_sound pl mp ops rs :
  forallb cache_op ops = true -> run ops (w_init PMem pl mp) = Some rs -> get_sound g0 ops rs.
Proof. intros Ho H. eapply run_mem_sound; [exact Ho | apply winv_init | exact H]. Qed.

(* ---------- refutations by concrete histories ---------- *)
Definition val10 : bytes := content 1 10.

(* filesystem persistor: a Get between the open-truncate and the end of a streaming Set returns a prefix *)
Definition fs_partial_ops : list op := [OBegin 0 B"a" val10 (-1); OFeed 0 4; OGet B"a"].
Lemma fs_partial_run :
  run fs_partial_ops (w_init PFs EvictNothing 64) = Some [ROk; ROk; RVal (firstn 4 val10)].
Proof. vm_compute. reflexivity. Qed.
Lemma fs_partial_unsound : ~ get_sound g0 fs_partial_ops [ROk; ROk; RVal (firstn 4 val10)].
Proof.
  cbn. intros (_ & _ & [H | (v & Hv & _)] & _); [discriminate H | discriminate Hv].
Qed.

(* filesystem persistor: a Set truncates and rewrites the file under an open reader: the reader delivers a mix *)
Definition fs_mixed_ops : list op :=
  [OSet B"a" val10 10; OOpen 0 B"a"; ORead 0 4; OSet B"a" (content 2 10) 10; OFinish 0].
Lemma fs_mixed_run :
  run fs_mixed_ops (w_init PFs EvictNothing 64)
  = Some [ROk; ROpen B"h"; RVal (firstn 4 val10); ROk; RVal (skipn 4 (content 2 10))].
Proof. vm_compute. reflexivity. Qed.

(* regression: the former panic witnesses (entry larger than the size limit, key limit 0, fill goroutine) *)
Lemma lfu_oversize_ok : run [OSet B"a" (content 1 5) 5; OGet B"a"] (w_init PMem (LfuSize 4) 64) = Some [ROk; RVal (content 1 5)].
Proof. vm_compute. reflexivity. Qed.
Lemma lfu_keys0_ok : run [OSet B"a" (content 1 1) 1; OSet B"b" (content 2 1) 1; OGet B"a"; OGet B"b"] (w_init PMem (LfuKeys 0) 64)
  = Some [ROk; ROk; RMiss; RVal (content 2 1)].
Proof. vm_compute. reflexivity. Qed.
Lemma lfu_fill_ok : run [PInner B"a" (content 1 9); PGet B"a"; PGet B"a"] (w_init PMem (LfuSize 4) 64)
  = Some [ROk; RVal (content 1 9); RVal (content 1 9)].
Proof. vm_compute. reflexivity. Qed.

(* part store, in-memory persistor: a miss fill that finishes after DeletePart re-inserts the deleted bytes *)
Definition stale_ops : list op := [PInner B"a" val10; POpen 0 B"a"; PDelete B"a"; OFinish 0; PGet B"a"].
Lemma stale_run :
  run stale_ops (w_init PMem EvictNothing 64) = Some [ROk; ROpen B"s"; ROk; RVal val10; RVal val10].
Proof. vm_compute. reflexivity. Qed.
Lemma stale_unsound : ~ part_sound [] stale_ops [ROk; ROpen B"s"; ROk; RVal val10; RVal val10].
Proof. cbn. intros (_ & _ & _ & _ & H & _). discriminate H. Qed.

(* part store, filesystem persistor: GetPart during a miss fill of the same part returns a prefix *)
Definition part_partial_ops : list op := [PInner B"a" val10; POpen 0 B"a"; ORead 0 4; PGet B"a"].
Lemma part_partial_run :
  run part_partial_ops (w_init PFs EvictNothing 64) = Some [ROk; ROpen B"s"; RVal (firstn 4 val10); RVal (firstn 4 val10)].
Proof. vm_compute. reflexivity. Qed.
Lemma part_partial_unsound :
  ~ part_sound [] part_partial_ops [ROk; ROpen B"s"; RVal (firstn 4 val10); RVal (firstn 4 val10)].
Proof. cbn. intros (_ & _ & _ & H & _). vm_compute in H. discriminate H. Qed.

(* the size limit is exceeded although it is satisfiable: re-Set of a key evicts that key's own old heap entry *)
Definition stored_bytes (w : world) : nat :=
  fold_right (fun kv n => length (snd kv) + n) 0 (p_map (c_p (w_c w))).
Fixpoint final (ops : list op) (w : world) : option world :=
  match ops with
  | [] => Some w
  | o :: rest => match step o w with None => None | Some (_, w') => final rest w' end
  end.
Lemma size_limit_exceeded :
  option_map stored_bytes
    (final [OSet B"a" (content 1 5) 5; OSet B"b" (content 2 3) 3; OSet B"a" (content 3 8) 8] (w_init PMem (LfuSize 10) 64))
  = Some 11.
Proof. vm_compute. reflexivity. Qed.

(* ---------- no operation panics: the eviction loop always terminates normally ---------- *)
Lemma upd_length {A} i (x : A) l : length (upd i x l) = length l.
Proof. revert i; induction l as [|y l IH]; intros [|i]; cbn; auto. Qed.

Lemma hswap_length i j h : length (hswap i j h) = length h.
Proof. unfold hswap. rewrite !upd_length. reflexivity. Qed.

Lemma heap_down_length fuel : forall i n h, length (fst (heap_down fuel i n h)) = length h.
Proof.
  induction fuel as [|f IH]; intros i n h; cbn [heap_down]; [reflexivity|].
  destruct (n <=? 2 * i + 1); [reflexivity|].
  match goal with |- context [if negb ?b then _ else _] => destruct b end; cbn [negb]; [|reflexivity].
  rewrite IH, hswap_length. reflexivity.
Qed.

Lemma heap_pop_eq h e h' : heap_pop h = Some (e, h') ->
  h <> [] /\ h' = firstn (length h - 1) (fst (heap_down (length h) 0 (length h - 1) (hswap 0 (length h - 1) h))).
Proof. destruct h as [|x h]; [discriminate|]. intros H. inversion H. split; [discriminate | reflexivity]. Qed.

Lemma heap_pop_length h e h' : heap_pop h = Some (e, h') -> S (length h') = length h.
Proof.
  intros H. apply heap_pop_eq in H as [Hn ->].
  rewrite firstn_length, heap_down_length, hswap_length. destruct h; [contradiction | cbn [length]; lia].
Qed.

Lemma evict_loop_total fuel : forall s acc, length (l_heap s) <= fuel -> exists r, evict_loop fuel s acc = Some r.
Proof.
  induction fuel as [|f IH]; intros s acc Hl.
  - cbn [evict_loop]. destruct (should_evict s); [|eexists; reflexivity].
    destruct (l_heap s) as [|x h] eqn:E; [cbn; eexists; reflexivity | cbn in Hl; lia].
  - cbn [evict_loop]. destruct (should_evict s); [|eexists; reflexivity].
    destruct (heap_pop (l_heap s)) as [[e h']|] eqn:E; [|eexists; reflexivity].
    apply heap_pop_length in E. apply IH. cbn. lia.
Qed.

Lemma track_set_total k sz c : exists c', c_track_set k sz c = Some c'.
Proof.
  unfold c_track_set, pol_track_set. destruct (c_pol c) as [|s]; [eexists; reflexivity|].
  unfold lfu_track_set.
  destruct (evict_loop_total (S (length (l_heap (ck_track_set k sz s)))) (ck_track_set k sz s) []) as [[ev s2] ->]; [lia|].
  eexists; reflexivity.
Qed.

Lemma begin_total k hint c : exists c' w, c_begin k hint c = Some (c', w).
Proof.
  unfold c_begin. destruct (0 <=? hint)%Z.
  - destruct (track_set_total k hint c) as (c1 & ->).
    destruct (p_open (c_kind c1) k (c_p c1)) as [p' w]. eexists _, _; reflexivity.
  - destruct (p_open (c_kind c) k (c_p c)) as [p' w]. eexists _, _; reflexivity.
Qed.

Lemma end_ok_total k hint w total c : exists c', c_end_ok k hint w total c = Some c'.
Proof.
  unfold c_end_ok. destruct (0 <=? hint)%Z; [eexists; reflexivity | apply track_set_total].
Qed.

Lemma set_total k v hint fail c : exists c', c_set k v hint fail c = Some c'.
Proof.
  unfold c_set. destruct (begin_total k hint c) as (c1 & w & ->).
  destruct fail as [n|].
  - destruct (c_chunk w (firstn n v) c1) as [c2 w2]. eexists; reflexivity.
  - destruct (c_chunk w v c1) as [c2 w2]. apply end_ok_total.
Qed.

Lemma fill_ok_total sid w : exists w', fill_ok sid w = Some w'.
Proof.
  unfold fill_ok. destruct (nlookup sid (w_sets w)) as [pd|]; [|eexists; reflexivity].
  destruct (end_ok_total (pd_key pd) (pd_hint pd) (pd_wr pd) (pd_total pd) (w_c w)) as (c' & ->). eexists; reflexivity.
Qed.

Lemma h_read_total hd n w : exists c e hd' w', h_read hd n w = Some (c, e, hd', w').
Proof.
  destruct hd as [r | data off trunc | data off written active sid trunc]; cbn [h_read].
  - destruct n as [n|]; [destruct (rd_read r n (c_p (w_c w))) |]; eexists _, _, _, _; reflexivity.
  - eexists _, _, _, _; reflexivity.
  - match goal with |- context [if ?b then (if trunc then _ else match fill_ok sid ?w1 with _ => _ end) else _] =>
      destruct b; [destruct trunc; [|destruct (fill_ok_total sid w1) as (w2 & ->)]|] end; eexists _, _, _, _; reflexivity.
Qed.

Lemma part_open_in_total intx h id f w : exists r w', part_open_in intx h id f w = Some (r, w').
Proof.
  unfold part_open_in. destruct (nlookup h (w_handles w)); [eexists _, _; reflexivity|].
  destruct (c_get id (w_c w)) as [c [r|]]; [eexists _, _; reflexivity|].
  cbn [set_c w_inner w_hints w_c w_handles w_sets w_nextsid].
  assert (exists r w', match alookup id (inner_view intx (set_c c w)) with
     | None => Some (RNotFound, set_c c w)
     | Some data0 =>
        let trunc := match f with FReadFail k => k <? length data0 | _ => false end in
        let data := match f with FReadFail k => firstn k data0 | _ => data0 end in
        if mem_bytes id (w_hints w) then Some (ROpen B"i", set_handles (nset h (HInner data 0 trunc) (w_handles w)) (set_c c w))
        else match c_begin id (-1) c with
             | None => None
             | Some (c2, wr0) =>
                 let sid := w_nextsid w in
                 let failat := match f with FStoreFail j => Some j | _ => None end in
                 let w2 := bump_sid (set_c c2 (set_c c w)) in
                 let w3 := match failat with
                           | Some 0 => set_c (c_remove id (c_end_err id c2)) w2
                           | _ => set_sets (nset sid {| pd_key := id; pd_hint := (-1)%Z; pd_wr := wr0; pd_total := 0;
                                                       pd_src := []; pd_failat := failat |} (w_sets w2)) w2
                           end in
                 Some (ROpen B"s", set_handles (nset h (HStream data 0 0 true sid trunc) (w_handles w3)) w3)
             end
     end = Some (r, w')) as Hmain.
  { destruct (alookup id (inner_view intx (set_c c w))) as [data0|]; [|eexists _, _; reflexivity]. cbv zeta.
    destruct (mem_bytes id (w_hints w)); [eexists _, _; reflexivity|].
    destruct (begin_total id (-1) c) as (c2 & wr0 & ->). eexists _, _; reflexivity. }
  destruct f; try exact Hmain. eexists _, _; reflexivity.
Qed.

Lemma part_open_total h id f w : exists r w', part_open h id f w = Some (r, w').
Proof. apply part_open_in_total. Qed.

Lemma commit_hooks_total ops : forall w, exists w', commit_hooks ops w = Some w'.
Proof.
  induction ops as [|[id v|id] ops IH]; intros w; cbn [commit_hooks]; [eexists; reflexivity| |apply IH].
  destruct (length v <=? w_maxpart w); [|apply IH].
  match goal with |- context [c_set id v ?hint None ?c] => destruct (set_total id v hint None c) as (c' & ->) end. apply IH.
Qed.

Lemma step1_total o w : exists r w', step1 o w = Some (r, w').
Proof.
  destruct o; cbn [step1]; try apply part_open_total; try (eexists _, _; reflexivity).
  - destruct (set_total k v hint None (w_c w)) as (c & ->). eexists _, _; reflexivity.
  - destruct (set_total k v hint (Some n) (w_c w)) as (c & ->). eexists _, _; reflexivity.
  - destruct (c_get k (w_c w)) as [c [r|]]; eexists _, _; reflexivity.
  - destruct (nlookup h (w_handles w)); [eexists _, _; reflexivity|].
    destruct (c_get k (w_c w)) as [c [r|]]; eexists _, _; reflexivity.
  - destruct (nlookup s (w_sets w)); [eexists _, _; reflexivity|].
    destruct (begin_total k hint (w_c w)) as (c & wr0 & ->). eexists _, _; reflexivity.
  - destruct (nlookup s (w_sets w)) as [pd|]; eexists _, _; reflexivity.
  - destruct (nlookup s (w_sets w)) as [pd|]; [|eexists _, _; reflexivity].
    destruct (end_ok_total (pd_key pd) (pd_hint pd) (pd_wr pd) (pd_total pd) (w_c w)) as (c & ->). eexists _, _; reflexivity.
  - destruct (nlookup s (w_sets w)) as [pd|]; eexists _, _; reflexivity.
  - destruct (nlookup h (w_handles w)) as [hd|]; [|eexists _, _; reflexivity].
    destruct (would_hang hd (Some n) w); [eexists _, _; reflexivity|].
    destruct (h_read_total hd (Some n) w) as (c & e & hd' & w' & ->). eexists _, _; reflexivity.
  - destruct (nlookup h (w_handles w)) as [hd|]; [|eexists _, _; reflexivity].
    destruct (would_hang hd None w); [eexists _, _; reflexivity|].
    destruct (h_read_total hd None w) as (c & e & hd' & w' & ->). eexists _, _; reflexivity.
  - destruct (nlookup h (w_handles w)) as [hd|]; eexists _, _; reflexivity.
  - destruct (length v <=? w_maxpart w).
    + match goal with |- context [c_set id v ?hint None ?c] => destruct (set_total id v hint None c) as (c' & ->) end.
      eexists _, _; reflexivity.
    + eexists _, _; reflexivity.
  - destruct (alookup id (w_inner w)); eexists _, _; reflexivity.
  - destruct (alookup id (w_inner w)); eexists _, _; reflexivity.
  - destruct (length v <=? w_maxpart w); [|eexists _, _; reflexivity].
    match goal with |- context [c_set id v ?hint ?fl ?c] => destruct (set_total id v hint fl c) as (c' & ->) end.
    eexists _, _; reflexivity.
  - destruct (w_tx w); eexists _, _; reflexivity.
  - destruct (w_tx w); eexists _, _; reflexivity.
  - destruct (w_tx w); eexists _, _; reflexivity.
  - destruct (w_tx w) as [ops|]; [|eexists _, _; reflexivity].
    destruct (commit_hooks_total ops (set_tx None (set_inner (apply_txops ops (w_inner w)) w))) as (w' & ->). eexists _, _; reflexivity.
  - destruct (w_tx w); eexists _, _; reflexivity.
Qed.

Lemma step_total o w : exists r w', step o w = Some (r, w').
Proof.
  destruct o; try apply step1_total; cbn [step].
  - destruct (step1_total (POpen tmp_handle id) w) as (r & w1 & ->).
    destruct r; try (eexists _, _; reflexivity). apply step1_total.
  - destruct (step1_total (POpenF tmp_handle id f) w) as (r & w1 & ->).
    destruct r; try (eexists _, _; reflexivity). apply step1_total.
  - destruct (step1_total (POpen tmp_handle id) w) as (r & w1 & ->).
    destruct r; try (eexists _, _; reflexivity).
    destruct (step1_total (ORead tmp_handle n) w1) as (r2 & w2 & ->).
    destruct (step1_total (OClose tmp_handle) w2) as (r3 & w3 & ->). eexists _, _; reflexivity.
  - destruct (w_tx w); [|eexists _, _; reflexivity].
    destruct (part_open_in_total true tmp_handle id FNone w) as (r & w1 & ->).
    destruct r; try (eexists _, _; reflexivity). apply step1_total.
  - destruct (w_tx w); [|eexists _, _; reflexivity].
    destruct (part_open_in_total true tmp_handle id FNone w) as (r & w1 & ->).
    destruct r; try (eexists _, _; reflexivity).
    destruct (step1_total (ORead tmp_handle n) w1) as (r2 & w2 & ->).
    destruct (step1_total (OClose tmp_handle) w2) as (r3 & w3 & ->). eexists _, _; reflexivity.
Qed.

Lemma run_total ops : forall w, run ops w <> None.
Proof.
  induction ops as [|o ops IH]; intros w; cbn; [discriminate|].
  destruct (step_total o w) as (r & w' & ->). specialize (IH w').
  destruct (run ops w'); [discriminate | contradiction].
Qed.
