(* Proofs/MetaPartsOps.v — every operation of M-META preserves the part-protocol invariant [PInvG]
   (MetaParts.v); lifted to [step] and to all histories. *)
From Verif Require Import Bytes Codec Md5 Meta MetaPartsDefs MetaParts.
From Coq Require Import ZifyBool ZifyN ZifyNat.

Lemma commit_cases s0 r :
  fst (commit s0 r) = s0 \/ (fst (commit s0 r) = fst r /\ forall e, snd r <> RErr e).
Proof.
  unfold commit. destruct (snd r) eqn:E; try (left; reflexivity);
    (destruct (unique_ok (fst r) && parts_unique_ok (fst r)); [right | left; reflexivity]);
    (split; [reflexivity | intros e0; discriminate]).
Qed.

Lemma In_insert_sorted x p l : In x (insert_sorted p l) <-> x = p \/ In x l.
Proof.
  induction l as [|q l IH]; cbn [insert_sorted].
  - split; [intros [A|[]]; left; auto | intros [A|[]]; left; auto].
  - destruct (p_seq p <=? p_seq q)%N.
    + split; [intros [A|A]; [left; auto | right; exact A] | intros [A|A]; [left; auto | right; exact A]].
    + cbn [In]. rewrite IH. split; [intros [A|[A|A]] | intros [A|[A|A]]]; auto.
Qed.
Lemma In_sort_parts x l : In x (sort_parts l) <-> In x l.
Proof.
  unfold sort_parts. induction l as [|q l IH]; cbn [fold_right]; [reflexivity|].
  rewrite In_insert_sorted, IH. cbn [In]. split; intros [A|A]; auto.
Qed.
Lemma row_parts_sub s r row : In row (row_parts s r) -> In row (parts s).
Proof.
  unfold row_parts, obj_parts. intros H. apply (proj1 (In_sort_parts _ _)) in H. apply filter_In in H. apply H.
Qed.

Section Ops.
Variable strict : bool.
Variable D : N -> Prop.
Variable n0 : N.
Notation PI := (PInvG strict D n0).

Hint Resolve same_ps_refl same_ps_set_latest same_ps_update_row same_ps_delete_row same_ps_with_ids
  same_ps_set_buckets : sps.

Lemma same_ps_insert_row' s mk id s' : insert_row s mk = (id, s') -> same_ps s s'.
Proof. intros H. change s' with (snd (id, s')). rewrite <- H. apply same_ps_insert_row. Qed.

(* sqlMetadataStore.PutObject *)
Lemma meta_put_inv s vn b k w c s' r unref :
  meta_put s vn b k w c = (s', r, unref) -> (forall e, r <> RErr e) ->
  PI s (w_parts w) [] -> PI s' [] unref.
Proof.
  intros H Hne Hinv. unfold meta_put in H. cbv zeta in H.
  destruct (find_bucket s b) as [bk|]; [|inversion H; subst; exfalso; eapply Hne; reflexivity].
  destruct (cond_fails c (find_latest s b k)); [inversion H; subst; exfalso; eapply Hne; reflexivity|].
  set (s1 := match find_latest s b k with
             | Some r => if is_cond c then set_latest s r (o_latest r) else s
             | None => s end) in H.
  assert (S1 : same_ps s s1).
  { unfold s1. destruct (find_latest s b k); [destruct (is_cond c)|]; auto with sps. }
  set (s2 := match find_latest s1 b k with Some r => set_latest s1 r false | None => s1 end) in H.
  assert (S2 : same_ps s s2).
  { eapply same_ps_trans; [exact S1|]. unfold s2. destruct (find_latest s1 b k); auto with sps. }
  assert (Hfresh : forall mk id s3, insert_row s2 mk = (id, s3) ->
                     PI (save_part_rows s3 id (w_parts w) 0) [] []).
  { intros mk id s3 E. apply save_part_rows_inv. rewrite app_nil_r.
    eapply pinvg_same; [|exact Hinv]. eapply same_ps_trans; [exact S2|]. eapply same_ps_insert_row'; exact E. }
  destruct (b_ver bk).
  2: { destruct (insert_row s2 _) as [id s3] eqn:E. inversion H; subst. eapply Hfresh; exact E. }
  all: destruct (is_inm c && match find_null s1 b k with Some _ => true | None => false end);
    [inversion H; subst; exfalso; eapply Hne; reflexivity|].
  all: destruct (find_null s1 b k) as [nr|];
    [| destruct (insert_row s2 _) as [id s3] eqn:E; inversion H; subst; eapply Hfresh; exact E].
  all: match type of H with context [remove_parts_of ?X ?Y] =>
         destruct (remove_parts_of X Y) as [s4 un] eqn:E; 
         assert (S3 : same_ps s X) by (eapply same_ps_trans; [exact S2 | auto with sps]) end.
  all: inversion H; subst; clear H.
  all: apply save_part_rows_inv; rewrite app_nil_r.
  all: unfold remove_parts_of in E; apply (remove_part_rows_inv strict D n0 _ _ _ _ (w_parts w) []) in E;
    [rewrite app_nil_r in E; exact E | eapply pinvg_same; [exact S3 | exact Hinv]].
Qed.

Ltac is_err H Hne := inversion H; subst; exfalso; eapply Hne; reflexivity.

Lemma remove_parts_of_inv s oid s' un pend :
  remove_parts_of s oid = (s', un) -> PI s pend [] -> PI s' pend un.
Proof.
  intros E Hi. unfold remove_parts_of in E.
  apply (remove_part_rows_inv strict D n0 _ _ _ _ pend []) in E; [rewrite app_nil_r in E; exact E | exact Hi].
Qed.

Lemma op_put_inv s0 vn b k content c : PI s0 [] [] -> PI (fst (op_put s0 vn b k content c)) [] [].
Proof.
  intros Hi. unfold op_put. destruct (commit_cases s0
    (let '(np, s) := put_fresh_part s0 content in
     let '(s, r, unref) := meta_put s vn b k (plain_obj (mk_md5 content) (zlen content) [np]) c in
     (delete_unreferenced s unref, r))) as [->|[-> Hne]]; [exact Hi|].
  destruct (put_fresh_part s0 content) as [np s1] eqn:E1.
  destruct (meta_put s1 vn b k (plain_obj (mk_md5 content) (zlen content) [np]) c) as [[s2 r] un] eqn:E2.
  cbn [fst snd] in *. apply delete_unreferenced_inv.
  eapply meta_put_inv; [exact E2 | exact Hne |]. cbn [w_parts plain_obj].
  eapply put_fresh_part_inv; [exact E1 | exact Hi].
Qed.

Lemma purge_row_inv s r s' un : purge_row s r = (s', un) -> PI s [] [] -> PI s' [] un.
Proof.
  unfold purge_row. intros H Hi. destruct (o_dm r).
  - inversion H; subst. eapply pinvg_same; [apply same_ps_delete_row | exact Hi].
  - destruct (remove_parts_of s (o_id r)) as [s1 u] eqn:E. inversion H; subst.
    eapply pinvg_same; [apply same_ps_delete_row|]. eapply remove_parts_of_inv; [exact E | exact Hi].
Qed.

Lemma meta_delete_inv s vn bk b k v c s' r unref :
  meta_delete s vn bk b k v c = (s', r, unref) -> (forall e, r <> RErr e) ->
  PI s [] [] -> PI s' [] unref.
Proof.
  intros H Hne Hi. unfold meta_delete in H. cbv zeta in H. destruct v as [v|].
  - destruct (find_version s b k v) as [ve|]; [|inversion H; subst; exact Hi].
    match type of H with (if ?X then _ else _) = _ => destruct X; [is_err H Hne|] end.
    destruct (purge_row s ve) as [s1 un] eqn:E. inversion H; subst; clear H.
    apply purge_row_inv in E; [|exact Hi].
    destruct (o_latest ve); [|exact E].
    destruct (find_next_latest s1 b k (o_id ve)); [|exact E].
    eapply pinvg_same; [apply same_ps_set_latest | exact E].
  - destruct (del_cond_fails c (find_latest s b k)); [is_err H Hne|].
    destruct (b_ver bk).
    + destruct (find_latest s b k) as [cur|]; [|inversion H; subst; exact Hi].
      match type of H with context [purge_row ?X ?Y] => destruct (purge_row X Y) as [s1 un] eqn:E end.
      inversion H; subst; clear H. apply purge_row_inv in E; [exact E|].
      destruct (is_cond c); [|exact Hi]. eapply pinvg_same; [apply same_ps_set_latest | exact Hi].
    + match type of H with context [insert_row ?X ?Y] => destruct (insert_row X Y) as [id s1] eqn:E end.
      inversion H; subst; clear H. apply same_ps_insert_row' in E.
      eapply pinvg_same; [exact E|]. destruct (find_latest s b k); [|exact Hi].
      eapply pinvg_same; [apply same_ps_set_latest | exact Hi].
    + destruct (find_null s b k) as [nr|].
      * destruct (remove_parts_of s (o_id nr)) as [s1 un] eqn:E.
        match type of H with context [insert_row ?X ?Y] => destruct (insert_row X Y) as [id s2] eqn:E2 end.
        inversion H; subst; clear H. apply same_ps_insert_row' in E2.
        eapply pinvg_same; [exact E2|].
        assert (PI (delete_row s1 (o_id nr)) [] unref) as Hd.
        { eapply pinvg_same; [apply same_ps_delete_row|]. eapply remove_parts_of_inv; [exact E | exact Hi]. }
        destruct (find_latest s b k); [|exact Hd].
        eapply pinvg_same; [apply same_ps_set_latest | exact Hd].
      * match type of H with context [insert_row ?X ?Y] => destruct (insert_row X Y) as [id s1] eqn:E end.
        inversion H; subst; clear H. apply same_ps_insert_row' in E.
        eapply pinvg_same; [exact E|]. destruct (find_latest s b k); [|exact Hi].
        eapply pinvg_same; [apply same_ps_set_latest | exact Hi].
Qed.

Ltac commit_split Hi Hne :=
  match goal with |- context [commit ?s0 ?X] =>
    destruct (commit_cases s0 X) as [->|[-> Hne]]; [exact Hi|] end.

Lemma op_delete_inv s0 vn b k v c : PI s0 [] [] -> PI (fst (op_delete s0 vn b k v c)) [] [].
Proof.
  intros Hi. unfold op_delete. commit_split Hi Hne. cbv zeta in *.
  destruct (find_bucket s0 b) as [bk|]; [|exact Hi].
  match goal with |- PI (fst (if ?X then _ else _)) _ _ => destruct X end.
  - destruct (meta_delete s0 vn bk b k v c) as [[s1 r] un] eqn:E. cbn [fst snd] in *.
    apply delete_unreferenced_inv. eapply meta_delete_inv; [exact E | exact Hne | exact Hi].
  - destruct (is_cond c); exact Hi.
Qed.

Lemma op_mb_inv s b : PI s [] [] -> PI (fst (op_mb s b)) [] [].
Proof.
  intros Hi. unfold op_mb. destruct (find_bucket s b); [exact Hi|].
  eapply pinvg_same; [apply same_ps_set_buckets | exact Hi].
Qed.
Lemma op_rb_inv s b : PI s [] [] -> PI (fst (op_rb s b)) [] [].
Proof.
  intros Hi. unfold op_rb. destruct (find_bucket s b); [|exact Hi]. destruct (existsb _ _); [exact Hi|].
  eapply pinvg_same; [apply same_ps_set_buckets | exact Hi].
Qed.
Lemma op_ver_inv s b v : PI s [] [] -> PI (fst (op_ver s b v)) [] [].
Proof.
  intros Hi. unfold op_ver. destruct (find_bucket s b); [|exact Hi].
  eapply pinvg_same; [apply same_ps_set_buckets | exact Hi].
Qed.
Lemma op_cmu_inv s u b k : PI s [] [] -> PI (fst (op_cmu s u b k)) [] [].
Proof.
  intros Hi. unfold op_cmu. destruct (find_bucket s b); [|exact Hi].
  destruct (insert_row s _) as [id s1] eqn:E. apply same_ps_insert_row' in E.
  eapply pinvg_same; [exact E | exact Hi].
Qed.

Lemma op_upload_part_inv s0 b k u pn content : PI s0 [] [] -> PI (fst (op_upload_part s0 b k u pn content)) [] [].
Proof.
  intros Hi. unfold op_upload_part. commit_split Hi Hne.
  destruct (find_bucket s0 b) as [bk|] eqn:Fb; [|exact Hi].
  destruct (find_upload s0 b k u) as [up|]; [|exact Hi].
  destruct (put_fresh_part s0 content) as [np s1] eqn:E1.
  destruct (meta_upload_part s1 b k u pn np) as [[s2 r] un] eqn:E2. cbn [fst snd] in *.
  apply delete_unreferenced_inv.
  apply (put_fresh_part_inv strict D n0) in E1; [|exact Hi].
  unfold meta_upload_part in E2.
  destruct (find_bucket s1 b); [|is_err E2 Hne].
  destruct (find_upload s1 b k u) as [r1|]; [|is_err E2 Hne].
  match type of E2 with context [remove_part_rows ?X ?Y] => destruct (remove_part_rows X Y) as [s3 un3] eqn:E3 end.
  inversion E2; subst; clear E2.
  apply (save_part_rows_inv strict D n0 [np] s3 (o_id r1) pn [] un). cbn [app].
  apply (remove_part_rows_inv strict D n0 _ _ _ _ [np] []) in E3; [rewrite app_nil_r in E3; exact E3 | exact E1].
Qed.

Lemma op_abort_inv s0 b k u : PI s0 [] [] -> PI (fst (op_abort s0 b k u)) [] [].
Proof.
  intros Hi. unfold op_abort. commit_split Hi Hne.
  destruct (find_bucket s0 b) as [bk|]; [|exact Hi].
  destruct (find_upload s0 b k u) as [up|]; [|exact Hi].
  destruct (remove_parts_of s0 (o_id up)) as [s1 un] eqn:E. cbn [fst].
  apply delete_unreferenced_inv. eapply pinvg_same; [apply same_ps_delete_row|].
  eapply remove_parts_of_inv; [exact E | exact Hi].
Qed.

Lemma op_copy_inv s0 vn sb sk sv db dk : PI s0 [] [] -> PI (fst (op_copy s0 vn sb sk sv db dk)) [] [].
Proof.
  intros Hi. unfold op_copy. commit_split Hi Hne. cbv zeta in *.
  destruct (lookup s0 sb sk sv) as [[src|]|e]; try exact Hi.
  destruct (negb (manifest_complete s0 src)); [exact Hi|].
  destruct (try_add_refs (registry s0) (map p_pid (row_parts s0 src))) as [reg|] eqn:T; [|exact Hi].
  match goal with |- context [meta_put ?a ?b ?c ?d ?e ?f] =>
    destruct (meta_put a b c d e f) as [[s2 r] un] eqn:E2 end.
  cbn [fst snd] in *. apply delete_unreferenced_inv.
  eapply meta_put_inv; [exact E2 | exact Hne |]. cbn [w_parts].
  fold (shared_of (row_parts s0 src)).
  rewrite <- (app_nil_r (shared_of (row_parts s0 src))).
  apply try_add_refs_inv; [exact T | apply row_parts_sub | exact Hi].
Qed.

Ltac d_if := match goal with |- PI (fst (if ?X then _ else _)) _ _ => destruct X end.
Ltac d_match := match goal with |- PI (fst (match ?X with _ => _ end)) _ _ => destruct X end.

Lemma finish_inv sX (o : option orow) r' un :
  PI sX [] un ->
  PI (delete_unreferenced (update_row (match o with Some r => set_latest sX r false | None => sX end) r') un) [] [].
Proof.
  intros Hi. apply delete_unreferenced_inv. eapply pinvg_same; [|exact Hi].
  eapply same_ps_trans; [|apply same_ps_update_row]. destruct o; auto with sps.
Qed.

Lemma op_complete_inv s0 vn b k u decl c : PI s0 [] [] -> PI (fst (op_complete s0 vn b k u decl c)) [] [].
Proof.
  intros Hi. unfold op_complete. commit_split Hi Hne. cbv beta zeta in *.
  destruct (find_bucket s0 b) as [bk|]; [|exact Hi].
  destruct (find_upload s0 b k u) as [up|]; [|exact Hi].
  d_if; [exact Hi|]. d_match; [exact Hi|]. d_if; [exact Hi|].
  set (s1 := match find_latest s0 b k with
             | Some r => if is_cond c then set_latest s0 r (o_latest r) else s0
             | None => s0 end) in *.
  assert (H1 : PI s1 [] []).
  { eapply pinvg_same; [|exact Hi]. unfold s1. destruct (find_latest s0 b k); [destruct (is_cond c)|]; auto with sps. }
  destruct (b_ver bk).
  2: { cbn [fst]. apply finish_inv. exact H1. }
  all: destruct (find_null s1 b k) as [nr|]; [|cbn [fst]; apply finish_inv; exact H1].
  all: destruct (is_inm c); [exact H1|].
  all: destruct (remove_parts_of s1 (o_id nr)) as [s2 un] eqn:E; cbn [fst]; apply finish_inv.
  all: eapply pinvg_same; [apply same_ps_delete_row|]; eapply remove_parts_of_inv; [exact E | exact H1].
Qed.

Lemma op_append_inv s0 vn b k content off : PI s0 [] [] -> PI (fst (op_append s0 vn b k content off)) [] [].
Proof.
  intros Hi. unfold op_append. commit_split Hi Hne. cbv beta zeta in *.
  destruct (find_bucket s0 b) as [bk|]; [|exact Hi].
  set (existing := match find_latest s0 b k with
                   | Some r => if o_dm r then None else Some r
                   | None => None end) in *.
  d_if; [exact Hi|]. d_if; [exact Hi|].
  destruct (put_fresh_part s0 content) as [np s1] eqn:E1.
  apply (put_fresh_part_inv strict D n0) in E1; [|exact Hi].
  set (old_parts := match existing with Some r => row_parts s1 r | None => [] end) in *.
  assert (Hsub : forall row, In row old_parts -> In row (parts s1)).
  { unfold old_parts. destruct existing; [apply row_parts_sub | intros row []]. }
  assert (Hnew : forall s2 id seq, same_ps s1 s2 -> PI (save_part_rows s2 id [np] seq) [] []).
  { intros s2 id seq S. apply save_part_rows_inv. cbn [app]. eapply pinvg_same; [exact S | exact E1]. }
  assert (Hinplace : PI (fst
    match find_latest s1 b k with
    | Some old =>
        let existing_rows := sort_parts (obj_parts s1 (o_id old)) in
        let r' := {| o_id := o_id old; o_bucket := b; o_key := k; o_vid := o_vid old; o_latest := true;
                     o_dm := false; o_upload := None; o_created := o_created old; o_updated := o_updated old;
                     o_lock := o_lock old; o_etag := mk_multi (map p_content old_parts ++ [content]);
                     o_size := (match existing with Some r => o_size r | None => 0 end + zlen content)%Z;
                     o_ctype := o_ctype old; o_class := o_class old; o_tags := o_tags old;
                     o_umeta := o_umeta old; o_written := clock s1 |} in
        let s := update_row s1 r' in
        let next_seq := match rev existing_rows with [] => 0%N | lastp :: _ => (p_seq lastp + 1)%N end in
        let s := save_part_rows s (o_id old) [np] next_seq in
        (s, RAppend (mk_multi (map p_content old_parts ++ [content]))
                    (match existing with Some r => o_size r | None => 0 end + zlen content)%Z)
    | None =>
        let w := {| w_etag := mk_multi (map p_content old_parts ++ [content]);
                    w_size := (match existing with Some r => o_size r | None => 0 end + zlen content)%Z;
                    w_ctype := None; w_class := None; w_tags := [];
                    w_umeta := []; w_parts := [np] |} in
        let '(id, s) := insert_row s1 (mk_row b k (Some VNull) true false None w) in
        (save_part_rows s id [np] 0, RAppend (mk_multi (map p_content old_parts ++ [content]))
                    (match existing with Some r => o_size r | None => 0 end + zlen content)%Z)
    end) [] []).
  { cbv zeta. destruct (find_latest s1 b k) as [old|].
    - cbn [fst]. apply Hnew. apply same_ps_update_row.
    - destruct (insert_row s1 _) as [id s2] eqn:E. cbn [fst]. apply Hnew. eapply same_ps_insert_row'; exact E. }
  cbv zeta in Hinplace.
  destruct (b_ver bk); try exact Hinplace.
  clear Hinplace.
  destruct (try_add_refs (registry s1) (map p_pid old_parts)) as [reg|] eqn:T; [|exfalso; eapply Hne; reflexivity].
  match goal with |- context [meta_put ?a ?b ?c ?d ?e ?f] =>
    destruct (meta_put a b c d e f) as [[s2 r] un] eqn:E2 end.
  cbn [fst snd] in *. apply delete_unreferenced_inv.
  eapply meta_put_inv; [exact E2 | | ].
  - intros e Er. subst r. eapply Hne. reflexivity.
  - cbn [w_parts]. fold (shared_of old_parts).
    apply try_add_refs_inv; [exact T | exact Hsub | exact E1].
Qed.

(* ---------- every operation, every history ---------- *)
Lemma step_pinvg i hist s o : PI s [] [] -> PI (fst (step i hist s o)) [] [].
Proof.
  intros H. assert (Hw : PI (with_ids s i) [] []) by (eapply pinvg_same; [apply same_ps_with_ids | exact H]).
  destruct o; cbn [step fst]; try exact Hw.
  - apply op_mb_inv; exact Hw.
  - apply op_rb_inv; exact Hw.
  - apply op_ver_inv; exact Hw.
  - apply op_put_inv; exact Hw.
  - apply op_delete_inv; exact Hw.
  - apply op_cmu_inv; exact Hw.
  - apply op_upload_part_inv; exact Hw.
  - apply op_complete_inv; exact Hw.
  - apply op_abort_inv; exact Hw.
  - apply op_append_inv; exact Hw.
  - apply op_copy_inv; exact Hw.
Qed.

Lemma run_from_pinvg ops : forall i hist s, PI s [] [] -> PI (fst (run_from i hist s ops)) [] [].
Proof.
  induction ops as [|o ops IH]; intros i hist s H; cbn [run_from]; [exact H|].
  destruct (step i hist s o) as [s' r] eqn:E. apply IH.
  change s' with (fst (s', r)). rewrite <- E. apply step_pinvg. exact H.
Qed.

End Ops.

(* ---------- PartsInv / NoOrphans / Dead in terms of PInvG ---------- *)
Lemma count_rows_crows s p : count_rows s p = crows p (parts s).
Proof.
  unfold count_rows, crows. induction (parts s) as [|x l IH]; cbn [filter map cnt length]; [reflexivity|].
  destruct (N.eqb (p_pid x) p); cbn [length]; lia.
Qed.

Lemma pinvg_of_parts_inv strict (D : N -> Prop) n0 s :
  PartsInv s -> (forall p, D p -> Dead s p) -> (n0 <= next_id s)%N -> (strict = true -> NoOrphans s) ->
  PInvG strict D n0 s [] [].
Proof.
  intros [R [P [Dd F]]] Hd Hn Ho.
  assert (Hrc : forall p, rc s p = crows p (parts s)).
  { intros p. unfold rc, rcr. rewrite R, count_rows_crows. destruct (N.eqb (crows p (parts s)) 0) eqn:E; lia. }
  assert (Hpos : reg_pos (registry s)).
  { intros p. rewrite R. destruct (N.eqb (count_rows s p) 0) eqn:E; [discriminate|]. intros A; inversion A. lia. }
  constructor.
  - exact Hpos.
  - intros p. rewrite Hrc. cbn [cpre]. lia.
  - exact P.
  - intros np [].
  - intros p. left. reflexivity.
  - intros c p Hi. destruct (Dd c p Hi) as [A Bq]. split; [exact Bq|]. left.
    destruct (N.eq_dec (rc s p) 0) as [Z|Z]; [|lia]. apply (rcr_zero_None _ _ Hpos) in Z. contradiction.
  - exact F.
  - intros p [].
  - intros Hs p c Hg. left. destruct (Ho Hs p c Hg) as [row [I E]]. rewrite Hrc, <- E.
    apply In_crows_pos. exact I.
  - intros p Hp. destruct (Hd p Hp) as [A [Bq [C E]]]. repeat apply conj; auto.
    rewrite Hrc, <- count_rows_crows. exact A.
  - exact Hn.
Qed.

Lemma parts_inv_of_pinvg strict (D : N -> Prop) n0 s :
  PInvG strict D n0 s [] [] ->
  PartsInv s /\ (forall p, D p -> Dead s p) /\ (n0 <= next_id s)%N /\ (strict = true -> NoOrphans s).
Proof.
  intros [H1 H2 H3 H4 H5 H6 H7 H8 H9 H10 H11].
  assert (Hrc : forall p, rc s p = crows p (parts s)) by (intros p; rewrite H2; cbn [cpre]; lia).
  repeat apply conj; auto.
  - intros p. rewrite count_rows_crows, <- Hrc. destruct (N.eqb (rc s p) 0) eqn:E.
    + apply (rcr_zero_None _ _ H1). unfold rc in E. lia.
    + unfold rc, rcr in *. destruct (reg_get (registry s) p); [reflexivity | lia].
  - intros c p Hi. destruct (H6 c p Hi) as [A Bq]. split; [|exact A]. cbn [cnew] in Bq.
    intros Z. apply (rcr_zero_None _ _ H1) in Z. unfold rc in Bq. lia.
  - intros p Hp. destruct (H10 p Hp) as [A [Bq [C E]]]. repeat apply conj; auto.
    + rewrite count_rows_crows, <- Hrc. exact A.
    + apply (rcr_zero_None _ _ H1). exact A.
  - intros Hs p c Hg. destruct (H9 Hs p c Hg) as [A|[A|[]]]; [|cbn [cnew] in A; lia].
    rewrite Hrc in A. apply crows_pos_In. exact A.
Qed.

Definition no_dead : N -> Prop := fun _ => False.

Theorem step_parts_inv : forall i h s o, PartsInv s -> PartsInv (fst (step i h s o)).
Proof.
  intros i h s o H.
  apply (parts_inv_of_pinvg false no_dead 0). apply step_pinvg.
  apply pinvg_of_parts_inv; [exact H | intros p [] | lia | discriminate].
Qed.

Theorem step_no_orphans : forall i h s o, PartsInv s -> NoOrphans s -> NoOrphans (fst (step i h s o)).
Proof.
  intros i h s o H Ho.
  apply (parts_inv_of_pinvg true no_dead 0); [|reflexivity]. apply step_pinvg.
  apply pinvg_of_parts_inv; [exact H | intros p [] | lia | intros _; exact Ho].
Qed.

Theorem step_dead : forall i h s o pid, PartsInv s -> Dead s pid -> Dead (fst (step i h s o)) pid.
Proof.
  intros i h s o pid H Hd.
  apply (parts_inv_of_pinvg false (fun p => p = pid) 0); [|reflexivity]. apply step_pinvg.
  apply pinvg_of_parts_inv; [exact H | intros p ->; exact Hd | lia | discriminate].
Qed.

Theorem step_next_id_mono : forall i h s o, PartsInv s -> (next_id s <= next_id (fst (step i h s o)))%N.
Proof.
  intros i h s o H.
  apply (parts_inv_of_pinvg false no_dead (next_id s)). apply step_pinvg.
  apply pinvg_of_parts_inv; [exact H | intros p [] | lia | discriminate].
Qed.

Lemma init_parts_inv : PartsInv init /\ NoOrphans init.
Proof.
  split.
  - repeat apply conj; cbn; try (intros; contradiction). intros pid. reflexivity.
  - intros p c H. discriminate.
Qed.

Theorem run_parts_inv : forall ops, PartsInv (fst (run ops)) /\ NoOrphans (fst (run ops)).
Proof.
  intros ops. unfold run.
  destruct (parts_inv_of_pinvg true no_dead 0 (fst (run_from 0 [] init ops))) as [A [_ [_ Bq]]].
  - apply run_from_pinvg. destruct init_parts_inv as [I O].
    apply pinvg_of_parts_inv; [exact I | intros p [] | cbn; lia | intros _; exact O].
  - split; [exact A | apply Bq; reflexivity].
Qed.

(* ---------- reads ---------- *)
Lemma read_parts_present s ps :
  (forall row, In row ps -> store_get (store s) (p_pid row) = Some (p_content row)) ->
  read_parts s ps = Some (concat (map p_content ps)).
Proof.
  unfold read_parts. intros H.
  assert (G : forall acc, fold_left (fun a p => match a, store_get (store s) (p_pid p) with
                                                 | Some a, Some c => Some (a ++ c) | _, _ => None end)
                                     ps (Some acc) = Some (acc ++ concat (map p_content ps))).
  { induction ps as [|x ps IH]; intros acc; cbn [fold_left map concat].
    - rewrite app_nil_r. reflexivity.
    - rewrite (H x (or_introl eq_refl)). rewrite IH; [rewrite app_assoc; reflexivity|].
      intros row I. apply H. right; exact I. }
  apply (G []).
Qed.

Lemma parts_size_length ps : parts_size ps = Z.of_nat (length (concat (map p_content ps))).
Proof.
  unfold parts_size.
  assert (G : forall a, fold_left (fun a p => (a + zlen (p_content p))%Z) ps a =
                        (a + Z.of_nat (length (concat (map p_content ps))))%Z).
  { induction ps as [|x ps IH]; intros a; cbn [fold_left map concat length]; [lia|].
    rewrite IH, app_length. unfold zlen. lia. }
  rewrite G. lia.
Qed.

Lemma get_recorded_bytes s r : PartsInv s ->
  read_parts s (row_parts s r) = Some (concat (map p_content (row_parts s r))).
Proof.
  intros [_ [P _]]. apply read_parts_present. intros row I. apply P. eapply row_parts_sub; exact I.
Qed.

Lemma op_get_recorded s b k v r : PartsInv s ->
  lookup s b k v = inl (Some r) -> parts_size (row_parts s r) = o_size r ->
  op_get s b k v = RObj (row_vid r) (o_etag r) (o_size r) (o_updated r) (o_ctype r)
                        (Some (concat (map p_content (row_parts s r)))).
Proof.
  intros Hi L Sz. unfold op_get. rewrite L.
  pose proof (parts_size_length (row_parts s r)) as Hl.
  destruct (o_size r <? 0)%Z eqn:E; [lia|].
  rewrite (get_recorded_bytes s r Hi). f_equal. f_equal.
  apply firstn_all2. lia.
Qed.
