(* Proofs/LifecycleProofs.v — C25 *)
From Verif Require Import Bytes Codec Listing ListingProofs Lifecycle.
From Coq Require Import ZifyBool ZifyN ZifyNat.
Open Scope Z_scope.

(* ---- rounding ---- *)
Lemma s3_round_up_ge t : t <= s3_round_up t.
Proof.
  unfold s3_round_up, day. destruct (t mod 86400 =? 0) eqn:E; [lia|].
  pose proof (Z.mod_pos_bound t 86400 ltac:(lia)). pose proof (Z.div_mod t 86400 ltac:(lia)). lia.
Qed.
Lemma s3_round_up_multiple t : (s3_round_up t) mod day = 0.
Proof.
  unfold s3_round_up, day. destruct (t mod 86400 =? 0) eqn:E; [lia|]. apply Z.mod_mul. lia.
Qed.
Lemma s3_round_up_least t m : m mod day = 0 -> t <= m -> s3_round_up t <= m.
Proof.
  unfold s3_round_up, day. intros Hm Ht. destruct (t mod 86400 =? 0) eqn:E; [lia|].
  pose proof (Z.div_mod m 86400 ltac:(lia)) as Dm. rewrite Hm in Dm.
  pose proof (Z.div_mod t 86400 ltac:(lia)) as Dt. pose proof (Z.mod_pos_bound t 86400 ltac:(lia)).
  assert (t / 86400 < m / 86400) by nia. nia.
Qed.
Lemma next_midnight_ge_s3 t : s3_round_up t <= next_midnight t.
Proof. unfold s3_round_up, next_midnight, day. destruct (t mod 86400 =? 0) eqn:E; [|lia].
  pose proof (Z.div_mod t 86400 ltac:(lia)). lia. Qed.
Lemma next_midnight_strict t : t < next_midnight t /\ next_midnight t <= t + day.
Proof. unfold next_midnight, day. pose proof (Z.div_mod t 86400 ltac:(lia)).
  pose proof (Z.mod_pos_bound t 86400 ltac:(lia)). lia. Qed.

(* the S3 reading of a due description *)
Definition s3_due_reached (now created : Z) (days date : option Z) : Prop :=
  match date with
  | Some d => d <= now
  | None => match days with Some n => s3_days_due created n <= now | None => False end
  end.

Lemma reached_exp now e created : reached now (exp_due e created) = true -> s3_due_reached now created (e_days e) (e_date e).
Proof.
  unfold reached, exp_due, s3_due_reached, s3_days_due. destruct (e_date e); [lia|].
  destruct (e_days e) as [n|]; [|discriminate]. pose proof (next_midnight_ge_s3 (created + n * day)). lia.
Qed.
Lemma reached_trans now t created : reached now (trans_due t created) = true -> s3_due_reached now created (t_days t) (t_date t).
Proof.
  unfold reached, trans_due, s3_due_reached, s3_days_due. destruct (t_date t); [lia|].
  destruct (t_days t) as [n|]; [|discriminate]. pose proof (next_midnight_ge_s3 (created + n * day)). lia.
Qed.

(* ---- filters ---- *)
Lemma in_filter_rules (p : rule -> bool) rules r : In r (filter p rules) -> In r rules /\ p r = true.
Proof. apply filter_In. Qed.

Lemma is_exp_rule_enabled r : is_exp_rule r = true -> r_enabled r = true.
Proof. unfold is_exp_rule. intros H. apply andb_true_iff in H. tauto. Qed.

(* ---- expiration pass ---- *)
Definition exp_justified (rules : list rule) (now : Z) (o : obj) : Prop :=
  exists r ex, In r rules /\ r_enabled r = true /\ r_exp r = Some ex /\
    rule_matches r (o_key o) (o_size o) (o_tags o) = true /\
    s3_due_reached now (o_lm o) (e_days ex) (e_date ex).

Lemma expire_decision_justified rules now o r :
  expire_decision rules now o = Some r -> exp_justified rules now o.
Proof.
  unfold expire_decision. intros H. apply find_some in H. destruct H as [Hin Hf].
  apply in_filter_rules in Hin. destruct Hin as [Hin Hr]. unfold exp_fires in Hf.
  destruct (r_exp r) as [ex|] eqn:E; [|discriminate]. apply andb_true_iff in Hf. destruct Hf as [Hd Hm].
  exists r, ex. repeat split; auto. - apply is_exp_rule_enabled; exact Hr. - apply reached_exp; exact Hd.
Qed.

Lemma expire_pass_sound rules now objs k e ok :
  In (ADelete k e ok) (fst (expire_pass rules now objs)) ->
  exists o, In o objs /\ o_key o = k /\ o_etag o = e /\ exp_justified rules now o /\
            ok = bytes_eqb (o_etag (apply_swap o)) (o_etag o).
Proof.
  induction objs as [|o rest IH]; cbn [expire_pass]; [intros []|].
  destruct (expire_pass rules now rest) as [acts remaining] eqn:EP. cbn [fst] in IH.
  destruct (expire_decision rules now o) as [r|] eqn:D.
  - destruct (bytes_eqb (o_etag (apply_swap o)) (o_etag o)) eqn:G; cbn [fst]; intros [H|H].
    + inversion H; subst. exists o. split; [left; reflexivity|]. split; [reflexivity|]. split; [reflexivity|].
      split; [eapply expire_decision_justified; eauto | symmetry; exact G].
    + destruct (IH H) as (o' & Ho & R). exists o'. split; [right; exact Ho | exact R].
    + inversion H; subst. exists o. split; [left; reflexivity|]. split; [reflexivity|]. split; [reflexivity|].
      split; [eapply expire_decision_justified; eauto | symmetry; exact G].
    + destruct (IH H) as (o' & Ho & R). exists o'. split; [right; exact Ho | exact R].
  - cbn [fst]. intros H. destruct (IH H) as (o' & Ho & R). exists o'. split; [right; exact Ho | exact R].
Qed.

(* the keys that remain after the expiration pass *)
Lemma expire_pass_remaining rules now objs o' :
  In o' (snd (expire_pass rules now objs)) ->
  exists o, In o objs /\ o_key o' = o_key o /\
    ~ In (ADelete (o_key o) (o_etag o) true) (fst (expire_pass rules now [o])).
Proof.
  induction objs as [|o rest IH]; cbn [expire_pass]; [intros []|].
  destruct (expire_pass rules now rest) as [acts remaining] eqn:EP. cbn [snd fst] in IH.
  destruct (expire_decision rules now o) as [r|] eqn:D.
  - destruct (bytes_eqb (o_etag (apply_swap o)) (o_etag o)) eqn:G; cbn [snd]; intros H.
    + destruct (IH H) as (o2 & Ho & R). exists o2. split; [right; exact Ho | exact R].
    + destruct H as [<-|H].
      * exists o. split; [left; reflexivity|]. split.
        { unfold apply_swap. destruct (o_swap o) as [[e l]|]; reflexivity. }
        rewrite D, G. cbn. intros [H|[]]. discriminate.
      * destruct (IH H) as (o2 & Ho & R). exists o2. split; [right; exact Ho | exact R].
  - cbn [snd]. intros [<-|H].
    + exists o. split; [left; reflexivity|]. split; [reflexivity|]. rewrite D. cbn. tauto.
    + destruct (IH H) as (o2 & Ho & R). exists o2. split; [right; exact Ho | exact R].
Qed.

Lemma expire_pass_only_deletes rules now objs a :
  In a (fst (expire_pass rules now objs)) -> exists k e ok, a = ADelete k e ok.
Proof.
  induction objs as [|o rest IH]; cbn [expire_pass]; [intros []|].
  destruct (expire_pass rules now rest) as [acts remaining]. cbn [fst] in IH.
  destruct (expire_decision rules now o); [|cbn; auto].
  destruct (bytes_eqb (o_etag (apply_swap o)) (o_etag o)); cbn [fst]; intros [<-|H]; eauto.
Qed.

Lemma expire_pass_deleted_gone rules now objs :
  NoDup (map o_key objs) -> forall k e,
  In (ADelete k e true) (fst (expire_pass rules now objs)) ->
  ~ In k (map o_key (snd (expire_pass rules now objs))).
Proof.
  induction objs as [|o rest IH]; cbn [expire_pass]; [intros _ k e []|].
  intros ND k e. inversion ND as [|? ? Hnin ND']; subst.
  assert (forall x, In x (map o_key (snd (expire_pass rules now rest))) -> In x (map o_key rest)) as Hsub.
  { intros x Hx. apply in_map_iff in Hx. destruct Hx as (o' & <- & Ho').
    destruct (expire_pass_remaining _ _ _ _ Ho') as (o2 & Ho2 & -> & _). apply in_map; exact Ho2. }
  assert (forall k0 e0 ok0, In (ADelete k0 e0 ok0) (fst (expire_pass rules now rest)) -> In k0 (map o_key rest)) as Hact.
  { intros k0 e0 ok0 H0. destruct (expire_pass_sound _ _ _ _ _ _ H0) as (o2 & Ho2 & <- & _). apply in_map; exact Ho2. }
  specialize (IH ND').
  destruct (expire_pass rules now rest) as [acts remaining] eqn:EP. cbn [fst snd] in *.
  destruct (expire_decision rules now o) as [r|] eqn:D.
  - destruct (bytes_eqb (o_etag (apply_swap o)) (o_etag o)) eqn:G; cbn [fst snd map].
    + intros [H|H].
      * inversion H; subst. intros Hin. apply Hnin. apply Hsub; exact Hin.
      * apply (IH k e H).
    + intros [H|H]; [discriminate|]. intros [Hk|Hin].
      * apply Hnin. assert (o_key (apply_swap o) = o_key o) as Ek by (unfold apply_swap; destruct (o_swap o) as [[? ?]|]; reflexivity).
        rewrite Ek in Hk. rewrite Hk. eapply Hact; eauto.
      * apply (IH k e H Hin).
  - cbn [fst snd map]. intros H [Hk|Hin].
    + apply Hnin. rewrite Hk. eapply Hact; eauto.
    + apply (IH k e H Hin).
Qed.

(* ---- transition pass ---- *)
Definition trans_justified (rules : list rule) (now : Z) (o : obj) (c : bytes) : Prop :=
  exists r t, In r rules /\ r_enabled r = true /\ In t (r_trans r) /\ t_class t = c /\
    rule_matches r (o_key o) (o_size o) (o_tags o) = true /\
    s3_due_reached now (o_lm o) (t_days t) (t_date t) /\ c <> eff_class (o_class o).

Lemma trans_rule_loop_inv (P : bytes -> Prop) now o m ts chosen :
  (forall t, In t ts -> m = true -> reached now (trans_due t (o_lm o)) = true ->
             bytes_eqb (t_class t) (eff_class (o_class o)) = false -> P (t_class t)) ->
  (forall d c, chosen = Some (d, c) -> P c) ->
  forall d c, trans_rule_loop now o m ts chosen = Some (d, c) -> P c.
Proof.
  revert chosen; induction ts as [|t rest IH]; intros chosen Ht Hc d c; cbn [trans_rule_loop]; [apply Hc|].
  assert (forall t0, In t0 rest -> m = true -> reached now (trans_due t0 (o_lm o)) = true ->
             bytes_eqb (t_class t0) (eff_class (o_class o)) = false -> P (t_class t0)) as Ht'
    by (intros t0 H0; apply Ht; right; exact H0).
  destruct (trans_due t (o_lm o)) as [dd|] eqn:TD; [|apply IH; auto].
  destruct (negb (dd <=? now)) eqn:R; [apply IH; auto|].
  destruct (bytes_eqb (t_class t) (eff_class (o_class o))) eqn:C; [apply IH; auto|].
  destruct m; cbn [negb]; [|apply Hc].
  assert (P (t_class t)) as Pt.
  { apply Ht; [left; reflexivity | reflexivity | | exact C]. rewrite TD. cbn. apply negb_false_iff in R. exact R. }
  destruct chosen as [[cd cc]|].
  - destruct (cd <? dd); apply IH; auto; intros d0 c0 E; inversion E; subst; auto; try (eapply Hc; reflexivity).
  - apply IH; auto. intros d0 c0 E; inversion E; subst; auto.
Qed.

Lemma transition_decision_justified rules now o d c :
  transition_decision rules now o = Some (d, c) -> trans_justified rules now o c.
Proof.
  unfold transition_decision.
  assert (forall rs chosen,
            (forall r, In r rs -> In r rules /\ r_enabled r = true) ->
            (forall d c, chosen = Some (d, c) -> trans_justified rules now o c) ->
            forall d c, fold_left (fun ch r => trans_rule_loop now o (rule_matches r (o_key o) (o_size o) (o_tags o)) (r_trans r) ch) rs chosen = Some (d, c) ->
            trans_justified rules now o c) as H.
  { induction rs as [|r rs IH]; intros chosen Hrs Hc d0 c0; cbn [fold_left]; [apply Hc|].
    apply IH; [intros r0 H0; apply Hrs; right; exact H0|].
    apply trans_rule_loop_inv; [|exact Hc].
    intros t Ht Hm Hr Hcl. destruct (Hrs r (or_introl eq_refl)) as [Hin Hen].
    exists r, t. repeat split; auto. - apply reached_trans; exact Hr.
    - intros E. rewrite E, bytes_eqb_refl in Hcl. discriminate. }
  apply (H (filter is_trans_rule rules) None); [|discriminate].
  intros r Hr. apply in_filter_rules in Hr. destruct Hr as [Hin Hr]. split; [exact Hin|].
  unfold is_trans_rule in Hr. apply andb_true_iff in Hr. tauto.
Qed.

Lemma transition_pass_sound rules now objs k c e ok :
  In (ATransition k c e ok) (transition_pass rules now objs) ->
  exists o, In o objs /\ o_key o = k /\ o_etag o = e /\ trans_justified rules now o c.
Proof.
  induction objs as [|o rest IH]; cbn [transition_pass]; [intros []|].
  destruct (transition_decision rules now o) as [[d tgt]|] eqn:D.
  - intros [H|H].
    + inversion H; subst. exists o. split; [left; reflexivity|]. split; [reflexivity|]. split; [reflexivity|].
      eapply transition_decision_justified; eauto.
    + destruct (IH H) as (o' & Ho & R). exists o'. split; [right; exact Ho | exact R].
  - intros H. destruct (IH H) as (o' & Ho & R). exists o'. split; [right; exact Ho | exact R].
Qed.

(* ---- noncurrent version expiration ---- *)
Definition noncurrent (v : ver) : bool := negb (v_latest v || v_dm v).
Definition last_since (prev : option Z) (before : list ver) : option Z :=
  match last_opt before with Some w => Some (v_lm w) | None => prev end.

Lemma last_since_cons prev v before : last_since prev (v :: before) = last_since (Some (v_lm v)) before.
Proof.
  unfold last_since. destruct before as [|w before]; [reflexivity|].
  change (last_opt (v :: w :: before)) with (last_opt (w :: before)).
  destruct (last_opt (w :: before)) eqn:L; [reflexivity|]. apply last_opt_None in L. discriminate.
Qed.

Definition nce_justified (rules : list rule) (now : Z) (v : ver) (since : Z) (cnt : Z) : Prop :=
  exists r n d, In r rules /\ r_enabled r = true /\ r_nce r = Some n /\ n_days n = Some d /\
    s3_days_due since d <= now /\ rule_matches r (v_key v) (v_size v) (v_tags v) = true /\
    (forall N, n_newer n = Some N -> N < cnt).

Lemma nce_loop_sound rules now vs : forall prev newer k i,
  In (ADeleteVersion k i) (nce_loop rules now prev newer vs) ->
  exists before v after since,
    vs = before ++ v :: after /\ v_key v = k /\ v_id v = i /\ v_latest v = false /\ v_dm v = false /\
    last_since prev before = Some since /\
    nce_justified rules now v since (newer + Z.of_nat (length (filter noncurrent before))).
Proof.
  induction vs as [|v rest IH]; intros prev newer k i; cbn [nce_loop]; [intros []|].
  destruct (v_latest v || v_dm v) eqn:LD.
  - intros H. destruct (IH _ _ _ _ H) as (before & w & after & since & E & R1 & R2 & R3 & R4 & R5 & R6).
    exists (v :: before), w, after, since. rewrite last_since_cons. repeat split; auto; [rewrite E; reflexivity|].
    cbn [filter]. unfold noncurrent at 1. rewrite LD. cbn [negb]. exact R6.
  - destruct prev as [since0|].
    + intros H. apply in_app_or in H. destruct H as [H|H].
      * destruct (find (nce_fires now since0 newer v) (filter is_nce_rule rules)) as [r|] eqn:F; [|destruct H].
        destruct H as [H|[]]. inversion H; subst.
        apply find_some in F. destruct F as [Hin Hf]. apply in_filter_rules in Hin. destruct Hin as [Hin Hr].
        unfold is_nce_rule in Hr. apply andb_true_iff in Hr. destruct Hr as [Hen _].
        unfold nce_fires in Hf. destruct (r_nce r) as [n|] eqn:En; [|discriminate].
        apply andb_true_iff in Hf. destruct Hf as [Hf Hm]. apply andb_true_iff in Hf. destruct Hf as [Hd Hn].
        apply orb_false_iff in LD. destruct LD as [L1 L2].
        exists [], v, rest, since0. repeat split; auto.
        unfold reached, nce_due in Hd. destruct (n_days n) as [d|] eqn:Ed; [|discriminate].
        exists r, n, d. repeat split; auto.
        -- unfold s3_days_due. pose proof (next_midnight_ge_s3 (since0 + d * day)). lia.
        -- intros N EN. rewrite EN in Hn. cbn. lia.
      * destruct (IH _ _ _ _ H) as (before & w & after & since & E & R1 & R2 & R3 & R4 & R5 & R6).
        exists (v :: before), w, after, since. rewrite last_since_cons. repeat split; auto; [rewrite E; reflexivity|].
        cbn [filter]. unfold noncurrent at 1. rewrite LD. cbn [negb length].
        destruct R6 as (r & n & d & Q1 & Q2 & Q3 & Q4 & Q5 & Q6 & Q7). exists r, n, d. repeat split; auto.
        intros N EN. specialize (Q7 N EN). lia.
    + intros H. destruct (IH _ _ _ _ H) as (before & w & after & since & E & R1 & R2 & R3 & R4 & R5 & R6).
      exists (v :: before), w, after, since. rewrite last_since_cons. repeat split; auto; [rewrite E; reflexivity|].
      cbn [filter]. unfold noncurrent at 1. rewrite LD. cbn [negb length].
      destruct R6 as (r & n & d & Q1 & Q2 & Q3 & Q4 & Q5 & Q6 & Q7). exists r, n, d. repeat split; auto.
      intros N EN. specialize (Q7 N EN). lia.
Qed.

(* sort.SliceStable(LastModified descending): same elements, non-increasing *)
Lemma insert_desc_In v l x : In x (insert_desc v l) <-> x = v \/ In x l.
Proof.
  induction l as [|a l IH]; cbn; [split; [intros [<-|[]]; auto | intros [->|[]]; auto]|].
  destruct (v_lm v <? v_lm a); cbn; [rewrite IH|]; split; intros H; intuition (subst; auto).
Qed.
Lemma sort_desc_In l x : In x (sort_desc l) <-> In x l.
Proof. induction l as [|a l IH]; cbn; [tauto|]. rewrite insert_desc_In, IH. split; intros [H|H]; auto. Qed.

Fixpoint desc (l : list ver) : Prop :=
  match l with [] => True | x :: l' => (forall y, In y l' -> v_lm y <= v_lm x) /\ desc l' end.
Lemma insert_desc_desc v l : desc l -> desc (insert_desc v l).
Proof.
  induction l as [|a l IH]; cbn; [intros _; split; [intros y []|exact I]|]. intros [H1 H2].
  destruct (v_lm v <? v_lm a) eqn:E; cbn.
  - split; [|apply IH; exact H2]. intros y Hy. apply insert_desc_In in Hy. destruct Hy as [->|Hy]; [lia | apply H1; exact Hy].
  - split; [|split; assumption]. intros y [<-|Hy]; [lia|]. specialize (H1 y Hy). lia.
Qed.
Lemma sort_desc_desc l : desc (sort_desc l).
Proof. induction l as [|a l IH]; cbn; [exact I | apply insert_desc_desc; exact IH]. Qed.

(* ---- delete markers / aborts ---- *)
Lemma dm_pass_key_sound rules vs k i :
  In (ADeleteVersion k i) (dm_pass_key rules vs) ->
  (forall v, In v vs -> v_dm v = true) /\
  exists m r ex, In m vs /\ v_key m = k /\ v_id m = i /\ v_latest m = true /\ v_dm m = true /\
    In r rules /\ r_enabled r = true /\ r_exp r = Some ex /\ e_dm ex = Some true /\
    rule_matches r (v_key m) (v_size m) [] = true.
Proof.
  unfold dm_pass_key. destruct (existsb (fun v => negb (v_dm v)) vs) eqn:EX; [intros []|].
  destruct (last_opt (filter (fun v => v_latest v && v_dm v) vs)) as [m|] eqn:L; [|intros []].
  destruct (find _ (filter is_dm_rule rules)) as [r|] eqn:F; [|intros []]. intros [H|[]]. inversion H; subst.
  split.
  - intros v Hv. destruct (v_dm v) eqn:D; [reflexivity|]. exfalso.
    assert (existsb (fun v => negb (v_dm v)) vs = true) as HT by (apply existsb_exists; exists v; rewrite D; auto). congruence.
  - destruct (last_opt_app _ _ L) as [l1 E1].
    assert (In m (filter (fun v => v_latest v && v_dm v) vs)) as Hm by (rewrite E1; apply in_or_app; right; left; reflexivity).
    apply filter_In in Hm. destruct Hm as [Hm1 Hm2]. apply andb_true_iff in Hm2. destruct Hm2.
    apply find_some in F. destruct F as [Hin Hf]. apply in_filter_rules in Hin. destruct Hin as [Hin Hr].
    unfold is_dm_rule in Hr. apply andb_true_iff in Hr. destruct Hr as [Hen Hd].
    destruct (r_exp r) as [ex|] eqn:Ex; [|discriminate]. destruct (e_dm ex) as [[|]|] eqn:Ed; try discriminate.
    exists m, r, ex. repeat split; auto.
Qed.

Lemma abort_pass_sound rules now us k i :
  In (AAbort k i) (abort_pass rules now us) ->
  exists u r d, In u us /\ u_key u = k /\ u_id u = i /\ In r rules /\ r_enabled r = true /\
    r_abort r = Some d /\ is_prefix (rule_prefix r) (u_key u) = true /\ s3_days_due (u_init u) d <= now.
Proof.
  unfold abort_pass. intros H. apply in_flat_map in H. destruct H as (u & Hu & H).
  destruct (find (abort_fires now u) (filter is_abort_rule rules)) as [r|] eqn:F; [|destruct H].
  destruct H as [H|[]]. inversion H; subst.
  apply find_some in F. destruct F as [Hin Hf]. apply in_filter_rules in Hin. destruct Hin as [Hin Hr].
  unfold is_abort_rule in Hr. apply andb_true_iff in Hr. destruct Hr as [Hen _].
  unfold abort_fires in Hf. apply andb_true_iff in Hf. destruct Hf as [Hm Hd].
  destruct (r_abort r) as [d|] eqn:Ed; [|discriminate].
  exists u, r, d. repeat split; auto.
  - unfold rule_matches in Hm. destruct (is_prefix (rule_prefix r) (u_key u)); [reflexivity | discriminate].
  - unfold abort_due, s3_days_due in *. pose proof (next_midnight_ge_s3 (u_init u + d * day)). lia.
Qed.

(* ---- disabled rules ---- *)
Lemma filter_disabled (p : rule -> bool) rules :
  (forall r, p r = true -> r_enabled r = true) ->
  (forall r, In r rules -> r_enabled r = false) -> filter p rules = [].
Proof.
  intros Hp Hd. induction rules as [|r rules IH]; cbn; [reflexivity|].
  destruct (p r) eqn:E.
  - specialize (Hp r E). rewrite (Hd r (or_introl eq_refl)) in Hp. discriminate.
  - apply IH. intros r0 H0; apply Hd; right; exact H0.
Qed.

Lemma disabled_no_action rules now objs vs us :
  (forall r, In r rules -> r_enabled r = false) -> reconcile rules now objs vs us = [].
Proof.
  intros Hd.
  assert (forall p, (forall r, p r = true -> r_enabled r = true) -> filter p rules = []) as HF
    by (intros p Hp; apply filter_disabled; auto).
  assert (filter is_exp_rule rules = []) as F1 by (apply HF; intros r H; unfold is_exp_rule in H; apply andb_true_iff in H; tauto).
  assert (filter is_dm_rule rules = []) as F2 by (apply HF; intros r H; unfold is_dm_rule in H; apply andb_true_iff in H; tauto).
  assert (filter is_nce_rule rules = []) as F3 by (apply HF; intros r H; unfold is_nce_rule in H; apply andb_true_iff in H; tauto).
  assert (filter is_trans_rule rules = []) as F4 by (apply HF; intros r H; unfold is_trans_rule in H; apply andb_true_iff in H; tauto).
  assert (filter is_abort_rule rules = []) as F5 by (apply HF; intros r H; unfold is_abort_rule in H; apply andb_true_iff in H; tauto).
  assert (forall os, expire_pass rules now os = ([], os)) as E1.
  { induction os as [|o os IH]; cbn [expire_pass]; [reflexivity|]. rewrite IH. unfold expire_decision. rewrite F1. reflexivity. }
  assert (forall os, transition_pass rules now os = []) as E4.
  { induction os as [|o os IH]; cbn [transition_pass]; [reflexivity|]. unfold transition_decision. rewrite F4. cbn. exact IH. }
  assert (forall l, dm_pass_key rules l = []) as E2.
  { intros l. unfold dm_pass_key. rewrite F2. cbn. destruct (existsb _ l); [reflexivity|]. destruct (last_opt _); reflexivity. }
  assert (forall l prev newer, nce_loop rules now prev newer l = []) as E3.
  { induction l as [|v l IH]; intros prev newer; cbn [nce_loop]; [reflexivity|]. rewrite F3. cbn [find app].
    destruct (v_latest v || v_dm v); [apply IH|]. destruct prev; apply IH. }
  assert (forall (f : bytes -> list action) l, (forall k, f k = []) -> flat_map f l = []) as FM.
  { intros f l Hf. induction l as [|k l IH]; cbn; [reflexivity|]. rewrite Hf, IH. reflexivity. }
  unfold reconcile. rewrite E1, E4. rewrite (FM _ (distinct_keys vs [])) by (intros k; apply E2).
  cbn [app]. rewrite (FM (fun k => nce_pass_key rules now (versions_of k _))) by (intros k; apply E3).
  unfold abort_pass. rewrite F5. cbn [app]. induction us as [|u us IH]; cbn; [reflexivity | exact IH].
Qed.

(* ---- rule_matches, declaratively ---- *)
Definition eff_gt (f : rfilter) : option Z := match f_and f with Some a => opt_or (a_gt a) (f_gt f) | None => f_gt f end.
Definition eff_lt (f : rfilter) : option Z := match f_and f with Some a => opt_or (a_lt a) (f_lt f) | None => f_lt f end.
Definition eff_tags (f : rfilter) : list tag :=
  (match f_tag f with Some t => [t] | None => [] end) ++ (match f_and f with Some a => a_tags a | None => [] end).

Lemma rule_matches_spec r key size tags :
  rule_matches r key size tags = true <->
  is_prefix (rule_prefix r) key = true /\
  forall f, r_filter r = Some f ->
    (forall g, eff_gt f = Some g -> g < size) /\ (forall l, eff_lt f = Some l -> size < l) /\
    (forall t, In t (eff_tags f) -> tag_lookup (fst t) tags = Some (snd t)).
Proof.
  unfold rule_matches. destruct (is_prefix (rule_prefix r) key); cbn [negb]; [|split; [discriminate | intros [H _]; discriminate]].
  destruct (r_filter r) as [f|]; [|split; [intros _; split; [reflexivity | intros f H; discriminate] | reflexivity]].
  fold (eff_gt f) (eff_lt f) (eff_tags f).
  assert (forall t, tag_ok tags t = true <-> tag_lookup (fst t) tags = Some (snd t)) as HT.
  { intros t. unfold tag_ok. destruct (tag_lookup (fst t) tags) as [v|]; [|split; discriminate].
    rewrite bytes_eqb_eq. split; congruence. }
  rewrite !andb_true_iff, forallb_forall. split.
  - intros [[Hg Hl] Ht]. split; [reflexivity|]. intros f0 E0. inversion E0; subst f0. repeat split.
    + intros g Eg. rewrite Eg in Hg. lia.
    + intros l El. rewrite El in Hl. lia.
    + intros t Hin. apply HT. apply Ht; exact Hin.
  - intros [_ H]. destruct (H f eq_refl) as (Hg & Hl & Ht). repeat split.
    + destruct (eff_gt f) as [g|]; [specialize (Hg g eq_refl); lia | reflexivity].
    + destruct (eff_lt f) as [l|]; [specialize (Hl l eq_refl); lia | reflexivity].
    + intros t Hin. apply HT. apply Ht; exact Hin.
Qed.

(* ---- replaced objects ---- *)
Lemma not_on_replaced_partial rules now objs k e :
  (forall o e2 l2, In o objs -> o_swap o = Some (e2, l2) -> e2 <> o_etag o) ->
  In (ADelete k e true) (fst (expire_pass rules now objs)) ->
  exists o, In o objs /\ o_key o = k /\ apply_swap o = o /\ exp_justified rules now (apply_swap o).
Proof.
  intros Hs H. destruct (expire_pass_sound _ _ _ _ _ _ H) as (o & Ho & Hk & He & Hj & Hok).
  exists o. split; [exact Ho|]. split; [exact Hk|].
  assert (apply_swap o = o) as E.
  { unfold apply_swap in *. destruct (o_swap o) as [[e2 l2]|] eqn:S; [|reflexivity]. exfalso.
    cbn in Hok. symmetry in Hok. apply bytes_eqb_eq in Hok. apply (Hs o e2 l2 Ho S). exact Hok. }
  rewrite E. auto.
Qed.

Lemma expiration_preferred rules now objs :
  NoDup (map o_key objs) -> forall k e c e' ok,
  In (ADelete k e true) (fst (expire_pass rules now objs)) ->
  ~ In (ATransition k c e' ok) (transition_pass rules now (snd (expire_pass rules now objs))).
Proof.
  intros ND k e c e' ok HD HT. destruct (transition_pass_sound _ _ _ _ _ _ _ HT) as (o & Ho & Hk & _).
  apply (expire_pass_deleted_gone rules now objs ND k e HD). rewrite <- Hk. apply in_map; exact Ho.
Qed.
