(* Proofs/MetaGcConverge.v — C09: what one sequential run of the collector (gc_run) does to an ARBITRARY
   state (no invariant assumed: corrupted registry counts, missing registry rows, stale dedup entries,
   orphan files are all in the domain): the registry becomes exact, the dedup index points only at
   referenced parts, and a stored id is removed iff it is unreferenced and old enough. *)
From Coq Require Import Lia ZifyBool ZifyN ZifyNat.
From Verif Require Import Bytes Codec Md5 Meta MetaGc MetaPartsDefs MetaGcBasics.

Definition exact (s0 : mstate) (pid : N) : option N :=
  if N.eqb (count_rows s0 pid) 0 then None else Some (count_rows s0 pid).
Definition RegExact (s : mstate) : Prop := forall pid, reg_get (registry s) pid = exact s pid.

Definition truthful (s0 : mstate) (o : obs) : Prop :=
  ob_actual o = count_rows s0 (ob_pid o) /\ (ob_ref o = None -> ob_actual o <> 0%N).

Lemma done_stable s0 s o pid :
  truthful s0 o -> reg_get (registry s) pid = exact s0 pid ->
  reg_get (registry (apply_obs s o false)) pid = exact s0 pid.
Proof.
  intros [Ha Hn] Hd. destruct (N.eq_dec pid (ob_pid o)) as [->|Hne]; [|now rewrite apply_obs_other].
  unfold apply_obs, guard_ok. unfold exact in *. rewrite <- Ha in *. cbn [negb andb].
  destruct (ob_ref o) as [r|].
  - destruct (N.eqb_spec (ob_actual o) 0).
    + rewrite Hd. exact Hd.
    + destruct (N.eqb r (ob_actual o)); auto. rewrite Hd.
      destruct (N.eqb (ob_actual o) r); cbn; auto using reg_get_set_same.
  - specialize (Hn eq_refl). destruct (N.eqb_spec (ob_actual o) 0); [contradiction|]. now rewrite Hd.
Qed.

Lemma fresh_done s0 s o :
  truthful s0 o -> ob_ref o = reg_get (registry s) (ob_pid o) ->
  reg_get (registry (apply_obs s o false)) (ob_pid o) = exact s0 (ob_pid o).
Proof.
  intros [Ha Hn] Hf. unfold apply_obs, guard_ok, exact. rewrite <- Ha. cbn [negb andb].
  destruct (ob_ref o) as [r|] eqn:Er.
  - rewrite <- Hf.
    destruct (N.eqb_spec (ob_actual o) 0).
    + rewrite N.eqb_refl. cbn. apply reg_get_del_same.
    + destruct (N.eqb_spec r (ob_actual o)); [congruence|].
      rewrite N.eqb_refl. cbn. apply reg_get_set_same.
  - rewrite <- Hf. cbn. specialize (Hn eq_refl).
    destruct (N.eqb_spec (ob_actual o) 0); [contradiction|]. apply reg_get_set_same.
Qed.

Lemma fold_done_stable s0 pid l : forall s,
  Forall (truthful s0) l -> reg_get (registry s) pid = exact s0 pid ->
  reg_get (registry (reconcile_all s l)) pid = exact s0 pid.
Proof.
  unfold reconcile_all. induction l as [|o l IH]; cbn; auto. intros s Hl Hd.
  inversion Hl; subst. apply IH; auto. now apply done_stable.
Qed.

Lemma fold_other pid l : forall s,
  Forall (fun o => ob_pid o <> pid) l ->
  reg_get (registry (reconcile_all s l)) pid = reg_get (registry s) pid.
Proof.
  unfold reconcile_all. induction l as [|o l IH]; cbn; auto. intros s Hl.
  inversion Hl; subst. rewrite IH; auto. apply apply_obs_other. congruence.
Qed.

Definition mkA (s0 : mstate) (p : N) : obs :=
  {| ob_pid := p; ob_actual := live_rows s0 p; ob_ref := reg_get (registry s0) p |}.
Definition mkB (e : N * N) : obs := {| ob_pid := fst e; ob_actual := 0; ob_ref := Some (snd e) |}.

Lemma mkA_truthful s0 p : count_rows s0 p <> 0%N -> truthful s0 (mkA s0 p).
Proof. intros H. split; cbn; auto. Qed.

Lemma partA s0 pid L : forall s,
  (forall q, In q L -> count_rows s0 q <> 0%N) ->
  (reg_get (registry s) pid = exact s0 pid
   \/ (reg_get (registry s) pid = reg_get (registry s0) pid /\ In pid L)) ->
  reg_get (registry (reconcile_all s (map (mkA s0) L))) pid = exact s0 pid.
Proof.
  induction L as [|q L IH]; intros s HL Hs.
  - destruct Hs as [Hs|[_ []]]. exact Hs.
  - cbn. apply IH; [intros; apply HL; now right|].
    assert (truthful s0 (mkA s0 q)) as Ht by (apply mkA_truthful, HL; now left).
    destruct Hs as [Hs|[Hs Hin]].
    + left. now apply done_stable.
    + destruct (N.eq_dec q pid) as [->|Hne].
      * left. apply (fresh_done s0 s (mkA s0 pid)); auto.
      * right. split; [|destruct Hin; congruence].
        rewrite apply_obs_other; auto.
Qed.

Lemma partB_zero s0 pid : count_rows s0 pid = 0%N -> forall r s,
  (reg_get (registry s) pid = None \/ reg_get (registry s) pid = reg_get r pid) ->
  reg_get (registry (reconcile_all s (map mkB (filter (fun e => N.eqb (live_rows s0 (fst e)) 0) r)))) pid = None.
Proof.
  intros Hz. induction r as [|[p c] r IH]; intros s Hs.
  - cbn in *. destruct Hs; auto.
  - cbn [filter fst]. rewrite live_rows_count.
    destruct (N.eqb_spec (count_rows s0 p) 0) as [Hp|Hp].
    + cbn [map]. unfold reconcile_all. cbn [fold_left]. apply IH.
      destruct (N.eq_dec p pid) as [->|Hne].
      * left. unfold apply_obs, guard_ok. cbn. cbn in Hs. rewrite N.eqb_refl in Hs.
        destruct Hs as [Hs|Hs]; rewrite Hs; cbn; auto.
        rewrite N.eqb_refl. cbn. apply reg_get_del_same.
      * rewrite apply_obs_other by (cbn; congruence).
        cbn in Hs. destruct (N.eqb_spec p pid); [congruence|]. exact Hs.
    + apply IH. cbn in Hs. destruct (N.eqb_spec p pid); [congruence|]. exact Hs.
Qed.

Lemma In_nodup_N_iff x l : In x (nodup_N l) <-> In x l.
Proof.
  induction l as [|y l IH]; cbn; [tauto|].
  destruct (mem_N y l) eqn:E; cbn.
  - apply mem_N_In in E. rewrite IH. split; auto. intros [<-|H]; auto.
  - rewrite IH. tauto.
Qed.

Lemma reconcile_all_shape l : forall s, exists r, reconcile_all s l = set_registry s r.
Proof.
  unfold reconcile_all. induction l as [|o l IH]; cbn; intros s.
  - exists (registry s). destruct s; reflexivity.
  - destruct (apply_obs_shape s o false) as [r ->]. destruct (IH (set_registry s r)) as [r' ->].
    exists r'. reflexivity.
Qed.

Lemma reconcile_exact s0 :
  let s1 := reconcile_all s0 (reconciliation s0) in
  RegExact s1 /\ exists r, s1 = set_registry s0 r.
Proof.
  cbn. split; [|apply reconcile_all_shape].
  destruct (reconcile_all_shape (reconciliation s0) s0) as [r0 Hshape].
  intros pid.
  assert (exact (reconcile_all s0 (reconciliation s0)) pid = exact s0 pid) as ->
    by (rewrite Hshape; reflexivity).
  unfold reconciliation, reconcile_all. rewrite fold_left_app.
  fold (reconcile_all s0 (map (fun p => {| ob_pid := p; ob_actual := live_rows s0 p; ob_ref := reg_get (registry s0) p |})
                              (nodup_N (map p_pid (parts s0))))).
  change (fun p => {| ob_pid := p; ob_actual := live_rows s0 p; ob_ref := reg_get (registry s0) p |}) with (mkA s0).
  change (fun e : N * N => {| ob_pid := fst e; ob_actual := 0; ob_ref := Some (snd e) |}) with mkB.
  set (sA := reconcile_all s0 (map (mkA s0) (nodup_N (map p_pid (parts s0))))).
  fold (reconcile_all sA (map mkB (filter (fun e => N.eqb (live_rows s0 (fst e)) 0) (registry s0)))).
  assert (forall q, In q (nodup_N (map p_pid (parts s0))) -> count_rows s0 q <> 0%N) as HL.
  { intros q Hq. apply (proj1 (In_nodup_N_iff _ _)) in Hq. apply in_map_iff in Hq. destruct Hq as [row [<- Hrow]].
    now apply count_rows_pos. }
  destruct (N.eq_dec (count_rows s0 pid) 0) as [Hz|Hnz].
  - (* unreferenced id: untouched by part (a), deleted by part (b) *)
    unfold exact. rewrite Hz. cbn. apply partB_zero; auto. right.
    unfold sA. apply fold_other. apply Forall_forall. intros o Ho.
    apply in_map_iff in Ho. destruct Ho as [q [<- Hq]]. cbn. intros ->. now apply (HL pid).
  - (* referenced id: made exact by its observation in part (a), stable afterwards *)
    apply fold_done_stable.
    + apply Forall_forall. intros o Ho. apply in_map_iff in Ho. destruct Ho as [[p c] [<- He]].
      apply filter_In in He. destruct He as [_ He]. cbn in He. rewrite live_rows_count in He.
      apply N.eqb_eq in He. split; cbn; [now rewrite He|discriminate].
    + unfold sA. apply partA; auto. right. split; auto.
      apply In_nodup_N_iff.
      unfold count_rows in Hnz.
      destruct (filter (fun p => N.eqb (p_pid p) pid) (parts s0)) as [|row l] eqn:Ef; [cbn in Hnz; lia|].
      assert (In row (filter (fun p => N.eqb (p_pid p) pid) (parts s0))) as Hin by (rewrite Ef; now left).
      apply filter_In in Hin. destruct Hin as [Hin Heq]. apply N.eqb_eq in Heq. subst pid.
      apply in_map. exact Hin.
Qed.

(* ---- condemn under an exact registry ---- *)
Lemma condemn_check_exact s pid : RegExact s ->
  condemn_check s pid = (N.eqb (count_rows s pid) 0, s).
Proof.
  intros HR. unfold condemn_check. rewrite (HR pid). unfold exact. change (live_rows s pid) with (count_rows s pid).
  destruct (N.eqb_spec (count_rows s pid) 0) as [Hz|Hnz]; [reflexivity|].
  cbn. destruct (N.eqb_spec (count_rows s pid) 0); [contradiction|reflexivity].
Qed.

Lemma condemn_one_exact g p : RegExact (ms g) ->
  condemn_one g p = if N.eqb (count_rows (ms g) p) 0
                    then set_cond (set_ms g (drop_dedup_of (ms g) p)) (g_cond g ++ [p]) else g.
Proof. intros HR. unfold condemn_one. now rewrite condemn_check_exact. Qed.

Lemma condemn_all_exact l : forall g, RegExact (ms g) ->
  let g' := condemn_all g l in
  g_cond g' = g_cond g ++ filter (fun p => N.eqb (count_rows (ms g) p) 0) l
  /\ parts (ms g') = parts (ms g) /\ registry (ms g') = registry (ms g) /\ store (ms g') = store (ms g)
  /\ objs (ms g') = objs (ms g) /\ buckets (ms g') = buckets (ms g)
  /\ g_junk g' = g_junk g
  /\ (forall e, In e (dedup (ms g')) -> In e (dedup (ms g))).
Proof.
  unfold condemn_all. induction l as [|p l IH]; cbn [fold_left filter]; intros g HR.
  - rewrite app_nil_r. repeat split; auto.
  - rewrite condemn_one_exact by auto.
    destruct (N.eqb (count_rows (ms g) p) 0) eqn:Ez.
    + set (g1 := set_cond (set_ms g (drop_dedup_of (ms g) p)) (g_cond g ++ [p])).
      assert (RegExact (ms g1)) as HR1 by exact HR.
      destruct (IH g1 HR1) as (H1 & H2 & H3 & H4 & H5 & H6 & H7 & H8).
      rewrite H1, H2, H3, H4, H5, H6, H7. cbn. rewrite <- app_assoc. cbn.
      repeat split; auto.
      intros e He. apply H8 in He. cbn in He. apply filter_In in He. tauto.
    + apply IH; auto.
Qed.

Lemma store_get_fold_del l : forall s p,
  store_get (store (fold_left store_del l s)) p = if mem_N p l then None else store_get (store s) p.
Proof.
  induction l as [|q l IH]; cbn; intros s p; auto.
  rewrite IH. unfold store_del. cbn [store set_store]. fold (mem_N p l).
  destruct (N.eqb_spec p q) as [->|Hne]; cbn.
  - rewrite store_get_del_same. now destruct (mem_N q l).
  - now rewrite store_get_del_other.
Qed.

Lemma fold_del_frame l : forall s,
  let s' := fold_left store_del l s in
  parts s' = parts s /\ registry s' = registry s /\ dedup s' = dedup s /\ objs s' = objs s /\ buckets s' = buckets s.
Proof.
  induction l as [|q l IH]; cbn; intros s; [repeat split|].
  destruct (IH (store_del s q)) as (H1 & H2 & H3 & H4 & H5). cbn in *. repeat split; congruence.
Qed.

(* ---- the theorem ---- *)
Lemma gc_run_converges young g : g_cond g = [] ->
  let s := ms g in let s' := ms (gc_run young g) in
  (* metadata untouched *)
  parts s' = parts s /\ objs s' = objs s /\ buckets s' = buckets s
  (* registry exact *)
  /\ RegExact s'
  (* the dedup index points only at referenced parts *)
  /\ (forall c p, In (c, p) (dedup s') -> count_rows s p <> 0%N)
  (* store: unreferenced old ids are gone, everything else is untouched *)
  /\ (forall p, store_get (store s') p =
                if N.eqb (count_rows s p) 0 && negb (mem_N p young) then None else store_get (store s) p)
  (* nothing else is ever removed: leftovers of crashed operations stay, no work is left pending *)
  /\ g_junk (gc_run young g) = g_junk g /\ g_cond (gc_run young g) = [].
Proof.
  intros Hc. cbn zeta. unfold gc_run.
  destruct (reconcile_exact (ms g)) as [HR1 [r1 Hs1]]. cbn zeta in HR1, Hs1.
  set (s1 := reconcile_all (ms g) (reconciliation (ms g))) in *.
  destruct (prune_backfill_shape s1) as [d2 Hs2].
  set (s2 := prune_backfill s1) in *.
  assert (parts s2 = parts (ms g) /\ registry s2 = registry s1 /\ store s2 = store (ms g)
          /\ objs s2 = objs (ms g) /\ buckets s2 = buckets (ms g)) as (Hp2 & Hr2 & Hst2 & Ho2 & Hb2)
    by (rewrite Hs2, Hs1; repeat split).
  assert (forall p, count_rows s2 p = count_rows (ms g) p) as Hcnt by (intros; now apply count_rows_ext).
  assert (RegExact s2) as HR2.
  { intros p. rewrite Hr2, (HR1 p). unfold exact. rewrite Hcnt.
    now rewrite (count_rows_ext s1 (ms g)) by (rewrite Hs1; reflexivity). }
  set (cands := filter (fun p => negb (mem_N p young)) (map fst (store s2))).
  destruct (condemn_all_exact cands (set_ms g s2) HR2) as (C1 & C2 & C3 & C4 & C5 & C6 & C7 & C8).
  cbn [ms set_ms g_cond g_junk] in *.
  set (g3 := condemn_all (set_ms g s2) cands) in *.
  unfold extdel_all. cbn [ms g_cond g_junk set_cond set_ms].
  destruct (fold_del_frame (g_cond g3) (ms g3)) as (F1 & F2 & F3 & F4 & F5). cbn zeta in *.
  repeat split.
  - congruence.
  - congruence.
  - congruence.
  - intros p. rewrite F2, C3. rewrite (HR2 p). unfold exact, count_rows. rewrite F1, C2. reflexivity.
  - intros c p Hin. rewrite F3 in Hin. apply C8 in Hin.
    pose proof (prune_backfill_dedup_In s1 c p) as Hd. fold s2 in Hd. specialize (Hd Hin).
    rewrite <- (count_rows_ext s1 (ms g)) by (rewrite Hs1; reflexivity).
    destruct Hd as [[_ ?]|[row [Hrow [_ <-]]]]; auto. now apply count_rows_pos.
  - intros p. rewrite store_get_fold_del, C4, Hst2, C1, Hc. cbn [app].
    destruct (mem_N p (filter (fun p0 => N.eqb (count_rows s2 p0) 0) cands)) eqn:Em.
    + apply mem_N_In in Em. apply filter_In in Em. destruct Em as [Hin Hz].
      unfold cands in Hin. apply filter_In in Hin. destruct Hin as [_ Hy].
      rewrite Hcnt in Hz. now rewrite Hz, Hy.
    + destruct (N.eqb (count_rows (ms g) p) 0 && negb (mem_N p young)) eqn:Eb; auto.
      apply andb_prop in Eb. destruct Eb as [Hz Hy].
      destruct (store_get (store (ms g)) p) as [b|] eqn:Es; auto.
      exfalso. assert (mem_N p (filter (fun p0 => N.eqb (count_rows s2 p0) 0) cands) = true) as Hm.
      { apply mem_N_In. apply filter_In. split; [|now rewrite Hcnt].
        unfold cands. apply filter_In. split; auto. rewrite Hst2.
        apply store_get_In in Es. apply in_map_iff. exists (p, b). auto. }
      congruence.
  - congruence.
Qed.

(* crash steps are the only source of invisible leftovers *)
Definition is_crash (st : gstep) : bool :=
  match st with SCrashBeforeCommit _ | SCrashAfterCommit _ _ _ => true | _ => false end.
Lemma no_crash_no_junk tr : forall g, forallb (fun st => negb (is_crash st)) tr = true ->
  g_junk (run_trace g tr) = g_junk g.
Proof.
  unfold run_trace. induction tr as [|st tr IH]; cbn; auto. intros g H. apply andb_prop in H. destruct H as [H1 H2].
  rewrite IH by auto. destruct st; cbn in *; try discriminate; auto.
  - destruct (nth_error (g_obs g) k); auto.
  - destruct (nth_error (g_cand g) k); auto. unfold condemn_one.
    destruct (condemn_check _ _) as [[|] ?]; auto.
  - destruct (nth_error (g_cond g) k); auto.
Qed.
