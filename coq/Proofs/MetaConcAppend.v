(* Proofs/MetaConcAppend.v — C12: AppendObject on M-META, sequentially and under all interleavings. *)
From Verif Require Import Bytes Codec Md5 Meta MetaBasics MetaConc MetaConcBase MetaConcState.
From Coq Require Import Permutation ZifyBool ZifyN ZifyNat.

(* ---------- the write-offset rule (no assumption on the state) ---------- *)
Lemma op_append_off_eq s vn b k c o :
  o = cur_size s b k -> op_append s vn b k c (Some o) = op_append s vn b k c None.
Proof.
  intros ->. unfold op_append, cur_size, cur_row.
  destruct (find_bucket s b) as [bk|]; [|reflexivity].
  destruct (find_latest s b k) as [r|]; [destruct (o_dm r)|]; cbv zeta; rewrite ?Z.eqb_refl; reflexivity.
Qed.

Lemma op_append_off_ne s vn b k c o :
  o <> cur_size s b k -> is_ack (snd (op_append s vn b k c (Some o))) = false.
Proof.
  intros H. unfold op_append, cur_size, cur_row in *.
  destruct (find_bucket s b) as [bk|]; [|reflexivity].
  destruct (find_latest s b k) as [r|]; [destruct (o_dm r)|]; cbv zeta;
    try (destruct (negb (manifest_complete s r)); [reflexivity|]);
    match goal with |- context [Z.eqb o ?x] => destruct (Z.eqb o x) eqn:E; [apply Z.eqb_eq in E; contradiction|] end;
    reflexivity.
Qed.

Lemma append_offset_rule s vn b k c o :
  is_ack (snd (op_append s vn b k c (Some o))) = true <->
  (o = cur_size s b k /\ is_ack (snd (op_append s vn b k c None)) = true).
Proof.
  split.
  - intros H. destruct (Z.eq_dec o (cur_size s b k)) as [E|E].
    + split; [exact E|]. rewrite <- (op_append_off_eq s vn b k c o E). exact H.
    + rewrite (op_append_off_ne s vn b k c o E) in H. discriminate.
  - intros [E H]. rewrite (op_append_off_eq s vn b k c o E). exact H.
Qed.

Definition demote (s : mstate) (b k : bytes) : mstate :=
  match find_latest s b k with Some r => set_latest s r false | None => s end.

Lemma demote_facts s b k :
  (exists f, objs (demote s b k) = map f (objs s) /\ (forall x, o_id (f x) = o_id x) /\
             (forall x, In x (objs s) -> o_dm (f x) = true -> exists y, In y (objs s) /\ o_id y = o_id x /\ o_dm y = true)) /\
  parts (demote s b k) = parts s /\ buckets (demote s b k) = buckets s /\ next_id (demote s b k) = next_id s.
Proof.
  unfold demote. destruct (find_latest s b k) as [r|] eqn:F.
  - unfold set_latest. destruct (update_row_facts s (with_row r false (o_updated r) (o_lock r))) as (A1 & A2 & A3 & A4 & _).
    split; [|repeat split; assumption].
    eexists. split; [exact A1|]. split; [intros x; apply upd_fun_id|].
    intros x Hx Hd. unfold upd_fun in Hd. cbn [o_id with_row] in Hd.
    destruct (N.eqb (o_id x) (o_id r)) eqn:E.
    + cbn in Hd. exists r. apply find_some in F. destruct F as [F _]. apply N.eqb_eq in E. auto.
    + exists x. auto.
  - split; [|repeat split; reflexivity]. exists (fun x => x). split; [rewrite map_id; reflexivity|].
    split; [reflexivity|]. intros x Hx Hd. exists x. auto.
Qed.

Lemma meta_put_enabled s vn b k w bk s2 r u :
  find_bucket s b = Some bk -> b_ver bk = VEnabled -> meta_put s vn b k w CNone = (s2, r, u) ->
  r = RPut (VId vn) (w_etag w) /\ u = [] /\
  objs s2 = objs (demote s b k) ++ [mk_row b k (Some (VId vn)) true false None w (next_id s) (clock (demote s b k))] /\
  parts s2 = parts s ++ mk_prows (next_id s) (w_parts w) 0 /\
  next_id s2 = (next_id s + 1)%N /\ buckets s2 = buckets s.
Proof.
  intros FB EN H. unfold meta_put in H. rewrite FB in H. cbn [cond_fails is_cond] in H.
  assert (X : match find_latest s b k with Some _ => s | None => s end = s) by (destruct (find_latest s b k); reflexivity).
  rewrite X in H. clear X. rewrite EN in H. fold (demote s b k) in H.
  destruct (demote_facts s b k) as (_ & D2 & D3 & D4).
  destruct (insert_row (demote s b k) _) as [id s3] eqn:IR.
  apply insert_row_facts in IR. destruct IR as (I1 & I2 & I3 & I4 & I5 & _).
  destruct (spr_facts (w_parts w) s3 id 0) as (S1 & S2 & S3 & S4 & _).
  inversion H; subst s2 r u. rewrite S1, S2, S3, S4, I2, I3, I4, I5, D2, D3, D4, I1, D4.
  repeat split; reflexivity.
Qed.

(* a freshly inserted latest row is what the key resolves to once the unique index check has passed *)
Lemma new_row_resolves s' L b k v w id now ps (P0 : list prow) :
  let nr := mk_row b k v true false None w id now in
  objs s' = L ++ [nr] -> unique_ok s' = true ->
  parts s' = P0 ++ mk_prows id ps 0 -> (forall p, In p P0 -> p_obj p <> id) ->
  cur_row s' b k = Some nr /\ row_parts s' nr = mk_prows id ps 0.
Proof.
  intros nr Ho U Hp Hf.
  assert (In nr (objs s')) as Hin by (rewrite Ho; apply in_or_app; right; left; reflexivity).
  assert (on_key b k nr = true) as K by (unfold on_key, nr; cbn; rewrite !bytes_eqb_refl; reflexivity).
  assert (find_latest s' b k = Some nr) as F.
  { unfold find_latest. apply find_unique; [|exact Hin|rewrite K; reflexivity].
    unfold unique_ok in U. rewrite forallb_forall in U. specialize (U nr Hin). cbn in U.
    apply andb_true_iff in U. destruct U as [U _]. apply Nat.leb_le in U. exact U. }
  split.
  - unfold cur_row. rewrite F. reflexivity.
  - unfold row_parts, obj_parts. rewrite Hp, filter_app. cbn [o_id nr mk_row].
    rewrite (filter_none _ P0), (filter_all _ (mk_prows id ps 0)).
    + cbn. apply (sort_parts_asc 0). apply mk_prows_asc.
    + intros x Hx. apply N.eqb_eq. eapply mk_prows_obj. exact Hx.
    + intros x Hx. apply N.eqb_neq. apply Hf. exact Hx.
Qed.

Lemma cinv_insert s s' f nr ps :
  CInv s -> objs s' = map f (objs s) ++ [nr] -> (forall x, o_id (f x) = o_id x) ->
  (forall x, In x (objs s) -> o_dm (f x) = true -> exists y, In y (objs s) /\ o_id y = o_id x /\ o_dm y = true) ->
  o_dm nr = false -> (next_id s <= o_id nr)%N -> (o_id nr < next_id s')%N ->
  parts s' = parts s ++ mk_prows (o_id nr) ps 0 -> CInv s'.
Proof.
  intros ((F1 & F2) & ND & DM) Ho Hid Hdm Hnr Hlo Hhi Hp.
  split; [split|split].
  - intros r Hr. rewrite Ho in Hr. apply in_app_or in Hr. destruct Hr as [Hr|[<-|[]]]; [|exact Hhi].
    apply in_map_iff in Hr. destruct Hr as (x & <- & Hx). rewrite Hid. specialize (F1 x Hx). lia.
  - intros p Hp'. rewrite Hp in Hp'. apply in_app_or in Hp'. destruct Hp' as [Hp'|Hp'].
    + specialize (F2 p Hp'). lia.
    + rewrite (mk_prows_obj _ _ _ _ Hp'). exact Hhi.
  - rewrite Ho, map_app, map_map. cbn. rewrite (map_ext _ o_id Hid).
    assert (~ In (o_id nr) (map o_id (objs s))) as Hn.
    { intros Hi. apply in_map_iff in Hi. destruct Hi as (x & E & Hx). specialize (F1 x Hx). lia. }
    clear -ND Hn. induction (map o_id (objs s)) as [|a l IH]; cbn; [constructor; [intros []|constructor]|].
    inversion ND; subst. constructor.
    + intros Hi. apply in_app_or in Hi. destruct Hi as [Hi|[<-|[]]]; [contradiction|]. apply Hn. left. reflexivity.
    + apply IH; [assumption|]. intros Hi. apply Hn. right. exact Hi.
  - intros r Hr Hd. rewrite Ho in Hr. apply in_app_or in Hr. destruct Hr as [Hr|[<-|[]]]; [|congruence].
    apply in_map_iff in Hr. destruct Hr as (x & <- & Hx). destruct (Hdm x Hx Hd) as (y & Hy & Ey & Dy).
    rewrite Hid. unfold obj_parts. rewrite Hp, filter_app.
    specialize (DM y Hy Dy). unfold obj_parts in DM. rewrite Ey in DM. rewrite DM. cbn.
    apply filter_none. intros q Hq. apply N.eqb_neq. rewrite (mk_prows_obj _ _ _ _ Hq).
    specialize (F1 x Hx). lia.
Qed.

Lemma row_parts_ext s1 s r : parts s1 = parts s -> row_parts s1 r = row_parts s r.
Proof. intros E. unfold row_parts, obj_parts. rewrite E. reflexivity. Qed.

Lemma append_post s vn b k c off s' e sz :
  op_append s vn b k c off = (s', RAppend e sz) -> CInv s ->
  sz = (cur_size s b k + zlen c)%Z /\
  e = mk_multi (cur_chunks s b k ++ [c]) /\
  (exists r', cur_row s' b k = Some r' /\ o_size r' = sz /\ o_etag r' = e /\
      map p_content (row_parts s' r') = cur_chunks s b k ++ [c]) /\
  CInv s'.
Proof.
  intros H Inv. unfold op_append in H.
  apply commit_inv in H; [|intros x; discriminate]. destruct H as (H & U1 & U2).
  destruct (find_bucket s b) as [bk|] eqn:FB; [|inversion H].
  cbv zeta in H.
  fold (cur_row s b k) in H.
  destruct (match cur_row s b k with Some r => negb (manifest_complete s r) | None => false end) eqn:MC; [inversion H|].
  match type of H with (if ?X then _ else _) = _ => destruct X eqn:OC; [inversion H|] end.
  destruct (put_fresh_part s c) as [np s1] eqn:PF.
  destruct (pfp_facts _ _ _ _ PF) as (Po & Pp & Pb & Pn & Pc & Pk).
  assert (FL1 : find_latest s1 b k = find_latest s b k) by (unfold find_latest; rewrite Po; reflexivity).
  assert (CH : map p_content match cur_row s b k with Some r => row_parts s1 r | None => [] end = cur_chunks s b k).
  { unfold cur_chunks. destruct (cur_row s b k); [rewrite (row_parts_ext s1 s o Pp)|]; reflexivity. }
  assert (SZ : (match cur_row s b k with Some r => o_size r | None => 0 end)%Z = cur_size s b k) by reflexivity.
  rewrite CH, SZ in H.
  destruct Inv as ((F1 & F2) & ND & DM).
  destruct (match b_ver bk with VEnabled => true | _ => false end) eqn:EN.
  - (* Enabled: a new version sharing the prefix *)
    assert (b_ver bk = VEnabled) as EN' by (destruct (b_ver bk); try discriminate; reflexivity).
    destruct (try_add_refs _ _) as [reg|]; [|inversion H].
    destruct (meta_put _ _ _ _ _ _) as [[s2 r2] u2] eqn:MP.
    eapply (meta_put_enabled _ vn b k _ bk) in MP; [|unfold find_bucket in *; cbn; rewrite Pb; exact FB|exact EN'].
    destruct MP as (-> & -> & Mo & Mp & Mn & Mb). cbn [delete_unreferenced fold_left] in H.
    inversion H; subst s2 e sz. clear H.
    cbn [w_etag w_parts next_id set_registry parts] in *.
    split; [reflexivity|]. split; [reflexivity|].
    destruct (demote_facts (set_registry s1 reg) b k) as ((f & Df & Did & Ddm) & D2 & D3 & D4).
    cbn [objs set_registry] in Df, Ddm. rewrite Po in Df, Ddm.
    rewrite Df, Pn in Mo. rewrite Pp, Pn in Mp. rewrite Pn in Mn.
    split.
    + eexists. 
      destruct (new_row_resolves s' _ b k _ _ _ _ _ _ Mo U1 Mp) as (R1 & R2).
      { intros p Hp. specialize (F2 p Hp). lia. }
      split; [exact R1|]. split; [reflexivity|]. split; [reflexivity|].
      rewrite R2, mk_prows_content, map_app, map_map. cbn. rewrite Pc. f_equal.
      rewrite <- CH. rewrite map_ext with (g := p_content); reflexivity.
    + eapply (cinv_insert s s' f) with (ps := _); [repeat split; assumption|exact Mo|exact Did|exact Ddm|reflexivity| | |].
      * cbn. lia.
      * cbn. rewrite Mn. lia.
      * cbn [o_id mk_row]. exact Mp.
  - rewrite FL1 in H. destruct (find_latest s b k) as [old|] eqn:FL.
    + (* in place on the latest row *)
      injection H as H He Hsz. subst e sz.
      split; [reflexivity|]. split; [reflexivity|].
      set (r' := {| o_id := o_id old; o_bucket := b; o_key := k; o_vid := o_vid old; o_latest := true; o_dm := false;
                    o_upload := None; o_created := o_created old; o_updated := o_updated old; o_lock := o_lock old;
                    o_etag := mk_multi (cur_chunks s b k ++ [c]); o_size := (cur_size s b k + zlen c)%Z;
                    o_ctype := o_ctype old; o_class := o_class old; o_tags := o_tags old; o_umeta := o_umeta old;
                    o_written := clock s1 |}) in *.
      destruct (update_row_facts s1 r') as (A1 & A2 & A3 & A4 & _).
      set (nseq := match rev (sort_parts (obj_parts s1 (o_id old))) with [] => 0%N | lastp :: _ => (p_seq lastp + 1)%N end) in *.
      destruct (spr_facts [np] (update_row s1 r') (o_id old) nseq) as (S1 & S2 & S3 & S4 & _).
      assert (H' : save_part_rows (update_row s1 r') (o_id old) [np] nseq = s') by (rewrite <- H; reflexivity).
      rewrite H' in S1, S2, S3, S4. rewrite A1, Po in S1. rewrite A2, Pp in S2. cbn [mk_prows] in S2.
      pose proof (find_some _ _ FL) as [OI OP].
      apply andb_true_iff in OP. destruct OP as [OP OL]. apply andb_true_iff in OP. destruct OP as [OK OC'].
      (* the key resolves to the rewritten row *)
      destruct (find_map_upd (fun r => on_key b k r && completed r && o_latest r) (objs s) old r' (clock s1) FL eq_refl)
        as (x0 & X1 & X2 & X3).
      { intros x. unfold upd_fun. destruct (N.eqb (o_id x) (o_id r')); [left|right; reflexivity].
        cbn. unfold on_key. cbn. rewrite !bytes_eqb_refl. reflexivity. }
      assert (UF : upd_fun r' (clock s1) x0 = with_row r' true (clock s1) (o_lock x0 + 1)).
      { unfold upd_fun. cbn [o_id r']. rewrite X2, N.eqb_refl. reflexivity. }
      set (new := {| p_obj := o_id old; p_seq := nseq; p_pid := n_pid np; p_content := n_content np |}) in *.
      assert (OPS : obj_parts s' (o_id old) = obj_parts s (o_id old) ++ [new]).
      { unfold obj_parts. rewrite S2, filter_app. cbn. rewrite N.eqb_refl. reflexivity. }
      assert (RP : sort_parts (obj_parts s' (o_id old)) = sort_parts (obj_parts s (o_id old)) ++ [new]).
      { rewrite OPS. apply sort_parts_snoc. intros q Hq. cbn [p_seq new]. subst nseq.
        assert (obj_parts s1 (o_id old) = obj_parts s (o_id old)) as -> by (unfold obj_parts; rewrite Pp; reflexivity).
        destruct (rev (sort_parts (obj_parts s (o_id old)))) as [|lastp rest] eqn:R.
        - apply (f_equal (@rev _)) in R. rewrite rev_involutive in R. cbn in R.
          apply sort_parts_in in Hq. rewrite R in Hq. contradiction.
        - pose proof (sorted_last_max _ _ _ (sort_parts_sorted _) R q (proj2 (sort_parts_in _ _) Hq)). lia. }
      assert (CC : map p_content (sort_parts (obj_parts s (o_id old))) = cur_chunks s b k).
      { unfold cur_chunks, cur_row. rewrite FL. destruct (o_dm old) eqn:OD; [|reflexivity].
        rewrite (DM old OI OD). reflexivity. }
      split.
      * exists (upd_fun r' (clock s1) x0). split.
        { unfold cur_row, find_latest. rewrite S1, X3, UF. reflexivity. }
        rewrite UF. split; [reflexivity|]. split; [reflexivity|].
        unfold row_parts. cbn [o_id with_row r']. rewrite RP, map_app, CC. cbn. rewrite Pc. reflexivity.
      * split; [split|split].
        -- intros r Hr. rewrite S1 in Hr. apply in_map_iff in Hr. destruct Hr as (x & <- & Hx).
           rewrite upd_fun_id, S4, A4, Pn. specialize (F1 x Hx). lia.
        -- intros p Hp. rewrite S2 in Hp. rewrite S4, A4, Pn. apply in_app_or in Hp. destruct Hp as [Hp|[<-|[]]].
           ++ specialize (F2 p Hp). lia.
           ++ cbn. specialize (F1 old OI). lia.
        -- rewrite S1, map_upd_ids. exact ND.
        -- intros r Hr Hd. rewrite S1 in Hr. apply in_map_iff in Hr. destruct Hr as (x & <- & Hx).
           unfold upd_fun in *. cbn [o_id r'] in *. destruct (N.eqb (o_id x) (o_id old)) eqn:E; [cbn in Hd; discriminate|].
           unfold obj_parts. rewrite S2, filter_app. cbn. rewrite N.eqb_sym, E. rewrite app_nil_r. apply (DM x Hx Hd).
    + (* no row at all: a new null version *)
      destruct (insert_row s1 _) as [id s2] eqn:IR.
      apply insert_row_facts in IR. destruct IR as (I1 & I2 & I3 & I4 & I5 & _).
      destruct (spr_facts [np] s2 id 0) as (S1 & S2 & S3 & S4 & _).
      injection H as H He Hsz. subst e sz.
      assert (H' : save_part_rows s2 id [np] 0 = s') by (rewrite <- H; reflexivity).
      rewrite H' in S1, S2, S3, S4. clear H.
      rewrite I2, Po in S1. rewrite I3, Pp in S2. rewrite I5, Pn in S4. rewrite I1, Pn in *.
      split; [reflexivity|]. split; [reflexivity|].
      assert (CC : cur_chunks s b k = []) by (unfold cur_chunks, cur_row; rewrite FL; reflexivity).
      split.
      * eexists.
        destruct (new_row_resolves s' _ b k _ _ _ _ _ _ S1 U1 S2) as (R1 & R2).
        { intros p Hp. specialize (F2 p Hp). lia. }
        split; [exact R1|]. split; [reflexivity|]. split; [reflexivity|].
        rewrite R2, CC. cbn. rewrite Pc. reflexivity.
      * rewrite <- (map_id (objs s)) in S1.
        eapply (cinv_insert s s' (fun x => x)) with (ps := [np]); [repeat split; assumption|exact S1|reflexivity| |reflexivity| | |].
        -- intros x Hx Hd. exists x. auto.
        -- cbn. lia.
        -- cbn. rewrite S4. lia.
        -- cbn [o_id mk_row]. exact S2.
Qed.

(* ---------- a rejected append leaves the state alone ---------- *)
Lemma append_nack_state s vn b k c off s' r :
  op_append s vn b k c off = (s', r) -> is_ack r = false -> s' = s /\ exists e, r = RErr e.
Proof.
  unfold op_append. set (X := match find_bucket s b with Some bk => _ | None => _ end).
  assert (HX : (exists e, snd X = RErr e) \/ (exists e z, snd X = RAppend e z)).
  { subst X. destruct (find_bucket s b) as [bk|] eqn:FB; [|left; eexists; reflexivity]. cbv zeta.
    destruct (match match find_latest s b k with Some r => if o_dm r then None else Some r | None => None end with
              | Some r => negb (manifest_complete s r) | None => false end); [left; eexists; reflexivity|].
    match goal with |- context [if ?c then (s, RErr InvalidWriteOffset) else _] => destruct c end; [left; eexists; reflexivity|].
    destruct (put_fresh_part s c) as [np s1] eqn:PF. destruct (pfp_facts _ _ _ _ PF) as (_ & _ & Pb & _).
    destruct (match b_ver bk with VEnabled => true | _ => false end) eqn:EN.
    - assert (b_ver bk = VEnabled) as EN' by (destruct (b_ver bk); try discriminate; reflexivity).
      destruct (try_add_refs _ _) as [reg|]; [|left; eexists; reflexivity].
      destruct (meta_put _ _ _ _ _ _) as [[s2 r2] u2] eqn:MP.
      eapply (meta_put_enabled _ vn b k _ bk) in MP; [|unfold find_bucket in *; cbn; rewrite Pb; exact FB|exact EN'].
      destruct MP as (-> & _). right. eexists. eexists. reflexivity.
    - destruct (find_latest s1 b k); [right; eexists; eexists; reflexivity|].
      destruct (insert_row _ _). right; eexists; eexists; reflexivity. }
  unfold commit. intros H Hn.
  destruct HX as [(e & HX)|(e & z & HX)]; rewrite HX in H.
  - inversion H; subst. split; [reflexivity|eexists; reflexivity].
  - destruct (unique_ok (fst X) && parts_unique_ok (fst X)).
    + rewrite H in HX. cbn in HX. subst r. discriminate.
    + inversion H; subst. split; [reflexivity|eexists; reflexivity].
Qed.

(* ---------- schedules ---------- *)
Lemma total_len_app a b : total_len (a ++ b) = (total_len a + total_len b)%Z.
Proof. unfold total_len. induction a as [|x a IH]; cbn; [reflexivity|]. cbn in IH. rewrite IH. lia. Qed.

Lemma cinv_with_ids s i : CInv s -> CInv (with_ids s i).
Proof. intros H. exact H. Qed.

Lemma run_apps_linear b k : forall sched i s s' rs,
  run_apps b k i s sched = (s', rs) -> CInv s ->
  length rs = length sched /\
  cur_chunks s' b k = cur_chunks s b k ++ acked sched rs /\
  cur_size s' b k = (cur_size s b k + total_len (acked sched rs))%Z /\
  CInv s' /\
  (forall j c o, nth_error sched j = Some (c, Some o) -> (exists e z, nth_error rs j = Some (RAppend e z)) ->
                 o = (cur_size s b k + total_len (acked (firstn j sched) (firstn j rs)))%Z).
Proof.
  induction sched as [|a sched IH]; intros i s s' rs H Inv; cbn [run_apps] in H.
  - inversion H; subst. cbn. rewrite app_nil_r.
    split; [reflexivity|]. split; [reflexivity|]. split; [lia|]. split; [exact Inv|].
    intros [|j] c o Hn; discriminate.
  - destruct (op_append (with_ids s i) i b k (fst a) (snd a)) as [s1 r] eqn:OA.
    destruct (run_apps b k (i + 1) s1 sched) as [s2 rs'] eqn:RA. inversion H; subst s2 rs. clear H.
    assert (ST : (is_ack r = true /\ cur_chunks s1 b k = cur_chunks s b k ++ [fst a] /\
                  cur_size s1 b k = (cur_size s b k + zlen (fst a))%Z /\ CInv s1 /\
                  (forall o, snd a = Some o -> o = cur_size s b k)) \/
                 (is_ack r = false /\ cur_chunks s1 b k = cur_chunks s b k /\ cur_size s1 b k = cur_size s b k /\ CInv s1)).
    { destruct r; try (right; destruct (append_nack_state _ _ _ _ _ _ _ _ OA eq_refl) as (-> & _);
                       split; [reflexivity|]; split; [reflexivity|]; split; [reflexivity|exact Inv]).
      left. pose proof OA as OA'. apply append_post in OA'; [|exact Inv].
      destruct OA' as (Z1 & Z2 & (r' & R1 & R2 & R3 & R4) & Z3).
      split; [reflexivity|]. split; [unfold cur_chunks at 1; rewrite R1; exact R4|].
      split; [unfold cur_size at 1; rewrite R1, R2; exact Z1|]. split; [exact Z3|].
      intros o Ho. destruct a as [c0 off0]. cbn in *. subst off0.
      assert (is_ack (snd (op_append (with_ids s i) i b k c0 (Some o))) = true) as A by (rewrite OA; reflexivity).
      apply append_offset_rule in A. exact (proj1 A). }
    destruct (IH (i + 1)%N s1 s' rs' RA) as (L1 & L2 & L3 & L4 & L5).
    { destruct ST as [(_ & _ & _ & I1 & _)|(_ & _ & _ & I1)]; exact I1. }
    cbn [acked length].
    destruct ST as [(A & C1 & C2 & I1 & OF)|(A & C1 & C2 & I1)]; rewrite A; cbn [app].
    + split; [lia|]. split; [rewrite L2, C1, <- app_assoc; reflexivity|].
      split; [rewrite L3, C2; change (fst a :: acked sched rs') with ([fst a] ++ acked sched rs'); rewrite total_len_app; cbn; lia|].
      split; [exact L4|].
      intros [|j] c o Hn Hr; cbn in Hn, Hr.
      * inversion Hn; subst a. cbn. rewrite (OF o eq_refl). lia.
      * cbn [firstn acked]. rewrite A. specialize (L5 j c o Hn Hr). rewrite L5, C2.
        change ([fst a] ++ ?x) with ([fst a] ++ x). rewrite total_len_app. cbn. lia.
    + split; [lia|]. split; [rewrite L2, C1; reflexivity|]. split; [rewrite L3, C2; reflexivity|]. split; [exact L4|].
      intros [|j] c o Hn Hr; cbn in Hn, Hr.
      * destruct Hr as (e & z & Hr). inversion Hr; subst r. discriminate.
      * cbn [firstn acked]. rewrite A. cbn [app]. specialize (L5 j c o Hn Hr). rewrite L5, C2. reflexivity.
Qed.

(* run_apps is the frozen model's run_from on the corresponding OApp operations *)
Lemma run_apps_is_run_from b k : forall sched i hist s,
  run_from i hist s (map (app_op b k) sched) =
  (fst (run_apps b k i s sched), rev hist ++ snd (run_apps b k i s sched)).
Proof.
  induction sched as [|a sched IH]; intros i hist s; cbn [map run_from run_apps].
  - cbn. rewrite app_nil_r. reflexivity.
  - cbn [step app_op]. destruct (op_append (with_ids s i) i b k (fst a) (snd a)) as [s1 r].
    rewrite IH. destruct (run_apps b k (i + 1) s1 sched) as [s2 rs]. cbn. rewrite <- app_assoc. reflexivity.
Qed.

(* ---------- from recorded chunks to the bytes GET returns ---------- *)
Lemma read_parts_present s ps :
  (forall p, In p ps -> store_get (store s) (p_pid p) = Some (p_content p)) ->
  read_parts s ps = Some (concat (map p_content ps)).
Proof.
  unfold read_parts. intros H.
  assert (G : forall acc, fold_left (fun acc p => match acc, store_get (store s) (p_pid p) with
                                                   | Some a, Some c => Some (a ++ c) | _, _ => None end) ps (Some acc)
                          = Some (acc ++ concat (map p_content ps))).
  { induction ps as [|p ps IH]; intros acc; cbn; [rewrite app_nil_r; reflexivity|].
    rewrite (H p (or_introl eq_refl)), IH; [rewrite <- app_assoc; reflexivity|]. intros q Hq. apply H. right. exact Hq. }
  apply (G []).
Qed.

Lemma total_len_concat cs : Z.of_nat (length (concat cs)) = total_len cs.
Proof. unfold total_len, zlen. induction cs as [|c cs IH]; cbn; [reflexivity|]. rewrite app_length. lia. Qed.

Lemma get_of_chunks s b k r bk :
  find_bucket s b = Some bk -> cur_row s b k = Some r -> parts_present s ->
  o_size r = total_len (cur_chunks s b k) ->
  op_get s b k None =
  RObj (row_vid r) (o_etag r) (o_size r) (o_updated r) (o_ctype r) (Some (concat (cur_chunks s b k))).
Proof.
  intros FB CR PP SZ. unfold cur_chunks in *. rewrite CR in *. unfold cur_row in CR.
  unfold op_get, lookup. rewrite FB.
  destruct (find_latest s b k) as [r0|]; [|discriminate]. destruct (o_dm r0) eqn:D; [discriminate|].
  inversion CR; subst r0. 
  assert (0 <= o_size r)%Z as NN by (rewrite SZ, <- total_len_concat; lia).
  destruct (o_size r <? 0)%Z eqn:E; [lia|].
  rewrite read_parts_present.
  - rewrite firstn_all2; [reflexivity|]. rewrite SZ, <- total_len_concat. lia.
  - intros p Hp. apply PP. unfold row_parts in Hp. apply (proj1 (sort_parts_in _ _)) in Hp. unfold obj_parts in Hp.
    apply filter_In in Hp. exact (proj1 Hp).
Qed.

(* ---------- arbitrary histories (any operations in between) ---------- *)
Lemma run_results_is_run_from : forall ops i hist s,
  snd (run_from i hist s ops) = rev hist ++ run_results i hist s ops.
Proof.
  induction ops as [|o ops IH]; intros i hist s; cbn [run_from run_results].
  - cbn. rewrite app_nil_r. reflexivity.
  - destruct (step i hist s o) as [s' r]. rewrite IH. cbn. rewrite <- app_assoc. reflexivity.
Qed.

Lemma ack_at_offset_any_history : forall ops i hist s n b k c o e z,
  nth_error ops n = Some (OApp b k c (Some o)) ->
  nth_error (run_results i hist s ops) n = Some (RAppend e z) ->
  exists sn, nth_error (pre_states i hist s ops) n = Some sn /\ o = cur_size sn b k.
Proof.
  induction ops as [|x ops IH]; intros i hist s n b k c o e z Hn Hr; [destruct n; discriminate|].
  cbn [run_results pre_states] in *. destruct (step i hist s x) as [s' r] eqn:ST.
  destruct n as [|n]; cbn in Hn, Hr |- *.
  - inversion Hn; subst x. inversion Hr; subst r. exists (with_ids s i). split; [reflexivity|].
    cbn [step] in ST.
    assert (is_ack (snd (op_append (with_ids s i) i b k c (Some o))) = true) as A by (rewrite ST; reflexivity).
    apply append_offset_rule in A. exact (proj1 A).
  - eapply IH; eassumption.
Qed.
