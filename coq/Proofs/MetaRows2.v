(* Proofs/MetaRows2.v — M-META at row level, layer 2: consequences of a trace [Tr b k …]:
   the frame property (rows and part rows of every other key are untouched) and the persistence of
   every row outside the rewritable classes. *)
From Verif Require Import Bytes Codec Md5 Meta MetaBasics MetaRows1.
From Coq Require Import ZifyBool ZifyN ZifyNat.

Lemma on_key_other b k b' k' y : on_key b k y = true -> ~ (b' = b /\ k' = k) -> on_key b' k' y = false.
Proof.
  intros H N. destruct (on_key b' k' y) eqn:E; [|reflexivity].
  apply on_key_eq in H. apply on_key_eq in E. exfalso. apply N. destruct H, E. split; congruence.
Qed.

Lemma filter_map_same {A} (f : A -> bool) (g : A -> A) l :
  (forall y, In y l -> g y = y \/ (f y = false /\ f (g y) = false)) -> filter f (map g l) = filter f l.
Proof.
  induction l as [|x l IH]; intros H; cbn; [reflexivity|].
  rewrite IH by (intros y Hy; apply H; right; exact Hy).
  destruct (H x (or_introl eq_refl)) as [E|[E1 E2]]; [rewrite E; reflexivity | rewrite E1, E2; reflexivity].
Qed.

Lemma filter_filter_same {A} (f q : A -> bool) l :
  (forall y, In y l -> f y = true -> q y = true) -> filter f (filter q l) = filter f l.
Proof.
  induction l as [|x l IH]; intros H; cbn; [reflexivity|].
  specialize (IH (fun y Hy => H y (or_intror Hy))).
  destruct (q x) eqn:Q; cbn; rewrite IH; [reflexivity|].
  destruct (f x) eqn:F; [|reflexivity]. rewrite (H x (or_introl eq_refl) F) in Q. discriminate.
Qed.

Lemma filter_app_none {A} (f : A -> bool) l l' :
  (forall y, In y l' -> f y = false) -> filter f (l ++ l') = filter f l.
Proof.
  intros H. rewrite filter_app. replace (filter f l') with (@nil A); [apply app_nil_r|].
  symmetry. induction l' as [|x l' IH]; cbn; [reflexivity|].
  rewrite (H x (or_introl eq_refl)). apply IH. intros y Hy. apply H. right. exact Hy.
Qed.

Section Frame.
Variables (b k : bytes) (dv : option vid) (inplace : bool) (s0 : mstate).
Notation Tr := (Tr b k dv inplace s0).
Hypothesis H0 : IdsOk s0.

Definition Frame (s : mstate) : Prop :=
  (forall b' k', ~ (b' = b /\ k' = k) -> krows s b' k' = krows s0 b' k') /\
  (forall x, In x (objs s0) -> on_key b k x = false -> obj_parts s (o_id x) = obj_parts s0 (o_id x)).

(* an off-key row of any framed state is a row of every framed state *)
Lemma frame_offkey s s' y : Frame s -> Frame s' -> In y (objs s) -> on_key b k y = false -> In y (objs s').
Proof.
  intros [F _] [F' _] Hy Ny.
  assert (Nk : ~ (o_bucket y = b /\ o_key y = k)).
  { intros [<- <-]. rewrite on_key_refl in Ny. discriminate. }
  assert (In y (krows s (o_bucket y) (o_key y))) as Hk by (apply filter_In; split; [exact Hy | apply on_key_refl]).
  rewrite (F _ _ Nk), <- (F' _ _ Nk) in Hk. apply filter_In in Hk. tauto.
Qed.
Lemma frame_refl : Frame s0. Proof. split; intros; reflexivity. Qed.

(* every row carrying the id of a (b,k)-row of some framed state is itself a (b,k)-row *)
Lemma idon sj r0 s : Frame sj -> IdsOk sj -> In r0 (objs sj) -> on_key b k r0 = true -> Frame s ->
  forall y, In y (objs s) -> o_id y = o_id r0 -> on_key b k y = true.
Proof.
  intros Fj Ij Hr Kr Fs y Hy E. destruct (on_key b k y) eqn:Ky; [reflexivity|]. exfalso.
  pose proof (frame_offkey s sj y Fs Fj Hy Ky) as Hyj.
  assert (y = r0) by (eapply NoDup_map_inj; [exact (proj1 Ij) | exact Hyj | exact Hr | exact E]).
  subst. congruence.
Qed.

Lemma frame_parts_ext s s' : Frame s -> objs s' = objs s ->
  (forall x, In x (objs s0) -> on_key b k x = false -> obj_parts s' (o_id x) = obj_parts s (o_id x)) -> Frame s'.
Proof.
  intros [F1 F2] E P. split.
  - intros b' k' N. unfold krows. rewrite E. apply F1. exact N.
  - intros x Hx Kx. rewrite (P x Hx Kx). apply F2; assumption.
Qed.

Lemma frame_update s r : Frame s ->
  (forall y, In y (objs s) -> o_id y = o_id r -> on_key b k y = true) -> on_key b k r = true ->
  Frame (update_row s r).
Proof.
  intros [F1 F2] Hid Kr. split.
  - intros b' k' N. rewrite <- (F1 b' k' N). unfold krows. rewrite update_row_objs.
    apply filter_map_same. intros y Hy. unfold upd_fun.
    destruct (N.eqb_spec (o_id y) (o_id r)) as [E|E]; [right | left; reflexivity].
    split; [apply (on_key_other b k); [apply Hid; assumption | exact N]|].
    apply (on_key_other b k); [|exact N]. exact Kr.
  - intros x Hx Kx. unfold obj_parts. rewrite update_row_parts. apply F2; assumption.
Qed.

Lemma frame_save s oid ps seq : Frame s ->
  (forall x, In x (objs s0) -> on_key b k x = false -> o_id x <> oid) -> Frame (save_part_rows s oid ps seq).
Proof.
  intros F Hn. apply (frame_parts_ext s); [exact F | apply save_part_rows_objs|].
  intros x Hx Kx. unfold obj_parts. rewrite save_part_rows_parts. apply filter_app_none.
  intros p Hp. apply new_prows_obj in Hp. apply N.eqb_neq. rewrite Hp. intros E. exact (Hn x Hx Kx (eq_sym E)).
Qed.

Lemma Tr_frame_ids s : Tr s -> Frame s /\ IdsOk s.
Proof.
  intros T. split; [|eapply Tr_ids; eassumption].
  induction T as [|s s' T IH [E1 E2 _ _]|s sj r0 l T IH Tj IHj Hr Kr|s sj r0 r T IH Tj IHj Hr Kr _ Eid Kn
                  |s mk T IH Hmk|s sj r0 T IH Tj IHj Hr Kr _|s sj r0 ps seq T IH Tj IHj Hr Kr _
                  |s oid ps seq T IH Hoid|s sj r0 sel T IH Tj IHj Hr Kr _ Hsel].
  - apply frame_refl.
  - apply (frame_parts_ext s); [exact IH | exact E1|]. intros. unfold obj_parts. rewrite E2. reflexivity.
  - unfold set_latest. apply frame_update; [exact IH| |exact Kr].
    cbn [with_row o_id]. apply (idon sj r0 s); try assumption. eapply Tr_ids; eassumption.
  - apply frame_update; [exact IH| |exact Kn]. rewrite Eid.
    apply (idon sj r0 s); try assumption. eapply Tr_ids; eassumption.
  - destruct IH as [F1 F2]. split.
    + intros b' k' N. rewrite <- (F1 b' k' N). unfold krows. rewrite insert_row_objs. apply filter_app_none.
      intros y [<-|[]]. apply (on_key_other b k); [apply Hmk | exact N].
    + intros x Hx Kx. unfold obj_parts. rewrite insert_row_parts. apply F2; assumption.
  - pose proof (idon sj r0 s IHj (Tr_ids _ _ _ _ _ _ H0 Tj) Hr Kr IH) as Hid.
    destruct IH as [F1 F2]. split.
    + intros b' k' N. rewrite <- (F1 b' k' N). unfold krows. rewrite delete_row_objs. apply filter_filter_same.
      intros y Hy Ky. apply negb_true_iff. apply N.eqb_neq. intros E.
      rewrite (on_key_other b k b' k' y (Hid y Hy E) N) in Ky. discriminate.
    + intros x Hx Kx. unfold obj_parts. rewrite delete_row_parts. apply F2; assumption.
  - apply frame_save; [exact IH|]. intros x Hx Kx E.
    pose proof (frame_offkey s0 s x frame_refl IH Hx Kx) as Hxs.
    rewrite (idon sj r0 s IHj (Tr_ids _ _ _ _ _ _ H0 Tj) Hr Kr IH x Hxs E) in Kx. discriminate.
  - apply frame_save; [exact IH|]. intros x Hx Kx E. pose proof (proj2 H0 x Hx). lia.
  - apply (frame_parts_ext s); [exact IH | apply remove_part_rows_objs|].
    intros x Hx Kx. unfold obj_parts. rewrite remove_part_rows_parts. apply filter_filter_same.
    intros p _ Hp. apply N.eqb_eq in Hp. apply negb_true_iff. destruct (sel p) eqn:S; [|reflexivity]. exfalso.
    apply Hsel in S. pose proof (frame_offkey s0 s x frame_refl IH Hx Kx) as Hxs.
    assert (E : o_id x = o_id r0) by congruence.
    rewrite (idon sj r0 s IHj (Tr_ids _ _ _ _ _ _ H0 Tj) Hr Kr IH x Hxs E) in Kx. discriminate.
Qed.

(* ---------- persistence of one row ---------- *)
Variables (id : N) (c : orow).
Hypothesis Hid : (id < next_id s0)%N.
Hypothesis Hexcl : forall r0, on_key b k r0 = true -> may_rewrite b k dv inplace s0 r0 -> o_id r0 = id -> core r0 = c -> False.

Definition HasRow (s : mstate) : Prop := exists x, In x (objs s) /\ o_id x = id /\ core x = c.

Lemma hasrow_unique s x : IdsOk s -> HasRow s -> In x (objs s) -> o_id x = id -> core x = c.
Proof.
  intros I [y [Hy [Ey Cy]]] Hx Ex.
  assert (x = y) as -> by (eapply NoDup_map_inj; [exact (proj1 I) | exact Hx | exact Hy | congruence]).
  exact Cy.
Qed.

Lemma hasrow_update s r : HasRow s -> (o_id r = id -> core r = c) -> HasRow (update_row s r).
Proof.
  intros [x [Hx [Ex Cx]]] Hr. exists (upd_fun r (clock s) x). split; [|split].
  - rewrite update_row_objs. apply in_map. exact Hx.
  - rewrite upd_fun_id. exact Ex.
  - unfold upd_fun. destruct (N.eqb_spec (o_id x) (o_id r)) as [E|E]; [|exact Cx].
    rewrite core_with_row. apply Hr. congruence.
Qed.

Lemma Tr_pers s : Tr s -> HasRow s0 -> HasRow s /\ obj_parts s id = obj_parts s0 id.
Proof.
  intros T R0.
  assert (NE : forall sj r0, Tr sj -> HasRow sj -> In r0 (objs sj) -> on_key b k r0 = true ->
                 may_rewrite b k dv inplace s0 r0 -> o_id r0 <> id).
  { intros sj r0 Tj Rj Hr Kr M E. apply (Hexcl r0 Kr M E).
    apply (hasrow_unique sj); try assumption. eapply Tr_ids; eassumption. }
  induction T as [|s s' T [IH IHp] [E1 E2 _ _]|s sj r0 l T [IH IHp] Tj [IHj _] Hr Kr
                  |s sj r0 r T [IH IHp] Tj [IHj _] Hr Kr M Eid Kn
                  |s mk T [IH IHp] Hmk|s sj r0 T [IH IHp] Tj [IHj _] Hr Kr M
                  |s sj r0 ps seq T [IH IHp] Tj [IHj _] Hr Kr M
                  |s oid ps seq T [IH IHp] Hoid|s sj r0 sel T [IH IHp] Tj [IHj _] Hr Kr M Hsel].
  - split; [exact R0 | reflexivity].
  - split; [unfold HasRow; rewrite E1; exact IH | unfold obj_parts; rewrite E2; exact IHp].
  - split; [|unfold obj_parts, set_latest; rewrite update_row_parts; exact IHp].
    unfold set_latest. apply hasrow_update; [exact IH|]. cbn [with_row o_id]. intros E. rewrite core_with_row.
    apply (hasrow_unique sj); try assumption. eapply Tr_ids; eassumption.
  - split; [|unfold obj_parts; rewrite update_row_parts; exact IHp].
    apply hasrow_update; [exact IH|]. intros E. exfalso. apply (NE sj r0 Tj IHj Hr Kr M). congruence.
  - split; [|unfold obj_parts; rewrite insert_row_parts; exact IHp].
    destruct IH as [x [Hx Ex]]. exists x. split; [|exact Ex]. rewrite insert_row_objs. apply in_or_app. left. exact Hx.
  - split; [|unfold obj_parts; rewrite delete_row_parts; exact IHp].
    destruct IH as [x [Hx [Ex Cx]]]. exists x. split; [|tauto]. rewrite delete_row_objs. apply filter_In.
    split; [exact Hx|]. apply negb_true_iff. apply N.eqb_neq. rewrite Ex. intros E.
    apply (NE sj r0 Tj IHj Hr Kr M). congruence.
  - split; [unfold HasRow; rewrite save_part_rows_objs; exact IH|].
    rewrite <- IHp. unfold obj_parts. rewrite save_part_rows_parts. apply filter_app_none.
    intros p Hp. apply new_prows_obj in Hp. apply N.eqb_neq. rewrite Hp. apply (NE sj r0 Tj IHj Hr Kr M).
  - split; [unfold HasRow; rewrite save_part_rows_objs; exact IH|].
    rewrite <- IHp. unfold obj_parts. rewrite save_part_rows_parts. apply filter_app_none.
    intros p Hp. apply new_prows_obj in Hp. apply N.eqb_neq. rewrite Hp. lia.
  - split; [unfold HasRow; rewrite remove_part_rows_objs; exact IH|].
    rewrite <- IHp. unfold obj_parts. rewrite remove_part_rows_parts. apply filter_filter_same.
    intros p _ Hp. apply N.eqb_eq in Hp. apply negb_true_iff. destruct (sel p) eqn:S; [|reflexivity]. exfalso.
    apply Hsel in S. apply (NE sj r0 Tj IHj Hr Kr M). congruence.
Qed.
End Frame.
