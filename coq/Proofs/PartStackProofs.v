(* Proofs/PartStackProofs.v — chunking, compression header/codec, codec composition and the
   refinement of every part-store stack to a map. *)
From Verif Require Import Bytes Codec PartStack.
From Coq Require Import ZifyBool ZifyN ZifyNat.
Open Scope N_scope.

(* ---------------------------------------------------------------- chunking *)
Lemma chunk_fuel_concat n : (0 < n)%nat -> forall fuel b, (length b <= fuel)%nat ->
  concat (chunk_fuel fuel n b) = b.
Proof.
  intros Hn. induction fuel as [|f IH]; intros b Hl.
  - destruct b; [reflexivity | cbn in Hl; lia].
  - destruct b as [|x b]; [reflexivity|].
    cbn [chunk_fuel concat]. rewrite IH.
    + apply firstn_skipn.
    + rewrite skipn_length. cbn [length] in *. lia.
Qed.

Lemma chunks_concat n b : (0 < n)%nat -> concat (chunk n b) = b.
Proof. intros Hn. apply chunk_fuel_concat; auto. Qed.

Lemma chunk_fuel_bounds n : (0 < n)%nat -> forall fuel b c, In c (chunk_fuel fuel n b) ->
  (0 < length c <= n)%nat.
Proof.
  intros Hn. induction fuel as [|f IH]; intros b c Hin; [destruct Hin|].
  destruct b as [|x b]; [destruct Hin|]. cbn [chunk_fuel] in Hin. destruct Hin as [<-|Hin].
  - rewrite firstn_length. cbn [length]. lia.
  - eapply IH; eauto.
Qed.

Lemma chunk_bounds n b c : (0 < n)%nat -> In c (chunk n b) -> (0 < length c <= n)%nat.
Proof. intros Hn. apply chunk_fuel_bounds; auto. Qed.

(* all chunks but the last are full *)
Lemma chunk_fuel_full n : (0 < n)%nat -> forall fuel b pre c post, (length b <= fuel)%nat ->
  chunk_fuel fuel n b = pre ++ c :: post -> post <> [] -> length c = n.
Proof.
  intros Hn. induction fuel as [|f IH]; intros b pre c post Hl E Hp.
  - destruct pre; discriminate.
  - destruct b as [|x b]; [destruct pre; discriminate|].
    cbn [chunk_fuel] in E. destruct pre as [|p pre]; cbn [app] in E; injection E as E1 E2.
    + rewrite <- E1, firstn_length. destruct (le_lt_dec n (length (x :: b))) as [Hle|Hlt]; [lia|].
      exfalso. rewrite skipn_all2 in E2 by lia. destruct f; cbn in E2; congruence.
    + eapply IH; [| exact E2 | exact Hp]. rewrite skipn_length. cbn [length] in *. lia.
Qed.

Lemma chunk_empty n : chunk n [] = [].
Proof. reflexivity. Qed.

(* ---------------------------------------------------------------- compression header *)
Lemma be_bytes_length k n : length (be_bytes k n) = k.
Proof. revert n; induction k; intros; cbn; [reflexivity|]. rewrite app_length, IHk. cbn. lia. Qed.

Lemma new_header_length crc a : length (new_header crc a) = 32%nat.
Proof. unfold new_header, hdr_prefix, be64. rewrite !app_length, be_bytes_length. reflexivity. Qed.

Lemma parse_new_header crc a : a <= 2 -> parse_header crc (new_header crc a) = Some a.
Proof.
  intros Ha. assert (a = 0 \/ a = 1 \/ a = 2) as [-> | [-> | ->]] by lia;
  unfold parse_header; rewrite new_header_length; cbn [Nat.eqb negb];
  unfold new_header, hdr_prefix; cbn [app magic firstn skipn nth Nbyte];
  rewrite !bytes_eqb_refl; reflexivity.
Qed.

Lemma parse_header_Some_le crc h a : parse_header crc h = Some a -> a <= 2.
Proof.
  unfold parse_header. destruct (negb _); [discriminate|].
  destruct (_ && _ && _ && _ && (_ <=? 2)) eqn:E; [|discriminate].
  intros H; inversion H; subst. rewrite !andb_true_iff in E. lia.
Qed.

Section Compression.
Variable crc : bytes -> N.
Variable should : bytes -> bool.
Variable compress : bytes -> bytes.
Variable decompress : N -> bytes -> option bytes.
Variable alg : N.
Hypothesis alg_ok : alg = alg_gzip \/ alg = alg_zstd.
Hypothesis decompress_compress : forall b, decompress alg (compress b) = Some b.

Lemma roundtrip_compression b :
  comp_decode crc decompress (comp_encode crc should compress alg b) = Some b.
Proof.
  unfold comp_encode, comp_decode.
  destruct (comp_decide should b).
  - rewrite app_length, new_header_length. cbn [Nat.ltb Nat.leb plus].
    replace (firstn 32 (new_header crc alg ++ compress b)) with (new_header crc alg).
    2:{ rewrite firstn_app, new_header_length, Nat.sub_diag, firstn_O, app_nil_r.
        symmetry; apply firstn_all2; rewrite new_header_length; lia. }
    rewrite parse_new_header by (unfold alg_gzip, alg_zstd in *; lia).
    replace (alg =? alg_none) with false by (unfold alg_gzip, alg_zstd, alg_none in *; lia).
    rewrite skipn_app, new_header_length, Nat.sub_diag, skipn_O.
    rewrite skipn_all2 by (rewrite new_header_length; lia). cbn [app]. apply decompress_compress.
  - rewrite app_length, new_header_length. cbn [Nat.ltb Nat.leb plus].
    replace (firstn 32 (new_header crc alg_none ++ b)) with (new_header crc alg_none).
    2:{ rewrite firstn_app, new_header_length, Nat.sub_diag, firstn_O, app_nil_r.
        symmetry; apply firstn_all2; rewrite new_header_length; lia. }
    rewrite parse_new_header by (unfold alg_none; lia). cbn [alg_none N.eqb].
    rewrite skipn_app, new_header_length, Nat.sub_diag, skipn_O.
    rewrite skipn_all2 by (rewrite new_header_length; lia). reflexivity.
Qed.

(* the legacy pass-through: what GetPart does with bytes that were NOT written by this middleware *)
Lemma legacy_passthrough s : (length s < 32)%nat \/ parse_header crc (firstn 32 s) = None ->
  comp_decode crc decompress s = Some s.
Proof.
  unfold comp_decode. intros [H|H].
  - destruct (Nat.ltb_spec (length s) 32); [reflexivity | lia].
  - destruct (length s <? 32)%nat; [reflexivity|]. rewrite H. reflexivity.
Qed.
End Compression.

Lemma comp_encode_nonempty (crc : bytes -> N) (should : bytes -> bool) (compress : bytes -> bytes) (alg : N) b :
  comp_encode crc should compress alg b <> [].
Proof.
  unfold comp_encode. destruct (comp_decide should b); intros E;
  apply (f_equal (@length byte)) in E; rewrite app_length, new_header_length in E; cbn in E; lia.
Qed.

Lemma comp_encode_len_none (crc : bytes -> N) (should : bytes -> bool) (compress : bytes -> bytes) (alg : N) b :
  comp_decide should b = false ->
  length (comp_encode crc should compress alg b) = (32 + length b)%nat.
Proof. unfold comp_encode. intros ->. rewrite app_length, new_header_length. reflexivity. Qed.

Lemma comp_small_not_compressed (should : bytes -> bool) b :
  (length b < min_compress)%nat -> comp_decide should b = false.
Proof.
  unfold comp_decide. intros H. rewrite firstn_length.
  destruct (Nat.leb_spec min_compress (Nat.min sample_size (length b))); [lia | reflexivity].
Qed.

(* ---------------------------------------------------------------- composition *)
Lemma roundtrip_compose {C} (l : list (codec C)) :
  (forall k, In k l -> forall c, dec k (enc k c) = Some c) ->
  forall c, dec_stack l (enc_stack l c) = Some c.
Proof.
  induction l as [|k r IH]; intros Hl c; [reflexivity|].
  cbn [enc_stack dec_stack]. rewrite IH by (intros; apply Hl; right; assumption).
  apply Hl; left; reflexivity.
Qed.

(* ---------------------------------------------------------------- the store machine *)
Section Refinement.
Variable C : Type.
Variable csize : C -> N.

Notation sstate := (sstate C).
Notation put := (sput C csize).
Notation del := (sdel C).
Notation get := (sget C csize).
Notation ids := (sids C).
Notation tick := (stick C csize).
Notation aget := (aget C).
Notation aset := (aset C).
Notation adel := (adel C).
Notation last_entry := (last_entry C).
Notation entry_id := (entry_id C).

Definition lookup (m : amap C) (id : N) : res C :=
  match aget id m with Some c => ROk c | None => RNF end.

Fixpoint view (s : sstate) (id : N) : res C :=
  match s with
  | SBase _ m => lookup m id
  | SCodec k s' => match view s' id with
                   | ROk c => match dec k c with Some p => ROk p | None => RErr end
                   | o => o
                   end
  | SCache _ cm _ s' => match aget id cm with Some c => ROk c | None => view s' id end
  | SOutbox q s' => match last_entry id q with
                    | Some (EPut _ c) => ROk c
                    | Some (EDel _) => RNF
                    | None => view s' id
                    end
  end.

(* contents a stack stores faithfully: every codec on the way down decodes what it encoded *)
Fixpoint accepts (s : sstate) (c : C) : Prop :=
  match s with
  | SBase _ _ => True
  | SCodec k s' => dec k (enc k c) = Some c /\ accepts s' (enc k c)
  | SCache _ _ _ s' => accepts s' c
  | SOutbox _ s' => accepts s' c
  end.

Fixpoint Inv (s : sstate) : Prop :=
  match s with
  | SBase _ _ => True
  | SCodec k s' => Inv s' /\ (forall id c, view s' id = ROk c -> exists p, dec k c = Some p)
  | SCache _ cm _ s' => Inv s' /\ (forall id c, aget id cm = Some c -> view s' id = ROk c)
  | SOutbox q s' => Inv s' /\ (forall id c, In (EPut id c) q -> accepts s' c)
  end.

(* --- association lists --- *)
Lemma aget_aset i j c m : aget i (aset j c m) = if j =? i then Some c else aget i m.
Proof. reflexivity. Qed.

Lemma aget_adel i j m : aget i (adel j m) = if j =? i then None else aget i m.
Proof.
  unfold PartStack.adel. induction m as [|[k v] m IH]; cbn [filter fst PartStack.aget].
  - destruct (j =? i); reflexivity.
  - destruct (k =? j) eqn:E1; cbn [negb PartStack.aget].
    + rewrite IH. destruct (j =? i) eqn:E2; [reflexivity|].
      replace (k =? i) with false by lia. reflexivity.
    + destruct (k =? i) eqn:E3; [| exact IH].
      replace (j =? i) with false by lia. reflexivity.
Qed.

Lemma memN_In x l : memN x l = true <-> In x l.
Proof.
  unfold memN. rewrite existsb_exists. split.
  - intros [y [Hy E]]. apply N.eqb_eq in E. subst. exact Hy.
  - intros H. exists x. split; [exact H | apply N.eqb_refl].
Qed.

Lemma In_nodupN x l : In x (nodupN l) <-> In x l.
Proof.
  induction l as [|y l IH]; cbn; [tauto|].
  destruct (memN y l) eqn:E.
  - rewrite IH. split; [auto|]. intros [->|H]; [apply memN_In; exact E | exact H].
  - cbn. rewrite IH. tauto.
Qed.

Lemma In_keys_aget id (m : amap C) : In id (map fst m) <-> aget id m <> None.
Proof.
  induction m as [|[k v] m IH]; cbn; [tauto|].
  destruct (k =? id) eqn:E.
  - apply N.eqb_eq in E. split; [discriminate | auto].
  - rewrite <- IH. split; [intros [H|H]; [lia | exact H] | auto].
Qed.

Lemma last_entry_app id q e :
  last_entry id (q ++ [e]) = if entry_id e =? id then Some e else last_entry id q.
Proof.
  induction q as [|x q IH]; cbn.
  - destruct (entry_id e =? id); reflexivity.
  - rewrite IH. destruct (entry_id e =? id); reflexivity.
Qed.

Lemma last_entry_Some id q e : last_entry id q = Some e -> In e q /\ entry_id e = id.
Proof.
  induction q as [|x q IH]; cbn; [discriminate|].
  destruct (last_entry id q) as [e'|].
  - intros H; inversion H; subst. destruct (IH eq_refl). auto.
  - destruct (entry_id x =? id) eqn:E; [|discriminate].
    intros H; inversion H; subst. split; [auto | apply N.eqb_eq; exact E].
Qed.

Lemma last_entry_None id q : last_entry id q = None <-> ~ In id (map entry_id q).
Proof.
  induction q as [|x q IH]; cbn; [tauto|].
  destruct (last_entry id q) as [e'|].
  - split; [discriminate|]. intros H. exfalso. apply H. right.
    destruct (in_dec N.eq_dec id (map entry_id q)) as [i|n]; [exact i|]. apply IH in n. discriminate.
  - destruct (entry_id x =? id) eqn:E.
    + apply N.eqb_eq in E. split; [discriminate | intros H; exfalso; apply H; auto].
    + split; [|reflexivity]. intros _ [H|H]; [lia | apply (proj1 IH eq_refl); exact H].
Qed.

Arguments PartStack.aget : simpl never.
Arguments PartStack.aset : simpl never.
Arguments PartStack.adel : simpl never.
Arguments PartStack.last_entry : simpl never.

(* --- the shape of a stack (hence [accepts]) is not changed by any operation --- *)
Lemma accepts_put s : forall i c x, accepts (put s i c) x <-> accepts s x.
Proof.
  induction s as [b m|k s IH|mx cm h s IH|q s IH]; intros i c x; cbn.
  - destruct b; cbn; tauto.
  - rewrite IH. tauto.
  - destruct (csize c <=? mx); cbn; apply IH.
  - tauto.
Qed.
Lemma accepts_del s : forall i x, accepts (del s i) x <-> accepts s x.
Proof.
  induction s as [b m|k s IH|mx cm h s IH|q s IH]; intros i x; cbn.
  - destruct b; tauto.
  - rewrite IH. tauto.
  - apply IH.
  - tauto.
Qed.
Lemma accepts_get s : forall i x, accepts (fst (get s i)) x <-> accepts s x.
Proof.
  induction s as [b m|k s IH|mx cm h s IH|q s IH]; intros i x; cbn.
  - tauto.
  - specialize (IH i). destruct (get s i) as [s1 r]. cbn in *. rewrite IH. tauto.
  - destruct (aget i cm); cbn; [tauto|]. specialize (IH i x). destruct (get s i) as [s1 r]. cbn in IH.
    destruct (memN i h); cbn; [exact IH|]. destruct r; cbn; try exact IH.
    destruct (csize c <=? mx); cbn; exact IH.
  - destruct (last_entry i q) as [[? ?|?]|]; cbn; try tauto.
    specialize (IH i x). destruct (get s i) as [s1 r]. cbn in *. exact IH.
Qed.
Lemma accepts_apply e s x : accepts (apply_entry C csize e s) x <-> accepts s x.
Proof. destruct e; cbn; [apply accepts_put | apply accepts_del]. Qed.
Lemma accepts_tick s : forall x, accepts (tick s) x <-> accepts s x.
Proof.
  induction s as [b m|k s IH|mx cm h s IH|q s IH]; intros x; cbn.
  - tauto.
  - rewrite IH. tauto.
  - apply IH.
  - destruct q; cbn; [apply IH | apply accepts_apply].
Qed.
Lemma accepts_iter n : forall s x, accepts (iter_tick C csize n s) x <-> accepts s x.
Proof. induction n; intros; cbn; [tauto|]. rewrite IHn. apply accepts_tick. Qed.

(* --- no decoding error is ever visible in a state satisfying the invariant --- *)
Lemma view_no_err s : Inv s -> forall id, view s id <> RErr.
Proof.
  induction s as [b m|k s IH|mx cm h s IH|q s IH]; cbn; intros HI id.
  - unfold lookup. destruct (aget id m); discriminate.
  - destruct HI as [HI Hd]. specialize (IH HI id). destruct (view s id) eqn:E; try congruence.
    destruct (Hd _ _ E) as [p ->]. discriminate.
  - destruct HI as [HI _]. destruct (aget id cm); [discriminate | auto].
  - destruct HI as [HI _]. destruct (last_entry id q) as [[? ?|?]|]; try discriminate. auto.
Qed.

(* --- PutPart --- *)
Lemma put_correct s : forall id c, Inv s -> accepts s c ->
  Inv (put s id c) /\ forall i, view (put s id c) i = if i =? id then ROk c else view s i.
Proof.
  induction s as [b m|k s IH|mx cm h s IH|q s IH]; intros id c HI HA.
  - destruct b; cbn in *.
    + split; [exact I|]. intros i. unfold lookup. rewrite aget_aset.
      rewrite (N.eqb_sym id i). destruct (i =? id); reflexivity.
    + split; [exact I|]. intros i. cbn. unfold lookup. rewrite aget_aset, aget_adel.
      rewrite (N.eqb_sym id i). destruct (i =? id); reflexivity.
  - cbn in HI, HA. destruct HI as [HI Hd]. destruct HA as [Hk HA].
    destruct (IH id (enc k c) HI HA) as [HI' Hv]. cbn. split.
    + split; [exact HI'|]. intros i x. rewrite Hv. destruct (i =? id).
      * intros E; inversion E; subst. eauto.
      * apply Hd.
    + intros i. rewrite Hv. destruct (i =? id); [rewrite Hk|]; reflexivity.
  - cbn in HI, HA. destruct HI as [HI Hc]. destruct (IH id c HI HA) as [HI' Hv]. cbn.
    destruct (csize c <=? mx); cbn.
    + split.
      * split; [exact HI'|]. intros i x. rewrite aget_aset, Hv, (N.eqb_sym id i).
        destruct (i =? id); [congruence | apply Hc].
      * intros i. rewrite aget_aset, Hv, (N.eqb_sym id i). destruct (i =? id); reflexivity.
    + split.
      * split; [exact HI'|]. intros i x. rewrite aget_adel, Hv, (N.eqb_sym id i).
        destruct (i =? id); [discriminate | apply Hc].
      * intros i. rewrite aget_adel, Hv, (N.eqb_sym id i). destruct (i =? id); reflexivity.
  - cbn in HI, HA. destruct HI as [HI Hq]. cbn. split.
    + split; [exact HI|]. intros i x Hin. apply in_app_or in Hin. destruct Hin as [Hin|[E|[]]].
      * eapply Hq; eauto.
      * inversion E; subst. exact HA.
    + intros i. rewrite last_entry_app. cbn. rewrite (N.eqb_sym id i). destruct (i =? id); reflexivity.
Qed.

(* --- DeletePart --- *)
Lemma del_correct s : forall id, Inv s ->
  Inv (del s id) /\ forall i, view (del s id) i = if i =? id then RNF else view s i.
Proof.
  induction s as [b m|k s IH|mx cm h s IH|q s IH]; intros id HI.
  - cbn. split; [exact I|]. intros i. unfold lookup. rewrite aget_adel, (N.eqb_sym id i).
    destruct (i =? id); reflexivity.
  - cbn in HI. destruct HI as [HI Hd]. destruct (IH id HI) as [HI' Hv]. cbn. split.
    + split; [exact HI'|]. intros i x. rewrite Hv. destruct (i =? id); [discriminate | apply Hd].
    + intros i. rewrite Hv. destruct (i =? id); reflexivity.
  - cbn in HI. destruct HI as [HI Hc]. destruct (IH id HI) as [HI' Hv]. cbn. split.
    + split; [exact HI'|]. intros i x. rewrite aget_adel, Hv, (N.eqb_sym id i).
      destruct (i =? id); [discriminate | apply Hc].
    + intros i. rewrite aget_adel, Hv, (N.eqb_sym id i). destruct (i =? id); reflexivity.
  - cbn in HI. destruct HI as [HI Hq]. cbn. split.
    + split; [exact HI|]. intros i x Hin. apply in_app_or in Hin. destruct Hin as [Hin|[E|[]]].
      * eapply Hq; eauto.
      * discriminate.
    + intros i. rewrite last_entry_app. cbn. rewrite (N.eqb_sym id i). destruct (i =? id); reflexivity.
Qed.

(* --- GetPart: returns the view, leaves the view unchanged (it may fill caches) --- *)
Lemma get_correct s : forall id, Inv s ->
  snd (get s id) = view s id /\ Inv (fst (get s id)) /\ forall i, view (fst (get s id)) i = view s i.
Proof.
  induction s as [b m|k s IH|mx cm h s IH|q s IH]; intros id HI.
  - cbn. unfold lookup. destruct (aget id m); auto.
  - cbn in HI. destruct HI as [HI Hd]. destruct (IH id HI) as [Hr [HI' Hv]]. cbn.
    destruct (get s id) as [s1 r]. cbn in *. subst r. split; [destruct (view s id); reflexivity|]. split.
    + split; [exact HI'|]. intros i x. rewrite Hv. apply Hd.
    + intros i. rewrite Hv. reflexivity.
  - cbn in HI. destruct HI as [HI Hc]. destruct (IH id HI) as [Hr [HI' Hv]]. cbn.
    destruct (aget id cm) as [c0|] eqn:Ecm; cbn.
    + split; [reflexivity|]. split; [|reflexivity]. cbn. split; [exact HI | exact Hc].
    + destruct (get s id) as [s1 r]. cbn in *. subst r.
      assert (Hc1 : forall i x, aget i cm = Some x -> view s1 i = ROk x) by (intros i x H; rewrite Hv; apply Hc; exact H).
      destruct (memN id h); cbn.
      * split; [reflexivity|]. split; [split; [exact HI' | exact Hc1]|]. intros i. rewrite Hv. reflexivity.
      * destruct (view s id) as [|c1|] eqn:Ev; cbn.
        -- split; [reflexivity|]. split; [split; [exact HI' | exact Hc1]|]. intros i. rewrite Hv. reflexivity.
        -- destruct (csize c1 <=? mx); cbn.
           ++ split; [reflexivity|]. split.
              ** split; [exact HI'|]. intros i x. rewrite aget_aset. destruct (id =? i) eqn:E.
                 --- apply N.eqb_eq in E; subst i. intros H; inversion H; subst. rewrite Hv. exact Ev.
                 --- apply Hc1.
              ** intros i. rewrite aget_aset. destruct (id =? i) eqn:E.
                 --- apply N.eqb_eq in E; subst i. rewrite Ecm. symmetry; exact Ev.
                 --- rewrite Hv. reflexivity.
           ++ split; [reflexivity|]. split.
              ** split; [exact HI'|]. intros i x. rewrite aget_adel. destruct (id =? i); [discriminate | apply Hc1].
              ** intros i. rewrite aget_adel. destruct (id =? i) eqn:E.
                 --- apply N.eqb_eq in E; subst i. rewrite Ecm, Hv. reflexivity.
                 --- rewrite Hv. reflexivity.
        -- split; [reflexivity|]. split; [split; [exact HI' | exact Hc1]|]. intros i. rewrite Hv. reflexivity.
  - cbn in HI. destruct HI as [HI Hq]. destruct (IH id HI) as [Hr [HI' Hv]]. cbn.
    destruct (last_entry id q) as [[j c0|j]|] eqn:El; cbn.
    + split; [reflexivity|]. split; [split; [exact HI | exact Hq] | reflexivity].
    + split; [reflexivity|]. split; [split; [exact HI | exact Hq] | reflexivity].
    + pose proof (accepts_get s id) as Ha.
      destruct (get s id) as [s1 r]. cbn in *. subst r. split; [reflexivity|]. split.
      * split; [exact HI'|]. intros i x Hin. apply Ha. eapply Hq; eauto.
      * intros i. rewrite Hv. reflexivity.
Qed.

(* --- an outbox worker step never changes what a reader sees --- *)
Lemma apply_correct e s : Inv s -> (forall id c, e = EPut id c -> accepts s c) ->
  Inv (apply_entry C csize e s) /\
  forall i, view (apply_entry C csize e s) i =
            if i =? entry_id e then (match e with EPut _ c => ROk c | EDel _ => RNF end) else view s i.
Proof.
  intros HI HA. destruct e as [id c|id]; cbn [apply_entry PartStack.entry_id].
  - apply put_correct; eauto.
  - apply del_correct; auto.
Qed.

Lemma last_entry_cons id e q :
  last_entry id (e :: q) = match last_entry id q with
                           | Some e' => Some e'
                           | None => if entry_id e =? id then Some e else None
                           end.
Proof. reflexivity. Qed.

Lemma tick_correct s : Inv s -> Inv (tick s) /\ forall i, view (tick s) i = view s i.
Proof.
  induction s as [b m|k s IH|mx cm h s IH|q s IH]; intros HI.
  - cbn. auto.
  - cbn in HI. destruct HI as [HI Hd]. destruct (IH HI) as [HI' Hv]. cbn. split.
    + split; [exact HI'|]. intros i x. rewrite Hv. apply Hd.
    + intros i. rewrite Hv. reflexivity.
  - cbn in HI. destruct HI as [HI Hc]. destruct (IH HI) as [HI' Hv]. cbn. split.
    + split; [exact HI'|]. intros i x. rewrite Hv. apply Hc.
    + intros i. rewrite Hv. reflexivity.
  - cbn in HI. destruct HI as [HI Hq]. destruct q as [|e q].
    + destruct (IH HI) as [HI' Hv]. cbn. split.
      * split; [exact HI'|]. intros i x [].
      * intros i. rewrite Hv. reflexivity.
    + cbn [PartStack.stick].
      assert (HA : forall id c, e = EPut id c -> accepts s c) by (intros id c ->; eapply Hq; left; reflexivity).
      destruct (apply_correct e s HI HA) as [HI' Hv]. cbn [Inv view]. split.
      * split; [exact HI'|]. intros i x Hin. apply accepts_apply. eapply Hq. right. exact Hin.
      * intros i. rewrite last_entry_cons, Hv. destruct (last_entry i q) as [e'|]; [reflexivity|].
        rewrite (N.eqb_sym i (entry_id e)). destruct (entry_id e =? i); [|reflexivity].
        destruct e; reflexivity.
Qed.

Lemma iter_correct n : forall s, Inv s ->
  Inv (iter_tick C csize n s) /\ forall i, view (iter_tick C csize n s) i = view s i.
Proof.
  induction n as [|n IH]; intros s HI; cbn; [auto|].
  destruct (tick_correct s HI) as [HI' Hv]. destruct (IH _ HI') as [HI'' Hv'].
  split; [exact HI''|]. intros i. rewrite Hv', Hv. reflexivity.
Qed.

Lemma drain_correct s : Inv s ->
  Inv (sdrain C csize s) /\ forall i, view (sdrain C csize s) i = view s i.
Proof. apply iter_correct. Qed.

(* --- GetPartIds lists exactly the ids that read as found --- *)
Lemma ids_correct s : Inv s -> forall id, In id (ids s) <-> view s id <> RNF.
Proof.
  induction s as [b m|k s IH|mx cm h s IH|q s IH]; intros HI id.
  - cbn. unfold akeys, lookup. rewrite In_nodupN, In_keys_aget.
    destruct (PartStack.aget C id m); split; congruence.
  - cbn in HI. destruct HI as [HI Hd]. cbn. rewrite (IH HI).
    pose proof (view_no_err s HI id) as Hne.
    destruct (view s id) eqn:E; try tauto.
    destruct (Hd _ _ E) as [p ->]. split; discriminate.
  - cbn in HI. destruct HI as [HI Hc]. cbn. rewrite (IH HI).
    destruct (PartStack.aget C id cm) eqn:E; [|tauto].
    rewrite (Hc _ _ E). split; discriminate.
  - cbn in HI. destruct HI as [HI Hq]. cbn. rewrite filter_In, In_nodupN, in_app_iff, (IH HI).
    destruct (PartStack.last_entry C id q) as [[j c|j]|] eqn:E.
    + apply last_entry_Some in E. destruct E as [Hin Hid]. split; [discriminate|]. intros _. split; [|reflexivity].
      right. apply in_map_iff. exists (EPut j c). auto.
    + split; [intros [_ H]; discriminate | congruence].
    + apply last_entry_None in E. tauto.
Qed.

(* --- histories --- *)
Definition op_tx (o : op C) : bool :=
  match o with
  | OPut _ _ tx => tx | OGet _ tx _ => tx | ODel _ tx => tx | OList tx => tx
  | _ => true
  end.

(* outputs of a history against the specification map [m] (id -> last content put):
   a refusal (nil transaction where the stack needs one) leaves the map alone *)
Fixpoint outs_ok (m : amap C) (ops : list (op C)) (outs : list (out C)) : Prop :=
  match ops, outs with
  | [], [] => True
  | o :: ops', u :: outs' =>
      match o, u with
      | _, UBadMode => op_tx o = false /\ outs_ok m ops' outs'
      | OPut id c _, UOk => outs_ok (aset id c m) ops' outs'
      | ODel id _, UOk => outs_ok (adel id m) ops' outs'
      | OGet id _ skip, UGet r skip' => r = lookup m id /\ skip' = skip /\ outs_ok m ops' outs'
      | OList _, UIds l => (forall id, In id l <-> aget id m <> None) /\ outs_ok m ops' outs'
      | OStat _, UStat _ _ => outs_ok m ops' outs'
      | OTick, UOk => outs_ok m ops' outs'
      | ODrain, UOk => outs_ok m ops' outs'
      | _, _ => False
      end
  | _, _ => False
  end.

Definition puts_accepted (s : sstate) (ops : list (op C)) : Prop :=
  Forall (fun o => match o with OPut _ c _ => accepts s c | _ => True end) ops.

Definition rel (s : sstate) (m : amap C) : Prop := Inv s /\ forall id, view s id = lookup m id.

Lemma accepts_step s o x : accepts (fst (step C csize s o)) x <-> accepts s x.
Proof.
  destruct o; cbn.
  - destruct (tx || cap_write C s); cbn; [apply accepts_put | tauto].
  - destruct (tx || cap_get C s); cbn; [|tauto].
    pose proof (accepts_get s id x) as H. destruct (get s id). exact H.
  - destruct (tx || cap_write C s); cbn; [apply accepts_del | tauto].
  - destruct tx; cbn; tauto.
  - destruct (sbase C (sdrain C csize s)). cbn. apply accepts_iter.
  - apply accepts_tick.
  - apply accepts_iter.
Qed.

Theorem stack_correct : forall ops s m, rel s m -> puts_accepted s ops ->
  outs_ok m ops (run C csize s ops).
Proof.
  induction ops as [|o ops IH]; intros s m [HI Hv] HA; [exact I|].
  inversion HA as [|? ? Ho HA']; subst.
  assert (HA'' : forall s', (forall x, accepts s' x <-> accepts s x) -> puts_accepted s' ops).
  { intros s' Hs. unfold puts_accepted in *. eapply Forall_impl; [|exact HA'].
    intros [] H; auto. apply Hs. exact H. }
  cbn [run]. pose proof (accepts_step s o) as Hst.
  destruct o; cbn [step] in *.
  - destruct (tx || cap_write C s) eqn:Em; cbn [fst] in Hst; cbn [outs_ok].
    + destruct (put_correct s id c HI Ho) as [HI' Hv']. apply IH; [|apply HA''; exact Hst].
      split; [exact HI'|]. intros i. rewrite Hv'. unfold lookup. rewrite aget_aset, (N.eqb_sym id i).
      destruct (i =? id); [reflexivity | apply Hv].
    + split; [destruct tx; [discriminate | reflexivity]|]. apply IH; [split; assumption | apply HA''; exact Hst].
  - destruct (tx || cap_get C s) eqn:Em; cbn [outs_ok].
    + destruct (get_correct s id HI) as [Hr [HI' Hv']]. destruct (get s id) as [s1 r]. cbn [fst snd] in *.
      split; [rewrite Hr; apply Hv|]. split; [reflexivity|].
      apply IH; [|apply HA''; exact Hst]. split; [exact HI'|]. intros i. rewrite Hv'. apply Hv.
    + split; [destruct tx; [discriminate | reflexivity]|]. apply IH; [split; assumption | apply HA''; exact Hst].
  - destruct (tx || cap_write C s) eqn:Em; cbn [fst] in Hst; cbn [outs_ok].
    + destruct (del_correct s id HI) as [HI' Hv']. apply IH; [|apply HA''; exact Hst].
      split; [exact HI'|]. intros i. rewrite Hv'. unfold lookup. rewrite aget_adel, (N.eqb_sym id i).
      destruct (i =? id); [reflexivity | apply Hv].
    + split; [destruct tx; [discriminate | reflexivity]|]. apply IH; [split; assumption | apply HA''; exact Hst].
  - destruct tx; cbn [outs_ok].
    + split; [|apply IH; [split; assumption | apply HA''; exact Hst]].
      intros id. rewrite (ids_correct s HI), Hv. unfold lookup. destruct (PartStack.aget C id m); split; congruence.
    + split; [reflexivity|]. apply IH; [split; assumption | apply HA''; exact Hst].
  - destruct (drain_correct s HI) as [HI' Hv'].
    destruct (sbase C (sdrain C csize s)) as [b bm]. cbn [fst] in Hst. cbn [outs_ok].
    apply IH; [|apply HA''; exact Hst]. split; [exact HI'|]. intros i. rewrite Hv'. apply Hv.
  - destruct (tick_correct s HI) as [HI' Hv']. cbn [fst] in Hst. cbn [outs_ok].
    apply IH; [|apply HA''; exact Hst]. split; [exact HI'|]. intros i. rewrite Hv'. apply Hv.
  - destruct (drain_correct s HI) as [HI' Hv']. cbn [fst] in Hst. cbn [outs_ok].
    apply IH; [|apply HA''; exact Hst]. split; [exact HI'|]. intros i. rewrite Hv'. apply Hv.
Qed.

(* a freshly built stack: empty base, empty caches, empty outbox queues *)
Fixpoint fresh (s : sstate) : Prop :=
  match s with
  | SBase _ m => m = []
  | SCodec _ s' => fresh s'
  | SCache _ cm h s' => cm = [] /\ fresh s'
  | SOutbox q s' => q = [] /\ fresh s'
  end.

Lemma fresh_rel s : fresh s -> rel s [].
Proof.
  unfold rel. induction s as [b m|k s IH|mx cm h s IH|q s IH]; cbn; intros HF.
  - subst. auto.
  - destruct (IH HF) as [HI Hv]. split.
    + split; [exact HI|]. intros id c. rewrite Hv. discriminate.
    + intros id. rewrite Hv. reflexivity.
  - destruct HF as [-> HF]. destruct (IH HF) as [HI Hv]. split.
    + split; [exact HI|]. intros id c. discriminate.
    + intros id. cbn. apply Hv.
  - destruct HF as [-> HF]. destruct (IH HF) as [HI Hv]. split.
    + split; [exact HI|]. intros id c [].
    + intros id. cbn. apply Hv.
Qed.

(* the codecs of a stack and its base *)
Fixpoint codecs (s : sstate) : list (codec C) :=
  match s with
  | SBase _ _ => []
  | SCodec k s' => k :: codecs s'
  | SCache _ _ _ s' => codecs s'
  | SOutbox _ s' => codecs s'
  end.
Fixpoint base_of (s : sstate) : base :=
  match s with
  | SBase b _ => b
  | SCodec _ s' => base_of s'
  | SCache _ _ _ s' => base_of s'
  | SOutbox _ s' => base_of s'
  end.
Definition lawful (s : sstate) : Prop := forall k, In k (codecs s) -> forall c, dec k (enc k c) = Some c.

Lemma accepts_lawful s : lawful s -> forall c, accepts s c.
Proof.
  unfold lawful. induction s as [b m|k s IH|mx cm h s IH|q s IH]; cbn; intros HL c.
  - exact I.
  - split; [apply HL; auto|]. apply IH; auto.
  - apply IH; auto.
  - apply IH; auto.
Qed.

(* THE PROPERTY: every freshly built stack of lawful codecs behaves like a map on every history *)
Theorem stack_correct_lawful s ops : lawful s -> fresh s -> outs_ok [] ops (run C csize s ops).
Proof.
  intros HL HF. apply stack_correct; [apply fresh_rel; exact HF|].
  unfold puts_accepted. apply Forall_forall. intros o _. destruct o; auto. apply accepts_lawful. exact HL.
Qed.

End Refinement.

