(* Proofs/AuthzProofs.v — C31: static well-formedness of every handler program (checked over the
   complete finite space of request shapes by computation) + generic soundness of execution:
   for every authorizer decision function and every environment the trace of a well-formed
   handler consults the authorizer before any non-exempt storage call, stops on a deny, etc. *)
From Verif Require Import Bytes Codec Authz.

(* ---------- complete enumeration of request shapes ---------- *)
Definition all_bool (f : bool -> bool) : bool := f true && f false.
Lemma all_bool_spec f : all_bool f = true -> forall b, f b = true.
Proof. unfold all_bool. intros H b. apply andb_true_iff in H. destruct b; tauto. Qed.

Definition all_q (f : qflags -> bool) : bool :=
  all_bool (fun a => all_bool (fun b => all_bool (fun c => all_bool (fun d => all_bool (fun e =>
  all_bool (fun g => all_bool (fun h => all_bool (fun i => all_bool (fun j => all_bool (fun k =>
  all_bool (fun l => all_bool (fun m => all_bool (fun n => all_bool (fun o =>
    f {| q_versioning := a; q_versions := b; q_cors := c; q_lifecycle := d; q_notification := e;
         q_website := g; q_uploads := h; q_uploadId := i; q_partNumber := j; q_list2 := k;
         q_delete := l; q_append := m; q_tagging := n; q_versionId := o |})))))))))))))).

Ltac ab_step H x :=
  let H' := fresh "H" in pose proof (all_bool_spec _ H x) as H'; cbv beta in H'; clear H; rename H' into H.

Lemma all_q_spec f : all_q f = true -> forall q, f q = true.
Proof.
  unfold all_q. intros H [a b c d e g h i j k l m n o].
  ab_step H a; ab_step H b; ab_step H c; ab_step H d; ab_step H e; ab_step H g; ab_step H h;
  ab_step H i; ab_step H j; ab_step H k; ab_step H l; ab_step H m; ab_step H n; ab_step H o. exact H.
Qed.

Definition all_hosts := [Api; Web].
Definition all_meths := [GET; HEAD; PUT; POST; DELETE; OPTIONS; OTHER].
Definition all_paths := [PRoot; PBucket; PObject].
(* number of shapes: 2 * 7 * 3 * 2^14 * 2 = 1 376 256 *)
Definition all_shapes (f : shape -> bool) : bool :=
  forallb (fun h => forallb (fun m => forallb (fun p => all_q (fun q => all_bool (fun c =>
    f {| s_host := h; s_meth := m; s_path := p; s_q := q; s_copy := c |}))) all_paths) all_meths) all_hosts.

Lemma all_shapes_spec f : all_shapes f = true -> forall s, f s = true.
Proof.
  unfold all_shapes. intros H [h m p q c].
  rewrite forallb_forall in H. assert (Hh : In h all_hosts) by (destruct h; cbn; tauto).
  specialize (H h Hh). rewrite forallb_forall in H. assert (Hm : In m all_meths) by (destruct m; cbn; tauto).
  specialize (H m Hm). rewrite forallb_forall in H. assert (Hp : In p all_paths) by (destruct p; cbn; tauto).
  specialize (H p Hp). pose proof (all_q_spec _ H q) as H1. cbv beta in H1.
  exact (all_bool_spec _ H1 c).
Qed.

(* ---------- static well-formedness of handler programs ---------- *)
Definition target_eqb (a b : target) : bool :=
  match a, b with TNone, TNone | TBucket, TBucket | TObject, TObject | TCopy, TCopy => true | _, _ => false end.
Lemma target_eqb_eq a b : target_eqb a b = true -> a = b.
Proof. destruct a, b; cbn; congruence. Qed.

Definition call_static_ok (o : op) (t : target) (m : smeth) (t' : target) : bool :=
  covers o m && target_eqb t t' && (negb (mutating m) || negb (is_read_only o)).

Definition step_post_ok (o : op) (t : target) (st : step) : bool :=
  match st with
  | Check | VMaxParts | VSelfCopy => true
  | Fail c => negb (c =? 200)%N
  | Call m t' | ListLoop m t' _ | ListOnce m t' _ => call_static_ok o t m t'
  | DeleteEntries => call_static_ok o t MDeleteObjects TBucket
  | _ => false
  end.

Fixpoint steps_ok (l : list step) : bool :=
  match l with
  | [] => true
  | (VBucket | VKey | VCopySource) :: r => steps_ok r
  | Auth o t :: r => forallb (step_post_ok o t) r
  | _ => false
  end.

Definition handler_ok (h : handler) : bool :=
  match h with
  | HSteps l _ => steps_ok l
  | HWebsite OGetObject MGetObject | HWebsite OHeadObject MHeadObject => true
  | HWebsite _ _ => false
  | HStatus _ => true
  end.

Lemma route_ok_all : all_shapes (fun s => handler_ok (route s)) = true.
Proof. vm_compute. reflexivity. Qed.

Lemma route_ok s : handler_ok (route s) = true.
Proof. exact (all_shapes_spec _ route_ok_all s). Qed.

(* ---------- semantic well-formedness of traces ---------- *)
(* the two configuration reads that may precede authorization: the CORS middleware's lookup of the
   bucket's CORS rules (any host) and the website handler's lookup of the website configuration
   (website host only) *)
Definition exempt (web : bool) (ev : event) : Prop :=
  match ev with
  | ECall MGetBucketCORS _ None None None [] => True
  | ECall MGetBucketWebsite _ None None None [] => web = true
  | _ => False
  end.

Definition call_ok (web : bool) (r : areq) (ev : event) : Prop :=
  match ev with
  | EAuth _ _ => False
  | ECall m b k sb sk _ =>
      a_bucket r = b /\ (mutating m = true -> is_read_only (a_op r) = false) /\
      (web = false -> covers (a_op r) m = true /\ a_key r = k /\ a_srcb r = sb /\ a_srck r = sk)
  | _ => True
  end.

Inductive body_form (decide : areq -> bool) (web : bool) (e : env) : list event -> Prop :=
| BF_resp c items : body_form decide web e [EResp c items]
| BF_deny r : decide r = false -> body_form decide web e [EAuth r false; EResp (denied_code e) []]
| BF_allow r tail : decide r = true -> Forall (call_ok web r) tail -> body_form decide web e (EAuth r true :: tail).

Definition wf (decide : areq -> bool) (web : bool) (e : env) (tr : list event) : Prop :=
  exists V rest, tr = V ++ rest /\ Forall (exempt web) V /\ body_form decide web e rest.

Definition is_item (ev : event) : Prop := match ev with EItem _ _ _ _ => True | _ => False end.

Section Sound.
  Variable decide : areq -> bool.
  Variable di : hook -> areq -> bytes -> bool.
  Variable e : env.

  Lemma mk_call_ok o t m t' keys :
    call_static_ok o t m t' = true -> call_ok false (mk_req e o t) (mk_call e m t' keys).
  Proof.
    unfold call_static_ok. rewrite !andb_true_iff, orb_true_iff, !negb_true_iff.
    intros [[Hc Ht] Hm]. apply target_eqb_eq in Ht. subst t'.
    unfold mk_call, call_ok. destruct t; cbn; (split; [reflexivity|]); (split; [|intros _; auto]);
      intros Hmut; destruct Hm as [Hm|Hm]; congruence.
  Qed.

  Lemma filter_once_spec h base items ev got :
    filter_once di h base items = (ev, got) -> Forall is_item ev /\ got = filter (di h base) items.
  Proof.
    revert ev got. induction items as [|it items IH]; cbn; intros ev got H.
    - inversion H; subst. split; [constructor | reflexivity].
    - destruct (filter_once di h base items) as [ev' got'] eqn:E. destruct (IH _ _ eq_refl) as [I1 I2].
      inversion H; subst. split; [constructor; [exact I|exact I1]|]. destruct (di h base it); reflexivity.
  Qed.

  Lemma scan_spec h base : forall page room ev got full,
    1 <= room -> scan di h base page room = (ev, got, full) ->
    Forall is_item ev /\ got = firstn room (filter (di h base) page)
    /\ (full = true -> room <= length (filter (di h base) page))
    /\ (full = false -> length (filter (di h base) page) < room).
  Proof.
    induction page as [|it page IH]; cbn; intros room ev got full Hr H.
    - inversion H; subst. rewrite firstn_nil. repeat split; try constructor; try discriminate. cbn; lia.
    - destruct (di h base it) eqn:D.
      + destruct room as [|[|room']]; [lia| |].
        * inversion H; subst. cbn. repeat split; try (constructor; [exact I|constructor]); try discriminate. lia.
        * destruct (scan di h base page (S room')) as [[ev' got'] full'] eqn:E.
          assert (Hr' : 1 <= S room') by lia.
          destruct (IH _ _ _ _ Hr' E) as (I1 & I2 & I3 & I4).
          inversion H; subst. cbn [firstn length]. repeat split.
          -- constructor; [exact I|exact I1].
          -- intros F. specialize (I3 F). lia.
          -- intros F. specialize (I4 F). lia.
      + destruct (scan di h base page room) as [[ev' got'] full'] eqn:E.
        destruct (IH _ _ _ _ Hr E) as (I1 & I2 & I3 & I4).
        inversion H; subst. repeat split; auto. constructor; [exact I|exact I1].
  Qed.

  Definition call_or_item (m : smeth) (t : target) (ev : event) : Prop := ev = mk_call e m t [] \/ is_item ev.

  Lemma eff_max_pos : 1 <= N.to_nat (eff_max e).
  Proof.
    unfold eff_max. destruct ((e_max e =? 0)%N) eqn:A; cbn [orb]; [lia|].
    destruct ((1000 <? e_max e)%N); [lia|]. apply N.eqb_neq in A. lia.
  Qed.

  (* the refetch loop returns exactly the first [room] allowed items, in order *)
  Lemma list_loop_spec m t h base : forall fuel rest room ev got,
    length rest < fuel -> 1 <= room ->
    list_loop di e fuel m t h base rest room = (ev, got) ->
    got = firstn room (filter (di h base) rest) /\ Forall (call_or_item m t) ev.
  Proof.
    pose proof eff_max_pos as Hm.
    induction fuel as [|fuel IH]; intros rest room ev got Hf Hr H; [lia|].
    cbn [list_loop] in H. set (maxn := N.to_nat (eff_max e)) in *.
    destruct (scan di h base (firstn maxn rest) room) as [[ev1 got1] full] eqn:E.
    destruct (scan_spec _ _ _ _ _ _ _ Hr E) as (I1 & I2 & I3 & I4).
    assert (Hsplit : filter (di h base) rest = filter (di h base) (firstn maxn rest) ++ filter (di h base) (skipn maxn rest)).
    { rewrite <- filter_app, firstn_skipn. reflexivity. }
    assert (Hev1 : Forall (call_or_item m t) ev1).
    { eapply Forall_impl; [|exact I1]. intros a Ha; right; exact Ha. }
    destruct full.
    - inversion H; subst. split.
      + rewrite Hsplit, firstn_app. specialize (I3 eq_refl).
        replace (room - length (filter (di h base) (firstn maxn rest))) with 0 by lia.
        rewrite firstn_O, app_nil_r. reflexivity.
      + constructor; [left; reflexivity | exact Hev1].
    - specialize (I4 eq_refl). destruct (maxn <? length rest) eqn:T; cbn [negb] in H.
      + apply Nat.ltb_lt in T.
        destruct (list_loop di e fuel m t h base (skipn maxn rest) (room - length got1)) as [ev2 got2] eqn:E2.
        assert (Hg1 : got1 = filter (di h base) (firstn maxn rest)).
        { rewrite I2. apply firstn_all2. lia. }
        assert (L1 : length (skipn maxn rest) < fuel) by (rewrite skipn_length; lia).
        assert (L2 : 1 <= room - length got1) by (rewrite Hg1; lia).
        destruct (IH _ _ _ _ L1 L2 E2) as [J1 J2].
        inversion H; subst ev got. split.
        * rewrite Hsplit, firstn_app, J1. rewrite Hg1 at 1. rewrite Hg1. f_equal. symmetry. apply firstn_all2. lia.
        * constructor; [left; reflexivity|]. apply Forall_app; split; assumption.
      + apply Nat.ltb_ge in T. inversion H; subst. split.
        * rewrite (@firstn_all2 _ maxn rest T). reflexivity.
        * constructor; [left; reflexivity | exact Hev1].
  Qed.

  Lemma call_or_item_ok o t m t' ev :
    call_static_ok o t m t' = true -> call_or_item m t' ev -> call_ok false (mk_req e o t) ev.
  Proof.
    intros H [->|Hi]; [apply mk_call_ok; exact H|]. destruct ev; cbn in *; tauto.
  Qed.
  Lemma item_ok web r ev : is_item ev -> call_ok web r ev.
  Proof. destruct ev; cbn; tauto. Qed.

  Lemma exec_post o t : forall l ok,
    forallb (step_post_ok o t) l = true ->
    Forall (call_ok false (mk_req e o t)) (exec decide di e l ok (mk_req e o t)).
  Proof.
    induction l as [|st l IH]; intros ok H; cbn [exec].
    - repeat constructor.
    - cbn [forallb] in H. apply andb_true_iff in H. destruct H as [Hs Hl]. specialize (IH ok Hl).
      destruct st; cbn [step_post_ok] in Hs; try discriminate.
      + destruct (e_valid e); [exact IH | repeat constructor].
      + destruct ((1000 <? e_max e)%N); [repeat constructor | exact IH].
      + destruct (src e) as [[sb sk]|]; [|exact IH].
        destruct (bytes_eqb sb (e_bucket e) && bytes_eqb sk (e_key e)); [repeat constructor | exact IH].
      + repeat constructor.
      + constructor; [apply mk_call_ok; exact Hs|]. destruct (e_main e); [exact IH | repeat constructor..].
      + constructor; [apply mk_call_ok; exact Hs|]. destruct (e_main e); [|repeat constructor..].
        destruct h as [h|]; [|repeat constructor].
        destruct (filter_once di h (mk_req e o t) (e_items e)) as [ev got] eqn:E.
        destruct (filter_once_spec _ _ _ _ _ E) as [I1 _]. apply Forall_app; split; [|repeat constructor].
        eapply Forall_impl; [|exact I1]. intros a. apply item_ok.
      + destruct (e_main e); [|(constructor; [apply mk_call_ok; exact Hs | repeat constructor])..].
        destruct (list_loop di e (S (length (e_items e))) m t0 h (mk_req e o t) (e_items e) (N.to_nat (eff_max e))) as [ev got] eqn:E.
        assert (L1 : length (e_items e) < S (length (e_items e))) by lia.
        destruct (list_loop_spec _ _ _ _ _ _ _ _ _ L1 eff_max_pos E) as [_ I2].
        apply Forall_app; split; [|repeat constructor].
        eapply Forall_impl; [|exact I2]. intros a. apply call_or_item_ok. exact Hs.
      + destruct ((1000 <? N.of_nat (length (e_items e)))%N); [repeat constructor|].
        destruct (filter_once di HDeleteEntry (mk_req e o t) (filter key_valid (e_items e))) as [ev got] eqn:E.
        destruct (filter_once_spec _ _ _ _ _ E) as [I1 _].
        assert (Hev : Forall (call_ok false (mk_req e o t)) ev).
        { eapply Forall_impl; [|exact I1]. intros a. apply item_ok. }
        destruct got as [|g got]; apply Forall_app; split; try exact Hev.
        * constructor; [exact I | constructor].
        * constructor; [apply mk_call_ok; exact Hs|]. constructor; [|constructor]. destruct (e_main e); exact I.
  Qed.

  Lemma exec_pre : forall l ok last, steps_ok l = true -> body_form decide false e (exec decide di e l ok last).
  Proof.
    induction l as [|st l IH]; intros ok last H; cbn [exec].
    - constructor.
    - destruct st; cbn [steps_ok] in H; try discriminate.
      + destruct (bucket_valid (e_bucket e)); [apply IH; exact H | constructor].
      + destruct (key_valid (e_key e)); [apply IH; exact H | constructor].
      + destruct (src e) as [[sb sk]|]; [|constructor].
        destruct (bucket_valid sb && key_valid sk); [apply IH; exact H | constructor].
      + destruct (decide (mk_req e o t)) eqn:D.
        * apply BF_allow; [exact D | apply exec_post; exact H].
        * apply BF_deny. exact D.
  Qed.

  Lemma website_wf o m :
    handler_ok (HWebsite o m) = true -> wf decide true e (website decide e o m).
  Proof.
    intros H. unfold website.
    destruct (bucket_valid (e_bucket e)); cbn [negb].
    2:{ exists [], [EResp 400 []]. repeat split; constructor. }
    set (r := {| a_op := o; a_bucket := Some (e_bucket e); a_key := _; a_srcb := None; a_srck := None |}).
    exists [ECall MGetBucketWebsite (Some (e_bucket e)) None None None []].
    eexists. split; [reflexivity|]. split; [repeat constructor|].
    destruct (decide r) eqn:D; cbn [negb]; [|apply BF_deny; exact D].
    apply BF_allow; [exact D|].
    assert (Hm : mutating m = false) by (destruct o, m; cbn in H; try discriminate; reflexivity).
    assert (C : forall k keys, call_ok true r (ECall m (Some (e_bucket e)) k None None keys)).
    { intros. cbn. repeat split; try congruence. }
    assert (CG : forall k keys, call_ok true r (ECall MGetObject (Some (e_bucket e)) k None None keys)).
    { intros. cbn. repeat split; try congruence. }
    assert (CH : forall k keys, call_ok true r (ECall MHeadObject (Some (e_bucket e)) k None None keys)).
    { intros. cbn. repeat split; try congruence. }
    assert (CR : forall c items, call_ok true r (EResp c items)) by (intros; exact I).
    assert (SE : forall g, Forall (call_ok true r) (serve_error_document e g (e_bucket e))).
    { intros g. unfold serve_error_document. destruct (e_werr e); repeat (constructor; auto). }
    Ltac web_tac C CG CH CR SE :=
      repeat first
        [ apply Forall_nil
        | apply SE
        | apply Forall_cons; [first [apply CR | apply C | apply CG | apply CH]|]
        | apply Forall_app; split
        | match goal with |- Forall _ (match ?k with _ => _ end) => destruct k end
        | match goal with |- Forall _ (if ?c then _ else _) => destruct c end ].
    web_tac C CG CH CR SE.
  Qed.

  Lemma cors_prefix_exempt w s : Forall (exempt w) (cors_prefix e s).
  Proof.
    unfold cors_prefix. destruct (s_host s), (s_path s); try constructor;
    destruct (e_origin e && bucket_valid (e_bucket e)); repeat constructor.
  Qed.

  Definition is_web (s : shape) : bool := match s_host s with Web => true | Api => false end.

  Lemma run_wf s : wf decide (is_web s) e (run decide di e s).
  Proof.
    unfold run. pose proof (route_ok s) as Hok. pose proof (cors_prefix_exempt (is_web s) s) as Hc.
    assert (Hw : is_web s = false -> forall rest, body_form decide false e rest -> wf decide (is_web s) e (cors_prefix e s ++ rest)).
    { intros W rest B. rewrite W in *. exists (cors_prefix e s), rest. auto. }
    destruct (route s) as [l ok|o m|c] eqn:R; cbn [run_handler].
    - assert (W : is_web s = false).
      { unfold is_web. destruct (s_host s) eqn:Hh; [reflexivity|]. unfold route in R. rewrite Hh in R. destruct (s_meth s); discriminate. }
      apply Hw; [exact W|]. apply exec_pre. exact Hok.
    - assert (W : s_host s = Web).
      { destruct (s_host s) eqn:Hh; [|reflexivity]. exfalso. unfold route in R. rewrite Hh in R.
        destruct (s_path s), (s_meth s); cbn in R; try discriminate;
        repeat match type of R with context [if ?c then _ else _] => destruct c end; discriminate. }
      unfold is_web. rewrite W. unfold cors_prefix. rewrite W. cbn [app]. apply website_wf. exact Hok.
    - destruct (is_web s) eqn:W.
      + exists (cors_prefix e s), [EResp c []]. repeat split; [exact Hc | constructor].
      + apply Hw; [reflexivity | constructor].
  Qed.
End Sound.

(* ---------- consequences of well-formedness ---------- *)
Lemma app_split {A} (V rest pre post : list A) x :
  V ++ rest = pre ++ x :: post ->
  (exists l, V = pre ++ x :: l) \/ (exists l, pre = V ++ l /\ rest = l ++ x :: post).
Proof.
  revert pre. induction V as [|v V IH]; intros pre H; cbn in H.
  - right. exists pre. split; [reflexivity | exact H].
  - destruct pre as [|p pre]; cbn in H; inversion H; subst.
    + left. exists V. reflexivity.
    + destruct (IH _ H2) as [[l ->]|[l [-> ->]]]; [left; exists l; reflexivity | right; exists l; split; reflexivity].
Qed.

Lemma wf_authorize_first decide web e tr : wf decide web e tr ->
  forall pre m b k sb sk keys post, tr = pre ++ ECall m b k sb sk keys :: post ->
  exempt web (ECall m b k sb sk keys) \/
  exists r, In (EAuth r true) pre /\ decide r = true /\ call_ok web r (ECall m b k sb sk keys).
Proof.
  intros (V & rest & -> & HV & HB) pre m b k sb sk keys post H.
  destruct (app_split _ _ _ _ _ H) as [[l ->]|[l [-> Hr]]].
  - left. rewrite Forall_forall in HV. apply HV. apply in_or_app. right. left. reflexivity.
  - right. subst rest. inversion HB as [c items E|r D E|r tail D F E].
    + destruct l as [|a [|a' l]]; cbn in E; inversion E. 
    + destruct l as [|a [|a' [|a'' l]]]; cbn in E; inversion E.
    + destruct l as [|a l]; cbn in E; inversion E; subst.
      exists r. split; [apply in_or_app; right; left; reflexivity|]. split; [exact D|].
      rewrite Forall_forall in F. apply F. apply in_or_app. right. left. reflexivity.
Qed.

Lemma wf_deny_stops decide web e tr : wf decide web e tr ->
  forall r, In (EAuth r false) tr ->
  decide r = false /\ exists pre, tr = pre ++ [EAuth r false; EResp (denied_code e) []] /\ Forall (exempt web) pre.
Proof.
  intros (V & rest & -> & HV & HB) r Hin. apply in_app_or in Hin. destruct Hin as [Hin|Hin].
  - rewrite Forall_forall in HV. specialize (HV _ Hin). destruct HV.
  - inversion HB as [c items E|r' D E|r' tail D F E]; subst rest.
    + destruct Hin as [Hin|[]]; discriminate.
    + destruct Hin as [Hin|[Hin|[]]]; [|discriminate]. inversion Hin; subst.
      split; [exact D|]. exists V. split; [reflexivity | exact HV].
    + destruct Hin as [Hin|Hin]; [discriminate|]. rewrite Forall_forall in F. specialize (F _ Hin). destruct F.
Qed.

Lemma wf_decisions decide web e tr : wf decide web e tr ->
  forall r a, In (EAuth r a) tr -> a = decide r.
Proof.
  intros (V & rest & -> & HV & HB) r a Hin. apply in_app_or in Hin. destruct Hin as [Hin|Hin].
  - rewrite Forall_forall in HV. specialize (HV _ Hin). destruct HV.
  - inversion HB as [c items E|r' D E|r' tail D F E]; subst rest.
    + destruct Hin as [Hin|[]]; discriminate.
    + destruct Hin as [Hin|[Hin|[]]]; [|discriminate]. inversion Hin; subst. symmetry; exact D.
    + destruct Hin as [Hin|Hin]; [inversion Hin; subst; symmetry; exact D|].
      rewrite Forall_forall in F. specialize (F _ Hin). destruct F.
Qed.

Lemma wf_mutating decide web e tr : wf decide web e tr ->
  forall m b k sb sk keys, In (ECall m b k sb sk keys) tr -> mutating m = true ->
  exists r, In (EAuth r true) tr /\ decide r = true /\ is_read_only (a_op r) = false /\ a_bucket r = b.
Proof.
  intros (V & rest & -> & HV & HB) m b k sb sk keys Hin Hm. apply in_app_or in Hin. destruct Hin as [Hin|Hin].
  - rewrite Forall_forall in HV. specialize (HV _ Hin). destruct m; cbn in HV, Hm; try discriminate; destruct HV.
  - inversion HB as [c items E|r' D E|r' tail D F E]; subst rest.
    + destruct Hin as [Hin|[]]; discriminate.
    + destruct Hin as [Hin|[Hin|[]]]; discriminate.
    + destruct Hin as [Hin|Hin]; [discriminate|]. rewrite Forall_forall in F. specialize (F _ Hin).
      destruct F as (A & Bm & _). exists r'. split; [apply in_or_app; right; left; reflexivity|].
      split; [exact D|]. split; [exact (Bm Hm) | exact A].
Qed.

(* ---------- per-item hooks on concrete routes ---------- *)
Definition q_plain_list (q : qflags) : bool :=
  negb (q_versioning q) && negb (q_versions q) && negb (q_cors q) && negb (q_lifecycle q)
  && negb (q_notification q) && negb (q_website q) && negb (q_uploads q).

Lemma route_list_objects s :
  s_host s = Api -> s_path s = PBucket -> s_meth s = GET -> q_plain_list (s_q s) = true ->
  route s = HSteps [VBucket; Auth OListObjects TBucket; ListLoop MListObjects TBucket HListObject] 200.
Proof.
  destruct s as [h m p [a b c d e g u i j k l mm n o] cp]; cbn. intros -> -> ->. unfold q_plain_list; cbn.
  destruct a, b, c, d, e, g, u; cbn; intros H; try discriminate; reflexivity.
Qed.

Lemma route_list_versions s :
  s_host s = Api -> s_path s = PBucket -> s_meth s = GET -> q_versioning (s_q s) = false -> q_versions (s_q s) = true ->
  route s = HSteps [VBucket; Auth OListObjectVersions TBucket; ListOnce MListObjectVersions TBucket None] 200.
Proof.
  destruct s as [h m p [a b c d e g u i j k l mm n o] cp]; cbn. intros -> -> -> -> ->. reflexivity.
Qed.

Lemma route_multi_delete s :
  s_host s = Api -> s_path s = PBucket -> s_meth s = POST -> q_delete (s_q s) = true ->
  route s = HSteps [VBucket; Auth ODeleteObjects TBucket; Check; DeleteEntries] 200.
Proof.
  destruct s as [h m p [a b c d e g u i j k l mm n o] cp]; cbn. intros -> -> -> ->. reflexivity.
Qed.

Lemma route_list_buckets s :
  s_host s = Api -> s_path s = PRoot -> s_meth s = GET \/ s_meth s = HEAD ->
  route s = HSteps [Auth OListBuckets TNone; ListOnce MListBuckets TNone (Some HListBucket)] 200.
Proof.
  destruct s as [h m p q cp]; cbn. intros -> -> [-> | ->]; reflexivity.
Qed.

Lemma in_cors_prefix_resp e s c items : ~ In (EResp c items) (cors_prefix e s).
Proof.
  unfold cors_prefix. destruct (s_host s), (s_path s); cbn; try tauto;
  destruct (e_origin e && bucket_valid (e_bucket e)); cbn; intuition discriminate.
Qed.

Lemma not_item_resp ev c items : is_item ev -> ev <> EResp c items.
Proof. destruct ev; cbn; try tauto; discriminate. Qed.

Lemma list_objects_exact decide di e s items :
  s_host s = Api -> s_path s = PBucket -> s_meth s = GET -> q_plain_list (s_q s) = true ->
  In (EResp 200 items) (run decide di e s) ->
  exists base, In (EAuth base true) (run decide di e s) /\ a_op base = OListObjects /\ a_bucket base = Some (e_bucket e) /\
    items = firstn (N.to_nat (eff_max e)) (filter (di HListObject base) (e_items e)).
Proof.
  intros Hh Hp Hm Hq Hin. unfold run in *. rewrite (route_list_objects s Hh Hp Hm Hq) in *.
  apply in_app_or in Hin. destruct Hin as [Hin|Hin]; [exfalso; exact (in_cors_prefix_resp _ _ _ _ Hin)|].
  cbn [run_handler exec] in *. destruct (bucket_valid (e_bucket e)); [|destruct Hin as [Hin|[]]; discriminate].
  set (r := mk_req e OListObjects TBucket) in *.
  destruct (decide r); [|unfold denied_code in Hin; destruct (e_authd e); destruct Hin as [Hin|[Hin|[]]]; discriminate].
  destruct (e_main e); [|destruct Hin as [Hin|[Hin|[Hin|[]]]]; discriminate..].
  destruct (list_loop di e (S (length (e_items e))) MListObjects TBucket HListObject r (e_items e) (N.to_nat (eff_max e))) as [ev got] eqn:E.
  assert (L1 : length (e_items e) < S (length (e_items e))) by lia.
  destruct (list_loop_spec di e _ _ _ _ _ _ _ _ _ L1 (eff_max_pos e) E) as [I1 I2].
  exists r. split; [apply in_or_app; right; left; reflexivity|]. split; [reflexivity|]. split; [reflexivity|].
  destruct Hin as [Hin|Hin]; [discriminate|]. apply in_app_or in Hin. destruct Hin as [Hin|[Hin|[]]].
  - rewrite Forall_forall in I2. destruct (I2 _ Hin) as [Hc|Hi]; [discriminate | exfalso; exact (not_item_resp _ _ _ Hi eq_refl)].
  - inversion Hin. congruence.
Qed.

Lemma list_buckets_exact decide di e s items :
  s_host s = Api -> s_path s = PRoot -> s_meth s = GET \/ s_meth s = HEAD ->
  In (EResp 200 items) (run decide di e s) ->
  exists base, In (EAuth base true) (run decide di e s) /\ a_op base = OListBuckets /\
    items = filter (di HListBucket base) (e_items e).
Proof.
  intros Hh Hp Hm Hin. unfold run in *. rewrite (route_list_buckets s Hh Hp Hm) in *.
  apply in_app_or in Hin. destruct Hin as [Hin|Hin]; [exfalso; exact (in_cors_prefix_resp _ _ _ _ Hin)|].
  cbn [run_handler exec] in *. set (r := mk_req e OListBuckets TNone) in *.
  destruct (decide r); [|unfold denied_code in Hin; destruct (e_authd e); destruct Hin as [Hin|[Hin|[]]]; discriminate].
  destruct Hin as [Hin|[Hin|Hin]]; try discriminate.
  destruct (e_main e); [|destruct Hin as [Hin|[]]; discriminate..].
  destruct (filter_once di HListBucket r (e_items e)) as [ev got] eqn:E.
  destruct (filter_once_spec di _ _ _ _ _ E) as [I1 I2].
  exists r. split; [apply in_or_app; right; left; reflexivity|]. split; [reflexivity|].
  apply in_app_or in Hin. destruct Hin as [Hin|[Hin|[]]].
  - rewrite Forall_forall in I1. exfalso; exact (not_item_resp _ _ _ (I1 _ Hin) eq_refl).
  - inversion Hin; subst. reflexivity.
Qed.

Lemma multi_delete_exact decide di e s b k sb sk keys :
  s_host s = Api -> s_path s = PBucket -> s_meth s = POST -> q_delete (s_q s) = true ->
  In (ECall MDeleteObjects b k sb sk keys) (run decide di e s) ->
  exists base, In (EAuth base true) (run decide di e s) /\ a_op base = ODeleteObjects /\
    keys = filter (di HDeleteEntry base) (filter key_valid (e_items e)).
Proof.
  intros Hh Hp Hm Hq Hin. unfold run in *. rewrite (route_multi_delete s Hh Hp Hm Hq) in *.
  apply in_app_or in Hin. destruct Hin as [Hin|Hin].
  { exfalso. unfold cors_prefix in Hin. rewrite Hh, Hp in Hin.
    destruct (e_origin e && bucket_valid (e_bucket e)); [destruct Hin as [Hin|[]]; discriminate | destruct Hin]. }
  cbn [run_handler exec] in *. destruct (bucket_valid (e_bucket e)); [|destruct Hin as [Hin|[]]; discriminate].
  set (r := mk_req e ODeleteObjects TBucket) in *.
  destruct (decide r); [|destruct Hin as [Hin|[Hin|[]]]; discriminate].
  destruct Hin as [Hin|Hin]; [discriminate|].
  destruct (e_valid e); [|destruct Hin as [Hin|[]]; discriminate].
  destruct ((1000 <? N.of_nat (length (e_items e)))%N); [destruct Hin as [Hin|[]]; discriminate|].
  destruct (filter_once di HDeleteEntry r (filter key_valid (e_items e))) as [ev got] eqn:E.
  destruct (filter_once_spec di _ _ _ _ _ E) as [I1 I2].
  exists r. split; [apply in_or_app; right; left; reflexivity|]. split; [reflexivity|].
  assert (Hev : ~ In (ECall MDeleteObjects b k sb sk keys) ev).
  { intros Hi. rewrite Forall_forall in I1. specialize (I1 _ Hi). destruct I1. }
  destruct got as [|g got]; apply in_app_or in Hin; destruct Hin as [Hin|Hin]; try contradiction.
  - destruct Hin as [Hin|[]]; discriminate.
  - destruct Hin as [Hin|[Hin|[]]]; [inversion Hin; subst; exact I2|]. destruct (e_main e); discriminate.
Qed.
