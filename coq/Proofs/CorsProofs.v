(* Proofs/CorsProofs.v — the CORS model against a declarative matching specification. *)
From Verif Require Import Bytes Codec Cors.

(* ---- declarative wildcard semantics ---- *)
Definition wild_spec (p v : bytes) : Prop :=
  (~ In star p /\ p = v) \/
  (exists pre suf mid, p = pre ++ star :: suf /\ ~ In star pre /\ v = pre ++ mid ++ suf).

Lemma wildcard_match_spec p v : wildcard_match p v = true <-> wild_spec p v.
Proof.
  unfold wildcard_match, wild_spec.
  destruct (split_first star p) as [[pre suf]|] eqn:S.
  - apply split_first_Some in S. destruct S as [Hp Hn]. split.
    + intros H. right. exists pre, suf.
      destruct (length v <? length pre + length suf) eqn:L; [discriminate|].
      apply Nat.ltb_ge in L. apply andb_true_iff in H. destruct H as [H1 H2].
      apply is_prefix_spec in H1. destruct H1 as [r Hr].
      apply is_suffix_spec in H2. destruct H2 as [r' Hr'].
      rewrite Hr in Hr'. apply app_eq_app in Hr'. destruct Hr' as [l [[H1 H2]|[H1 H2]]].
      * (* pre = r' ++ l, suf = l ++ r *)
        assert (l = []) as ->.
        { subst v. rewrite H1, H2 in L. rewrite !app_length in L.
          destruct l; [reflexivity | cbn in L; lia]. }
        rewrite app_nil_r in H1. cbn in H2. subst. exists []. auto.
      * exists l. subst. auto.
    + intros [[Hno _]|[pre' [suf' [mid [Hp' [Hn' Hv]]]]]].
      * exfalso. apply Hno. rewrite Hp. apply in_or_app. right. left. reflexivity.
      * assert (Some (pre, suf) = Some (pre', suf')) as E.
        { rewrite <- (proj2 (split_first_Some star p pre suf) (conj Hp Hn)).
          apply split_first_Some. auto. }
        inversion E; subst pre' suf'. subst v.
        replace (length (pre ++ mid ++ suf) <? length pre + length suf) with false
          by (symmetry; apply Nat.ltb_ge; rewrite !app_length; lia).
        apply andb_true_iff. split.
        -- apply is_prefix_spec. eauto.
        -- apply is_suffix_spec. exists (pre ++ mid). rewrite app_assoc. reflexivity.
  - apply split_first_None in S. rewrite bytes_eqb_eq. split.
    + intros ->. left. auto.
    + intros [[_ H]|[pre [suf [mid [Hp _]]]]]; [exact H|].
      exfalso. apply S. rewrite Hp. apply in_or_app. right. left. reflexivity.
Qed.

Lemma wildcardmatch_spec_stmt : forall p v,
  wildcard_match p v = true <->
  (~ In star p /\ p = v) \/
  (exists pre suf mid, p = pre ++ star :: suf /\ ~ In star pre /\ v = pre ++ mid ++ suf).
Proof. exact wildcard_match_spec. Qed.

(* ---- declarative rule matching ---- *)
Definition origin_ok (r : rule) (q : request) : Prop :=
  exists a, In a (r_origins r) /\ wild_spec (to_lower a) (to_lower (trim_space (q_origin q))).

Definition method_ok (r : rule) (q : request) : Prop :=
  In (to_upper (trim_space (requested_method q))) (r_methods r).

Definition headers_ok (r : rule) (q : request) : Prop :=
  is_preflight q = true ->
  let req := parse_header_list (q_acrh q) in
  req = [] \/ In [star] (r_headers r) \/
  (forall h, In h req -> exists a, In a (r_headers r) /\ wild_spec (to_lower a) (to_lower h)).

Definition rule_matches (r : rule) (q : request) : Prop :=
  origin_ok r q /\ method_ok r q /\ headers_ok r q.

Lemma match_origin_Some allowed o pat :
  match_origin allowed o = Some pat -> In pat allowed /\ wild_spec (to_lower pat) (to_lower o).
Proof.
  induction allowed as [|a rest IH]; cbn; [discriminate|].
  destruct (wildcard_match (to_lower a) (to_lower o)) eqn:W.
  - intros E; inversion E; subst. split; [left; reflexivity | apply wildcard_match_spec; exact W].
  - intros E. destruct (IH E). split; [right|]; assumption.
Qed.

Lemma match_origin_None allowed o :
  match_origin allowed o = None <-> forall a, In a allowed -> ~ wild_spec (to_lower a) (to_lower o).
Proof.
  induction allowed as [|a rest IH]; cbn.
  - split; [intros _ a [] | reflexivity].
  - destruct (wildcard_match (to_lower a) (to_lower o)) eqn:W.
    + split; [discriminate|]. intros H. exfalso. apply (H a (or_introl eq_refl)).
      apply wildcard_match_spec; exact W.
    + rewrite IH. split.
      * intros H a' [<-|Hin]; [|apply H; exact Hin].
        intros Hs. apply wildcard_match_spec in Hs. congruence.
      * intros H a' Hin. apply H. right; exact Hin.
Qed.

Lemma match_requested_headers_spec allowed req :
  match_requested_headers allowed req = true <->
  (req = [] \/ In [star] allowed \/
   (forall h, In h req -> exists a, In a allowed /\ wild_spec (to_lower a) (to_lower h))).
Proof.
  unfold match_requested_headers. destruct req as [|h0 req'].
  - split; [left; reflexivity | reflexivity].
  - set (req := h0 :: req'). rewrite orb_true_iff, mem_bytes_In, forallb_forall. split.
    + intros [H|H]; [right; left; exact H|]. right; right. intros h Hin.
      specialize (H h Hin). apply existsb_exists in H. destruct H as [a [Ha Hw]].
      exists a. split; [exact Ha | apply wildcard_match_spec; exact Hw].
    + intros [H|[H|H]]; [discriminate | left; exact H | right].
      intros h Hin. destruct (H h Hin) as [a [Ha Hw]]. apply existsb_exists.
      exists a. split; [exact Ha | apply wildcard_match_spec; exact Hw].
Qed.

Lemma rule_matchb_Some q r pat :
  rule_matchb q r = Some pat ->
  rule_matches r q /\ In pat (r_origins r) /\
  wild_spec (to_lower pat) (to_lower (trim_space (q_origin q))).
Proof.
  unfold rule_matchb. destruct (match_origin _ _) as [p|] eqn:O; [|discriminate].
  destruct (match_method _ _ && _) eqn:M; [|discriminate].
  intros E; inversion E; subst p. apply match_origin_Some in O. destruct O as [Hin Hw].
  apply andb_true_iff in M. destruct M as [M1 M2].
  split; [|split; assumption]. split; [exists pat; split; assumption|]. split.
  - unfold method_ok. apply mem_bytes_In. exact M1.
  - intros Hp. rewrite Hp in M2. cbn in M2. apply match_requested_headers_spec. exact M2.
Qed.

Lemma rule_matchb_None q r : rule_matchb q r = None <-> ~ rule_matches r q.
Proof.
  unfold rule_matchb. destruct (match_origin _ _) as [p|] eqn:O.
  - destruct (match_method _ _ && _) eqn:M.
    + split; [discriminate|]. intros H. exfalso. apply H.
      destruct (rule_matchb_Some q r p) as [Hm _]; [|exact Hm].
      unfold rule_matchb. rewrite O, M. reflexivity.
    + split; [|reflexivity]. intros _ [_ [Hm Hh]].
      apply andb_false_iff in M. destruct M as [M|M].
      * unfold method_ok in Hm. apply mem_bytes_In in Hm. unfold match_method in M. congruence.
      * apply orb_false_iff in M. destruct M as [M1 M2]. apply negb_false_iff in M1.
        specialize (Hh M1). apply match_requested_headers_spec in Hh. congruence.
  - split; [|reflexivity]. intros _ [[a [Ha Hw]] _].
    apply (proj1 (match_origin_None _ _) O a Ha Hw).
Qed.

Lemma find_matching_rule_Some rules q r pat :
  find_matching_rule rules q = Some (r, pat) ->
  In r rules /\ rule_matches r q /\ In pat (r_origins r).
Proof.
  induction rules as [|r0 rest IH]; cbn; [discriminate|].
  destruct (rule_matchb q r0) as [p|] eqn:M.
  - intros E; inversion E; subst. apply rule_matchb_Some in M. destruct M as [H1 [H2 _]].
    split; [left; reflexivity | split; assumption].
  - intros E. destruct (IH E) as [H1 H2]. split; [right; exact H1 | exact H2].
Qed.

Lemma find_matching_rule_None rules q :
  find_matching_rule rules q = None <-> ~ exists r, In r rules /\ rule_matches r q.
Proof.
  induction rules as [|r0 rest IH]; cbn.
  - split; [intros _ [r [[] _]] | reflexivity].
  - destruct (rule_matchb q r0) as [p|] eqn:M.
    + split; [discriminate|]. intros H. exfalso. apply H. exists r0.
      split; [left; reflexivity | apply (rule_matchb_Some _ _ _ M)].
    + apply rule_matchb_None in M. rewrite IH. split.
      * intros H [r [[<-|Hin] Hm]]; [contradiction | apply H; exists r; auto].
      * intros H [r [Hin Hm]]. apply H. exists r. auto.
Qed.

(* first-match: the chosen rule is the first matching one *)
Lemma find_matching_rule_first rules q r pat :
  find_matching_rule rules q = Some (r, pat) ->
  exists before after, rules = before ++ r :: after /\ forall r', In r' before -> ~ rule_matches r' q.
Proof.
  induction rules as [|r0 rest IH]; cbn; [discriminate|].
  destruct (rule_matchb q r0) as [p|] eqn:M.
  - intros E; inversion E; subst. exists [], rest. split; [reflexivity | intros r' []].
  - intros E. destruct (IH E) as [b [a [-> Hb]]]. exists (r0 :: b), a. split; [reflexivity|].
    intros r' [<-|Hin]; [apply rule_matchb_None; exact M | apply Hb; exact Hin].
Qed.

Definition some_rule_matches (rules : list rule) (q : request) : Prop :=
  exists r, In r rules /\ rule_matches r q.

Lemma is_nil_true {A} (l : list A) : is_nil l = true -> l = [].
Proof. destruct l; [reflexivity | discriminate]. Qed.

Lemma acao_iff_rule rules q :
  acao (cors rules q) <> None <->
  trim_space (q_origin q) <> [] /\ some_rule_matches rules q.
Proof.
  unfold cors, some_rule_matches. destruct (trim_space (q_origin q)) as [|o0 o'] eqn:O.
  - cbn. split; [congruence | intros [H _]; congruence].
  - destruct (is_nil rules) eqn:N.
    + apply is_nil_true in N. subst rules.
      destruct (is_preflight q); cbn; (split; [congruence | intros [_ [r [[] _]]]]).
    + destruct (find_matching_rule rules q) as [[r pat]|] eqn:F.
      * apply find_matching_rule_Some in F. destruct F as [Hin [Hm _]].
        destruct (is_preflight q); cbn; (split; [intros _; split; [discriminate | exists r; auto] | discriminate]).
      * apply find_matching_rule_None in F.
        destruct (is_preflight q); cbn; (split; [congruence | intros [_ H]; contradiction]).
Qed.

Lemma preflight_outcome rules q :
  is_preflight q = true -> trim_space (q_origin q) <> [] ->
  (out (cors rules q) = PreflightOK <-> some_rule_matches rules q) /\
  (out (cors rules q) = Forbidden <-> ~ some_rule_matches rules q).
Proof.
  intros Hp Ho. unfold cors, some_rule_matches. rewrite Hp.
  destruct (trim_space (q_origin q)) as [|o0 o'] eqn:O; [congruence|].
  destruct (is_nil rules) eqn:N.
  - apply is_nil_true in N. subst rules. cbn. split; split.
    + discriminate.
    + intros [r [[] _]].
    + intros _ [r [[] _]].
    + reflexivity.
  - destruct (find_matching_rule rules q) as [[r pat]|] eqn:F; cbn.
    + apply find_matching_rule_Some in F. destruct F as [Hin [Hm _]].
      split; split.
      * intros _. exists r; auto.
      * reflexivity.
      * discriminate.
      * intros H. exfalso. apply H. exists r; auto.
    + apply find_matching_rule_None in F. split; split.
      * discriminate.
      * intros H. contradiction.
      * intros _. exact F.
      * reflexivity.
Qed.

Lemma non_preflight_passes rules q : is_preflight q = false -> out (cors rules q) = Next.
Proof.
  intros Hp. unfold cors. rewrite Hp.
  destruct (trim_space (q_origin q)); [reflexivity|].
  destruct (is_nil rules); [reflexivity|].
  destruct (find_matching_rule rules q) as [[r pat]|]; reflexivity.
Qed.

Lemma no_origin_untouched rules q :
  trim_space (q_origin q) = [] -> cors rules q = plain Next [].
Proof. intros H. unfold cors. rewrite H. reflexivity. Qed.

Lemma acao_value rules q v :
  acao (cors rules q) = Some v ->
  v = trim_space (q_origin q) \/
  (v = [star] /\ exists r, In r rules /\ rule_matches r q /\ In [star] (r_origins r)).
Proof.
  unfold cors. destruct (trim_space (q_origin q)) as [|o0 o'] eqn:O; [cbn; discriminate|].
  destruct (is_nil rules); [destruct (is_preflight q); discriminate|].
  destruct (find_matching_rule rules q) as [[r pat]|] eqn:F; [|destruct (is_preflight q); discriminate].
  apply find_matching_rule_Some in F. destruct F as [Hin [Hm Hpat]].
  destruct (bytes_eqb pat [star]) eqn:E.
  - apply bytes_eqb_eq in E. subst pat.
    destruct (is_preflight q); cbn; intros H; inversion H; right; (split; [reflexivity | exists r; auto]).
  - destruct (is_preflight q); cbn; intros H; inversion H; left; reflexivity.
Qed.

(* granted headers on a preflight come from the matched rule only *)
Lemma preflight_methods_from_rule rules q m :
  allow_methods (cors rules q) = Some m ->
  exists r, In r rules /\ rule_matches r q /\ m = join B", " (r_methods r).
Proof.
  unfold cors. destruct (trim_space (q_origin q)) as [|o0 o'] eqn:O; [cbn; discriminate|].
  destruct (is_nil rules); [destruct (is_preflight q); discriminate|].
  destruct (find_matching_rule rules q) as [[r pat]|] eqn:F; [|destruct (is_preflight q); discriminate].
  apply find_matching_rule_Some in F. destruct F as [Hin [Hm _]].
  destruct (is_preflight q); cbn; [|discriminate]. intros H; inversion H. exists r. auto.
Qed.
