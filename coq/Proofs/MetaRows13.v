(* Proofs/MetaRows13.v — M-META, body-level read-your-write (C01), part 3: CompleteMultipartUpload. *)
From Verif Require Import Bytes Codec Md5 Meta MetaBasics MetaPartsDefs MetaParts MetaPartsOps MetaPartsOwned.
From Verif Require Import MetaRows1 MetaRows2 MetaRows3 MetaRows4 MetaRows5 MetaRows6 MetaRows10 MetaRows11.
From Coq Require Import ZifyBool ZifyN ZifyNat.

Lemma null_ne_pending sb nr up :
  IdsOk sb -> In nr (objs sb) -> completed nr = true -> In up (objs sb) -> completed up = false -> o_id up <> o_id nr.
Proof.
  intros I Hn Cn Hu Cu E.
  assert (up = nr) by (eapply NoDup_map_inj; [exact (proj1 I) | exact Hu | exact Hn | exact E]). congruence.
Qed.

Lemma obj_parts_update_row s r oid : obj_parts (update_row s r) oid = obj_parts s oid. Proof. reflexivity. Qed.
Lemma obj_parts_set_latest s r l oid : obj_parts (set_latest s r l) oid = obj_parts s oid. Proof. reflexivity. Qed.
Lemma obj_parts_delete_row s id oid : obj_parts (delete_row s id) oid = obj_parts s oid. Proof. reflexivity. Qed.
Lemma obj_parts_delete_unref s u oid : obj_parts (delete_unreferenced s u) oid = obj_parts s oid.
Proof. apply obj_parts_ext. apply (sm_parts _ _ (same_delete_unreferenced u s)). Qed.

Lemma complete_get_your_write i hist s b k u m cr s' v e :
  PartsInv s -> NoDup (map o_id (objs s)) -> (forall x, In x (objs s) -> (o_id x < next_id s)%N) ->
  step i hist s (OCpl b k u m cr) = (s', RPut v e) ->
  exists up sz lm ct,
    find_upload s b k u = Some up /\
    e = mk_multi (map p_content (row_parts s up)) /\
    op_get s' b k None = RObj v e sz lm ct (Some (concat (map p_content (row_parts s up)))) /\
    op_get s' b k (Some v) = RObj v e sz lm ct (Some (concat (map p_content (row_parts s up)))).
Proof.
  intros P I1 I2 H0.
  assert (P' : PartsInv s') by (pose proof (step_parts_inv i hist s (OCpl b k u m cr) P) as X; rewrite H0 in X; exact X).
  assert (I0 : IdsOk (with_ids s i)) by (apply (IdsOk_same s); [apply same_with_ids | split; assumption]).
  pose proof (step_buckets_keyed i hist s (OCpl b k u m cr) (b, k) eq_refl) as Eb.
  rewrite H0 in Eb. cbn [fst] in Eb. revert H0.
  change (find_upload s b k u) with (find_upload (with_ids s i) b k u).
  cbn [step]. unfold op_complete. intros H. apply commit_ok in H; [|exact I]. destruct H as [H U].
  revert H. cbv beta zeta. repeat dm; intros H; try discriminate H;
  pose proof (f_equal fst H) as H1; pose proof (f_equal snd H) as H2; cbn [fst snd] in H1, H2; try discriminate H2.
  all: assert (Hb : find_bucket s' b <> None)
         by (rewrite (find_bucket_buckets _ _ b Eb);
             match goal with Hf : find_bucket _ _ = Some _ |- _ =>
               unfold find_bucket in *; cbn [buckets with_ids] in Hf; congruence end).
  all: match goal with Hu : find_upload _ _ _ _ = Some ?up |- _ =>
         destruct (find_upload_some _ _ _ _ _ Hu) as (Hup & _ & Uup);
         assert (Cup : completed up = false) by (unfold completed; rewrite Uup; reflexivity);
         exists up end.
  all: inversion H2; subst v e.
  (* the null row that a non-Enabled complete removes is not the upload's row *)
  all: try match goal with Hn : find_null ?sb _ _ = Some ?nr |- _ =>
         destruct (find_null_some _ _ _ _ Hn) as (Hnr & _ & Cnr & _);
         match goal with Hu : find_upload _ _ _ _ = Some ?up |- _ =>
           assert (Hne : o_id up <> o_id nr);
           [ apply (null_ne_pending sb nr up);
             [ first [ exact I0 | apply IdsOk_update; exact I0 ] | exact Hnr | exact Cnr
             | first [ exact Hup
                     | match goal with Hl : find_latest _ _ _ = Some ?r |- In _ (objs (set_latest _ ?r _)) =>
                         destruct (find_latest_some _ _ _ _ Hl) as (Hlr & _ & Clr & _);
                         apply pending_survives_set_latest; assumption end ]
             | exact Cup ] |] end end.
  all: match type of H1 with context[update_row ?S ?r1] =>
         destruct (update_row_in S r1) as [lk Hlk];
         [cbn [o_id]; first
            [ in_ids
            | rewrite ?set_latest_ids, delete_row_objs, remove_parts_of_objs; apply in_map; apply filter_In;
              split; [| apply negb_true_iff; apply N.eqb_neq; exact Hne];
              first [ exact Hup
                    | match goal with Hl : find_latest _ _ _ = Some ?r |- In _ (objs (set_latest _ ?r _)) =>
                        destruct (find_latest_some _ _ _ _ Hl) as (Hlr' & _ & Clr' & _);
                        apply pending_survives_set_latest; assumption end ] ]
         |] end.
  all: match type of Hlk with In ?x0 _ =>
         assert (R : row_parts s' x0 = row_parts (with_ids s i) o);
         [ unfold row_parts; f_equal; cbn [with_row o_id]; subst s';
           repeat first [ rewrite obj_parts_delete_unref | rewrite obj_parts_update_row | rewrite obj_parts_set_latest
                        | rewrite obj_parts_delete_row | rewrite (obj_parts_removed_other _ _ _ Hne) ];
           reflexivity
         | edestruct (written_get s' b k) with (x := x0) as [G1 G2];
           [ exact U | exact P' | exact Hb
           | subst s'; rewrite (sm_objs _ _ (same_delete_unreferenced _ _)); exact Hlk
           | wr_fields
           | rewrite R; reflexivity
           | rewrite R in G1, G2; eexists _, _, _; split; [reflexivity | split; [reflexivity | split; [exact G1 | exact G2]]] ] ] end.
Qed.
