(* Proofs/TxReadersProofs.v — invariants of the WithTxReadClosers machine (Model/TxReaders.v) *)
From Verif Require Import Bytes Codec TxReaders.
From Coq Require Import ZifyBool ZifyN ZifyNat.

(* ---- vocabulary ---- *)
Fixpoint close_indices (ops : list rop) : list nat :=
  match ops with
  | [] => []
  | Close i :: t => i :: close_indices t
  | Read _ :: t => close_indices t
  end.
Definition n_closes (ops : list rop) : nat := length (close_indices ops).
Definition valid (n : nat) (ops : list rop) : Prop := forall op, In op ops -> op_index op < n.
Fixpoint count_true (l : list bool) : nat :=
  match l with [] => 0 | b :: t => (if b then 1 else 0) + count_true t end.

Lemma close_indices_app a b : close_indices (a ++ b) = close_indices a ++ close_indices b.
Proof. induction a as [|[i|i] a IH]; cbn; [reflexivity | exact IH | rewrite IH; reflexivity]. Qed.

Lemma In_close_indices i ops : In i (close_indices ops) <-> In (Close i) ops.
Proof.
  induction ops as [|[j|j] t IH]; cbn; [tauto| |].
  - rewrite IH. split; [auto | intros [H|H]; [discriminate | exact H]].
  - rewrite IH. split; intros [H|H]; [left; congruence | right; exact H | left; congruence | right; exact H].
Qed.

Lemma valid_app n a b : valid n (a ++ b) <-> valid n a /\ valid n b.
Proof.
  unfold valid. split.
  - intros H. split; intros op Hin; apply H, in_or_app; auto.
  - intros [Ha Hb] op Hin. apply in_app_or in Hin. destruct Hin; auto.
Qed.

Lemma valid_close_indices n ops : valid n ops -> forall i, In i (close_indices ops) -> i < n.
Proof. intros Hv i Hi. apply In_close_indices in Hi. exact (Hv _ Hi). Qed.

(* ---- list updates ---- *)
Lemma length_bump l i : length (bump l i) = length l.
Proof. revert i; induction l as [|x l IH]; intros [|i]; cbn; auto. Qed.
Lemma nth_bump_same l i : i < length l -> nth i (bump l i) 0 = S (nth i l 0).
Proof. revert i; induction l as [|x l IH]; intros [|i] H; cbn in *; try lia; auto. apply IH; lia. Qed.
Lemma nth_bump_other l i j : i <> j -> nth j (bump l i) 0 = nth j l 0.
Proof. revert i j; induction l as [|x l IH]; intros [|i] [|j] H; cbn; auto; try congruence. Qed.

Lemma length_setb l i : length (setb l i) = length l.
Proof. revert i; induction l as [|x l IH]; intros [|i]; cbn; auto. Qed.
Lemma nth_setb_same l i : i < length l -> nth i (setb l i) false = true.
Proof. revert i; induction l as [|x l IH]; intros [|i] H; cbn in *; try lia; auto. apply IH; lia. Qed.
Lemma nth_setb_other l i j : i <> j -> nth j (setb l i) false = nth j l false.
Proof. revert i j; induction l as [|x l IH]; intros [|i] [|j] H; cbn; auto; try congruence. Qed.
Lemma count_true_setb l i : i < length l ->
  count_true (setb l i) = if nth i l false then count_true l else S (count_true l).
Proof.
  revert i; induction l as [|x l IH]; intros [|i] H; cbn in *; try lia.
  - destruct x; reflexivity.
  - rewrite IH by lia. destruct (nth i l false); lia.
Qed.
Lemma count_true_le l : count_true l <= length l.
Proof. induction l as [|[|] l IH]; cbn; lia. Qed.
Lemma count_true_full l : count_true l = length l <-> forall i, i < length l -> nth i l false = true.
Proof.
  induction l as [|x l IH]; cbn.
  - split; [intros _ i H; lia | reflexivity].
  - pose proof (count_true_le l) as Hle. split.
    + intros H. destruct x; [|lia]. intros [|i] Hi; [reflexivity|]. apply IH; lia.
    + intros H. pose proof (H 0 ltac:(lia)) as H0. cbn in H0. subst x.
      assert (count_true l = length l) as ->; [|lia].
      apply IH. intros i Hi. apply (H (S i)). lia.
Qed.
Lemma count_true_repeat n : count_true (repeat false n) = 0.
Proof. induction n; cbn; auto. Qed.
Lemma nth_repeat {A} (a d : A) n i : i < n -> nth i (repeat a n) d = a.
Proof. revert i; induction n; intros [|i] H; cbn; try lia; auto. apply IHn; lia. Qed.

(* ---- running ---- *)
Lemma run_ops_app f s a b :
  run_ops f s (a ++ b) =
  let '(s1, r1) := run_ops f s a in let '(s2, r2) := run_ops f s1 b in (s2, r1 ++ r2).
Proof.
  revert s; induction a as [|op a IH]; intros s; cbn.
  - destruct (run_ops f s b); reflexivity.
  - destruct (step f s op) as [s1 r]. rewrite IH.
    destruct (run_ops f s1 a) as [s2 r1]. destruct (run_ops f s2 b) as [s3 r2]. reflexivity.
Qed.

Lemma final_snoc f n ops op : final f n (ops ++ [op]) = fst (step f (final f n ops) op).
Proof.
  unfold final. rewrite run_ops_app. destruct (run_ops f (init n) ops) as [s1 r1]. cbn.
  destruct (step f s1 op); reflexivity.
Qed.

(* the printed trace is exactly "result of the next op in the state reached by the prefix" *)
Lemma run_ops_cons_fst f s o X : fst (run_ops f s (o :: X)) = fst (run_ops f (fst (step f s o)) X).
Proof. cbn. destruct (step f s o) as [s1 r]. cbn. destruct (run_ops f s1 X); reflexivity. Qed.
Lemma run_ops_cons_snd f s o X :
  snd (run_ops f s (o :: X)) = (snd (step f s o), fst (step f s o)) :: snd (run_ops f (fst (step f s o)) X).
Proof. cbn. destruct (step f s o) as [s1 r]. cbn. destruct (run_ops f s1 X); reflexivity. Qed.

Lemma trace_stepwise_from f s ops k op :
  nth_error ops k = Some op ->
  nth_error (snd (run_ops f s ops)) k =
    Some (snd (step f (fst (run_ops f s (firstn k ops))) op), fst (run_ops f s (firstn (S k) ops))).
Proof.
  revert k s. induction ops as [|o ops IH]; intros k s H; [destruct k; discriminate|].
  destruct k as [|k].
  - cbn in H. inversion H; subst. rewrite run_ops_cons_snd. cbn [nth_error firstn].
    rewrite run_ops_cons_fst. reflexivity.
  - cbn [nth_error] in H. rewrite run_ops_cons_snd. cbn [nth_error].
    rewrite (IH k _ H). cbn [firstn]. rewrite !run_ops_cons_fst. reflexivity.
Qed.

Lemma trace_stepwise f n ops k op :
  nth_error ops k = Some op ->
  nth_error (snd (run_ops f (init n) ops)) k =
    Some (snd (step f (final f n (firstn k ops)) op), final f n (firstn (S k) ops)).
Proof. apply trace_stepwise_from. Qed.

(* ---- inner readers: one inner.Close per wrapper Close, in both variants ---- *)
Lemma step_inner_close f s i :
  inner_closes (fst (step f s (Close i))) = bump (inner_closes s) i.
Proof.
  cbn. destruct (f && nth i (hook_done s) false); [reflexivity|].
  unfold close_hook; cbn. destruct (_ =? 0)%Z; reflexivity.
Qed.

Lemma inner_inv f n ops : valid n ops ->
  length (inner_closes (final f n ops)) = n /\
  forall i, i < n -> nth i (inner_closes (final f n ops)) 0 = count_occ Nat.eq_dec (close_indices ops) i.
Proof.
  induction ops as [|op ops IH] using rev_ind; intros Hv.
  - unfold final; cbn. rewrite repeat_length. split; [reflexivity|]. intros i Hi. apply nth_repeat; exact Hi.
  - apply valid_app in Hv. destruct Hv as [Hv1 Hv2]. destruct (IH Hv1) as [IHl IHn].
    rewrite final_snoc, close_indices_app. destruct op as [j|j].
    + cbn. rewrite app_nil_r. split; assumption.
    + rewrite step_inner_close, length_bump. split; [exact IHl|]. intros i Hi.
      cbn [close_indices]. rewrite count_occ_app. cbn [count_occ].
      assert (j < n) as Hj by (apply (Hv2 (Close j)); left; reflexivity).
      destruct (Nat.eq_dec j i) as [->|Hne].
      * rewrite nth_bump_same by lia. rewrite IHn by exact Hi. lia.
      * rewrite nth_bump_other by exact Hne. rewrite IHn by exact Hi. lia.
Qed.

Lemma read_result f n ops i : valid n ops -> i < n ->
  snd (step f (final f n ops) (Read i)) =
    if in_dec Nat.eq_dec i (close_indices ops) then REof
    else if tx_done (final f n ops) then RTxDone else ROk.
Proof.
  intros Hv Hi. destruct (inner_inv f n ops Hv) as [_ Hn]. cbn. rewrite (Hn i Hi).
  destruct (in_dec Nat.eq_dec i (close_indices ops)) as [Hin|Hnin].
  - apply (count_occ_In Nat.eq_dec) in Hin.
    destruct (count_occ Nat.eq_dec (close_indices ops) i) eqn:E; [lia | reflexivity].
  - apply (count_occ_not_In Nat.eq_dec) in Hnin. rewrite Hnin. reflexivity.
Qed.

(* ---- the code as it is: the n-th Close (of whatever reader) releases the transaction ---- *)
Definition inv_u (n : nat) (ops : list rop) (s : st) : Prop :=
  remaining s = (Z.of_nat n - Z.of_nat (n_closes ops))%Z /\
  tx_done s = (n <=? n_closes ops) /\
  rb_hooks s = (if n <=? n_closes ops then 1 else 0) /\
  rb_calls s = (if n <=? n_closes ops then 1 else 0).

Lemma inv_u_final n ops : 0 < n -> inv_u n ops (final false n ops).
Proof.
  intros Hn. induction ops as [|op ops IH] using rev_ind.
  - unfold final, inv_u, n_closes; cbn. destruct n; [lia|]. cbn. repeat split; lia.
  - rewrite final_snoc. unfold inv_u, n_closes in *. rewrite close_indices_app, app_length.
    destruct IH as (Hr & Hd & Hh & Hc). destruct op as [j|j].
    + cbn. rewrite Nat.add_0_r. repeat split; assumption.
    + cbn [close_indices length step andb fst]. unfold close_hook. cbn [remaining tx_done rb_hooks rb_calls].
      set (c := length (close_indices ops)) in *.
      destruct (remaining (final false n ops) - 1 =? 0)%Z eqn:E.
      * assert (c + 1 = n) by lia. unfold rollback; cbn [fst remaining tx_done rb_hooks rb_calls].
        rewrite Hd, Hh, Hc.
        replace (n <=? c) with false by (symmetry; apply Nat.leb_gt; lia).
        replace (n <=? c + 1) with true by (symmetry; apply Nat.leb_le; lia).
        repeat split; lia.
      * cbn [fst remaining tx_done rb_hooks rb_calls]. rewrite Hd, Hh, Hc.
        assert (c + 1 <> n) by lia.
        destruct (n <=? c) eqn:E1; destruct (n <=? c + 1) eqn:E2; repeat split; lia.
Qed.

Lemma close_result_u n ops i : 0 < n -> snd (step false (final false n ops) (Close i)) = ROk.
Proof.
  intros Hn. destruct (inv_u_final n ops Hn) as (Hr & Hd & _).
  cbn [step andb]. unfold close_hook. cbn [remaining tx_done].
  destruct (_ =? 0)%Z eqn:E; [|reflexivity].
  unfold rollback; cbn [snd tx_done]. rewrite Hd.
  replace (n <=? n_closes ops) with false; [reflexivity|]. symmetry; apply Nat.leb_gt. lia.
Qed.

(* pigeonhole: without repeated closes, n closes of readers < n are closes of all of them *)
Lemma all_closed_many_closes n ops :
  (forall i, i < n -> In (Close i) ops) -> n <= n_closes ops.
Proof.
  intros H. unfold n_closes. rewrite <- (seq_length n 0).
  apply NoDup_incl_length; [apply seq_NoDup|].
  intros i Hi. apply in_seq in Hi. apply In_close_indices, H. lia.
Qed.

Lemma nodup_many_closes_all_closed n ops :
  valid n ops -> NoDup (close_indices ops) -> n <= n_closes ops -> forall i, i < n -> In (Close i) ops.
Proof.
  intros Hv Hnd Hle i Hi. apply In_close_indices.
  assert (incl (seq 0 n) (close_indices ops)) as Hincl.
  { apply NoDup_length_incl; [exact Hnd | rewrite seq_length; exact Hle |].
    intros j Hj. apply in_seq. pose proof (valid_close_indices n ops Hv j Hj). lia. }
  apply Hincl, in_seq. lia.
Qed.

(* ---- the repaired code: each reader decrements at most once ---- *)
Definition inv_f (n : nat) (ops : list rop) (s : st) : Prop :=
  length (hook_done s) = n /\
  (forall i, i < n -> (nth i (hook_done s) false = true <-> In (Close i) ops)) /\
  remaining s = (Z.of_nat n - Z.of_nat (count_true (hook_done s)))%Z /\
  tx_done s = (count_true (hook_done s) =? n) /\
  rb_hooks s = (if tx_done s then 1 else 0) /\
  rb_calls s = (if tx_done s then 1 else 0).

Lemma inv_f_final n ops : 0 < n -> valid n ops -> inv_f n ops (final true n ops).
Proof.
  intros Hn. induction ops as [|op ops IH] using rev_ind; intros Hv.
  - unfold final, inv_f; cbn. rewrite repeat_length, count_true_repeat.
    split; [reflexivity|]. split.
    { intros i Hi. rewrite nth_repeat by exact Hi. split; [discriminate | intros []]. }
    replace (0 =? n) with false by (symmetry; apply Nat.eqb_neq; lia). repeat split; lia.
  - apply valid_app in Hv. destruct Hv as [Hv1 Hv2]. specialize (IH Hv1).
    rewrite final_snoc. destruct IH as (Hl & Hm & Hr & Hd & Hh & Hc).
    destruct op as [j|j].
    + cbn [step fst]. unfold inv_f. split; [exact Hl|]. split.
      { intros i Hi. rewrite (Hm i Hi). split; intros Hx.
        - apply in_or_app; left; exact Hx.
        - apply in_app_or in Hx. destruct Hx as [Hx|[Hx|[]]]; [exact Hx | discriminate]. }
      repeat split; assumption.
    + assert (j < n) as Hj by (apply (Hv2 (Close j)); left; reflexivity).
      set (s := final true n ops) in *.
      assert (forall i, i < n -> nth i (setb (hook_done s) j) false = true <-> In (Close i) (ops ++ [Close j])) as Hm'.
      { intros i Hi. destruct (Nat.eq_dec j i) as [->|Hne].
        - rewrite nth_setb_same by lia. split; [intros _; apply in_or_app; right; left; reflexivity | reflexivity].
        - rewrite nth_setb_other by exact Hne. rewrite (Hm i Hi). split.
          + intros H; apply in_or_app; left; exact H.
          + intros H. apply in_app_or in H. destruct H as [H|[H|[]]]; [exact H | congruence]. }
      pose proof (count_true_le (hook_done s)) as Hle.
      pose proof (count_true_setb (hook_done s) j ltac:(lia)) as Hcs.
      cbn [step andb]. destruct (nth j (hook_done s) false) eqn:Ea.
      * (* repeated Close: no decrement *)
        cbn [fst]. unfold inv_f; cbn [hook_done remaining tx_done rb_hooks rb_calls].
        rewrite length_setb, Hcs. repeat split; try assumption; apply Hm'; assumption.
      * unfold close_hook. cbn [remaining tx_done rb_hooks rb_calls inner_closes hook_done].
        destruct (remaining s - 1 =? 0)%Z eqn:E.
        -- unfold rollback. cbn [fst]. unfold inv_f; cbn [hook_done remaining tx_done rb_hooks rb_calls].
           rewrite length_setb, Hcs.
           assert (tx_done s = false) as Hd0 by (rewrite Hd; apply Nat.eqb_neq; lia).
           rewrite Hd0 in *. rewrite Hh, Hc.
           replace (S (count_true (hook_done s)) =? n) with true by (symmetry; apply Nat.eqb_eq; lia).
           repeat split; try lia; try apply Hm'; assumption.
        -- cbn [fst]. unfold inv_f; cbn [hook_done remaining tx_done rb_hooks rb_calls].
           rewrite length_setb, Hcs.
           assert (tx_done s = false) as Hd0.
           { rewrite Hd. apply Nat.eqb_neq. intros Heq.
             assert (forall i, i < length (hook_done s) -> nth i (hook_done s) false = true) as Hall
               by (apply count_true_full; lia).
             rewrite (Hall j) in Ea by lia. discriminate. }
           rewrite Hd0 in *. rewrite Hh, Hc.
           replace (S (count_true (hook_done s)) =? n) with false by (symmetry; apply Nat.eqb_neq; lia).
           repeat split; try lia; try apply Hm'; assumption.
Qed.

Lemma done_iff_all_closed_f n ops : 0 < n -> valid n ops ->
  (tx_done (final true n ops) = true <-> forall i, i < n -> In (Close i) ops).
Proof.
  intros Hn Hv. destruct (inv_f_final n ops Hn Hv) as (Hl & Hm & _ & Hd & _).
  rewrite Hd, Nat.eqb_eq. split.
  - intros H. assert (count_true (hook_done (final true n ops)) = length (hook_done (final true n ops))) as H0 by lia.
    rewrite count_true_full in H0. intros i Hi. apply (Hm i Hi), H0. lia.
  - intros H. rewrite <- Hl at 2. apply count_true_full. intros i Hi. apply (Hm i); [lia|]. apply H; lia.
Qed.

Lemma close_result_f n ops i : 0 < n -> valid n ops -> i < n ->
  snd (step true (final true n ops) (Close i)) = ROk.
Proof.
  intros Hn Hv Hi. destruct (inv_f_final n ops Hn Hv) as (Hl & Hm & Hr & Hd & _).
  set (s := final true n ops) in *.
  cbn [step andb]. destruct (nth i (hook_done s) false) eqn:Ea; [reflexivity|].
  unfold close_hook. cbn [remaining tx_done]. destruct (_ =? 0)%Z eqn:E; [|reflexivity].
  unfold rollback; cbn [snd tx_done]. rewrite Hd.
  pose proof (count_true_le (hook_done s)).
  replace (count_true (hook_done s) =? n) with false; [reflexivity|]. symmetry; apply Nat.eqb_neq. lia.
Qed.

(* ---- the statements of Properties/C36.v ---- *)
Definition full_stmt (fixed : bool) : Prop :=
  forall n ops, 0 < n -> (forall op, In op ops -> op_index op < n) ->
  let s := final fixed n ops in
  (tx_done s = true <-> forall i, i < n -> In (Close i) ops) /\
  rb_hooks s = (if tx_done s then 1 else 0) /\ rb_calls s <= 1 /\
  (forall i, i < n -> ~ In (Close i) ops -> snd (step fixed s (Read i)) = ROk) /\
  (forall i, i < n -> snd (step fixed s (Close i)) = ROk).

Lemma release_at_nth_close_stmt : forall n ops, 0 < n -> (forall op, In op ops -> op_index op < n) ->
  let s := final false n ops in
  (tx_done s = true <-> n <= n_closes ops) /\
  rb_hooks s = (if tx_done s then 1 else 0) /\ rb_calls s <= 1 /\
  ((forall i, i < n -> In (Close i) ops) -> tx_done s = true) /\
  (forall i, i < n -> snd (step false s (Read i)) =
       if in_dec Nat.eq_dec i (close_indices ops) then REof
       else if n <=? n_closes ops then RTxDone else ROk) /\
  (forall i, snd (step false s (Close i)) = ROk).
Proof.
  intros n ops Hn Hv s. destruct (inv_u_final n ops Hn) as (Hr & Hd & Hh & Hc). fold s in Hr, Hd, Hh, Hc.
  split; [rewrite Hd; apply Nat.leb_le|]. split; [rewrite Hh, Hd; reflexivity|].
  split; [rewrite Hc; destruct (n <=? n_closes ops); lia|].
  split; [intros Hall; rewrite Hd; apply Nat.leb_le, all_closed_many_closes; exact Hall|].
  split; [intros i Hi; unfold s; rewrite (read_result false n ops i Hv Hi); fold s; rewrite Hd; reflexivity|].
  intros i. apply close_result_u; exact Hn.
Qed.

Lemma partial_stmt : forall n ops, 0 < n -> (forall op, In op ops -> op_index op < n) ->
  NoDup (close_indices ops) ->
  let s := final false n ops in
  (tx_done s = true <-> forall i, i < n -> In (Close i) ops) /\
  rb_hooks s = (if tx_done s then 1 else 0) /\ rb_calls s <= 1 /\
  (forall i, i < n -> ~ In (Close i) ops -> snd (step false s (Read i)) = ROk) /\
  (forall i, i < n -> snd (step false s (Close i)) = ROk).
Proof.
  intros n ops Hn Hv Hnd s.
  destruct (release_at_nth_close_stmt n ops Hn Hv) as (Hd & Hh & Hc & Hall & Hread & Hclose). fold s in Hd, Hh, Hc, Hall, Hread, Hclose.
  assert (tx_done s = true <-> forall i, i < n -> In (Close i) ops) as Hiff.
  { split; [|exact Hall]. intros Ht. apply nodup_many_closes_all_closed; [exact Hv | exact Hnd | apply Hd; exact Ht]. }
  split; [exact Hiff|]. split; [exact Hh|]. split; [exact Hc|]. split; [|intros i _; apply Hclose].
  intros i Hi Hnc. rewrite (Hread i Hi).
  destruct (in_dec Nat.eq_dec i (close_indices ops)) as [Hin|_]; [apply In_close_indices in Hin; contradiction|].
  destruct (n <=? n_closes ops) eqn:E; [|reflexivity]. exfalso. apply Hnc.
  apply Hiff; [apply Hd, Nat.leb_le; exact E | exact Hi].
Qed.

Lemma early_release_needs_double_close_stmt : forall n ops i,
  0 < n -> (forall op, In op ops -> op_index op < n) ->
  tx_done (final false n ops) = true -> i < n -> ~ In (Close i) ops ->
  ~ NoDup (close_indices ops).
Proof.
  intros n ops i Hn Hv Ht Hi Hnc Hnd.
  destruct (partial_stmt n ops Hn Hv Hnd) as (Hiff & _). apply Hnc, Hiff; assumption.
Qed.

Lemma fixed_full_stmt : full_stmt true.
Proof.
  intros n ops Hn Hv s.
  destruct (inv_f_final n ops Hn Hv) as (Hl & Hm & Hr & Hd & Hh & Hc). fold s in Hl, Hm, Hr, Hd, Hh, Hc.
  pose proof (done_iff_all_closed_f n ops Hn Hv) as Hiff. fold s in Hiff.
  split; [exact Hiff|]. split; [exact Hh|]. split; [rewrite Hc; destruct (tx_done s); lia|].
  split; [|intros i Hi; apply close_result_f; assumption].
  intros i Hi Hnc. unfold s. rewrite (read_result true n ops i Hv Hi). fold s.
  destruct (in_dec Nat.eq_dec i (close_indices ops)) as [Hin|_]; [apply In_close_indices in Hin; contradiction|].
  destruct (tx_done s) eqn:E; [|reflexivity]. exfalso. apply Hnc. apply Hiff; [reflexivity | exact Hi].
Qed.

Lemma no_readers_stmt : forall n,
  with_tx_read_closers BeginErr n = NoTx /\
  (exists s, with_tx_read_closers FnErr n = ReturnedErr s /\ tx_done s = true /\ rb_hooks s = 1 /\ rb_calls s = 1) /\
  (exists s, with_tx_read_closers SetupOk 0 = Started s /\ tx_done s = true /\ rb_hooks s = 1 /\ rb_calls s = 1) /\
  (0 < n -> with_tx_read_closers SetupOk n = Started (init n) /\ tx_done (init n) = false /\ rb_hooks (init n) = 0).
Proof.
  intros n. split; [reflexivity|]. split; [eexists; repeat split|]. split; [eexists; repeat split|].
  intros Hn. destruct n; [lia|]. repeat split.
Qed.

Lemma full_refuted_stmt : ~ full_stmt false.
Proof.
  intros H. destruct (H 2 [Close 0; Close 0] ltac:(lia)) as (H1 & _).
  { intros op [<-|[<-|[]]]; cbn; lia. }
  assert (In (Close 1) [Close 0; Close 0]) as Hin by (apply H1; [reflexivity | lia]).
  destruct Hin as [E|[E|[]]]; discriminate.
Qed.

Lemma full_refuted_witness_stmt :
  let s := final false 2 [Close 0; Close 0] in
  tx_done s = true /\ rb_hooks s = 1 /\ ~ In (Close 1) [Close 0; Close 0] /\
  snd (step false s (Read 1)) = RTxDone /\
  results false 2 [Close 0; Close 0; Read 1] = [ROk; ROk; RTxDone].
Proof.
  cbn. repeat split; try reflexivity. intros [E|[E|[]]]; discriminate.
Qed.
