(* Proofs/MetaNewest2.v — M-META, "latest is newest" (C02), layer 2: PutObject / CopyObject (meta_put). *)
From Verif Require Import Bytes Codec Md5 Meta MetaBasics MetaRows1 MetaRows2 MetaRows3 MetaRows4 MetaRows5 MetaRows6.
From Verif Require Import MetaNewest1.
From Coq Require Import ZifyBool ZifyN ZifyNat.

Lemma filter_snoc {A} (f : A -> bool) l c : f c = true -> filter f (l ++ [c]) = filter f l ++ [c].
Proof. intros H. rewrite filter_app. cbn. rewrite H. reflexivity. Qed.
Lemma filter_repl (f : orow -> bool) c' l :
  (forall x, In x l -> o_id x = o_id c' -> f x = f c') -> filter f (map (repl c') l) = map (repl c') (filter f l).
Proof.
  intros H. induction l as [|x l IH]; cbn; [reflexivity|].
  rewrite IH by (intros y Hy; apply H; right; exact Hy). unfold repl at 1 3.
  destruct (N.eqb_spec (o_id x) (o_id c')) as [E|E].
  - rewrite <- (H x (or_introl eq_refl) E). destruct (f x); cbn; [unfold repl; rewrite (proj2 (N.eqb_eq _ _) E)|]; reflexivity.
  - destruct (f x); cbn; [unfold repl; rewrite (proj2 (N.eqb_neq _ _) E)|]; reflexivity.
Qed.

Section Key.
Variables (b k : bytes).
Notation K := (K b k).
Notation Q := (Q b k).
Notation isK := (isK b k).

Lemma K_ext s s' : objs s' = objs s -> K s' = K s.
Proof. intros E. unfold MetaNewest1.K. rewrite (cores_ext s s' E). reflexivity. Qed.

(* the null version, if there is one, is the current version *)
Definition null_current (s : mstate) : bool :=
  match find_null s b k with
  | None => true
  | Some nr => match find_latest s b k with Some l => N.eqb (o_id l) (o_id nr) | None => false end
  end.

Ltac ids_chain := repeat first [ assumption | apply IdsOk_update ].
Ltac in_found :=
  match goal with
  | H : find_latest _ _ _ = Some ?r |- In ?r _ => exact (proj1 (find_latest_some _ _ _ _ H))
  | H : find_null _ _ _ = Some ?r |- In ?r _ => exact (proj1 (find_null_some _ _ _ _ H))
  end.
Ltac cores_norm :=
  repeat match goal with
  | |- context[cores (set_latest ?s ?r ?l)] => rewrite (cores_set_latest_in s r l) by (first [solve [ids_chain] | in_found])
  end.

Lemma cores_ids_unique S x x' : IdsOk S -> In x (cores S) -> In x' (cores S) -> o_id x = o_id x' -> x = x'.
Proof.
  intros I H H'. apply in_map_iff in H. apply in_map_iff in H'. destruct H as [r [<- Hr]], H' as [r' [<- Hr']].
  rewrite !core_id. intros E.
  assert (r = r') as -> by (eapply NoDup_map_inj; [exact (proj1 I) | exact Hr | exact Hr' | exact E]). reflexivity.
Qed.

Lemma isK_true r : isK r = true <-> on_key b k r = true /\ completed r = true.
Proof. unfold MetaNewest1.isK. apply andb_true_iff. Qed.

Lemma null_current_latest S nr :
  unique_ok S = true -> null_current S = true -> In (core nr) (cores S) -> isK nr = true -> o_vid nr = Some VNull ->
  exists l, find_latest S b k = Some l /\ o_id l = o_id nr.
Proof.
  intros U Hnc Hc Hk Hv. apply in_map_iff in Hc. destruct Hc as [y [Ey Hy]].
  destruct (core_fields _ _ Ey) as (Eid & Eb & Ek & Ev & _ & Eu & _).
  apply isK_true in Hk. destruct Hk as [Kn Cn].
  assert (F : find_null S b k = Some y).
  { apply find_version_unique; try assumption.
    - apply on_key_eq. apply on_key_eq in Kn. destruct Kn. split; congruence.
    - unfold completed in *. rewrite Eu. exact Cn.
    - congruence. }
  unfold null_current in Hnc. rewrite F in Hnc. destruct (find_latest S b k) as [l|]; [|discriminate].
  apply N.eqb_eq in Hnc. exists l. split; [reflexivity | congruence].
Qed.

(* closing lemma: a fresh row, inserted now, is the current version afterwards *)
Lemma insert_close i S S2 s' mk L :
  Q i S -> cores S2 = L -> (forall x, In x (filter isK L) -> In x (K S)) ->
  (i * 1000 <= clock S2 < i * 1000 + 900)%N ->
  (forall id now, isK (mk id now) = true /\ o_created (mk id now) = now /\ o_written (mk id now) = now /\
                  o_latest (mk id now) = true) ->
  objs s' = objs (snd (insert_row S2 mk)) -> unique_ok s' = true -> Q (i + 1) s'.
Proof.
  intros HQ Ec Sub Ck Hmk Eo U'. set (x := mk (next_id S2) (clock S2)).
  destruct (Hmk (next_id S2) (clock S2)) as (Kx & Cx & Wx & Lx). fold x in Kx, Cx, Wx, Lx.
  apply (Q_snoc b k i S s' (filter isK L) (core x)); try assumption.
  - unfold MetaNewest1.K. rewrite (cores_ext _ s' Eo), cores_insert, Ec. apply filter_snoc. exact Kx.
  - cbn [core with_row o_created]. rewrite Cx. lia.
  - cbn [core with_row o_written]. rewrite Wx. lia.
  - intros r Hr. apply isK_true in Kx. destruct Kx as [Kx Cpx].
    rewrite (find_latest_unique s' b k x U') in Hr; try assumption; [inversion Hr; reflexivity|].
    rewrite Eo, insert_row_objs. apply in_or_app. right. left. reflexivity.
Qed.

(* closing lemma: the current row is rewritten in place, now *)
Lemma rewrite_close i S S2 s' r' nr :
  IdsOk S -> Q i S -> cores S2 = cores S -> (i * 1000 <= clock S2 < i * 1000 + 900)%N ->
  In (core nr) (cores S) -> isK nr = true -> (exists l, find_latest S b k = Some l /\ o_id l = o_id nr) ->
  o_id r' = o_id nr -> o_created r' = o_created nr -> o_written r' = clock S2 ->
  on_key b k r' = true -> o_upload r' = None -> o_latest r' = true ->
  objs s' = objs (update_row S2 r') -> unique_ok s' = true -> Q (i + 1) s'.
Proof.
  intros I HQ Ec Ck Hc Kn [l [Hl El]] Eid Ecr Ew Kr Ur Lr Eo U'.
  assert (Kr' : isK r' = true) by (apply isK_true; split; [exact Kr | unfold completed; rewrite Ur; reflexivity]).
  apply (Q_rewrite b k i S s' (core nr) (core r') l);
    [exact I | | | exact Eid | exact Ecr | | exact Hl | exact El | | exact HQ].
  - unfold MetaNewest1.K. rewrite (cores_ext _ s' Eo), cores_update_row, Ec. apply filter_repl.
    intros x Hx Ex. rewrite isK_core, Kr'. rewrite core_id, Eid in Ex.
    rewrite (cores_ids_unique S x (core nr) I Hx Hc Ex). exact Kn.
  - apply filter_In. split; [exact Hc | exact Kn].
  - cbn [core with_row o_written]. rewrite Ew. lia.
  - intros r Hr. cbn [core with_row o_written].
    assert (Hin : In (o_id r') (map o_id (objs S2))).
    { rewrite Eid. change (map o_id (objs S2)) with (map o_id (objs S2)).
      replace (map o_id (objs S2)) with (map o_id (cores S2)) by (unfold cores; rewrite map_map; reflexivity).
      rewrite Ec. change (o_id nr) with (o_id (core nr)). apply in_map. exact Hc. }
    destruct (update_row_in S2 r' Hin) as [lk Hlk].
    rewrite (find_latest_unique s' b k (with_row r' (o_latest r') (clock S2) lk) U') in Hr;
      [inversion Hr; reflexivity | rewrite Eo; exact Hlk | exact Kr | | exact Lr].
    unfold completed. cbn [with_row o_upload]. rewrite Ur. reflexivity.
Qed.

Lemma meta_put_Q i S vn w c v e s' bk :
  IdsOk S -> unique_ok S = true -> clock S = (i * 1000)%N -> Q i S ->
  find_bucket S b = Some bk -> (b_ver bk <> VEnabled -> null_current S = true) ->
  snd (fst (meta_put S vn b k w c)) = RPut v e ->
  objs s' = objs (fst (fst (meta_put S vn b k w c))) -> unique_ok s' = true -> Q (i + 1) s'.
Proof.
  intros I U Ck HQ Hbk Hnc. unfold meta_put. rewrite Hbk. cbv beta zeta.
  repeat dm; cbn [fst snd]; intros H; try discriminate H; intros Eo U'.
  (* fresh row *)
  all: try match type of Eo with context[insert_row ?S2 ?mk] =>
         rewrite save_part_rows_objs in Eo;
         apply (insert_close i S S2 s' mk (cores S) HQ);
         [ cores_norm; reflexivity | tauto
         | rewrite ?clock_set_latest, Ck; lia
         | intros id now; unfold MetaNewest1.isK, on_key, completed, mk_row;
           cbn [o_bucket o_key o_upload o_created o_written o_latest]; rewrite !bytes_eqb_refl; repeat split; reflexivity
         | exact Eo | exact U' ] end.
  (* the null row rewritten in place *)
  all: match type of Eo with context[update_row ?S2 ?r'] =>
         rewrite save_part_rows_objs, remove_parts_of_objs in Eo;
         match goal with Hn : find_null ?S1 _ _ = Some ?nr |- _ =>
           destruct (find_null_some _ _ _ _ Hn) as (Hnr & Knr & Cnr & Vnr);
           assert (Hc : In (core nr) (cores S)) by
             (assert (Hc1 : In (core nr) (cores S1)) by (apply in_map; exact Hnr); revert Hc1; cores_norm; tauto);
           assert (Kn : MetaNewest1.isK b k nr = true) by (apply isK_true; split; assumption);
           apply (rewrite_close i S S2 s' r' nr I HQ);
           [ cores_norm; reflexivity
           | rewrite ?clock_set_latest, Ck; lia
           | exact Hc | exact Kn
           | apply null_current_latest; try assumption; apply Hnc; congruence
           | reflexivity | reflexivity | reflexivity
           | unfold on_key; cbn [o_bucket o_key]; rewrite !bytes_eqb_refl; reflexivity
           | reflexivity | reflexivity | exact Eo | exact U' ] end end.
Qed.
End Key.
