(* Proofs/FieldsProofs.v — lemmas about Model/Fields.v used by Properties/C11.v *)
From Verif Require Import Bytes Codec Fields.
From Coq Require Import ZifyBool ZifyN ZifyNat.

(* ---------------- keys and version lists ---------------- *)
Lemma okey_eqb_eq a b : okey_eqb a b = true <-> a = b.
Proof.
  destruct a as [a1 a2], b as [b1 b2]; unfold okey_eqb; cbn [fst snd].
  rewrite andb_true_iff, !N.eqb_eq. split; [intros [-> ->]; reflexivity | intros E; inversion E; auto].
Qed.
Lemma okey_eqb_refl a : okey_eqb a a = true.
Proof. apply okey_eqb_eq; reflexivity. Qed.
Lemma okey_eqb_neq a b : okey_eqb a b = false <-> a <> b.
Proof.
  split.
  - intros H E. apply okey_eqb_eq in E. congruence.
  - intros H. destruct (okey_eqb a b) eqn:E; [apply okey_eqb_eq in E; contradiction | reflexivity].
Qed.

Lemma versions_of_set_same k vs l : versions_of k (set_versions k vs l) = vs.
Proof.
  induction l as [|[k' vs'] l IH]; cbn [set_versions versions_of].
  - rewrite okey_eqb_refl. reflexivity.
  - destruct (okey_eqb k k') eqn:E; cbn [versions_of]; [rewrite okey_eqb_refl; reflexivity|].
    rewrite E. exact IH.
Qed.
Lemma versions_of_set_other k k' vs l : k' <> k -> versions_of k' (set_versions k vs l) = versions_of k' l.
Proof.
  intros Hn. induction l as [|[k2 vs2] l IH]; cbn [set_versions versions_of].
  - apply okey_eqb_neq in Hn. rewrite Hn. reflexivity.
  - destruct (okey_eqb k k2) eqn:E; cbn [versions_of].
    + apply okey_eqb_eq in E; subst k2. apply okey_eqb_neq in Hn. rewrite Hn. reflexivity.
    + destruct (okey_eqb k' k2); [reflexivity | exact IH].
Qed.

Lemma find_ord_update_same n g vs : find_ord n (update_ord n g vs) = option_map g (find_ord n vs).
Proof.
  induction vs as [|[m f] vs IH]; cbn [update_ord find_ord option_map]; [reflexivity|].
  destruct (n =? m)%N eqn:E; cbn [find_ord]; rewrite E; [reflexivity | exact IH].
Qed.
Lemma find_ord_update_other n n' g vs : n' <> n -> find_ord n' (update_ord n g vs) = find_ord n' vs.
Proof.
  intros Hn. induction vs as [|[m f] vs IH]; cbn [update_ord find_ord]; [reflexivity|].
  destruct (n =? m)%N eqn:E; cbn [find_ord].
  - apply N.eqb_eq in E; subst m. apply N.eqb_neq in Hn. rewrite Hn. reflexivity.
  - destruct (n' =? m)%N; [reflexivity | exact IH].
Qed.

(* ---------------- install ---------------- *)
Lemma find_latest_install s k f : find_version (install s k f) k None = Some f.
Proof.
  unfold install, find_version. destruct (fst k =? 1)%N; cbn [s_objs]; rewrite versions_of_set_same; reflexivity.
Qed.
Lemma find_install_other s k f k' v : k' <> k -> find_version (install s k f) k' v = find_version s k' v.
Proof.
  intros Hn. unfold install, find_version.
  destruct (fst k =? 1)%N; cbn [s_objs]; rewrite versions_of_set_other by exact Hn; reflexivity.
Qed.
(* older versions of the same key in the versioned bucket are untouched by a new version *)
Lemma find_install_older s k f n :
  fst k = 1%N -> n <> s_next s -> find_version (install s k f) k (Some n) = find_version s k (Some n).
Proof.
  intros Hb Hn. unfold install, find_version. rewrite Hb. cbn [N.eqb Pos.eqb s_objs].
  rewrite versions_of_set_same. cbn [find_ord]. apply N.eqb_neq in Hn. rewrite Hn. reflexivity.
Qed.
Lemma install_pending s k f : s_pending (install s k f) = s_pending s.
Proof. unfold install. destruct (fst k =? 1)%N; reflexivity. Qed.
Lemma install_nmc s k f : s_nmc (install s k f) = s_nmc s.
Proof. unfold install. destruct (fst k =? 1)%N; reflexivity. Qed.

(* ---------------- update_version ---------------- *)
Lemma find_update_same s k v g f :
  find_version s k v = Some f -> find_version (update_version s k v g) k v = Some (g f).
Proof.
  unfold find_version, update_version. cbn [s_objs]. rewrite versions_of_set_same.
  destruct v as [n|].
  - destruct (fst k =? 1)%N; [|discriminate]. rewrite find_ord_update_same. intros ->. reflexivity.
  - destruct (versions_of k (s_objs s)) as [|[m f0] r]; [discriminate|]. intros E; inversion E; reflexivity.
Qed.
Lemma find_update_other s k v g k' v' :
  k' <> k -> find_version (update_version s k v g) k' v' = find_version s k' v'.
Proof.
  intros Hn. unfold find_version, update_version. cbn [s_objs].
  rewrite versions_of_set_other by exact Hn. reflexivity.
Qed.

(* ---------------- request fields ---------------- *)
Lemma req_fields_inl hs f :
  req_fields hs = inl f ->
  exists um tags cls, usermeta_parse hs = Some um /\ req_tags hs = Some tags /\ req_class hs = Some cls /\
                      f = req_meta_fields hs um tags cls.
Proof.
  unfold req_fields. destruct (req_tags hs) as [tags|]; [|discriminate].
  destruct (usermeta_parse hs) as [um|]; [|discriminate].
  destruct (req_class hs) as [cls|]; [|discriminate].
  intros E; inversion E. exists um, tags, cls. auto.
Qed.

(* ---------------- pending uploads ---------------- *)
Definition pending_bounded (s : state) : Prop :=
  forall n x, In (n, x) (s_pending s) -> (n < s_nmc s)%N.

Lemma find_pending_In u l x : find_pending u l = Some x -> In (u, x) l.
Proof.
  induction l as [|[n y] l IH]; cbn [find_pending]; [discriminate|].
  destruct (u =? n)%N eqn:E.
  - apply N.eqb_eq in E; subst. intros H; inversion H; left; reflexivity.
  - intros H; right; auto.
Qed.
Lemma In_remove_pending u l e : In e (remove_pending u l) -> In e l.
Proof.
  induction l as [|[n y] l IH]; cbn [remove_pending]; [tauto|].
  destruct (u =? n)%N; [intros H; right; exact H|]. intros [H|H]; [left; exact H | right; auto].
Qed.
Lemma find_pending_remove_other u u' l : u' <> u -> find_pending u' (remove_pending u l) = find_pending u' l.
Proof.
  intros Hn. induction l as [|[n y] l IH]; cbn [remove_pending find_pending]; [reflexivity|].
  destruct (u =? n)%N eqn:E.
  - apply N.eqb_eq in E; subst n. apply N.eqb_neq in Hn. rewrite Hn. reflexivity.
  - cbn [find_pending]. destruct (u' =? n)%N; [reflexivity | exact IH].
Qed.

Lemma step_pending_bounded s o : pending_bounded s -> pending_bounded (fst (step s o)).
Proof.
  intros Hb. destruct o; cbn [step].
  - unfold do_put. destruct (req_fields hs); cbn [fst]; [|exact Hb].
    intros n x. rewrite install_pending, install_nmc. apply Hb.
  - unfold do_create. destruct (req_fields hs); cbn [fst].
    + intros n x [H|H]; cbn [s_nmc]; [inversion H; lia|]. apply Hb in H. lia.
    + intros n x H. cbn in H. apply Hb in H. cbn. lia.
  - unfold do_complete. destruct (find_pending u (s_pending s)) as [[k f]|]; cbn [fst]; [|exact Hb].
    intros n x. rewrite install_pending, install_nmc. cbn [s_pending s_nmc]. intros H.
    apply In_remove_pending in H. apply Hb in H. exact H.
  - unfold do_copy.
    repeat match goal with
           | |- context [if ?c then _ else _] => destruct c
           | |- context [match ?c with _ => _ end] => destruct c
           end; cbn [fst]; try exact Hb;
      intros n x; rewrite install_pending, install_nmc; apply Hb.
  - unfold do_append. destruct (find_version s k None); [destruct (fst k =? 1)%N|]; cbn [fst]; try exact Hb;
      intros n x; rewrite install_pending, install_nmc; apply Hb.
  - unfold do_transition.
    repeat match goal with
           | |- context [if ?c then _ else _] => destruct c
           | |- context [match ?c with _ => _ end] => destruct c
           end; cbn [fst]; exact Hb.
  - unfold do_put_tagging.
    repeat match goal with
           | |- context [if ?c then _ else _] => destruct c
           | |- context [match ?c with _ => _ end] => destruct c
           end; cbn [fst]; exact Hb.
  - unfold do_delete_tagging.
    repeat match goal with
           | |- context [if ?c then _ else _] => destruct c
           | |- context [match ?c with _ => _ end] => destruct c
           end; cbn [fst]; exact Hb.
  - exact Hb.
  - exact Hb.
  - exact Hb.
Qed.

Definition completes (u : N) (o : op) : bool :=
  match o with OComplete u' => (u =? u')%N | _ => false end.

(* a pending upload stays pending, with its create-time fields, under every op that does not complete it *)
Lemma step_keeps_pending s o u x :
  pending_bounded s -> completes u o = false ->
  find_pending u (s_pending s) = Some x -> find_pending u (s_pending (fst (step s o))) = Some x.
Proof.
  intros Hb Hc Hf. destruct o; cbn [step].
  - unfold do_put. destruct (req_fields hs); cbn [fst]; [rewrite install_pending|]; exact Hf.
  - unfold do_create. destruct (req_fields hs); cbn [fst s_pending]; [|exact Hf].
    cbn [find_pending]. destruct (u =? s_nmc s)%N eqn:E; [|exact Hf].
    apply N.eqb_eq in E. apply find_pending_In, Hb in Hf. lia.
  - cbn [completes] in Hc. unfold do_complete.
    destruct (find_pending u0 (s_pending s)) as [[k f]|]; cbn [fst]; [|exact Hf].
    rewrite install_pending. cbn [s_pending]. rewrite find_pending_remove_other; [exact Hf|].
    apply N.eqb_neq in Hc. exact Hc.
  - unfold do_copy.
    repeat match goal with
           | |- context [if ?c then _ else _] => destruct c
           | |- context [match ?c with _ => _ end] => destruct c
           end; cbn [fst]; try rewrite install_pending; exact Hf.
  - unfold do_append. destruct (find_version s k None); [destruct (fst k =? 1)%N|]; cbn [fst];
      try rewrite install_pending; exact Hf.
  - unfold do_transition.
    repeat match goal with
           | |- context [if ?c then _ else _] => destruct c
           | |- context [match ?c with _ => _ end] => destruct c
           end; cbn [fst]; exact Hf.
  - unfold do_put_tagging.
    repeat match goal with
           | |- context [if ?c then _ else _] => destruct c
           | |- context [match ?c with _ => _ end] => destruct c
           end; cbn [fst]; exact Hf.
  - unfold do_delete_tagging.
    repeat match goal with
           | |- context [if ?c then _ else _] => destruct c
           | |- context [match ?c with _ => _ end] => destruct c
           end; cbn [fst]; exact Hf.
  - exact Hf.
  - exact Hf.
  - exact Hf.
Qed.

Lemma run_pending_bounded ops : forall s, pending_bounded s -> pending_bounded (run s ops).
Proof. induction ops as [|o ops IH]; intros s Hb; cbn [run]; [exact Hb|]. apply IH, step_pending_bounded, Hb. Qed.
Lemma init_pending_bounded : pending_bounded init.
Proof. intros n x []. Qed.

Lemma run_keeps_pending ops : forall s u x,
  pending_bounded s -> forallb (fun o => negb (completes u o)) ops = true ->
  find_pending u (s_pending s) = Some x -> find_pending u (s_pending (run s ops)) = Some x.
Proof.
  induction ops as [|o ops IH]; intros s u x Hb Hc Hf; cbn [run]; [exact Hf|].
  cbn [forallb] in Hc. apply andb_true_iff in Hc as [Hc1 Hc2]. apply negb_true_iff in Hc1.
  apply IH; [apply step_pending_bounded, Hb | exact Hc2 | apply step_keeps_pending; assumption].
Qed.

Lemma run_app ops1 : forall s ops2, run s (ops1 ++ ops2) = run (run s ops1) ops2.
Proof. induction ops1 as [|o ops1 IH]; intros s ops2; cbn [run app]; [reflexivity | apply IH]. Qed.
