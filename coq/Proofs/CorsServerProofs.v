(* Proofs/CorsServerProofs.v — the server leg of the CORS model (bucketFromPath + corscache + stored
   configuration): the cache is transparent, so every Origin-bearing request is answered from the
   CURRENT configuration of the bucket its path addresses. *)
From Verif Require Import Bytes Codec Cors CorsProofs.

(* ---- assoc lists ---- *)
Lemma alookup_aremove_same {A} b (l : list (bytes * A)) : alookup b (aremove b l) = None.
Proof.
  induction l as [|[k v] l IH]; cbn; [reflexivity|].
  destruct (bytes_eqb b k) eqn:E; [exact IH|]. cbn. rewrite E. exact IH.
Qed.

Lemma alookup_aremove_other {A} b b' (l : list (bytes * A)) :
  b <> b' -> alookup b (aremove b' l) = alookup b l.
Proof.
  intros N. induction l as [|[k v] l IH]; cbn; [reflexivity|].
  destruct (bytes_eqb b' k) eqn:E.
  - apply bytes_eqb_eq in E. subst k.
    destruct (bytes_eqb b b') eqn:E2; [apply bytes_eqb_eq in E2; contradiction|]. exact IH.
  - cbn. destruct (bytes_eqb b k); [reflexivity|exact IH].
Qed.

(* ---- the specification: no cache at all ---- *)
Definition current_rules (store : list (bytes * option (list rule))) (path : bytes) : list rule :=
  match bucket_from_path path with
  | Some b => rules_of (alookup b store)
  | None => []
  end.

Definition spec_step (store : list (bytes * option (list rule))) (o : sop)
  : list (bytes * option (list rule)) * sout :=
  match o with
  | SCreate b => (match alookup b store with Some _ => store | None => (b, None) :: store end, OAck)
  | SDeleteBucket b => (aremove b store, OAck)
  | SPut b raw =>
      match normalize_rules [] raw with
      | None => (store, OInvalid)
      | Some rs => (match alookup b store with Some _ => (b, Some rs) :: aremove b store | None => store end, OAck)
      end
  | SDel b => (match alookup b store with Some _ => (b, None) :: aremove b store | None => store end, OAck)
  | SReq path q => (store, OResp (cors (current_rules store path) q))
  end.

Fixpoint spec_run (store : list (bytes * option (list rule))) (ops : list sop) : list sout :=
  match ops with
  | [] => []
  | o :: rest => let (st', r) := spec_step store o in r :: spec_run st' rest
  end.

(* ---- cache coherence ---- *)
Definition coh (s : sstate) : Prop :=
  forall b c, alookup b (s_cache s) = Some c -> alookup b (s_store s) = Some c.

Lemma coh_init : coh sinit.
Proof. intros b c H. discriminate H. Qed.

Lemma coh_invalidate_after_store_change s st' b :
  coh s ->
  (forall b', b' <> b -> alookup b' st' = alookup b' (s_store s)) ->
  coh (invalidate {| s_store := st'; s_cache := s_cache s |} b).
Proof.
  intros C O b' c H. cbn in *.
  destruct (bytes_eqb b' b) eqn:E.
  - apply bytes_eqb_eq in E. subst b'. rewrite alookup_aremove_same in H. discriminate H.
  - apply bytes_eqb_neq in E. rewrite alookup_aremove_other in H by exact E.
    rewrite O by exact E. apply C. exact H.
Qed.

Lemma set_config_store s b c :
  s_store (set_config s b c) =
  match alookup b (s_store s) with Some _ => (b, c) :: aremove b (s_store s) | None => s_store s end.
Proof. unfold set_config. destruct (alookup b (s_store s)); reflexivity. Qed.

Lemma set_config_cache s b c : s_cache (set_config s b c) = s_cache s.
Proof. unfold set_config. destruct (alookup b (s_store s)); reflexivity. Qed.

Lemma set_config_other s b c b' :
  b' <> b -> alookup b' (s_store (set_config s b c)) = alookup b' (s_store s).
Proof.
  intros N. rewrite set_config_store. destruct (alookup b (s_store s)); [|reflexivity].
  cbn. destruct (bytes_eqb b' b) eqn:E; [apply bytes_eqb_eq in E; contradiction|].
  apply alookup_aremove_other. exact N.
Qed.

Lemma invalidate_set_config s b c :
  invalidate (set_config s b c) b =
  invalidate {| s_store := s_store (set_config s b c); s_cache := s_cache s |} b.
Proof. unfold invalidate. cbn. rewrite set_config_cache. reflexivity. Qed.

Lemma cached_get_spec s b :
  coh s ->
  let (s', c) := cached_get s b in
  s_store s' = s_store s /\ coh s' /\ c = alookup b (s_store s).
Proof.
  intros C. unfold cached_get, store_get.
  destruct (alookup b (s_cache s)) as [c|] eqn:H.
  - split; [reflexivity|]. split; [exact C|]. symmetry. apply C. exact H.
  - destruct (alookup b (s_store s)) as [c|] eqn:S.
    + split; [reflexivity|]. split; [|reflexivity].
      intros b' c' H'. cbn in *. destruct (bytes_eqb b' b) eqn:E.
      * apply bytes_eqb_eq in E. subst b'. inversion H'. subst c'. exact S.
      * apply C. exact H'.
    + split; [reflexivity|]. split; [exact C|reflexivity].
Qed.

(* one step: same output as the cache-free specification, same store, coherence kept *)
Lemma sstep_refines s o :
  coh s ->
  let (s', r) := sstep s o in
  let (st', r') := spec_step (s_store s) o in
  s_store s' = st' /\ r = r' /\ coh s'.
Proof.
  intros C. destruct o as [b|b|b raw|b|path q]; cbn [sstep spec_step].
  - destruct (alookup b (s_store s)) eqn:E.
    + split; [reflexivity|]. split; [reflexivity|exact C].
    + split; [reflexivity|]. split; [reflexivity|].
      intros b' c H. cbn in *. destruct (bytes_eqb b' b) eqn:E2.
      * apply bytes_eqb_eq in E2. subst b'. apply C in H. congruence.
      * apply C. exact H.
  - split; [reflexivity|]. split; [reflexivity|].
    apply coh_invalidate_after_store_change; [exact C|].
    intros b' N. apply alookup_aremove_other. exact N.
  - destruct (normalize_rules [] raw) as [rs|].
    + split; [unfold invalidate; cbn; apply set_config_store|]. split; [reflexivity|].
      rewrite invalidate_set_config.
      apply coh_invalidate_after_store_change; [exact C|].
      intros b' N. apply set_config_other. exact N.
    + split; [reflexivity|]. split; [reflexivity|exact C].
  - split; [unfold invalidate; cbn; apply set_config_store|]. split; [reflexivity|].
    rewrite invalidate_set_config.
    apply coh_invalidate_after_store_change; [exact C|].
    intros b' N. apply set_config_other. exact N.
  - unfold current_rules.
    destruct (trim_space (q_origin q)) as [|x o] eqn:O.
    + split; [reflexivity|]. split; [|exact C].
      rewrite !no_origin_untouched by exact O. reflexivity.
    + destruct (bucket_from_path path) as [b|].
      * pose proof (cached_get_spec s b C) as G. destruct (cached_get s b) as [s' c].
        destruct G as (G1 & G2 & G3). subst c. split; [exact G1|]. split; [reflexivity|exact G2].
      * split; [reflexivity|]. split; [reflexivity|exact C].
Qed.

Theorem srun_refines s ops : coh s -> srun s ops = spec_run (s_store s) ops.
Proof.
  revert s. induction ops as [|o ops IH]; intros s C; cbn [srun spec_run]; [reflexivity|].
  pose proof (sstep_refines s o C) as R.
  destruct (sstep s o) as [s' r]. destruct (spec_step (s_store s) o) as [st' r'].
  destruct R as (R1 & R2 & R3). subst st' r'. f_equal. apply IH. exact R3.
Qed.

Corollary srun_init_refines ops : srun sinit ops = spec_run [] ops.
Proof. apply (srun_refines sinit ops coh_init). Qed.

(* ---- the property over histories, on the specification ---- *)
(* store reached by a prefix of operations *)
Fixpoint spec_store (store : list (bytes * option (list rule))) (ops : list sop) :=
  match ops with
  | [] => store
  | o :: rest => spec_store (fst (spec_step store o)) rest
  end.

Lemma spec_run_app store pre o post :
  nth_error (spec_run store (pre ++ o :: post)) (length pre) =
  Some (snd (spec_step (spec_store store pre) o)).
Proof.
  revert store. induction pre as [|p pre IH]; intros store; cbn [app spec_run spec_store length].
  - destruct (spec_step store o) as [st' r]. reflexivity.
  - destruct (spec_step store p) as [st' r] eqn:E. cbn [nth_error fst]. apply IH.
Qed.

(* the answer to the request at any position of any history is the middleware's answer under the
   configuration the addressed bucket has at that moment *)
Theorem request_answered_from_current_config pre path q post :
  nth_error (srun sinit (pre ++ SReq path q :: post)) (length pre) =
  Some (OResp (cors (current_rules (spec_store [] pre) path) q)).
Proof. rewrite srun_init_refines, spec_run_app. reflexivity. Qed.

Theorem acao_only_by_current_rule pre path q post r :
  nth_error (srun sinit (pre ++ SReq path q :: post)) (length pre) = Some (OResp r) ->
  (acao r <> None <->
   trim_space (q_origin q) <> [] /\
   exists b rs rl, bucket_from_path path = Some b /\ alookup b (spec_store [] pre) = Some (Some rs) /\
                   In rl rs /\ rule_matches rl q).
Proof.
  rewrite request_answered_from_current_config. intros H. inversion H as [H']. clear H H'.
  rewrite acao_iff_rule. unfold current_rules, some_rule_matches.
  split.
  - intros [O [rl [I M]]]. split; [exact O|].
    destruct (bucket_from_path path) as [b|]; [|destruct I].
    destruct (alookup b (spec_store [] pre)) as [[rs|]|] eqn:L; cbn in I; try destruct I.
    exists b, rs, rl. split; [reflexivity|]. split; [exact L|]. split; assumption.
  - intros [O (b & rs & rl & HB & L & I & M)]. split; [exact O|].
    rewrite HB, L. cbn. exists rl. split; assumption.
Qed.

(* deleting a bucket (or its configuration) ends every grant for it, whatever was cached before *)
Lemma spec_store_delete_bucket pre b :
  alookup b (spec_store [] (pre ++ [SDeleteBucket b])) = None.
Proof.
  assert (G : forall store, alookup b (spec_store store (pre ++ [SDeleteBucket b])) = None).
  { induction pre as [|p pre IH]; intros store; cbn [app spec_store].
    - cbn. apply alookup_aremove_same.
    - apply IH. }
  apply G.
Qed.

Theorem no_grant_after_bucket_delete pre b path q post r :
  bucket_from_path path = Some b ->
  nth_error (srun sinit ((pre ++ [SDeleteBucket b]) ++ SReq path q :: post)) (length (pre ++ [SDeleteBucket b]))
    = Some (OResp r) ->
  acao r = None.
Proof.
  intros HB H. apply acao_only_by_current_rule in H.
  destruct (acao r) as [v|] eqn:A; [|reflexivity].
  assert (N : Some v <> None) by discriminate. apply H in N.
  destruct N as [_ (b' & rs & rl & HB' & L & _)].
  rewrite HB in HB'. inversion HB'. subst b'. rewrite spec_store_delete_bucket in L. discriminate L.
Qed.

(* bucketFromPath: the first path segment after one leading slash, trimmed; never empty *)
Lemma bucket_from_path_nonempty p b : bucket_from_path p = Some b -> b <> [].
Proof.
  unfold bucket_from_path.
  destruct (match p with [] => [] | b0 :: rest => if beqb b0 slash then rest else p end) as [|x t]; [discriminate|].
  destruct (trim_space _) as [|y l]; [discriminate|]. intros H. inversion H. discriminate.
Qed.

(* a virtual-hosted request addresses the bucket named by its Host: for a bucket label without '/' and
   without surrounding blanks, and a request path that is empty or starts with '/', the rewritten path
   resolves to exactly that bucket *)
Lemma bucket_from_path_vhost b p :
  b <> [] -> ~ In slash b -> trim_space b = b ->
  (p = [] \/ exists rest, p = slash :: rest) ->
  bucket_from_path (vhost_path b p) = Some b.
Proof.
  intros NE NS TB HP.
  assert (G1 : bucket_from_path (slash :: b) = Some b).
  { unfold bucket_from_path. replace (beqb slash slash) with true by (symmetry; apply beqb_eq; reflexivity).
    destruct b as [|x b']; [contradiction|].
    destruct (split_first slash (x :: b')) as [[pre suf]|] eqn:S.
    - apply split_first_Some in S. destruct S as [S _]. exfalso. apply NS. rewrite S. apply in_or_app. right. left. reflexivity.
    - rewrite TB. reflexivity. }
  assert (G2 : forall rest, bucket_from_path (slash :: b ++ slash :: rest) = Some b).
  { intros rest. unfold bucket_from_path.
    replace (beqb slash slash) with true by (symmetry; apply beqb_eq; reflexivity).
    destruct (b ++ slash :: rest) as [|y t] eqn:E; [destruct b; discriminate E|]. rewrite <- E.
    assert (S : split_first slash (b ++ slash :: rest) = Some (b, rest)) by (apply split_first_Some; split; [reflexivity|exact NS]).
    rewrite S, TB. destruct b; [contradiction|reflexivity]. }
  destruct HP as [-> | [rest ->]]; [exact G1|].
  unfold vhost_path. destruct rest as [|r0 rest'].
  - replace (beqb slash slash) with true by (symmetry; apply beqb_eq; reflexivity). exact G1.
  - apply G2.
Qed.
