(* Proofs/C28Proofs.v — the canonical request is an injective encoding; acceptance is bound to a signing fact. *)
From Verif Require Import Bytes Codec SigV4 SigV4Spec SigV4EncProofs SigV4HdrProofs SigV4SortProofs SigV4AuthProofs.
From Coq Require Import Permutation.

(* ---- splitting at a delimiter ---- *)
Lemma app_sep_inj (c : byte) a : forall a' b b',
  ~ In c a -> ~ In c a' -> a ++ c :: b = a' ++ c :: b' -> a = a' /\ b = b'.
Proof.
  induction a as [|x a IH]; intros [|y a'] b b' Ha Ha' E; cbn in E.
  - inversion E. auto.
  - inversion E; subst. exfalso. apply Ha'. left. reflexivity.
  - inversion E; subst. exfalso. apply Ha. left. reflexivity.
  - inversion E; subst. destruct (IH a' b b') as [-> ->]; auto.
    + intros H. apply Ha. right. exact H.
    + intros H. apply Ha'. right. exact H.
Qed.

Lemma join_cons2 (s x y : bytes) t : join s (x :: y :: t) = x ++ s ++ join s (y :: t).
Proof. reflexivity. Qed.

Lemma join_inj (c : byte) l : forall l',
  Forall (fun x => x <> [] /\ ~ In c x) l -> Forall (fun x => x <> [] /\ ~ In c x) l' ->
  join [c] l = join [c] l' -> l = l'.
Proof.
  induction l as [|x t IH]; intros [|x' t'] F F' E.
  - reflexivity.
  - exfalso. inversion F' as [|? ? [Hn Hc] Ft]; subst. destruct t' as [|y' t'']; cbn in E.
    + apply Hn. symmetry. exact E.
    + destruct x'; [apply Hn; reflexivity | discriminate].
  - exfalso. inversion F as [|? ? [Hn Hc] Ft]; subst. destruct t as [|y t'']; cbn in E.
    + apply Hn. exact E.
    + destruct x; [apply Hn; reflexivity | discriminate].
  - inversion F as [|? ? [Hn Hc] Ft]; subst. inversion F' as [|? ? [Hn' Hc'] Ft']; subst.
    destruct t as [|y t2]; destruct t' as [|y' t2'].
    + cbn in E. subst. reflexivity.
    + exfalso. rewrite join_cons2 in E. cbn [join app] in E. subst x. apply Hc. apply in_or_app. right. left. reflexivity.
    + exfalso. rewrite join_cons2 in E. cbn [join app] in E. subst x'. apply Hc'. apply in_or_app. right. left. reflexivity.
    + rewrite !join_cons2 in E. cbn [app] in E.
      destruct (app_sep_inj c x x' _ _ Hc Hc' E) as [-> E2]. f_equal. apply IH; assumption.
Qed.

(* ---- bytes produced by the encoders ---- *)
Definition enc_ok (c : byte) : bool := negb (beqb c nl) && negb (beqb c "&"%byte) && negb (beqb c "="%byte).
Lemma chunk_enc_ok ks c : forallb enc_ok (spec_chunk ks c) = true.
Proof. destruct ks; bytecases c. Qed.
Lemma spec_encode_ok ks s : forallb enc_ok (spec_uri_encode ks s) = true.
Proof.
  unfold spec_uri_encode. change (forallb enc_ok (flat_map (spec_chunk ks) s) = true).
  induction s as [|c s IH]; [reflexivity|]. cbn [flat_map]. rewrite forallb_app, chunk_enc_ok, IH. reflexivity.
Qed.
Lemma enc_ok_notin s c : forallb enc_ok s = true -> (c = nl \/ c = "&"%byte \/ c = "="%byte) -> ~ In c s.
Proof.
  intros F Hc Hin. rewrite forallb_forall in F. specialize (F c Hin). unfold enc_ok in F.
  destruct Hc as [-> | [-> | ->]]; vm_compute in F; discriminate.
Qed.

Lemma spec_encode_inj ks a b : spec_uri_encode ks a = spec_uri_encode ks b -> a = b.
Proof.
  intros E. assert (Some a = Some b) as H by (rewrite <- (go_unescape_spec ks a), <- (go_unescape_spec ks b), E; reflexivity).
  inversion H; reflexivity.
Qed.

(* ---- the canonical query string determines the parameter multiset ---- *)
Definition enc_pair (p : bytes * bytes) : bytes * bytes := (uri_encode (fst p), uri_encode (snd p)).

Lemma render_inj p q :
  forallb enc_ok (fst p) = true -> forallb enc_ok (fst q) = true ->
  render_pair "="%byte p = render_pair "="%byte q -> p = q.
Proof.
  intros Hp Hq E. unfold render_pair in E.
  destruct (app_sep_inj "="%byte (fst p) (fst q) (snd p) (snd q)) as [E1 E2]; try assumption.
  - apply enc_ok_notin; auto.
  - apply enc_ok_notin; auto.
  - destruct p, q; cbn in *; subst; reflexivity.
Qed.

Lemma enc_pair_ok p : forallb enc_ok (fst (enc_pair p)) = true /\ forallb enc_ok (snd (enc_pair p)) = true.
Proof. unfold enc_pair; cbn. rewrite !uri_encode_eq_spec. split; apply spec_encode_ok. Qed.

Lemma rendered_ok l :
  Forall (fun p => forallb enc_ok (fst p) = true /\ forallb enc_ok (snd p) = true) l ->
  Forall (fun x => x <> [] /\ ~ In "&"%byte x) (map (render_pair "="%byte) l).
Proof.
  induction 1 as [|p l [H1 H2] _ IH]; cbn; constructor; [|exact IH]. split.
  - unfold render_pair. destruct (fst p); discriminate.
  - unfold render_pair. intros Hin. apply in_app_or in Hin. destruct Hin as [Hin|[Hin|Hin]].
    + revert Hin. apply enc_ok_notin; auto.
    + discriminate.
    + revert Hin. apply enc_ok_notin; auto.
Qed.

Lemma map_inj {X Y : Type} (f : X -> Y) (Hf : forall a b, f a = f b -> a = b) l : forall l', map f l = map f l' -> l = l'.
Proof. induction l as [|x l IH]; intros [|y l'] E; cbn in E; try discriminate; [reflexivity|]. inversion E. f_equal; auto. Qed.

Lemma enc_pair_inj p q : enc_pair p = enc_pair q -> p = q.
Proof.
  unfold enc_pair. rewrite !uri_encode_eq_spec. intros E. inversion E as [[E1 E2]].
  apply spec_encode_inj in E1. apply spec_encode_inj in E2. destruct p, q; cbn in *; subst; reflexivity.
Qed.

Definition pair_ok (p : bytes * bytes) : Prop := forallb enc_ok (fst p) = true /\ forallb enc_ok (snd p) = true.

Lemma rendered_inj s : forall s', Forall pair_ok s -> Forall pair_ok s' ->
  map (render_pair "="%byte) s = map (render_pair "="%byte) s' -> s = s'.
Proof.
  induction s as [|p s IH]; intros [|q s'] F F' E; cbn in E; try discriminate; [reflexivity|].
  inversion E as [[E1 E2]]. inversion F as [|? ? [Hp _] Ft]; subst. inversion F' as [|? ? [Hq _] Ft']; subst.
  f_equal; [apply render_inj; assumption | apply IH; assumption].
Qed.

Lemma sorted_enc_ok l : Forall pair_ok (isort pair_leb (map enc_pair l)).
Proof.
  apply (Permutation_Forall (Permutation_sym (isort_perm pair_leb (map enc_pair l)))).
  apply Forall_forall. intros p Hin. apply in_map_iff in Hin. destruct Hin as [q [<- _]]. apply enc_pair_ok.
Qed.

Lemma canon_query_determines ps ps' :
  canon_query_of_pairs ps = canon_query_of_pairs ps' -> Permutation ps ps'.
Proof.
  unfold canon_query_of_pairs. fold enc_pair. intros E.
  apply (join_inj "&"%byte) in E; try (apply rendered_ok; apply sorted_enc_ok).
  apply rendered_inj in E; try apply sorted_enc_ok.
  assert (P : Permutation (map enc_pair ps) (map enc_pair ps')).
  { rewrite <- (isort_perm pair_leb (map enc_pair ps)), <- (isort_perm pair_leb (map enc_pair ps')). rewrite E. reflexivity. }
  apply Permutation_map_inv in P. destruct P as [l3 [E3 P3]].
  apply (map_inj enc_pair enc_pair_inj) in E3. subst l3. symmetry. exact P3.
Qed.

(* ---- the canonical URI determines the decoded path ---- *)
Lemma canon_uri_body_decode_n n : forall l, length l <= n -> pct_decode (canon_uri_body l) = pct_decode l.
Proof.
  induction n as [|n IH]; intros l Hl.
  - destruct l; [reflexivity | cbn in Hl; lia].
  - destruct l as [|c t]; [reflexivity|].
    assert (Ht : pct_decode (canon_uri_body t) = pct_decode t) by (apply IH; cbn in Hl; lia).
    cbn [canon_uri_body].
    destruct (beqb c "/"%byte) eqn:E1.
    { apply beqb_eq in E1; subst c. cbn [pct_decode]. cbn [beqb]. change (beqb "/" "%") with false. cbn. rewrite Ht. reflexivity. }
    destruct (beqb c "%"%byte) eqn:E2.
    { apply beqb_eq in E2; subst c.
      destruct t as [|a [|b t']].
      - reflexivity.
      - revert Ht. clear. destruct a; vm_compute; reflexivity.
      - destruct (is_hex a && is_hex b) eqn:Eh.
        + assert (Ht' : pct_decode (canon_uri_body t') = pct_decode t') by (apply IH; cbn in Hl; lia).
          change (pct_decode ("%"%byte :: upper_hex_char a :: upper_hex_char b :: canon_uri_body t')
                  = pct_decode ("%"%byte :: a :: b :: t')).
          cbn [pct_decode]. change (beqb "%" "%") with true. cbv iota. rewrite Eh.
          assert (Hu : is_hex (upper_hex_char a) && is_hex (upper_hex_char b) = true /\
                       (16 * unhex (upper_hex_char a) + unhex (upper_hex_char b) = 16 * unhex a + unhex b)%N).
          { revert Eh. clear. destruct a; try discriminate; destruct b; try discriminate; intros _; vm_compute; split; reflexivity. }
          destruct Hu as [-> ->]. rewrite Ht'. reflexivity.
        + change (pct_decode (B"%25" ++ canon_uri_body (a :: b :: t')) = pct_decode ("%"%byte :: a :: b :: t')).
          cbn [app pct_decode]. change (beqb "%" "%") with true. cbv iota.
          change (is_hex "2" && is_hex "5") with true. cbv iota. rewrite Eh.
          change (Nbyte (16 * unhex "2" + unhex "5")) with "%"%byte. rewrite Ht. reflexivity. }
    destruct (is_unreserved c) eqn:E3.
    { cbn [pct_decode]. rewrite E2, Ht. reflexivity. }
    { assert (Hp : forall rest, pct_decode (pct c ++ rest) = c :: pct_decode rest).
      { clear. intros rest. destruct c; reflexivity. }
      rewrite Hp, Ht. cbn [pct_decode]. rewrite E2. reflexivity. }
Qed.
Lemma canon_uri_body_decode l : pct_decode (canon_uri_body l) = pct_decode l.
Proof. apply (canon_uri_body_decode_n (length l)). lia. Qed.

(* ---- no newline in the server's canonical URI / query ---- *)
Definition not_nl (c : byte) : bool := negb (beqb c nl).
Lemma pct_not_nl c : forallb not_nl (pct c) = true.
Proof. bytecases c. Qed.
Lemma canon_uri_body_nonl_n n : forall l, length l <= n -> forallb not_nl (canon_uri_body l) = true.
Proof.
  induction n as [|n IH]; intros l Hl.
  - destruct l; [reflexivity | cbn in Hl; lia].
  - destruct l as [|c t]; [reflexivity|].
    assert (Ht : forallb not_nl (canon_uri_body t) = true) by (apply IH; cbn in Hl; lia).
    cbn [canon_uri_body].
    destruct (beqb c "/"%byte) eqn:E1; [cbn [forallb]; rewrite Ht; reflexivity|].
    destruct (beqb c "%"%byte) eqn:E2.
    { destruct t as [|a [|b t']]; try (rewrite forallb_app, pct_not_nl, Ht; reflexivity).
      destruct (is_hex a && is_hex b) eqn:Eh; [|rewrite forallb_app, pct_not_nl, Ht; reflexivity].
      assert (Ht' : forallb not_nl (canon_uri_body t') = true) by (apply IH; cbn in Hl; lia).
      cbn [forallb]. rewrite Ht'.
      assert (Hu : not_nl (upper_hex_char a) && not_nl (upper_hex_char b) = true).
      { revert Eh. clear. destruct a; try discriminate; destruct b; try discriminate; intros _; reflexivity. }
      apply andb_true_iff in Hu. destruct Hu as [-> ->]. reflexivity. }
    destruct (is_unreserved c) eqn:E3.
    { cbn [forallb]. rewrite Ht. assert (not_nl c = true) as -> by (revert E3; clear; destruct c; try discriminate; reflexivity). reflexivity. }
    rewrite forallb_app, pct_not_nl, Ht. reflexivity.
Qed.
Lemma not_nl_notin s : forallb not_nl s = true -> ~ In nl s.
Proof. intros F Hin. rewrite forallb_forall in F. specialize (F nl Hin). discriminate. Qed.
Lemma canonical_uri_nonl e : ~ In nl (canonical_uri e).
Proof.
  apply not_nl_notin. unfold canonical_uri. destruct e as [|c t]; [reflexivity|].
  apply (canon_uri_body_nonl_n (length (c :: t))). lia.
Qed.

Lemma in_join (c s : byte) l : In c (join [s] l) -> c = s \/ exists x, In x l /\ In c x.
Proof.
  induction l as [|x l IH]; cbn; [tauto|]. destruct l as [|y l].
  - intros H. right. exists x. auto.
  - intros H. apply in_app_or in H. destruct H as [H|H].
    + right. exists x. auto.
    + cbn in H. destruct H as [H|H]; [left; symmetry; exact H|].
      destruct (IH H) as [E|[z [Hz Hc]]]; [left; exact E | right; exists z; split; [right; exact Hz | exact Hc]].
Qed.

Lemma canon_query_nonl ps : ~ In nl (canon_query_of_pairs ps).
Proof.
  unfold canon_query_of_pairs. fold enc_pair. intros H. apply in_join in H. destruct H as [H|[x [Hx Hc]]]; [discriminate|].
  apply in_map_iff in Hx. destruct Hx as [p [<- Hp]].
  pose proof (sorted_enc_ok ps) as F. rewrite Forall_forall in F. destruct (F p Hp) as [F1 F2].
  unfold render_pair in Hc. apply in_app_or in Hc. destruct Hc as [Hc|[Hc|Hc]].
  - revert Hc. apply enc_ok_notin; auto.
  - discriminate.
  - revert Hc. apply enc_ok_notin; auto.
Qed.

(* ---- the header block ---- *)
Definition line_ok (p : bytes * bytes) : Prop := ~ In ":"%byte (fst p) /\ ~ In nl (fst p) /\ ~ In nl (snd p).

Lemma hdr_unfold k v t X :
  canonical_headers ((k, v) :: t) ++ X = (k ++ ":"%byte :: v) ++ nl :: (canonical_headers t ++ X).
Proof. unfold canonical_headers. cbn [flat_map fst snd]. rewrite <- !app_assoc. cbn. rewrite <- !app_assoc. reflexivity. Qed.

Lemma canonical_headers_inj hs : forall hs' rest rest',
  Forall line_ok hs -> Forall line_ok hs' ->
  canonical_headers hs ++ nl :: rest = canonical_headers hs' ++ nl :: rest' -> hs = hs' /\ rest = rest'.
Proof.
  induction hs as [|[k v] t IH]; intros [|[k' v'] t'] rest rest' F F' E.
  - cbn in E. inversion E. auto.
  - exfalso. rewrite hdr_unfold in E. cbn [canonical_headers flat_map app] in E.
    inversion F' as [|? ? [_ [Hk _]] _]; subst. destruct k'; cbn in E; inversion E; subst. apply Hk. left. reflexivity.
  - exfalso. rewrite hdr_unfold in E. cbn [canonical_headers flat_map app] in E.
    inversion F as [|? ? [_ [Hk _]] _]; subst. destruct k; cbn in E; inversion E; subst. apply Hk. left. reflexivity.
  - rewrite !hdr_unfold in E.
    inversion F as [|? ? [Hc [Hk Hv]] Ft]; subst. inversion F' as [|? ? [Hc' [Hk' Hv']] Ft']; subst. cbn [fst snd] in *.
    assert (N1 : ~ In nl (k ++ ":"%byte :: v)).
    { intros H. apply in_app_or in H. destruct H as [H|[H|H]]; [auto | discriminate | auto]. }
    assert (N2 : ~ In nl (k' ++ ":"%byte :: v')).
    { intros H. apply in_app_or in H. destruct H as [H|[H|H]]; [auto | discriminate | auto]. }
    destruct (app_sep_inj nl _ _ _ _ N1 N2 E) as [E1 E2].
    destruct (app_sep_inj ":"%byte _ _ _ _ Hc Hc' E1) as [-> ->].
    destruct (IH t' rest rest' Ft Ft' E2) as [-> ->]. auto.
Qed.

Lemma canonical_request_of_inj m u q hs p m' u' q' hs' p' :
  ~ In nl m -> ~ In nl m' -> ~ In nl u -> ~ In nl u' -> ~ In nl q -> ~ In nl q' ->
  Forall line_ok hs -> Forall line_ok hs' ->
  canonical_request_of m u q hs p = canonical_request_of m' u' q' hs' p' ->
  m = m' /\ u = u' /\ q = q' /\ hs = hs' /\ p = p'.
Proof.
  intros Hm Hm' Hu Hu' Hq Hq' F F' E. unfold canonical_request_of in E.
  destruct (app_sep_inj nl _ _ _ _ Hm Hm' E) as [-> E1].
  destruct (app_sep_inj nl _ _ _ _ Hu Hu' E1) as [-> E2].
  destruct (app_sep_inj nl _ _ _ _ Hq Hq' E2) as [-> E3].
  destruct (canonical_headers_inj _ _ _ _ F F' E3) as [-> E4].
  apply app_inv_head in E4. inversion E4. auto.
Qed.

(* ---- well-formed requests give well-formed header lines ---- *)
Definition wf_request (r : request) : Prop :=
  ~ In nl (r_method r) /\ ~ In nl (r_host r) /\
  forall k vs, In (k, vs) (r_headers r) -> ~ In ":"%byte k /\ ~ In nl k /\ Forall (fun v => ~ In nl v) vs.

Lemma in_trim_left c x : In c (trim_left x) -> In c x.
Proof. induction x as [|y x IH]; cbn; [tauto|]. destruct (is_space y); [intros H; right; auto | cbn; tauto]. Qed.
Lemma in_trim_space c x : In c (trim_space x) -> In c x.
Proof.
  unfold trim_space, trim_right. intros H. apply in_rev in H. apply in_trim_left in H. apply in_rev in H.
  apply in_trim_left in H. exact H.
Qed.
Lemma in_canonical_header_value c v : In c (canonical_header_value v) -> In c v.
Proof. rewrite canonical_header_value_eq_spec. unfold spec_trimall. intros H. apply in_trim_space in H. apply in_collapse in H. exact H. Qed.
Lemma lower_byte_colon b : lower_byte b = ":"%byte -> b = ":"%byte.
Proof. destruct b; vm_compute; intros H; try discriminate; reflexivity. Qed.
Lemma lower_byte_nl b : lower_byte b = nl -> b = nl.
Proof. destruct b; vm_compute; intros H; try discriminate; reflexivity. Qed.
Lemma in_to_lower c k : (c = ":"%byte \/ c = nl) -> In c (to_lower k) -> In c k.
Proof.
  intros Hc H. unfold to_lower in H. apply in_map_iff in H. destruct H as [b [Hb Hin]].
  destruct Hc as [-> | ->]; [apply lower_byte_colon in Hb | apply lower_byte_nl in Hb]; subst; exact Hin.
Qed.

Lemma signed_pairs_ok h names :
  (forall k vs, In (k, vs) h -> ~ In ":"%byte k /\ ~ In nl k /\ Forall (fun v => ~ In nl v) vs) ->
  Forall line_ok (signed_pairs h names).
Proof.
  induction h as [|[k vs] h IH]; intros W; cbn [signed_pairs]; [constructor|].
  assert (W' : forall k vs, In (k, vs) h -> ~ In ":"%byte k /\ ~ In nl k /\ Forall (fun v => ~ In nl v) vs)
    by (intros; apply W; right; assumption).
  destruct (mem_bytes (to_lower k) names); [|apply IH; exact W'].
  constructor; [|apply IH; exact W'].
  destruct (W k vs (or_introl eq_refl)) as [Wc [Wn Wv]]. unfold line_ok; cbn [fst snd]. repeat split.
  - intros H. apply Wc. apply (in_to_lower ":"%byte); auto.
  - intros H. apply Wn. apply (in_to_lower nl); auto.
  - intros H. apply in_join in H. destruct H as [H|[x [Hx Hc]]]; [discriminate|].
    apply in_map_iff in Hx. destruct Hx as [v [<- Hv]]. apply in_canonical_header_value in Hc.
    rewrite Forall_forall in Wv. exact (Wv v Hv Hc).
Qed.

Lemma collect_ok r names : wf_request r -> Forall line_ok (collect_signed_headers (r_host r) (r_headers r) names).
Proof.
  intros [_ [Wh W]]. unfold collect_signed_headers.
  apply (Permutation_Forall (Permutation_sym (isort_perm key_leb _))).
  constructor; [|apply signed_pairs_ok; exact W].
  unfold line_ok; cbn [fst snd]. repeat split.
  - intros H. cbn in H. intuition discriminate.
  - intros H. cbn in H. intuition discriminate.
  - intros H. apply in_canonical_header_value in H. auto.
Qed.

Theorem canonical_request_determines r esc names pre r0 esc0 names0 pre0 :
  wf_request r -> wf_request r0 -> esc <> [] -> esc0 <> [] ->
  canonical_request r esc names pre = canonical_request r0 esc0 names0 pre0 ->
  r_method r = r_method r0 /\
  pct_decode esc = pct_decode esc0 /\
  Permutation (query_pairs (r_query r)) (query_pairs (r_query r0)) /\
  collect_signed_headers (r_host r) (r_headers r) names = collect_signed_headers (r_host r0) (r_headers r0) names0 /\
  payload_line r pre = payload_line r0 pre0.
Proof.
  intros W W0 He He0 E. unfold canonical_request in E.
  apply canonical_request_of_inj in E;
    try apply canonical_uri_nonl; try apply canon_query_nonl; try (apply collect_ok; assumption);
    try (destruct W as [W _]; exact W); try (destruct W0 as [W0 _]; exact W0).
  destruct E as [Em [Eu [Eq [Eh Ep]]]]. repeat split; try assumption.
  - unfold canonical_uri in Eu. destruct esc as [|c t]; [contradiction|]. destruct esc0 as [|c0 t0]; [contradiction|].
    rewrite <- (canon_uri_body_decode (c :: t)), <- (canon_uri_body_decode (c0 :: t0)), Eu. reflexivity.
  - apply canon_query_determines. exact Eq.
Qed.

(* ---- acceptance is bound to a signing fact ---- *)
Lemma keymat_eqb_eq a b : keymat_eqb a b = true -> a = b.
Proof.
  unfold keymat_eqb. rewrite !andb_true_iff, !bytes_eqb_eq. intros [[[[? ?] ?] ?] ?]. destruct a, b; cbn in *; subst; reflexivity.
Qed.
Lemma sts_eqb_eq a b : sts_eqb a b = true -> a = b.
Proof.
  unfold sts_eqb. rewrite !andb_true_iff, !bytes_eqb_eq. intros [[[? ?] ?] ?]. destruct a, b; cbn in *; subst; reflexivity.
Qed.
Lemma verify_true facts k m sg : verify facts k m sg = true ->
  exists f, In f facts /\ f_key f = k /\ f_msg f = m /\ f_mac f = sg.
Proof.
  unfold verify. intros H. apply existsb_exists in H. destruct H as [f [Hin H]].
  rewrite !andb_true_iff in H. destruct H as [[H1 H2] H3].
  exists f. repeat split; [exact Hin | apply keymat_eqb_eq; exact H1 | apply sts_eqb_eq; exact H2 | apply bytes_eqb_eq; exact H3].
Qed.

Theorem accepted_sound cfg facts now r id :
  middleware cfg facts now r = Accepted id ->
  exists esc p date secret t f,
    go_escaped_path (r_path r) = Some esc /\
    parse_signature_parameters r = Some p /\
    p_alg p = alg_v4 /\
    split_on "/"%byte (p_credential p) = [id; date; c_region cfg; B"s3"; B"aws4_request"] /\
    find_cred id (c_creds cfg) = Some secret /\
    parse_timestamp (p_timestamp p) = Some t /\ date = ts_date (p_timestamp p) /\
    (t - 900 * ns <= now)%Z /\ (now <= t + p_expiry_s p * ns)%Z /\
    mem_bytes B"host" (signed_header_names (p_signed_headers p)) = true /\
    (forall k vs, In (k, vs) (r_headers r) -> must_be_signed (to_lower k) = true ->
       mem_bytes (to_lower k) (signed_header_names (p_signed_headers p)) = true) /\
    (needs_body_hash r (p_presigned p) = true -> r_body_err r = false) /\
    In f facts /\
    f_key f = key_of secret date (c_region cfg) B"s3" B"aws4_request" /\
    f_msg f = msg_of p date (c_region cfg) B"s3" B"aws4_request" r esc /\
    f_mac f = p_signature p.
Proof.
  unfold middleware. intros H.
  destruct (existsb is_ctl (r_query r)); [discriminate|].
  destruct (go_escaped_path (r_path r)) as [esc|] eqn:Ee; [|discriminate].
  destruct (is_anonymous r); [discriminate|].
  apply check_auth_accept_iff in H.
  destruct H as (p & date & region & service & term & secret & t & H1 & H2 & H3 & H4 & H5 & H6 & H7 & H8 & H9 & W1 & W2 & H10 & H11 & HB & H12 & H13).
  subst region service term.
  apply verify_true in H12. destruct H12 as [f [Hf [Hk [Hm Hs]]]].
  exists esc, p, date, secret, t, f. repeat split; try assumption.
  2: { intros Hn. rewrite Hn in HB. exact HB. }
  intros k vs Hin Hms. unfold all_sensitive_signed in H11. rewrite forallb_forall in H11.
  specialize (H11 (k, vs) Hin). cbn [fst] in H11. rewrite Hms in H11. exact H11.
Qed.

Lemma signed_pairs_in h names k vs :
  In (k, vs) h -> mem_bytes (to_lower k) names = true ->
  In (to_lower k, join B"," (map canonical_header_value vs)) (signed_pairs h names).
Proof.
  induction h as [|[k' vs'] h IH]; cbn [signed_pairs In]; [tauto|].
  intros [E|Hin] Hm.
  - inversion E; subst. rewrite Hm. left. reflexivity.
  - destruct (mem_bytes (to_lower k') names); [right|]; apply IH; assumption.
Qed.
Lemma signed_header_in_block host h names k vs :
  In (k, vs) h -> mem_bytes (to_lower k) names = true ->
  In (to_lower k, join B"," (map canonical_header_value vs)) (collect_signed_headers host h names).
Proof.
  intros Hin Hm. unfold collect_signed_headers.
  apply (Permutation_in _ (Permutation_sym (isort_perm key_leb _))). right. apply signed_pairs_in; assumption.
Qed.

Lemma escaped_nonempty raw esc : raw <> [] -> go_escaped_path raw = Some esc -> esc <> [].
Proof.
  unfold go_escaped_path. intros Hr H. destruct (existsb is_ctl raw); [discriminate|].
  destruct (go_unescape false raw) as [p|] eqn:U; [|discriminate]. inversion H; subst.
  destruct (go_valid_encoded_path raw); [exact Hr|].
  destruct raw as [|c t]; [contradiction|]. cbn [go_unescape] in U.
  destruct (beqb c "%"%byte).
  - destruct t as [|a [|b t']]; try discriminate. destruct (is_hex a && is_hex b); [|discriminate].
    destruct (go_unescape false t'); [|discriminate]. inversion U; subst. cbn [go_escape_path flat_map].
    destruct (go_should_escape_path _); discriminate.
  - destruct (go_unescape false t); [|discriminate]. inversion U; subst. cbn [go_escape_path flat_map].
    destruct (go_should_escape_path _); discriminate.
Qed.

(* whenever the body is hashed at all, the payload line is the hash of the received bytes — on both sides of
   the in-memory limit *)
Lemma payload_line_hashed r pre : needs_body_hash r pre = true -> payload_line r pre = r_payload r.
Proof.
  unfold needs_body_hash, payload_line, hashed_payload. intros H. apply andb_true_iff in H. destruct H as [H1 H2].
  apply negb_true_iff in H1, H2. rewrite H1, H2. destruct (body_store_of (r_body_len r)); reflexivity.
Qed.

Theorem altered_request_rejected cfg now r id k0 alg0 ts0 sc0 mac0 r0 esc0 names0 pre0 :
  wf_request r -> wf_request r0 -> esc0 <> [] -> r_path r <> [] ->
  middleware cfg
    [{| f_key := k0; f_msg := {| s_alg := alg0; s_ts := ts0; s_scope := sc0;
                                 s_cr := canonical_request r0 esc0 names0 pre0 |}; f_mac := mac0 |}] now r = Accepted id ->
  exists esc p t,
    go_escaped_path (r_path r) = Some esc /\ parse_signature_parameters r = Some p /\
    p_signature p = mac0 /\ p_timestamp p = ts0 /\ p_alg p = alg0 /\
    find_cred id (c_creds cfg) = Some (k_secret k0) /\
    sc0 = join B"/" [ts_date ts0; c_region cfg; B"s3"; B"aws4_request"] /\
    parse_timestamp ts0 = Some t /\ (t - 900 * ns <= now)%Z /\ (now <= t + p_expiry_s p * ns)%Z /\
    r_method r = r_method r0 /\
    pct_decode esc = pct_decode esc0 /\
    Permutation (query_pairs (r_query r)) (query_pairs (r_query r0)) /\
    collect_signed_headers (r_host r) (r_headers r) (signed_header_names (p_signed_headers p))
      = collect_signed_headers (r_host r0) (r_headers r0) names0 /\
    payload_line r (p_presigned p) = payload_line r0 pre0 /\
    (forall k vs, In (k, vs) (r_headers r) -> must_be_signed (to_lower k) = true ->
       mem_bytes (to_lower k) (signed_header_names (p_signed_headers p)) = true) /\
    (needs_body_hash r (p_presigned p) = true -> r_body_err r = false) /\
    (needs_body_hash r (p_presigned p) = true -> needs_body_hash r0 pre0 = true -> r_payload r = r_payload r0).
Proof.
  intros W W0 He0 Hp H. apply accepted_sound in H.
  destruct H as (esc & p & date & secret & t & f & H1 & H2 & H3 & H4 & H5 & H6 & H7 & W1 & W2 & H8 & H9 & HB & Hin & Hk & Hm & Hs).
  destruct Hin as [<-|[]]. cbn [f_key f_msg f_mac] in *.
  unfold msg_of in Hm. inversion Hm as [[Ea Et Es Ec]]. subst k0. cbn [k_secret key_of].
  pose proof (escaped_nonempty _ _ Hp H1) as He.
  destruct (canonical_request_determines _ _ _ _ _ _ _ _ W W0 He He0 (eq_sym Ec)) as (Q1 & Q2 & Q3 & Q4 & Q5).
  exists esc, p, t. subst date. rewrite <- Et in *. repeat split; auto.
  intros N1 N2. rewrite <- (payload_line_hashed r _ N1), <- (payload_line_hashed r0 _ N2). exact Q5.
Qed.

(* the header block depends on the header map only through (lower-cased name, ','-join of the Trimall'ed values) *)
Lemma spec_signed_pairs_ext h : forall h' names,
  map (fun kv => (to_lower (fst kv), join B"," (map spec_trimall (snd kv)))) h =
  map (fun kv => (to_lower (fst kv), join B"," (map spec_trimall (snd kv)))) h' ->
  spec_signed_pairs h names = spec_signed_pairs h' names.
Proof.
  induction h as [|[k vs] h IH]; intros [|[k' vs'] h'] names E; cbn in E; try discriminate; [reflexivity|].
  inversion E as [[E1 E2 E3]]. cbn [spec_signed_pairs]. rewrite (IH h' names E3). fold (to_lower k) in E1. fold (to_lower k') in E1. rewrite E1, E2. reflexivity.
Qed.
Lemma header_block_up_to_trimall host h h' names :
  map (fun kv => (to_lower (fst kv), join B"," (map spec_trimall (snd kv)))) h =
  map (fun kv => (to_lower (fst kv), join B"," (map spec_trimall (snd kv)))) h' ->
  spec_trimall host = spec_trimall host ->
  collect_signed_headers host h names = collect_signed_headers host h' names.
Proof.
  intros E _. rewrite !collect_eq_spec. unfold spec_header_pairs. rewrite (spec_signed_pairs_ext h h' names E). reflexivity.
Qed.
