(* Proofs/MigrateProofs.v — lemmas about Model/Migrate.v *)
From Verif Require Import Bytes Codec Migrate.
From Coq Require Import Lia ZifyBool ZifyN.
Local Open Scope N_scope.

(* ---------- association lists ---------- *)
Lemma aget_aset_eq {A} k (v : A) l : aget k (aset k v l) = Some v.
Proof.
  induction l as [|[k' v'] r IH]; cbn.
  - now rewrite N.eqb_refl.
  - destruct (k =? k') eqn:E; cbn; rewrite ?N.eqb_refl, ?E; auto.
Qed.
Lemma aget_aset_neq {A} k k' (v : A) l : k' <> k -> aget k' (aset k v l) = aget k' l.
Proof.
  intros Hn. induction l as [|[k2 v2] r IH]; cbn.
  - destruct (k' =? k) eqn:E; auto. apply N.eqb_eq in E. contradiction.
  - destruct (k =? k2) eqn:E; cbn.
    + apply N.eqb_eq in E. subst k2. destruct (k' =? k) eqn:E2; auto. apply N.eqb_eq in E2. contradiction.
    + destruct (k' =? k2); auto.
Qed.
Lemma aget_app_last {A} k m (x : A) l :
  aget k (l ++ [(m, x)]) = match aget k l with Some v => Some v | None => if k =? m then Some x else None end.
Proof. induction l as [|[k2 v2] r IH]; cbn; auto. destruct (k =? k2); auto. Qed.
Lemma aget_In {A} k (v : A) l : aget k l = Some v -> In (k, v) l.
Proof.
  induction l as [|[k2 v2] r IH]; cbn; [discriminate|].
  destruct (k =? k2) eqn:E; intros H.
  - apply N.eqb_eq in E. inversion H. subst. now left.
  - right. auto.
Qed.
Lemma aget_None_notin {A} k (l : list (N * A)) : ~ In k (map fst l) -> aget k l = None.
Proof.
  induction l as [|[k2 v2] r IH]; cbn; auto. intros H.
  destruct (k =? k2) eqn:E. { apply N.eqb_eq in E. subst. exfalso. apply H. now left. }
  apply IH. intros Hi. apply H. now right.
Qed.
Lemma aget_Some_in {A} k (v : A) l : aget k l = Some v -> In k (map fst l).
Proof. intros H. apply aget_In in H. apply (in_map fst) in H. exact H. Qed.
Lemma In_aget_NoDup {A} k (v : A) l : NoDup (map fst l) -> In (k, v) l -> aget k l = Some v.
Proof.
  induction l as [|[k2 v2] r IH]; cbn; [tauto|]. intros Hnd [Hin|Hin].
  - inversion Hin. subst. now rewrite N.eqb_refl.
  - inversion Hnd as [|? ? Hni Hnd']. subst. destruct (k =? k2) eqn:E.
    + apply N.eqb_eq in E. subst. exfalso. apply Hni. apply (in_map fst) in Hin. exact Hin.
    + auto.
Qed.

(* ---------- listing of current objects ---------- *)
Definition cur_of (s : list ver) : option obj := match s with VObj o :: _ => Some o | _ => None end.
Lemma cur_stack b k : cur b k = cur_of (stack b k).
Proof. reflexivity. Qed.

Lemma cur_objs_keys_subset (l : list (N * list ver)) k :
  In k (map fst (flat_map (fun p => match snd p with VObj o :: _ => [(fst p, o)] | _ => [] end) l)) -> In k (map fst l).
Proof.
  induction l as [|[k2 s] r IH]; cbn; auto.
  rewrite map_app, in_app_iff. intros [H|H]; auto.
  destruct s as [|[o|] s']; cbn in H; tauto.
Qed.
Lemma cur_objs_NoDup b : NoDup (map fst (b_keys b)) -> NoDup (map fst (cur_objs b)).
Proof.
  unfold cur_objs. induction (b_keys b) as [|[k s] r IH]; cbn; intros Hnd; [constructor|].
  inversion Hnd as [|? ? Hni Hnd']. subst. rewrite map_app.
  destruct s as [|[o|] s']; cbn; auto.
  constructor; auto. intros Hin. apply Hni. now apply cur_objs_keys_subset.
Qed.
Lemma cur_objs_aget b k : NoDup (map fst (b_keys b)) -> aget k (cur_objs b) = cur b k.
Proof.
  unfold cur, stack, cur_objs. induction (b_keys b) as [|[k2 s] r IH]; cbn; intros Hnd; auto.
  inversion Hnd as [|? ? Hni Hnd']. subst.
  destruct (k =? k2) eqn:E.
  - apply N.eqb_eq in E. subst k2.
    destruct s as [|[o|] s']; cbn; rewrite ?N.eqb_refl; auto;
      apply aget_None_notin; intros Hin; apply Hni; now apply cur_objs_keys_subset.
  - destruct s as [|[o|] s']; cbn; rewrite ?E; auto.
Qed.
Lemma cur_objs_nil_stacks b :
  cur_objs b = [] -> Forall (fun p => snd p = [] \/ exists o s', snd p = VObj o :: s') (b_keys b) ->
  forall k, stack b k = [].
Proof.
  unfold cur_objs, stack. intros Hnil Hwf k.
  destruct (aget k (b_keys b)) as [s|] eqn:E; auto.
  apply aget_In in E. rewrite Forall_forall in Hwf. specialize (Hwf _ E). cbn in Hwf.
  destruct Hwf as [H|[o [s' H]]]; auto. subst s.
  exfalso. assert (Hin : In (k, o) (flat_map (fun p => match snd p with VObj o :: _ => [(fst p, o)] | _ => [] end) (b_keys b))).
  { apply in_flat_map. exists (k, VObj o :: s'). split; auto. cbn. now left. }
  rewrite Hnil in Hin. destruct Hin.
Qed.

Section F.
Variable f : obj -> obj.

(* ---------- copying one bucket ---------- *)
Lemma bput_ver d k o : b_ver (bput d k o) = b_ver d.
Proof. reflexivity. Qed.
Lemma stack_bput_eq d k o : stack (bput d k o) k = if b_ver d then VObj o :: stack d k else [VObj o].
Proof. unfold stack at 1, bput. cbn. now rewrite aget_aset_eq. Qed.
Lemma stack_bput_neq d k k' o : k' <> k -> stack (bput d k o) k' = stack d k'.
Proof. intros H. unfold stack, bput. cbn. now rewrite aget_aset_neq. Qed.

Definition put_list (l : list (N * obj)) (d : bucket) : bucket :=
  fold_left (fun d p => bput d (fst p) (f (snd p))) l d.
Lemma put_list_ver l : forall d, b_ver (put_list l d) = b_ver d.
Proof. induction l as [|[k o] r IH]; cbn; intros d; auto. unfold put_list in IH. now rewrite IH. Qed.
Lemma put_list_stack l : NoDup (map fst l) -> forall d k,
  stack (put_list l d) k =
  match aget k l with
  | Some o => if b_ver d then VObj (f o) :: stack d k else [VObj (f o)]
  | None => stack d k
  end.
Proof.
  induction l as [|[k1 o1] r IH]; cbn; intros Hnd d k; auto.
  inversion Hnd as [|? ? Hni Hnd']. subst. unfold put_list in IH. rewrite (IH Hnd').
  destruct (k =? k1) eqn:E.
  - apply N.eqb_eq in E. subst k1. rewrite (aget_None_notin k r Hni). cbn. apply stack_bput_eq.
  - assert (k <> k1) by (intros ->; now rewrite N.eqb_refl in E).
    cbn. rewrite stack_bput_neq by auto. reflexivity.
Qed.
Lemma copy_all_ver sb db : b_ver (copy_all_f f sb db) = b_ver db.
Proof. apply put_list_ver. Qed.
Lemma copy_all_cur sb db k o :
  NoDup (map fst (b_keys sb)) -> cur sb k = Some o -> cur (copy_all_f f sb db) k = Some (f o).
Proof.
  intros Hnd Hc. unfold cur, copy_all_f. fold (put_list (cur_objs sb) db).
  rewrite (put_list_stack _ (cur_objs_NoDup _ Hnd)). rewrite (cur_objs_aget _ _ Hnd), Hc.
  destruct (b_ver db); reflexivity.
Qed.
Lemma copy_all_suffix sb db k :
  NoDup (map fst (b_keys sb)) ->
  (b_ver db = false -> stack db k = []) ->
  exists pre, stack (copy_all_f f sb db) k = pre ++ stack db k.
Proof.
  intros Hnd Hun. unfold copy_all_f. fold (put_list (cur_objs sb) db).
  rewrite (put_list_stack _ (cur_objs_NoDup _ Hnd)).
  destruct (aget k (cur_objs sb)) as [o|].
  - destruct (b_ver db) eqn:V.
    + now exists [VObj (f o)].
    + rewrite (Hun eq_refl). exists [VObj (f o)]. now rewrite app_nil_r.
  - now exists [].
Qed.

End F.

(* ---------- create_missing ---------- *)
Lemma create_missing_aget names : forall dst n,
  aget n (create_missing dst names) =
  match aget n dst with Some b => Some b | None => if existsb (N.eqb n) names then Some (mkB false []) else None end.
Proof.
  induction names as [|m r IH]; cbn; intros dst n.
  - destruct (aget n dst); auto.
  - unfold create_missing in IH. rewrite IH, aget_app_last.
    destruct (aget n dst); auto. destruct (n =? m); auto.
Qed.
Lemma missing_spec src dst n :
  existsb (N.eqb n) (missing src dst) = true <-> In n (map fst src) /\ aget n dst = None.
Proof.
  unfold missing. rewrite existsb_exists. split.
  - intros [x [Hin He]]. apply N.eqb_eq in He. subst x. apply filter_In in Hin. destruct Hin as [Hin Hm].
    split; auto. unfold amem in Hm. destruct (aget n dst); auto; discriminate.
  - intros [Hin Hn]. exists n. split; [|apply N.eqb_refl]. apply filter_In. split; auto.
    unfold amem. now rewrite Hn.
Qed.
Lemma create_missing_exists src dst n :
  In n (map fst src) -> exists b, aget n (create_missing dst (missing src dst)) = Some b.
Proof.
  intros Hin. rewrite create_missing_aget. destruct (aget n dst) as [b|] eqn:E; eauto.
  destruct (existsb (N.eqb n) (missing src dst)) eqn:X; eauto.
  exfalso. assert (existsb (N.eqb n) (missing src dst) = true) by (apply missing_spec; auto). congruence.
Qed.
Lemma create_missing_old src dst n b :
  aget n dst = Some b -> aget n (create_missing dst (missing src dst)) = Some b.
Proof. intros H. now rewrite create_missing_aget, H. Qed.
Lemma create_missing_cases src dst n b :
  aget n (create_missing dst (missing src dst)) = Some b -> aget n dst = Some b \/ b = mkB false [].
Proof.
  rewrite create_missing_aget. destruct (aget n dst); [now left|].
  destruct (existsb _ _); [|discriminate]. intros H. inversion H. now right.
Qed.

Section F2.
Variable f : obj -> obj.

(* ---------- the bucket loop ---------- *)
Lemma mig_buckets_ok bs : NoDup (map fst bs) -> forall dstc,
  (forall n sb, In (n, sb) bs -> exists db, aget n dstc = Some db /\ cur_objs db = []) ->
  snd (mig_buckets_f f bs dstc) = MOk /\
  (forall n sb, In (n, sb) bs -> exists db, aget n dstc = Some db /\ aget n (fst (mig_buckets_f f bs dstc)) = Some (copy_all_f f sb db)) /\
  (forall n, ~ In n (map fst bs) -> aget n (fst (mig_buckets_f f bs dstc)) = aget n dstc).
Proof.
  induction bs as [|[n sb] rest IH]; intros Hnd dstc Hall.
  - cbn. repeat split; auto. intros ? ? [].
  - cbn in Hnd. inversion Hnd as [|? ? Hni Hnd']. subst.
    destruct (Hall n sb (or_introl eq_refl)) as [db [Hg He]].
    cbn [mig_buckets_f]. rewrite Hg, He. cbn [is_nil].
    set (dst1 := aset n (copy_all_f f sb db) dstc).
    assert (Hall1 : forall n' sb', In (n', sb') rest -> exists db', aget n' dst1 = Some db' /\ cur_objs db' = []).
    { intros n' sb' Hin. destruct (Hall n' sb' (or_intror Hin)) as [db' [Hg' He']].
      exists db'. split; auto. unfold dst1. rewrite aget_aset_neq; auto.
      intros ->. apply Hni. apply (in_map fst) in Hin. exact Hin. }
    destruct (IH Hnd' dst1 Hall1) as [Hok [Hin Hout]].
    split; [exact Hok|]. split.
    + intros n' sb' [Heq|Hin'].
      * inversion Heq. subst n' sb'. exists db. split; auto.
        rewrite (Hout n Hni). unfold dst1. apply aget_aset_eq.
      * destruct (Hin n' sb' Hin') as [db' [Hg' Hr']]. exists db'. split; auto.
        unfold dst1 in Hg'. rewrite aget_aset_neq in Hg'; auto.
        intros ->. apply Hni. apply (in_map fst) in Hin'. exact Hin'.
    + intros n' Hn'.
      assert (Hn1 : n' <> n) by (intros ->; apply Hn'; now left).
      assert (Hn2 : ~ In n' (map fst rest)) by (intros Hi; apply Hn'; now right).
      rewrite (Hout n' Hn2). unfold dst1. now apply aget_aset_neq.
Qed.

Lemma mig_buckets_notempty bs : forall dstc n db,
  (forall n', In n' (map fst bs) -> exists db', aget n' dstc = Some db') ->
  In n (map fst bs) -> aget n dstc = Some db -> cur_objs db <> [] ->
  NoDup (map fst bs) ->
  snd (mig_buckets_f f bs dstc) = MNotEmpty.
Proof.
  induction bs as [|[n1 sb1] rest IH]; intros dstc n db Hex Hin Hg Hne Hnd; [destruct Hin|].
  cbn in Hnd. inversion Hnd as [|? ? Hni Hnd']. subst.
  cbn [mig_buckets_f]. destruct (Hex n1 (or_introl eq_refl)) as [db1 Hg1]. rewrite Hg1.
  destruct (is_nil (cur_objs db1)) eqn:En; [|reflexivity].
  destruct Hin as [Heq|Hin].
  - cbn in Heq. subst n1. rewrite Hg in Hg1. inversion Hg1. subst db1.
    destruct (cur_objs db); [contradiction|discriminate].
  - assert (n <> n1) by (intros ->; contradiction).
    apply (IH _ n db); auto.
    + intros n' Hin'. destruct (N.eq_dec n' n1) as [->|Hd].
      * eexists. apply aget_aset_eq.
      * rewrite aget_aset_neq by auto. apply Hex. now right.
    + rewrite aget_aset_neq; auto.
Qed.

Definition tops_ok (b : bucket) : Prop :=
  b_ver b = false -> Forall (fun p => snd p = [] \/ exists o s', snd p = VObj o :: s') (b_keys b).

Lemma mig_buckets_suffix bs : NoDup (map fst bs) ->
  (forall n sb, In (n, sb) bs -> NoDup (map fst (b_keys sb))) ->
  forall dstc,
  (forall n db, In n (map fst bs) -> aget n dstc = Some db -> tops_ok db) ->
  forall n db, aget n dstc = Some db ->
  exists db', aget n (fst (mig_buckets_f f bs dstc)) = Some db' /\ b_ver db' = b_ver db /\
              forall k, exists pre, stack db' k = pre ++ stack db k.
Proof.
  induction bs as [|[n1 sb1] rest IH]; intros Hnd Hsrc dstc Hwf n db Hg.
  - cbn. exists db. repeat split; auto. intros k. now exists [].
  - cbn in Hnd. inversion Hnd as [|? ? Hni Hnd']. subst.
    cbn [mig_buckets_f].
    destruct (aget n1 dstc) as [db1|] eqn:Hg1.
    2:{ cbn. exists db. repeat split; auto. intros k. now exists []. }
    destruct (is_nil (cur_objs db1)) eqn:En.
    2:{ cbn. exists db. repeat split; auto. intros k. now exists []. }
    assert (Hnil : cur_objs db1 = []) by (destruct (cur_objs db1); [reflexivity|discriminate]).
    set (dst1 := aset n1 (copy_all_f f sb1 db1) dstc).
    assert (Hwf1 : forall n' db', In n' (map fst rest) -> aget n' dst1 = Some db' -> tops_ok db').
    { intros n' db' Hin Hg'. unfold dst1 in Hg'. rewrite aget_aset_neq in Hg'.
      - apply (Hwf n'); auto. now right.
      - intros ->. contradiction. }
    assert (Hsrc1 : forall n' sb', In (n', sb') rest -> NoDup (map fst (b_keys sb'))).
    { intros n' sb' Hin. apply (Hsrc n' sb'). now right. }
    destruct (N.eq_dec n n1) as [->|Hd].
    + rewrite Hg1 in Hg. inversion Hg. subst db1.
      destruct (IH Hnd' Hsrc1 dst1 Hwf1 n1 (copy_all_f f sb1 db)) as [db' [Hr [Hv Hs]]].
      { unfold dst1. apply aget_aset_eq. }
      exists db'. split; auto. split. { rewrite Hv. apply copy_all_ver. }
      intros k. destruct (Hs k) as [pre1 Hp1].
      destruct (copy_all_suffix f sb1 db k) as [pre2 Hp2].
      { apply (Hsrc n1 sb1). now left. }
      { intros Hv0. apply cur_objs_nil_stacks; auto. apply (Hwf n1 db); auto. now left. }
      exists (pre1 ++ pre2). rewrite Hp1, Hp2. now rewrite app_assoc.
    + apply (IH Hnd' Hsrc1 dst1 Hwf1 n db). unfold dst1. rewrite aget_aset_neq; auto.
Qed.

(* ---------- the whole migration ---------- *)
Lemma migrate_faithful src dst :
  NoDup (map fst src) ->
  (forall n sb, In (n, sb) src -> NoDup (map fst (b_keys sb))) ->
  (forall n db, aget n dst = Some db -> cur_objs db = []) ->
  snd (migrate_f f src dst) = MOk /\
  forall n sb, aget n src = Some sb ->
    exists db, aget n (fst (migrate_f f src dst)) = Some db /\
      forall k o, cur sb k = Some o -> cur db k = Some (f o).
Proof.
  intros Hnd Hk Hempty. unfold migrate_f. set (dst0 := create_missing dst (missing src dst)).
  assert (Hall : forall n sb, In (n, sb) src -> exists db, aget n dst0 = Some db /\ cur_objs db = []).
  { intros n sb Hin. destruct (create_missing_exists src dst n) as [b Hb].
    { apply (in_map fst) in Hin. exact Hin. }
    exists b. split; auto. destruct (create_missing_cases _ _ _ _ Hb) as [Ho| ->]; eauto. }
  destruct (mig_buckets_ok src Hnd dst0 Hall) as [Hok [Hin _]].
  split; auto. intros n sb Hg. apply aget_In in Hg.
  destruct (Hin n sb Hg) as [db [_ Hr]]. exists (copy_all_f f sb db). split; auto.
  intros k o Hc. apply copy_all_cur; auto. apply (Hk n sb Hg).
Qed.

Lemma migrate_nonempty src dst n sb db :
  NoDup (map fst src) -> aget n src = Some sb -> aget n dst = Some db -> cur_objs db <> [] ->
  snd (migrate_f f src dst) = MNotEmpty.
Proof.
  intros Hnd Hs Hd Hne. unfold migrate_f.
  apply (mig_buckets_notempty src _ n db); auto.
  - intros n' Hin. apply create_missing_exists; auto.
  - apply (aget_Some_in _ _ _ Hs).
  - apply create_missing_old; auto.
Qed.

Lemma migrate_suffix src dst :
  NoDup (map fst src) ->
  (forall n sb, In (n, sb) src -> NoDup (map fst (b_keys sb))) ->
  (forall n db, aget n dst = Some db -> tops_ok db) ->
  forall n db, aget n dst = Some db ->
  exists db', aget n (fst (migrate_f f src dst)) = Some db' /\ b_ver db' = b_ver db /\
              forall k, exists pre, stack db' k = pre ++ stack db k.
Proof.
  intros Hnd Hk Hwf n db Hg. unfold migrate_f.
  apply mig_buckets_suffix; auto.
  - intros n' db' _ Hg'. destruct (create_missing_cases _ _ _ _ Hg') as [Ho| ->].
    + apply (Hwf n'); auto.
    + intros _. constructor.
  - apply create_missing_old; auto.
Qed.

End F2.

(* ---------- Expires ---------- *)
Lemma exp_norm_fixed e : exp_norm e = e <-> (e = 0 \/ (e - 1) mod 5 = 0).
Proof.
  unfold exp_norm. destruct (e =? 0) eqn:E0.
  - apply N.eqb_eq in E0. subst. split; auto.
  - apply N.eqb_neq in E0. pose proof (N.mod_le (e - 1) 5 ltac:(lia)) as Hle.
    destruct ((e - 1) mod 5 =? 4) eqn:E4.
    + apply N.eqb_eq in E4. split; [lia|]. intros [H|H]; lia.
    + split; [intros H; right; lia|]. intros [H|H]; lia.
Qed.
Lemma exp_norm_idem e : exp_norm (exp_norm e) = exp_norm e.
Proof.
  apply exp_norm_fixed. unfold exp_norm. destruct (e =? 0) eqn:E0; auto.
  apply N.eqb_neq in E0. destruct ((e - 1) mod 5 =? 4) eqn:E4; auto. right.
  pose proof (N.mod_le (e - 1) 5 ltac:(lia)) as Hle.
  pose proof (N.div_mod (e - 1) 5 ltac:(lia)) as Hdm.
  replace (e - (e - 1) mod 5 - 1) with (5 * ((e - 1) / 5)) by lia.
  rewrite N.mul_comm. apply N.mod_mul. lia.
Qed.

(* ---------- a single-object source: the migration is faithful iff nothing is rewritten ---------- *)
Definition one_src (o : obj) : store := [(0, mkB false [(0, [VObj o])])].
Lemma one_src_result o :
  migrate (one_src o) [] = ([(0, mkB false [(0, [VObj (mig_obj o)])])], MOk).
Proof. reflexivity. Qed.

(* ---------- storage kinds ---------- *)
Lemma mig_np_zero s : (mig_np s =? 0) = (s <=? part_size).
Proof.
  unfold mig_np. destruct (s <=? part_size) eqn:E; [reflexivity|].
  apply N.eqb_neq. intros H. apply N.div_small_iff in H; unfold part_size in *; lia.
Qed.
Lemma mig_obj_k_fields sk dk o :
  let o' := mig_obj_k sk dk o in
  o_body o' = o_body o /\
  m_cc (o_meta o') = m_cc (o_meta o) /\ m_cd (o_meta o') = m_cd (o_meta o) /\
  m_ce (o_meta o') = m_ce (o_meta o) /\ m_cl (o_meta o') = m_cl (o_meta o) /\
  m_wrl (o_meta o') = m_wrl (o_meta o) /\ m_um (o_meta o') = m_um (o_meta o) /\
  m_exp (o_meta o') = exp_norm (m_exp (o_meta o)) /\
  o_cls o' = 0 /\
  o_ct o' = (match dk with
             | KClient => if body_size (o_body o) <=? part_size then (if o_ct o =? 0 then ct_octet else o_ct o) else o_ct o
             | KLocal => o_ct o
             end) /\
  o_tags o' = (match dk with
               | KClient => if body_size (o_body o) <=? part_size then [] else o_tags o
               | KLocal => o_tags o
               end).
Proof.
  unfold mig_obj_k, src_view. destruct dk; cbn [dst_store mig_obj o_np o_body o_ct o_meta o_tags o_cls].
  - repeat split; reflexivity.
  - rewrite mig_np_zero. destruct (body_size (o_body o) <=? part_size); cbn; repeat split; reflexivity.
Qed.
