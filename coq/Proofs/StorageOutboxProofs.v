(* Proofs/StorageOutboxProofs.v — C21 *)
From Verif Require Import Bytes Codec StorageOutbox.
From Coq Require Import Sorting.Sorted.

(* Extensionality of the functions [bytes -> A] the inner storage state is made of. It is NOT
   assumed as an axiom: it is an explicit hypothesis [FunExt] of the theorems that need it (it is
   an instance of Coq.Logic.FunctionalExtensionality.functional_extensionality). *)
Definition FunExt : Prop := forall (A : Type) (f g : bytes -> A), (forall x, f x = g x) -> f = g.

Section P.
Hypothesis funext : FunExt.
(* ---- function update ---- *)
Lemma fupd_same {A} (f : bytes -> A) k v : fupd f k v k = v.
Proof. unfold fupd. now rewrite bytes_eqb_refl. Qed.
Lemma fupd_other {A} (f : bytes -> A) k v x : x <> k -> fupd f k v x = f x.
Proof. intros H. unfold fupd. apply bytes_eqb_neq in H. now rewrite H. Qed.
Lemma fupd_id {A} (f : bytes -> A) k : fupd f k (f k) = f.
Proof. apply funext; intros x. unfold fupd. destruct (bytes_eqb x k) eqn:E; [apply bytes_eqb_eq in E; now subst|reflexivity]. Qed.
Lemma fupd_shadow {A} (f : bytes -> A) k v w : fupd (fupd f k v) k w = fupd f k w.
Proof. apply funext; intros x. unfold fupd. destruct (bytes_eqb x k); reflexivity. Qed.
Lemma fupd_comm {A} (f : bytes -> A) k1 k2 v w : k1 <> k2 ->
  fupd (fupd f k1 v) k2 w = fupd (fupd f k2 w) k1 v.
Proof.
  intros H. apply funext; intros x. unfold fupd.
  destruct (bytes_eqb x k2) eqn:E2, (bytes_eqb x k1) eqn:E1; try reflexivity.
  apply bytes_eqb_eq in E1, E2. congruence.
Qed.

Variable UK UB : list bytes.
Notation apply_call := (apply_call UK).
Notation app := (app UK).
Notation apps := (apps UK).
Notation read_inner := (read_inner UK UB).
Notation step := (step UK UB).
Notation run := (run UK UB).

(* ---- locality of calls: every call but CopyObject touches one bucket ---- *)
Definition cbucket (c : call) : bytes :=
  match c with
  | CCreate b | CDeleteB b | CPut b _ _ _ _ | CDel b _ _ _ | CDels b _ | CVers b _
  | CMpCreate b _ _ _ _ | CMpPart b _ _ _ _ | CMpComplete b _ _ _ _ | CMpAbort b _ _ | CAppend b _ _
  | CPutTags b _ _ | CDelTags b _ | CPutR b _ _ | CDelsC b _ => b
  | CBadDigest (BPut b _) | CBadDigest (BAppend b _) | CBadDigest (BPart b _ _) => b
  | CCopy _ _ db _ => db
  end.
Definition is_copy (c : call) : bool := match c with CCopy _ _ _ _ => true | _ => false end.

Definition bstep (c : call) (ob : option bstate) : option bstate := fst (apply_call (fun _ => ob) c) (cbucket c).
Definition bres (c : call) (ob : option bstate) : option err := snd (apply_call (fun _ => ob) c).

Lemma bstate_eta bs : {| b_vers := b_vers bs; b_objs := b_objs bs; b_ups := b_ups bs |} = bs.
Proof. now destruct bs. Qed.

Local Opaque put_k del_k kstep dels_k bucket_empty.

Ltac split_matches :=
  repeat (match goal with |- context [match ?x with _ => _ end] => destruct x eqn:? end; cbn [fst snd]).

Lemma apply_local s c : is_copy c = false ->
  apply_call s c = (fupd s (cbucket c) (bstep c (s (cbucket c))), bres c (s (cbucket c))).
Proof.
  intros NC. unfold bstep, bres.
  destruct c; try match goal with x : badc |- _ => destruct x end;
    try discriminate NC; cbn [StorageOutbox.apply_call cbucket keyop]; unfold put_rec;
    match goal with |- context [s ?b] => destruct (s b) as [bs|] eqn:E end; cbn [fst snd];
    split_matches; unfold set_key; rewrite ?fupd_same; try reflexivity;
    try (rewrite <- E, fupd_id; reflexivity).
Qed.

Lemma app_local s c : is_copy c = false -> app s c = fupd s (cbucket c) (bstep c (s (cbucket c))).
Proof. intros H. unfold StorageOutbox.app. now rewrite apply_local. Qed.
Lemma res_local s c : is_copy c = false -> snd (apply_call s c) = bres c (s (cbucket c)).
Proof. intros H. now rewrite apply_local. Qed.

Lemma app_other_bucket s c b : is_copy c = false -> b <> cbucket c -> app s c b = s b.
Proof. intros NC H. rewrite app_local by assumption. now apply fupd_other. Qed.

Lemma comm_other_bucket s c1 c2 : is_copy c1 = false -> is_copy c2 = false -> cbucket c1 <> cbucket c2 ->
  app (app s c1) c2 = app (app s c2) c1.
Proof.
  intros N1 N2 H. rewrite !app_local by assumption.
  rewrite (fupd_other s (cbucket c1)) by congruence.
  rewrite (fupd_other s (cbucket c2)) by congruence.
  apply fupd_comm; congruence.
Qed.

Lemma res_other_bucket s c1 c2 : is_copy c1 = false -> is_copy c2 = false -> cbucket c1 <> cbucket c2 ->
  snd (apply_call (app s c1) c2) = snd (apply_call s c2).
Proof. intros N1 N2 H. rewrite !res_local, app_other_bucket by (assumption || congruence). reflexivity. Qed.

(* ---- locality of key calls inside a bucket ---- *)
Definition keycall (c : call) : option (bytes * bytes) :=
  match c with
  | CPut b k _ _ _ | CDel b k _ _ | CPutR b k _ => Some (b, k)
  | CBadDigest (BPut _ _) => None       (* refused before the bucket is looked at: touches nothing *)
  | _ => keyop c
  end.
Definition kfull (c : call) (st : vstat) (ks : kstate) (ups : list (N * upload)) : kstate * list (N * upload) * option err :=
  match c with
  | CPut _ _ cid ct o => let '(ks', e) := put_k st ks (mk_rec cid ct o) (o_ifnone o) (o_ifmatch o) in (ks', ups, e)
  | CDel _ _ vid ifm => let '(ks', e) := del_k st ks vid ifm in (ks', ups, e)
  | CPutR _ _ r => let '(ks', e) := put_k st ks r false None in (ks', ups, e)
  | _ => kstep c st ks ups
  end.
Definition knew (c : call) (st : vstat) (ks : kstate) (ups : list (N * upload)) : kstate * list (N * upload) :=
  match kfull c st ks ups with (ks', ups', None) => (ks', ups') | (_, _, Some _) => (ks, ups) end.
(* entries replay as calls that neither read nor write the pending uploads *)
Definition plain (c : call) : Prop :=
  exists f : vstat -> kstate -> kstate * option err,
    forall st ks ups, kfull c st ks ups = (fst (f st ks), ups, snd (f st ks)).

Lemma key_local s c b k : keycall c = Some (b, k) ->
  apply_call s c =
  match s b with
  | None => (s, Some NoSuchBucket)
  | Some bs => (fupd s b (Some {| b_vers := b_vers bs;
                                  b_objs := fupd (b_objs bs) k (fst (knew c (b_vers bs) (b_objs bs k) (b_ups bs)));
                                  b_ups := snd (knew c (b_vers bs) (b_objs bs k) (b_ups bs)) |}),
                snd (kfull c (b_vers bs) (b_objs bs k) (b_ups bs)))
  end.
Proof.
  intros H. destruct c; try match goal with x : badc |- _ => destruct x end;
    try discriminate H; cbn in H; inversion H; subst;
    cbn [StorageOutbox.apply_call keyop]; unfold put_rec;
    (destruct (s b) as [bs|] eqn:E; [|reflexivity]); unfold knew, kfull;
    split_matches; unfold set_key; cbn [fst snd]; try reflexivity;
    try (rewrite fupd_id, bstate_eta, <- E, fupd_id; reflexivity); try congruence.
Qed.

Lemma keycall_bucket c b k : keycall c = Some (b, k) -> cbucket c = b.
Proof. destruct c; try match goal with x : badc |- _ => destruct x end; cbn; intros H; inversion H; reflexivity. Qed.
Lemma keycall_not_copy c b k : keycall c = Some (b, k) -> is_copy c = false.
Proof. destruct c; cbn; intros H; try discriminate H; reflexivity. Qed.

Lemma plain_knew c : plain c -> exists g : vstat -> kstate -> kstate,
  forall st ks ups, knew c st ks ups = (g st ks, ups).
Proof.
  intros [f Hf]. exists (fun st ks => match snd (f st ks) with None => fst (f st ks) | Some _ => ks end).
  intros st ks ups. unfold knew. rewrite Hf. destruct (snd (f st ks)); reflexivity.
Qed.

(* c1: a replayed entry (plain), c2: any call on another key of the same bucket *)
Lemma comm_other_key s c1 c2 b k1 k2 :
  keycall c1 = Some (b, k1) -> plain c1 -> keycall c2 = Some (b, k2) -> k1 <> k2 ->
  app (app s c1) c2 = app (app s c2) c1 /\
  snd (apply_call (app s c1) c2) = snd (apply_call s c2).
Proof.
  intros H1 P1 H2 Hk. destruct (plain_knew c1 P1) as [g Hg]. unfold StorageOutbox.app.
  rewrite (key_local s c1 b k1 H1), (key_local s c2 b k2 H2).
  destruct (s b) as [bs|] eqn:E; cbn [fst snd].
  - rewrite (key_local _ c2 b k2 H2), (key_local _ c1 b k1 H1). rewrite !fupd_same. cbn [b_vers b_objs b_ups fst snd].
    rewrite !fupd_shadow, !Hg. cbn [fst snd].
    rewrite (fupd_other (b_objs bs) k1 _ k2) by congruence.
    rewrite (fupd_other (b_objs bs) k2 _ k1) by congruence.
    split; [|reflexivity]. f_equal. f_equal. f_equal. apply fupd_comm. exact Hk.
  - rewrite (key_local s c2 b k2 H2), (key_local s c1 b k1 H1), E. cbn. split; reflexivity.
Qed.

(* what a key-scoped operation can see of a bucket *)
Definition kview (s : istate) (b k : bytes) : option (vstat * kstate * list (N * upload)) :=
  match s b with None => None | Some bs => Some (b_vers bs, b_objs bs k, b_ups bs) end.

Lemma key_keeps_bucket s c b k b' : keycall c = Some (b, k) ->
  option_map b_vers (app s c b') = option_map b_vers (s b').
Proof.
  intros H. unfold StorageOutbox.app. rewrite (key_local s c b k H).
  destruct (s b) as [bs|] eqn:E; cbn [fst]; [|reflexivity].
  destruct (bytes_eq_dec b' b) as [->|N]; [rewrite fupd_same, E; reflexivity | now rewrite fupd_other].
Qed.

Lemma key_keeps_view s c b k k' : keycall c = Some (b, k) -> plain c -> k' <> k ->
  kview (app s c) b k' = kview s b k'.
Proof.
  intros H P Hk. destruct (plain_knew c P) as [g Hg]. unfold kview, StorageOutbox.app.
  rewrite (key_local s c b k H). destruct (s b) as [bs|] eqn:E; cbn [fst]; [|now rewrite E].
  rewrite fupd_same, Hg. cbn. now rewrite fupd_other.
Qed.

Local Transparent put_k del_k kstep dels_k bucket_empty.

(* ---- what is replayed is what was accepted ---- *)
Lemma fix6_length l : length (fix6 l) = 6.
Proof. unfold fix6. rewrite firstn_length, app_length. unfold none6. cbn [length]. lia. Qed.
Lemma firstn_app_len {A} (a b : list A) : firstn (length a) (a ++ b) = a.
Proof. induction a as [|x a IH]; cbn; [reflexivity | now rewrite IH]. Qed.
Lemma fix6_idem l : fix6 (fix6 l) = fix6 l.
Proof.
  unfold fix6 at 1. rewrite <- (fix6_length l) at 1. apply firstn_app_len.
Qed.
Definition allnone (l : list (option bytes)) : bool :=
  forallb (fun x => match x with None => true | Some _ => false end) l.
Lemma allnone_none6 l : length l = 6 -> allnone l = true -> l = none6.
Proof.
  intros H A. do 7 (destruct l as [|? l]; try discriminate H).
  cbn in A. repeat match goal with x : option bytes |- _ => destruct x; try discriminate A end. reflexivity.
Qed.

Lemma mk_rec_ser b k cid ct o :
  match replay_call (ser_put b k cid ct o) with
  | CPut b' k' cid' ct' o' => b' = b /\ k' = k /\ cid' = cid /\ ct' = ct /\ mk_rec cid ct o' = mk_rec cid ct o
                              /\ o_ifnone o' = false /\ o_ifmatch o' = None
  | _ => False
  end.
Proof.
  unfold ser_put. destruct o as [tg m cl ifn ifm]; cbn [o_class o_tags o_meta].
  assert (G : forall sys user, 
     (sys = match m with Some m => fix6 (m_sys m) | None => none6 end) ->
     (user = match m with Some m => m_user m | None => [] end) ->
     mk_rec cid ct {| o_tags := tg; o_meta := if allnone sys && match user with [] => true | _ => false end
                        then None else Some {| m_sys := sys; m_user := user |}; o_class := cl; o_ifnone := false; o_ifmatch := None |}
     = mk_rec cid ct {| o_tags := tg; o_meta := m; o_class := cl; o_ifnone := ifn; o_ifmatch := ifm |}).
  { intros sys user Hs Hu. unfold mk_rec; cbn [o_meta o_class o_tags].
    destruct (allnone sys && match user with [] => true | _ => false end) eqn:A.
    - apply andb_true_iff in A as [A1 A2]. destruct user; [|discriminate].
      assert (sys = none6) as ->.
      { apply allnone_none6; [|exact A1]. subst sys. destruct m; [apply fix6_length | reflexivity]. }
      destruct m as [mm|]; [rewrite <- Hs, <- Hu|]; reflexivity.
    - subst sys user. destruct m as [mm|]; cbn [m_sys m_user]; [now rewrite fix6_idem | reflexivity]. }
  destruct cl as [c|]; [|destruct tg as [|t tg]; [destruct m as [mm|]|]];
    cbn [replay_call]; repeat split; try reflexivity; try (apply G; reflexivity).
Qed.

Lemma put_replayed s b k cid ct o : o_ifnone o = false -> o_ifmatch o = None ->
  apply_call s (replay_call (ser_put b k cid ct o)) = apply_call s (CPut b k cid ct o).
Proof.
  intros H1 H2. pose proof (mk_rec_ser b k cid ct o) as M.
  destruct (replay_call (ser_put b k cid ct o)) as [| |b' k' cid' ct' o'| | | | | | | | | | | | | |]; try contradiction.
  destruct M as (-> & -> & -> & -> & M & F1 & F2).
  cbn [StorageOutbox.apply_call]. now rewrite M, F1, F2, H1, H2.
Qed.

Lemma del_k_plain st ks : snd (del_k st ks None None) = None.
Proof. unfold del_k, etag_ok. cbn. destruct st; reflexivity. Qed.

Lemma dels_replayed b ks : forall s,
  apps s (map replay_call (map (fun k => PDel b k None) ks)) = app s (CDels b ks).
Proof.
  induction ks as [|k t IH]; intros s; cbn [map StorageOutbox.apps fold_left].
  - unfold StorageOutbox.app; cbn. destruct (s b) as [bs|] eqn:E; cbn; [|reflexivity].
    rewrite bstate_eta. now rewrite <- E, fupd_id.
  - fold (apps (app s (replay_call (PDel b k None))) (map replay_call (map (fun k => PDel b k None) t))).
    rewrite IH. unfold StorageOutbox.app; cbn [replay_call StorageOutbox.apply_call].
    destruct (s b) as [bs|] eqn:E; cbn [fst]; [|now rewrite E].
    pose proof (del_k_plain (b_vers bs) (b_objs bs k)) as D.
    destruct (del_k (b_vers bs) (b_objs bs k) None None) as [ks' r] eqn:DK. cbn in D; subst r. cbn [fst].
    unfold set_key. rewrite fupd_same. cbn [fst b_vers b_objs]. rewrite fupd_shadow. cbn [dels_k]. now rewrite DK.
Qed.

Lemma delsc_plain st es : forall objs,
  forallb (fun e => match snd e with Some _ => false | None => true end) es = true ->
  dels_c st objs es = dels_k st objs (map fst es).
Proof.
  induction es as [|[k [c|]] t IH]; intros objs H; cbn in *; [reflexivity | discriminate H|]. now rewrite IH.
Qed.

Lemma replayed_eq_accepted i c ps : route i c = (None, ps) ->
  forall s, apps s (map replay_call ps) = app s c.
Proof.
  intros R s. destruct c as [b|b|b k cid ct o|b k vid ifm|b ks|b v| | | | | | | | | |b es|x]; cbn in R; try discriminate R.
  - inversion R; subst. reflexivity.
  - inversion R; subst. reflexivity.
  - destruct (o_ifnone o) eqn:H1; [discriminate R|]. destruct (o_ifmatch o) eqn:H2; [discriminate R|].
    cbn in R. destruct (match vers_of i b with Some VEnabled => true | _ => false end); [discriminate R|].
    inversion R; subst. cbn. unfold StorageOutbox.app. now rewrite put_replayed.
  - destruct ifm; [discriminate R|]. cbn in R.
    destruct (match vers_of i b with Some VEnabled | Some VSuspended => true | _ => false end); [discriminate R|].
    inversion R; subst. reflexivity.
  - destruct (match vers_of i b with Some VEnabled | Some VSuspended => true | _ => false end); [discriminate R|].
    inversion R; subst. apply dels_replayed.
  - destruct (existsb _ es) eqn:Ex; [discriminate R|]. cbn in R.
    destruct (match vers_of i b with Some VEnabled | Some VSuspended => true | _ => false end); [discriminate R|].
    inversion R; subst.
    assert (Pl : forallb (fun e => match snd e with Some _ => false | None => true end) es = true).
    { clear -Ex. induction es as [|[k [c|]] t IH]; cbn in *; [reflexivity | discriminate Ex | exact (IH Ex)]. }
    rewrite <- (map_map fst (fun k => PDel b k None)), dels_replayed.
    unfold StorageOutbox.app. cbn [StorageOutbox.apply_call]. destruct (s b) as [bs|]; [|reflexivity].
    now rewrite delsc_plain.
  - destruct x as [b k|b k|b k u]; cbn in R; try discriminate R.
    destruct (vers_of i b) as [[| |]|]; try discriminate R; inversion R; subst; reflexivity.
Qed.

(* ---- independence of a waiting operation from the entries it does not wait for ---- *)
Lemma route_class i c w ps : route i c = (Some w, ps) -> w = cont_class (KCall c).
Proof.
  destruct c; try match goal with x : badc |- _ => destruct x end; cbn; intros H; try discriminate H;
    repeat match type of H with
           | (if ?x then _ else _) = _ => destruct x
           | (match ?x with _ => _ end) = _ => destruct x
           end; try discriminate H; inversion H; reflexivity.
Qed.

Lemma replay_bucket p : cbucket (replay_call p) = pl_bucket p.
Proof. destruct p; reflexivity. Qed.
Lemma replay_not_copy p : is_copy (replay_call p) = false.
Proof. destruct p; reflexivity. Qed.
Lemma replay_keycall p : pl_key p <> [] -> keycall (replay_call p) = Some (pl_bucket p, pl_key p).
Proof. destruct p; cbn; intros H; try congruence; reflexivity. Qed.
Lemma replay_plain p : plain (replay_call p).
Proof.
  exists (fun st ks => (fst (fst (kfull (replay_call p) st ks [])), snd (kfull (replay_call p) st ks []))).
  intros st ks ups. destruct p; cbn [replay_call kfull kstep fst snd]; try reflexivity.
  - destruct (put_k _ _ _ _ _); reflexivity.
  - destruct (del_k _ _ _ _); reflexivity.
Qed.

Lemma is_empty_false (l : bytes) : is_empty l = false <-> l <> [].
Proof. destruct l; cbn; split; congruence. Qed.

Definition indep_stmt (s : istate) (k : cont) (c' : call) : Prop :=
  match k with
  | KCall c => app (app s c') c = app (app s c) c' /\ snd (apply_call (app s c') c) = snd (apply_call s c)
  | KRead r => read_inner (app s c') r = read_inner s r
  end.

(* an entry outside the key class leaves the key's view of its bucket alone *)
Lemma view_indep s p b k : conflict (WKey b k) p = false -> kview (app s (replay_call p)) b k = kview s b k.
Proof.
  intros C. cbn in C. apply andb_false_iff in C as [C|C].
  - apply bytes_eqb_neq in C. unfold kview. rewrite app_other_bucket; [reflexivity | apply replay_not_copy|].
    rewrite replay_bucket. congruence.
  - apply orb_false_iff in C as [C1 C2]. apply is_empty_false in C1. apply bytes_eqb_neq in C2.
    destruct (bytes_eq_dec (pl_bucket p) b) as [E|N].
    + pose proof (replay_keycall p C1) as K. rewrite E in K.
      apply (key_keeps_view s _ b (pl_key p) k K (replay_plain p)). congruence.
    + unfold kview. rewrite app_other_bucket; [reflexivity | apply replay_not_copy|]. rewrite replay_bucket. congruence.
Qed.

Lemma kview_read s1 s2 b k : kview s1 b k = kview s2 b k ->
  read_inner s1 (RGet b k) = read_inner s2 (RGet b k) /\ read_inner s1 (RTags b k) = read_inner s2 (RTags b k) /\
  copy_src s1 b k = copy_src s2 b k.
Proof.
  unfold kview, copy_src. cbn [StorageOutbox.read_inner]. intros H.
  destruct (s1 b) as [x|], (s2 b) as [y|]; try discriminate H; [|auto].
  inversion H as [[H1 H2 H3]]. rewrite H2. auto.
Qed.

Lemma read_other_bucket s c' r b : is_copy c' = false ->
  (match r with RGet b' _ | RTags b' _ | RList b' | RHeadBucket b' | RGetVers b' => b' = b | RListBuckets => False end) ->
  cbucket c' <> b -> read_inner (app s c') r = read_inner s r.
Proof.
  intros NC H N. destruct r; try contradiction; subst; cbn [StorageOutbox.read_inner];
    rewrite app_other_bucket by (assumption || congruence); reflexivity.
Qed.

(* a call on one key vs an entry outside that key's class *)
Lemma indep_keycall s c b k p : keycall c = Some (b, k) -> conflict (WKey b k) p = false ->
  indep_stmt s (KCall c) (replay_call p).
Proof.
  intros K C. pose proof (keycall_not_copy _ _ _ K) as NC. pose proof (keycall_bucket _ _ _ K) as CB.
  cbn in C. apply andb_false_iff in C as [C|C].
  - apply bytes_eqb_neq in C. split; [apply comm_other_bucket | apply res_other_bucket];
      try apply replay_not_copy; try assumption; rewrite replay_bucket; congruence.
  - apply orb_false_iff in C as [C1 C2]. apply is_empty_false in C1. apply bytes_eqb_neq in C2.
    destruct (bytes_eq_dec (pl_bucket p) b) as [E|N].
    + pose proof (replay_keycall p C1) as K'. rewrite E in K'.
      destruct (comm_other_key s (replay_call p) c b (pl_key p) k K' (replay_plain p) K C2) as [A HB].
      split; [exact A | exact HB].
    + split; [apply comm_other_bucket | apply res_other_bucket];
        try apply replay_not_copy; try assumption; rewrite replay_bucket; congruence.
Qed.

Lemma indep s k p : conflict (cont_class k) p = false -> indep_stmt s k (replay_call p).
Proof.
  intros C. pose proof (replay_bucket p) as RB. pose proof (replay_not_copy p) as RN.
  assert (OB : forall c, is_copy c = false -> cbucket c <> pl_bucket p -> indep_stmt s (KCall c) (replay_call p)).
  { intros c NC N. split; [apply comm_other_bucket | apply res_other_bucket]; try assumption; congruence. }
  destruct k as [c|r].
  - destruct c; try match goal with x : badc |- _ => destruct x end; cbn [cont_class call_class] in C;
      try (split; reflexivity);          (* a refused PutObject touches nothing *)
      try (eapply indep_keycall; [reflexivity | exact C]; fail);
      try (apply OB; [reflexivity|]; cbn [cbucket]; cbn in C; apply bytes_eqb_neq in C; congruence).
    (* CopyObject *)
    cbn [conflict] in C. apply orb_false_iff in C as [Cs Cd].
    destruct (kview_read _ _ _ _ (view_indep s p sb sk Cs)) as (_ & _ & SRC).
    pose proof (indep_keycall s (CPutR db dk (match copy_src s sb sk with inr r => r | inl _ => mk_rec 0 None {| o_tags := []; o_meta := None; o_class := None; o_ifnone := false; o_ifmatch := None |} end)) db dk p eq_refl Cd) as [A HB].
    unfold indep_stmt, StorageOutbox.app in *. cbn [StorageOutbox.apply_call] in *. rewrite SRC.
    destruct (copy_src s sb sk) as [e|r]; cbn [fst snd]; [split; reflexivity|]. split; [exact A | exact HB].
  - destruct r as [b k|b| |b|b|b k]; cbn [cont_class rd_class indep_stmt] in *.
    + apply (kview_read _ _ _ _ (view_indep s p b k C)).
    + cbn in C. apply (read_other_bucket s _ _ b); [assumption | reflexivity|]. apply bytes_eqb_neq in C. congruence.
    + cbn in C. apply is_empty_false in C. pose proof (replay_keycall p C) as K. cbn [StorageOutbox.read_inner].
      f_equal. apply filter_ext. intros b'. pose proof (key_keeps_bucket s _ _ _ b' K) as V.
      destruct (app s (replay_call p) b'), (s b'); try discriminate V; reflexivity.
    + cbn in C. apply andb_false_iff in C as [C|C].
      { apply (read_other_bucket s _ _ b); [assumption | reflexivity|]. apply bytes_eqb_neq in C. congruence. }
      apply is_empty_false in C. pose proof (replay_keycall p C) as K. cbn [StorageOutbox.read_inner].
      pose proof (key_keeps_bucket s _ _ _ b K) as V.
      destruct (app s (replay_call p) b), (s b); try discriminate V; reflexivity.
    + cbn in C. apply andb_false_iff in C as [C|C].
      { apply (read_other_bucket s _ _ b); [assumption | reflexivity|]. apply bytes_eqb_neq in C. congruence. }
      apply is_empty_false in C. pose proof (replay_keycall p C) as K. cbn [StorageOutbox.read_inner].
      pose proof (key_keeps_bucket s _ _ _ b K) as V.
      destruct (app s (replay_call p) b), (s b); try discriminate V; cbn in V; congruence.
    + apply (kview_read _ _ _ _ (view_indep s p b k C)).
Qed.

Definition qcalls (q : list entry) : list call := map (fun e => replay_call (e_pl e)) q.
Definition noconf (w : wclass) (q : list entry) : Prop := Forall (fun e => conflict w (e_pl e) = false) q.

Lemma indep_queue k q : noconf (cont_class k) q -> forall s,
  match k with
  | KCall c => apps (app s c) (qcalls q) = app (apps s (qcalls q)) c /\
               snd (apply_call (apps s (qcalls q)) c) = snd (apply_call s c)
  | KRead r => read_inner (apps s (qcalls q)) r = read_inner s r
  end.
Proof.
  induction 1 as [|e q He Hq IH]; intros s.
  - destruct k; cbn; auto.
  - pose proof (indep s k (e_pl e) He) as I. specialize (IH (app s (replay_call (e_pl e)))).
    destruct k as [c|r]; cbn [qcalls map StorageOutbox.apps fold_left] in *.
    + destruct I as [I1 I2], IH as [H1 H2]. fold (qcalls q) in *. unfold StorageOutbox.apps in *.
      split; [rewrite <- I1; exact H1 | rewrite H2; exact I2].
    + fold (qcalls q) in *. unfold StorageOutbox.apps in *. rewrite IH. exact I.
Qed.

Lemma find_none_forall {A} (f : A -> bool) l : find f l = None -> Forall (fun x => f x = false) l.
Proof.
  induction l as [|x l IH]; cbn; [constructor|]. destruct (f x) eqn:E; [discriminate|]. intros H. constructor; auto.
Qed.

Lemma last_conf_none w q : last_conf w q = None -> noconf w q.
Proof.
  unfold last_conf. intros H. destruct (find _ (rev q)) eqn:F; [discriminate|].
  apply find_none_forall in F. unfold noconf. rewrite Forall_forall in *. intros e He. apply F, in_rev.
  now rewrite rev_involutive.
Qed.

(* ---- queue ids ---- *)
Definition ids_ok (q : list entry) (n : N) : Prop :=
  StronglySorted N.lt (map e_id q) /\ Forall (fun e => (e_id e < n)%N) q.

Lemma ss_app_last (l : list N) (n : N) : StronglySorted N.lt l -> Forall (fun x => (x < n)%N) l ->
  StronglySorted N.lt (l ++ [n]).
Proof.
  induction 1 as [|a l S IH F]; intros H; cbn; [repeat constructor|].
  inversion H; subst. constructor; [auto|]. apply Forall_app; split; [exact F | repeat constructor; assumption].
Qed.

Lemma enqueue_spec ps : forall q n,
  map e_pl (fst (enqueue q n ps)) = map e_pl q ++ ps /\
  (ids_ok q n -> ids_ok (fst (enqueue q n ps)) (snd (enqueue q n ps))) /\
  (n <= snd (enqueue q n ps))%N /\
  (forall e, In e (fst (enqueue q n ps)) -> In e q \/ (n <= e_id e)%N).
Proof.
  induction ps as [|p t IH]; intros q n; cbn [enqueue fst snd].
  - rewrite app_nil_r. split; [reflexivity|]. split; [auto|]. split; [lia|]. auto.
  - destruct (IH (q ++ [{| e_id := n; e_pl := p |}]) (n + 1)%N) as (A & HB & C & D).
    split; [|split; [|split]].
    + rewrite A, map_app, <- app_assoc. reflexivity.
    + intros [S F]. apply HB. split.
      * rewrite map_app. cbn. apply ss_app_last; [exact S|]. rewrite Forall_map. exact F.
      * apply Forall_app; split; [eapply Forall_impl; [|exact F]; cbn; intros; lia | repeat constructor; cbn; lia].
    + lia.
    + intros e He. destruct (D e He) as [H|H]; [|right; lia].
      apply in_app_or in H as [H|[<-|[]]]; [left; exact H | right; cbn; lia].
Qed.

Lemma sorted_first_min w q i : StronglySorted N.lt (map e_id q) -> first_conf w q = Some i ->
  forall e, In e q -> conflict w (e_pl e) = true -> (i <= e_id e)%N.
Proof.
  unfold first_conf. induction q as [|x q IH]; cbn; [discriminate|]. intros S F e He Ce.
  inversion S as [|? ? S' Fa]; subst. destruct (conflict w (e_pl x)) eqn:Cx.
  - inversion F; subst. destruct He as [<-|He]; [lia|].
    rewrite Forall_map, Forall_forall in Fa. specialize (Fa e He). lia.
  - destruct He as [<-|He]; [congruence|]. eapply IH; eauto.
Qed.

Lemma sorted_last_max w q i : StronglySorted N.lt (map e_id q) -> last_conf w q = Some i ->
  forall e, In e q -> conflict w (e_pl e) = true -> (e_id e <= i)%N.
Proof.
  unfold last_conf. induction q as [|x q IH] using rev_ind; [cbn; discriminate|].
  rewrite rev_app_distr, map_app. cbn [rev app find map]. intros S F e He Ce.
  assert (S' : StronglySorted N.lt (map e_id q) /\ Forall (fun y => (y < e_id x)%N) (map e_id q)).
  { clear -S. induction (map e_id q) as [|a l IH]; cbn in *; [split; constructor|].
    inversion S as [|? ? S1 F1]; subst. destruct (IH S1) as [A HB]. apply Forall_app in F1 as [F1 F2].
    split; constructor; auto. inversion F2; assumption. }
  destruct S' as [S1 S2]. apply in_app_or in He as [He|[<-|[]]].
  - simpl in F. destruct (conflict w (e_pl x)) eqn:Cx; simpl in F.
    + inversion F; subst. rewrite Forall_map, Forall_forall in S2. specialize (S2 e He). cbn in S2. lia.
    + eapply IH; eauto.
  - simpl in F. rewrite Ce in F. simpl in F. inversion F. lia.
Qed.

(* ---- the refinement invariant ---- *)
Record Inv (s : ostate) (log : list call) : Prop := {
  inv_seq : apps init_inner log = apps (inner s) (qcalls (queue s));
  inv_ids : ids_ok (queue s) (next_id s);
  inv_fl : forall k w snap, inflight s = Some (k, w, snap) ->
           w = cont_class k /\
           forall e, In e (queue s) -> conflict w (e_pl e) = true -> (e_id e <= snap)%N }.

Lemma Inv_init : Inv init_state [].
Proof. split; cbn; [reflexivity | split; constructor | discriminate]. Qed.

Lemma apps_app s a b : apps s (a ++ b) = apps (apps s a) b.
Proof. unfold StorageOutbox.apps. apply fold_left_app. Qed.

Lemma wait_done_noconf s log k w snap : Inv s log -> inflight s = Some (k, w, snap) ->
  wait_done w snap (queue s) = true -> noconf (cont_class k) (queue s).
Proof.
  intros I F W. destruct (inv_fl _ _ I _ _ _ F) as [-> HB]. unfold wait_done in W.
  destruct (first_conf (cont_class k) (queue s)) as [i|] eqn:FC.
  - exfalso. unfold first_conf in FC. destruct (find _ (queue s)) as [e|] eqn:FE; [|discriminate].
    apply find_some in FE as [In1 C1]. inversion FC; subst. specialize (HB e In1 C1).
    apply N.ltb_lt in W. lia.
  - unfold first_conf in FC. destruct (find _ (queue s)) eqn:FE; [discriminate|]. now apply find_none_forall.
Qed.

(* performing a continuation whose class has nothing pending *)
Lemma perform_ok s log k : Inv s log -> noconf (cont_class k) (queue s) ->
  snd (perform UK UB s k) = direct UK UB (apps init_inner log) k /\
  Inv (fst (perform UK UB s k)) (log ++ match k with KCall c => [c] | KRead _ => [] end).
Proof.
  intros I NC. pose proof (indep_queue k (queue s) NC (inner s)) as Q. rewrite (inv_seq _ _ I).
  destruct k as [c|r]; cbn [perform direct].
  - destruct Q as [Q1 Q2]. destruct (apply_call (inner s) c) as [i' rr] eqn:A. cbn [fst snd].
    rewrite Q2. cbn [snd]. split; [reflexivity|]. split; cbn [inner queue next_id inflight].
    + rewrite apps_app, (inv_seq _ _ I). cbn. fold (app (apps (inner s) (qcalls (queue s))) c).
      rewrite <- Q1. unfold StorageOutbox.app. now rewrite A.
    + exact (inv_ids _ _ I).
    + discriminate.
  - cbn [fst snd]. split; [now rewrite Q|]. rewrite app_nil_r. split; cbn [inner queue next_id inflight].
    + exact (inv_seq _ _ I).
    + exact (inv_ids _ _ I).
    + discriminate.
Qed.

Definition client_ok (s : ostate) (o : op) : bool :=
  match inflight s, o with Some _, OCall _ | Some _, ORead _ => false | _, _ => true end.

Lemma begin_wait_spec s log k w : Inv s log -> inflight s = None -> w = cont_class k ->
  match last_conf w (queue s) with
  | None => snd (begin_wait UK UB s k w) = direct UK UB (apps init_inner log) k /\
            Inv (fst (begin_wait UK UB s k w)) (log ++ match k with KCall c => [c] | KRead _ => [] end)
  | Some _ => Inv (fst (begin_wait UK UB s k w)) log
  end.
Proof.
  intros I F ->. unfold begin_wait. destruct (last_conf (cont_class k) (queue s)) as [snap|] eqn:L.
  - cbn [fst]. split; cbn [inner queue next_id inflight]; [exact (inv_seq _ _ I) | exact (inv_ids _ _ I)|].
    intros k' w' snap' E. inversion E; subst. split; [reflexivity|].
    intros e He Ce. eapply sorted_last_max; eauto. exact (proj1 (inv_ids _ _ I)).
  - apply perform_ok; [exact I | now apply last_conf_none].
Qed.

Lemma step_inv s log o : Inv s log -> client_ok s o = true ->
  Inv (fst (step s o)) (log ++ accepts s o) /\
  (forall k, completes s o = Some k -> snd (step s o) = direct UK UB (apps init_inner log) k).
Proof.
  intros I OK. destruct o as [c|r| |].
  - (* OCall *)
    cbn [StorageOutbox.step accepts completes]. destruct (route (inner s) c) as [[w|] ps] eqn:R.
    + destruct (inflight s) as [fl|] eqn:F; [unfold client_ok in OK; rewrite F in OK; discriminate|].
      pose proof (route_class _ _ _ _ R) as Wc.
      pose proof (begin_wait_spec s log (KCall c) w I F Wc) as HB.
      destruct (last_conf w (queue s)) eqn:L.
      * rewrite app_nil_r. split; [exact HB | discriminate].
      * destruct HB as [B1 B2]. split; [exact B2|]. intros k E; inversion E; subst. exact B1.
    + destruct (rejects c); [cbn [fst]; rewrite app_nil_r; split; [exact I | discriminate]|].
      destruct (enqueue (queue s) (next_id s) ps) as [q' n'] eqn:E. cbn [fst snd].
      pose proof (enqueue_spec ps (queue s) (next_id s)) as (E1 & E2 & E3 & E4). rewrite E in *. cbn [fst snd] in *.
      split; [|discriminate]. split; cbn [inner queue next_id inflight].
      * assert (QC : qcalls q' = qcalls (queue s) ++ map replay_call ps).
        { unfold qcalls. rewrite <- (map_map e_pl replay_call q'), E1, map_app, map_map. reflexivity. }
        rewrite QC, !apps_app, (inv_seq _ _ I). rewrite (replayed_eq_accepted _ _ _ R). reflexivity.
      * apply E2. exact (inv_ids _ _ I).
      * intros k w snap F. unfold client_ok in OK. rewrite F in OK. discriminate.
  - cbn [StorageOutbox.step accepts completes]. rewrite app_nil_r.
    destruct (inflight s) as [fl|] eqn:F; [unfold client_ok in OK; rewrite F in OK; discriminate|].
    pose proof (begin_wait_spec s log (KRead r) (rd_class r) I F eq_refl) as HB.
    destruct (last_conf (rd_class r) (queue s)) eqn:L.
    + split; [exact HB | discriminate].
    + destruct HB as [B1 B2]. rewrite app_nil_r in B2. split; [exact B2|]. intros k E; inversion E; subst. exact B1.
  - (* OWork *)
    cbn [StorageOutbox.step accepts completes]. rewrite app_nil_r. split; [|discriminate].
    destruct (queue s) as [|e t] eqn:Q; [exact I|].
    destruct (apply_call (inner s) (replay_call (e_pl e))) as [i' [er|]] eqn:A; cbn [fst]; [exact I|].
    split; cbn [inner queue next_id inflight].
    + rewrite (inv_seq _ _ I), Q. cbn. unfold StorageOutbox.app at 2. now rewrite A.
    + destruct (inv_ids _ _ I) as [S Fa]. rewrite Q in *. cbn in S. inversion S; subst. inversion Fa; subst. split; assumption.
    + intros k w snap F. destruct (inv_fl _ _ I _ _ _ F) as [W HB]. split; [exact W|].
      intros e' He. apply HB. rewrite Q. right. exact He.
  - (* OJoin *)
    cbn [StorageOutbox.step accepts completes].
    destruct (inflight s) as [[[k w] snap]|] eqn:F.
    + destruct (wait_done w snap (queue s)) eqn:W.
      * pose proof (wait_done_noconf s log k w snap I F W) as NC.
        destruct (perform_ok s log k I NC) as [P1 P2]. split.
        -- destruct k; exact P2.
        -- intros k' E; inversion E; subst. exact P1.
      * rewrite app_nil_r. split; [exact I | discriminate].
    + rewrite app_nil_r. split; [exact I | discriminate].
Qed.

Lemma run_inv ops : forall s log, Inv s log -> seqclient UK UB s ops = true ->
  Inv (fst (run s ops)) (log ++ accepted UK UB s ops).
Proof.
  induction ops as [|o t IH]; intros s log I SC; cbn [StorageOutbox.run accepted].
  - now rewrite app_nil_r.
  - cbn [seqclient] in SC. apply andb_true_iff in SC as [OK SC].
    destruct (step_inv s log o I OK) as [I' _].
    destruct (step s o) as [s1 r] eqn:E. cbn [fst] in *.
    destruct (run s1 t) as [s2 rs] eqn:E2. cbn [fst].
    specialize (IH s1 _ I' SC). rewrite E2 in IH. cbn [fst] in IH. now rewrite app_assoc.
Qed.

(* ---- the theorems ---- *)
Theorem drained_eq_sequential ops :
  seqclient UK UB init_state ops = true ->
  queue (state_after UK UB ops) = [] ->
  inner (state_after UK UB ops) = apps init_inner (accepted UK UB init_state ops).
Proof.
  intros SC Q. pose proof (run_inv ops init_state [] Inv_init SC) as I. cbn [List.app] in I.
  pose proof (inv_seq _ _ I) as S. unfold state_after in *. rewrite Q in S. cbn in S. now rewrite S.
Qed.

Theorem completed_eq_direct ops o k :
  seqclient UK UB init_state ops = true ->
  completes (state_after UK UB ops) o = Some k ->
  snd (step (state_after UK UB ops) o) = direct UK UB (apps init_inner (accepted UK UB init_state ops)) k.
Proof.
  intros SC C. pose proof (run_inv ops init_state [] Inv_init SC) as I. cbn [List.app] in I.
  assert (OK : client_ok (state_after UK UB ops) o = true).
  { unfold client_ok. destruct o; cbn in C; destruct (inflight (state_after UK UB ops)); try reflexivity.
    - destruct (route _ c) as [[w|] ?]; discriminate.
    - discriminate. }
  exact (proj2 (step_inv _ _ o I OK) k C).
Qed.

(* a completing operation finds nothing of its class pending *)
Theorem completes_noconf ops o k :
  seqclient UK UB init_state ops = true ->
  completes (state_after UK UB ops) o = Some k ->
  noconf (cont_class k) (queue (state_after UK UB ops)).
Proof.
  intros SC C. pose proof (run_inv ops init_state [] Inv_init SC) as I. cbn [List.app] in I.
  set (s := state_after UK UB ops) in *. fold s in I. fold (state_after UK UB ops) in I. fold s in I.
  destruct o as [c|r| |]; cbn [completes] in C.
  - destruct (route (inner s) c) as [[w|] ps] eqn:R; [|discriminate].
    destruct (inflight s); [discriminate|]. destruct (last_conf w (queue s)) eqn:L; [discriminate|].
    inversion C; subst. rewrite <- (route_class _ _ _ _ R). now apply last_conf_none.
  - destruct (inflight s); [discriminate|]. destruct (last_conf (rd_class r) (queue s)) eqn:L; [discriminate|].
    inversion C; subst. now apply last_conf_none.
  - discriminate.
  - destruct (inflight s) as [[[k' w] snap]|] eqn:F; [|discriminate].
    destruct (wait_done w snap (queue s)) eqn:W; [|discriminate]. inversion C; subst.
    eapply wait_done_noconf; eauto.
Qed.

(* ---- the snapshot wait, for ALL interleavings (other clients may enqueue while one waits) ---- *)
Lemma step_ids s o : ids_ok (queue s) (next_id s) ->
  ids_ok (queue (fst (step s o))) (next_id (fst (step s o))) /\ (next_id s <= next_id (fst (step s o)))%N.
Proof.
  intros I.
  assert (P : forall k, ids_ok (queue (fst (perform UK UB s k))) (next_id (fst (perform UK UB s k))) /\
                        (next_id s <= next_id (fst (perform UK UB s k)))%N).
  { intros k. destruct k; cbn [perform]; [destruct (apply_call (inner s) c)|]; cbn [fst queue next_id]; split; try exact I; lia. }
  assert (G : forall k w, ids_ok (queue (fst (begin_wait UK UB s k w))) (next_id (fst (begin_wait UK UB s k w))) /\
                        (next_id s <= next_id (fst (begin_wait UK UB s k w)))%N).
  { intros k w. unfold begin_wait. destruct (last_conf w (queue s)); [|apply P].
    cbn [fst queue next_id]; split; try exact I; lia. }
  destruct o as [c|r| |]; cbn [StorageOutbox.step].
  - destruct (route (inner s) c) as [[w|] ps].
    + destruct (inflight s); [|apply G]. cbn [fst]; split; try exact I; lia.
    + destruct (rejects c); [cbn [fst]; split; [exact I | lia]|].
      pose proof (enqueue_spec ps (queue s) (next_id s)) as (E1 & E2 & E3 & E4).
      destruct (enqueue (queue s) (next_id s) ps) as [q' n']. cbn [fst snd queue next_id] in *. split; [apply E2; exact I | exact E3].
  - destruct (inflight s); [|apply G]. cbn [fst]; split; try exact I; lia.
  - destruct (queue s) as [|e t] eqn:Q; [cbn [fst]; rewrite Q; split; [exact I | lia]|].
    destruct (apply_call (inner s) (replay_call (e_pl e))) as [i' [er|]]; cbn [fst queue next_id].
    + rewrite Q. split; [exact I | lia].
    + destruct I as [S Fa]. cbn in S. inversion S; subst. inversion Fa; subst. split; [split; assumption | lia].
  - destruct (inflight s) as [[[k w] snap]|]; [|cbn [fst]; split; [exact I | lia]].
    destruct (wait_done w snap (queue s)); [apply P|cbn [fst]; split; [exact I | lia]].
Qed.

Lemma run_ids ops : forall s, ids_ok (queue s) (next_id s) -> ids_ok (queue (fst (run s ops))) (next_id (fst (run s ops))).
Proof.
  induction ops as [|o t IH]; intros s I; cbn [StorageOutbox.run]; [exact I|].
  pose proof (step_ids s o I) as [I' _]. destruct (step s o) as [s1 r]. cbn [fst] in *.
  specialize (IH s1 I'). destruct (run s1 t). exact IH.
Qed.

Theorem wait_begin_snapshot ops o k w snap :
  inflight (state_after UK UB ops) = None ->
  inflight (fst (step (state_after UK UB ops) o)) = Some (k, w, snap) ->
  (forall e, In e (queue (state_after UK UB ops)) -> conflict w (e_pl e) = true -> (e_id e <= snap)%N) /\
  (snap < next_id (state_after UK UB ops))%N.
Proof.
  set (s := state_after UK UB ops). intros F0 F1.
  assert (I : ids_ok (queue s) (next_id s)) by (apply (run_ids ops init_state); split; constructor).
  assert (G : forall kk ww, inflight (fst (begin_wait UK UB s kk ww)) = Some (k, w, snap) ->
              ww = w /\ last_conf w (queue s) = Some snap).
  { intros kk ww. unfold begin_wait. destruct (last_conf ww (queue s)) eqn:L.
    - cbn. intros E; inversion E; subst. auto.
    - destruct kk; cbn [perform]; [destruct (apply_call (inner s) c)|]; cbn; discriminate. }
  assert (L : last_conf w (queue s) = Some snap).
  { destruct o as [c|r| |]; cbn [StorageOutbox.step] in F1.
    - destruct (route (inner s) c) as [[ww|] ps].
      + rewrite F0 in F1. now destruct (G _ _ F1) as [-> ?].
      + destruct (rejects c); [cbn [fst] in F1; congruence|]. destruct (enqueue _ _ _). cbn [fst inflight] in F1. congruence.
    - rewrite F0 in F1. destruct (G _ _ F1) as [<- ?]. assumption.
    - destruct (queue s) as [|e t]; [cbn [fst] in F1; congruence|].
      destruct (apply_call (inner s) (replay_call (e_pl e))) as [i' [er|]]; cbn [fst inflight] in F1; congruence.
    - rewrite F0 in F1. cbn [fst] in F1. congruence. }
  split.
  - intros e He Ce. eapply sorted_last_max; eauto. exact (proj1 I).
  - unfold last_conf in L. destruct (find _ (rev (queue s))) as [e|] eqn:Fd; [|discriminate].
    apply find_some in Fd as [He _]. apply in_rev in He. inversion L; subst.
    destruct I as [_ Fa]. rewrite Forall_forall in Fa. exact (Fa e He).
Qed.

Theorem wait_done_snapshot ops k w snap :
  inflight (state_after UK UB ops) = Some (k, w, snap) ->
  wait_done w snap (queue (state_after UK UB ops)) = true ->
  forall e, In e (queue (state_after UK UB ops)) -> conflict w (e_pl e) = true -> (snap < e_id e)%N.
Proof.
  set (s := state_after UK UB ops). intros F W e He Ce.
  assert (I : ids_ok (queue s) (next_id s)) by (apply (run_ids ops init_state); split; constructor).
  unfold wait_done in W. destruct (first_conf w (queue s)) as [i|] eqn:FC.
  - apply N.ltb_lt in W. pose proof (sorted_first_min w (queue s) i (proj1 I) FC e He Ce). lia.
  - unfold first_conf in FC. destruct (find _ (queue s)) eqn:Fd; [discriminate|].
    apply find_none_forall in Fd. rewrite Forall_forall in Fd. specialize (Fd e He). cbn in Fd. congruence.
Qed.

(* ---- progress of the worker ---- *)
Fixpoint replay_ok (i : istate) (q : list entry) : bool :=
  match q with
  | [] => true
  | e :: t => match apply_call i (replay_call (e_pl e)) with
              | (i', None) => replay_ok i' t
              | (_, Some _) => false
              end
  end.

Theorem drains_when_replays_succeed : forall s,
  replay_ok (inner s) (queue s) = true ->
  queue (fst (run s (repeat OWork (length (queue s))))) = [].
Proof.
  intros s. remember (queue s) as q eqn:Q. revert s Q. induction q as [|e t IH]; intros s Q H; cbn [length repeat StorageOutbox.run].
  - now rewrite Q.
  - cbn [StorageOutbox.step]. rewrite <- Q. cbn [replay_ok] in H.
    destruct (apply_call (inner s) (replay_call (e_pl e))) as [i' [er|]] eqn:A; [discriminate|].
    specialize (IH {| inner := i'; queue := t; next_id := next_id s; inflight := inflight s |} eq_refl H).
    cbn [queue] in IH. destruct (run _ (repeat OWork (length t))) as [s2 rs]. exact IH.
Qed.

Lemma stuck_forever s e t er n :
  queue s = e :: t -> snd (apply_call (inner s) (replay_call (e_pl e))) = Some er ->
  fst (run s (repeat OWork n)) = s.
Proof.
  intros Q A. induction n as [|n IH]; cbn [repeat StorageOutbox.run]; [reflexivity|].
  cbn [StorageOutbox.step]. rewrite Q. destruct (apply_call (inner s) (replay_call (e_pl e))) as [i' r]. cbn in A. subst r.
  destruct (run s (repeat OWork n)) as [s2 rs]. exact IH.
Qed.
End P.
