(* Proofs/StorageOutboxOwnersProofs.v — C21, FIFO across claim owners *)
From Verif Require Import Bytes Codec StorageOutbox StorageOutboxOwners.
From Coq Require Import Sorting.Sorted.

Section P.
Variable lease : N.
Variable UK : list bytes.
Notation step_m := (step_m lease UK).
Notation run_m := (run_m lease UK).
Notation apps := (apps UK).
Notation app := (app UK).

Definition is_replayed (st : owstate) : bool := match st with OReplayed _ _ => true | _ => false end.
Definition oholds (st : owstate) : option (N * payload) :=
  match st with OIdle => None | OHolding i p | OReplayed i p => Some (i, p) end.
Definition flag (ws : list nat) (s : mstate) : bool := existsb (fun w => is_replayed (m_workers s w)) ws.
Definition pls (q : list oentry) : list payload := map oe_pl q.
(* the entries whose replay is still to come: the queue, minus its head once the head's owner has
   replayed it *)
Definition pending (ws : list nat) (s : mstate) : list payload :=
  if flag ws s then tl (pls (m_queue s)) else pls (m_queue s).
Definition pcalls (l : list payload) : list call := map replay_call l.

Record MInv (ws : list nat) (s : mstate) (log : list call) : Prop := {
  mi_spec : apps init_inner log = apps (m_inner s) (pcalls (pending ws s));
  mi_ids : StronglySorted N.lt (map oe_id (m_queue s)) /\ Forall (fun e => (oe_id e < m_next s)%N) (m_queue s);
  mi_ws : forall w, m_workers s w <> OIdle -> In w ws;
  mi_one : forall w w', m_workers s w <> OIdle -> m_workers s w' <> OIdle -> w = w';
  mi_head : forall w i p, oholds (m_workers s w) = Some (i, p) ->
            exists e t, m_queue s = e :: t /\ oe_id e = i /\ oe_pl e = p /\ oe_owner e = Some w }.

Lemma MInv_init ws : MInv ws minit [].
Proof.
  split; cbn.
  - unfold pending, flag. cbn. replace (existsb _ ws) with false; [reflexivity|].
    symmetry. induction ws; cbn; auto.
  - split; constructor.
  - intros w H; congruence.
  - intros w w' H; congruence.
  - intros w i p H; discriminate.
Qed.

Lemma mwupd_same f w v : mwupd f w v w = v.
Proof. unfold mwupd. now rewrite Nat.eqb_refl. Qed.
Lemma mwupd_other f w v x : x <> w -> mwupd f w v x = f x.
Proof. intros H. unfold mwupd. apply Nat.eqb_neq in H. now rewrite H. Qed.

Lemma flag_false ws s : (forall w, is_replayed (m_workers s w) = false) -> flag ws s = false.
Proof. intros H. unfold flag. induction ws as [|a l IH]; cbn; [reflexivity|]. now rewrite H, IH. Qed.
Lemma flag_true ws s w : In w ws -> is_replayed (m_workers s w) = true -> flag ws s = true.
Proof. intros I R. unfold flag. apply existsb_exists. eauto. Qed.

Lemma menqueue_spec ps : forall q n,
  pls (fst (menqueue q n ps)) = pls q ++ ps /\
  (StronglySorted N.lt (map oe_id q) /\ Forall (fun e => (oe_id e < n)%N) q ->
   StronglySorted N.lt (map oe_id (fst (menqueue q n ps))) /\
   Forall (fun e => (oe_id e < snd (menqueue q n ps))%N) (fst (menqueue q n ps))) /\
  (exists new, fst (menqueue q n ps) = q ++ new).
Proof.
  induction ps as [|p t IH]; intros q n; cbn [menqueue fst snd].
  - rewrite app_nil_r. split; [reflexivity|]. split; [auto|]. exists []. now rewrite app_nil_r.
  - destruct (IH (q ++ [{| oe_id := n; oe_pl := p; oe_owner := None; oe_until := 0 |}]) (n + 1)%N) as (A & HB & [new C]).
    split; [|split].
    + rewrite A. unfold pls. rewrite map_app, <- app_assoc. reflexivity.
    + intros [S F]. apply HB. split.
      * rewrite map_app. cbn. clear -S F. induction q as [|a l IHl]; cbn in *; [repeat constructor|].
        inversion S; subst. inversion F; subst. constructor; [auto|].
        rewrite Forall_app. split; [assumption | repeat constructor; assumption].
      * apply Forall_app; split; [eapply Forall_impl; [|exact F]; cbn; intros; lia | repeat constructor; cbn; lia].
    + exists ({| oe_id := n; oe_pl := p; oe_owner := None; oe_until := 0 |} :: new).
      rewrite C, <- app_assoc. reflexivity.
Qed.

Lemma apps_app s a b : apps s (a ++ b) = apps (apps s a) b.
Proof. unfold StorageOutbox.apps. apply fold_left_app. Qed.

Lemma pls_omap q id f : (forall e, oe_pl (f e) = oe_pl e) -> pls (omap q id f) = pls q.
Proof. intros H. unfold pls, omap. rewrite map_map. apply map_ext. intros e. destruct (oe_id e =? id)%N; auto. Qed.
Lemma ids_omap q id f : (forall e, oe_id (f e) = oe_id e) -> map oe_id (omap q id f) = map oe_id q.
Proof. intros H. unfold omap. rewrite map_map. apply map_ext. intros e. destruct (oe_id e =? id)%N; auto. Qed.

Definition ok_step (s : mstate) (ws : list nat) (a : mstep) : bool :=
  match a with
  | MClaim w =>
      match m_queue s with
      | e :: _ => negb (match m_workers s w with OIdle => oclaimable e (m_now s) | _ => false end
                        && m_held_by_other s ws w (oe_id e))
      | [] => true
      end
  | MCrash w => match m_workers s w with OReplayed _ _ => false | _ => true end
  | _ => true
  end.
Definition macc (s : mstate) (a : mstep) : list call :=
  match a with
  | MCall c => match route (m_inner s) c with (None, ps) => if rejects c then [] else map replay_call ps | _ => [] end
  | _ => []
  end.

(* all other workers are idle when w is live *)
Lemma others_idle ws s log w : MInv ws s log -> m_workers s w <> OIdle -> forall w', w' <> w -> m_workers s w' = OIdle.
Proof.
  intros I H w' N. destruct (m_workers s w') eqn:E; [reflexivity | exfalso; apply N; eapply (mi_one _ _ _ I); congruence..].
Qed.

Lemma mstep_inv ws s log a : MInv ws s log -> incl (m_step_worker a) ws -> ok_step s ws a = true ->
  MInv ws (fst (step_m s a)) (log ++ macc s a).
Proof.
  intros I W OK. pose proof I as [Sp [Srt Flt] Ws One Hd].
  destruct a as [c|w|w|w|w|w|n]; cbn [StorageOutboxOwners.step_m macc]; try rewrite app_nil_r.
  - (* client call *)
    destruct (route (m_inner s) c) as [[cl|] ps]; [rewrite app_nil_r; exact I|].
    destruct (rejects c); [rewrite app_nil_r; exact I|].
    pose proof (menqueue_spec ps (m_queue s) (m_next s)) as (A & HB & [new C]).
    destruct (menqueue (m_queue s) (m_next s) ps) as [q' n']. cbn [fst snd] in *.
    split; cbn [m_inner m_queue m_now m_next m_workers]; auto.
    + unfold pending. change (flag ws {| m_inner := m_inner s; m_queue := q'; m_now := m_now s; m_next := n'; m_workers := m_workers s |}) with (flag ws s).
      cbn [m_queue m_inner]. unfold pending in Sp. rewrite A.
      destruct (flag ws s) eqn:Fl.
      * unfold flag in Fl. apply existsb_exists in Fl as (w & Hw & R). destruct (m_workers s w) eqn:Ww; try discriminate R.
        destruct (Hd w id p) as (e & t & E & _); [rewrite Ww; reflexivity|].
        unfold pls in *. rewrite E in *. cbn [map tl List.app] in *.
        unfold pcalls in *. rewrite map_app, !apps_app, Sp. reflexivity.
      * unfold pcalls in *. rewrite map_app, !apps_app, Sp. reflexivity.
    + intros w i p H. destruct (Hd w i p H) as (e & t & E & R). rewrite C, E. exists e, (t ++ new). split; [reflexivity | exact R].
  - (* claim *)
    destruct (m_workers s w) eqn:Ww; try exact I.
    destruct (m_queue s) as [|e t] eqn:Es; [exact I|].
    destruct (oclaimable e (m_now s)) eqn:Cl; [|exact I].
    unfold ok_step in OK. rewrite Es, Ww, Cl in OK. cbn in OK. apply negb_true_iff in OK.
    assert (NoOther : forall w', m_workers s w' = OIdle).
    { intros w'. destruct (m_workers s w') eqn:Ww'; [reflexivity | exfalso..];
        (assert (In w' ws) by (apply Ws; congruence);
         destruct (Hd w' id p) as (e' & t' & E' & I1 & _); [rewrite Ww'; reflexivity|]; inversion E'; subst e' t';
         assert (m_held_by_other s ws w (oe_id e) = true);
         [unfold m_held_by_other; apply existsb_exists; exists w'; split; [assumption|];
          rewrite Ww', I1, N.eqb_refl, andb_true_r; apply negb_true_iff, Nat.eqb_neq; intros ->; congruence | congruence]). }
    cbn [fst]. split; cbn [m_inner m_queue m_now m_next m_workers].
    + unfold pending in *. rewrite (flag_false ws s) in Sp by (intros x; now rewrite NoOther).
      rewrite flag_false.
      * rewrite Es in Sp. exact Sp.
      * intros x. cbn [m_workers]. destruct (Nat.eq_dec x w) as [->|N]; [now rewrite mwupd_same | rewrite mwupd_other by assumption; now rewrite NoOther].
    + cbn in *. split; [exact Srt|]. inversion Flt; subst. constructor; assumption.
    + intros w' H. destruct (Nat.eq_dec w' w) as [->|N]; [apply W; cbn; auto|]. rewrite mwupd_other in H by assumption. auto.
    + intros w1 w2 H1 H2. destruct (Nat.eq_dec w1 w) as [->|N1], (Nat.eq_dec w2 w) as [->|N2]; try reflexivity;
        [rewrite mwupd_other in H2 by assumption; now rewrite NoOther in H2
        |rewrite mwupd_other in H1 by assumption; now rewrite NoOther in H1
        |rewrite mwupd_other in H1 by assumption; now rewrite NoOther in H1].
    + intros w' i p H. destruct (Nat.eq_dec w' w) as [->|N].
      * rewrite mwupd_same in H. cbn in H. inversion H; subst. eexists _, t. repeat split; reflexivity.
      * rewrite mwupd_other in H by assumption. rewrite NoOther in H. discriminate.
  - (* replay *)
    destruct (m_workers s w) eqn:Ww; try exact I.
    destruct (Hd w id p) as (e & t & E & I1 & I2 & I3); [rewrite Ww; reflexivity|].
    assert (Live : m_workers s w <> OIdle) by congruence.
    pose proof (others_idle ws s log w I Live) as Idle.
    assert (F0 : flag ws s = false).
    { apply flag_false. intros x. destruct (Nat.eq_dec x w) as [->|N]; [now rewrite Ww | now rewrite Idle]. }
    destruct (apply_call UK (m_inner s) (replay_call p)) as [i' [er|]] eqn:A; cbn [fst].
    + (* failed: release *)
      split; cbn [m_inner m_queue m_now m_next m_workers].
      * unfold pending in *. rewrite F0 in Sp. rewrite flag_false.
        -- cbn [m_queue]. rewrite pls_omap; [exact Sp|]. intros x; destruct (oowned x w); reflexivity.
        -- intros x. cbn [m_workers]. destruct (Nat.eq_dec x w) as [->|N]; [now rewrite mwupd_same | rewrite mwupd_other by assumption; now rewrite Idle].
      * rewrite ids_omap by (intros x; destruct (oowned x w); reflexivity). split; [exact Srt|].
        unfold omap. rewrite Forall_map. eapply Forall_impl; [|exact Flt]. cbn. intros x H.
        destruct (oe_id x =? id)%N; [destruct (oowned x w)|]; exact H.
      * intros w' H. destruct (Nat.eq_dec w' w) as [->|N]; [rewrite mwupd_same in H; congruence|].
        rewrite mwupd_other in H by assumption. auto.
      * intros w1 w2 H1 H2. destruct (Nat.eq_dec w1 w) as [->|N1]; [rewrite mwupd_same in H1; congruence|].
        rewrite mwupd_other, Idle in H1 by assumption. congruence.
      * intros w' i p' H. destruct (Nat.eq_dec w' w) as [->|N]; [rewrite mwupd_same in H; discriminate|].
        rewrite mwupd_other, Idle in H by assumption. discriminate.
    + (* replayed *)
      split; cbn [m_inner m_queue m_now m_next m_workers].
      * unfold pending in *. rewrite F0 in Sp.
        rewrite (flag_true ws _ w); [| apply Ws; congruence | cbn [m_workers]; now rewrite mwupd_same].
        cbn [m_queue]. unfold pls in *. rewrite E in *. cbn [map tl] in *. rewrite I2 in Sp. cbn in Sp.
        unfold StorageOutbox.app in Sp. rewrite A in Sp. exact Sp.
      * exact (conj Srt Flt).
      * intros w' H. destruct (Nat.eq_dec w' w) as [->|N]; [apply Ws; congruence|]. rewrite mwupd_other in H by assumption. auto.
      * intros w1 w2 H1 H2.
        assert (G : forall x, mwupd (m_workers s) w (OReplayed id p) x <> OIdle -> m_workers s x <> OIdle).
        { intros x Hx. destruct (Nat.eq_dec x w) as [->|N]; [congruence|]. now rewrite mwupd_other in Hx. }
        apply One; apply G; assumption.
      * intros w' i p' H. destruct (Nat.eq_dec w' w) as [->|N].
        -- rewrite mwupd_same in H. cbn in H. inversion H; subst. exists e, t. auto.
        -- rewrite mwupd_other in H by assumption. apply Hd. exact H.
  - (* finalize *)
    destruct (m_workers s w) eqn:Ww; try exact I.
    destruct (Hd w id p) as (e & t & E & I1 & I2 & I3); [rewrite Ww; reflexivity|].
    assert (Live : m_workers s w <> OIdle) by congruence.
    pose proof (others_idle ws s log w I Live) as Idle.
    assert (Own : oowned e w = true) by (unfold oowned; rewrite I3; apply Nat.eqb_refl).
    assert (Ex : existsb (fun e0 => (oe_id e0 =? id)%N && oowned e0 w) (m_queue s) = true).
    { rewrite E. cbn. now rewrite I1, N.eqb_refl, Own. }
    rewrite Ex. cbn [fst].
    assert (Flt' : filter (fun e0 => negb ((oe_id e0 =? id)%N && oowned e0 w)) (m_queue s) = t).
    { rewrite E. cbn. rewrite I1, N.eqb_refl, Own. cbn.
      rewrite E in Srt. cbn in Srt. inversion Srt as [|? ? S1 F1]; subst.
      clear -F1. induction t as [|x t IH]; cbn in *; [reflexivity|]. inversion F1; subst.
      replace (oe_id x =? oe_id e)%N with false by (symmetry; apply N.eqb_neq; lia). cbn. f_equal. auto. }
    rewrite Flt'.
    split; cbn [m_inner m_queue m_now m_next m_workers].
    + unfold pending in *. rewrite (flag_true ws s w) in Sp; [| apply Ws; congruence | now rewrite Ww].
      rewrite flag_false.
      * cbn [m_queue]. unfold pls in *. rewrite E in Sp. cbn [map tl] in Sp. exact Sp.
      * intros x. cbn [m_workers]. destruct (Nat.eq_dec x w) as [->|N]; [now rewrite mwupd_same | rewrite mwupd_other by assumption; now rewrite Idle].
    + rewrite E in *. cbn in *. inversion Srt; subst. inversion Flt; subst. split; assumption.
    + intros w' H. destruct (Nat.eq_dec w' w) as [->|N]; [rewrite mwupd_same in H; congruence|].
      rewrite mwupd_other in H by assumption. auto.
    + intros w1 w2 H1 H2. destruct (Nat.eq_dec w1 w) as [->|N1]; [rewrite mwupd_same in H1; congruence|].
      rewrite mwupd_other, Idle in H1 by assumption. congruence.
    + intros w' i p' H. destruct (Nat.eq_dec w' w) as [->|N]; [rewrite mwupd_same in H; discriminate|].
      rewrite mwupd_other, Idle in H by assumption. discriminate.
  - (* heartbeat *)
    assert (G : forall id, MInv ws {| m_inner := m_inner s;
                m_queue := omap (m_queue s) id (fun e => if oowned e w then oset e (Some w) (m_now s + lease)%N else e);
                m_now := m_now s; m_next := m_next s; m_workers := m_workers s |} log).
    { intros id. split; cbn [m_inner m_queue m_now m_next m_workers]; auto.
      - unfold pending, flag in *. cbn [m_workers m_queue]. rewrite pls_omap; [exact Sp|]. intros x; destruct (oowned x w); reflexivity.
      - rewrite ids_omap by (intros x; destruct (oowned x w); reflexivity). split; [exact Srt|].
        unfold omap. rewrite Forall_map. eapply Forall_impl; [|exact Flt]. cbn. intros x H.
        destruct (oe_id x =? id)%N; [destruct (oowned x w)|]; exact H.
      - intros w' i p H. destruct (Hd w' i p H) as (e & t & E & I1 & I2 & I3). rewrite E. cbn.
        eexists _, _. split; [reflexivity|].
        destruct (oe_id e =? id)%N; [destruct (oowned e w) eqn:O|]; cbn; auto.
        repeat split; auto. unfold oowned in O. rewrite I3 in O. apply Nat.eqb_eq in O. now subst. }
    destruct (m_workers s w); cbn [fst]; [exact I | apply G..].
  - (* crash: only of a worker that has not replayed *)
    unfold ok_step in OK. cbn [fst].
    assert (NR : is_replayed (m_workers s w) = false) by (destruct (m_workers s w); [reflexivity..|discriminate OK]).
    split; cbn [m_inner m_queue m_now m_next m_workers]; auto.
    + unfold pending, flag in *. cbn [m_workers m_queue].
      replace (existsb (fun x => is_replayed (mwupd (m_workers s) w OIdle x)) ws) with (existsb (fun x => is_replayed (m_workers s x)) ws); [exact Sp|].
      clear -NR. induction ws as [|a l IH]; cbn; [reflexivity|]. rewrite IH. f_equal.
      destruct (Nat.eq_dec a w) as [->|N]; [now rewrite mwupd_same, NR | now rewrite mwupd_other].
    + intros w' H. destruct (Nat.eq_dec w' w) as [->|N]; [rewrite mwupd_same in H; congruence|].
      rewrite mwupd_other in H by assumption. auto.
    + intros w1 w2 H1 H2.
      assert (G : forall x, mwupd (m_workers s) w OIdle x <> OIdle -> m_workers s x <> OIdle).
      { intros x Hx. destruct (Nat.eq_dec x w) as [->|N]; [rewrite mwupd_same in Hx; congruence|]. now rewrite mwupd_other in Hx. }
      apply One; apply G; assumption.
    + intros w' i p' H. destruct (Nat.eq_dec w' w) as [->|N]; [rewrite mwupd_same in H; discriminate|].
      rewrite mwupd_other in H by assumption. apply Hd. exact H.
  - (* tick *)
    cbn [fst]. split; cbn [m_inner m_queue m_now m_next m_workers]; auto.
Qed.

Lemma mrun_inv ws tr : forall s log, MInv ws s log -> incl (m_trace_workers tr) ws -> m_orderly lease UK s ws tr = true ->
  MInv ws (fst (run_m s tr)) (log ++ m_accepted lease UK s tr).
Proof.
  induction tr as [|a t IH]; intros s log I W NS; cbn [StorageOutboxOwners.run_m m_accepted].
  - now rewrite app_nil_r.
  - cbn [m_orderly] in NS. apply andb_true_iff in NS as [OK NS].
    cbn [m_trace_workers flat_map] in W. apply incl_app_inv in W as [W1 W2].
    assert (OK' : ok_step s ws a = true) by (destruct a; exact OK).
    pose proof (mstep_inv ws s log a I W1 OK') as I'.
    destruct (step_m s a) as [s1 r] eqn:E. cbn [fst] in *.
    specialize (IH s1 _ I' W2 NS). destruct (run_m s1 t) as [s2 rs]. cbn [fst] in *.
    rewrite <- app_assoc in IH. destruct a; cbn [macc] in IH; exact IH.
Qed.

Theorem fifo_across_owners tr :
  m_orderly lease UK minit (m_trace_workers tr) tr = true ->
  m_queue (fst (run_m minit tr)) = [] ->
  m_inner (fst (run_m minit tr)) = apps init_inner (m_accepted lease UK minit tr).
Proof.
  intros NS E. pose proof (mrun_inv _ tr minit [] (MInv_init _) (incl_refl _) NS) as I. cbn [List.app] in I.
  pose proof (mi_spec _ _ _ I) as S. unfold pending, pls in S. rewrite E in S. cbn in S.
  destruct (flag _ _); cbn in S; now rewrite S.
Qed.

(* a single owner that does not die never violates the assumption *)
Definition no_crash (a : mstep) : Prop := match a with MCrash _ => False | _ => True end.
Lemma one_owner_orderly w0 ws tr : (forall x, In x ws -> x = w0) -> incl (m_trace_workers tr) ws ->
  Forall no_crash tr -> forall s, m_orderly lease UK s ws tr = true.
Proof.
  intros A. induction tr as [|a t IH]; intros W NC s; cbn [m_orderly]; [reflexivity|].
  cbn [m_trace_workers flat_map] in W. apply incl_app_inv in W as [W1 W2]. inversion NC as [|? ? N1 N2]; subst.
  apply andb_true_iff. split; [|apply IH; assumption].
  destruct a; try reflexivity.
  - destruct (m_queue s) as [|e t']; [reflexivity|].
    assert (w = w0) as -> by (apply A, W1; cbn; auto).
    replace (m_held_by_other s ws w0 (oe_id e)) with false; [now rewrite andb_false_r|].
    symmetry. unfold m_held_by_other. apply not_true_is_false. intros H. apply existsb_exists in H as (x & Hx & H).
    rewrite (A x Hx), Nat.eqb_refl in H. discriminate.
  - contradiction.
Qed.
End P.
