(* Proofs/StoresBlocks.v — the transaction building blocks of Model/MetaGcStores.v preserve the generalized
   invariant PI. *)
From Coq Require Import Lia ZifyBool ZifyN ZifyNat.
From Verif Require Import Bytes Codec MetaGc MetaGcStores StoresBasics.

Lemma optn_None n : optn n = None <-> n = 0%N.
Proof. unfold optn. destruct (N.eqb_spec n 0); split; congruence. Qed.
Lemma optn_Some n : n <> 0%N -> optn n = Some n.
Proof. unfold optn. destruct (N.eqb_spec n 0); congruence. Qed.

(* ---- alloc ---- *)
Lemma alloc_PI D s e nw st c : PI D s e nw ->
  PI D (snd (alloc s st c)) e nw
  /\ bget (blobs (snd (alloc s st c))) (st, nextp s) = Some c
  /\ (forall k, snd k <> nextp s -> bget (blobs (snd (alloc s st c))) k = bget (blobs s) k).
Proof.
  intros H. pose proof (PI_fresh _ _ _ _ H) as (Hc & He & Hr & HD & Hn & Hi & Hb).
  assert (forall k, snd k <> nextp s -> bget (blobs (snd (alloc s st c))) k = bget (blobs s) k) as Hk.
  { intros k Hne. cbn. apply bget_cons_other. intros ->. now cbn in Hne. }
  split; [|split; auto].
  - destruct H as [H1 H2 H3 H4 H5 H6 H7]. constructor; cbn [alloc snd reg rows idx nextp]; auto.
    + intros r Hin. rewrite Hk; auto. cbn. intros Heq.
      assert (cntid (nextp s) (rows s) <> 0%N) by (eapply cntid_In_pos; eauto). rewrite <- scount_cntid in *. lia.
    + intros st0 c0 id Hin. destruct (H3 _ _ _ Hin) as [Ha Hb']. split; auto.
      rewrite Hk; auto. cbn. intros ->. now apply (Hi (st0, c0)).
    + intros k c0 [Heq|Hin]; [inversion Heq; cbn; lia|]. apply H4 in Hin. lia.
    + intros id Hid. apply H5 in Hid. lia.
    + intros id Hid. destruct (H6 _ Hid) as (? & ? & ?). repeat split; auto. lia.
    + intros id Hid. destruct (H7 _ Hid) as (? & ? & ? & ?). repeat split; auto. lia.
  - cbn. now rewrite pair_eqb_refl.
Qed.

(* ---- TryAddReferences ---- *)
Lemma live_Some s id : live s id = true -> exists c, rget (reg s) id = Some c /\ (0 < c)%N.
Proof. unfold live. destruct (rget (reg s) id) as [c|]; [|discriminate]. intros H. exists c. split; auto. lia. Qed.

Lemma addref_PI D s e nw id : live s id = true -> PI D s e nw -> PI D (addref s id) (bump e id) nw.
Proof.
  intros Hl H. destruct (live_Some _ _ Hl) as [c [Hc Hpos]]. unfold addref. rewrite Hc.
  pose proof (PI_reg_bound _ _ _ _ id H ltac:(congruence)) as Hb.
  destruct H as [H1 H2 H3 H4 H5 H6 H7]. constructor; cbn [w_reg reg rows blobs idx nextp]; auto.
  - intros x. unfold bump. change (scount (w_reg s (rset (reg s) id (c + 1))) x) with (scount s x).
    destruct (N.eqb_spec x id) as [-> |Hne].
    + rewrite rget_set_same. rewrite H1 in Hc. unfold optn in *.
      destruct (N.eqb_spec (scount s id + e id) 0); [discriminate|]. inversion Hc.
      destruct (N.eqb_spec (scount s id + (e id + 1)) 0); [lia|]. f_equal. lia.
    + rewrite rget_set_other; auto.
  - intros st c0 x Hin. destruct (H3 _ _ _ Hin) as [Ha Hb']. split; auto.
    destruct (N.eq_dec x id) as [-> |Hne]; [left; rewrite rget_set_same; discriminate|].
    rewrite rget_set_other; auto.
  - intros x. unfold bump. destruct (N.eqb_spec x id) as [-> |]; auto.
  - intros x Hx. destruct (H6 _ Hx) as (Hr & Hd & Hlt). repeat split; auto.
    rewrite rget_set_other; auto. intros ->. congruence.
  - intros x Hx. destruct (H7 _ Hx) as (Ha & Hr & Hi & Hlt). repeat split; auto.
    rewrite rget_set_other; auto. intros ->. congruence.
Qed.

Lemma addref_blobs s id : blobs (addref s id) = blobs s /\ rows (addref s id) = rows s /\ idx (addref s id) = idx s /\ nextp (addref s id) = nextp s /\ holds (addref s id) = holds s.
Proof. unfold addref. destruct (rget (reg s) id); auto. Qed.

Lemma live_addref_other s id x : x <> id -> live (addref s id) x = live s x.
Proof.
  intros Hne. unfold live, addref. destruct (rget (reg s) id); auto. cbn. now rewrite rget_set_other.
Qed.
Lemma live_addref_same s id : live s id = true -> live (addref s id) id = true.
Proof.
  intros Hl. destruct (live_Some _ _ Hl) as [c [Hc Hpos]]. unfold live, addref. rewrite Hc. cbn.
  rewrite rget_set_same. lia.
Qed.
Lemma live_addref s id x : live s id = true -> live s x = true -> live (addref s id) x = true.
Proof. intros H1 H2. destruct (N.eq_dec x id) as [-> |]; [now apply live_addref_same|now rewrite live_addref_other]. Qed.

Definition addocc (e : N -> N) (ids : list N) : N -> N := fun x => (e x + N.of_nat (length (filter (N.eqb x) ids)))%N.
Lemma addrefs_PI D ids : forall s e nw, all_live s ids = true -> PI D s e nw -> PI D (addrefs s ids) (addocc e ids) nw.
Proof.
  unfold addrefs. induction ids as [|id ids IH]; cbn [fold_left all_live forallb]; intros s e nw Hl H.
  - eapply PI_ext; [| |exact H]; [intros x; unfold addocc; cbn; lia|tauto].
  - apply andb_prop in Hl. destruct Hl as [Hl1 Hl2].
    eapply PI_ext; [| |apply (IH (addref s id) (bump e id) nw)].
    + intros x. unfold addocc, bump. cbn [filter]. destruct (N.eqb_spec x id); cbn [length]; lia.
    + tauto.
    + unfold all_live. rewrite forallb_forall in *. intros x Hx. apply live_addref; auto.
    + now apply addref_PI.
Qed.
Lemma addrefs_frame ids : forall s, blobs (addrefs s ids) = blobs s /\ rows (addrefs s ids) = rows s /\ idx (addrefs s ids) = idx s /\ nextp (addrefs s ids) = nextp s /\ holds (addrefs s ids) = holds s.
Proof.
  unfold addrefs. induction ids as [|id ids IH]; cbn; intros s; auto.
  destruct (IH (addref s id)) as (a & b & c & d & f). destruct (addref_blobs s id) as (a' & b' & c' & d' & f').
  repeat split; congruence.
Qed.

(* ---- marking a fresh id ---- *)
Lemma mark_new D s e nw id : PI D s e nw -> rget (reg s) id = None -> ~ D id -> (id < nextp s)%N ->
  PI D s e (fun x => nw x \/ x = id).
Proof.
  intros [H1 H2 H3 H4 H5 H6 H7] Hr Hd Hlt. constructor; auto.
  - intros st c x Hin. destruct (H3 _ _ _ Hin) as [Ha [Hb|Hb]]; auto.
  - intros x [Hx| ->]; auto.
Qed.

(* ---- dedupeFreshPart ---- *)
Definition fresh_in (D : N -> Prop) (s : sst) (e : N -> N) (id : N) : Prop :=
  scount s id = 0%N /\ e id = 0%N /\ ~ D id /\ (id < nextp s)%N /\ (forall k, ~ In (k, id) (idx s)).

Lemma iget_In i k v : iget i k = Some v -> In (k, v) i.
Proof.
  induction i as [|[k' v'] i IH]; cbn; [discriminate|].
  destruct (skey_eqb k' k) eqn:E; intros H.
  - inversion H. subst. left. f_equal. destruct k', k. unfold skey_eqb in E. cbn in E.
    apply andb_prop in E. destruct E as [E1 E2]. apply N.eqb_eq in E1. apply bytes_eqb_eq in E2. congruence.
  - right. auto.
Qed.

Lemma dedupe_PI D s e nw st c id :
  PI D s e nw -> fresh_in D s e id -> bget (blobs s) (st, id) = Some c ->
  let '(s', id', pre) := dedupe s st c id in
  bget (blobs s') (st, id') = Some c
  /\ rows s' = rows s /\ nextp s' = nextp s /\ holds s' = holds s
  /\ (forall k, snd k <> id -> bget (blobs s') k = bget (blobs s) k)
  /\ (pre = true -> PI D s' (bump e id') nw)
  /\ (pre = false -> id' = id /\ PI D s' e (fun x => nw x \/ x = id)).
Proof.
  intros H (Fc & Fe & Fd & Flt & Fi) Hb.
  assert (rget (reg s) id = None) as Hrn by (rewrite (pi_reg _ _ _ _ H), Fc, Fe; reflexivity).
  unfold dedupe. destruct (iget (idx s) (st, c)) as [e0|] eqn:Ei.
  - apply iget_In in Ei. destruct (pi_idx _ _ _ _ H _ _ _ Ei) as [Hbe _].
    assert (e0 <> id) as Hne by (intros ->; now apply (Fi (st, c))).
    destruct (live s e0) eqn:Hl.
    + (* shared *)
      destruct (addref_blobs s e0) as (Ab & Ar & Ai & An & Ah).
      cbn [w_blobs blobs rows nextp holds]. rewrite !Ar, !An, !Ah.
      split; [rewrite bget_del_other; [exact Hbe|congruence]|].
      split; auto. split; auto. split; auto.
      split; [intros k Hk; apply bget_del_other; intros ->; now cbn in Hk|].
      split; [|discriminate]. intros _.
      pose proof (addref_PI D s e nw e0 Hl H) as [H1 H2 H3 H4 H5 H6 H7].
      constructor; cbn [w_blobs reg rows blobs idx nextp]; auto.
      * intros r Hin. rewrite Ar in Hin. rewrite bget_del_other; [now apply (pi_present _ _ _ _ H)|].
        intros Heq. inversion Heq.
        assert (cntid id (rows s) <> 0%N) by (eapply cntid_In_pos; eauto). rewrite <- scount_cntid in *. lia.
      * intros st0 c0 x Hin. destruct (H3 _ _ _ Hin) as [Ha Hb']. split; auto.
        rewrite bget_del_other; [rewrite <- Ab; exact Ha|]. intros Heq. inversion Heq. subst. rewrite Ai in Hin. now apply (Fi (st, c0)).
      * intros k c0 Hin. apply In_bdel in Hin. rewrite <- Ab in Hin. eauto.
    + (* stale entry replaced *)
      cbn [w_idx blobs rows nextp holds]. split; auto. split; auto. split; auto. split; auto. split; auto.
      split; [discriminate|]. intros _. split; auto.
      pose proof (mark_new D s e nw id H Hrn Fd Flt) as [H1 H2 H3 H4 H5 H6 H7].
      constructor; cbn [w_idx reg rows blobs idx nextp]; auto.
      * intros st0 c0 x [Heq|Hin]; [inversion Heq; subst; auto|].
        unfold idel_id in Hin. apply filter_In in Hin. destruct Hin as [Hin _]. eauto.
      * intros x Hx. destruct (H7 _ Hx) as (a & b & Hi & d). repeat split; auto.
        intros k [Heq|Hin]; [inversion Heq; subst; contradiction|].
        unfold idel_id in Hin. apply filter_In in Hin. destruct Hin as [Hin _]. eapply Hi; eauto.
  - cbn [w_idx blobs rows nextp holds]. split; auto. split; auto. split; auto. split; auto. split; auto.
    split; [discriminate|]. intros _. split; auto.
    pose proof (mark_new D s e nw id H Hrn Fd Flt) as [H1 H2 H3 H4 H5 H6 H7].
    constructor; cbn [w_idx reg rows blobs idx nextp]; auto.
    + intros st0 c0 x [Heq|Hin]; [inversion Heq; subst; auto|eauto].
    + intros x Hx. destruct (H7 _ Hx) as (a & b & Hi & d). repeat split; auto.
      intros k [Heq|Hin]; [inversion Heq; subst; contradiction|eapply Hi; eauto].
Qed.

(* ---- removing part rows ---- *)
Lemma filter_rows_PI D s e nw sel : PI D s e nw ->
  PI D (w_rows s (filter (fun r => negb (sel r)) (rows s))) (fun x => (e x + cntid x (filter sel (rows s)))%N) nw.
Proof.
  intros [H1 H2 H3 H4 H5 H6 H7]. constructor; cbn [w_rows reg rows blobs idx nextp]; auto.
  - intros id. rewrite H1. f_equal. rewrite !scount_cntid. cbn [w_rows rows]. rewrite (cntid_split id sel (rows s)). lia.
  - intros r Hin. apply filter_In in Hin. destruct Hin. auto.
  - intros id Hne. destruct (N.eq_dec (e id) 0) as [He|He]; auto.
    destruct (cntid_pos_In id (filter sel (rows s))) as [r [Hin <-]]; [lia|].
    apply filter_In in Hin. destruct Hin as [Hin _].
    apply (H4 (r_store r, r_id r) (r_cont r)). apply bget_In. auto.
  - intros id Hd. destruct (H7 _ Hd) as (Hc & Hr & Hi & Hlt). repeat split; auto.
    rewrite scount_cntid in *. cbn [w_rows rows]. rewrite (cntid_split id sel (rows s)) in Hc. lia.
Qed.

Lemma unref_PI D s e nw r : PI D s (bump e (r_id r)) nw ->
  PI D (unref s r) e nw
  /\ rows (unref s r) = rows s /\ nextp (unref s r) = nextp s /\ holds (unref s r) = holds s
  /\ (forall k, (e (snd k) <> 0%N \/ snd k <> r_id r) -> bget (blobs (unref s r)) k = bget (blobs s) k).
Proof.
  intros H. pose proof (pi_reg _ _ _ _ H (r_id r)) as Hr. unfold bump in Hr. rewrite N.eqb_refl in Hr.
  rewrite optn_Some in Hr by lia. unfold unref. rewrite Hr.
  assert ((scount s (r_id r) + (e (r_id r) + 1) <? 1)%N = false) as -> by lia.
  destruct (N.eqb_spec (scount s (r_id r) + (e (r_id r) + 1)) 1) as [H1|H1].
  - (* last reference: registry row, dedup entries and the file in the row's store go *)
    assert (scount s (r_id r) = 0%N /\ e (r_id r) = 0%N) as [Hc He] by lia.
    cbn [rows nextp holds blobs]. split; [|split; auto; split; auto; split; auto].
    + destruct H as [P1 P2 P3 P4 P5 P6 P7]. constructor; cbn [reg rows blobs idx nextp]; auto.
      * intros id. change (scount {| holds := holds s; rows := rows s; reg := rdel (reg s) (r_id r);
           blobs := bdel (blobs s) (r_store r, r_id r); idx := idel_id (idx s) (r_id r); nextp := nextp s |} id) with (scount s id).
        destruct (N.eq_dec id (r_id r)) as [-> |Hne].
        -- rewrite rget_del_same, Hc, He. reflexivity.
        -- rewrite rget_del_other; auto. rewrite P1. unfold bump. destruct (N.eqb_spec id (r_id r)); congruence.
      * intros r0 Hin. rewrite bget_del_other; auto. intros Heq. inversion Heq.
        assert (cntid (r_id r) (rows s) <> 0%N) by (eapply cntid_In_pos; eauto). rewrite <- scount_cntid in *. lia.
      * intros st c id Hin. unfold idel_id in Hin. apply filter_In in Hin. destruct Hin as [Hin Hne]. cbn in Hne.
        destruct (N.eqb_spec id (r_id r)); [discriminate|].
        destruct (P3 _ _ _ Hin) as [Ha Hb]. split.
        -- rewrite bget_del_other; auto. intros Heq. inversion Heq. congruence.
        -- rewrite rget_del_other; auto.
      * intros k c Hin. apply In_bdel in Hin. eauto.
      * intros id Hid. apply P5. unfold bump. destruct (N.eqb_spec id (r_id r)); lia.
      * intros id Hid. destruct (P6 _ Hid) as (a & b & c). repeat split; auto.
        destruct (N.eq_dec id (r_id r)) as [-> |]; [apply rget_del_same|now rewrite rget_del_other].
      * intros id Hid. destruct (P7 _ Hid) as (a & b & Hi & d). repeat split; auto.
        -- destruct (N.eq_dec id (r_id r)) as [-> |]; [apply rget_del_same|now rewrite rget_del_other].
        -- intros k Hin. unfold idel_id in Hin. apply filter_In in Hin. destruct Hin. eapply Hi; eauto.
    + intros k [Hk|Hk]; apply bget_del_other; intros ->; cbn in Hk; congruence.
  - cbn [w_reg rows nextp holds blobs]. split; [|auto].
    destruct H as [P1 P2 P3 P4 P5 P6 P7]. constructor; cbn [w_reg reg rows blobs idx nextp]; auto.
    + intros id. change (scount (w_reg s (rset (reg s) (r_id r) (scount s (r_id r) + (e (r_id r) + 1) - 1))) id) with (scount s id).
      destruct (N.eq_dec id (r_id r)) as [-> |Hne].
      * rewrite rget_set_same. rewrite optn_Some by lia. f_equal. lia.
      * rewrite rget_set_other; auto. rewrite P1. unfold bump. destruct (N.eqb_spec id (r_id r)); congruence.
    + intros st c id Hin. destruct (P3 _ _ _ Hin) as [Ha Hb]. split; auto.
      destruct (N.eq_dec id (r_id r)) as [-> |Hne]; [left; rewrite rget_set_same; discriminate|now rewrite rget_set_other].
    + intros id Hid. apply P5. unfold bump. destruct (N.eqb_spec id (r_id r)); lia.
    + intros id Hid. destruct (P6 _ Hid) as (a & b & c). repeat split; auto.
      rewrite rget_set_other; auto. intros ->. congruence.
    + intros id Hid. destruct (P7 _ Hid) as (a & b & c & d). repeat split; auto.
      rewrite rget_set_other; auto. intros ->. congruence.
Qed.

Lemma fold_unref_PI D nw gone : forall s e,
  PI D s (fun x => (e x + cntid x gone)%N) nw ->
  let s' := fold_left unref gone s in
  PI D s' e nw /\ rows s' = rows s /\ nextp s' = nextp s /\ holds s' = holds s
  /\ (forall k, (e (snd k) <> 0%N \/ rget (reg s) (snd k) = None) -> bget (blobs s') k = bget (blobs s) k).
Proof.
  induction gone as [|r gone IH]; intros s e H; cbn [fold_left].
  - split; [|auto]. eapply PI_ext; [| |exact H]; [intros x; cbn; lia|tauto].
  - assert (PI D s (bump (fun x => (e x + cntid x gone)%N) (r_id r)) nw) as H'.
    { eapply PI_ext; [| |exact H]; [|tauto]. intros x. cbn beta. rewrite cntid_cons. unfold bump.
      destruct (N.eqb_spec x (r_id r)) as [-> |Hne].
      - rewrite N.eqb_refl. lia.
      - assert (N.eqb (r_id r) x = false) as -> by (apply N.eqb_neq; congruence). lia. }
    destruct (unref_PI _ _ _ _ _ H') as (Hu & Ur & Un & Uh & Ub).
    destruct (IH _ _ Hu) as (Hf & Fr & Fn & Fh & Fb). cbn zeta in *.
    split; auto. split; [congruence|]. split; [congruence|]. split; [congruence|].
    intros k Hk. rewrite Fb.
    + apply Ub. destruct Hk as [Hk|Hk]; [left; lia|]. right. intros Heq.
      pose proof (pi_reg _ _ _ _ H (r_id r)) as Hr. rewrite <- Heq, Hk in Hr. symmetry in Hr. apply optn_None in Hr.
      rewrite cntid_cons, Heq, N.eqb_refl in Hr. lia.
    + destruct Hk as [Hk|Hk]; auto. right.
      destruct (N.eq_dec (snd k) (r_id r)) as [Heq|Hne].
      * exfalso. pose proof (pi_reg _ _ _ _ H (r_id r)) as Hr. rewrite <- Heq, Hk in Hr. symmetry in Hr. apply optn_None in Hr.
        rewrite cntid_cons, Heq, N.eqb_refl in Hr. lia.
      * pose proof (pi_reg _ _ _ _ Hu (snd k)) as Hr1. pose proof (pi_reg _ _ _ _ H (snd k)) as Hr2.
        rewrite Hk in Hr2. symmetry in Hr2. apply optn_None in Hr2. rewrite Hr1.
        apply optn_None. rewrite cntid_cons in Hr2.
        change (scount (unref s r) (snd k)) with (cntid (snd k) (rows (unref s r))). rewrite Ur. rewrite scount_cntid in Hr2. lia.
Qed.

Lemma drop_rows_PI D s e nw sel : PI D s e nw ->
  let s' := drop_rows s sel in
  PI D s' e nw
  /\ rows s' = filter (fun r => negb (sel r)) (rows s) /\ nextp s' = nextp s /\ holds s' = holds s
  /\ (forall k, (e (snd k) <> 0%N \/ rget (reg s) (snd k) = None) -> bget (blobs s') k = bget (blobs s) k).
Proof.
  intros H. unfold drop_rows. pose proof (filter_rows_PI D s e nw sel H) as Hf.
  destruct (fold_unref_PI D nw (filter sel (rows s)) _ e Hf) as (Hp & Hr & Hn & Hh & Hb). cbn zeta in *.
  split; auto.
Qed.

(* ---- savePartRows ---- *)
Lemma add_row_pre_PI D s e nw r : PI D s e nw -> e (r_id r) <> 0%N ->
  bget (blobs s) (r_store r, r_id r) = Some (r_cont r) ->
  PI D (add_row s r true) (unbump e (r_id r)) nw.
Proof.
  intros H He Hb.
  assert (~ D (r_id r)) as HnD.
  { intros Hd. destruct (pi_dead _ _ _ _ H _ Hd) as (Hc & Hr & _). rewrite (pi_reg _ _ _ _ H) in Hr. apply optn_None in Hr. lia. }
  destruct H as [H1 H2 H3 H4 H5 H6 H7]. unfold add_row. constructor; cbn [w_rows reg rows blobs idx nextp]; auto.
  - intros id. rewrite H1. f_equal. rewrite !scount_cntid. cbn [w_rows rows]. rewrite cntid_app, cntid_cons. unfold unbump.
    change (cntid id []) with 0%N.
    destruct (N.eqb_spec id (r_id r)) as [-> |Hne].
    + rewrite N.eqb_refl. lia.
    + assert (N.eqb (r_id r) id = false) as -> by (apply N.eqb_neq; congruence). lia.
  - intros r0 Hin. apply in_app_or in Hin. destruct Hin as [Hin|[<-|[]]]; auto.
  - intros id Hid. apply H5. unfold unbump in Hid. destruct (N.eqb_spec id (r_id r)); [subst; lia|auto].
  - intros id Hid. destruct (H7 _ Hid) as (Hc & Hr & Hi & Hlt). repeat split; auto.
    rewrite scount_cntid in *. cbn [w_rows rows]. rewrite cntid_app, cntid_cons. change (cntid id []) with 0%N.
    assert (N.eqb (r_id r) id = false) as -> by (apply N.eqb_neq; intros <-; contradiction). lia.
Qed.

Lemma add_row_new_PI D s e nw r : PI D s e nw -> ~ D (r_id r) -> (r_id r < nextp s)%N ->
  bget (blobs s) (r_store r, r_id r) = Some (r_cont r) ->
  PI D (add_row s r false) e (fun x => nw x /\ x <> r_id r).
Proof.
  intros H HnD Hlt Hb.
  destruct H as [H1 H2 H3 H4 H5 H6 H7]. unfold add_row, register.
  assert (forall id, rget (match rget (reg s) (r_id r) with
                            | Some c => rset (reg s) (r_id r) (c + 1)
                            | None => rset (reg s) (r_id r) 1 end) id
                     = optn (cntid id (rows s ++ [r]) + e id)) as Hreg.
  { intros id. rewrite cntid_app, cntid_cons. change (cntid id []) with 0%N.
    destruct (N.eq_dec id (r_id r)) as [-> |Hne].
    - rewrite N.eqb_refl. pose proof (H1 (r_id r)) as Hr. rewrite scount_cntid in Hr.
      destruct (rget (reg s) (r_id r)) as [c|] eqn:Er; rewrite rget_set_same.
      + unfold optn in Hr. destruct (N.eqb_spec (cntid (r_id r) (rows s) + e (r_id r)) 0); [discriminate|].
        inversion Hr. rewrite optn_Some by lia. f_equal. lia.
      + symmetry in Hr. apply optn_None in Hr. rewrite optn_Some by lia. f_equal. lia.
    - assert (N.eqb (r_id r) id = false) as -> by (apply N.eqb_neq; congruence).
      replace (cntid id (rows s) + (0 + 0) + e id)%N with (scount s id + e id)%N by (rewrite scount_cntid; lia).
      rewrite <- H1. destruct (rget (reg s) (r_id r)); now rewrite rget_set_other. }
  constructor; cbn [w_rows w_reg reg rows blobs idx nextp]; auto.
  - intros r0 Hin. apply in_app_or in Hin. destruct Hin as [Hin|[<-|[]]]; auto.
  - intros st c id Hin. destruct (H3 _ _ _ Hin) as [Ha Hb']. split; auto.
    destruct (N.eq_dec id (r_id r)) as [-> |Hne].
    + left. rewrite Hreg, cntid_app, cntid_cons, N.eqb_refl. unfold optn.
      destruct (N.eqb_spec (cntid (r_id r) (rows s) + (1 + cntid (r_id r) []) + e (r_id r)) 0); [lia|discriminate].
    + destruct Hb' as [Hb'|Hb']; [left|right; auto].
      destruct (rget (reg s) (r_id r)); now rewrite rget_set_other.
  - intros id [Hid Hne]. destruct (H6 _ Hid) as (a & b & c). repeat split; auto.
    destruct (rget (reg s) (r_id r)); now rewrite rget_set_other.
  - intros id Hid. destruct (H7 _ Hid) as (Hc & Hr & Hi & Hl). assert (id <> r_id r) by (intros ->; contradiction).
    repeat split; auto.
    + rewrite scount_cntid in *. cbn [w_rows w_reg rows]. rewrite cntid_app, cntid_cons. change (cntid id []) with 0%N.
      assert (N.eqb (r_id r) id = false) as -> by (apply N.eqb_neq; congruence). lia.
    + destruct (rget (reg s) (r_id r)); now rewrite rget_set_other.
Qed.

Lemma add_row_frame s r pre : blobs (add_row s r pre) = blobs s /\ nextp (add_row s r pre) = nextp s /\ holds (add_row s r pre) = holds s
  /\ idx (add_row s r pre) = idx s.
Proof. unfold add_row, register. destruct pre; cbn; auto. Qed.
