(* Proofs/SigV4HdrProofs.v — header value canonicalisation: server (TrimSpace of the joined values) versus
   the documented Trimall of every value (C29). *)
From Verif Require Import Bytes Codec SigV4 SigV4Spec SigV4EncProofs.

Definition starts_ok (x : bytes) : bool := match x with [] => true | c :: _ => negb (is_space c) end.

Lemma trim_left_len y : length (trim_left y) <= length y.
Proof. induction y as [|c y IH]; cbn; [lia|]. destruct (is_space c); cbn; lia. Qed.

Lemma trim_left_len_eq y : length (trim_left y) = length y -> trim_left y = y /\ starts_ok y = true.
Proof.
  destruct y as [|c y]; cbn; [auto|]. destruct (is_space c) eqn:E; cbn; [|auto].
  intros H. pose proof (trim_left_len y). lia.
Qed.

Lemma trim_left_id y : starts_ok y = true -> trim_left y = y.
Proof. destruct y as [|c y]; cbn; [auto|]. destruct (is_space c); [discriminate | auto]. Qed.

Lemma trimmed_iff x : trim_space x = x <-> starts_ok x = true /\ starts_ok (rev x) = true.
Proof.
  unfold trim_space, trim_right. split.
  - intros H.
    assert (L : length (trim_left (rev (trim_left x))) = length x).
    { rewrite <- (rev_length (trim_left (rev (trim_left x)))), H. reflexivity. }
    pose proof (trim_left_len (rev (trim_left x))) as L1. rewrite rev_length in L1.
    pose proof (trim_left_len x) as L2.
    assert (L3 : length (trim_left x) = length x) by lia.
    destruct (trim_left_len_eq x L3) as [E1 S1]. split; [exact S1|].
    rewrite E1 in L.
    assert (L4 : length (trim_left (rev x)) = length (rev x)) by (rewrite rev_length; exact L).
    destruct (trim_left_len_eq (rev x) L4) as [_ S2]. exact S2.
  - intros [S1 S2]. rewrite (trim_left_id x S1), (trim_left_id (rev x) S2). apply rev_involutive.
Qed.

Lemma starts_ok_app a b : starts_ok (a ++ b) = match a with [] => starts_ok b | _ => starts_ok a end.
Proof. destruct a; reflexivity. Qed.

Lemma join_starts_ok vs : Forall (fun v => starts_ok v = true) vs -> starts_ok (join B"," vs) = true.
Proof.
  induction 1 as [|v vs Hv Hvs IH]; [reflexivity|].
  destruct vs as [|v2 vs]; [exact Hv|].
  change (join B"," (v :: v2 :: vs)) with (v ++ B"," ++ join B"," (v2 :: vs)).
  rewrite starts_ok_app. destruct v; [reflexivity | exact Hv].
Qed.

Lemma join_ends_ok vs : Forall (fun v => starts_ok (rev v) = true) vs -> starts_ok (rev (join B"," vs)) = true.
Proof.
  induction 1 as [|v vs Hv Hvs IH]; [reflexivity|].
  destruct vs as [|v2 vs]; [exact Hv|].
  change (join B"," (v :: v2 :: vs)) with (v ++ B"," ++ join B"," (v2 :: vs)).
  rewrite rev_app_distr, rev_app_distr, starts_ok_app.
  destruct (rev (join B"," (v2 :: vs)) ++ rev B",") eqn:E.
  - apply app_eq_nil in E. destruct E as [_ E]. discriminate.
  - rewrite <- E. rewrite starts_ok_app. destruct (rev (join B"," (v2 :: vs))); [reflexivity | exact IH].
Qed.

Lemma join_trimmed vs : Forall (fun v => trim_space v = v) vs -> trim_space (join B"," vs) = join B"," vs.
Proof.
  intros H. apply trimmed_iff. split.
  - apply join_starts_ok. eapply Forall_impl; [|exact H]. intros v Hv. apply trimmed_iff in Hv. tauto.
  - apply join_ends_ok. eapply Forall_impl; [|exact H]. intros v Hv. apply trimmed_iff in Hv. tauto.
Qed.

(* a value is clean when Trimall leaves it alone: no run of two spaces, no white space at either end *)
Definition clean (v : bytes) : Prop := collapse_spaces v = v /\ trim_space v = v.

Lemma clean_trimall v : clean v -> spec_trimall v = v.
Proof. intros [C T]. unfold spec_trimall. rewrite C. exact T. Qed.

Lemma map_clean vs : Forall clean vs -> map spec_trimall vs = vs.
Proof. induction 1 as [|v vs Hv _ IH]; cbn; [reflexivity|]. rewrite (clean_trimall v Hv), IH. reflexivity. Qed.

Definition headers_clean (h : header_map) (signed : list bytes) : Prop :=
  forall k vs, In (k, vs) h -> mem_bytes (to_lower k) signed = true -> Forall clean vs.

Lemma signed_pairs_eq_spec h signed :
  headers_clean h signed -> signed_pairs h signed = spec_signed_pairs h signed.
Proof.
  induction h as [|[k vs] h IH]; intros Hc; [reflexivity|].
  cbn [signed_pairs spec_signed_pairs].
  assert (Hc' : headers_clean h signed). { intros k' vs' Hin. apply Hc. right. exact Hin. }
  destruct (mem_bytes (to_lower k) signed) eqn:E; [|apply IH; exact Hc'].
  pose proof (Hc k vs (or_introl eq_refl) E) as Hv.
  rewrite (map_clean vs Hv), IH by exact Hc'.
  rewrite join_trimmed; [reflexivity|]. eapply Forall_impl; [|exact Hv]. intros v [_ T]. exact T.
Qed.

Lemma collect_eq_spec host h signed :
  clean host -> headers_clean h signed ->
  collect_signed_headers host h signed = spec_header_pairs host h signed.
Proof.
  intros Hh Hc. unfold collect_signed_headers, spec_header_pairs.
  rewrite (clean_trimall host Hh), signed_pairs_eq_spec by exact Hc. destruct Hh as [_ T]. rewrite T. reflexivity.
Qed.

(* the refutation witness: one signed header whose value has two consecutive inner spaces *)
Definition ws_headers : header_map := [(B"X-Amz-Meta-A", [B"a  b"])].
Definition ws_signed : list bytes := [B"host"; B"x-amz-meta-a"].
Lemma headers_differ :
  collect_signed_headers B"s3.localhost" ws_headers ws_signed <> spec_header_pairs B"s3.localhost" ws_headers ws_signed.
Proof. vm_compute. discriminate. Qed.

(* ---- query ---- *)
Lemma canon_query_eq_spec raw : canonical_query raw = spec_canonical_query (query_pairs raw).
Proof.
  unfold canonical_query, canon_query_of_pairs, spec_canonical_query.
  f_equal. f_equal. f_equal. apply map_ext. intros [k v]. cbn [fst snd]. rewrite !uri_encode_eq_spec. reflexivity.
Qed.
