(* Proofs/SigV4HdrProofs.v — header value canonicalisation (after /repo bc241f9): canonicalHeaderValue
   (TrimSpace, then ReplaceAll("  ", " ") until no run is left) is the documented Trimall
   (collapse runs of spaces, then trim) for every byte string (C29; used by C28). *)
From Verif Require Import Bytes Codec SigV4 SigV4Spec SigV4EncProofs.

Notation sp := (" "%byte).
Definition hd_is_sp (l : bytes) : bool := match l with c :: _ => beqb c sp | [] => false end.

Lemma collapse_cons a t :
  collapse_spaces (a :: t) = if beqb a sp && hd_is_sp t then collapse_spaces t else a :: collapse_spaces t.
Proof. destruct t as [|b t]; cbn; [rewrite andb_false_r; reflexivity | reflexivity]. Qed.

(* ---- the ReplaceAll loop computes collapse_spaces ---- *)
Lemma replace_cons2 a b t :
  replace_double_space (a :: b :: t) =
  if beqb a sp && beqb b sp then sp :: replace_double_space t else a :: replace_double_space (b :: t).
Proof. reflexivity. Qed.
Lemma has_cons2 a b t :
  has_double_space (a :: b :: t) = (beqb a sp && beqb b sp) || has_double_space (b :: t).
Proof. reflexivity. Qed.
Lemma replace_hd x : hd_is_sp (replace_double_space x) = hd_is_sp x.
Proof.
  destruct x as [|a [|b t]]; cbn; try reflexivity.
  destruct (beqb a sp && beqb b sp) eqn:E; cbn; [|reflexivity].
  apply andb_true_iff in E. destruct E as [E _]. rewrite E. reflexivity.
Qed.

Lemma collapse_replace_n n : forall s, length s <= n -> collapse_spaces (replace_double_space s) = collapse_spaces s.
Proof.
  induction n as [|n IH]; intros s Hl.
  - destruct s; [reflexivity | cbn in Hl; lia].
  - destruct s as [|a [|b t]]; try reflexivity.
    rewrite replace_cons2. destruct (beqb a sp && beqb b sp) eqn:E.
    + apply andb_true_iff in E. destruct E as [Ea Eb]. apply beqb_eq in Ea, Eb. subst a b.
      rewrite (collapse_cons sp (sp :: t)). cbn [hd_is_sp]. rewrite !beqb_refl. cbn [andb].
      rewrite (collapse_cons sp (replace_double_space t)), (collapse_cons sp t), replace_hd.
      rewrite (IH t) by (cbn in Hl; lia). reflexivity.
    + rewrite (collapse_cons a (replace_double_space (b :: t))), replace_hd, (collapse_cons a (b :: t)).
      rewrite (IH (b :: t)) by (cbn in Hl |- *; lia). reflexivity.
Qed.

Lemma replace_shorter s : has_double_space s = true -> length (replace_double_space s) < length s.
Proof.
  assert (G : forall n s, length s <= n -> length (replace_double_space s) <= length s /\
                          (has_double_space s = true -> length (replace_double_space s) < length s)).
  { induction n as [|n IH]; intros x Hl.
    - destruct x; [cbn; split; [lia | discriminate] | cbn in Hl; lia].
    - destruct x as [|a [|b t]]; [cbn; split; [lia | discriminate] | cbn; split; [lia | discriminate] |].
      rewrite replace_cons2, has_cons2. destruct (beqb a sp && beqb b sp) eqn:E.
      + destruct (IH t) as [L _]; [cbn in Hl; lia|]. cbn [length]. split; [lia | intros _; lia].
      + destruct (IH (b :: t)) as [L S]; [cbn in Hl |- *; lia|]. cbn [length orb] in *. split; [lia|].
        intros H. specialize (S H). lia. }
  intros H. exact (proj2 (G (length s) s (le_n _)) H).
Qed.

Lemma no_double_collapse s : has_double_space s = false -> collapse_spaces s = s.
Proof.
  induction s as [|a t IH]; [reflexivity|]. destruct t as [|b t']; [reflexivity|].
  cbn [has_double_space]. intros H. apply orb_false_iff in H. destruct H as [H1 H2].
  cbn [collapse_spaces]. rewrite H1. f_equal. apply IH. exact H2.
Qed.

Lemma collapse_loop_spec fuel : forall s, length s <= fuel -> collapse_loop fuel s = collapse_spaces s.
Proof.
  induction fuel as [|f IH]; intros s Hl.
  - destruct s; [reflexivity | cbn in Hl; lia].
  - cbn [collapse_loop]. destruct (has_double_space s) eqn:E.
    + pose proof (replace_shorter s E). rewrite IH by lia. apply (collapse_replace_n (length s)). lia.
    + symmetry. apply no_double_collapse. exact E.
Qed.

(* ---- collapsing commutes with trimming ---- *)
Lemma trim_left_collapse v : trim_left (collapse_spaces v) = collapse_spaces (trim_left v).
Proof.
  induction v as [|a t IH]; [reflexivity|].
  rewrite collapse_cons. cbn [trim_left]. destruct (is_space a) eqn:Es.
  - destruct (beqb a sp && hd_is_sp t); [exact IH | cbn [trim_left]; rewrite Es; exact IH].
  - assert (beqb a sp = false) as Ea.
    { destruct (beqb a sp) eqn:E; [|reflexivity]. apply beqb_eq in E. subst a. discriminate Es. }
    rewrite Ea. cbn [andb trim_left]. rewrite Es. rewrite collapse_cons, Ea. reflexivity.
Qed.

Definition last_is_sp (y : bytes) : bool := hd_is_sp (rev y).
Lemma hd_is_sp_app x y : hd_is_sp (x ++ y) = match x with [] => hd_is_sp y | _ => hd_is_sp x end.
Proof. destruct x; reflexivity. Qed.
Lemma last_is_sp_cons b t : last_is_sp (b :: t) = match t with [] => beqb b sp | _ => last_is_sp t end.
Proof.
  unfold last_is_sp. cbn [rev]. rewrite hd_is_sp_app. destruct t as [|c t]; [reflexivity|].
  destruct (rev (c :: t)) eqn:E; [|reflexivity].
  apply (f_equal (@length byte)) in E. rewrite rev_length in E. discriminate.
Qed.

Lemma collapse_snoc y : forall a,
  collapse_spaces (y ++ [a]) = if last_is_sp y && beqb a sp then collapse_spaces y else collapse_spaces y ++ [a].
Proof.
  induction y as [|b t IH]; intros a; [reflexivity|].
  cbn [app]. rewrite collapse_cons, last_is_sp_cons, hd_is_sp_app. destruct t as [|c t'].
  - cbn [app hd_is_sp collapse_spaces]. destruct (beqb b sp) eqn:Eb; destruct (beqb a sp) eqn:Ea; cbn; try reflexivity.
    apply beqb_eq in Ea, Eb. subst. reflexivity.
  - rewrite IH, (collapse_cons b (c :: t')).
    destruct (beqb b sp && hd_is_sp (c :: t')); destruct (last_is_sp (c :: t') && beqb a sp); reflexivity.
Qed.

Lemma collapse_rev y : collapse_spaces (rev y) = rev (collapse_spaces y).
Proof.
  induction y as [|b t IH]; [reflexivity|].
  cbn [rev]. rewrite collapse_snoc, collapse_cons, IH. unfold last_is_sp. rewrite rev_involutive.
  rewrite andb_comm. destruct (beqb b sp && hd_is_sp t); [reflexivity|]. reflexivity.
Qed.

Lemma trim_space_collapse v : collapse_spaces (trim_space v) = trim_space (collapse_spaces v).
Proof.
  unfold trim_space, trim_right.
  rewrite collapse_rev, <- trim_left_collapse, collapse_rev, <- trim_left_collapse. reflexivity.
Qed.

Theorem canonical_header_value_eq_spec v : canonical_header_value v = spec_trimall v.
Proof.
  unfold canonical_header_value, spec_trimall. cbv zeta.
  rewrite collapse_loop_spec by lia. apply trim_space_collapse.
Qed.

Lemma signed_pairs_eq_spec h signed : signed_pairs h signed = spec_signed_pairs h signed.
Proof.
  induction h as [|[k vs] h IH]; [reflexivity|].
  cbn [signed_pairs spec_signed_pairs]. rewrite IH.
  rewrite (map_ext _ _ canonical_header_value_eq_spec). reflexivity.
Qed.

Theorem collect_eq_spec host h signed :
  collect_signed_headers host h signed = spec_header_pairs host h signed.
Proof.
  unfold collect_signed_headers, spec_header_pairs.
  rewrite signed_pairs_eq_spec, canonical_header_value_eq_spec. reflexivity.
Qed.

(* Trimall is idempotent and its result is "clean": no outer white space, no run of two spaces *)
Lemma in_collapse c x : In c (collapse_spaces x) -> In c x.
Proof.
  induction x as [|a t IH]; [tauto|]. rewrite collapse_cons.
  destruct (beqb a sp && hd_is_sp t); cbn [In]; intros H; [right; auto | destruct H; [left; assumption | right; auto]].
Qed.

(* historical (before bc241f9): the server used TrimSpace of the comma-joined values; that differed from
   Trimall on a value with two consecutive inner spaces *)
Definition old_header_value (vs : list bytes) : bytes := trim_space (join B"," vs).
Lemma old_header_value_differs : old_header_value [B"a  b"] <> join B"," (map spec_trimall [B"a  b"]).
Proof. vm_compute. discriminate. Qed.

(* ---- query ---- *)
Lemma canon_query_eq_spec raw : canonical_query raw = spec_canonical_query (query_pairs raw).
Proof.
  unfold canonical_query, canon_query_of_pairs, spec_canonical_query.
  f_equal. f_equal. f_equal. apply map_ext. intros [k v]. cbn [fst snd]. rewrite !uri_encode_eq_spec. reflexivity.
Qed.
