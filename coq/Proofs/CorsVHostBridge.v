(* Proofs/CorsVHostBridge.v — the path under which the C34 server-leg model resolves a virtual-hosted CORS request
   ([Cors.vhost_path]) IS the path C33's model of MakeVirtualHostBucketAddressingMiddleware produces
   ([VHost.vhost_rewrite true], the current code) for Host = bucket.api[:port]. *)
From Verif Require Import Bytes Codec.
From Verif Require Cors VHost VHostProofs.

Lemma vhost_path_is_vhost_rewrite api bucket port path :
  bucket <> [] -> ~ In ":"%byte bucket -> ~ In ":"%byte api -> VHostProofs.port_ok port ->
  VHost.vhost_rewrite true api ((bucket ++ "."%byte :: api) ++ port) path = Cors.vhost_path bucket path.
Proof.
  intros Hne Hb Ha Hp. rewrite (VHostProofs.vhost_rewrite_vhost true api bucket port path Hne Hb Ha Hp).
  unfold Cors.vhost_path. destruct path as [|c [|d r]]; cbn.
  - reflexivity.
  - unfold Cors.slash, VHost.slash. destruct (beqb c "/"%byte); reflexivity.
  - destruct (beqb c VHost.slash); reflexivity.
Qed.
