(* Proofs/MetaNewest1.v — M-META, "latest is newest" (C02), layer 1: the flag-free view [cores] of the objects
   table, what the row primitives do to it and to the clock, and the per-key invariant [Q] with its closure
   lemmas under the four shapes of transition (unchanged / new current row / current row rewritten in place /
   rows removed). *)
From Verif Require Import Bytes Codec Md5 Meta MetaBasics MetaRows1 MetaRows2 MetaRows3 MetaRows4 MetaRows5 MetaRows6.
From Coq Require Import ZifyBool ZifyN ZifyNat.

Definition cores (s : mstate) : list orow := map core (objs s).
Definition repl (c x : orow) : orow := if N.eqb (o_id x) (o_id c) then c else x.

Lemma core_id r : o_id (core r) = o_id r. Proof. reflexivity. Qed.
Lemma core_core r : core (core r) = core r. Proof. reflexivity. Qed.

Lemma cores_ext s s' : objs s' = objs s -> cores s' = cores s.
Proof. intros E. unfold cores. rewrite E. reflexivity. Qed.
Lemma cores_update_row s r : cores (update_row s r) = map (repl (core r)) (cores s).
Proof.
  unfold cores. rewrite update_row_objs, !map_map. apply map_ext. intros x. unfold upd_fun, repl.
  rewrite !core_id. destruct (N.eqb (o_id x) (o_id r)); reflexivity.
Qed.
Lemma map_repl_id c l : (forall x, In x l -> o_id x = o_id c -> x = c) -> map (repl c) l = l.
Proof.
  intros H. induction l as [|x l IH]; cbn; [reflexivity|]. rewrite IH by (intros y Hy; apply H; right; exact Hy).
  unfold repl. destruct (N.eqb_spec (o_id x) (o_id c)) as [E|E]; [|reflexivity].
  rewrite (H x (or_introl eq_refl) E). reflexivity.
Qed.
Lemma cores_set_latest_gen s r l :
  (forall x, In x (objs s) -> o_id x = o_id r -> core x = core r) -> cores (set_latest s r l) = cores s.
Proof.
  intros H. unfold set_latest. rewrite cores_update_row. rewrite core_with_row. apply map_repl_id.
  intros x Hx E. unfold cores in Hx. apply in_map_iff in Hx. destruct Hx as [y [<- Hy]]. apply H; [exact Hy|].
  rewrite core_id in E. exact E.
Qed.
Lemma cores_set_latest_in s r l : IdsOk s -> In r (objs s) -> cores (set_latest s r l) = cores s.
Proof.
  intros I Hr. apply cores_set_latest_gen. intros x Hx E.
  assert (x = r) as -> by (eapply NoDup_map_inj; [exact (proj1 I) | exact Hx | exact Hr | exact E]). reflexivity.
Qed.
Lemma cores_insert s mk : cores (snd (insert_row s mk)) = cores s ++ [core (mk (next_id s) (clock s))].
Proof. unfold cores. rewrite insert_row_objs, map_app. reflexivity. Qed.
Lemma cores_delete s d : cores (delete_row s d) = filter (fun c => negb (N.eqb (o_id c) d)) (cores s).
Proof. unfold cores. rewrite delete_row_objs. exact (map_filter_comm core (fun c => negb (N.eqb (o_id c) d)) (objs s)). Qed.

(* ---------- the clock ---------- *)
Lemma clock_update_row s r : clock (update_row s r) = (clock s + 1)%N. Proof. reflexivity. Qed.
Lemma clock_set_latest s r l : clock (set_latest s r l) = (clock s + 1)%N. Proof. reflexivity. Qed.
Lemma clock_insert_row s mk : clock (snd (insert_row s mk)) = (clock s + 1)%N. Proof. reflexivity. Qed.
Lemma clock_delete_row s d : clock (delete_row s d) = clock s. Proof. reflexivity. Qed.
Lemma clock_set_registry s r : clock (set_registry s r) = clock s. Proof. reflexivity. Qed.
Lemma clock_remove_ref s p : clock (fst (remove_ref s p)) = clock s.
Proof.
  unfold remove_ref. destruct (reg_get _ _); [|reflexivity]. destruct (_ <? _)%N; [reflexivity|].
  destruct (_ =? _)%N; reflexivity.
Qed.
Lemma clock_remove_refs l : forall s, clock (fst (remove_refs s l)) = clock s.
Proof.
  induction l as [|p l IH]; intros s; cbn [remove_refs]; [reflexivity|].
  pose proof (clock_remove_ref s p) as H1. destruct (remove_ref s p) as [s1 z]. cbn [fst] in H1.
  pose proof (IH s1) as H2. destruct (remove_refs s1 l) as [s2 zs]. cbn [fst] in *. congruence.
Qed.
Lemma clock_remove_parts_of s oid : clock (fst (remove_parts_of s oid)) = clock s.
Proof. unfold remove_parts_of, remove_part_rows. rewrite clock_remove_refs. reflexivity. Qed.
Lemma clock_save_part_rows ps : forall s oid seq, clock (save_part_rows s oid ps seq) = clock s.
Proof.
  induction ps as [|p ps IH]; intros s oid seq; cbn [save_part_rows]; [reflexivity|].
  rewrite IH. destruct (n_pre p); reflexivity.
Qed.
Lemma clock_delete_unreferenced l : forall s, clock (delete_unreferenced s l) = clock s.
Proof.
  unfold delete_unreferenced. induction l as [|p l IH]; intros s; cbn [fold_left]; [reflexivity|]. rewrite IH. reflexivity.
Qed.
Lemma clock_put_fresh_part s c : clock (snd (put_fresh_part s c)) = clock s.
Proof.
  unfold put_fresh_part. cbn [fresh]. destruct (dedup_get _ c); [destruct (try_add_refs _ _)|]; reflexivity.
Qed.

(* ---------- the per-key invariant ---------- *)
Section Key.
Variables (b k : bytes).

Definition isK (c : orow) : bool := on_key b k c && completed c.
Definition K (s : mstate) : list orow := filter isK (cores s).

Lemma isK_core r : isK (core r) = isK r. Proof. reflexivity. Qed.
Lemma in_K s r : In r (objs s) -> on_key b k r = true -> completed r = true -> In (core r) (K s).
Proof.
  intros Hr Kr Cr. apply filter_In. split; [apply in_map; exact Hr|]. rewrite isK_core. unfold isK. rewrite Kr, Cr. reflexivity.
Qed.
Lemma K_inv s c : In c (K s) -> exists r, In r (objs s) /\ core r = c /\ on_key b k r = true /\ completed r = true.
Proof.
  intros H. apply filter_In in H. destruct H as [H1 H2]. apply in_map_iff in H1. destruct H1 as [r [<- Hr]].
  rewrite isK_core in H2. apply andb_true_iff in H2. exists r. tauto.
Qed.
Lemma K_ids_unique s c c' : IdsOk s -> In c (K s) -> In c' (K s) -> o_id c = o_id c' -> c = c'.
Proof.
  intros I H H'. destruct (K_inv s c H) as (r & Hr & <- & _). destruct (K_inv s c' H') as (r' & Hr' & <- & _).
  rewrite !core_id. intros E.
  assert (r = r') as -> by (eapply NoDup_map_inj; [exact (proj1 I) | exact Hr | exact Hr' | exact E]). reflexivity.
Qed.

Record Q (i : N) (s : mstate) : Prop := {
  qF : forall c, In c (K s) -> (o_created c < i * 1000 /\ o_written c < i * 1000)%N;
  qCU : forall c c', In c (K s) -> In c' (K s) -> o_created c = o_created c' -> o_id c = o_id c';
  qM : forall c c', In c (K s) -> In c' (K s) -> (o_created c < o_created c')%N -> (o_written c < o_written c')%N;
  qLM : forall r, find_latest s b k = Some r -> forall c, In c (K s) -> (o_written c <= o_written r)%N }.

(* rows only removed, and whatever is current afterwards is written-maximal *)
Lemma Q_sub i i' s s' : (i <= i')%N -> (forall c, In c (K s') -> In c (K s)) ->
  (forall r, find_latest s' b k = Some r -> forall c, In c (K s') -> (o_written c <= o_written r)%N) ->
  Q i s -> Q i' s'.
Proof.
  intros L Sub LM [F CU M _]. split.
  - intros c H. specialize (F c (Sub c H)). nia.
  - intros c c' H H'. apply CU; apply Sub; assumption.
  - intros c c' H H'. apply M; apply Sub; assumption.
  - exact LM.
Qed.

(* a new row, written now, is current *)
Lemma Q_snoc i s s' L c :
  K s' = L ++ [c] -> (forall x, In x L -> In x (K s)) ->
  (i * 1000 <= o_created c < (i + 1) * 1000)%N -> (i * 1000 <= o_written c < (i + 1) * 1000)%N ->
  (forall r, find_latest s' b k = Some r -> o_written r = o_written c) ->
  Q i s -> Q (i + 1) s'.
Proof.
  intros E Sub Tc Tw Hl [F CU M _]. split.
  - intros x H. rewrite E in H. apply in_app_or in H. destruct H as [H|[<-|[]]]; [|lia].
    specialize (F x (Sub x H)). lia.
  - intros x y Hx Hy. rewrite E in Hx, Hy. apply in_app_or in Hx. apply in_app_or in Hy.
    destruct Hx as [Hx|[<-|[]]], Hy as [Hy|[<-|[]]]; try reflexivity.
    + apply CU; apply Sub; assumption.
    + specialize (F x (Sub x Hx)). lia.
    + specialize (F y (Sub y Hy)). lia.
  - intros x y Hx Hy. rewrite E in Hx, Hy. apply in_app_or in Hx. apply in_app_or in Hy.
    destruct Hx as [Hx|[<-|[]]], Hy as [Hy|[<-|[]]]; try lia.
    + apply M; apply Sub; assumption.
    + specialize (F x (Sub x Hx)). lia.
    + specialize (F y (Sub y Hy)). lia.
  - intros r Hr x Hx. rewrite (Hl r Hr). rewrite E in Hx. apply in_app_or in Hx. destruct Hx as [Hx|[<-|[]]]; [|lia].
    specialize (F x (Sub x Hx)). lia.
Qed.

(* the current row is rewritten in place (created kept, written now) and stays current *)
Lemma Q_rewrite i s s' c0 c' r0 :
  IdsOk s -> K s' = map (repl c') (K s) -> In c0 (K s) -> o_id c' = o_id c0 -> o_created c' = o_created c0 ->
  (i * 1000 <= o_written c' < (i + 1) * 1000)%N ->
  find_latest s b k = Some r0 -> o_id r0 = o_id c0 ->
  (forall r, find_latest s' b k = Some r -> o_written r = o_written c') ->
  Q i s -> Q (i + 1) s'.
Proof.
  intros I E H0 Eid Ecr Tw Hl0 Eid0 Hl [F CU M LM].
  assert (C0 : c0 = core r0).
  { destruct (find_latest_some _ _ _ _ Hl0) as (Hr0 & Kr0 & Cr0 & _).
    apply (K_ids_unique s); [exact I | exact H0 | apply in_K; assumption | rewrite core_id; congruence]. }
  assert (Max : forall x, In x (K s) -> x <> c0 -> (o_created x < o_created c0)%N).
  { intros x Hx Nx. specialize (LM r0 Hl0 x Hx). rewrite C0 in *. cbn [core with_row o_written] in *.
    destruct (N.lt_trichotomy (o_created x) (o_created (core r0))) as [Lt|[Eq|Gt]]; [exact Lt | |].
    - exfalso. apply Nx. apply (K_ids_unique s); try assumption. apply CU; assumption.
    - specialize (M (core r0) x H0 Hx Gt). cbn [core with_row o_written] in M. lia. }
  assert (El : forall y, In y (K s') -> y = c' \/ (In y (K s) /\ y <> c0)).
  { intros y Hy. rewrite E in Hy. apply in_map_iff in Hy. destruct Hy as [x [<- Hx]]. unfold repl.
    destruct (N.eqb_spec (o_id x) (o_id c')) as [Ex|Ex]; [left; reflexivity | right]. split; [exact Hx|].
    intros ->. congruence. }
  split.
  - intros y Hy. destruct (El y Hy) as [->|[Hy' _]]; [|specialize (F y Hy'); lia].
    specialize (F c0 H0). lia.
  - intros x y Hx Hy. destruct (El x Hx) as [->|[Hx' Nx]], (El y Hy) as [->|[Hy' Ny]]; try reflexivity.
    + rewrite Ecr, Eid. apply CU; assumption.
    + rewrite Ecr, Eid. apply CU; assumption.
    + apply CU; assumption.
  - intros x y Hx Hy. destruct (El x Hx) as [->|[Hx' Nx]], (El y Hy) as [->|[Hy' Ny]]; try lia.
    + rewrite Ecr. intros Lt. specialize (Max y Hy' Ny). lia.
    + intros _. specialize (F x Hx'). lia.
    + apply M; assumption.
  - intros r Hr y Hy. rewrite (Hl r Hr). destruct (El y Hy) as [->|[Hy' _]]; [lia|]. specialize (F y Hy'). lia.
Qed.

Lemma Q_mono i i' s : (i <= i')%N -> Q i s -> Q i' s.
Proof. intros L H. apply (Q_sub i i' s s L); [tauto | apply (qLM i s H) | exact H]. Qed.
End Key.
