(* Proofs/MetaRows10.v — M-META at row level: read-your-write for CompleteMultipartUpload (C01). *)
From Verif Require Import Bytes Codec Md5 Meta MetaBasics MetaRows1 MetaRows2 MetaRows3 MetaRows4 MetaRows5 MetaRows6.
From Coq Require Import ZifyBool ZifyN ZifyNat.

Lemma pending_survives_set_latest s r l up :
  IdsOk s -> In r (objs s) -> completed r = true -> In up (objs s) -> completed up = false ->
  In up (objs (set_latest s r l)).
Proof.
  intros I Hr Cr Hu Cu. unfold set_latest. rewrite update_row_objs. apply in_map_iff. exists up. split; [|exact Hu].
  unfold upd_fun. cbn [with_row o_id]. destruct (N.eqb_spec (o_id up) (o_id r)) as [E|E]; [|reflexivity].
  assert (up = r) by (eapply NoDup_map_inj; [exact (proj1 I) | exact Hu | exact Hr | exact E]). congruence.
Qed.

Lemma cpl_id_in sb nr up :
  IdsOk sb -> In nr (objs sb) -> completed nr = true -> In up (objs sb) -> completed up = false ->
  In (o_id up) (map o_id (objs (delete_row (fst (remove_parts_of sb (o_id nr))) (o_id nr)))).
Proof.
  intros I Hn Cn Hu Cu. rewrite delete_row_objs, remove_parts_of_objs. apply in_map. apply filter_In.
  split; [exact Hu|]. apply negb_true_iff. apply N.eqb_neq. intros E.
  assert (up = nr) by (eapply NoDup_map_inj; [exact (proj1 I) | exact Hu | exact Hn | exact E]). congruence.
Qed.

Lemma complete_read_your_write i hist s b k u m cr s' v e :
  NoDup (map o_id (objs s)) -> (forall x, In x (objs s) -> (o_id x < next_id s)%N) ->
  step i hist s (OCpl b k u m cr) = (s', RPut v e) ->
  exists sz lm ct,
  op_head s' b k None = RObj v e sz lm ct None /\ op_head s' b k (Some v) = RObj v e sz lm ct None.
Proof.
  intros I1 I2 H0. assert (I0 : IdsOk (with_ids s i)) by (apply (IdsOk_same s); [apply same_with_ids | split; assumption]).
  pose proof (step_buckets_keyed i hist s (OCpl b k u m cr) (b, k) eq_refl) as Eb.
  rewrite H0 in Eb. cbn [fst] in Eb. revert H0.
  cbn [step]. unfold op_complete. intros H. apply commit_ok in H; [|exact I]. destruct H as [H U].
  revert H. cbv beta zeta. repeat dm; intros H; try discriminate H;
  pose proof (f_equal fst H) as H1; pose proof (f_equal snd H) as H2; cbn [fst snd] in H1, H2; try discriminate H2.
  all: assert (Hb : find_bucket s' b <> None)
         by (rewrite (find_bucket_buckets _ _ b Eb);
             match goal with Hf : find_bucket _ _ = Some _ |- _ =>
               unfold find_bucket in *; cbn [buckets with_ids] in Hf; congruence end).
  all: match goal with Hu : find_upload _ _ _ _ = Some ?up |- _ =>
         destruct (find_upload_some _ _ _ _ _ Hu) as (Hup & _ & Uup);
         assert (Cup : completed up = false) by (unfold completed; rewrite Uup; reflexivity) end.
  all: inversion H2; subst v e.
  all: match type of H1 with context[update_row ?S ?r1] =>
         destruct (update_row_in S r1) as [lk Hlk];
         [cbn [o_id]; first
            [ in_ids
            | rewrite ?set_latest_ids;
              match goal with Hn : find_null ?sb _ _ = Some ?nr |- _ =>
                destruct (find_null_some _ _ _ _ Hn) as (Hnr & _ & Cnr & _);
                apply cpl_id_in; [ | exact Hnr | exact Cnr | | exact Cup] end;
              [ first [ exact I0 | apply IdsOk_update; exact I0 ]
              | first [ exact Hup
                      | match goal with Hl : find_latest _ _ _ = Some ?r |- In _ (objs (set_latest _ ?r _)) =>
                          destruct (find_latest_some _ _ _ _ Hl) as (Hlr & _ & Clr & _);
                          apply pending_survives_set_latest; assumption end ] ] ]
         |] end.
  all: match type of Hlk with In ?x0 _ =>
         edestruct (written_head s' b k) with (x := x0) as [G1 G2];
         [ exact U | exact Hb
         | subst s'; rewrite (sm_objs _ _ (same_delete_unreferenced _ _)); exact Hlk
         | wr_fields
         | eexists _, _, _; split; [exact G1 | exact G2] ] end.
Qed.

From Verif Require Import MetaRows7 MetaRows8.
Lemma run_complete_read_your_write ops b k u m cr s' rs v e :
  run (ops ++ [OCpl b k u m cr]) = (s', rs ++ [RPut v e]) ->
  exists sz lm ct,
  op_head s' b k None = RObj v e sz lm ct None /\ op_head s' b k (Some v) = RObj v e sz lm ct None.
Proof.
  intros H. apply run_snoc_res in H. destruct (run_inv1 ops) as [[I1 I2] _].
  exact (complete_read_your_write _ _ _ _ _ _ _ _ _ _ _ I1 I2 H).
Qed.
