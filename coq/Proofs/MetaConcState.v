(* Proofs/MetaConcState.v — how the building blocks of Model/Meta.v act on the tables (frame facts). *)
From Verif Require Import Bytes Codec Md5 Meta MetaBasics MetaConc MetaConcBase.
From Coq Require Import ZifyBool ZifyN ZifyNat.

(* ---------- put_fresh_part touches only store / registry / dedup / next_id ---------- *)
Lemma pfp_facts s c np s1 :
  put_fresh_part s c = (np, s1) ->
  objs s1 = objs s /\ parts s1 = parts s /\ buckets s1 = buckets s /\ next_id s1 = (next_id s + 1)%N /\
  n_content np = c /\ clock s1 = clock s.
Proof.
  unfold put_fresh_part, fresh. cbn.
  destruct (dedup_get (dedup s) c) as [sh|].
  - destruct (match reg_get (registry s) sh with Some c0 => _ | None => _ end) as [r'|];
      intros H; inversion H; subst; cbn; repeat split; reflexivity.
  - intros H; inversion H; subst; cbn; repeat split; reflexivity.
Qed.

(* ---------- save_part_rows ---------- *)
Fixpoint mk_prows (oid : N) (ps : list npart) (seq : N) : list prow :=
  match ps with
  | [] => []
  | p :: rest => {| p_obj := oid; p_seq := seq; p_pid := n_pid p; p_content := n_content p |} :: mk_prows oid rest (seq + 1)
  end.

Lemma register_part_frame s pid :
  objs (register_part s pid) = objs s /\ parts (register_part s pid) = parts s /\
  buckets (register_part s pid) = buckets s /\ next_id (register_part s pid) = next_id s /\
  clock (register_part s pid) = clock s.
Proof. unfold register_part. cbn. repeat split; reflexivity. Qed.

Lemma spr_facts ps : forall s oid seq,
  objs (save_part_rows s oid ps seq) = objs s /\
  parts (save_part_rows s oid ps seq) = parts s ++ mk_prows oid ps seq /\
  buckets (save_part_rows s oid ps seq) = buckets s /\
  next_id (save_part_rows s oid ps seq) = next_id s /\
  clock (save_part_rows s oid ps seq) = clock s.
Proof.
  induction ps as [|p ps IH]; intros s oid sq; cbn [save_part_rows mk_prows].
  - rewrite app_nil_r. repeat split; reflexivity.
  - match goal with |- context [save_part_rows ?S oid ps (sq + 1)%N] => destruct (IH S oid (sq + 1)%N) as (Ha & Hb & Hc & Hd & He) end.
    rewrite Ha, Hb, Hc, Hd, He. destruct (n_pre p); cbn; rewrite <- ?app_assoc; cbn; repeat split; reflexivity.
Qed.

Lemma mk_prows_obj oid ps : forall seq q, In q (mk_prows oid ps seq) -> p_obj q = oid.
Proof. induction ps as [|p ps IH]; intros seq q H; cbn in H; [contradiction|]. destruct H as [<-|H]; [reflexivity|eapply IH; exact H]. Qed.
Lemma mk_prows_asc oid ps : forall seq, strictly_asc seq (mk_prows oid ps seq).
Proof. induction ps as [|p ps IH]; intros seq; cbn; [exact I|]. split; [reflexivity|apply IH]. Qed.
Lemma mk_prows_content oid ps : forall seq, map p_content (mk_prows oid ps seq) = map n_content ps.
Proof. induction ps as [|p ps IH]; intros seq; cbn; [reflexivity|]. rewrite IH. reflexivity. Qed.
Lemma filter_all {A} (f : A -> bool) l : (forall x, In x l -> f x = true) -> filter f l = l.
Proof. induction l as [|x l IH]; cbn; intros H; [reflexivity|]. rewrite (H x (or_introl eq_refl)), IH; [reflexivity|]. intros y Hy; apply H; right; exact Hy. Qed.
Lemma filter_none {A} (f : A -> bool) l : (forall x, In x l -> f x = false) -> filter f l = [].
Proof. induction l as [|x l IH]; cbn; intros H; [reflexivity|]. rewrite (H x (or_introl eq_refl)), IH; [reflexivity|]. intros y Hy; apply H; right; exact Hy. Qed.

(* ---------- update_row / insert_row ---------- *)
Definition upd_fun (r : orow) (now : N) (x : orow) : orow :=
  if N.eqb (o_id x) (o_id r) then with_row r (o_latest r) now (o_lock x + 1) else x.

Lemma update_row_facts s r :
  objs (update_row s r) = map (upd_fun r (clock s)) (objs s) /\ parts (update_row s r) = parts s /\
  buckets (update_row s r) = buckets s /\ next_id (update_row s r) = next_id s /\
  clock (update_row s r) = (clock s + 1)%N /\ registry (update_row s r) = registry s /\
  store (update_row s r) = store s /\ dedup (update_row s r) = dedup s.
Proof. unfold update_row, tick, upd_fun. cbn. repeat split; reflexivity. Qed.

Lemma upd_fun_id r now x : o_id (upd_fun r now x) = o_id x.
Proof. unfold upd_fun. destruct (N.eqb (o_id x) (o_id r)) eqn:E; [|reflexivity]. cbn. apply N.eqb_eq in E. congruence. Qed.
Lemma map_upd_ids r now l : map o_id (map (upd_fun r now) l) = map o_id l.
Proof. rewrite map_map. apply map_ext. intros x. apply upd_fun_id. Qed.

Lemma insert_row_facts s mk id s1 :
  insert_row s mk = (id, s1) ->
  id = next_id s /\ objs s1 = objs s ++ [mk id (clock s)] /\ parts s1 = parts s /\ buckets s1 = buckets s /\
  next_id s1 = (next_id s + 1)%N /\ clock s1 = (clock s + 1)%N /\ registry s1 = registry s /\
  store s1 = store s /\ dedup s1 = dedup s.
Proof. unfold insert_row, fresh, tick. cbn. intros H. inversion H; subst. cbn. repeat split; reflexivity. Qed.

(* find over rows rewritten by upd_fun: the first match of the old list has the rewritten id *)
Lemma find_map_upd (f : orow -> bool) (l : list orow) (old r : orow) now :
  find f l = Some old -> o_id r = o_id old -> (forall x, f (upd_fun r now x) = true \/ N.eqb (o_id x) (o_id r) = false) ->
  exists x0, In x0 l /\ o_id x0 = o_id old /\ find f (map (upd_fun r now) l) = Some (upd_fun r now x0).
Proof.
  intros H Hid Hf. induction l as [|x l IH]; cbn in *; [discriminate|].
  destruct (N.eqb (o_id x) (o_id r)) eqn:E.
  - exists x. split; [left; reflexivity|]. split; [apply N.eqb_eq in E; congruence|].
    destruct (Hf x) as [F|F]; [rewrite F; reflexivity|congruence].
  - assert (upd_fun r now x = x) as Ux by (unfold upd_fun; rewrite E; reflexivity). rewrite Ux.
    destruct (f x) eqn:Fx.
    + inversion H; subst. rewrite Hid, N.eqb_refl in E. discriminate.
    + destruct (IH H) as (x0 & I0 & J0 & K0). exists x0. split; [right; exact I0|]. split; assumption.
Qed.
