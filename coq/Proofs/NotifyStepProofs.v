(* Proofs/NotifyStepProofs.v — C22 round 2: DeleteObjects batches and the dispatcher across crashes / lease expiry *)
From Verif Require Import Bytes Codec Notify NotifyProofs.
From Coq Require Import ZifyBool ZifyN ZifyNat.

(* ---------- DeleteObjects ---------- *)
Lemma batch_entry_refused bk e bk' : batch_entry bk e = (bk', BRefused) -> bk' = bk.
Proof.
  unfold batch_entry. destruct (re_r e) as [|vn].
  - destruct (latest_obj (re_key e) bk) as [v|].
    + destruct (cond_holds e v); intros H; inversion H; reflexivity.
    + destruct (has_cond e); [intros H; inversion H; reflexivity|]. destruct (b_versioned bk); intros H; inversion H.
  - destruct (match vn with Some n => find_ver n (stack_of (re_key e) bk) | None => None end) as [v|].
    + destruct (cond_holds e v); intros H; inversion H; reflexivity.
    + destruct (has_cond e); intros H; inversion H; reflexivity.
Qed.

Lemma batch_entries_length bk es : length (snd (batch_entries bk es)) = length es.
Proof.
  revert bk; induction es as [|e es IH]; intros bk; cbn; [reflexivity|].
  destruct (batch_entry bk e) as [bk1 r]. specialize (IH bk1). destruct (batch_entries bk1 es) as [bk2 rs]. cbn in *. lia.
Qed.

Lemma batch_rows_spec bk b : forall ks rs e,
  In e (batch_rows bk b ks rs) <->
  exists i k m, nth_error ks i = Some k /\ nth_error rs i = Some (BDeleted m) /\
                In e (entries_for bk b (if m then ev_marker else ev_del) k).
Proof.
  induction ks as [|k ks IH]; intros rs e.
  - cbn. split; [intros [] | intros (i & k & m & H & _); destruct i; discriminate].
  - destruct rs as [|r rs].
    + cbn. split; [intros [] | intros (i & k0 & m & _ & H & _); destruct i; discriminate].
    + cbn [batch_rows]. rewrite in_app_iff, IH. split.
      * intros [H | (i & k0 & m & H1 & H2 & H3)].
        -- destruct r as [|m]; [contradiction|]. exists 0, k, m. auto.
        -- exists (S i), k0, m. auto.
      * intros (i & k0 & m & H1 & H2 & H3). destruct i as [|i]; cbn in H1, H2.
        -- inversion H1; inversion H2; subst. left. exact H3.
        -- right. exists i, k0, m. auto.
Qed.

Lemma run_batch_spec b ents j cf s s' ok rs es :
  run_batch b ents j cf s = (s', ok, rs, es) ->
  (ok = false -> s' = s /\ rs = [] /\ es = []) /\
  (ok = true -> cf = false /\ ~ (0 < j <= length es) /\ length rs = length ents /\
     s_outbox s' = s_outbox s ++ es /\
     exists bk bk', blookup b (s_buckets s) = Some bk /\ batch_entries bk (map (resolve bk) ents) = (bk', rs) /\
                    s_buckets s' = bset b bk' (s_buckets s) /\ es = batch_rows bk' b (map be_key ents) rs).
Proof.
  unfold run_batch. destruct (blookup b (s_buckets s)) as [bk|] eqn:E.
  - pose proof (batch_entries_length bk (map (resolve bk) ents)) as Hl.
    destruct (batch_entries bk (map (resolve bk) ents)) as [bk' rs0] eqn:Eb. cbn [snd] in Hl. rewrite map_length in Hl.
    set (es0 := batch_rows bk' b (map be_key ents) rs0).
    destruct (((0 <? j) && (j <=? length es0)) || cf) eqn:Ec; intros H; inversion H; subst; clear H.
    + split; [auto | discriminate].
    + split; [discriminate|]. intros _. apply orb_false_iff in Ec as [Ec ->].
      split; [reflexivity|]. split; [lia|]. split; [exact Hl|]. split; [reflexivity|].
      exists bk, bk'. auto.
  - intros H; inversion H; subst. split; [auto | discriminate].
Qed.

(* ---------- the outbox table under claims ---------- *)
Lemma find_row_in id rs r : find_row id rs = Some r -> In r rs /\ w_id r = id.
Proof.
  induction rs as [|x rs IH]; cbn; [discriminate|]. destruct (Nat.eqb (w_id x) id) eqn:E.
  - intros H; inversion H; subst. split; [left; reflexivity | apply Nat.eqb_eq, E].
  - intros H. destruct (IH H). auto.
Qed.

(* a write by an owner that does not hold the row's claim changes nothing *)
Lemma apply_write_no_claim oid id upd rs :
  (find_row id rs = None \/ exists r, find_row id rs = Some r /\ forall x, w_claim r <> Some (oid, x)) ->
  apply_write oid id upd rs = rs.
Proof.
  induction rs as [|x rs IH]; cbn; [reflexivity|]. destruct (Nat.eqb (w_id x) id) eqn:E.
  - intros [H | (r & H & Hc)]; [discriminate|]. inversion H; subst r.
    destruct (w_claim x) as [[o ex]|]; [|reflexivity].
    destruct (Nat.eqb o oid) eqn:Eo; [|reflexivity]. apply Nat.eqb_eq in Eo; subst. exfalso. apply (Hc ex). reflexivity.
  - intros H. rewrite IH by exact H. reflexivity.
Qed.

(* a write by the claim owner replaces exactly that row (claim cleared) *)
Lemma apply_write_update oid id upd rs r x e' :
  find_row id rs = Some r -> w_claim r = Some (oid, x) -> upd (Some (w_e r)) = Some e' ->
  find_row id (apply_write oid id upd rs) = Some (with_entry e' None r).
Proof.
  induction rs as [|y rs IH]; cbn; [discriminate|]. destruct (Nat.eqb (w_id y) id) eqn:E.
  - intros H Hc Hu. inversion H; subst y. rewrite Hc, Nat.eqb_refl, Hu. cbn. rewrite E. reflexivity.
  - intros H Hc Hu. cbn. rewrite E. apply IH; assumption.
Qed.

Lemma apply_write_delete oid id upd rs r x :
  NoDup (map w_id rs) -> find_row id rs = Some r -> w_claim r = Some (oid, x) -> upd (Some (w_e r)) = None ->
  find_row id (apply_write oid id upd rs) = None.
Proof.
  induction rs as [|y rs IH]; cbn; [discriminate|]. intros Hnd. inversion Hnd as [|? ? Hni Hnd']; subst.
  destruct (Nat.eqb (w_id y) id) eqn:E.
  - intros H Hc Hu. inversion H; subst y. rewrite Hc, Nat.eqb_refl, Hu.
    apply Nat.eqb_eq in E. destruct (find_row id rs) as [r'|] eqn:F; [|reflexivity].
    apply find_row_in in F as [Hin Hid]. exfalso. apply Hni. rewrite E, <- Hid. apply in_map, Hin.
  - intros H Hc Hu. cbn. rewrite E. apply IH; assumption.
Qed.

Lemma apply_write_other oid id upd rs id' : id' <> id -> find_row id' (apply_write oid id upd rs) = find_row id' rs.
Proof.
  intros N. induction rs as [|y rs IH]; cbn; [reflexivity|]. destruct (Nat.eqb (w_id y) id) eqn:E.
  - apply Nat.eqb_eq in E.
    destruct (w_claim y) as [[o ex]|]; [|reflexivity]. destruct (Nat.eqb o oid); [|reflexivity].
    destruct (upd (Some (w_e y))) as [e'|]; cbn;
      (destruct (Nat.eqb (w_id y) id') eqn:E'; [apply Nat.eqb_eq in E'; congruence | reflexivity]).
  - cbn. destruct (Nat.eqb (w_id y) id'); [reflexivity | exact IH].
Qed.

(* rows only leave the table through a delete, and every remaining row keeps its id *)
Lemma apply_write_ids oid id upd rs : forall r', In r' (apply_write oid id upd rs) -> exists r, In r rs /\ w_id r = w_id r'.
Proof.
  induction rs as [|y rs IH]; cbn; [intros r' []|]. intros r'. destruct (Nat.eqb (w_id y) id) eqn:E.
  - destruct (w_claim y) as [[o ex]|]; [|intros H; exists r'; auto].
    destruct (Nat.eqb o oid); [|intros H; exists r'; auto].
    destruct (upd (Some (w_e y))) as [e'|].
    + intros [<-|H]; [exists y; auto | exists r'; auto].
    + intros H. exists r'. auto.
  - intros [<-|H]; [exists y; auto|]. destruct (IH r' H) as (r & Hi & He). exists r. auto.
Qed.

Lemma apply_write_keeps oid id upd rs r : In r rs -> w_id r <> id -> In r (apply_write oid id upd rs).
Proof.
  induction rs as [|y rs IH]; cbn; [intros []|]. intros [->|H] N.
  - destruct (Nat.eqb (w_id r) id) eqn:E; [apply Nat.eqb_eq in E; contradiction | left; reflexivity].
  - destruct (Nat.eqb (w_id y) id).
    + destruct (w_claim y) as [[o ex]|]; [|right; exact H]. destruct (Nat.eqb o oid); [|right; exact H].
      destruct (upd (Some (w_e y))); [right; exact H | exact H].
    + right. apply IH; assumption.
Qed.

(* ---------- dispatchEntry of a held claim ---------- *)
Definition holds_claim (o : owner) (id : nat) (rs : list row) : Prop :=
  exists r x, find_row id rs = Some r /\ w_claim r = Some (o_id o, x).

(* the dead-letter rule: a failed attempt handled by the claim owner with attempts >= MaxAttempts > 0 dead-letters
   the row at once, whatever attempts value the claims have pushed the row to *)
Lemma handle_dead_letters c fails o id a e rs :
  o_held o = Some (id, a, e) -> holds_claim o id rs -> fails (n_dest e) a = true ->
  (forall r, find_row id rs = Some r -> n_dest (w_e r) = n_dest e) ->
  (0 < o_max o <= a)%Z ->
  exists r', find_row id (fst (handle_held c fails o false rs)) = Some r' /\ n_state (w_e r') = Dead /\ w_claim r' = None.
Proof.
  intros Hh (r & x & Hf & Hc) Hfail Hd Hm. unfold handle_held. rewrite Hh. cbn [fst].
  assert (handle_write c (o_max o) fails (w_e r) a =
          Some {| n_dest := n_dest (w_e r); n_event := n_event (w_e r); n_key := n_key (w_e r); n_attempts := n_attempts (w_e r);
                  n_state := Dead; n_delay := None |}) as Hw.
  { unfold handle_write. rewrite (Hd r Hf), Hfail. replace ((0 <? o_max o)%Z && (o_max o <=? a)%Z) with true by lia. reflexivity. }
  eexists. split; [eapply apply_write_update; eauto|]. split; reflexivity.
Qed.

Lemma handle_releases c fails o id a e rs :
  o_held o = Some (id, a, e) -> holds_claim o id rs -> fails (n_dest e) a = true ->
  (forall r, find_row id rs = Some r -> n_dest (w_e r) = n_dest e) ->
  ~ (0 < o_max o <= a)%Z ->
  exists r r', find_row id rs = Some r /\ find_row id (fst (handle_held c fails o false rs)) = Some r' /\
    n_state (w_e r') = Pending false /\ w_claim r' = None /\ n_attempts (w_e r') = n_attempts (w_e r) /\
    n_delay (w_e r') = Some (delay c a).
Proof.
  intros Hh (r & x & Hf & Hc) Hfail Hd Hm. unfold handle_held. rewrite Hh. cbn [fst].
  assert (handle_write c (o_max o) fails (w_e r) a =
          Some {| n_dest := n_dest (w_e r); n_event := n_event (w_e r); n_key := n_key (w_e r); n_attempts := n_attempts (w_e r);
                  n_state := Pending false; n_delay := Some (delay c a) |}) as Hw.
  { unfold handle_write. rewrite (Hd r Hf), Hfail. replace ((0 <? o_max o)%Z && (o_max o <=? a)%Z) with false by lia. reflexivity. }
  exists r. eexists. split; [exact Hf|]. split; [eapply apply_write_update; eauto|]. repeat split; reflexivity.
Qed.

(* an acknowledged publish whose delete is written by the claim owner removes the row *)
Lemma handle_ack_deletes c fails o id a e rs :
  NoDup (map w_id rs) -> o_held o = Some (id, a, e) -> holds_claim o id rs -> fails (n_dest e) a = false ->
  (forall r, find_row id rs = Some r -> n_dest (w_e r) = n_dest e) ->
  find_row id (fst (handle_held c fails o false rs)) = None.
Proof.
  intros Hnd Hh (r & x & Hf & Hc) Hok Hd. unfold handle_held. rewrite Hh. cbn [fst].
  eapply apply_write_delete; eauto. unfold handle_write. rewrite (Hd r Hf), Hok. reflexivity.
Qed.

(* a dispatcher whose write fails (it died before it), or that no longer holds the claim, changes nothing — but it
   has published: that publish is the at-least-once duplicate *)
Lemma handle_without_claim c fails o wfail rs id a e :
  o_held o = Some (id, a, e) ->
  wfail = true \/ ~ holds_claim o id rs ->
  fst (handle_held c fails o wfail rs) = rs /\
  snd (handle_held c fails o wfail rs) =
    Some {| p_dest := n_dest e; p_event := n_event e; p_key := n_key e; p_attempt := a; p_ok := negb (fails (n_dest e) a) |}.
Proof.
  intros Hh H. unfold handle_held. rewrite Hh. destruct wfail; [split; reflexivity|].
  destruct H as [H|H]; [discriminate|]. cbn [fst snd]. split; [|reflexivity].
  apply apply_write_no_claim. destruct (find_row id rs) as [r|] eqn:F; [|left; reflexivity].
  right. exists r. split; [reflexivity|]. intros x Hc. apply H. exists r, x. auto.
Qed.

(* never lost: a row leaves the table only by the delete after an acknowledged publish of its claim owner *)
Lemma apply_write_lost oid id upd rs r :
  In r rs ->
  (exists r', In r' (apply_write oid id upd rs) /\ w_id r' = w_id r) \/
  (w_id r = id /\ upd (Some (w_e r)) = None /\ exists x, w_claim r = Some (oid, x)).
Proof.
  induction rs as [|y rs IH]; cbn; [intros []|]. intros [->|H].
  - destruct (Nat.eqb (w_id r) id) eqn:E.
    + destruct (w_claim r) as [[o ex]|] eqn:Ec; [|left; exists r; cbn; auto].
      destruct (Nat.eqb o oid) eqn:Eo; [|left; exists r; cbn; auto].
      destruct (upd (Some (w_e r))) as [e'|] eqn:Eu.
      * left. eexists. split; [left; reflexivity | reflexivity].
      * right. apply Nat.eqb_eq in E, Eo. subst o. split; [exact E|]. split; [reflexivity|]. exists ex. reflexivity.
    + left. exists r. cbn. auto.
  - destruct (Nat.eqb (w_id y) id).
    + left. exists r. split; [|reflexivity].
      destruct (w_claim y) as [[o ex]|]; [|right; exact H]. destruct (Nat.eqb o oid); [|right; exact H].
      destruct (upd (Some (w_e y))); [right; exact H | exact H].
    + destruct (IH H) as [(r' & Hi & He) | Hl]; [left; exists r'; cbn; auto | right; exact Hl].
Qed.

Lemma handle_never_loses c fails o wfail rs r :
  In r rs ->
  (exists r', In r' (fst (handle_held c fails o wfail rs)) /\ w_id r' = w_id r) \/
  (exists a e x, o_held o = Some (w_id r, a, e) /\ wfail = false /\ w_claim r = Some (o_id o, x) /\
                 fails (n_dest (w_e r)) a = false).
Proof.
  intros Hin. unfold handle_held. destruct (o_held o) as [[[id a] e]|] eqn:Hh; [|left; exists r; auto].
  destruct wfail; [left; exists r; auto|]. cbn [fst].
  destruct (apply_write_lost (o_id o) id
              (fun cur => match cur with Some ce => handle_write c (o_max o) fails ce a | None => None end) rs r Hin)
    as [Hk | (Hid & Hu & x & Hc)]; [left; exact Hk|].
  right. exists a, e, x. subst id. split; [reflexivity|]. split; [reflexivity|]. split; [exact Hc|].
  unfold handle_write in Hu. destruct (fails (n_dest (w_e r)) a); [|reflexivity].
  destruct ((0 <? o_max o)%Z && (o_max o <=? a)%Z); discriminate.
Qed.

(* ---------- claims ---------- *)
(* ClaimFirst takes a claimable row (due, not dead-lettered, unclaimed or lease run out), persists attempts+1 and
   the claim; no other row changes and no row appears or disappears *)
Lemma claim_first_spec oid : forall rs rs' id a e,
  claim_first oid rs = (rs', Some (id, a, e)) ->
  exists r, In r rs /\ w_id r = id /\ claimable r = true /\ e = w_e r /\ a = (n_attempts (w_e r) + 1)%Z /\
            In (with_entry (set_attempts a (w_e r)) (Some (oid, false)) r) rs' /\
            map w_id rs' = map w_id rs /\
            (forall r0, In r0 rs' -> r0 = with_entry (set_attempts a (w_e r)) (Some (oid, false)) r \/ In r0 rs).
Proof.
  induction rs as [|y rs IH]; intros rs' id a e H; cbn in H; [discriminate|].
  destruct (claimable y) eqn:Ec.
  - inversion H; subst; clear H. exists y. cbn. repeat split; auto. intros r0 [<-|H0]; auto.
  - destruct (claim_first oid rs) as [rest' res] eqn:E. inversion H; subst; clear H.
    destruct (IH _ _ _ _ eq_refl) as (r & Hi & Hid & Hcl & He & Ha & Hin & Hm & Hall). exists r.
    split; [right; exact Hi|]. split; [exact Hid|]. split; [exact Hcl|]. split; [exact He|]. split; [exact Ha|].
    split; [right; exact Hin|]. split; [cbn; rewrite Hm; reflexivity|].
    intros r0 [<-|H0]; [right; left; reflexivity|]. destruct (Hall r0 H0) as [->|H1]; auto. right; right; exact H1.
Qed.

Lemma claim_first_none oid : forall rs rs', claim_first oid rs = (rs', None) -> rs' = rs /\ forall r, In r rs -> claimable r = false.
Proof.
  induction rs as [|y rs IH]; intros rs' H; cbn in H; [inversion H; split; [reflexivity | intros r []]|].
  destruct (claimable y) eqn:Ec; [discriminate|].
  destruct (claim_first oid rs) as [rest' res] eqn:E. inversion H; subst; clear H.
  destruct (IH _ eq_refl) as [-> Hn]. split; [reflexivity|]. intros r [<-|Hr]; auto.
Qed.

(* a dead-lettered row is never claimable, a row under a live lease neither *)
Lemma dead_not_claimable r : n_state (w_e r) = Dead -> claimable r = false.
Proof. unfold claimable. intros ->. reflexivity. Qed.
Lemma live_lease_not_claimable r o : w_claim r = Some (o, false) -> claimable r = false.
Proof. unfold claimable. intros ->. destruct (n_state (w_e r)) as [[|]|]; reflexivity. Qed.

(* ---------- whole histories: what every step preserves ---------- *)
Definition dead_ok (rs : list row) : Prop := forall r, In r rs -> n_state (w_e r) = Dead -> w_claim r = None.

(* rs' is a legal successor table of rs (no new rows):
   dead rows stay dead with the same attempts; a row only disappears after a successful publish to its destination;
   destinations never change; no row appears *)
Definition succ_rel (fails : bytes -> Z -> bool) (rs rs' : list row) : Prop :=
  (forall r, In r rs -> n_state (w_e r) = Dead -> w_claim r = None ->
     exists r', In r' rs' /\ w_id r' = w_id r /\ n_state (w_e r') = Dead /\ n_attempts (w_e r') = n_attempts (w_e r) /\ w_claim r' = None) /\
  (forall r, In r rs -> (exists r', In r' rs' /\ w_id r' = w_id r /\ n_dest (w_e r') = n_dest (w_e r)) \/
                        (exists a, fails (n_dest (w_e r)) a = false)) /\
  (forall r', In r' rs' -> exists r, In r rs /\ w_id r = w_id r') /\
  (dead_ok rs -> dead_ok rs') /\
  (NoDup (map w_id rs) -> NoDup (map w_id rs')).

Lemma succ_refl fails rs : succ_rel fails rs rs.
Proof.
  repeat split; auto.
  - intros r Hi Hd Hc. exists r. auto.
  - intros r Hi. left. exists r. auto.
  - intros r Hi. exists r. auto.
Qed.

Lemma succ_trans fails a b c : succ_rel fails a b -> succ_rel fails b c -> succ_rel fails a c.
Proof.
  intros (A1 & A2 & A3 & A4 & A5) (B1 & B2 & B3 & B4 & B5). repeat split.
  - intros r Hi Hd Hc. destruct (A1 r Hi Hd Hc) as (r1 & I1 & E1 & D1 & T1 & C1).
    destruct (B1 r1 I1 D1 C1) as (r2 & I2 & E2 & D2 & T2 & C2). exists r2. repeat split; auto; congruence.
  - intros r Hi. destruct (A2 r Hi) as [(r1 & I1 & E1 & Q1) | L]; [|right; exact L].
    destruct (B2 r1 I1) as [(r2 & I2 & E2 & Q2) | (x & L)].
    + left. exists r2. repeat split; auto; congruence.
    + right. exists x. rewrite <- Q1. exact L.
  - intros r' Hi. destruct (B3 r' Hi) as (r1 & I1 & E1). destruct (A3 r1 I1) as (r & I & E). exists r. split; [exact I | congruence].
  - auto.
  - auto.
Qed.

Lemma succ_map fails (f : row -> row) rs :
  (forall r, w_id (f r) = w_id r /\ n_dest (w_e (f r)) = n_dest (w_e r) /\
             (n_state (w_e r) = Dead <-> n_state (w_e (f r)) = Dead) /\
             n_attempts (w_e (f r)) = n_attempts (w_e r) /\ (w_claim r = None -> w_claim (f r) = None)) ->
  succ_rel fails rs (map f rs).
Proof.
  intros Hf. repeat split.
  - intros r Hi Hd Hc. exists (f r). destruct (Hf r) as (F1 & F2 & F3 & F4 & F5).
    repeat split; auto; [apply in_map, Hi | apply F3, Hd].
  - intros r Hi. left. exists (f r). destruct (Hf r) as (F1 & F2 & _). split; [apply in_map, Hi | auto].
  - intros r' Hi. apply in_map_iff in Hi as (r & <- & Hi). exists r. destruct (Hf r) as (F1 & _). auto.
  - intros Hd r' Hi Hs. apply in_map_iff in Hi as (r & <- & Hi). destruct (Hf r) as (F1 & F2 & F3 & F4 & F5).
    apply F5, Hd; [exact Hi | apply F3, Hs].
  - intros Hn. rewrite map_map. erewrite map_ext; [exact Hn|]. intros r. apply Hf.
Qed.

Lemma succ_age fails rs : succ_rel fails rs (map age_row rs).
Proof.
  apply succ_map. intros r. unfold age_row, age_entry; cbn.
  destruct (n_state (w_e r)) as [d|]; repeat split; auto; discriminate.
Qed.
Lemma succ_expire fails rs : succ_rel fails rs (map expire_row rs).
Proof.
  apply succ_map. intros r. unfold expire_row; cbn. repeat split; auto. intros H; rewrite H; reflexivity.
Qed.
Lemma succ_clear fails rs : succ_rel fails rs (map clear_delay rs).
Proof. apply succ_map. intros r. unfold clear_delay, set_attempts; cbn. repeat split; auto. Qed.

Lemma NoDup_apply_write oid id upd rs : NoDup (map w_id rs) -> NoDup (map w_id (apply_write oid id upd rs)).
Proof.
  induction rs as [|y rs IH]; cbn; [auto|]. intros H. inversion H as [|? ? Hni Hnd]; subst.
  destruct (Nat.eqb (w_id y) id).
  - destruct (w_claim y) as [[o ex]|]; [|exact H]. destruct (Nat.eqb o oid); [|exact H].
    destruct (upd (Some (w_e y))); [exact H | exact Hnd].
  - cbn. constructor; [|apply IH, Hnd]. intros Hin. apply in_map_iff in Hin as (r' & E' & Hi').
    destruct (apply_write_ids _ _ _ _ _ Hi') as (r & Hi & E). apply Hni. rewrite <- E', <- E. apply in_map, Hi.
Qed.

Lemma apply_write_keeps_unclaimed oid id upd rs r : In r rs -> w_claim r = None -> In r (apply_write oid id upd rs).
Proof.
  induction rs as [|y rs IH]; cbn; [intros []|]. intros [->|H] Hc.
  - destruct (Nat.eqb (w_id r) id); [rewrite Hc|]; left; reflexivity.
  - destruct (Nat.eqb (w_id y) id).
    + destruct (w_claim y) as [[o ex]|]; [|right; exact H]. destruct (Nat.eqb o oid); [|right; exact H].
      destruct (upd (Some (w_e y))); [right; exact H | exact H].
    + right. apply IH; assumption.
Qed.

Lemma apply_write_rows oid id upd rs r' : In r' (apply_write oid id upd rs) -> In r' rs \/ w_claim r' = None.
Proof.
  induction rs as [|y rs IH]; cbn; [intros []|]. destruct (Nat.eqb (w_id y) id).
  - destruct (w_claim y) as [[o ex]|]; [|intros H; left; exact H]. destruct (Nat.eqb o oid); [|intros H; left; exact H].
    destruct (upd (Some (w_e y))) as [e'|].
    + intros [<-|H]; [right; reflexivity | left; right; exact H].
    + intros H. left; right; exact H.
  - intros [<-|H]; [left; left; reflexivity|]. destruct (IH H) as [H1|H1]; [left; right; exact H1 | right; exact H1].
Qed.

Lemma succ_handle c fails o wfail rs :
  (forall id a e r, o_held o = Some (id, a, e) -> In r rs -> w_id r = id -> True) ->
  succ_rel fails rs (fst (handle_held c fails o wfail rs)).
Proof.
  intros _. unfold handle_held. destruct (o_held o) as [[[id a] e]|]; [|apply succ_refl].
  destruct wfail; [apply succ_refl|]. cbn [fst].
  set (upd := fun cur => match cur with Some ce => handle_write c (o_max o) fails ce a | None => None end).
  repeat split.
  - intros r Hi Hd Hc. exists r. repeat split; auto. apply apply_write_keeps_unclaimed; assumption.
  - intros r Hi.
    assert (forall rs0, In r rs0 ->
              (exists r', In r' (apply_write (o_id o) id upd rs0) /\ w_id r' = w_id r /\ n_dest (w_e r') = n_dest (w_e r)) \/
              upd (Some (w_e r)) = None) as Hgen.
    { unfold upd. induction rs0 as [|y rs0 IH]; [intros []|]. cbn. intros [->|H0].
      - destruct (Nat.eqb (w_id r) id); [|left; exists r; cbn; auto].
        destruct (w_claim r) as [[o0 ex]|]; [|left; exists r; cbn; auto]. destruct (Nat.eqb o0 (o_id o)); [|left; exists r; cbn; auto].
        destruct (handle_write c (o_max o) fails (w_e r) a) as [e'|] eqn:Eu; [|right; reflexivity].
        left. eexists. split; [apply in_eq|]. split; [reflexivity|]. cbn.
        unfold handle_write in Eu. destruct (fails (n_dest (w_e r)) a); [|discriminate].
        destruct ((0 <? o_max o)%Z && (o_max o <=? a)%Z); inversion Eu; reflexivity.
      - destruct (Nat.eqb (w_id y) id).
        + left. exists r. split; [|auto].
          destruct (w_claim y) as [[o0 ex]|]; [|right; exact H0]. destruct (Nat.eqb o0 (o_id o)); [|right; exact H0].
          destruct (handle_write c (o_max o) fails (w_e y) a); [right; exact H0 | exact H0].
        + destruct (IH H0) as [(r' & I' & E' & D') | L]; [left; exists r'; cbn; auto | right; exact L]. }
    destruct (Hgen rs Hi) as [Hk | Hu]; [left; exact Hk|]. right. exists a.
    unfold upd, handle_write in Hu. destruct (fails (n_dest (w_e r)) a); [|reflexivity].
    destruct ((0 <? o_max o)%Z && (o_max o <=? a)%Z); discriminate.
  - intros r' Hi. apply apply_write_ids in Hi. exact Hi.
  - intros Hd r' Hi Hs. destruct (apply_write_rows _ _ _ _ _ Hi) as [H|H]; [apply Hd; assumption | exact H].
  - apply NoDup_apply_write.
Qed.

(* replacing one live row by a live row with the same id and destination *)
Lemma succ_replace fails pre r r' post :
  w_id r' = w_id r -> n_dest (w_e r') = n_dest (w_e r) -> n_state (w_e r) <> Dead -> n_state (w_e r') <> Dead ->
  succ_rel fails (pre ++ r :: post) (pre ++ r' :: post).
Proof.
  intros Hid Hd Hs Hs'. repeat split.
  - intros x Hi Hx Hc. exists x. repeat split; auto. apply in_app_iff in Hi as [Hi|[<-|Hi]];
      [apply in_app_iff; left; exact Hi | contradiction | apply in_app_iff; right; right; exact Hi].
  - intros x Hi. left. apply in_app_iff in Hi as [Hi|[<-|Hi]].
    + exists x. split; [apply in_app_iff; left; exact Hi | auto].
    + exists r'. split; [apply in_app_iff; right; left; reflexivity | auto].
    + exists x. split; [apply in_app_iff; right; right; exact Hi | auto].
  - intros x Hi. apply in_app_iff in Hi as [Hi|[<-|Hi]].
    + exists x. split; [apply in_app_iff; left; exact Hi | reflexivity].
    + exists r. split; [apply in_app_iff; right; left; reflexivity | auto].
    + exists x. split; [apply in_app_iff; right; right; exact Hi | reflexivity].
  - intros H x Hi Hx. apply in_app_iff in Hi as [Hi|[<-|Hi]].
    + apply H; [apply in_app_iff; left; exact Hi | exact Hx].
    + contradiction.
    + apply H; [apply in_app_iff; right; right; exact Hi | exact Hx].
  - rewrite !map_app. cbn. rewrite Hid. auto.
Qed.

Lemma claim_first_shape oid : forall rs rs' res, claim_first oid rs = (rs', res) ->
  (res = None /\ rs' = rs) \/
  exists pre r post, rs = pre ++ r :: post /\ claimable r = true /\
    rs' = pre ++ with_entry (set_attempts (n_attempts (w_e r) + 1) (w_e r)) (Some (oid, false)) r :: post /\
    res = Some (w_id r, (n_attempts (w_e r) + 1)%Z, w_e r).
Proof.
  induction rs as [|y rs IH]; intros rs' res H; cbn in H; [inversion H; left; auto|].
  destruct (claimable y) eqn:Ec.
  - inversion H; subst. right. exists [], y, rs. auto.
  - destruct (claim_first oid rs) as [rest' res0] eqn:E. inversion H; subst; clear H.
    destruct (IH _ _ eq_refl) as [[-> ->] | (pre & r & post & -> & Hc & -> & ->)]; [left; auto|].
    right. exists (y :: pre), r, post. auto.
Qed.

Lemma claimable_live r : claimable r = true -> n_state (w_e r) = Pending true.
Proof. unfold claimable. destruct (n_state (w_e r)) as [[|]|]; try discriminate. reflexivity. Qed.

Lemma succ_claim fails oid rs : succ_rel fails rs (fst (claim_first oid rs)).
Proof.
  destruct (claim_first oid rs) as [rs' res] eqn:E. cbn [fst].
  destruct (claim_first_shape _ _ _ _ E) as [[_ ->] | (pre & r & post & -> & Hc & -> & _)]; [apply succ_refl|].
  apply succ_replace; cbn; auto; rewrite (claimable_live _ Hc); discriminate.
Qed.

Lemma succ_dispatch_all c fails o : forall fuel rs, succ_rel fails rs (fst (dispatch_all fuel c fails o rs)).
Proof.
  induction fuel as [|f IH]; intros rs; cbn [dispatch_all]; [apply succ_refl|].
  pose proof (succ_claim fails (o_id o) rs) as H1.
  destruct (claim_first (o_id o) rs) as [rs1 [held|]]; cbn [fst] in *; [|apply succ_refl].
  pose proof (succ_handle c fails {| o_id := o_id o; o_max := o_max o; o_held := Some held |} false rs1 (fun _ _ _ _ _ _ _ => I)) as H2.
  destruct (handle_held c fails {| o_id := o_id o; o_max := o_max o; o_held := Some held |} false rs1) as [rs2 p]. cbn [fst] in H2.
  specialize (IH rs2). destruct (dispatch_all f c fails o rs2) as [rs3 ps]. cbn [fst] in *.
  eapply succ_trans; [exact H1|]. eapply succ_trans; [exact H2 | exact IH].
Qed.

(* every step of a history: the old rows evolve by [succ_rel], new rows (of committed mutations) are appended *)
Lemma number_rows_ids n es : map w_id (number_rows n es) = seq n (length es).
Proof. revert n; induction es as [|e es IH]; intros n; cbn; [reflexivity|]. rewrite IH. reflexivity. Qed.

Lemma hstep_rows c fails o s s' out : hstep c fails o s = (s', out) ->
  exists old new, h_rows s' = old ++ new /\ succ_rel fails (h_rows s) old /\
                  (forall r, In r new -> n_state (w_e r) = Pending true /\ w_claim r = None /\ n_attempts (w_e r) = 0%Z) /\
                  map w_id new = seq (h_nextid s) (length new) /\ h_nextid s' = h_nextid s + length new.
Proof.
  assert (forall n es r, In r (number_rows n es) -> In (w_e r) es /\ w_claim r = None) as Hnum.
  { intros n es. revert n. induction es as [|e es IH]; intros n r; cbn; [intros []|].
    intros [<-|H]; [cbn; auto|]. destruct (IH _ _ H). auto. }
  assert (forall es, (forall e, In e es -> n_state e = Pending true /\ n_attempts e = 0%Z) ->
            forall n r, In r (number_rows n es) -> n_state (w_e r) = Pending true /\ w_claim r = None /\ n_attempts (w_e r) = 0%Z) as Hnew.
  { intros es He n r Hr. destruct (Hnum _ _ _ Hr) as [H1 H2]. destruct (He _ H1). auto. }
  assert (forall bk b name key e, In e (entries_for bk b name key) -> n_state e = Pending true /\ n_attempts e = 0%Z) as Hef.
  { intros bk b name key e H. apply entries_for_spec in H as [(r & _ & _ & ->) | [_ ->]]; cbn; auto. }
  destruct o; cbn [hstep]; intros H.
  - destruct (blookup b (h_buckets s)); inversion H; subst s' out; exists (h_rows s), []; rewrite app_nil_r;
      (split; [reflexivity|]; split; [apply succ_refl|]; split; [intros r []|]; split; [reflexivity | cbn; lia]).
  - destruct (blookup b (h_buckets s)); inversion H; subst s' out; exists (h_rows s), []; rewrite app_nil_r;
      (split; [reflexivity|]; split; [apply succ_refl|]; split; [intros r []|]; split; [reflexivity | cbn; lia]).
  - destruct (blookup b (h_buckets s)); inversion H; subst s' out; exists (h_rows s), []; rewrite app_nil_r;
      (split; [reflexivity|]; split; [apply succ_refl|]; split; [intros r []|]; split; [reflexivity | cbn; lia]).
  - (* HMut *)
    destruct (run_mut m j false {| s_buckets := h_buckets s; s_outbox := [] |}) as [[s1 ok] es] eqn:E.
    destruct (mut_target m) as [tb tk]. inversion H; subst s' out; clear H. cbn.
    assert (length (number_rows (h_nextid s) es) = length es) as Hl by (rewrite <- (map_length w_id), number_rows_ids, seq_length; reflexivity).
    exists (h_rows s), (number_rows (h_nextid s) es). split; [reflexivity|]. split; [apply succ_refl|].
    split; [|rewrite number_rows_ids, Hl; split; reflexivity].
    apply Hnew. intros e He. destruct (run_mut_atomic _ _ _ _ _ _ _ E) as [Hf Ht]. destruct ok.
    + destruct (Ht eq_refl) as (_ & _ & _ & b & name & key & _ & Hes). subst es.
      destruct (blookup b (s_buckets s1)); [eapply Hef; exact He | destruct He].
    + destruct (Hf eq_refl) as [_ ->]. destruct He.
  - (* HBatch *)
    destruct (run_batch b ents j false {| s_buckets := h_buckets s; s_outbox := [] |}) as [[[s1 ok] rs] es] eqn:E.
    inversion H; subst s' out; clear H. cbn.
    assert (length (number_rows (h_nextid s) es) = length es) as Hl by (rewrite <- (map_length w_id), number_rows_ids, seq_length; reflexivity).
    exists (h_rows s), (number_rows (h_nextid s) es). split; [reflexivity|]. split; [apply succ_refl|].
    split; [|rewrite number_rows_ids, Hl; split; reflexivity].
    apply Hnew. intros e He. destruct (run_batch_spec _ _ _ _ _ _ _ _ _ E) as [Hf Ht]. destruct ok.
    + destruct (Ht eq_refl) as (_ & _ & _ & _ & bk & bk' & _ & _ & _ & Hes). subst es.
      apply batch_rows_spec in He as (i & k & m & _ & _ & He). eapply Hef; exact He.
    + destruct (Hf eq_refl) as (_ & _ & ->). destruct He.
  - (* HDispatch *)
    destruct (nth_error (h_owners s) 0) as [ow|]; [|inversion H; subst s' out; exists (h_rows s), []; rewrite app_nil_r;
      (split; [reflexivity|]; split; [apply succ_refl|]; split; [intros r []|]; split; [reflexivity | cbn; lia])].
    pose proof (succ_dispatch_all c fails ow (S (length (map clear_delay (h_rows s)))) (map clear_delay (h_rows s))) as Hd.
    destruct (dispatch_all (S (length (map clear_delay (h_rows s)))) c fails ow (map clear_delay (h_rows s))) as [rs ps].
    inversion H; subst s' out; clear H. cbn in *. exists rs, []. rewrite app_nil_r. split; [reflexivity|].
    split; [eapply succ_trans; [apply succ_clear | exact Hd]|]. split; [intros r []|]. split; [reflexivity | cbn; lia].
  - inversion H; subst s' out; cbn. exists (map age_row (h_rows s)), []. rewrite app_nil_r. split; [reflexivity|].
    split; [apply succ_age|]. split; [intros r []|]. split; [reflexivity | cbn; lia].
  - inversion H; subst s' out; cbn. exists (map expire_row (h_rows s)), []. rewrite app_nil_r. split; [reflexivity|].
    split; [apply succ_expire|]. split; [intros r []|]. split; [reflexivity | cbn; lia].
  - (* HClaim *)
    destruct (nth_error (h_owners s) slot) as [ow|]; [|inversion H; subst s' out; exists (h_rows s), []; rewrite app_nil_r;
      (split; [reflexivity|]; split; [apply succ_refl|]; split; [intros r []|]; split; [reflexivity | cbn; lia])].
    pose proof (succ_claim fails (o_id ow) (h_rows s)) as Hc.
    destruct (claim_first (o_id ow) (h_rows s)) as [rs [[[id a] e]|]] eqn:E; inversion H; subst s' out; clear H; cbn in *.
    + exists rs, []. rewrite app_nil_r. split; [reflexivity|]. split; [exact Hc|]. split; [intros r []|]. split; [reflexivity | cbn; lia].
    + exists (h_rows s), []. rewrite app_nil_r. split; [reflexivity|]. split; [apply succ_refl|]. split; [intros r []|]. split; [reflexivity | cbn; lia].
  - (* HHandle *)
    destruct (nth_error (h_owners s) slot) as [ow|]; [|inversion H; subst s' out; exists (h_rows s), []; rewrite app_nil_r;
      (split; [reflexivity|]; split; [apply succ_refl|]; split; [intros r []|]; split; [reflexivity | cbn; lia])].
    pose proof (succ_handle c fails ow wfail (map clear_delay (h_rows s)) (fun _ _ _ _ _ _ _ => I)) as Hh.
    destruct (handle_held c fails ow wfail (map clear_delay (h_rows s))) as [rs p]. inversion H; subst s' out; clear H; cbn in *.
    exists rs, []. rewrite app_nil_r. split; [reflexivity|]. split; [eapply succ_trans; [apply succ_clear | exact Hh]|]. split; [intros r []|]. split; [reflexivity | cbn; lia].
  - destruct (nth_error (h_owners s) slot); inversion H; subst s' out; cbn; exists (h_rows s), []; rewrite app_nil_r;
      (split; [reflexivity|]; split; [apply succ_refl|]; split; [intros r []|]; split; [reflexivity | cbn; lia]).
Qed.

(* ---------- reachable tables: ids are unique, dead rows carry no claim ---------- *)
Definition good (s : hst) : Prop :=
  NoDup (map w_id (h_rows s)) /\ (forall r, In r (h_rows s) -> w_id r < h_nextid s) /\ dead_ok (h_rows s).

Lemma NoDup_app_disjoint {A} (a b : list A) : NoDup a -> NoDup b -> (forall x, In x a -> In x b -> False) -> NoDup (a ++ b).
Proof.
  induction a as [|x a IH]; cbn; intros Ha Hb Hd; [exact Hb|]. inversion Ha as [|? ? Hn Ha']; subst.
  constructor; [|apply IH; auto; intros y Hy; apply Hd; right; exact Hy].
  intros Hi. apply in_app_iff in Hi as [Hi|Hi]; [contradiction | apply (Hd x); [left; reflexivity | exact Hi]].
Qed.

Lemma hstep_good c fails o s s' out : good s -> hstep c fails o s = (s', out) -> good s'.
Proof.
  intros (Hnd & Hlt & Hd) H.
  destruct (hstep_rows _ _ _ _ _ _ H) as (old & new & Hr & (S1 & S2 & S3 & S4 & S5) & Hnew & Hids & Hnext).
  unfold good. rewrite Hr, Hnext. split; [|split].
  - rewrite map_app, Hids. apply NoDup_app_disjoint; [apply S5, Hnd | apply seq_NoDup|].
    intros x Hx Hy. apply in_map_iff in Hx as (r' & <- & Hr'). destruct (S3 r' Hr') as (r & Hi & He).
    apply in_seq in Hy. specialize (Hlt r Hi). lia.
  - intros r Hi. apply in_app_iff in Hi as [Hi|Hi].
    + destruct (S3 r Hi) as (r0 & Hi0 & He). specialize (Hlt r0 Hi0). lia.
    + assert (In (w_id r) (map w_id new)) as Hm by (apply in_map, Hi). rewrite Hids in Hm. apply in_seq in Hm. lia.
  - intros r Hi Hs. apply in_app_iff in Hi as [Hi|Hi]; [apply (S4 Hd); assumption|]. apply (Hnew r Hi).
Qed.

Fixpoint hstate (c : dcfg) (fails : bytes -> Z -> bool) (ops : list hop) (s : hst) : hst :=
  match ops with [] => s | o :: rest => hstate c fails rest (fst (hstep c fails o s)) end.

Lemma hstate_good c fails ops : forall s, good s -> good (hstate c fails ops s).
Proof.
  induction ops as [|o ops IH]; intros s H; cbn; [exact H|]. apply IH.
  destruct (hstep c fails o s) as [s' out] eqn:E. cbn. eapply hstep_good; eassumption.
Qed.

Lemma good_init c : good (hst_init c).
Proof. repeat split; cbn; [constructor | intros r [] | intros r []]. Qed.
