(* Proofs/TxProofs.v — M-TX: a transaction that fails before or at the database commit restores the whole file
   system (every path, hence the published part files and the temp/backup names) and leaves the committed
   database state alone, provided the part ids touched in the transaction are pairwise distinct. *)
From Verif Require Import Bytes Codec Tx.

Lemma path_eqb_eq a b : path_eqb a b = true <-> a = b.
Proof.
  destruct a, b; cbn; try (split; congruence).
  - rewrite N.eqb_eq. split; congruence.
  - rewrite Nat.eqb_eq. split; congruence.
  - rewrite Nat.eqb_eq. split; congruence.
Qed.
Lemma path_eqb_refl a : path_eqb a a = true.
Proof. apply path_eqb_eq; reflexivity. Qed.
Lemma path_eqb_neq a b : a <> b -> path_eqb a b = false.
Proof. intros H. destruct (path_eqb a b) eqn:E; [apply path_eqb_eq in E; contradiction | reflexivity]. Qed.

Lemma fupd_same fs p v : fupd fs p v p = v.
Proof. unfold fupd. now rewrite path_eqb_refl. Qed.
Lemma fupd_other fs p v q : q <> p -> fupd fs p v q = fs q.
Proof. intros H. unfold fupd. now rewrite (path_eqb_neq q p H). Qed.

(* the paths a cell's three closures can touch *)
Definition own (c : cell) (p : path) : Prop :=
  p = PFinal (c_id c) \/ p = PTemp (c_n c) \/ p = PBackup (c_n c).
Definition disjoint (c c' : cell) : Prop := c_id c <> c_id c' /\ c_n c <> c_n c'.

Lemma own_disjoint c c' p : disjoint c c' -> own c p -> ~ own c' p.
Proof. intros [Hi Hn] [ -> | [ -> | -> ] ] [E|[E|E]]; inversion E; congruence. Qed.

(* simplify reads of updated file systems *)
Ltac fs_simpl :=
  repeat first
    [ rewrite fupd_same in *
    | rewrite fupd_other in * by (discriminate || congruence) ].

Lemma rename_frame a b fs p : p <> a -> p <> b -> fst (rename a b fs) p = fs p.
Proof. intros Ha Hb. unfold rename. destruct (fs a); cbn; [now rewrite !fupd_other by assumption | reflexivity]. Qed.

(* what a cell has done so far, relative to the file system fs0 at the start of the transaction *)
Definition good (fs0 : fsys) (c : cell) (fs : fsys) : Prop :=
  let F := PFinal (c_id c) in let T := PTemp (c_n c) in let Bk := PBackup (c_n c) in
  fs0 T = None /\ fs0 Bk = None /\
  match c_kind c, c_pub c, c_bc c with
  | CPut, false, false => fs F = fs0 F /\ fs Bk = None
  | CPut, false, true => False
  | CPut, true, false => fs0 F = None /\ fs Bk = None /\ fs T = None
  | CPut, true, true => fs Bk = fs0 F /\ fs T = None
  | CDel, _, false => fs F = fs0 F /\ fs Bk = None /\ fs T = None
  | CDel, _, true => fs Bk = fs0 F /\ fs F = None /\ fs T = None
  end.

Lemma good_frame fs0 c fs fs' :
  good fs0 c fs -> (forall p, own c p -> fs' p = fs p) -> good fs0 c fs'.
Proof.
  unfold good, own. intros (H1 & H2 & H) Hf. split; [assumption|]. split; [assumption|].
  rewrite !Hf by auto. exact H.
Qed.

Lemma rollback_frame c fs p : ~ own c p -> rollback_cell c fs p = fs p.
Proof.
  unfold own. intros H.
  assert (p <> PFinal (c_id c)) by tauto. assert (p <> PTemp (c_n c)) by tauto.
  assert (p <> PBackup (c_n c)) by tauto.
  unfold rollback_cell. destruct (c_kind c), (c_pub c), (c_bc c);
    repeat first [ rewrite rename_frame by assumption | rewrite fupd_other by assumption ]; reflexivity.
Qed.

Lemma rollback_restores fs0 c fs p : good fs0 c fs -> own c p -> rollback_cell c fs p = fs0 p.
Proof.
  unfold good, own, rollback_cell, rename. intros (H1 & H2 & H) Hp.
  destruct (c_kind c), (c_pub c), (c_bc c); try contradiction.
  - (* put, published, backup *)
    destruct H as [Hb Ht]. rewrite fupd_other by discriminate. rewrite Hb.
    destruct (fs0 (PFinal (c_id c))) eqn:EF; cbn; destruct Hp as [ -> | [ -> | -> ] ]; fs_simpl; congruence.
  - destruct H as (HF & Hb & Ht). destruct Hp as [ -> | [ -> | -> ] ]; fs_simpl; congruence.
  - destruct H as [HF Hb]. destruct Hp as [ -> | [ -> | -> ] ]; fs_simpl; congruence.
  - (* del, backup *)
    destruct H as (Hb & HF & Ht). rewrite Hb.
    destruct (fs0 (PFinal (c_id c))) eqn:EF; cbn; destruct Hp as [ -> | [ -> | -> ] ]; fs_simpl; congruence.
  - destruct H as (HF & Hb & Ht). destruct Hp as [ -> | [ -> | -> ] ]; congruence.
  - destruct H as (Hb & HF & Ht). rewrite Hb.
    destruct (fs0 (PFinal (c_id c))) eqn:EF; cbn; destruct Hp as [ -> | [ -> | -> ] ]; fs_simpl; congruence.
  - destruct H as (HF & Hb & Ht). destruct Hp as [ -> | [ -> | -> ] ]; congruence.
Qed.

Definition pairwise_disjoint (cs : list cell) : Prop :=
  NoDup (map c_id cs) /\ NoDup (map c_n cs).

Lemma pairwise_tail c cs : pairwise_disjoint (c :: cs) -> pairwise_disjoint cs.
Proof. intros [H1 H2]. cbn in *. inversion H1; inversion H2; split; assumption. Qed.
Lemma pairwise_head c cs c' : pairwise_disjoint (c :: cs) -> In c' cs -> disjoint c c'.
Proof.
  intros [H1 H2] Hin. cbn in *. inversion H1; inversion H2; subst. split; intros E.
  - apply H3. rewrite E. now apply in_map.
  - apply H7. rewrite E. now apply in_map.
Qed.

Lemma rb_all_restores fs0 cs : forall fs,
  pairwise_disjoint cs ->
  (forall c, In c cs -> good fs0 c fs) ->
  (forall p, (forall c, In c cs -> ~ own c p) -> fs p = fs0 p) ->
  forall p, rb_all cs fs p = fs0 p.
Proof.
  induction cs as [|c r IH]; intros fs Hd Hg Hrest p; cbn.
  - apply Hrest. intros c [].
  - apply IH.
    + eapply pairwise_tail; eauto.
    + intros c' Hin. apply good_frame with fs; [apply Hg; now right|].
      intros q Hq. apply rollback_frame. intros Hc.
      apply (own_disjoint c c' q (pairwise_head _ _ _ Hd Hin)); assumption.
    + intros q Hq. destruct (path_eqb q (PFinal (c_id c))) eqn:E1; [|
        destruct (path_eqb q (PTemp (c_n c))) eqn:E2; [| destruct (path_eqb q (PBackup (c_n c))) eqn:E3]].
      * apply path_eqb_eq in E1. apply rollback_restores; [apply Hg; now left | left; exact E1].
      * apply path_eqb_eq in E2. apply rollback_restores; [apply Hg; now left | right; left; exact E2].
      * apply path_eqb_eq in E3. apply rollback_restores; [apply Hg; now left | right; right; exact E3].
      * assert (~ own c q).
        { intros [ -> | [ -> | -> ] ]; rewrite path_eqb_refl in *; discriminate. }
        rewrite rollback_frame by assumption. apply Hrest. intros c' [<-|Hin]; auto.
Qed.

(* ---- the pre-commit hook of one cell ---- *)
Definition initial (c : cell) : Prop := c_bc c = false /\ c_pub c = false.
Definition same_names (c c' : cell) : Prop := c_kind c' = c_kind c /\ c_id c' = c_id c /\ c_n c' = c_n c.

Lemma pre_cell_frame fv c fs p : ~ own c p -> snd (fst (pre_cell fv c fs)) p = fs p.
Proof.
  unfold own. intros H.
  assert (H1 : p <> PFinal (c_id c)) by tauto. assert (H2 : p <> PTemp (c_n c)) by tauto.
  assert (H3 : p <> PBackup (c_n c)) by tauto.
  unfold pre_cell. destruct (Nat.eqb fv 1); [reflexivity|].
  destruct (c_kind c).
  - set (fsA := if Nat.eqb fv 2 then fupd fs (PTemp (c_n c)) None else fs).
    assert (HA : fsA p = fs p) by (unfold fsA; destruct (Nat.eqb fv 2); [now rewrite fupd_other|reflexivity]).
    destruct (rename (PFinal (c_id c)) (PBackup (c_n c)) fsA) as [fs1 bc] eqn:R1.
    assert (Hf1 : fs1 p = fsA p) by (change fs1 with (fst (fs1, bc)); rewrite <- R1; now apply rename_frame).
    destruct (rename (PTemp (c_n c)) (PFinal (c_id c)) fs1) as [fs2 ok] eqn:R2.
    assert (Hf2 : fs2 p = fs1 p) by (change fs2 with (fst (fs2, ok)); rewrite <- R2; now apply rename_frame).
    destruct ok; cbn; [congruence|]. destruct bc; cbn; [rewrite rename_frame by assumption|]; congruence.
  - destruct (rename (PFinal (c_id c)) (PBackup (c_n c)) fs) as [fs1 ok] eqn:R1. cbn.
    change fs1 with (fst (fs1, ok)); rewrite <- R1; now apply rename_frame.
Qed.

Lemma pre_cell_good fs0 fv c fs :
  good fs0 c fs -> initial c ->
  let '(c', fs', ok) := pre_cell fv c fs in
  good fs0 c' fs' /\ same_names c c'.
Proof.
  unfold good, initial, same_names. intros (H1 & H2 & H) [Hbc Hpub]. rewrite Hbc, Hpub in H.
  unfold pre_cell. destruct (Nat.eqb fv 1).
  { rewrite Hbc, Hpub. destruct (c_kind c); auto. }
  destruct (c_kind c) eqn:K.
  - destruct H as [HF HB].
    set (fsA := if Nat.eqb fv 2 then fupd fs (PTemp (c_n c)) None else fs).
    assert (HAF : fsA (PFinal (c_id c)) = fs (PFinal (c_id c)))
      by (unfold fsA; destruct (Nat.eqb fv 2); [now rewrite fupd_other by discriminate|reflexivity]).
    assert (HAB : fsA (PBackup (c_n c)) = None)
      by (unfold fsA; destruct (Nat.eqb fv 2); [now rewrite fupd_other by discriminate|assumption]).
    unfold rename at 1. rewrite HAF.
    destruct (fs (PFinal (c_id c))) as [old|] eqn:EF.
    + (* the final file existed: backup created *)
      unfold rename at 1. fs_simpl.
      destruct (fsA (PTemp (c_n c))) as [t|] eqn:ET; cbn [c_kind c_pub c_bc c_id c_n set_flags fst snd].
      * rewrite K. repeat split; auto; fs_simpl; congruence.
      * unfold rename. fs_simpl. cbn [fst]. rewrite K. repeat split; auto; fs_simpl; congruence.
    + unfold rename at 1. 
      destruct (fsA (PTemp (c_n c))) as [t|] eqn:ET; cbn [c_kind c_pub c_bc c_id c_n set_flags fst snd].
      * rewrite K. repeat split; auto; fs_simpl; congruence.
      * rewrite K. repeat split; auto; congruence.
  - destruct H as (HF & HB & HT). unfold rename.
    destruct (fs (PFinal (c_id c))) as [old|] eqn:EF; cbn [c_kind c_pub c_bc c_id c_n set_flags fst snd]; rewrite K.
    + destruct (c_pub c); repeat split; auto; fs_simpl; congruence.
    + destruct (c_pub c); repeat split; auto; congruence.
Qed.

(* ---- the forward phases establish [good] for every registered cell ---- *)
Definition fresh (fs0 : fsys) : Prop := forall n, fs0 (PTemp n) = None /\ fs0 (PBackup n) = None.
Definition unowned (cs : list cell) (p : path) : Prop := forall c, In c cs -> ~ own c p.

Lemma unowned_names cs cs' p :
  map c_id cs' = map c_id cs -> map c_n cs' = map c_n cs -> unowned cs p -> unowned cs' p.
Proof.
  intros Hi Hn H c' Hin Ho.
  destruct Ho as [ -> | [ -> | -> ] ].
  - assert (In (c_id c') (map c_id cs)) as Hm by (rewrite <- Hi; now apply in_map).
    apply in_map_iff in Hm as (c & E & Hc). apply (H c Hc). left. now rewrite E.
  - assert (In (c_n c') (map c_n cs)) as Hm by (rewrite <- Hn; now apply in_map).
    apply in_map_iff in Hm as (c & E & Hc). apply (H c Hc). right; left. now rewrite E.
  - assert (In (c_n c') (map c_n cs)) as Hm by (rewrite <- Hn; now apply in_map).
    apply in_map_iff in Hm as (c & E & Hc). apply (H c Hc). right; right. now rewrite E.
Qed.

Lemma NoDup_app_intro_single {A} (l : list A) (x : A) : NoDup l -> ~ In x l -> NoDup (l ++ [x]).
Proof.
  intros Hl Hx. induction l as [|a l IH]; cbn.
  - constructor; [intros []|constructor].
  - inversion Hl; subst. constructor.
    + intros Hin. apply in_app_or in Hin as [Hin | [ -> | [] ] ]; [contradiction|]. apply Hx. now left.
    + apply IH; [assumption|]. intros Hin. apply Hx. now right.
Qed.

Lemma NoDup_app_l {A} (l r : list A) : NoDup (l ++ r) -> NoDup l.
Proof.
  induction l as [|a l IH]; cbn; intros H; [constructor|].
  inversion H; subst. constructor; [|now apply IH].
  intros Hin. apply H2. apply in_or_app; now left.
Qed.

Section Body.
Variable D : Type.

Lemma body_inv fs0 (Hfresh : fresh fs0) : forall (ss : list (tstep D)) n w fs cells,
  (forall c, In c cells -> (c_n c < n)%nat /\ initial c) ->
  NoDup (map c_id cells ++ prog_ids ss) ->
  NoDup (map c_n cells) ->
  (forall c, In c cells -> good fs0 c fs) ->
  (forall p, unowned cells p -> fs p = fs0 p) ->
  let '(w', fs', cells', ok) := body n ss w fs cells in
  pairwise_disjoint cells' /\ (forall c, In c cells' -> initial c) /\
  (forall c, In c cells' -> good fs0 c fs') /\ (forall p, unowned cells' p -> fs' p = fs0 p).
Proof.
  induction ss as [|s r IH]; intros n w fs cells Hn Hid Hnn Hg Hr.
  - cbn. cbn in Hid. rewrite app_nil_r in Hid.
    split; [split; assumption|]. split; [intros c Hc; apply Hn, Hc|]. split; assumption.
  - destruct s as [f|id content|id|]; cbn [body].
    + apply IH; auto. intros c Hc. destruct (Hn c Hc). split; [lia|assumption].
    + (* PutPart: temp file written, cell registered *)
      assert (Hidn : ~ In id (map c_id cells)).
      { cbn in Hid. apply NoDup_remove_2 in Hid. intros Hin. apply Hid. apply in_or_app; now left. }
      assert (Hnew : ~ In n (map c_n cells)).
      { intros Hin. apply in_map_iff in Hin as (c0 & E & Hc0). destruct (Hn c0 Hc0). lia. }
      assert (Hun : forall p, (p = PFinal id \/ p = PTemp n \/ p = PBackup n) -> unowned cells p).
      { intros p Hp c0 Hc0 Ho. destruct (Hn c0 Hc0) as [Hlt _].
        destruct Hp as [ -> | [ -> | -> ] ]; destruct Ho as [E|[E|E]]; inversion E; subst.
        - apply Hidn. now apply in_map.
        - lia.
        - lia. }
      apply IH.
      * intros c0 Hc0. apply in_app_or in Hc0 as [Hc0 | [ <- | [] ] ].
        -- destruct (Hn c0 Hc0). split; [lia|assumption].
        -- cbn. split; [lia|split; reflexivity].
      * rewrite map_app. cbn. rewrite <- app_assoc. exact Hid.
      * rewrite map_app. cbn. apply NoDup_app_intro_single; assumption.
      * intros c0 Hc0. apply in_app_or in Hc0 as [Hc0 | [ <- | [] ] ].
        -- apply good_frame with fs; [now apply Hg|]. intros p Hp. apply fupd_other.
           intros ->. eapply (Hun (PTemp n)); [right; left; reflexivity | exact Hc0 | exact Hp].
        -- destruct (Hfresh n). unfold good; cbn [c_kind c_pub c_bc c_id c_n mk_cell]. repeat split; auto.
           ++ rewrite fupd_other by discriminate. apply Hr, Hun; auto.
           ++ rewrite fupd_other by discriminate. rewrite Hr by (apply Hun; auto). assumption.
      * intros p Hp. assert (p <> PTemp n).
        { intros ->. apply (Hp (mk_cell CPut id n)); [apply in_or_app; right; now left | right; left; reflexivity]. }
        rewrite fupd_other by assumption. apply Hr. intros c0 Hc0. apply Hp. apply in_or_app; now left.
    + (* DeletePart: cell registered *)
      assert (Hidn : ~ In id (map c_id cells)).
      { cbn in Hid. apply NoDup_remove_2 in Hid. intros Hin. apply Hid. apply in_or_app; now left. }
      assert (Hnew : ~ In n (map c_n cells)).
      { intros Hin. apply in_map_iff in Hin as (c0 & E & Hc0). destruct (Hn c0 Hc0). lia. }
      assert (Hun : forall p, (p = PFinal id \/ p = PTemp n \/ p = PBackup n) -> unowned cells p).
      { intros p Hp c0 Hc0 Ho. destruct (Hn c0 Hc0) as [Hlt _].
        destruct Hp as [ -> | [ -> | -> ] ]; destruct Ho as [E|[E|E]]; inversion E; subst.
        - apply Hidn. now apply in_map.
        - lia.
        - lia. }
      apply IH.
      * intros c0 Hc0. apply in_app_or in Hc0 as [Hc0 | [ <- | [] ] ].
        -- destruct (Hn c0 Hc0). split; [lia|assumption].
        -- cbn. split; [lia|split; reflexivity].
      * rewrite map_app. cbn. rewrite <- app_assoc. exact Hid.
      * rewrite map_app. cbn. apply NoDup_app_intro_single; assumption.
      * intros c0 Hc0. apply in_app_or in Hc0 as [Hc0 | [ <- | [] ] ].
        -- now apply Hg.
        -- destruct (Hfresh n). unfold good; cbn [c_kind c_pub c_bc c_id c_n mk_cell]. repeat split; auto.
           all: rewrite Hr by (apply Hun; auto); auto.
      * intros p Hp. apply Hr. intros c0 Hc0. apply Hp. apply in_or_app; now left.
    + (* the body returns an error *)
      split; [split; [now apply NoDup_app_l in Hid | assumption]|].
      split; [intros c Hc; apply Hn, Hc|]. split; assumption.
Qed.
End Body.

(* ---- the pre-commit loop ---- *)
Lemma own_same_names c c' p : same_names c c' -> own c' p -> own c p.
Proof. unfold same_names, own. intros (_ & Hi & Hn). now rewrite Hi, Hn. Qed.

(* a cell that recorded backupCreated still has its backup file *)
Definition backed (c : cell) (fs : fsys) : Prop := c_bc c = true -> fs (PBackup (c_n c)) <> None.

Lemma pre_cell_backed fv c fs :
  initial c -> let '(c', fs', ok) := pre_cell fv c fs in backed c' fs'.
Proof.
  unfold initial, backed. intros [Hbc Hpub]. unfold pre_cell.
  destruct (Nat.eqb fv 1); [congruence|].
  destruct (c_kind c).
  - set (fsA := if Nat.eqb fv 2 then fupd fs (PTemp (c_n c)) None else fs).
    unfold rename at 1. destruct (fsA (PFinal (c_id c))) as [old|] eqn:EF.
    + unfold rename at 1. fs_simpl.
      destruct (fsA (PTemp (c_n c))) as [t|]; cbn [c_bc c_n set_flags fst snd]; [|destruct (fsA (PTemp (c_n c)))]; 
        try (intros _; fs_simpl; discriminate); try discriminate.
    + unfold rename at 1. destruct (fsA (PTemp (c_n c))) as [t|]; cbn [c_bc c_n set_flags]; discriminate.
  - unfold rename. destruct (fs (PFinal (c_id c))) as [old|]; cbn [c_bc c_n set_flags fst snd].
    + intros _. fs_simpl. discriminate.
    + discriminate.
Qed.

Lemma pre_all_inv fs0 ft : forall cs i fs,
  pairwise_disjoint cs -> (forall c, In c cs -> initial c) -> (forall c, In c cs -> good fs0 c fs) ->
  let '(cs', fs', ok) := pre_all ft i cs fs in
  map c_id cs' = map c_id cs /\ map c_n cs' = map c_n cs /\
  (forall c, In c cs' -> good fs0 c fs') /\ (forall p, unowned cs p -> fs' p = fs p) /\
  (ok = true -> forall c, In c cs' -> backed c fs').
Proof.
  induction cs as [|c r IH]; intros i fs Hd Hi Hg; cbn [pre_all].
  - split; [reflexivity|]. split; [reflexivity|]. split; [intros c []|]. split; [reflexivity|]. intros _ c [].
  - pose proof (pre_cell_good fs0 (fv_at ft i) c fs (Hg c (or_introl eq_refl)) (Hi c (or_introl eq_refl))) as Hpc.
    pose proof (pre_cell_backed (fv_at ft i) c fs (Hi c (or_introl eq_refl))) as Hbk.
    pose proof (pre_cell_frame (fv_at ft i) c fs) as Hfr.
    destruct (pre_cell (fv_at ft i) c fs) as [[c' fs1] ok] eqn:E. cbn [fst snd] in Hfr.
    destruct Hpc as [Hgc' Hsn].
    assert (Hgr : forall c2, In c2 r -> good fs0 c2 fs1).
    { intros c2 Hc2. apply good_frame with fs; [apply Hg; now right|].
      intros p Hp. apply Hfr. intros Hc. apply (own_disjoint c c2 p (pairwise_head _ _ _ Hd Hc2)); assumption. }
    destruct Hsn as (Hk & Hid & Hn).
    destruct ok.
    + specialize (IH (S i) fs1 (pairwise_tail _ _ Hd) (fun c2 H => Hi c2 (or_intror H)) Hgr).
      destruct (pre_all ft (S i) r fs1) as [[r' fs2] ok'] eqn:E2.
      destruct IH as (Hmi & Hmn & Hg2 & Hf2 & Hb2).
      assert (Hown : forall p, own c' p -> unowned r p).
      { intros p Hp c2 Hc2 Ho. apply (own_disjoint c c2 p (pairwise_head _ _ _ Hd Hc2)); [|assumption].
        apply own_same_names with c'; [repeat split; assumption | assumption]. }
      split; [cbn; congruence|]. split; [cbn; congruence|]. split; [|split].
      * intros c2 [<-|Hc2]; [|now apply Hg2]. apply good_frame with fs1; [assumption|].
        intros p Hp. apply Hf2, Hown, Hp.
      * intros p Hp. rewrite Hf2 by (intros c2 Hc2; apply Hp; now right). apply Hfr. apply Hp. now left.
      * intros -> c2 [<-|Hc2]; [|now apply Hb2].
        intros Hbc. rewrite Hf2; [now apply Hbk|]. apply Hown. right; right; reflexivity.
    + split; [cbn; congruence|]. split; [cbn; congruence|]. split; [|split].
      * intros c2 [<-|Hc2]; [assumption | now apply Hgr].
      * intros p Hp. apply Hfr. apply Hp. now left.
      * discriminate.
Qed.

(* ---- after-commit hooks never fail by themselves ---- *)
Lemma after_all_ok ft : (forall j, ft <> FAfter j) -> forall cs j fs,
  NoDup (map c_n cs) -> (forall c, In c cs -> backed c fs) -> snd (after_all ft j cs fs) = true.
Proof.
  intros Hft. induction cs as [|c r IH]; intros j fs Hn Hb; cbn [after_all]; [reflexivity|].
  assert (Hno : match ft with FAfter k => Nat.eqb k j | _ => false end = false).
  { destruct ft as [| | |k]; try reflexivity. now destruct (Hft k). }
  rewrite Hno. cbn [map] in Hn. inversion Hn as [|x l Hnotin Hnr]; subst.
  unfold after_cell. destruct (c_bc c) eqn:Ebc.
  - destruct (fs (PBackup (c_n c))) eqn:EB; [| exfalso; apply (Hb c (or_introl eq_refl) Ebc EB)].
    cbv beta iota. apply IH; [assumption|]. intros c2 Hc2 Hbc2. rewrite fupd_other.
    + apply Hb; [now right | assumption].
    + intros E. inversion E as [E']. apply Hnotin. rewrite <- E'. now apply in_map.
  - cbv beta iota. apply IH; [assumption|]. intros c2 Hc2. apply Hb. now right.
Qed.

Section Run.
Variable D : Type.

Theorem run_tx_rollback (prog : list (tstep D)) ft dbc fs0 :
  fresh fs0 -> NoDup (prog_ids prog) -> (forall j, ft <> FAfter j) ->
  let '(ok, db', fs') := run_tx ft prog dbc fs0 in
  ok = false -> db' = dbc /\ forall p, fs' p = fs0 p.
Proof.
  intros Hfresh Hnd Hft. unfold run_tx.
  pose proof (body_inv D fs0 Hfresh prog 0 dbc fs0 []
                (fun c (H : In c []) => match H with end) Hnd (NoDup_nil _)
                (fun c (H : In c []) => match H with end) (fun p _ => eq_refl)) as Hb.
  destruct (body 0 prog dbc fs0 []) as [[[w fs1] cells] ok] eqn:EB.
  destruct Hb as (Hpd & Hinit & Hgood & Hrest).
  destruct ok; cbn [negb]; cbv iota.
  2:{ intros _. split; [reflexivity|]. apply rb_all_restores; assumption. }
  pose proof (pre_all_inv fs0 ft cells 0 fs1 Hpd Hinit Hgood) as Hp.
  destruct (pre_all ft 0 cells fs1) as [[cells' fs2] ok2] eqn:EP.
  destruct Hp as (Hmi & Hmn & Hg2 & Hf2 & Hb2).
  assert (Hpd' : pairwise_disjoint cells') by (destruct Hpd; split; congruence).
  assert (Hrest' : forall p, unowned cells' p -> fs2 p = fs0 p).
  { intros p Hp. assert (unowned cells p) by (apply unowned_names with cells'; auto).
    rewrite Hf2 by assumption. now apply Hrest. }
  destruct ok2; cbn [negb]; cbv iota.
  2:{ intros _. split; [reflexivity|]. apply rb_all_restores; assumption. }
  destruct ft as [|i v| |j].
  - pose proof (after_all_ok FNone Hft cells' 0 fs2 (proj2 Hpd') (Hb2 eq_refl)) as Ha.
    destruct (after_all FNone 0 cells' fs2) as [fs3 ok3]. cbn in Ha. subst. discriminate.
  - pose proof (after_all_ok (FPre i v) Hft cells' 0 fs2 (proj2 Hpd') (Hb2 eq_refl)) as Ha.
    destruct (after_all (FPre i v) 0 cells' fs2) as [fs3 ok3]. cbn in Ha. subst. discriminate.
  - intros _. split; [reflexivity|]. apply rb_all_restores; assumption.
  - now destruct (Hft j).
Qed.
End Run.
