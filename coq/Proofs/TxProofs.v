(* Proofs/TxProofs.v — M-TX: a transaction that fails before or at the database commit restores the whole file
   system (every path, hence the published part files and the temp/backup names) and leaves the committed
   database state alone — for ALL programs (part ids may repeat): rollback hooks run last-registered-first, so
   each one finds the directory exactly as its own pre-commit hook left it. *)
From Verif Require Import Bytes Codec Tx.

Lemma path_eqb_eq a b : path_eqb a b = true <-> a = b.
Proof.
  destruct a, b; cbn; try (split; congruence).
  - rewrite N.eqb_eq. split; congruence.
  - rewrite Nat.eqb_eq. split; congruence.
  - rewrite Nat.eqb_eq. split; congruence.
Qed.
Lemma path_eqb_refl a : path_eqb a a = true.
Proof. apply path_eqb_eq; reflexivity. Qed.
Lemma path_eqb_neq a b : a <> b -> path_eqb a b = false.
Proof. intros H. destruct (path_eqb a b) eqn:E; [apply path_eqb_eq in E; contradiction | reflexivity]. Qed.

Lemma fupd_same fs p v : fupd fs p v p = v.
Proof. unfold fupd. now rewrite path_eqb_refl. Qed.
Lemma fupd_other fs p v q : q <> p -> fupd fs p v q = fs q.
Proof. intros H. unfold fupd. now rewrite (path_eqb_neq q p H). Qed.

(* the paths a cell's three closures can touch *)
Definition own (c : cell) (p : path) : Prop :=
  p = PFinal (c_id c) \/ p = PTemp (c_n c) \/ p = PBackup (c_n c).
Definition disjoint (c c' : cell) : Prop := c_id c <> c_id c' /\ c_n c <> c_n c'.

Lemma own_disjoint c c' p : disjoint c c' -> own c p -> ~ own c' p.
Proof. intros [Hi Hn] [ -> | [ -> | -> ] ] [E|[E|E]]; inversion E; congruence. Qed.

(* simplify reads of updated file systems *)
Ltac fs_simpl :=
  repeat first
    [ rewrite fupd_same in *
    | rewrite fupd_other in * by (discriminate || congruence) ].

Lemma rename_frame a b fs p : p <> a -> p <> b -> fst (rename a b fs) p = fs p.
Proof. intros Ha Hb. unfold rename. destruct (fs a); cbn; [now rewrite !fupd_other by assumption | reflexivity]. Qed.

Lemma rollback_frame c fs p : ~ own c p -> rollback_cell c fs p = fs p.
Proof.
  unfold own. intros H.
  assert (p <> PFinal (c_id c)) by tauto. assert (p <> PTemp (c_n c)) by tauto.
  assert (p <> PBackup (c_n c)) by tauto.
  unfold rollback_cell. destruct (c_kind c), (c_pub c), (c_bc c);
    repeat first [ rewrite rename_frame by assumption | rewrite fupd_other by assumption ]; reflexivity.
Qed.

(* ---- the pre-commit hook of one cell ---- *)
Definition initial (c : cell) : Prop := c_bc c = false /\ c_pub c = false.
Definition same_names (c c' : cell) : Prop := c_kind c' = c_kind c /\ c_id c' = c_id c /\ c_n c' = c_n c.

Lemma pre_cell_frame fv c fs p : ~ own c p -> snd (fst (pre_cell fv c fs)) p = fs p.
Proof.
  unfold own. intros H.
  assert (H1 : p <> PFinal (c_id c)) by tauto. assert (H2 : p <> PTemp (c_n c)) by tauto.
  assert (H3 : p <> PBackup (c_n c)) by tauto.
  unfold pre_cell. destruct (Nat.eqb fv 1); [reflexivity|].
  destruct (c_kind c).
  - set (fsA := if Nat.eqb fv 2 then fupd fs (PTemp (c_n c)) None else fs).
    assert (HA : fsA p = fs p) by (unfold fsA; destruct (Nat.eqb fv 2); [now rewrite fupd_other|reflexivity]).
    destruct (rename (PFinal (c_id c)) (PBackup (c_n c)) fsA) as [fs1 bc] eqn:R1.
    assert (Hf1 : fs1 p = fsA p) by (change fs1 with (fst (fs1, bc)); rewrite <- R1; now apply rename_frame).
    destruct (rename (PTemp (c_n c)) (PFinal (c_id c)) fs1) as [fs2 ok] eqn:R2.
    assert (Hf2 : fs2 p = fs1 p) by (change fs2 with (fst (fs2, ok)); rewrite <- R2; now apply rename_frame).
    destruct ok; cbn; [congruence|]. destruct bc; cbn; [rewrite rename_frame by assumption|]; congruence.
  - destruct (rename (PFinal (c_id c)) (PBackup (c_n c)) fs) as [fs1 ok] eqn:R1. cbn.
    change fs1 with (fst (fs1, ok)); rewrite <- R1; now apply rename_frame.
Qed.

(* ---- names ---- *)
Definition fresh (fs0 : fsys) : Prop := forall n, fs0 (PTemp n) = None /\ fs0 (PBackup n) = None.
Definition unowned (cs : list cell) (p : path) : Prop := forall c, In c cs -> ~ own c p.

(* a cell that recorded backupCreated still has its backup file *)
Definition backed (c : cell) (fs : fsys) : Prop := c_bc c = true -> fs (PBackup (c_n c)) <> None.

Lemma pre_cell_backed fv c fs :
  initial c -> let '(c', fs', ok) := pre_cell fv c fs in backed c' fs'.
Proof.
  unfold initial, backed. intros [Hbc Hpub]. unfold pre_cell.
  destruct (Nat.eqb fv 1); [congruence|].
  destruct (c_kind c).
  - set (fsA := if Nat.eqb fv 2 then fupd fs (PTemp (c_n c)) None else fs).
    unfold rename at 1. destruct (fsA (PFinal (c_id c))) as [old|] eqn:EF.
    + unfold rename at 1. fs_simpl.
      destruct (fsA (PTemp (c_n c))) as [t|]; cbn [c_bc c_n set_flags fst snd]; [|destruct (fsA (PTemp (c_n c)))]; 
        try (intros _; fs_simpl; discriminate); try discriminate.
    + unfold rename at 1. destruct (fsA (PTemp (c_n c))) as [t|]; cbn [c_bc c_n set_flags]; discriminate.
  - unfold rename. destruct (fs (PFinal (c_id c))) as [old|]; cbn [c_bc c_n set_flags fst snd].
    + intros _. fs_simpl. discriminate.
    + discriminate.
Qed.

(* ---- after-commit hooks never fail by themselves ---- *)
Lemma after_all_ok ft : (forall j, ft <> FAfter j) -> forall cs j fs,
  NoDup (map c_n cs) -> (forall c, In c cs -> backed c fs) -> snd (after_all ft j cs fs) = true.
Proof.
  intros Hft. induction cs as [|c r IH]; intros j fs Hn Hb; cbn [after_all]; [reflexivity|].
  assert (Hno : match ft with FAfter k => Nat.eqb k j | _ => false end = false).
  { destruct ft as [| | |k]; try reflexivity. now destruct (Hft k). }
  rewrite Hno. cbn [map] in Hn. inversion Hn as [|x l Hnotin Hnr]; subst.
  unfold after_cell. destruct (c_bc c) eqn:Ebc.
  - destruct (fs (PBackup (c_n c))) eqn:EB; [| exfalso; apply (Hb c (or_introl eq_refl) Ebc EB)].
    cbv beta iota. apply IH; [assumption|]. intros c2 Hc2 Hbc2. rewrite fupd_other.
    + apply Hb; [now right | assumption].
    + intros E. inversion E as [E']. apply Hnotin. rewrite <- E'. now apply in_map.
  - cbv beta iota. apply IH; [assumption|]. intros c2 Hc2. apply Hb. now right.
Qed.


Lemma NoDup_app_intro_single {A} (l : list A) (x : A) : NoDup l -> ~ In x l -> NoDup (l ++ [x]).
Proof.
  intros Hl Hx. induction l as [|a l IH]; cbn.
  - constructor; [intros []|constructor].
  - inversion Hl; subst. constructor.
    + intros Hin. apply in_app_or in Hin as [Hin | [ -> | [] ] ]; [contradiction|]. apply Hx. now left.
    + apply IH; [assumption|]. intros Hin. apply Hx. now right.
Qed.

Lemma pre_cell_names fv c fs : c_n (fst (fst (pre_cell fv c fs))) = c_n c.
Proof.
  unfold pre_cell. destruct (Nat.eqb fv 1); [reflexivity|]. destruct (c_kind c).
  - destruct (rename _ _ _) as [fs1 bc]. destruct (rename _ _ fs1) as [fs2 ok].
    destruct ok; [reflexivity|]. destruct bc; reflexivity.
  - destruct (rename _ _ _) as [fs1 ok]. reflexivity.
Qed.

(* the pre-commit loop touches only paths owned by its cells *)
Lemma pre_all_frame_names ft : forall cs i fs p,
  unowned cs p -> snd (fst (pre_all ft i cs fs)) p = fs p.
Proof.
  induction cs as [|c r IH]; intros i fs p Hu; cbn [pre_all]; [reflexivity|].
  pose proof (pre_cell_frame (fv_at ft i) c fs p (Hu c (or_introl eq_refl))) as Hc.
  destruct (pre_cell (fv_at ft i) c fs) as [[c' fs1] ok]. cbn [fst snd] in Hc.
  destruct ok; [|cbn; exact Hc].
  specialize (IH (S i) fs1 p (fun c2 H => Hu c2 (or_intror H))).
  destruct (pre_all ft (S i) r fs1) as [[r' fs2] ok']. cbn [fst snd] in *. congruence.
Qed.

(* ---- locality: a rollback hook reads and writes only its cell's own paths ---- *)
Lemma own_dec c p : {own c p} + {~ own c p}.
Proof.
  unfold own.
  destruct (path_eqb p (PFinal (c_id c))) eqn:E1; [left; left; now apply path_eqb_eq|].
  destruct (path_eqb p (PTemp (c_n c))) eqn:E2; [left; right; left; now apply path_eqb_eq|].
  destruct (path_eqb p (PBackup (c_n c))) eqn:E3; [left; right; right; now apply path_eqb_eq|].
  right. intros [ -> | [ -> | -> ] ]; rewrite path_eqb_refl in *; discriminate.
Qed.

Lemma rollback_local c fs1 fs2 :
  (forall q, own c q -> fs1 q = fs2 q) -> forall p, own c p -> rollback_cell c fs1 p = rollback_cell c fs2 p.
Proof.
  unfold own. intros H p Hp.
  assert (HF : fs1 (PFinal (c_id c)) = fs2 (PFinal (c_id c))) by (apply H; auto).
  assert (HT : fs1 (PTemp (c_n c)) = fs2 (PTemp (c_n c))) by (apply H; auto).
  assert (HB : fs1 (PBackup (c_n c)) = fs2 (PBackup (c_n c))) by (apply H; auto).
  unfold rollback_cell, rename.
  destruct (c_kind c), (c_pub c), (c_bc c); fs_simpl; try rewrite HB;
    try (destruct (fs2 (PBackup (c_n c))); cbn [fst]);
    destruct Hp as [ -> | [ -> | -> ] ]; fs_simpl; auto.
Qed.

Lemma rollback_ext c fs1 fs2 : (forall q, fs1 q = fs2 q) -> forall p, rollback_cell c fs1 p = rollback_cell c fs2 p.
Proof.
  intros H p. destruct (own_dec c p) as [Ho|Hn].
  - apply rollback_local; auto.
  - now rewrite !rollback_frame by assumption.
Qed.

(* ---- undoing one cell: whatever its pre-commit hook did (completed or failed, with or without an injected
   fault), its rollback hook gives back the file system the hook started from, minus PutPart's temp file ---- *)
Definition tclear (c : cell) (fs : fsys) : fsys :=
  match c_kind c with CPut => fupd fs (PTemp (c_n c)) None | CDel => fs end.

Lemma undo_cell fv c fs :
  initial c -> fs (PBackup (c_n c)) = None ->
  let '(c', fs', ok) := pre_cell fv c fs in forall p, rollback_cell c' fs' p = tclear c fs p.
Proof.
  unfold initial. intros [Hbc Hpub] HB. unfold pre_cell, tclear.
  destruct (Nat.eqb fv 1).
  { intros p. unfold rollback_cell. rewrite Hbc, Hpub. destruct (c_kind c); reflexivity. }
  destruct (c_kind c) eqn:K.
  - set (fsA := if Nat.eqb fv 2 then fupd fs (PTemp (c_n c)) None else fs).
    assert (HAF : fsA (PFinal (c_id c)) = fs (PFinal (c_id c)))
      by (unfold fsA; destruct (Nat.eqb fv 2); [now rewrite fupd_other by discriminate|reflexivity]).
    assert (HAB : fsA (PBackup (c_n c)) = None)
      by (unfold fsA; destruct (Nat.eqb fv 2); [now rewrite fupd_other by discriminate|assumption]).
    assert (HAT : forall p, p <> PTemp (c_n c) -> fsA p = fs p)
      by (intros p Hp; unfold fsA; destruct (Nat.eqb fv 2); [now rewrite fupd_other|reflexivity]).
    unfold rename at 1. rewrite HAF.
    destruct (fs (PFinal (c_id c))) as [old|] eqn:EF.
    + unfold rename at 1. fs_simpl.
      destruct (fsA (PTemp (c_n c))) as [t|] eqn:ET.
      * intros p. unfold rollback_cell, rename. cbn [c_kind c_pub c_bc c_id c_n set_flags fst snd]. rewrite K. fs_simpl.
        cbn [fst]. destruct (own_dec c p) as [[ -> | [ -> | -> ] ]|Hn]; fs_simpl; try congruence.
        unfold own in Hn. rewrite !fupd_other by tauto. apply HAT; tauto.
      * unfold rename at 1. fs_simpl. cbn [fst].
        intros p. unfold rollback_cell. cbn [c_kind c_pub c_bc c_id c_n set_flags]. rewrite K.
        destruct (own_dec c p) as [[ -> | [ -> | -> ] ]|Hn]; fs_simpl; try congruence.
        unfold own in Hn. rewrite !fupd_other by tauto. apply HAT; tauto.
    + unfold rename at 1.
      destruct (fsA (PTemp (c_n c))) as [t|] eqn:ET.
      * intros p. unfold rollback_cell. cbn [c_kind c_pub c_bc c_id c_n set_flags]. rewrite K.
        destruct (own_dec c p) as [[ -> | [ -> | -> ] ]|Hn]; fs_simpl; try congruence.
        unfold own in Hn. rewrite !fupd_other by tauto. apply HAT; tauto.
      * intros p. unfold rollback_cell. cbn [c_kind c_pub c_bc c_id c_n set_flags]. rewrite K.
        destruct (own_dec c p) as [[ -> | [ -> | -> ] ]|Hn]; fs_simpl; try congruence.
        unfold own in Hn. rewrite !fupd_other by tauto. apply HAT; tauto.
  - unfold rename. destruct (fs (PFinal (c_id c))) as [old|] eqn:EF.
    + intros p. unfold rollback_cell, rename. cbn [c_kind c_pub c_bc c_id c_n set_flags fst snd]. rewrite K. fs_simpl.
      cbn [fst]. destruct (own_dec c p) as [[ -> | [ -> | -> ] ]|Hn]; fs_simpl; try congruence.
      unfold own in Hn. now rewrite !fupd_other by tauto.
    + intros p. unfold rollback_cell. cbn [c_kind c_pub c_bc c_id c_n set_flags fst snd]. now rewrite K.
Qed.

(* clearing the temp files of a list of cells, pointwise *)
Definition is_put_temp (cs : list cell) (p : path) : bool :=
  existsb (fun c => match c_kind c with CPut => path_eqb p (PTemp (c_n c)) | CDel => false end) cs.

Lemma tclears_spec cs fs p :
  fold_right tclear fs cs p = if is_put_temp cs p then None else fs p.
Proof.
  induction cs as [|c r IH]; cbn [fold_right is_put_temp existsb]; [reflexivity|].
  unfold tclear at 1. destruct (c_kind c); cbn [orb].
  - unfold fupd. destruct (path_eqb p (PTemp (c_n c))); cbn [orb]; [reflexivity | exact IH].
  - exact IH.
Qed.

Lemma rb_all_initial cs fs : (forall c, In c cs -> initial c) -> rb_all cs fs = fold_right tclear fs cs.
Proof.
  unfold rb_all. induction cs as [|c r IH]; intros Hi; cbn [fold_right]; [reflexivity|].
  rewrite IH by (intros c2 H; apply Hi; now right).
  destruct (Hi c (or_introl eq_refl)) as [Hbc Hpub].
  unfold rollback_cell, tclear. rewrite Hbc, Hpub. destruct (c_kind c); reflexivity.
Qed.

Lemma is_put_temp_not_own c r p :
  ~ In (c_n c) (map c_n r) -> is_put_temp r p = true -> ~ own c p.
Proof.
  intros Hn H. unfold is_put_temp in H. apply existsb_exists in H as (c2 & Hc2 & E).
  destruct (c_kind c2); [|discriminate]. apply path_eqb_eq in E. subst p.
  intros [E|[E|E]]; inversion E. apply Hn. replace (c_n c) with (c_n c2) by congruence. now apply in_map.
Qed.

(* rolling back cell c commutes with clearing the temp files of cells with other names *)
Lemma rollback_over_tclears c r X p :
  ~ In (c_n c) (map c_n r) ->
  rollback_cell c (fold_right tclear X r) p = if is_put_temp r p then None else rollback_cell c X p.
Proof.
  intros Hn. destruct (own_dec c p) as [Ho|Hno].
  - destruct (is_put_temp r p) eqn:E; [exfalso; exact (is_put_temp_not_own c r p Hn E Ho)|].
    apply rollback_local; [|assumption]. intros q Hq. rewrite tclears_spec.
    destruct (is_put_temp r q) eqn:Eq; [exfalso; exact (is_put_temp_not_own c r q Hn Eq Hq) | reflexivity].
  - rewrite !rollback_frame by assumption. apply tclears_spec.
Qed.

(* ---- the pre-commit loop followed by the LIFO rollback: everything is undone ---- *)
Lemma pre_all_names ft : forall cs i fs,
  map c_n (fst (fst (pre_all ft i cs fs))) = map c_n cs.
Proof.
  induction cs as [|c r IH]; intros i fs; cbn [pre_all]; [reflexivity|].
  pose proof (pre_cell_names (fv_at ft i) c fs) as Hn.
  destruct (pre_cell (fv_at ft i) c fs) as [[c' fs1] ok]. cbn [fst] in Hn.
  destruct ok.
  - specialize (IH (S i) fs1). destruct (pre_all ft (S i) r fs1) as [[r' fs2] ok']. cbn [fst map] in *. congruence.
  - cbn [fst map]. congruence.
Qed.

Lemma pre_all_undo ft : forall cs i fs,
  NoDup (map c_n cs) -> (forall c, In c cs -> initial c) ->
  (forall c, In c cs -> fs (PBackup (c_n c)) = None) ->
  let '(cs', fs', ok) := pre_all ft i cs fs in
  forall p, rb_all cs' fs' p = fold_right tclear fs cs p.
Proof.
  induction cs as [|c r IH]; intros i fs Hnd Hi HB; cbn [pre_all]; [reflexivity|].
  cbn [map] in Hnd. inversion Hnd as [|x l Hnotin Hndr]; subst.
  pose proof (undo_cell (fv_at ft i) c fs (Hi c (or_introl eq_refl)) (HB c (or_introl eq_refl))) as Hu.
  pose proof (pre_cell_frame (fv_at ft i) c fs) as Hfr.
  pose proof (pre_cell_names (fv_at ft i) c fs) as Hcn.
  destruct (pre_cell (fv_at ft i) c fs) as [[c' fs1] ok]. cbn [fst snd] in Hfr, Hcn.
  assert (Hnotin' : ~ In (c_n c') (map c_n r)) by (rewrite Hcn; exact Hnotin).
  assert (Hfinish : forall Y, (forall p, Y p = fold_right tclear fs1 r p) ->
            forall p, rollback_cell c' Y p = fold_right tclear fs (c :: r) p).
  { intros Y HY p. rewrite (rollback_ext c' Y (fold_right tclear fs1 r) HY).
    rewrite rollback_over_tclears by assumption. rewrite Hu.
    rewrite tclears_spec. cbn [is_put_temp existsb]. fold (is_put_temp r p).
    unfold tclear. destruct (c_kind c); cbn [orb].
    - unfold fupd. destruct (path_eqb p (PTemp (c_n c))), (is_put_temp r p); reflexivity.
    - reflexivity. }
  destruct ok.
  - assert (HB1 : forall c2, In c2 r -> fs1 (PBackup (c_n c2)) = None).
    { intros c2 Hc2. rewrite Hfr; [apply HB; now right|].
      intros [E|[E|E]]; inversion E. apply Hnotin. rewrite <- H0. now apply in_map. }
    specialize (IH (S i) fs1 Hndr (fun c2 H => Hi c2 (or_intror H)) HB1).
    destruct (pre_all ft (S i) r fs1) as [[r' fs2] ok'].
    intros p. change (rb_all (c' :: r') fs2) with (rollback_cell c' (rb_all r' fs2)).
    apply Hfinish. exact IH.
  - intros p. change (rb_all (c' :: r) fs1) with (rollback_cell c' (rb_all r fs1)).
    apply Hfinish. intros q. now rewrite rb_all_initial by (intros c2 H; apply Hi; now right).
Qed.

Lemma pre_all_backed ft : forall cs i fs,
  NoDup (map c_n cs) -> (forall c, In c cs -> initial c) ->
  let '(cs', fs', ok) := pre_all ft i cs fs in
  ok = true -> forall c, In c cs' -> backed c fs'.
Proof.
  induction cs as [|c r IH]; intros i fs Hnd Hi; cbn [pre_all]; [intros _ c []|].
  cbn [map] in Hnd. inversion Hnd as [|x l Hnotin Hndr]; subst.
  pose proof (pre_cell_backed (fv_at ft i) c fs (Hi c (or_introl eq_refl))) as Hbk.
  pose proof (pre_cell_names (fv_at ft i) c fs) as Hcn.
  destruct (pre_cell (fv_at ft i) c fs) as [[c' fs1] ok]. cbn [fst] in Hcn.
  destruct ok; [|discriminate].
  specialize (IH (S i) fs1 Hndr (fun c2 H => Hi c2 (or_intror H))).
  pose proof (pre_all_frame_names ft r (S i) fs1 (PBackup (c_n c'))) as Hf.
  destruct (pre_all ft (S i) r fs1) as [[r' fs2] ok']. cbn [fst snd] in Hf.
  intros -> c2 [ <- | Hc2]; [|now apply IH].
  intros Hbc. rewrite Hf; [now apply Hbk|].
  intros c3 Hc3 [E|[E|E]]; inversion E. apply Hnotin. rewrite <- Hcn, H0. now apply in_map.
Qed.

(* ---- the body ---- *)
Section Body.
Variable D : Type.

Lemma body_inv fs0 (Hfresh : fresh fs0) : forall (ss : list (tstep D)) n w fs cells,
  (forall c, In c cells -> (c_n c < n)%nat /\ initial c) ->
  NoDup (map c_n cells) ->
  (forall m, fs (PBackup m) = None) ->
  (forall m, (n <= m)%nat -> fs (PTemp m) = None) ->
  (forall p, fold_right tclear fs cells p = fs0 p) ->
  let '(w', fs', cells', ok) := body n ss w fs cells in
  NoDup (map c_n cells') /\ (forall c, In c cells' -> initial c) /\
  (forall m, fs' (PBackup m) = None) /\ (forall p, fold_right tclear fs' cells' p = fs0 p).
Proof.
  induction ss as [|s r IH]; intros n w fs cells Hn Hnn HB HT Hclr.
  - cbn. split; [assumption|]. split; [intros c Hc; apply Hn, Hc|]. split; assumption.
  - assert (Hnew : ~ In n (map c_n cells)).
    { intros Hin. apply in_map_iff in Hin as (c0 & E & Hc0). destruct (Hn c0 Hc0). lia. }
    destruct s as [f|id content|id|]; cbn [body].
    + apply IH; auto.
      * intros c Hc. destruct (Hn c Hc). split; [lia|assumption].
      * intros m Hm. apply HT. lia.
    + apply IH.
      * intros c0 Hc0. apply in_app_or in Hc0 as [Hc0 | [ <- | [] ] ].
        -- destruct (Hn c0 Hc0). split; [lia|assumption].
        -- cbn. split; [lia|split; reflexivity].
      * rewrite map_app. cbn. apply NoDup_app_intro_single; assumption.
      * intros m. rewrite fupd_other by discriminate. apply HB.
      * intros m Hm. rewrite fupd_other by (intros E; inversion E; lia). apply HT. lia.
      * intros p. rewrite tclears_spec. rewrite <- Hclr, tclears_spec.
        unfold is_put_temp. rewrite existsb_app. cbn [existsb c_kind c_n mk_cell]. rewrite orb_false_r.
        fold (is_put_temp cells p). destruct (is_put_temp cells p); cbn [orb]; [reflexivity|].
        unfold fupd. destruct (path_eqb p (PTemp n)) eqn:E; [|reflexivity].
        apply path_eqb_eq in E. subst p. symmetry. apply HT. lia.
    + apply IH.
      * intros c0 Hc0. apply in_app_or in Hc0 as [Hc0 | [ <- | [] ] ].
        -- destruct (Hn c0 Hc0). split; [lia|assumption].
        -- cbn. split; [lia|split; reflexivity].
      * rewrite map_app. cbn. apply NoDup_app_intro_single; assumption.
      * assumption.
      * intros m Hm. apply HT. lia.
      * intros p. rewrite tclears_spec. rewrite <- Hclr, tclears_spec.
        unfold is_put_temp. rewrite existsb_app. cbn [existsb c_kind c_n mk_cell]. rewrite orb_false_r. reflexivity.
    + split; [assumption|]. split; [intros c Hc; apply Hn, Hc|]. split; assumption.
Qed.
End Body.

Section Run.
Variable D : Type.

Theorem run_tx_rollback (prog : list (tstep D)) ft dbc fs0 :
  fresh fs0 -> (forall j, ft <> FAfter j) ->
  let '(ok, db', fs') := run_tx ft prog dbc fs0 in
  ok = false -> db' = dbc /\ forall p, fs' p = fs0 p.
Proof.
  intros Hfresh Hft. unfold run_tx.
  pose proof (body_inv D fs0 Hfresh prog 0 dbc fs0 []
                (fun c (H : In c []) => match H with end) (NoDup_nil _)
                (fun m => proj2 (Hfresh m)) (fun m _ => proj1 (Hfresh m)) (fun p => eq_refl)) as Hb.
  destruct (body 0 prog dbc fs0 []) as [[[w fs1] cells] ok] eqn:EB.
  destruct Hb as (Hnd & Hinit & HB & Hclr).
  destruct ok; cbn [negb]; cbv iota.
  2:{ intros _. split; [reflexivity|]. intros p. rewrite rb_all_initial by assumption. apply Hclr. }
  pose proof (pre_all_undo ft cells 0 fs1 Hnd Hinit (fun c _ => HB (c_n c))) as Hu.
  pose proof (pre_all_backed ft cells 0 fs1 Hnd Hinit) as Hbk.
  pose proof (pre_all_names ft cells 0 fs1) as Hnm.
  destruct (pre_all ft 0 cells fs1) as [[cells' fs2] ok2] eqn:EP. cbn [fst] in Hnm.
  assert (Hrb : forall p, rb_all cells' fs2 p = fs0 p) by (intros p; rewrite Hu; apply Hclr).
  destruct ok2; cbn [negb]; cbv iota.
  2:{ intros _. split; [reflexivity | exact Hrb]. }
  assert (Hnd' : NoDup (map c_n cells')) by (rewrite Hnm; exact Hnd).
  destruct ft as [|i v| |j].
  - pose proof (after_all_ok FNone Hft cells' 0 fs2 Hnd' (Hbk eq_refl)) as Ha.
    destruct (after_all FNone 0 cells' fs2) as [fs3 ok3]. cbn in Ha. subst. discriminate.
  - pose proof (after_all_ok (FPre i v) Hft cells' 0 fs2 Hnd' (Hbk eq_refl)) as Ha.
    destruct (after_all (FPre i v) 0 cells' fs2) as [fs3 ok3]. cbn in Ha. subst. discriminate.
  - intros _. split; [reflexivity | exact Hrb].
  - now destruct (Hft j).
Qed.
End Run.
