(* Proofs/TransitionProofs.v — lemmas about Model/Transition.v used by Properties/C14.v *)
From Verif Require Import Bytes Codec Transition.
From Coq Require Import ZifyBool ZifyN ZifyNat.

(* ---------------- keys / version lists ---------------- *)
Lemma okey_eqb_eq a b : okey_eqb a b = true <-> a = b.
Proof.
  destruct a as [a1 a2], b as [b1 b2]; unfold okey_eqb; cbn [fst snd].
  rewrite andb_true_iff, !N.eqb_eq. split; [intros [-> ->]; reflexivity | intros E; inversion E; auto].
Qed.
Lemma okey_eqb_refl a : okey_eqb a a = true.
Proof. apply okey_eqb_eq; reflexivity. Qed.
Lemma okey_eqb_neq a b : okey_eqb a b = false <-> a <> b.
Proof.
  split.
  - intros H E. apply okey_eqb_eq in E. congruence.
  - intros H. destruct (okey_eqb a b) eqn:E; [apply okey_eqb_eq in E; contradiction | reflexivity].
Qed.
Lemma versions_of_set_same k vs l : versions_of k (set_versions k vs l) = vs.
Proof.
  induction l as [|[k' vs'] l IH]; cbn [set_versions versions_of].
  - rewrite okey_eqb_refl. reflexivity.
  - destruct (okey_eqb k k') eqn:E; cbn [versions_of]; [rewrite okey_eqb_refl; reflexivity|].
    rewrite E. exact IH.
Qed.
Lemma versions_of_set_other k k' vs l : k' <> k -> versions_of k' (set_versions k vs l) = versions_of k' l.
Proof.
  intros Hn. induction l as [|[k2 vs2] l IH]; cbn [set_versions versions_of].
  - apply okey_eqb_neq in Hn. rewrite Hn. reflexivity.
  - destruct (okey_eqb k k2) eqn:E; cbn [versions_of].
    + apply okey_eqb_eq in E; subst k2. apply okey_eqb_neq in Hn. rewrite Hn. reflexivity.
    + destruct (okey_eqb k' k2); [reflexivity | exact IH].
Qed.
Lemma nth_update_same i g vs r : nth_error vs i = Some r -> nth_error (update_nth i g vs) i = Some (g r).
Proof.
  revert i; induction vs as [|x vs IH]; intros [|i]; cbn; try discriminate.
  - intros E; inversion E; reflexivity.
  - apply IH.
Qed.
Lemma nth_update_other i j g vs : j <> i -> nth_error (update_nth i g vs) j = nth_error vs j.
Proof.
  revert i j; induction vs as [|x vs IH]; intros [|i] [|j] Hn; cbn; try reflexivity; try congruence.
  apply IH. congruence.
Qed.
Lemma update_nth_length i g vs : length (update_nth i g vs) = length vs.
Proof. revert i; induction vs as [|x vs IH]; intros [|i]; cbn; auto. Qed.

(* ---------------- registry ---------------- *)
Lemma reg_get_filter_same i r : reg_get i (filter (fun e => negb (i =? fst e)%N) r) = 0%N.
Proof.
  induction r as [|[j c] r IH]; cbn [filter reg_get fst]; [reflexivity|].
  destruct (i =? j)%N eqn:E; cbn [negb]; [exact IH|]. cbn [reg_get]. rewrite E. exact IH.
Qed.
Lemma reg_get_filter_other i j r : j <> i -> reg_get j (filter (fun e => negb (i =? fst e)%N) r) = reg_get j r.
Proof.
  intros Hn. induction r as [|[m c] r IH]; cbn [filter reg_get fst]; [reflexivity|].
  destruct (i =? m)%N eqn:E; cbn [negb].
  - apply N.eqb_eq in E; subst m. apply N.eqb_neq in Hn. rewrite Hn. exact IH.
  - cbn [reg_get]. destruct (j =? m)%N; [reflexivity | exact IH].
Qed.
Lemma reg_dec_other i j r : j <> i -> reg_get j (fst (reg_dec i r)) = reg_get j r.
Proof.
  intros Hn. induction r as [|[m c] r IH]; cbn [reg_dec]; [reflexivity|].
  destruct (i =? m)%N eqn:E.
  - apply N.eqb_eq in E; subst m. assert (Hji : (j =? i)%N = false) by (apply N.eqb_neq; exact Hn).
    destruct (c <=? 1)%N; cbn [fst reg_get]; rewrite Hji; [apply reg_get_filter_other; exact Hn | reflexivity].
  - destruct (reg_dec i r) as [r2 z]. cbn [fst reg_get] in *. destruct (j =? m)%N; [reflexivity | exact IH].
Qed.
Lemma reg_dec_same_big i r : (2 <= reg_get i r)%N ->
  snd (reg_dec i r) = false /\ reg_get i (fst (reg_dec i r)) = (reg_get i r - 1)%N.
Proof.
  induction r as [|[m c] r IH]; cbn [reg_dec reg_get]; [lia|].
  destruct (i =? m)%N eqn:E.
  - intros Hc. destruct (c <=? 1)%N eqn:Hle; [lia|]. cbn [fst snd reg_get]. rewrite E. auto.
  - intros Hc. destruct (IH Hc) as [H1 H2]. destruct (reg_dec i r) as [r2 z]. cbn [fst snd reg_get] in *. rewrite E. auto.
Qed.
Lemma reg_inc_same i r : reg_get i (reg_inc i r) = (reg_get i r + 1)%N.
Proof.
  induction r as [|[m c] r IH]; cbn [reg_inc reg_get]; [rewrite N.eqb_refl; reflexivity|].
  destruct (i =? m)%N eqn:E; cbn [reg_get]; rewrite E; [reflexivity | exact IH].
Qed.
Lemma reg_inc_other i j r : j <> i -> reg_get j (reg_inc i r) = reg_get j r.
Proof.
  intros Hn. induction r as [|[m c] r IH]; cbn [reg_inc reg_get].
  - apply N.eqb_neq in Hn. rewrite Hn. reflexivity.
  - destruct (i =? m)%N eqn:E; cbn [reg_get].
    + apply N.eqb_eq in E; subst m. apply N.eqb_neq in Hn. rewrite Hn. reflexivity.
    + destruct (j =? m)%N; [reflexivity | exact IH].
Qed.
Definition occ (i : N) (ids : list N) : N := N.of_nat (count_occ N.eq_dec ids i).
Lemma occ_cons i j ids : occ i (j :: ids) = ((if (j =? i)%N then 1 else 0) + occ i ids)%N.
Proof.
  unfold occ. cbn [count_occ]. destruct (N.eq_dec j i) as [->|Hn].
  - rewrite N.eqb_refl. lia.
  - apply N.eqb_neq in Hn. rewrite Hn. lia.
Qed.
Lemma reg_get_add_refs i ids : forall r, reg_get i (fold_left (fun r id => reg_inc id r) ids r) = (reg_get i r + occ i ids)%N.
Proof.
  induction ids as [|j ids IH]; intros r; cbn [fold_left]; [unfold occ; cbn; lia|].
  rewrite IH, occ_cons. destruct (j =? i)%N eqn:E.
  - apply N.eqb_eq in E; subst j. rewrite reg_inc_same. lia.
  - apply N.eqb_neq in E. rewrite reg_inc_other by congruence. lia.
Qed.

(* ---------------- blobs ---------------- *)
Lemma pair_eqb_eq a b : pair_eqb a b = true <-> a = b.
Proof.
  destruct a as [a1 a2], b as [b1 b2]; unfold pair_eqb; cbn [fst snd].
  rewrite andb_true_iff, !N.eqb_eq. split; [intros [-> ->]; reflexivity | intros E; inversion E; auto].
Qed.
Lemma blob_get_del_other k k' l : k' <> k -> blob_get k' (blob_del k l) = blob_get k' l.
Proof.
  intros Hn. unfold blob_del. induction l as [|[k2 v] l IH]; cbn [filter blob_get fst]; [reflexivity|].
  destruct (pair_eqb k k2) eqn:E; cbn [negb].
  - apply pair_eqb_eq in E; subst k2.
    destruct (pair_eqb k' k) eqn:E2; [apply pair_eqb_eq in E2; contradiction | exact IH].
  - cbn [blob_get]. destruct (pair_eqb k' k2); [reflexivity | exact IH].
Qed.

(* ---------------- removal of part rows ---------------- *)
Definition rows_with (i : N) (ps : list part) : N := occ i (map p_id ps).

Lemma remove_row_objs s p : s_objs (remove_row s p) = s_objs s /\ s_nextp (remove_row s p) = s_nextp s /\ s_next (remove_row s p) = s_next s.
Proof. unfold remove_row. destruct (reg_dec (p_id p) (s_reg s)) as [r z]. destruct z; cbn; auto. Qed.
Lemma remove_rows_objs ps : forall s, s_objs (remove_rows s ps) = s_objs s /\ s_nextp (remove_rows s ps) = s_nextp s /\ s_next (remove_rows s ps) = s_next s.
Proof.
  induction ps as [|p ps IH]; intros s; cbn [remove_rows fold_left]; [auto|].
  fold (remove_rows (remove_row s p) ps). destruct (IH (remove_row s p)) as (H1 & H2 & H3).
  destruct (remove_row_objs s p) as (G1 & G2 & G3). rewrite H1, H2, H3. auto.
Qed.

(* a blob survives the removal of rows if no removed row carries its id, or if the registry counts more
   references to the id than rows are removed (the refcount argument) *)
Lemma remove_rows_keeps ps : forall s st i,
  (rows_with i ps = 0 \/ rows_with i ps < reg_get i (s_reg s))%N ->
  blob_get (st, i) (s_blobs (remove_rows s ps)) = blob_get (st, i) (s_blobs s) /\
  reg_get i (s_reg (remove_rows s ps)) = (reg_get i (s_reg s) - rows_with i ps)%N.
Proof.
  induction ps as [|p ps IH]; intros s st i H; cbn [remove_rows fold_left]; [unfold rows_with, occ; cbn; split; [reflexivity | lia]|].
  fold (remove_rows (remove_row s p) ps).
  unfold rows_with in *. cbn [map] in *. rewrite occ_cons in *.
  destruct (p_id p =? i)%N eqn:E.
  - apply N.eqb_eq in E. subst i. destruct H as [H|H]; [lia|].
    assert (Hbig : (2 <= reg_get (p_id p) (s_reg s))%N) by lia.
    destruct (reg_dec_same_big _ _ Hbig) as [Hz Hg].
    assert (Hs : remove_row s p = with_reg s (fst (reg_dec (p_id p) (s_reg s)))).
    { unfold remove_row. destruct (reg_dec (p_id p) (s_reg s)) as [r z]. cbn [snd fst] in *. subst z. reflexivity. }
    destruct (IH (remove_row s p) st (p_id p)) as [H1 H2].
    { right. rewrite Hs. cbn [with_reg s_reg]. rewrite Hg. lia. }
    rewrite H1, H2, Hs. cbn [with_reg s_reg s_blobs]. rewrite Hg. split; [reflexivity | lia].
  - apply N.eqb_neq in E.
    assert (Hreg : reg_get i (s_reg (remove_row s p)) = reg_get i (s_reg s)).
    { unfold remove_row. pose proof (reg_dec_other (p_id p) i (s_reg s)) as Ho.
      destruct (reg_dec (p_id p) (s_reg s)) as [r z]. cbn [fst] in Ho. destruct z; cbn; apply Ho; congruence. }
    assert (Hbl : blob_get (st, i) (s_blobs (remove_row s p)) = blob_get (st, i) (s_blobs s)).
    { unfold remove_row. destruct (reg_dec (p_id p) (s_reg s)) as [r z]. destruct z; cbn; [|reflexivity].
      apply blob_get_del_other. intros Heq. inversion Heq. congruence. }
    destruct (IH (remove_row s p) st i) as [H1 H2]; [rewrite Hreg; destruct H as [H|H]; [left | right]; lia|].
    rewrite H1, H2, Hreg, Hbl. split; [reflexivity | lia].
Qed.

(* ---------------- move_parts ---------------- *)
Lemma move_parts_spec dst ps : forall s s' rows shared,
  move_parts s dst ps = (s', rows, shared, true) ->
  s_objs s' = s_objs s /\ s_reg s' = s_reg s /\ s_idx s' = s_idx s /\ s_next s' = s_next s /\
  (s_nextp s <= s_nextp s')%N /\
  map p_cont (map fst rows) = map p_cont ps /\
  (forall p, In p (map fst rows) -> p_store p = dst) /\
  shared = map p_id (filter (fun p => (p_store p =? dst)%N) ps) /\
  (* old blobs are untouched *)
  (forall st i, (i < s_nextp s)%N -> blob_get (st, i) (s_blobs s') = blob_get (st, i) (s_blobs s)) /\
  (* every new row is backed by the bytes of the old row it replaces *)
  (forall n, option_map (fun pb => blob_get (p_store (fst pb), p_id (fst pb)) (s_blobs s')) (nth_error rows n)
             = option_map (fun p => blob_get (p_store p, p_id p) (s_blobs s)) (nth_error ps n)
             \/ exists p, nth_error ps n = Some p /\ (s_nextp s <= p_id p)%N) /\
  (* rows are either old rows that stay (flag true) or fresh ids (flag false) *)
  (forall pb, In pb rows -> (snd pb = true /\ In (fst pb) ps /\ p_store (fst pb) = dst) \/
                            (snd pb = false /\ (s_nextp s <= p_id (fst pb) < s_nextp s')%N)).
Proof.
  induction ps as [|p ps IH]; intros s s' rows shared; cbn [move_parts].
  - intros E; inversion E; subst. repeat split; try reflexivity; try lia.
    + intros p [].
    + intros n. left. destruct n; reflexivity.
    + intros pb [].
  - destruct (p_store p =? dst)%N eqn:Est.
    + destruct (move_parts s dst ps) as [[[s2 rows2] shared2] ok2] eqn:Em.
      intros E; inversion E; subst; clear E.
      destruct (IH _ _ _ _ Em) as (H1 & H2 & H3 & H4 & H5 & H6 & H7 & H8 & H9 & H10 & H11).
      apply N.eqb_eq in Est.
      repeat split; try assumption.
      * cbn [map fst]. rewrite H6. reflexivity.
      * intros q [Hq|Hq]; [cbn in Hq; subst q; exact Est | apply H7, Hq].
      * cbn [filter]. rewrite (proj2 (N.eqb_eq _ _) Est). cbn [map]. rewrite H8. reflexivity.
      * intros n. destruct n as [|n]; [|apply H10]. cbn [nth_error option_map fst].
        destruct (N.lt_ge_cases (p_id p) (s_nextp s)) as [Hlt|Hge]; [left; rewrite H9 by exact Hlt; reflexivity|].
        right. exists p. auto.
      * intros pb [Hpb|Hpb]; [subst pb; left; cbn; auto | ].
        destruct (H11 _ Hpb) as [(X1 & X2 & X3)|(X1 & X2)]; [left; repeat split; [exact X1 | right; exact X2 | exact X3] | right; auto].
    + destruct (blob_get (p_store p, p_id p) (s_blobs s)) as [c|] eqn:Eb; [|intros E; inversion E].
      set (s1 := with_nextp s (s_nextp s + 1) (((dst, s_nextp s), c) :: s_blobs s) (s_idx s)) in *.
      destruct (move_parts s1 dst ps) as [[[s2 rows2] shared2] ok2] eqn:Em.
      intros E; inversion E; subst; clear E.
      destruct (IH _ _ _ _ Em) as (H1 & H2 & H3 & H4 & H5 & H6 & H7 & H8 & H9 & H10 & H11).
      subst s1. cbn [with_nextp s_objs s_reg s_idx s_next s_nextp s_blobs] in *.
      assert (Hold : forall st i, (i < s_nextp s)%N -> blob_get (st, i) (s_blobs s') = blob_get (st, i) (s_blobs s)).
      { intros st i Hi. rewrite H9 by lia. cbn [blob_get].
        destruct (pair_eqb (st, i) (dst, s_nextp s)) eqn:E2; [apply pair_eqb_eq in E2; inversion E2; lia | reflexivity]. }
      repeat split; try assumption; try lia.
      * cbn [map fst p_cont]. rewrite H6. reflexivity.
      * intros q [Hq|Hq]; [cbn in Hq; subst q; reflexivity | apply H7, Hq].
      * cbn [filter]. rewrite Est. exact H8.
      * intros n. destruct n as [|n].
        -- left. cbn [nth_error option_map fst p_store p_id]. rewrite H9 by lia. cbn [blob_get].
           assert (Hr : pair_eqb (dst, s_nextp s) (dst, s_nextp s) = true) by (apply pair_eqb_eq; reflexivity).
           rewrite Hr, Eb. reflexivity.
        -- cbn [nth_error]. destruct (H10 n) as [Hn|(q & Hq & Hge)].
           ++ destruct (nth_error ps n) as [q|] eqn:Eq.
              ** destruct (N.lt_ge_cases (p_id q) (s_nextp s)) as [Hlt|Hge]; [|right; exists q; auto].
                 left. rewrite Hn. cbn [option_map blob_get].
                 destruct (pair_eqb (p_store q, p_id q) (dst, s_nextp s)) eqn:E2; [apply pair_eqb_eq in E2; inversion E2; lia | reflexivity].
              ** left. rewrite Hn. reflexivity.
           ++ right. exists q. split; [exact Hq | lia].
      * intros pb [Hpb|Hpb]; [subst pb; right; cbn; split; [reflexivity | lia] | ].
        destruct (H11 _ Hpb) as [(X1 & X2 & X3)|(X1 & X2)]; [left; repeat split; [exact X1 | right; exact X2 | exact X3] | right; split; [exact X1 | lia]].
Qed.
