(* Proofs/CrashProofs.v — C10: what a crash can leave behind (M-TX, Model/Crash.v). *)
From Verif Require Import Bytes Codec Tx TxProofs Crash.

Lemma pre_all_frame_gen ft : forall cs i fs p,
  unowned cs p -> snd (fst (pre_all ft i cs fs)) p = fs p.
Proof.
  induction cs as [|c r IH]; intros i fs p Hu; cbn [pre_all]; [reflexivity|].
  pose proof (pre_cell_frame (fv_at ft i) c fs p (Hu c (or_introl eq_refl))) as Hc.
  destruct (pre_cell (fv_at ft i) c fs) as [[c' fs1] ok]. cbn [fst snd] in Hc.
  destruct ok; [|cbn; exact Hc].
  specialize (IH (S i) fs1 p (fun c2 H => Hu c2 (or_intror H))).
  destruct (pre_all ft (S i) r fs1) as [[r' fs2] ok']. cbn [fst snd] in *. congruence.
Qed.

Lemma after_all_final ft : forall cs j fs id,
  fst (after_all ft j cs fs) (PFinal id) = fs (PFinal id).
Proof.
  induction cs as [|c r IH]; intros j fs id; cbn [after_all]; [reflexivity|].
  destruct (match ft with FAfter k => Nat.eqb k j | _ => false end); [reflexivity|].
  unfold after_cell. destruct (c_bc c).
  - destruct (fs (PBackup (c_n c))); cbv beta iota; [|reflexivity].
    rewrite IH. now rewrite fupd_other by discriminate.
  - cbv beta iota. apply IH.
Qed.

Section CrashP.
Variable D : Type.

Lemma body_final : forall (ss : list (tstep D)) n w fs cells id,
  snd (fst (fst (body n ss w fs cells))) (PFinal id) = fs (PFinal id).
Proof.
  induction ss as [|s r IH]; intros n w fs cells id; [reflexivity|].
  destruct s; cbn [body]; try apply IH; [|reflexivity].
  rewrite IH. now rewrite fupd_other by discriminate.
Qed.

Lemma body_cells_ids : forall (ss : list (tstep D)) n w fs cells c,
  In c (snd (fst (body n ss w fs cells))) -> In c cells \/ In (c_id c) (prog_ids ss).
Proof.
  induction ss as [|s r IH]; intros n w fs cells c Hc; [now left|].
  destruct s; cbn [body] in Hc.
  - apply IH in Hc. destruct Hc; [now left | right; exact H].
  - apply IH in Hc. destruct Hc as [Hc|Hc].
    + apply in_app_or in Hc as [Hc | [ <- | [] ] ]; [now left | right; now left].
    + right; now right.
  - apply IH in Hc. destruct Hc as [Hc|Hc].
    + apply in_app_or in Hc as [Hc | [ <- | [] ] ]; [now left | right; now left].
    + right; now right.
  - now left.
Qed.

Lemma unowned_final cells (prog : list (tstep D)) id :
  (forall c, In c cells -> In (c_id c) (prog_ids prog)) -> ~ In id (prog_ids prog) ->
  unowned cells (PFinal id).
Proof.
  intros Hc Hid c Hin [E|[E|E]]; inversion E; subst. apply Hid, Hc, Hin.
Qed.

Lemma firstn_In {A} k (l : list A) x : In x (firstn k l) -> In x l.
Proof. revert l; induction k; intros [|a l] H; cbn in *; try contradiction. destruct H; [now left | right; auto]. Qed.

(* before the database commit: committed state unchanged, no final file of a part id the transaction does not
   name is touched — for every program and every crash point, without any hypothesis *)
Theorem crash_before_commit (prog : list (tstep D)) dbc fs0 pt d f :
  match pt with CBody _ | CPreHalf _ | CPre _ => True | _ => False end ->
  crash_at pt prog dbc fs0 = Some (d, f) ->
  d = dbc /\ forall id, ~ In id (prog_ids prog) -> f (PFinal id) = fs0 (PFinal id).
Proof.
  intros Hpt. unfold crash_at.
  pose proof (body_final prog 0 dbc fs0 []) as Hbf.
  pose proof (body_cells_ids prog 0 dbc fs0 []) as Hci.
  destruct (body 0 prog dbc fs0 []) as [[[w fs1] cells] ok]. cbn [fst snd] in Hbf, Hci.
  assert (Hids : forall c, In c cells -> In (c_id c) (prog_ids prog)).
  { intros c Hc. destruct (Hci c Hc) as [[]|H]; exact H. }
  destruct pt as [k|i|i| |j]; try contradiction.
  - destruct (k <=? length prog)%nat; [|discriminate].
    pose proof (body_final (firstn k prog) 0 dbc fs0 []) as Hk.
    destruct (body 0 (firstn k prog) dbc fs0 []) as [[[w' fsk] ck] okk]. cbn [fst snd] in Hk.
    intros E; inversion E; subst. split; [reflexivity|]. intros id _. apply Hk.
  - destruct ok; cbn [negb]; [|discriminate].
    destruct (nth_error cells i) as [c|] eqn:En; [|discriminate].
    pose proof (pre_all_frame_gen FNone (firstn i cells) 0 fs1) as Hp.
    destruct (pre_all FNone 0 (firstn i cells) fs1) as [[cs' fs2] ok2]. cbn [fst snd] in Hp.
    destruct ok2; [|discriminate]. destruct (c_kind c); [|discriminate].
    intros E; inversion E; subst. split; [reflexivity|]. intros id Hid.
    assert (In (c_id c) (prog_ids prog)) by (apply Hids; eapply nth_error_In; eauto).
    rewrite rename_frame; [| intros E2; inversion E2; congruence | discriminate].
    rewrite Hp; [apply Hbf|]. apply unowned_final with prog; [|assumption].
    intros c2 Hc2. apply Hids. eapply firstn_In; eauto.
  - destruct ok; cbn [negb]; [|discriminate].
    destruct (i <? length cells)%nat; [|discriminate].
    pose proof (pre_all_frame_gen FNone (firstn (S i) cells) 0 fs1) as Hp.
    destruct (pre_all FNone 0 (firstn (S i) cells) fs1) as [[cs' fs2] ok2]. cbn [fst snd] in Hp.
    destruct ok2; [|discriminate].
    intros E; inversion E; subst. split; [reflexivity|]. intros id Hid.
    rewrite Hp; [apply Hbf|]. apply unowned_final with prog; [|assumption].
    intros c2 Hc2. apply Hids. eapply firstn_In; eauto.
Qed.

(* after the database commit: the committed state is the operation's, and every final part file is what the
   completed operation leaves (after-commit hooks only remove backups) *)
Theorem crash_after_commit (prog : list (tstep D)) dbc fs0 pt d f :
  match pt with CCommit | CAfter _ => True | _ => False end ->
  crash_at pt prog dbc fs0 = Some (d, f) ->
  let '(ok, w, fsF) := run_tx FNone prog dbc fs0 in
  d = w /\ forall id, f (PFinal id) = fsF (PFinal id).
Proof.
  intros Hpt. unfold crash_at, run_tx.
  destruct (body 0 prog dbc fs0 []) as [[[w fs1] cells] ok].
  destruct pt as [k|i|i| |j]; try contradiction.
  - destruct ok; cbn [negb]; [|discriminate]. cbv iota.
    destruct (pre_all FNone 0 cells fs1) as [[cells' fs2] ok2].
    destruct ok2; [|discriminate]. cbn [negb]. cbv iota.
    pose proof (after_all_final FNone cells' 0 fs2) as Ha.
    destruct (after_all FNone 0 cells' fs2) as [fs3 ok3]. cbn [fst] in Ha.
    intros E; inversion E; subst. split; [reflexivity|]. intros id. now rewrite Ha.
  - destruct ok; cbn [negb]; [|discriminate]. cbv iota.
    destruct (pre_all FNone 0 cells fs1) as [[cells' fs2] ok2].
    destruct ok2; cbn [andb negb]; [|discriminate]. cbv iota.
    destruct (j <? length cells')%nat; [|discriminate].
    pose proof (after_all_final FNone cells' 0 fs2) as Ha.
    destruct (after_all FNone 0 cells' fs2) as [fs3 ok3]. cbn [fst] in Ha.
    intros E; inversion E; subst. split; [reflexivity|]. intros id.
    now rewrite after_all_final, Ha.
Qed.

(* all-or-nothing, for operations that do not touch a part referenced before the operation *)
Theorem crash_safe_unreferenced (refs : D -> list N) (prog : list (tstep D)) dbc fs0 pt d f :
  (forall id, In id (prog_ids prog) -> ~ In id (refs dbc)) ->
  crash_at pt prog dbc fs0 = Some (d, f) ->
  let '(ok, w, fsF) := run_tx FNone prog dbc fs0 in
  (d = dbc /\ forall id, In id (refs dbc) -> f (PFinal id) = fs0 (PFinal id)) \/
  (d = w /\ forall id, f (PFinal id) = fsF (PFinal id)).
Proof.
  intros Hun E.
  destruct pt as [k|i|i| |j].
  - destruct (run_tx FNone prog dbc fs0) as [[ok w] fsF]. left.
    destruct (crash_before_commit prog dbc fs0 (CBody k) d f I E) as [-> H]. split; [reflexivity|].
    intros id Hid. apply H. intros Hin. exact (Hun id Hin Hid).
  - destruct (run_tx FNone prog dbc fs0) as [[ok w] fsF]. left.
    destruct (crash_before_commit prog dbc fs0 (CPreHalf i) d f I E) as [-> H]. split; [reflexivity|].
    intros id Hid. apply H. intros Hin. exact (Hun id Hin Hid).
  - destruct (run_tx FNone prog dbc fs0) as [[ok w] fsF]. left.
    destruct (crash_before_commit prog dbc fs0 (CPre i) d f I E) as [-> H]. split; [reflexivity|].
    intros id Hid. apply H. intros Hin. exact (Hun id Hin Hid).
  - pose proof (crash_after_commit prog dbc fs0 CCommit d f I E) as H.
    destruct (run_tx FNone prog dbc fs0) as [[ok w] fsF]. right. exact H.
  - pose proof (crash_after_commit prog dbc fs0 (CAfter j) d f I E) as H.
    destruct (run_tx FNone prog dbc fs0) as [[ok w] fsF]. right. exact H.
Qed.

(* every object visible after the crash is fully readable (its part files are present), given that this holds
   before the operation and after the completed operation *)
Theorem crash_readable_unreferenced (refs : D -> list N) (prog : list (tstep D)) dbc fs0 pt d f :
  (forall id, In id (prog_ids prog) -> ~ In id (refs dbc)) ->
  crash_at pt prog dbc fs0 = Some (d, f) ->
  (forall id, In id (refs dbc) -> fs0 (PFinal id) <> None) ->
  let '(ok, w, fsF) := run_tx FNone prog dbc fs0 in
  (forall id, In id (refs w) -> fsF (PFinal id) <> None) ->
  forall id, In id (refs d) -> f (PFinal id) <> None.
Proof.
  intros Hun E Hpre.
  pose proof (crash_safe_unreferenced refs prog dbc fs0 pt d f Hun E) as H.
  destruct (run_tx FNone prog dbc fs0) as [[ok w] fsF].
  intros Hpost id Hid. destruct H as [[-> H]|[-> H]].
  - rewrite H by assumption. now apply Hpre.
  - rewrite H. now apply Hpost.
Qed.
End CrashP.
