(* Proofs/CachePartProofs.v — the cache part store is transparent on non-overlapping histories, faults included *)
From Verif Require Import Bytes Codec Cache CacheSpec CacheProofs.
From Coq Require Import ZifyBool ZifyN ZifyNat.

(* ---------- list facts ---------- *)
Lemma nth_upd_eq {A} i (x d : A) l : i < length l -> nth i (upd i x l) d = x.
Proof. revert i; induction l as [|y l IH]; intros [|i] H; cbn in *; try lia; auto. apply IH; lia. Qed.

Lemma nth_upd_neq {A} i j (x d : A) l : i <> j -> nth j (upd i x l) d = nth j l d.
Proof. revert i j; induction l as [|y l IH]; intros [|i] [|j] H; cbn; try congruence; auto. Qed.

Lemma write_at_empty chunk : write_at [] 0 chunk = chunk.
Proof. unfold write_at. cbn. rewrite skipn_nil, app_nil_r. reflexivity. Qed.

(* ---------- persistor level ---------- *)
Definition plook (kd : pkind) (p : pst) (k : bytes) : option bytes :=
  match kd with
  | PMem => alookup k (p_map p)
  | PFs => match alookup k (p_dir p) with Some i => Some (nth i (p_inodes p) []) | None => None end
  end.

Definition fs_ok (p : pst) : Prop :=
  (forall k i, alookup k (p_dir p) = Some i -> i < length (p_inodes p)) /\
  (forall k k' i, alookup k (p_dir p) = Some i -> alookup k' (p_dir p) = Some i -> k = k').

Definition p_ok (kd : pkind) (p : pst) : Prop := match kd with PMem => True | PFs => fs_ok p end.

Definition wr_ok (kd : pkind) (p : pst) (k : bytes) (w : wr) : Prop :=
  match kd, w with
  | PMem, WrMem buf => buf = []
  | PFs, WrFs i off => off = 0 /\ alookup k (p_dir p) = Some i /\ nth i (p_inodes p) [] = []
  | _, _ => False
  end.

Lemma P_remove kd p k : p_ok kd p ->
  p_ok kd (p_remove kd k p) /\ plook kd (p_remove kd k p) k = None /\
  forall k', k' <> k -> plook kd (p_remove kd k p) k' = plook kd p k'.
Proof.
  destruct kd; cbn; intros H.
  - split; [exact I|]. split; [apply alookup_aremove_eq|]. intros k' N. apply alookup_aremove_neq. congruence.
  - destruct H as [Hv Hi]. split; [split|split].
    + intros k0 i H0. apply alookup_aremove_some in H0. eapply Hv; eauto.
    + intros k0 k1 i H0 H1. apply alookup_aremove_some in H0. apply alookup_aremove_some in H1. eapply Hi; eauto.
    + rewrite alookup_aremove_eq. reflexivity.
    + intros k' N. rewrite alookup_aremove_neq by congruence. reflexivity.
Qed.

Lemma P_open kd p k : p_ok kd p ->
  p_ok kd (fst (p_open kd k p)) /\ wr_ok kd (fst (p_open kd k p)) k (snd (p_open kd k p)) /\
  forall k', k' <> k -> plook kd (fst (p_open kd k p)) k' = plook kd p k'.
Proof.
  destruct kd; [cbn; auto|]. intros H.
  destruct H as [Hv Hi]. unfold p_open, p_ok, fs_ok, wr_ok, plook.
  destruct (alookup k (p_dir p)) as [i|] eqn:E; cbn [fst snd p_dir p_inodes p_map].
  - split; [split|split].
    + intros k0 i0 H0. rewrite upd_length. eapply Hv; eauto.
    + exact Hi.
    + split; [reflexivity|]. split; [exact E|]. apply nth_upd_eq. eapply Hv; eauto.
    + intros k' N. destruct (alookup k' (p_dir p)) as [j|] eqn:E'; [|reflexivity].
      rewrite nth_upd_neq; [reflexivity|]. intros ->. apply N. eapply Hi; eauto.
  - split; [split|split].
    + intros k0 i0 H0. rewrite app_length; cbn [length]. destruct (bytes_eq_dec k k0) as [->|N].
      * rewrite alookup_aset_eq in H0. inversion H0. lia.
      * rewrite alookup_aset_neq in H0 by exact N. apply Hv in H0. lia.
    + intros k0 k1 i0 H0 H1.
      destruct (bytes_eq_dec k k0) as [<-|N0], (bytes_eq_dec k k1) as [<-|N1]; auto.
      * rewrite alookup_aset_eq in H0. rewrite alookup_aset_neq in H1 by exact N1. inversion H0; subst. apply Hv in H1. lia.
      * rewrite alookup_aset_eq in H1. rewrite alookup_aset_neq in H0 by exact N0. inversion H1; subst. apply Hv in H0. lia.
      * rewrite alookup_aset_neq in H0, H1 by assumption. eapply Hi; eauto.
    + split; [reflexivity|]. split; [apply alookup_aset_eq|]. rewrite app_nth2, Nat.sub_diag by lia. reflexivity.
    + intros k' N. rewrite alookup_aset_neq by congruence. destruct (alookup k' (p_dir p)) as [j|] eqn:E'; [|reflexivity].
      rewrite app_nth1; [reflexivity | eapply Hv; eauto].
Qed.

(* writing the first (only) chunk through a fresh writer, optionally committing *)
Lemma P_write kd p k w v : p_ok kd p -> wr_ok kd p k w ->
  let p' := fst (p_write w v p) in let w' := snd (p_write w v p) in
  p_ok kd p' /\ (forall k', k' <> k -> plook kd p' k' = plook kd p k') /\
  p_ok kd (p_commit k w' p') /\ plook kd (p_commit k w' p') k = Some v /\
  (forall k', k' <> k -> plook kd (p_commit k w' p') k' = plook kd p k').
Proof.
  destruct kd, w as [buf | i off]; cbn; intros H Hw; try contradiction.
  - subst buf. cbn. repeat split; auto.
    + apply alookup_aset_eq.
    + intros k' N. apply alookup_aset_neq. congruence.
  - destruct Hw as (-> & E & Hn). destruct H as [Hv Hi]. rewrite Hn, write_at_empty.
    assert (fs_ok {| p_map := p_map p; p_dir := p_dir p; p_inodes := upd i v (p_inodes p) |}) as Hok.
    { split; cbn; [intros k0 i0 H0; rewrite upd_length; eapply Hv; eauto | exact Hi]. }
    assert (forall k', k' <> k -> match alookup k' (p_dir p) with Some i0 => Some (nth i0 (upd i v (p_inodes p)) []) | None => None end
                                   = match alookup k' (p_dir p) with Some i0 => Some (nth i0 (p_inodes p) []) | None => None end) as Hoth.
    { intros k' N. destruct (alookup k' (p_dir p)) as [j|] eqn:E'; [|reflexivity].
      rewrite nth_upd_neq; [reflexivity|]. intros ->. apply N. eapply Hi; eauto. }
    split; [exact Hok|]. split; [exact Hoth|]. split; [exact Hok|]. split; [|exact Hoth].
    rewrite E. f_equal. apply nth_upd_eq. eapply Hv; eauto.
Qed.

Lemma P_commit_nowrite kd p k w : p_ok kd p -> wr_ok kd p k w ->
  p_ok kd (p_commit k w p) /\ plook kd (p_commit k w p) k = Some [] /\
  (forall k', k' <> k -> plook kd (p_commit k w p) k' = plook kd p k').
Proof.
  destruct kd, w as [buf | i off]; cbn; intros H Hw; try contradiction.
  - subst buf. split; [exact I|]. split; [apply alookup_aset_eq|]. intros k' N. apply alookup_aset_neq. congruence.
  - destruct Hw as (-> & E & Hn). split; [exact H|]. split; [rewrite E, Hn; reflexivity | auto].
Qed.

(* ---------- cache level ---------- *)
Definition clook (c : cst) (k : bytes) : option bytes := plook (c_kind c) (c_p c) k.
Definition pok (c : cst) : Prop := p_ok (c_kind c) (c_p c).

(* c' holds, for every key in ks... : every key answers None or what c answered *)
Definition nos (c c' : cst) (k : bytes) : Prop := clook c' k = None \/ clook c' k = clook c k.

Lemma remove_all_spec kd ks : forall p, p_ok kd p ->
  p_ok kd (remove_all kd ks p) /\ forall k, plook kd (remove_all kd ks p) k = None \/ plook kd (remove_all kd ks p) k = plook kd p k.
Proof.
  induction ks as [|k0 ks IH]; intros p H; [cbn; auto|].
  change (remove_all kd (k0 :: ks) p) with (remove_all kd ks (p_remove kd k0 p)).
  destruct (P_remove kd p k0 H) as (H1 & H2 & H3). destruct (IH _ H1) as [H4 H5]. split; [exact H4|].
  intros k. destruct (H5 k) as [E|E]; [left; exact E|].
  destruct (bytes_eq_dec k k0) as [->|N]; [left; rewrite E; exact H2 | right; rewrite E; apply H3, N].
Qed.

Lemma track_set_spec k sz c c' : pok c -> c_track_set k sz c = Some c' ->
  c_kind c' = c_kind c /\ pok c' /\ forall k', nos c c' k'.
Proof.
  unfold c_track_set, pok, nos, clook. intros H E.
  destruct (pol_track_set (c_now c) k sz (c_pol c)) as [[ev pol']|]; [|discriminate]. inversion E; subst; cbn.
  destruct (remove_all_spec (c_kind c) ev (c_p c) H) as [H1 H2]. auto.
Qed.

Lemma end_err_spec k c : pok c ->
  c_kind (c_end_err k c) = c_kind c /\ pok (c_end_err k c) /\ clook (c_end_err k c) k = None /\
  forall k', k' <> k -> clook (c_end_err k c) k' = clook c k'.
Proof. unfold pok, clook; cbn. intros H. destruct (P_remove (c_kind c) (c_p c) k H) as (H1 & H2 & H3). auto. Qed.

Lemma begin_spec k hint c c1 w : pok c -> c_begin k hint c = Some (c1, w) ->
  c_kind c1 = c_kind c /\ pok c1 /\ wr_ok (c_kind c1) (c_p c1) k w /\ forall k', k' <> k -> nos c c1 k'.
Proof.
  unfold c_begin. intros H E.
  assert (forall c0, pok c0 -> c_kind c0 = c_kind c -> (forall k', nos c c0 k') ->
            (let (p', w0) := p_open (c_kind c0) k (c_p c0) in
             Some ({| c_kind := c_kind c0; c_pol := c_pol c0; c_p := p'; c_now := c_now c0 |}, w0)) = Some (c1, w) ->
            c_kind c1 = c_kind c /\ pok c1 /\ wr_ok (c_kind c1) (c_p c1) k w /\ forall k', k' <> k -> nos c c1 k') as Hopen.
  { intros c0 H0 Hk Hn E0. destruct (P_open (c_kind c0) (c_p c0) k H0) as (H1 & H2 & H3).
    destruct (p_open (c_kind c0) k (c_p c0)) as [p' w0]. cbn [fst snd] in *. inversion E0; subst; cbn.
    split; [exact Hk|]. split; [exact H1|]. split; [exact H2|].
    intros k' N. unfold nos, clook in *; cbn. rewrite H3 by exact N. apply Hn. }
  destruct (0 <=? hint)%Z.
  - destruct (c_track_set k hint c) as [c0|] eqn:E0; [|discriminate].
    destruct (track_set_spec _ _ _ _ H E0) as (Hk & H0 & Hn). apply (Hopen c0); auto.
  - apply (Hopen c); auto. intros k'. right. reflexivity.
Qed.

Lemma chunk_spec k w v c1 : pok c1 -> wr_ok (c_kind c1) (c_p c1) k w ->
  let c2 := fst (c_chunk w v c1) in
  c_kind c2 = c_kind c1 /\ pok c2 /\ forall k', k' <> k -> clook c2 k' = clook c1 k'.
Proof.
  unfold c_chunk, pok, clook. intros H Hw. destruct (P_write (c_kind c1) (c_p c1) k w v H Hw) as (H1 & H2 & _).
  destruct (p_write w v (c_p c1)) as [p' w']. cbn in *. auto.
Qed.

Lemma nos_after_track c0 c c3 k : c_kind c3 = c_kind c -> (forall k', nos c c3 k') ->
  (forall k', k' <> k -> clook c k' = clook c0 k' \/ clook c k' = None) ->
  forall k', k' <> k -> clook c3 k' = None \/ clook c3 k' = clook c0 k'.
Proof.
  intros _ Hn H k' N. destruct (Hn k') as [E|E]; [left; exact E|]. destruct (H k' N) as [E2|E2]; [right | left]; congruence.
Qed.

(* chunk + successful end: the key holds v or nothing, every other key what it held after begin or nothing *)
Lemma chunk_end_ok_spec k hint w v total c1 c3 : pok c1 -> wr_ok (c_kind c1) (c_p c1) k w ->
  c_end_ok k hint (snd (c_chunk w v c1)) total (fst (c_chunk w v c1)) = Some c3 ->
  c_kind c3 = c_kind c1 /\ pok c3 /\ (clook c3 k = Some v \/ clook c3 k = None) /\
  forall k', k' <> k -> clook c3 k' = None \/ clook c3 k' = clook c1 k'.
Proof.
  unfold c_chunk, c_end_ok. intros H Hw E.
  destruct (P_write (c_kind c1) (c_p c1) k w v H Hw) as (_ & _ & H3 & H4 & H5).
  destruct (p_write w v (c_p c1)) as [p' w']. cbn [fst snd c_kind c_pol c_p c_now] in *.
  set (cc := {| c_kind := c_kind c1; c_pol := c_pol c1; c_p := p_commit k w' p'; c_now := c_now c1 |}) in *.
  assert (pok cc) as Hcc by exact H3.
  destruct (0 <=? hint)%Z.
  - inversion E; subst c3. split; [reflexivity|]. split; [exact Hcc|]. split; [left; exact H4|].
    intros k' N. right. apply H5, N.
  - destruct (track_set_spec _ _ _ _ Hcc E) as (Hk & H0 & Hn). split; [exact Hk|]. split; [exact H0|]. split.
    + destruct (Hn k) as [E1|E1]; [right; exact E1 | left; rewrite E1; exact H4].
    + intros k' N. destruct (Hn k') as [E1|E1]; [left; exact E1 | right; rewrite E1; apply H5, N].
Qed.

Lemma nochunk_end_ok_spec k hint w total c1 c3 : pok c1 -> wr_ok (c_kind c1) (c_p c1) k w ->
  c_end_ok k hint w total c1 = Some c3 ->
  c_kind c3 = c_kind c1 /\ pok c3 /\ (clook c3 k = Some [] \/ clook c3 k = None) /\
  forall k', k' <> k -> clook c3 k' = None \/ clook c3 k' = clook c1 k'.
Proof.
  unfold c_end_ok. intros H Hw E.
  destruct (P_commit_nowrite (c_kind c1) (c_p c1) k w H Hw) as (H3 & H4 & H5).
  set (cc := {| c_kind := c_kind c1; c_pol := c_pol c1; c_p := p_commit k w (c_p c1); c_now := c_now c1 |}) in *.
  assert (pok cc) as Hcc by exact H3.
  destruct (0 <=? hint)%Z.
  - inversion E; subst c3. split; [reflexivity|]. split; [exact Hcc|]. split; [left; exact H4|].
    intros k' N. right. apply H5, N.
  - destruct (track_set_spec _ _ _ _ Hcc E) as (Hk & H0 & Hn). split; [exact Hk|]. split; [exact H0|]. split.
    + destruct (Hn k) as [E1|E1]; [right; exact E1 | left; rewrite E1; exact H4].
    + intros k' N. destruct (Hn k') as [E1|E1]; [left; exact E1 | right; rewrite E1; apply H5, N].
Qed.

(* ---------- relations between cache states ---------- *)
Definition setk (k v : bytes) (c c' : cst) : Prop :=
  c_kind c' = c_kind c /\ pok c' /\ (clook c' k = Some v \/ clook c' k = None) /\ forall k', k' <> k -> nos c c' k'.
Definition delk (k : bytes) (c c' : cst) : Prop :=
  c_kind c' = c_kind c /\ pok c' /\ clook c' k = None /\ forall k', k' <> k -> nos c c' k'.

Lemma delk_setk k v c c' : delk k c c' -> setk k v c c'.
Proof. intros (H1 & H2 & H3 & H4). repeat split; auto. Qed.

Lemma nos_trans c0 c1 c2 k : nos c0 c1 k -> nos c1 c2 k -> nos c0 c2 k.
Proof. unfold nos. intros [E|E] [F|F]; try (left; congruence). right; congruence. Qed.

Lemma nos_refl c k : nos c c k.
Proof. right; reflexivity. Qed.

Lemma nos_eq c c' k : clook c' k = clook c k -> nos c c' k.
Proof. intros E; right; exact E. Qed.

Lemma L_remove k c : pok c -> delk k c (c_remove k c).
Proof.
  intros H. destruct (end_err_spec k c H) as (H1 & H2 & H3 & H4). repeat split; auto.
  intros k' N. apply nos_eq, H4, N.
Qed.

Lemma L_set k v hint c c' : pok c -> c_set k v hint None c = Some c' -> setk k v c c'.
Proof.
  unfold c_set. intros H E. destruct (c_begin k hint c) as [[c1 w]|] eqn:Eb; [|discriminate].
  destruct (begin_spec _ _ _ _ _ H Eb) as (Hk1 & Hp1 & Hw1 & Hn1).
  pose proof (chunk_end_ok_spec k hint w v (length v) c1 c') as Hce.
  destruct (c_chunk w v c1) as [c2 w2]. cbn [fst snd] in Hce.
  destruct (Hce Hp1 Hw1 E) as (Hk3 & Hp3 & Hv & Hn3).
  split; [congruence|]. split; [exact Hp3|]. split; [exact Hv|].
  intros k' N. eapply nos_trans; [apply Hn1, N|]. destruct (Hn3 k' N) as [F|F]; [left | right]; exact F.
Qed.

Lemma L_set_fail k v hint n c c' : pok c -> c_set k v hint (Some n) c = Some c' -> delk k c c'.
Proof.
  unfold c_set. intros H E. destruct (c_begin k hint c) as [[c1 w]|] eqn:Eb; [|discriminate].
  destruct (begin_spec _ _ _ _ _ H Eb) as (Hk1 & Hp1 & Hw1 & Hn1).
  destruct (chunk_spec k w (firstn n v) c1 Hp1 Hw1) as (Hk2 & Hp2 & Hn2).
  destruct (c_chunk w (firstn n v) c1) as [c2 w2]. cbn [fst] in *. inversion E; subst c'.
  destruct (end_err_spec k c2 Hp2) as (Hk3 & Hp3 & Hv & Hn3).
  split; [congruence|]. split; [exact Hp3|]. split; [exact Hv|].
  intros k' N. eapply nos_trans; [apply Hn1, N|]. apply nos_eq. rewrite Hn3, Hn2 by exact N. reflexivity.
Qed.

Lemma L_get k c : let c' := fst (c_get k c) in
  c_kind c' = c_kind c /\ c_p c' = c_p c /\
  match snd (c_get k c) with
  | None => clook c k = None
  | Some r => exists v, clook c k = Some v /\ rd_rest r (c_p c) = v /\ forall n, fst (rd_read r n (c_p c)) = firstn n v
  end.
Proof.
  cbn. split; [reflexivity|]. split; [reflexivity|]. unfold clook, plook, p_get. destruct (c_kind c); cbn.
  - destruct (alookup k (p_map (c_p c))) as [v|]; cbn; [|reflexivity]. exists v. auto.
  - destruct (alookup k (p_dir (c_p c))) as [i|]; cbn; [|reflexivity]. eexists. split; [reflexivity|]. auto.
Qed.

(* ---------- world level ---------- *)
Definition cache_sub (c : cst) (cur : list (bytes * bytes)) : Prop :=
  forall id v, clook c id = Some v -> alookup id cur = Some v.

Definition J (w : world) (cur : list (bytes * bytes)) : Prop :=
  w_inner w = cur /\ w_sets w = [] /\ w_handles w = [] /\ pok (w_c w) /\ cache_sub (w_c w) cur.

Lemma sub_nos c c' cur : cache_sub c cur -> (forall k, nos c c' k) -> cache_sub c' cur.
Proof. intros H Hn id v E. destruct (Hn id) as [F|F]; [congruence|]. apply H. congruence. Qed.

Lemma sub_setk_same k v c c' cur : cache_sub c cur -> alookup k cur = Some v -> setk k v c c' -> cache_sub c' cur.
Proof.
  intros H Hc (_ & _ & Hv & Hn) id v' E. destruct (bytes_eq_dec id k) as [->|N].
  - destruct Hv as [F|F]; congruence.
  - destruct (Hn id N) as [F|F]; [congruence|]. apply H. congruence.
Qed.

Lemma sub_setk_aset k v c c' cur : cache_sub c cur -> setk k v c c' -> cache_sub c' (aset k v cur).
Proof.
  intros H (_ & _ & Hv & Hn) id v' E. destruct (bytes_eq_dec id k) as [->|N].
  - rewrite alookup_aset_eq. destruct Hv as [F|F]; congruence.
  - rewrite alookup_aset_neq by congruence. destruct (Hn id N) as [F|F]; [congruence|]. apply H. congruence.
Qed.

Lemma sub_delk_aremove k c c' cur : cache_sub c cur -> delk k c c' -> cache_sub c' (aremove k cur).
Proof.
  intros H (_ & _ & Hv & Hn) id v' E. destruct (bytes_eq_dec id k) as [->|N]; [congruence|].
  rewrite alookup_aremove_neq by congruence. destruct (Hn id N) as [F|F]; [congruence|]. apply H. congruence.
Qed.

Lemma delk_all k c c' : delk k c c' -> forall k', nos c c' k'.
Proof. intros (_ & _ & Hv & Hn) k'. destruct (bytes_eq_dec k' k) as [->|N]; [left; exact Hv | apply Hn, N]. Qed.

(* singleton tables *)
Lemma nlookup_single {A} k (v : A) : nlookup k [(k, v)] = Some v.
Proof. cbn. rewrite Nat.eqb_refl. reflexivity. Qed.
Lemma nremove_single {A} k (v : A) : nremove k [(k, v)] = [].
Proof. cbn. rewrite Nat.eqb_refl. reflexivity. Qed.
Lemma nset_single {A} k (v v' : A) : nset k v' [(k, v)] = [(k, v')].
Proof. unfold nset. rewrite nremove_single. reflexivity. Qed.

(* components of the fill helpers *)
Lemma fill_fail_comp sid ov w pd : nlookup sid (w_sets w) = Some pd ->
  let w' := fill_fail sid ov w in
  w_c w' = c_remove (pd_key pd) (c_end_err (pd_key pd) (w_c w)) /\ w_sets w' = nremove sid (w_sets w) /\
  w_handles w' = w_handles w /\ w_inner w' = w_inner w /\ w_maxpart w' = w_maxpart w.
Proof. intros E. unfold fill_fail. rewrite E. destruct ov; cbn; auto. Qed.

Lemma fill_ok_comp sid w pd w' : nlookup sid (w_sets w) = Some pd -> fill_ok sid w = Some w' ->
  c_end_ok (pd_key pd) (pd_hint pd) (pd_wr pd) (pd_total pd) (w_c w) = Some (w_c w') /\ w_sets w' = nremove sid (w_sets w) /\
  w_handles w' = w_handles w /\ w_inner w' = w_inner w /\ w_maxpart w' = w_maxpart w.
Proof.
  intros E H. unfold fill_ok in H. rewrite E in H.
  destruct (c_end_ok (pd_key pd) (pd_hint pd) (pd_wr pd) (pd_total pd) (w_c w)) as [c1|]; [|discriminate].
  inversion H; subst; cbn; auto.
Qed.

Lemma feed_comp sid chunk w pd : nlookup sid (w_sets w) = Some pd -> pd_failat pd = None ->
  let w' := feed sid chunk w in
  w_c w' = fst (c_chunk (pd_wr pd) chunk (w_c w)) /\
  (exists pd', w_sets w' = nset sid pd' (w_sets w) /\ pd_key pd' = pd_key pd /\ pd_hint pd' = pd_hint pd /\
               pd_wr pd' = snd (c_chunk (pd_wr pd) chunk (w_c w)) /\ pd_failat pd' = None) /\
  w_handles w' = w_handles w /\ w_inner w' = w_inner w /\ w_maxpart w' = w_maxpart w.
Proof.
  intros E F. unfold feed. rewrite E, F. destruct (c_chunk (pd_wr pd) chunk (w_c w)) as [c1 wr']. cbn.
  split; [reflexivity|]. split; [|auto]. eexists. split; [reflexivity|]. cbn. auto.
Qed.

(* ---------- one miss fill, run to its end without another operation in between ---------- *)
Definition pd0 (id : bytes) (wr0 : wr) : pending :=
  {| pd_key := id; pd_hint := (-1)%Z; pd_wr := wr0; pd_total := 0; pd_src := []; pd_failat := None |}.

Definition SW (w : world) (id data : bytes) (trunc : bool) (sid : nat) (wr0 : wr) : Prop :=
  w_sets w = [(sid, pd0 id wr0)] /\
  w_handles w = [(tmp_handle, HStream data 0 0 true sid trunc)] /\
  pok (w_c w) /\ wr_ok (c_kind (w_c w)) (c_p (w_c w)) id wr0.

Lemma abort_after_begin id c : pok c -> delk id c (c_remove id (c_end_err id c)).
Proof.
  intros H. destruct (end_err_spec id c H) as (H1 & H2 & H3 & H4).
  destruct (end_err_spec id _ H2) as (G1 & G2 & G3 & G4). unfold c_remove.
  split; [congruence|]. split; [exact G2|]. split; [exact G3|].
  intros k' N. apply nos_eq. rewrite G4, H4 by exact N. reflexivity.
Qed.

Lemma abort_after_chunk id wr0 chunk c : pok c -> wr_ok (c_kind c) (c_p c) id wr0 ->
  delk id c (c_remove id (c_end_err id (fst (c_chunk wr0 chunk c)))).
Proof.
  intros H Hw. destruct (chunk_spec id wr0 chunk c H Hw) as (Hk & Hp & Hn).
  destruct (abort_after_begin id _ Hp) as (A1 & A2 & A3 & A4).
  split; [congruence|]. split; [exact A2|]. split; [exact A3|].
  intros k' N. destruct (A4 k' N) as [F|F]; [left; exact F | right; rewrite F; apply Hn, N].
Qed.

(* the outcome of reading a fresh miss fill to its end (ReadAll + Close) *)
Lemma finish_stream w id data trunc sid wr0 r w' :
  SW w id data trunc sid wr0 -> step1 (OFinish tmp_handle) w = Some (r, w') ->
  r = (if trunc then RValErr data else RVal data) /\
  w_sets w' = [] /\ w_handles w' = [] /\ w_inner w' = w_inner w /\
  (if trunc then delk id (w_c w) (w_c w') else setk id data (w_c w) (w_c w')).
Proof.
  intros (Hs & Hh & Hp & Hw) H. unfold step1 in H. rewrite Hh, nlookup_single in H.
  unfold would_hang in H. rewrite Hs, nlookup_single in H.
  cbn [h_read skipn andb Nat.add] in H.
  assert (nlookup sid (w_sets w) = Some (pd0 id wr0)) as Hl by (rewrite Hs; apply nlookup_single).
  destruct (0 <? length data) eqn:Elen; cbn [andb] in H.
  - destruct (w_maxpart w <? length data) eqn:Eov; cbn [andb negb] in H.
    + (* larger than the threshold: fill aborted, hint marked *)
      destruct (fill_fail_comp sid true w _ Hl) as (F1 & F2 & F3 & F4 & F5).
      inversion H; subst r w'; clear H. cbn [h_close set_handles w_sets w_handles w_inner w_c].
      rewrite F1, F2, F4, Hs, nremove_single. cbn [pd0 pd_key].
      split; [destruct trunc; reflexivity|]. split; [reflexivity|]. split; [rewrite F3, Hh; apply nremove_single|].
      split; [reflexivity|]. pose proof (abort_after_begin id _ Hp) as Hd. destruct trunc; [exact Hd | apply delk_setk, Hd].
    + destruct (feed_comp sid data w _ Hl eq_refl) as (G1 & (pd' & G2 & G3 & G4 & G5 & G6) & G7 & G8 & G9).
      set (w1 := feed sid data w) in *.
      assert (nlookup sid (w_sets w1) = Some pd') as Hl1 by (rewrite G2; apply nlookup_nset_eq).
      destruct trunc.
      * (* the inner reader failed: nothing is cached *)
        destruct (fill_fail_comp sid false w1 _ Hl1) as (F1 & F2 & F3 & F4 & F5).
        inversion H; subst r w'; clear H. cbn [h_close set_handles w_sets w_handles w_inner w_c].
        rewrite F1, F2, F4, G2, G3, G1, G8, Hs, nset_single, nremove_single. cbn [pd0 pd_key pd_wr].
        split; [reflexivity|]. split; [reflexivity|]. split; [rewrite F3, G7, Hh; apply nremove_single|].
        split; [reflexivity|]. apply abort_after_chunk; assumption.
      * destruct (fill_ok sid w1) as [w2|] eqn:Eok; [|discriminate].
        destruct (fill_ok_comp sid w1 pd' w2 Hl1 Eok) as (F1 & F2 & F3 & F4 & F5).
        inversion H; subst r w'; clear H. cbn [h_close set_handles w_sets w_handles w_inner w_c].
        rewrite F2, F4, G2, G8, Hs, nset_single, nremove_single.
        split; [reflexivity|]. split; [reflexivity|]. split; [rewrite F3, G7, Hh; apply nremove_single|].
        split; [reflexivity|].
        rewrite G3, G4, G5, G1 in F1. cbn [pd0 pd_key pd_hint pd_wr] in F1.
        destruct (chunk_end_ok_spec id (-1) wr0 data (pd_total pd') (w_c w) (w_c w2) Hp Hw F1) as (K1 & K2 & K3 & K4).
        split; [exact K1|]. split; [exact K2|]. split; [exact K3|]. intros k' N. exact (K4 k' N).
  - (* empty part *)
    apply Nat.ltb_ge in Elen. assert (data = []) as -> by (destruct data; [reflexivity | cbn in Elen; lia]).
    destruct trunc.
    + destruct (fill_fail_comp sid false w _ Hl) as (F1 & F2 & F3 & F4 & F5).
      inversion H; subst r w'; clear H. cbn [h_close set_handles w_sets w_handles w_inner w_c].
      rewrite F1, F2, F4, Hs, nremove_single. cbn [pd0 pd_key].
      split; [reflexivity|]. split; [reflexivity|]. split; [rewrite F3, Hh; apply nremove_single|].
      split; [reflexivity|]. apply abort_after_begin, Hp.
    + destruct (fill_ok sid w) as [w2|] eqn:Eok; [|discriminate].
      destruct (fill_ok_comp sid w _ w2 Hl Eok) as (F1 & F2 & F3 & F4 & F5).
      inversion H; subst r w'; clear H. cbn [h_close set_handles w_sets w_handles w_inner w_c].
      rewrite F2, F4, Hs, nremove_single.
      split; [reflexivity|]. split; [reflexivity|]. split; [rewrite F3, Hh; apply nremove_single|].
      split; [reflexivity|]. cbn [pd0 pd_key pd_hint pd_wr pd_total] in F1.
      destruct (nochunk_end_ok_spec id (-1) wr0 0 (w_c w) (w_c w2) Hp Hw F1) as (K1 & K2 & K3 & K4).
      split; [exact K1|]. split; [exact K2|]. split; [exact K3|]. intros k' N. exact (K4 k' N).
Qed.

Lemma firstn_short {A} n (l : list A) : length (firstn n l) < n -> firstn n l = l.
Proof. revert l; induction n as [|n IH]; intros [|x l] H; cbn in *; try lia; auto. f_equal. apply IH. lia. Qed.

Lemma firstn_empty_pos {A} n (l : list A) : firstn n l = [] -> 0 < n -> l = [].
Proof. destruct n, l; cbn; intros; try lia; auto. discriminate. Qed.

(* GetPart on a miss, read n bytes, Close: the fill is completed only if the read saw EOF, otherwise aborted *)
Lemma read_close_stream w id data sid wr0 n r w1 r2 w2 :
  SW w id data false sid wr0 ->
  step1 (ORead tmp_handle n) w = Some (r, w1) -> step1 (OClose tmp_handle) w1 = Some (r2, w2) ->
  r = RVal (firstn n data) /\ w_sets w2 = [] /\ w_handles w2 = [] /\ w_inner w2 = w_inner w /\
  setk id data (w_c w) (w_c w2).
Proof.
  intros (Hs & Hh & Hp & Hw) H H2. unfold step1 in H. rewrite Hh, nlookup_single in H.
  unfold would_hang in H. rewrite Hs, nlookup_single in H.
  cbn [h_read skipn andb Nat.add] in H.
  assert (nlookup sid (w_sets w) = Some (pd0 id wr0)) as Hl by (rewrite Hs; apply nlookup_single).
  set (c := firstn n data) in *.
  destruct (0 <? length c) eqn:Elen; cbn [andb] in H.
  - destruct (w_maxpart w <? length c) eqn:Eov; cbn [andb negb] in H.
    + (* over the threshold: aborted, reader inactive *)
      destruct (fill_fail_comp sid true w _ Hl) as (F1 & F2 & F3 & F4 & F5).
      rewrite andb_false_r in H. inversion H; subst r w1; clear H.
      unfold step1 in H2. cbn [set_handles w_handles] in H2. rewrite F3, Hh, nset_single, nlookup_single in H2.
      inversion H2; subst r2 w2; clear H2. cbn [h_close set_handles w_sets w_handles w_inner w_c].
      rewrite F1, F2, F4, Hs, nremove_single. cbn [pd0 pd_key].
      split; [reflexivity|]. split; [reflexivity|]. split; [first [reflexivity | apply nremove_single]|]. split; [reflexivity|].
      apply delk_setk, abort_after_begin, Hp.
    + destruct (feed_comp sid c w _ Hl eq_refl) as (G1 & (pd' & G2 & G3 & G4 & G5 & G6) & G7 & G8 & G9).
      set (wf := feed sid c w) in *.
      assert (nlookup sid (w_sets wf) = Some pd') as Hl1 by (rewrite G2; apply nlookup_nset_eq).
      destruct (length c <? n) eqn:Eeof; cbn [andb] in H.
      * (* the read saw EOF: the fill completes with the whole part *)
        destruct (fill_ok sid wf) as [w3|] eqn:Eok; [|discriminate].
        destruct (fill_ok_comp sid wf pd' w3 Hl1 Eok) as (F1 & F2 & F3 & F4 & F5).
        inversion H; subst r w1; clear H.
        unfold step1 in H2. cbn [set_handles w_handles] in H2. rewrite F3, G7, Hh, nset_single, nlookup_single in H2.
        inversion H2; subst r2 w2; clear H2. cbn [h_close set_handles w_sets w_handles w_inner w_c].
        rewrite F2, F4, G2, G8, Hs, nset_single, nremove_single.
        split; [reflexivity|]. split; [reflexivity|]. split; [first [reflexivity | apply nremove_single]|]. split; [reflexivity|].
        rewrite G3, G4, G5, G1 in F1. cbn [pd0 pd_key pd_hint pd_wr] in F1.
        assert (c = data) as Hc by (apply firstn_short, Nat.ltb_lt, Eeof). rewrite Hc in F1.
        destruct (chunk_end_ok_spec id (-1) wr0 data (pd_total pd') (w_c w) (w_c w3) Hp Hw F1) as (K1 & K2 & K3 & K4).
        split; [exact K1|]. split; [exact K2|]. split; [exact K3|]. intros k' N. exact (K4 k' N).
      * (* closed early: aborted *)
        inversion H; subst r w1; clear H.
        unfold step1 in H2. cbn [set_handles w_handles] in H2. rewrite G7, Hh, nset_single, nlookup_single in H2.
        inversion H2; subst r2 w2; clear H2. cbn [h_close set_handles w_sets w_handles w_inner w_c].
        assert (nlookup sid (w_sets (set_handles [(tmp_handle, HStream data (length c) (length c) true sid false)] wf)) = Some pd') as Hl2
          by exact Hl1.
        destruct (fill_fail_comp sid false _ _ Hl2) as (F1 & F2 & F3 & F4 & F5).
        rewrite F1, F2, F4. cbn [set_handles w_sets w_inner w_c]. rewrite G2, G3, G1, G8, Hs, nset_single, nremove_single.
        cbn [pd0 pd_key pd_wr].
        split; [reflexivity|]. split; [reflexivity|]. split; [first [reflexivity | apply nremove_single]|]. split; [reflexivity|].
        apply delk_setk, abort_after_chunk; assumption.
  - apply Nat.ltb_ge in Elen. assert (c = []) as Hc0 by (destruct c; [reflexivity | cbn in Elen; lia]).
    rewrite Hc0 in *. cbn [length] in H.
    destruct (0 <? n) eqn:Eeof; cbn [andb] in H.
    + (* empty part, EOF seen *)
      assert (data = []) as -> by (eapply firstn_empty_pos; [exact Hc0 | apply Nat.ltb_lt, Eeof]).
      destruct (fill_ok sid w) as [w3|] eqn:Eok; [|discriminate].
      destruct (fill_ok_comp sid w _ w3 Hl Eok) as (F1 & F2 & F3 & F4 & F5).
      inversion H; subst r w1; clear H.
      unfold step1 in H2. cbn [set_handles w_handles] in H2. rewrite F3, Hh, nset_single, nlookup_single in H2.
      inversion H2; subst r2 w2; clear H2. cbn [h_close set_handles w_sets w_handles w_inner w_c].
      rewrite F2, F4, Hs, nremove_single.
      split; [reflexivity|]. split; [reflexivity|]. split; [first [reflexivity | apply nremove_single]|]. split; [reflexivity|].
      cbn [pd0 pd_key pd_hint pd_wr pd_total] in F1.
      destruct (nochunk_end_ok_spec id (-1) wr0 0 (w_c w) (w_c w3) Hp Hw F1) as (K1 & K2 & K3 & K4).
      split; [exact K1|]. split; [exact K2|]. split; [exact K3|]. intros k' N. exact (K4 k' N).
    + (* nothing read (n = 0), closed: aborted *)
      inversion H; subst r w1; clear H.
      unfold step1 in H2. cbn [set_handles w_handles] in H2. rewrite Hh, nset_single, nlookup_single in H2.
      inversion H2; subst r2 w2; clear H2. cbn [h_close set_handles w_sets w_handles w_inner w_c].
      assert (nlookup sid (w_sets (set_handles [(tmp_handle, HStream data 0 0 true sid false)] w)) = Some (pd0 id wr0)) as Hl2
        by exact Hl.
      destruct (fill_fail_comp sid false _ _ Hl2) as (F1 & F2 & F3 & F4 & F5).
      rewrite F1, F2, F4. cbn [set_handles w_sets w_inner w_c]. rewrite Hs, nremove_single. cbn [pd0 pd_key].
      split; [reflexivity|]. split; [reflexivity|]. split; [first [reflexivity | apply nremove_single]|]. split; [reflexivity|].
      apply delk_setk, abort_after_begin, Hp.
Qed.

(* ---------- GetPart on a quiescent world ---------- *)
Definition fdata (f : fault) (data0 : bytes) : bytes := match f with FReadFail k => firstn k data0 | _ => data0 end.
Definition ftrunc (f : fault) (data0 : bytes) : bool := match f with FReadFail k => k <? length data0 | _ => false end.
Definition not_store_fault (f : fault) : Prop := match f with FStoreFail _ => False | _ => True end.

Inductive opened (w : world) (cur : list (bytes * bytes)) (id : bytes) (f : fault) : res -> world -> Prop :=
| op_hit v rd w1 :
    alookup id cur = Some v -> w_handles w1 = [(tmp_handle, HCache rd)] -> w_sets w1 = [] -> w_inner w1 = cur ->
    c_kind (w_c w1) = c_kind (w_c w) -> c_p (w_c w1) = c_p (w_c w) ->
    rd_rest rd (c_p (w_c w1)) = v -> (forall n, fst (rd_read rd n (c_p (w_c w1))) = firstn n v) ->
    opened w cur id f (ROpen B"h") w1
| op_err w1 : f = FOpenErr -> J w1 cur -> opened w cur id f RErr w1
| op_nf w1 : alookup id cur = None -> f <> FOpenErr -> J w1 cur -> opened w cur id f RNotFound w1
| op_inner data0 w1 :
    alookup id cur = Some data0 -> f <> FOpenErr ->
    w_handles w1 = [(tmp_handle, HInner (fdata f data0) 0 (ftrunc f data0))] -> w_sets w1 = [] -> w_inner w1 = cur ->
    pok (w_c w1) -> cache_sub (w_c w1) cur ->
    opened w cur id f (ROpen B"i") w1
| op_stream data0 sid wr0 w1 :
    alookup id cur = Some data0 -> f <> FOpenErr ->
    SW w1 id (fdata f data0) (ftrunc f data0) sid wr0 -> w_inner w1 = cur ->
    (forall k', k' <> id -> nos (w_c w) (w_c w1) k') ->
    opened w cur id f (ROpen B"s") w1.

Lemma J_same_p w w1 cur : J w cur -> c_kind (w_c w1) = c_kind (w_c w) -> c_p (w_c w1) = c_p (w_c w) ->
  pok (w_c w1) /\ cache_sub (w_c w1) cur.
Proof.
  intros (_ & _ & _ & Hp & Hc) Hk Hpp. unfold pok, cache_sub, clook in *. rewrite Hk, Hpp. auto.
Qed.

Lemma inner_view_false w : inner_view false w = w_inner w.
Proof. unfold inner_view. destruct (w_ikind w), (w_tx w); reflexivity. Qed.

Lemma inner_view_notsql b w : w_ikind w <> ISql -> inner_view b w = w_inner w.
Proof. unfold inner_view. destruct (w_ikind w), (w_tx w); try reflexivity; intros H; exfalso; apply H; reflexivity. Qed.

(* a reader that sees the committed inner content (every reader outside the write transaction; every reader of
   the filesystem store) *)
Lemma part_open_in_J intx w cur id f r w1 : J w cur -> not_store_fault f ->
  (forall w0, w_ikind w0 = w_ikind w -> w_tx w0 = w_tx w -> inner_view intx w0 = w_inner w0) ->
  part_open_in intx tmp_handle id f w = Some (r, w1) -> opened w cur id f r w1.
Proof.
  intros HJ Hf Hview H. pose proof HJ as (Hi & Hs & Hh & Hp & Hc).
  unfold part_open_in in H. rewrite Hh in H. cbn [nlookup] in H.
  pose proof (L_get id (w_c w)) as Hg. destruct (c_get id (w_c w)) as [c rd]. cbn [fst snd] in Hg.
  destruct Hg as (Hk & Hpp & Hr).
  assert (pok c /\ cache_sub c cur) as [Hpc Hcc].
  { apply (J_same_p w (set_c c w) cur HJ); assumption. }
  destruct rd as [rd|].
  - destruct Hr as (v & Hv & Hrest & Hread). inversion H; subst r w1; clear H.
    eapply op_hit with (v := v) (rd := rd); cbn [set_handles set_c w_handles w_sets w_inner w_c];
      [apply Hc, Hv | rewrite Hh; reflexivity | exact Hs | exact Hi | exact Hk | exact Hpp
      | rewrite Hpp; exact Hrest | rewrite Hpp; exact Hread].
  - assert (J (set_c c w) cur) as HJ1 by (repeat split; auto).
    rewrite (Hview (set_c c w) eq_refl eq_refl) in H.
    cbn [set_c w_inner w_hints w_c w_handles w_sets w_nextsid] in H. rewrite Hi in H.
    destruct f as [|k| |j]; try contradiction.
    + (* no fault *)
      destruct (alookup id cur) as [data0|] eqn:Ecur; [|inversion H; subst; apply op_nf; [exact Ecur | discriminate | exact HJ1]].
      cbv zeta in H. destruct (mem_bytes id (w_hints w)).
      * inversion H; subst r w1; clear H. eapply op_inner with (data0 := data0); cbn; auto; try discriminate.
        rewrite Hh. reflexivity.
      * destruct (c_begin id (-1) c) as [[c2 wr0]|] eqn:Eb; [|discriminate]. inversion H; subst r w1; clear H.
        destruct (begin_spec _ _ _ _ _ Hpc Eb) as (B1 & B2 & B3 & B4).
        eapply op_stream with (data0 := data0) (sid := w_nextsid w) (wr0 := wr0); auto; try discriminate.
        -- split; [cbn; rewrite Hs; reflexivity|]. split; [cbn; rewrite Hh; reflexivity|]. split; [exact B2 | exact B3].
        -- intros k' N. cbn. unfold nos, clook in *. rewrite <- Hk, <- Hpp. apply B4, N.
    + (* inner reader fails after k bytes *)
      destruct (alookup id cur) as [data0|] eqn:Ecur; [|inversion H; subst; apply op_nf; [exact Ecur | discriminate | exact HJ1]].
      cbv zeta in H. destruct (mem_bytes id (w_hints w)).
      * inversion H; subst r w1; clear H. eapply op_inner with (data0 := data0); cbn; auto; try discriminate.
        rewrite Hh. reflexivity.
      * destruct (c_begin id (-1) c) as [[c2 wr0]|] eqn:Eb; [|discriminate]. inversion H; subst r w1; clear H.
        destruct (begin_spec _ _ _ _ _ Hpc Eb) as (B1 & B2 & B3 & B4).
        eapply op_stream with (data0 := data0) (sid := w_nextsid w) (wr0 := wr0); auto; try discriminate.
        -- split; [cbn; rewrite Hs; reflexivity|]. split; [cbn; rewrite Hh; reflexivity|]. split; [exact B2 | exact B3].
        -- intros k' N. cbn. unfold nos, clook in *. rewrite <- Hk, <- Hpp. apply B4, N.
    + inversion H; subst. apply op_err; [reflexivity | exact HJ1].
Qed.

Lemma part_open_J w cur id f r w1 : J w cur -> not_store_fault f ->
  part_open tmp_handle id f w = Some (r, w1) -> opened w cur id f r w1.
Proof. intros HJ Hf H. eapply part_open_in_J; eauto. intros w0 _ _. apply inner_view_false. Qed.

Lemma aremove_absent {A} k (l : list (bytes * A)) : alookup k l = None -> aremove k l = l.
Proof.
  induction l as [|[k' v] l IH]; cbn; [reflexivity|]. destruct (bytes_eqb k k'); [discriminate|].
  intros H. rewrite IH by exact H. reflexivity.
Qed.

Lemma setk_trans_open id v c c1 c2 :
  (forall k', k' <> id -> nos c c1 k') -> setk id v c1 c2 -> c_kind c1 = c_kind c ->
  pok c2 /\ (clook c2 id = Some v \/ clook c2 id = None) /\ forall k', k' <> id -> nos c c2 k'.
Proof.
  intros Hn (S1 & S2 & S3 & S4) Hk. split; [exact S2|]. split; [exact S3|].
  intros k' N. eapply nos_trans; [apply Hn, N | apply S4, N].
Qed.

Lemma sub_from id v c c2 cur : cache_sub c cur -> alookup id cur = Some v ->
  (clook c2 id = Some v \/ clook c2 id = None) -> (forall k', k' <> id -> nos c c2 k') -> cache_sub c2 cur.
Proof.
  intros H Hc Hv Hn k v' E. destruct (bytes_eq_dec k id) as [->|N].
  - destruct Hv as [F|F]; congruence.
  - destruct (Hn k N) as [F|F]; [congruence|]. apply H. congruence.
Qed.

Lemma fdata_full f data0 : ftrunc f data0 = false -> fdata f data0 = data0.
Proof.
  destruct f; cbn; auto. intros H. apply Nat.ltb_ge in H. apply firstn_all2. exact H.
Qed.

(* GetPart + ReadAll + Close *)
Lemma finish_opened w cur id f r1 w1 r w' : J w cur -> opened w cur id f r1 w1 ->
  match r1 with ROpen _ => step1 (OFinish tmp_handle) w1 | _ => Some (r1, w1) end = Some (r, w') ->
  get_ok cur (PGetF id f) r /\ J w' cur.
Proof.
  intros HJ Ho H. pose proof HJ as (Hi & Hs & Hh & Hp & Hc).
  destruct Ho as [v rd w1 Hv H1 H2 H3 H4 H5 H6 H7 | w1 Hf HJ1 | w1 Hn Hf HJ1
                 | data0 w1 Hv Hf H1 H2 H3 H4 H5 | data0 sid wr0 w1 Hv Hf HS H3 Hnos].
  - (* cache hit *)
    unfold step1 in H. rewrite H1, nlookup_single in H. cbn [would_hang h_read] in H. rewrite H6 in H.
    inversion H; subst r w'; clear H.
    split; [cbn; rewrite Hv; destruct f as [|k| |j]; auto|].
    destruct (J_same_p w w1 cur HJ H4 H5) as [Q1 Q2].
    split; [exact H3|]. split; [exact H2|]. split; [cbn; rewrite H1; reflexivity|]. split; assumption.
  - inversion H; subst r w' f; clear H. split; [cbn; destruct (alookup id cur); auto | exact HJ1].
  - inversion H; subst r w'; clear H. split; [|exact HJ1]. cbn. rewrite Hn. destruct f as [|k| |j]; auto. contradiction.
  - (* pass-through (oversize hint) *)
    unfold step1 in H. rewrite H1, nlookup_single in H. cbn [would_hang h_read skipn Nat.add andb] in H.
    inversion H; subst r w'; clear H.
    split.
    + destruct f as [|k| |j]; try (exfalso; apply Hf; reflexivity); unfold get_ok, fdata, ftrunc; try rewrite Hv; cbn [andb];
        [reflexivity | | exact I].
      destruct (k <? length data0) eqn:E; [right; split; [apply Nat.ltb_lt, E | reflexivity]|].
      left. rewrite firstn_all2; [reflexivity | apply Nat.ltb_ge, E].
    + split; [exact H3|]. split; [exact H2|]. split; [cbn; rewrite H1; reflexivity|]. split; assumption.
  - (* miss fill *)
    destruct (finish_stream _ _ _ _ _ _ _ _ HS H) as (Hr & F1 & F2 & F3 & F4). subst r.
    destruct HS as (_ & _ & HS3 & _).
    assert (setk id data0 (w_c w1) (w_c w')) as Hset.
    { destruct (ftrunc f data0) eqn:Et; [apply delk_setk, F4|]. rewrite (fdata_full _ _ Et) in F4. exact F4. }
    split.
    + destruct f as [|k| |j]; try (exfalso; apply Hf; reflexivity); unfold get_ok, fdata, ftrunc; try rewrite Hv;
        [reflexivity | | exact I].
      destruct (k <? length data0) eqn:E; [right; split; [apply Nat.ltb_lt, E | reflexivity]|].
      left. rewrite firstn_all2; [reflexivity | apply Nat.ltb_ge, E].
    + destruct Hset as (S1 & S2 & S3 & S4).
      split; [rewrite F3; exact H3|]. split; [exact F1|]. split; [exact F2|]. split; [exact S2|].
      eapply sub_from; [exact Hc | exact Hv | exact S3|].
      intros k' N. eapply nos_trans; [apply Hnos, N | apply S4, N].
Qed.

(* GetPart, read n bytes, Close *)
Lemma close_opened w cur id n r1 w1 r w' : J w cur -> opened w cur id FNone r1 w1 ->
  match r1 with
  | ROpen _ => match step1 (ORead tmp_handle n) w1 with
               | None => None
               | Some (r, w2) => match step1 (OClose tmp_handle) w2 with None => None | Some (_, w3) => Some (r, w3) end
               end
  | _ => Some (r1, w1)
  end = Some (r, w') ->
  get_ok cur (PGetClose id n) r /\ J w' cur.
Proof.
  intros HJ Ho H. pose proof HJ as (Hi & Hs & Hh & Hp & Hc).
  destruct Ho as [v rd w1 Hv H1 H2 H3 H4 H5 H6 H7 | w1 Hf HJ1 | w1 Hn Hf HJ1
                 | data0 w1 Hv Hf H1 H2 H3 H4 H5 | data0 sid wr0 w1 Hv Hf HS H3 Hnos].
  - unfold step1 in H. rewrite H1, nlookup_single in H. cbn [would_hang h_read] in H.
    pose proof (H7 n) as Hrd. destruct (rd_read rd n (c_p (w_c w1))) as [c rd']. cbn [fst] in Hrd. subst c.
    cbn [set_handles w_handles] in H. rewrite H1, nset_single, nlookup_single in H.
    inversion H; subst r w'; clear H.
    split; [cbn; rewrite Hv; reflexivity|].
    destruct (J_same_p w w1 cur HJ H4 H5) as [Q1 Q2].
    split; [exact H3|]. split; [exact H2|]. split; [reflexivity|]. split; assumption.
  - discriminate Hf.
  - inversion H; subst r w'; clear H. split; [cbn; rewrite Hn; reflexivity | exact HJ1].
  - unfold step1 in H. rewrite H1, nlookup_single in H. cbn [would_hang h_read skipn Nat.add andb fdata ftrunc] in H.
    rewrite andb_false_r in H. cbn [set_handles w_handles] in H. rewrite H1, nset_single, nlookup_single in H.
    inversion H; subst r w'; clear H.
    split; [cbn; rewrite Hv; reflexivity|].
    split; [exact H3|]. split; [exact H2|]. split; [reflexivity|]. split; assumption.
  - destruct (step1 (ORead tmp_handle n) w1) as [[r0 w2]|] eqn:E1; [|discriminate].
    destruct (step1 (OClose tmp_handle) w2) as [[r2 w3]|] eqn:E2; [|discriminate].
    inversion H; subst r0 w3; clear H.
    destruct (read_close_stream _ _ _ _ _ _ _ _ _ _ HS E1 E2) as (Hr & F1 & F2 & F3 & (S1 & S2 & S3 & S4)).
    split; [cbn; rewrite Hv; exact Hr|].
    split; [rewrite F3; exact H3|]. split; [exact F1|]. split; [exact F2|]. split; [exact S2|].
    eapply sub_from; [exact Hc | exact Hv | exact S3|].
    intros k' N. eapply nos_trans; [apply Hnos, N | apply S4, N].
Qed.

Lemma J_init kd pl mp : J (w_init kd pl mp) [].
Proof.
  repeat split; auto.
  - unfold pok, p_ok. cbn. destruct kd; [exact I|]. split; cbn; intros; discriminate.
  - intros id v H. unfold clook, plook in H. cbn in H. destruct kd; discriminate.
Qed.

Lemma delk_twice k c c1 c2 : delk k c c1 -> delk k c1 c2 -> delk k c c2.
Proof.
  intros (A1 & A2 & A3 & A4) (B1 & B2 & B3 & B4). split; [congruence|]. split; [exact B2|]. split; [exact B3|].
  intros k' N. eapply nos_trans; [apply A4, N | apply B4, N].
Qed.

(* one operation of a non-overlapping part-store history *)
Lemma step_J o w cur r w' : part_seq_op o = true -> J w cur -> step o w = Some (r, w') ->
  get_ok cur o r /\ J w' (pstep cur o).
Proof.
  intros Ho HJ H. pose proof HJ as (Hi & Hs & Hh & Hp & Hc).
  destruct o; try discriminate Ho; cbn [step step1] in H; cbn [pstep get_ok].
  - (* PPut *)
    split; [exact I|]. destruct (length v <=? w_maxpart w).
    + cbn [clear_hint set_inner set_hints w_c] in H.
      destruct (c_set id v (Z.of_nat (length v)) None (w_c w)) as [c|] eqn:E; [|discriminate]. inversion H; subst r w'; clear H.
      pose proof (L_set _ _ _ _ _ Hp E) as Hset. destruct Hset as (S1 & S2 & S3 & S4).
      split; [cbn; try rewrite Hi; reflexivity|]. split; [exact Hs|]. split; [exact Hh|]. split; [exact S2|].
      apply (sub_setk_aset id v (w_c w)); [exact Hc | repeat split; assumption].
    + inversion H; subst r w'; clear H. cbn [mark_hint set_inner set_hints set_c w_c w_inner w_sets w_handles].
      pose proof (L_remove id (w_c w) Hp) as Hd.
      split; [cbn; try rewrite Hi; reflexivity|]. split; [exact Hs|]. split; [exact Hh|]. split; [apply Hd|].
      apply (sub_setk_aset id v (w_c w)); [exact Hc | apply delk_setk, Hd].
  - (* PInner *)
    split; [exact I|]. rewrite Hi in H. destruct (alookup id cur) as [v0|] eqn:E; inversion H; subst r w'; clear H; [exact HJ|].
    split; [cbn; try rewrite Hi; reflexivity|]. split; [exact Hs|]. split; [exact Hh|]. split; [exact Hp|].
    intros k v' Hk. destruct (bytes_eq_dec k id) as [->|N].
    + apply Hc in Hk. congruence.
    + rewrite alookup_aset_neq by congruence. apply Hc, Hk.
  - (* PDelete *)
    split; [exact I|]. rewrite Hi in H. destruct (alookup id cur) as [v0|] eqn:E; inversion H; subst r w'; clear H.
    + cbn [clear_hint set_inner set_hints set_c w_c w_inner w_sets w_handles].
      pose proof (L_remove id (w_c w) Hp) as Hd.
      split; [cbn; try rewrite Hi; reflexivity|]. split; [exact Hs|]. split; [exact Hh|]. split; [apply Hd|].
      apply (sub_delk_aremove id (w_c w)); assumption.
    + rewrite (aremove_absent _ _ E). exact HJ.
  - (* PGet *)
    change (step1 (POpen tmp_handle id) w) with (part_open tmp_handle id FNone w) in H.
    destruct (part_open tmp_handle id FNone w) as [[r1 w1]|] eqn:E; [|discriminate].
    pose proof (part_open_J w cur id FNone r1 w1 HJ I E) as Hop.
    apply (finish_opened w cur id FNone r1 w1 r w' HJ Hop). destruct r1; exact H.
  - (* PGetF *)
    change (step1 (POpenF tmp_handle id f) w) with (part_open tmp_handle id f w) in H.
    destruct (part_open tmp_handle id f w) as [[r1 w1]|] eqn:E; [|discriminate].
    assert (not_store_fault f) as Hf by (destruct f; try exact I; discriminate Ho).
    pose proof (part_open_J w cur id f r1 w1 HJ Hf E) as Hop.
    apply (finish_opened w cur id f r1 w1 r w' HJ Hop). destruct r1; exact H.
  - (* PGetClose *)
    change (step1 (POpen tmp_handle id) w) with (part_open tmp_handle id FNone w) in H.
    destruct (part_open tmp_handle id FNone w) as [[r1 w1]|] eqn:E; [|discriminate].
    pose proof (part_open_J w cur id FNone r1 w1 HJ I E) as Hop.
    apply (close_opened w cur id n r1 w1 r w' HJ Hop). destruct r1; exact H.
  - (* PPutFail *) inversion H; subst. split; [reflexivity | exact HJ].
  - (* PDeleteFail *) inversion H; subst. split; [reflexivity | exact HJ].
  - (* PPutStoreFail *)
    split; [exact I|]. destruct (length v <=? w_maxpart w).
    + cbn [clear_hint set_inner set_hints w_c] in H.
      destruct (j <=? length v).
      * destruct (c_set id v (Z.of_nat (length v)) (Some (if j =? 0 then 0 else length v)) (w_c w)) as [c|] eqn:E; [|discriminate].
        inversion H; subst r w'; clear H.
        pose proof (L_set_fail _ _ _ _ _ _ Hp E) as Hd1. pose proof Hd1 as (_ & Hpc & _).
        pose proof (delk_twice _ _ _ _ Hd1 (L_remove id c Hpc)) as Hd.
        split; [cbn; try rewrite Hi; reflexivity|]. split; [exact Hs|]. split; [exact Hh|]. split; [apply Hd|].
        apply (sub_setk_aset id v (w_c w)); [exact Hc | apply delk_setk, Hd].
      * destruct (c_set id v (Z.of_nat (length v)) None (w_c w)) as [c|] eqn:E; [|discriminate]. inversion H; subst r w'; clear H.
        pose proof (L_set _ _ _ _ _ Hp E) as (S1 & S2 & S3 & S4).
        split; [cbn; try rewrite Hi; reflexivity|]. split; [exact Hs|]. split; [exact Hh|]. split; [exact S2|].
        apply (sub_setk_aset id v (w_c w)); [exact Hc | repeat split; assumption].
    + inversion H; subst r w'; clear H. cbn [mark_hint set_inner set_hints set_c w_c w_inner w_sets w_handles].
      pose proof (L_remove id (w_c w) Hp) as Hd.
      split; [cbn; try rewrite Hi; reflexivity|]. split; [exact Hs|]. split; [exact Hh|]. split; [apply Hd|].
      apply (sub_setk_aset id v (w_c w)); [exact Hc | apply delk_setk, Hd].
Qed.

Lemma run_J ops : forall w cur rs, forallb part_seq_op ops = true -> J w cur -> run ops w = Some rs -> part_sound cur ops rs.
Proof.
  induction ops as [|o ops IH]; intros w cur rs Ho HJ H; cbn in H.
  - inversion H; subst. exact I.
  - cbn in Ho. apply andb_true_iff in Ho as [Ho1 Ho2].
    destruct (step o w) as [[r w']|] eqn:E; [|discriminate].
    destruct (run ops w') as [rs'|] eqn:E2; [|discriminate]. inversion H; subst rs; clear H.
    destruct (step_J _ _ _ _ _ Ho1 HJ E) as [Hg HJ']. cbn [part_sound]. split; [exact Hg | eapply IH; eassumption].
Qed.

Lemma part_sound_seq kd pl mp ops rs :
  forallb part_seq_op ops = true -> run ops (w_init kd pl mp) = Some rs -> part_sound [] ops rs.
Proof. intros Ho H. eapply run_J; [exact Ho | apply J_init | exact H]. Qed.
