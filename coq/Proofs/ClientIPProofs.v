(* Proofs/ClientIPProofs.v — facts about the trusted-proxy decision (Model/ClientIP.v) *)
From Verif Require Import Bytes Codec ClientIP.
From Coq Require Import ZifyBool ZifyN ZifyNat.
Local Open Scope N_scope.

Lemma mask_to_eq bits n a b :
  mask_to bits n a = mask_to bits n b <-> a / 2 ^ (bits - n) = b / 2 ^ (bits - n).
Proof.
  unfold mask_to. rewrite !N.shiftl_mul_pow2, !N.shiftr_div_pow2.
  apply N.mul_cancel_r. apply N.pow_nonzero. discriminate.
Qed.

Lemma In_parse_cidrs c cfg : In c (parse_cidrs cfg) <-> In (Some c) cfg.
Proof.
  induction cfg as [|[d|] t IH]; cbn; [tauto| |].
  - rewrite IH. split; intros [H|H]; auto; [left; congruence | left; congruence].
  - rewrite IH. split; [auto | intros [H|H]; [discriminate | exact H]].
Qed.

Lemma parse_cidrs_nil_iff cfg : parse_cidrs cfg = [] <-> forall e, In e cfg -> e = None.
Proof.
  induction cfg as [|[d|] t IH]; cbn.
  - split; [intros _ e [] | reflexivity].
  - split; [discriminate|]. intros H. specialize (H (Some d) (or_introl eq_refl)). discriminate.
  - rewrite IH. split.
    + intros H e [<-|He]; [reflexivity | apply H; exact He].
    + intros H e He. apply H. right. exact He.
Qed.

Section WithParser.
Variable pip : bytes -> option N.

(* exact description of isTrustedProxy on the parsed configuration *)
Lemma is_trusted_spec remote cfg :
  is_trusted_proxy pip remote (parse_cidrs cfg) = true <->
  exists t p, remote = Some t /\ pip t = Some p /\
              (parse_cidrs cfg = [] \/ exists c, In (Some c) cfg /\ contains c p = true).
Proof.
  unfold is_trusted_proxy, is_trusted_proxy_gen. destruct remote as [t|].
  2:{ split; [discriminate | intros (t & p & H & _); discriminate]. }
  destruct (pip t) as [p|] eqn:Ep.
  2:{ split; [discriminate | intros (t' & p & H & Hp & _)]. inversion H; subst. congruence. }
  destruct (parse_cidrs cfg) as [|c0 rest] eqn:Ec.
  - cbn. split; [intros _; exists t, p; auto | reflexivity].
  - cbn [is_nil]. rewrite existsb_exists. split.
    + intros (c & Hin & Hc). exists t, p. split; [reflexivity|]. split; [exact Ep|]. right.
      exists c. split; [|exact Hc]. apply In_parse_cidrs. rewrite Ec. exact Hin.
    + intros (t' & p' & Ht & Hp & [Hnil | (c & Hin & Hc)]); [discriminate|].
      inversion Ht; subst t'. rewrite Ep in Hp. inversion Hp; subst p'.
      exists c. split; [|exact Hc]. rewrite <- Ec. apply In_parse_cidrs. exact Hin.
Qed.

Lemma resolve_untrusted trust cfg q :
  trust = false \/ is_trusted_proxy pip (q_remote q) (parse_cidrs cfg) = false ->
  resolve pip trust cfg q = (Peer, default_scheme q).
Proof.
  intros H. unfold resolve, resolve_gen. fold (is_trusted_proxy pip (q_remote q) (parse_cidrs cfg)).
  destruct trust; destruct (is_trusted_proxy pip (q_remote q) (parse_cidrs cfg)); cbn;
    try reflexivity; destruct H; discriminate.
Qed.

Lemma resolve_changed_trusted trust cfg q :
  resolve pip trust cfg q <> (Peer, default_scheme q) ->
  trust = true /\ is_trusted_proxy pip (q_remote q) (parse_cidrs cfg) = true.
Proof.
  intros H. destruct trust eqn:Et.
  - destruct (is_trusted_proxy pip (q_remote q) (parse_cidrs cfg)) eqn:E; [auto|].
    exfalso. apply H. apply resolve_untrusted. right. exact E.
  - exfalso. apply H. apply resolve_untrusted. left. reflexivity.
Qed.

(* what the code does, for every configuration *)
Lemma trust_decision_stmt : forall trust cfg q,
  resolve pip trust cfg q <> (Peer, default_scheme q) ->
  trust = true /\
  exists t p, q_remote q = Some t /\ pip t = Some p /\
    ((forall e, In e cfg -> e = None) \/ exists c, In (Some c) cfg /\ contains c p = true).
Proof.
  intros trust cfg q H. destruct (resolve_changed_trusted trust cfg q H) as [Ht Htr].
  split; [exact Ht|]. apply is_trusted_spec in Htr. destruct Htr as (t & p & Hr & Hp & Hc).
  exists t, p. split; [exact Hr|]. split; [exact Hp|].
  destruct Hc as [Hn|Hc]; [left; apply parse_cidrs_nil_iff; exact Hn | right; exact Hc].
Qed.

Lemma forwarded_only_if_trusted_partial_stmt : forall trust cfg q,
  (cfg = [] \/ exists c, In (Some c) cfg) ->
  resolve pip trust cfg q <> (Peer, default_scheme q) ->
  trust = true /\
  exists t p, q_remote q = Some t /\ pip t = Some p /\
    (cfg = [] \/ exists c, In (Some c) cfg /\ contains c p = true).
Proof.
  intros trust cfg q Husable H. destruct (trust_decision_stmt trust cfg q H) as (Ht & t & p & Hr & Hp & Hc).
  split; [exact Ht|]. exists t, p. split; [exact Hr|]. split; [exact Hp|].
  destruct Hc as [Hall|Hc]; [|right; exact Hc].
  destruct Husable as [->|(c & Hin)]; [left; reflexivity|]. specialize (Hall _ Hin). discriminate.
Qed.

Lemma unusable_list_partial_stmt : forall trust cfg q,
  (forall t p, q_remote q = Some t -> pip t = Some p -> forall c, In (Some c) cfg -> contains c p = false) ->
  (exists c, In (Some c) cfg) ->
  resolve pip trust cfg q = (Peer, default_scheme q).
Proof.
  intros trust cfg q Hnone (c0 & Hc0). apply resolve_untrusted. right.
  destruct (is_trusted_proxy pip (q_remote q) (parse_cidrs cfg)) eqn:E; [|reflexivity].
  apply is_trusted_spec in E. destruct E as (t & p & Hr & Hp & [Hn|(c & Hin & Hc)]).
  - pose proof (proj1 (parse_cidrs_nil_iff cfg) Hn _ Hc0) as Hx. discriminate.
  - rewrite (Hnone t p Hr Hp c Hin) in Hc. discriminate.
Qed.

Lemma forwarded_value_origin_stmt : forall trust cfg q p s,
  resolve pip trust cfg q = (Fwd p, s) ->
  (exists v, header_value (q_cf q) = Some v /\ pip (trim_space v) = Some p) \/
  (header_value (q_cf q) = None /\
   exists v, header_value (q_xff q) = Some v /\ pip (trim_space (first_part v)) = Some p).
Proof.
  intros trust cfg q p s. unfold resolve, resolve_gen.
  destruct (negb trust || negb (is_trusted_proxy_gen pip (is_nil (parse_cidrs cfg)) (q_remote q) (parse_cidrs cfg))); [discriminate|].
  destruct (header_value (q_cf q)) as [v|].
  - destruct (pip (trim_space v)) as [p'|] eqn:E; intros H; inversion H; subst. left. exists v. auto.
  - destruct (header_value (q_xff q)) as [v|]; [|discriminate].
    unfold parse_forwarded_client_ip. destruct (pip (trim_space (first_part v))) as [p'|] eqn:E;
      intros H; inversion H; subst. right. split; [reflexivity|]. exists v. auto.
Qed.

Lemma scheme_values_stmt : forall trust cfg q,
  snd (resolve pip trust cfg q) = default_scheme q \/
  (trust = true /\ exists v, header_value (q_proto q) = Some v /\
     snd (resolve pip trust cfg q) = to_lower (trim_space (first_part v)) /\
     (snd (resolve pip trust cfg q) = B"http" \/ snd (resolve pip trust cfg q) = B"https")).
Proof.
  intros trust cfg q. unfold resolve, resolve_gen.
  destruct trust; cbn [negb orb]; [|left; reflexivity].
  destruct (negb (is_trusted_proxy_gen pip (is_nil (parse_cidrs cfg)) (q_remote q) (parse_cidrs cfg))); [left; reflexivity|].
  cbn [snd]. destruct (header_value (q_proto q)) as [v|]; [|left; reflexivity].
  unfold parse_forwarded_scheme.
  destruct (bytes_eqb (to_lower (trim_space (first_part v))) B"http") eqn:E1.
  - right. split; [reflexivity|]. exists v. cbn [orb]. apply bytes_eqb_eq in E1. auto.
  - destruct (bytes_eqb (to_lower (trim_space (first_part v))) B"https") eqn:E2; cbn [orb]; [|left; reflexivity].
    right. split; [reflexivity|]. exists v. apply bytes_eqb_eq in E2. auto.
Qed.
End WithParser.

(* IPNet.Contains is prefix matching within one address family *)
Lemma contains_prefix_match_stmt : forall c p,
  contains c p = true <->
  if c_v4 c then
    is_v4 p = true /\ low32 p / 2 ^ (32 - c_len c) = low32 (c_addr c) / 2 ^ (32 - c_len c)
  else if is_v4 (mask_to 128 (c_len c) (c_addr c)) then
    is_v4 p = true /\
    low32 p / 2 ^ (32 - (c_len c - 96)) = low32 (mask_to 128 (c_len c) (c_addr c)) / 2 ^ (32 - (c_len c - 96))
  else
    is_v4 p = false /\ p / 2 ^ (128 - c_len c) = c_addr c / 2 ^ (128 - c_len c).
Proof.
  intros c p. unfold contains. destruct (c_v4 c).
  - rewrite andb_true_iff, N.eqb_eq, mask_to_eq. reflexivity.
  - destruct (is_v4 (mask_to 128 (c_len c) (c_addr c))).
    + rewrite andb_true_iff, N.eqb_eq, mask_to_eq. reflexivity.
    + rewrite andb_true_iff, negb_true_iff, N.eqb_eq.
      change (mask_to 128 (c_len c) (c_addr c)) with (mask_to 128 (c_len c) (c_addr c)).
      rewrite mask_to_eq. reflexivity.
Qed.

(* ---- the refuting configuration: one entry, unusable ---- *)
Definition wit_pip (t : bytes) : option N :=
  if bytes_eqb t B"203.0.113.9" then Some 281474087547145      (* ::ffff:203.0.113.9, an arbitrary internet host *)
  else if bytes_eqb t B"10.0.0.1" then Some 281470849515521     (* ::ffff:10.0.0.1 *)
  else None.
Definition wit_req : request :=
  mkReq (Some B"203.0.113.9") B"http" None (Some [B"10.0.0.1"]) (Some [B"https"]).

Lemma wit_resolves : resolve wit_pip true [None] wit_req = (Fwd 281470849515521, B"https").
Proof. vm_compute. reflexivity. Qed.

Definition forwarded_only_if_trusted_full_stmt (fixed : bool) : Prop :=
  forall (pip : bytes -> option N) trust cfg q,
  resolve_gen pip fixed trust cfg q <> (Peer, default_scheme q) ->
  trust = true /\
  exists t p, q_remote q = Some t /\ pip t = Some p /\
    (cfg = [] \/ exists c, In (Some c) cfg /\ contains c p = true).

Definition unusable_list_trusts_nobody_full_stmt (fixed : bool) : Prop :=
  forall (pip : bytes -> option N) trust cfg q,
  cfg <> [] -> (forall e, In e cfg -> e = None) ->
  resolve_gen pip fixed trust cfg q = (Peer, default_scheme q).

Lemma forwarded_only_if_trusted_refuted_stmt : ~ forwarded_only_if_trusted_full_stmt false.
Proof.
  intros H. destruct (H wit_pip true [None] wit_req) as (_ & t & p & _ & _ & [Hc|(c & Hin & _)]).
  - fold (resolve wit_pip). rewrite wit_resolves. discriminate.
  - discriminate.
  - destruct Hin as [E|[]]; discriminate.
Qed.

Lemma unusable_list_trusts_nobody_refuted_stmt : ~ unusable_list_trusts_nobody_full_stmt false.
Proof.
  intros H. specialize (H wit_pip true [None] wit_req ltac:(discriminate)).
  fold (resolve wit_pip) in H. rewrite wit_resolves in H. assert (forall e, In e [@None cidr] -> e = None) as Hall.
  { intros e [<-|[]]; reflexivity. }
  specialize (H Hall). discriminate.
Qed.

Lemma refuting_witness_stmt :
  resolve wit_pip true [None] wit_req = (Fwd 281470849515521, B"https") /\
  q_remote wit_req = Some B"203.0.113.9" /\ default_scheme wit_req = B"http".
Proof. split; [exact wit_resolves|]. split; reflexivity. Qed.

Lemma untrusted_unchanged_stmt : forall (pip : bytes -> option N) trust cfg q,
  trust = false \/ q_remote q = None \/ (exists t, q_remote q = Some t /\ pip t = None) ->
  resolve pip trust cfg q = (Peer, default_scheme q).
Proof.
  intros pip trust cfg q [H|[H|(t & Ht & Hp)]]; apply resolve_untrusted.
  - left; exact H.
  - right. unfold is_trusted_proxy, is_trusted_proxy_gen. rewrite H. reflexivity.
  - right. unfold is_trusted_proxy, is_trusted_proxy_gen. rewrite Ht, Hp. reflexivity.
Qed.

(* ---- the repaired decision (fixes/C32-unusable-list-fails-closed.patch) ---- *)
Lemma fixed_trusted_spec (pip : bytes -> option N) remote cfg :
  is_trusted_proxy_gen pip (is_nil cfg) remote (parse_cidrs cfg) = true <->
  exists t p, remote = Some t /\ pip t = Some p /\
              (cfg = [] \/ exists c, In (Some c) cfg /\ contains c p = true).
Proof.
  unfold is_trusted_proxy_gen. destruct remote as [t|].
  2:{ split; [discriminate | intros (t & p & H & _); discriminate]. }
  destruct (pip t) as [p|] eqn:Ep.
  2:{ split; [discriminate | intros (t' & p & H & Hp & _)]. inversion H; subst. congruence. }
  destruct cfg as [|e rest] eqn:Ec.
  - cbn. split; [intros _; exists t, p; auto | reflexivity].
  - cbn [is_nil]. rewrite existsb_exists. rewrite <- Ec. split.
    + intros (c & Hin & Hc). exists t, p. split; [reflexivity|]. split; [exact Ep|]. right.
      exists c. split; [|exact Hc]. apply In_parse_cidrs. exact Hin.
    + intros (t' & p' & Ht & Hp & [Hnil | (c & Hin & Hc)]); [subst; discriminate|].
      inversion Ht; subst t'. rewrite Ep in Hp. inversion Hp; subst p'.
      exists c. split; [|exact Hc]. apply In_parse_cidrs. exact Hin.
Qed.

Lemma fixed_forwarded_only_if_trusted_stmt : forwarded_only_if_trusted_full_stmt true.
Proof.
  intros pip trust cfg q H. unfold resolve_gen in H.
  destruct trust; cbn [negb orb] in H; [|exfalso; apply H; reflexivity].
  split; [reflexivity|].
  destruct (is_trusted_proxy_gen pip (is_nil cfg) (q_remote q) (parse_cidrs cfg)) eqn:E;
    [|exfalso; apply H; reflexivity].
  apply fixed_trusted_spec in E. exact E.
Qed.

Lemma fixed_unusable_list_trusts_nobody_stmt : unusable_list_trusts_nobody_full_stmt true.
Proof.
  intros pip trust cfg q Hne Hall. unfold resolve_gen.
  destruct (is_trusted_proxy_gen pip (is_nil cfg) (q_remote q) (parse_cidrs cfg)) eqn:E.
  - exfalso. apply fixed_trusted_spec in E. destruct E as (t & p & _ & _ & [Hn|(c & Hin & _)]).
    + contradiction.
    + specialize (Hall _ Hin). discriminate.
  - destruct trust; reflexivity.
Qed.

(* ---- statements that hold for both variants of the decision ---- *)
Lemma resolve_gen_untrusted (pip : bytes -> option N) (fixed trust : bool) (cfg : list (option cidr)) (q : request) :
  trust = false \/
  is_trusted_proxy_gen pip (if fixed then is_nil cfg else is_nil (parse_cidrs cfg)) (q_remote q) (parse_cidrs cfg) = false ->
  resolve_gen pip fixed trust cfg q = (Peer, default_scheme q).
Proof.
  intros H. unfold resolve_gen.
  destruct trust; cbn [negb orb]; [|reflexivity].
  destruct H as [H|H]; [discriminate|]. rewrite H. reflexivity.
Qed.

Lemma untrusted_unchanged_gen_stmt : forall (pip : bytes -> option N) fixed trust cfg q,
  trust = false \/ q_remote q = None \/ (exists t, q_remote q = Some t /\ pip t = None) ->
  resolve_gen pip fixed trust cfg q = (Peer, default_scheme q).
Proof.
  intros pip fixed trust cfg q [H|[H|(t & Ht & Hp)]]; apply resolve_gen_untrusted.
  - left; exact H.
  - right. unfold is_trusted_proxy_gen. rewrite H. reflexivity.
  - right. unfold is_trusted_proxy_gen. rewrite Ht, Hp. reflexivity.
Qed.

Lemma forwarded_value_origin_gen_stmt : forall (pip : bytes -> option N) fixed trust cfg q p s,
  resolve_gen pip fixed trust cfg q = (Fwd p, s) ->
  (exists v, header_value (q_cf q) = Some v /\ pip (trim_space v) = Some p) \/
  (header_value (q_cf q) = None /\
   exists v, header_value (q_xff q) = Some v /\ pip (trim_space (first_part v)) = Some p).
Proof.
  intros pip fixed trust cfg q p s. unfold resolve_gen.
  destruct (negb trust || negb (is_trusted_proxy_gen pip (if fixed then is_nil cfg else is_nil (parse_cidrs cfg))
                                  (q_remote q) (parse_cidrs cfg))); [discriminate|].
  destruct (header_value (q_cf q)) as [v|].
  - destruct (pip (trim_space v)) as [p'|] eqn:E; intros H; inversion H; subst. left. exists v. auto.
  - destruct (header_value (q_xff q)) as [v|]; [|discriminate].
    unfold parse_forwarded_client_ip. destruct (pip (trim_space (first_part v))) as [p'|] eqn:E;
      intros H; inversion H; subst. right. split; [reflexivity|]. exists v. auto.
Qed.

Lemma scheme_values_gen_stmt : forall (pip : bytes -> option N) fixed trust cfg q,
  snd (resolve_gen pip fixed trust cfg q) = default_scheme q \/
  (trust = true /\ exists v, header_value (q_proto q) = Some v /\
     snd (resolve_gen pip fixed trust cfg q) = to_lower (trim_space (first_part v)) /\
     (snd (resolve_gen pip fixed trust cfg q) = B"http" \/ snd (resolve_gen pip fixed trust cfg q) = B"https")).
Proof.
  intros pip fixed trust cfg q. unfold resolve_gen.
  destruct trust; cbn [negb orb]; [|left; reflexivity].
  destruct (negb (is_trusted_proxy_gen pip (if fixed then is_nil cfg else is_nil (parse_cidrs cfg))
                    (q_remote q) (parse_cidrs cfg))); [left; reflexivity|].
  cbn [snd]. destruct (header_value (q_proto q)) as [v|]; [|left; reflexivity].
  unfold parse_forwarded_scheme.
  destruct (bytes_eqb (to_lower (trim_space (first_part v))) B"http") eqn:E1.
  - right. split; [reflexivity|]. exists v. cbn [orb]. apply bytes_eqb_eq in E1. auto.
  - destruct (bytes_eqb (to_lower (trim_space (first_part v))) B"https") eqn:E2; cbn [orb]; [|left; reflexivity].
    right. split; [reflexivity|]. exists v. apply bytes_eqb_eq in E2. auto.
Qed.

(* the current code honours forwarded headers exactly from trusted peers: completeness direction *)
Lemma trusted_proxy_honoured_stmt : forall (pip : bytes -> option N) cfg q t p,
  q_remote q = Some t -> pip t = Some p ->
  (cfg = [] \/ exists c, In (Some c) cfg /\ contains c p = true) ->
  resolve_gen pip true true cfg q =
   (match header_value (q_cf q) with
    | Some v => match pip (trim_space v) with Some a => Fwd a | None => Peer end
    | None => match header_value (q_xff q) with
              | Some v => match pip (trim_space (first_part v)) with Some a => Fwd a | None => Peer end
              | None => Peer
              end
    end,
    match header_value (q_proto q) with
    | Some v => match parse_forwarded_scheme v with Some s => s | None => default_scheme q end
    | None => default_scheme q
    end).
Proof.
  intros pip cfg q t p Hr Hp Hc. unfold resolve_gen. cbn [negb orb].
  assert (is_trusted_proxy_gen pip (is_nil cfg) (q_remote q) (parse_cidrs cfg) = true) as ->.
  { apply fixed_trusted_spec. exists t, p. auto. }
  cbn [negb]. unfold parse_forwarded_client_ip. reflexivity.
Qed.

(* ---- end to end: settings layer + authorizer ---- *)
Definition effective_entries (s : sources) : list bytes :=
  match env_entries s with [] => cli_entries s | l => l end.

Lemma merged_cidrs_fixed s : merged_cidrs true s = effective_entries s.
Proof.
  unfold merged_cidrs, effective_entries, env_entries.
  destruct (env_list s) as [[|e l]|]; reflexivity.
Qed.

Lemma merged_cidrs_asis s :
  cli_entries s = [] \/ env_entries s <> [] -> merged_cidrs false s = effective_entries s.
Proof.
  unfold merged_cidrs, effective_entries. intros [H|H].
  - rewrite H. destruct (env_entries s); reflexivity.
  - destruct (env_entries s); [contradiction | reflexivity].
Qed.

Definition e2e_full_stmt (mfix : bool) : Prop :=
  forall (pip : bytes -> option N) (pcidr : bytes -> option cidr) s q,
  e2e_resolve pip pcidr mfix s q <> (Peer, default_scheme q) ->
  merged_trust s = true /\
  exists t p, q_remote q = Some t /\ pip t = Some p /\
    ((cli_entries s = [] /\ env_entries s = []) \/
     exists e c, In e (match env_entries s with [] => cli_entries s | l => l end) /\
                 pcidr e = Some c /\ contains c p = true).

Lemma e2e_from_effective (pip : bytes -> option N) (pcidr : bytes -> option cidr) mfix s q :
  merged_cidrs mfix s = effective_entries s ->
  e2e_resolve pip pcidr mfix s q <> (Peer, default_scheme q) ->
  merged_trust s = true /\
  exists t p, q_remote q = Some t /\ pip t = Some p /\
    ((cli_entries s = [] /\ env_entries s = []) \/
     exists e c, In e (effective_entries s) /\ pcidr e = Some c /\ contains c p = true).
Proof.
  intros Heff H. unfold e2e_resolve in H. rewrite Heff in H.
  destruct (fixed_forwarded_only_if_trusted_stmt pip _ _ _ H) as (Ht & t & p & Hr & Hp & Hc).
  split; [exact Ht|]. exists t, p. split; [exact Hr|]. split; [exact Hp|].
  destruct Hc as [Hnil|(c & Hin & Hc)].
  - left. apply map_eq_nil in Hnil. unfold effective_entries in Hnil.
    destruct (env_entries s); [split; [exact Hnil | reflexivity] | discriminate].
  - right. apply in_map_iff in Hin. destruct Hin as (e & He & Hin). exists e, c. auto.
Qed.

Lemma e2e_fixed_stmt : e2e_full_stmt true.
Proof.
  intros pip pcidr s q H. apply (e2e_from_effective pip pcidr true s q (merged_cidrs_fixed s) H).
Qed.

Lemma e2e_partial_stmt : forall (pip : bytes -> option N) (pcidr : bytes -> option cidr) s q,
  cli_entries s = [] \/ env_entries s <> [] ->
  e2e_resolve pip pcidr false s q <> (Peer, default_scheme q) ->
  merged_trust s = true /\
  exists t p, q_remote q = Some t /\ pip t = Some p /\
    ((cli_entries s = [] /\ env_entries s = []) \/
     exists e c, In e (match env_entries s with [] => cli_entries s | l => l end) /\
                 pcidr e = Some c /\ contains c p = true).
Proof.
  intros pip pcidr s q Hs H. apply (e2e_from_effective pip pcidr false s q (merged_cidrs_asis s Hs) H).
Qed.

(* what the code does: the command line's list never reaches the authorizer *)
Lemma e2e_asis_ignores_cli_stmt : forall (pip : bytes -> option N) (pcidr : bytes -> option cidr) ct cc cc' et ec q,
  e2e_resolve pip pcidr false (mkSources ct cc et ec) q = e2e_resolve pip pcidr false (mkSources ct cc' et ec) q.
Proof. reflexivity. Qed.

(* the refuting configuration: -trustForwardedHeaders -trustedProxyCIDRs=10.0.0.0/8, environment unset *)
Definition wit_pcidr (t : bytes) : option cidr :=
  if bytes_eqb t B"10.0.0.0/8" then Some (mkCidr true 281470849515520 8) else None.
Definition wit_sources : sources := mkSources (Some true) (Some B"10.0.0.0/8") [] [].

Lemma e2e_witness_stmt :
  e2e_resolve wit_pip wit_pcidr false wit_sources wit_req = (Fwd 281470849515521, B"https") /\
  cli_entries wit_sources = [B"10.0.0.0/8"] /\ env_entries wit_sources = [] /\
  contains (mkCidr true 281470849515520 8) 281474087547145 = false /\
  e2e_resolve wit_pip wit_pcidr true wit_sources wit_req = (Peer, B"http").
Proof. vm_compute. repeat split. Qed.

Lemma e2e_refuted_stmt : ~ e2e_full_stmt false.
Proof.
  intros H. destruct e2e_witness_stmt as (W & _ & _ & Wc & _).
  destruct (H wit_pip wit_pcidr wit_sources wit_req) as (_ & t & p & Hr & Hp & [[Hc _]|(e & c & Hin & He & Hc)]).
  - rewrite W. discriminate.
  - vm_compute in Hc. discriminate.
  - vm_compute in Hr. inversion Hr; subst t. vm_compute in Hp. inversion Hp; subst p.
    vm_compute in Hin. destruct Hin as [<-|[]]. vm_compute in He. inversion He; subst c.
    rewrite Wc in Hc. discriminate.
Qed.
