(* Proofs/PartOutboxProofs.v — C18 *)
From Verif Require Import Bytes Codec PartOutbox.
From Coq Require Import Sorting.Sorted.

Definition seq_store (a b : store) : Prop := forall p, a p = b p.

Lemma supd_same s p v : supd s p v p = v.
Proof. unfold supd. now rewrite N.eqb_refl. Qed.
Lemma supd_other s p v x : x <> p -> supd s p v x = s x.
Proof. intros H. unfold supd. apply N.eqb_neq in H. now rewrite H. Qed.

Lemma apply_ext a b o : seq_store a b -> seq_store (apply_pop a o) (apply_pop b o).
Proof. intros H p. destruct o; cbn; unfold supd; destruct (p =? _)%N; auto. Qed.
Lemma apply_idem a o : seq_store (apply_pop (apply_pop a o) o) (apply_pop a o).
Proof. intros p. destruct o; cbn; unfold supd; destruct (p =? _)%N; auto. Qed.

Definition fold_ops (ops : list pop) (i : store) : store := fold_left apply_pop ops i.
Lemma fold_ext ops : forall a b, seq_store a b -> seq_store (fold_ops ops a) (fold_ops ops b).
Proof. induction ops as [|o t IH]; intros a b H; cbn; [exact H|]. apply IH, apply_ext, H. Qed.

Definition eops (es : list pentry) : list pop := map pe_op es.

Lemma fold_last ops : forall i p,
  fold_ops ops i p =
  match find (fun o => (pop_pid o =? p)%N) (rev ops) with
  | Some (PPutPart _ c) => Some c
  | Some (PDelPart _) => None
  | None => i p
  end.
Proof.
  induction ops as [|o t IH] using rev_ind; intros i p; [reflexivity|].
  unfold fold_ops. rewrite fold_left_app, rev_app_distr. cbn.
  destruct (pop_pid o =? p)%N eqn:E.
  - apply N.eqb_eq in E. subst p. destruct o; cbn; apply supd_same.
  - fold (fold_ops t i). rewrite <- IH. apply N.eqb_neq in E.
    destruct o; cbn in *; apply supd_other; congruence.
Qed.

Lemma last_for_eops es p :
  last_for es p = find (fun o => (pop_pid o =? p)%N) (rev (eops es)).
Proof.
  unfold last_for, eops. rewrite <- map_rev. induction (rev es) as [|e t IH]; cbn; [reflexivity|].
  destruct (pop_pid (pe_op e) =? p)%N; [reflexivity | exact IH].
Qed.

Section P.
Variable lease : N.
Variable UP : list N.
Notation step_p := (step_p lease UP).
Notation run_p := (run_p lease UP).

Lemma get_part_fold s p : get_part s p = fold_ops (eops (entries s)) (inner_parts s) p.
Proof. unfold get_part. rewrite fold_last, last_for_eops. reflexivity. Qed.

Definition holds (st : wstate) : option (N * pop) :=
  match st with WIdle => None | WHolding i o | WReplayed i o => Some (i, o) end.

Record PInv (ws : list nat) (s : pstate) (log : list pop) : Prop := {
  pi_spec : seq_store (spec_store log) (fold_ops (eops (entries s)) (inner_parts s));
  pi_ids : StronglySorted N.lt (map pe_id (entries s)) /\ Forall (fun e => (pe_id e < pnext s)%N) (entries s);
  pi_ws : forall w, workers s w <> WIdle -> In w ws;
  pi_one : forall w w', workers s w <> WIdle -> workers s w' <> WIdle -> w = w';
  pi_head : forall w i o, holds (workers s w) = Some (i, o) ->
            exists e t, entries s = e :: t /\ pe_id e = i /\ pe_op e = o /\ pe_owner e = Some w;
  pi_done : forall w i o, workers s w = WReplayed i o ->
            seq_store (apply_pop (inner_parts s) o) (inner_parts s) }.

Lemma PInv_init ws : PInv ws pinit [].
Proof.
  split; cbn.
  - intros p; reflexivity.
  - split; constructor.
  - intros w H; congruence.
  - intros w w' H; congruence.
  - intros w i o H; discriminate.
  - intros w i o H; discriminate.
Qed.

Lemma commit_spec ops : forall es n,
  eops (fst (commit_ops es n ops)) = eops es ++ ops /\
  (StronglySorted N.lt (map pe_id es) /\ Forall (fun e => (pe_id e < n)%N) es ->
   StronglySorted N.lt (map pe_id (fst (commit_ops es n ops))) /\
   Forall (fun e => (pe_id e < snd (commit_ops es n ops))%N) (fst (commit_ops es n ops))) /\
  (exists new, fst (commit_ops es n ops) = es ++ new).
Proof.
  induction ops as [|o t IH]; intros es n; cbn [commit_ops fst snd].
  - rewrite app_nil_r. split; [reflexivity|]. split; [auto|]. exists []. now rewrite app_nil_r.
  - destruct (IH (es ++ [{| pe_id := n; pe_op := o; pe_owner := None; pe_until := 0; pe_version := 0 |}]) (n + 1)%N) as (A & HB & [new C]).
    split; [|split].
    + rewrite A. unfold eops. rewrite map_app, <- app_assoc. reflexivity.
    + intros [S F]. apply HB. split.
      * rewrite map_app. cbn. clear -S F. induction es as [|a l IHl]; cbn in *; [repeat constructor|].
        inversion S; subst. inversion F; subst. constructor; [auto|].
        rewrite Forall_app. split; [assumption | repeat constructor; assumption].
      * apply Forall_app; split; [eapply Forall_impl; [|exact F]; cbn; intros; lia | repeat constructor; cbn; lia].
    + exists ({| pe_id := n; pe_op := o; pe_owner := None; pe_until := 0; pe_version := 0 |} :: new).
      rewrite C, <- app_assoc. reflexivity.
Qed.

Lemma spec_app log ops : spec_store (log ++ ops) = fold_ops ops (spec_store log).
Proof. unfold spec_store, fold_ops. apply fold_left_app. Qed.

Lemma wupd_same f w v : wupd f w v w = v.
Proof. unfold wupd. now rewrite Nat.eqb_refl. Qed.
Lemma wupd_other f w v x : x <> w -> wupd f w v x = f x.
Proof. intros H. unfold wupd. apply Nat.eqb_neq in H. now rewrite H. Qed.

Definition claim_ok (s : pstate) (ws : list nat) (a : pstep) : bool :=
  match a, entries s with
  | SClaim w, e :: _ =>
      negb (match workers s w with WIdle => claimable e (now s) | _ => false end && held_by_other s ws w (pe_id e))
  | _, _ => true
  end.

Definition acc (a : pstep) : list pop := match a with SCommit ops => ops | _ => [] end.

Lemma eops_map_entry es id f : (forall e, pe_op (f e) = pe_op e) -> eops (map_entry es id f) = eops es.
Proof.
  intros H. unfold eops, map_entry. rewrite map_map. apply map_ext. intros e. destruct (pe_id e =? id)%N; auto.
Qed.
Lemma ids_map_entry es id f : (forall e, pe_id (f e) = pe_id e) -> map pe_id (map_entry es id f) = map pe_id es.
Proof.
  intros H. unfold map_entry. rewrite map_map. apply map_ext. intros e. destruct (pe_id e =? id)%N; auto.
Qed.

Lemma step_inv ws s log a : PInv ws s log -> incl (step_worker a) ws -> claim_ok s ws a = true ->
  PInv ws (fst (step_p s a)) (log ++ acc a).
Proof.
  intros I W OK. destruct I as [Sp [Srt Flt] Ws One Hd Dn].
  destruct a as [ops|ops|w|w|w|w|w|w|n|p| | | | | |p'|p'| ]; cbn [PartOutbox.step_p acc]; try rewrite app_nil_r;
    try (cbn [fst]; split; auto; fail);
    try (destruct (listing s) as [[es0|i0]|]; cbn [fst]; split; auto; fail).
  - (* commit *)
    pose proof (commit_spec ops (entries s) (pnext s)) as (A & HB & [new C]).
    destruct (commit_ops (entries s) (pnext s) ops) as [es n]. cbn [fst snd] in *.
    split; cbn [entries inner_parts now pnext workers]; auto.
    + rewrite spec_app, A. intros p. unfold fold_ops at 2. rewrite fold_left_app.
      apply fold_ext. exact Sp.
    + intros w i o H. destruct (Hd w i o H) as (e & t & E & R). rewrite C, E. exists e, (t ++ new). split; [reflexivity | exact R].
  - (* claim *)
    destruct (workers s w) eqn:Ww; try (cbn [fst]; split; auto; fail).
    destruct (entries s) as [|e t] eqn:Es; [cbn [fst]; split; auto; rewrite ?Es; auto|].
    destruct (claimable e (now s)) eqn:Cl; [|cbn [fst]; split; auto; rewrite ?Es; auto].
    unfold claim_ok in OK. rewrite Es, Ww, Cl in OK. cbn in OK. apply negb_true_iff in OK.
    assert (NoOther : forall w', workers s w' = WIdle).
    { intros w'. destruct (workers s w') eqn:Ww'; [reflexivity | exfalso..].
      - assert (In w' ws) by (apply Ws; congruence).
        destruct (Hd w' id o) as (e' & t' & E' & I1 & _); [rewrite Ww'; reflexivity|]. inversion E'; subst e' t'.
        assert (held_by_other s ws w (pe_id e) = true).
        { unfold held_by_other. apply existsb_exists. exists w'. split; [assumption|].
          rewrite Ww', I1, N.eqb_refl, andb_true_r. apply negb_true_iff, Nat.eqb_neq. intros ->. congruence. }
        congruence.
      - assert (In w' ws) by (apply Ws; congruence).
        destruct (Hd w' id o) as (e' & t' & E' & I1 & _); [rewrite Ww'; reflexivity|]. inversion E'; subst e' t'.
        assert (held_by_other s ws w (pe_id e) = true).
        { unfold held_by_other. apply existsb_exists. exists w'. split; [assumption|].
          rewrite Ww', I1, N.eqb_refl, andb_true_r. apply negb_true_iff, Nat.eqb_neq. intros ->. congruence. }
        congruence. }
    cbn [fst]. split; cbn [entries inner_parts now pnext workers].
    + exact Sp.
    + cbn in *. split; [exact Srt|]. inversion Flt; subst. constructor; assumption.
    + intros w' H. destruct (Nat.eq_dec w' w) as [->|N]; [apply W; cbn; auto|]. rewrite wupd_other in H by assumption. auto.
    + intros w1 w2 H1 H2. destruct (Nat.eq_dec w1 w) as [->|N1], (Nat.eq_dec w2 w) as [->|N2]; try reflexivity.
      * rewrite wupd_other in H2 by assumption. now rewrite NoOther in H2.
      * rewrite wupd_other in H1 by assumption. now rewrite NoOther in H1.
      * rewrite wupd_other in H1 by assumption. now rewrite NoOther in H1.
    + intros w' i o H. destruct (Nat.eq_dec w' w) as [->|N].
      * rewrite wupd_same in H. cbn in H. inversion H; subst. eexists _, t. repeat split; reflexivity.
      * rewrite wupd_other in H by assumption. rewrite NoOther in H. discriminate.
    + intros w' i o H. destruct (Nat.eq_dec w' w) as [->|N].
      * rewrite wupd_same in H. discriminate.
      * rewrite wupd_other in H by assumption. rewrite NoOther in H. discriminate.
  - (* replay *)
    destruct (workers s w) eqn:Ww; try (cbn [fst]; split; auto; fail).
    destruct (Hd w id o) as (e & t & E & I1 & I2 & I3); [rewrite Ww; reflexivity|].
    cbn [fst]. split; cbn [entries inner_parts now pnext workers]; auto.
    + rewrite E in *. cbn in *. rewrite I2 in *. intros p. rewrite Sp.
      apply fold_ext. intros q. symmetry. apply apply_idem.
    + intros w' H. destruct (Nat.eq_dec w' w) as [->|N]; [apply Ws; congruence|]. rewrite wupd_other in H by assumption. auto.
    + intros w1 w2 H1 H2.
      assert (G : forall x, wupd (workers s) w (WReplayed id o) x <> WIdle -> workers s x <> WIdle).
      { intros x Hx. destruct (Nat.eq_dec x w) as [->|N]; [congruence|]. now rewrite wupd_other in Hx. }
      apply One; apply G; assumption.
    + intros w' i o' H. destruct (Nat.eq_dec w' w) as [->|N].
      * rewrite wupd_same in H. cbn in H. inversion H; subst. exists e, t. auto.
      * rewrite wupd_other in H by assumption. apply Hd. exact H.
    + intros w' i o' H. destruct (Nat.eq_dec w' w) as [->|N].
      * rewrite wupd_same in H. inversion H; subst. apply apply_idem.
      * rewrite wupd_other in H by assumption. exfalso. apply N. apply One; congruence.
  - (* finalize *)
    destruct (workers s w) eqn:Ww; try (cbn [fst]; split; auto; fail).
    destruct (Hd w id o) as (e & t & E & I1 & I2 & I3); [rewrite Ww; reflexivity|].
    assert (Own : owned_by e w = true) by (unfold owned_by; rewrite I3; apply Nat.eqb_refl).
    assert (Ex : existsb (fun e0 => (pe_id e0 =? id)%N && owned_by e0 w) (entries s) = true).
    { rewrite E. cbn. now rewrite I1, N.eqb_refl, Own. }
    rewrite Ex. cbn [fst].
    assert (Flt' : filter (fun e0 => negb ((pe_id e0 =? id)%N && owned_by e0 w)) (entries s) = t).
    { rewrite E. cbn. rewrite I1, N.eqb_refl, Own. cbn.
      rewrite E in Srt. cbn in Srt. inversion Srt as [|? ? S1 F1]; subst.
      clear -F1. induction t as [|x t IH]; cbn in *; [reflexivity|]. inversion F1; subst.
      replace (pe_id x =? pe_id e)%N with false by (symmetry; apply N.eqb_neq; lia). cbn. f_equal. auto. }
    rewrite Flt'.
    assert (Idle : forall w', w' <> w -> workers s w' = WIdle).
    { intros w' N. destruct (workers s w') eqn:Ww'; [reflexivity | exfalso; apply N; apply One; congruence..]. }
    split; cbn [entries inner_parts now pnext workers].
    + rewrite E in Sp. cbn in Sp. intros p. rewrite Sp. apply fold_ext. rewrite I2. eapply Dn; eauto.
    + rewrite E in *. cbn in *. inversion Srt; subst. inversion Flt; subst. split; assumption.
    + intros w' H. destruct (Nat.eq_dec w' w) as [->|N]; [rewrite wupd_same in H; congruence|].
      rewrite wupd_other in H by assumption. auto.
    + intros w1 w2 H1 H2. destruct (Nat.eq_dec w1 w) as [->|N1]; [rewrite wupd_same in H1; congruence|].
      rewrite wupd_other, Idle in H1 by assumption. congruence.
    + intros w' i o' H. destruct (Nat.eq_dec w' w) as [->|N]; [rewrite wupd_same in H; discriminate|].
      rewrite wupd_other, Idle in H by assumption. discriminate.
    + intros w' i o' H. destruct (Nat.eq_dec w' w) as [->|N]; [rewrite wupd_same in H; discriminate|].
      rewrite wupd_other, Idle in H by assumption. discriminate.
  - (* heartbeat *)
    assert (G : forall id, PInv ws {| entries := map_entry (entries s) id (fun e => if owned_by e w then set_owner e (Some w) (now s + lease)%N else e);
                          inner_parts := inner_parts s; now := now s; pnext := pnext s; workers := workers s; listing := listing s; reading := reading s |} log).
    { intros id. split; cbn [entries inner_parts now pnext workers]; auto.
      - rewrite eops_map_entry; [exact Sp|]. intros e. destruct (owned_by e w); reflexivity.
      - rewrite ids_map_entry by (intros e; destruct (owned_by e w); reflexivity). split; [exact Srt|].
        unfold map_entry. rewrite Forall_map. eapply Forall_impl; [|exact Flt]. cbn. intros e H.
        destruct (pe_id e =? id)%N; [destruct (owned_by e w)|]; exact H.
      - intros w' i o H. destruct (Hd w' i o H) as (e & t & E & I1 & I2 & I3). rewrite E. cbn.
        eexists _, _. split; [reflexivity|].
        destruct (pe_id e =? id)%N; [destruct (owned_by e w) eqn:O|]; cbn; auto.
        repeat split; auto. unfold owned_by in O. rewrite I3 in O. apply Nat.eqb_eq in O. now subst. }
    destruct (workers s w); cbn [fst]; [split; auto | apply G..].
  - (* release *)
    destruct (workers s w) eqn:Ww; try (cbn [fst]; split; auto; fail).
    assert (Idle : forall w', w' <> w -> workers s w' = WIdle).
    { intros w' N. destruct (workers s w') eqn:Ww'; [reflexivity | exfalso; apply N; apply One; congruence..]. }
    cbn [fst]. split; cbn [entries inner_parts now pnext workers].
    + rewrite eops_map_entry; [exact Sp|]. intros e. destruct (owned_by e w); reflexivity.
    + rewrite ids_map_entry by (intros e; destruct (owned_by e w); reflexivity). split; [exact Srt|].
      unfold map_entry. rewrite Forall_map. eapply Forall_impl; [|exact Flt]. cbn. intros e H.
      destruct (pe_id e =? id)%N; [destruct (owned_by e w)|]; exact H.
    + intros w' H. destruct (Nat.eq_dec w' w) as [->|N]; [rewrite wupd_same in H; congruence|].
      rewrite wupd_other in H by assumption. auto.
    + intros w1 w2 H1 H2. destruct (Nat.eq_dec w1 w) as [->|N1]; [rewrite wupd_same in H1; congruence|].
      rewrite wupd_other, Idle in H1 by assumption. congruence.
    + intros w' i o' H. destruct (Nat.eq_dec w' w) as [->|N]; [rewrite wupd_same in H; discriminate|].
      rewrite wupd_other, Idle in H by assumption. discriminate.
    + intros w' i o' H. destruct (Nat.eq_dec w' w) as [->|N]; [rewrite wupd_same in H; discriminate|].
      rewrite wupd_other, Idle in H by assumption. discriminate.
  - (* crash *)
    cbn [fst]. split; cbn [entries inner_parts now pnext workers]; auto.
    + intros w' H. destruct (Nat.eq_dec w' w) as [->|N]; [rewrite wupd_same in H; congruence|].
      rewrite wupd_other in H by assumption. auto.
    + intros w1 w2 H1 H2.
      assert (G : forall x, wupd (workers s) w WIdle x <> WIdle -> workers s x <> WIdle).
      { intros x Hx. destruct (Nat.eq_dec x w) as [->|N]; [rewrite wupd_same in Hx; congruence|]. now rewrite wupd_other in Hx. }
      apply One; apply G; assumption.
    + intros w' i o' H. destruct (Nat.eq_dec w' w) as [->|N]; [rewrite wupd_same in H; discriminate|].
      rewrite wupd_other in H by assumption. apply Hd. exact H.
    + intros w' i o' H. destruct (Nat.eq_dec w' w) as [->|N]; [rewrite wupd_same in H; discriminate|].
      rewrite wupd_other in H by assumption. eapply Dn; eauto.
  - (* tx-free read, first lookup: only the reader's state changes *)
    repeat (match goal with |- context [match ?x with _ => _ end] => destruct x end); cbn [fst]; split; auto.
  - repeat (match goal with |- context [match ?x with _ => _ end] => destruct x end); cbn [fst]; split; auto.
Qed.

Lemma run_inv ws tr : forall s log, PInv ws s log -> incl (trace_workers tr) ws -> no_steal lease UP s ws tr = true ->
  PInv ws (fst (run_p s tr)) (log ++ committed tr).
Proof.
  induction tr as [|a t IH]; intros s log I W NS; cbn [PartOutbox.run_p committed].
  - now rewrite app_nil_r.
  - cbn [no_steal] in NS. apply andb_true_iff in NS as [OK NS].
    cbn [trace_workers flat_map] in W. apply incl_app_inv in W as [W1 W2].
    pose proof (step_inv ws s log a I W1 OK) as I'.
    destruct (step_p s a) as [s1 r] eqn:E. cbn [fst] in *.
    specialize (IH s1 _ I' W2 NS). destruct (run_p s1 t) as [s2 rs]. cbn [fst] in *.
    assert (C : committed (a :: t) = acc a ++ committed t) by (destruct a; reflexivity).
    cbn [committed] in C. rewrite <- app_assoc in IH. destruct a; cbn [acc app] in *; exact IH.
Qed.

Theorem read_reflects_latest_commit tr :
  no_steal lease UP pinit (trace_workers tr) tr = true ->
  (forall p, get_part (fst (run_p pinit tr)) p = spec_store (committed tr) p) /\
  part_ids UP (fst (run_p pinit tr)) =
    filter (fun p => match spec_store (committed tr) p with Some _ => true | None => false end) UP.
Proof.
  intros NS. pose proof (run_inv _ tr pinit [] (PInv_init _) (incl_refl _) NS) as I. cbn [app] in I.
  assert (G : forall p, get_part (fst (run_p pinit tr)) p = spec_store (committed tr) p).
  { intros p. rewrite get_part_fold. symmetry. apply (pi_spec _ _ _ I). }
  split; [exact G|]. unfold part_ids. apply filter_ext. intros p. now rewrite G.
Qed.

Theorem drained_inner_eq_committed tr :
  no_steal lease UP pinit (trace_workers tr) tr = true ->
  entries (fst (run_p pinit tr)) = [] ->
  forall p, inner_parts (fst (run_p pinit tr)) p = spec_store (committed tr) p.
Proof.
  intros NS E p. pose proof (run_inv _ tr pinit [] (PInv_init _) (incl_refl _) NS) as I. cbn [app] in I.
  rewrite (pi_spec _ _ _ I p), E. reflexivity.
Qed.

(* ---- GetPartIds as two reads ---- *)
Definition LInv (s : pstate) (log : list pop) : Prop :=
  forall es0, listing s = Some (LOutbox es0) ->
    incl (eops (entries s)) (eops es0) /\ seq_store (spec_store log) (fold_ops (eops es0) (inner_parts s)).

Lemma fold_apply_member ops o i p : In o ops -> fold_ops ops (apply_pop i o) p = fold_ops ops i p.
Proof.
  intros H. rewrite !fold_last. destruct (N.eq_dec (pop_pid o) p) as [E|N].
  - assert (F : exists x, find (fun o0 => (pop_pid o0 =? p)%N) (rev ops) = Some x).
    { destruct (find _ (rev ops)) eqn:Fd; [eauto|]. exfalso.
      eapply find_none in Fd; [|apply in_rev; rewrite rev_involutive; exact H]. cbn in Fd. apply N.eqb_neq in Fd. congruence. }
    destruct F as [x ->]. reflexivity.
  - destruct (find _ (rev ops)); [reflexivity|]. destruct o; cbn in *; apply supd_other; congruence.
Qed.

Definition listing_ok (s : pstate) (a : pstep) : bool :=
  match a, listing s with SCommit _, Some _ => false | _, _ => true end.

Lemma list_step ws s log a : PInv ws s log -> LInv s log -> listing_ok s a = true ->
  LInv (fst (step_p s a)) (log ++ acc a).
Proof.
  intros I L Q. destruct I as [Sp [Srt Flt] Ws One Hd Dn]. unfold LInv in *.
  destruct a as [ops|ops|w|w|w|w|w|w|n|p| | | | | |p'|p'| ]; cbn [PartOutbox.step_p acc]; try rewrite app_nil_r.
  - (* commit: only with no listing in progress *)
    unfold listing_ok in Q. destruct (commit_ops (entries s) (pnext s) ops) as [es n]. cbn [fst listing].
    intros es0 H. rewrite H in Q. discriminate.
  - exact L.
  - destruct (workers s w); try exact L. destruct (entries s) as [|e t] eqn:Es; cbn [fst]; [rewrite Es; exact L|].
    destruct (claimable e (now s)); cbn [fst listing entries inner_parts]; [|rewrite Es; exact L].
    exact L.
  - destruct (workers s w) eqn:Ww; try exact L. cbn [fst listing entries inner_parts]. intros es0 H.
    destruct (L es0 H) as [Inc Eq]. split; [exact Inc|].
    destruct (Hd w id o) as (e & t & E & I1 & I2 & I3); [rewrite Ww; reflexivity|].
    intros q. rewrite fold_apply_member; [apply Eq|]. apply Inc. rewrite E. cbn. left. exact I2.
  - destruct (workers s w) eqn:Ww; try exact L.
    destruct (existsb _ (entries s)); cbn [fst listing entries inner_parts]; [|exact L].
    intros es0 H. destruct (L es0 H) as [Inc Eq]. split; [|exact Eq].
    intros x Hx. apply Inc. unfold eops in *. apply in_map_iff in Hx as (e & <- & He). apply filter_In in He as [He _].
    apply in_map. exact He.
  - assert (G : forall id f, (forall e, pe_op (f e) = pe_op e) ->
      forall es0, listing s = Some (LOutbox es0) ->
      incl (eops (map_entry (entries s) id f)) (eops es0) /\ seq_store (spec_store log) (fold_ops (eops es0) (inner_parts s))).
    { intros id f Hf es0 H. rewrite eops_map_entry by exact Hf. exact (L es0 H). }
    destruct (workers s w); cbn [fst listing entries inner_parts]; [exact L | |];
      apply G; intros e; destruct (owned_by e w); reflexivity.
  - destruct (workers s w); try exact L. cbn [fst listing entries inner_parts]. intros es0 H.
    rewrite eops_map_entry; [exact (L es0 H)|]. intros e; destruct (owned_by e w); reflexivity.
  - exact L.
  - exact L.
  - exact L.
  - exact L.
  - destruct (listing s) as [l|] eqn:Ls; [cbn [fst]; rewrite Ls; exact L|]. cbn [fst listing entries inner_parts].
    intros es0 H. inversion H; subst. split; [apply incl_refl | exact Sp].
  - destruct (listing s) as [[es1|i1]|] eqn:Ls; cbn [fst listing]; try (rewrite Ls; exact L). intros es0 H. discriminate.
  - destruct (listing s) as [l|] eqn:Ls; [cbn [fst]; rewrite Ls; exact L|]. cbn [fst listing]. intros es0 H. discriminate.
  - destruct (listing s) as [[es1|i1]|] eqn:Ls; cbn [fst listing]; try (rewrite Ls; exact L). intros es0 H. discriminate.
  - exact L.
  - repeat (match goal with |- context [match ?x with _ => _ end] => destruct x end); cbn [fst listing entries inner_parts]; exact L.
  - repeat (match goal with |- context [match ?x with _ => _ end] => destruct x end); cbn [fst listing entries inner_parts]; exact L.
Qed.

Lemma run_inv_list ws tr : forall s log, PInv ws s log -> LInv s log -> incl (trace_workers tr) ws ->
  no_steal lease UP s ws tr = true -> quiet_listing lease UP s tr = true ->
  PInv ws (fst (run_p s tr)) (log ++ committed tr) /\ LInv (fst (run_p s tr)) (log ++ committed tr).
Proof.
  induction tr as [|a t IH]; intros s log I L W NS Q; cbn [PartOutbox.run_p committed].
  - rewrite app_nil_r. auto.
  - cbn [no_steal] in NS. apply andb_true_iff in NS as [OK NS].
    cbn [quiet_listing] in Q. apply andb_true_iff in Q as [Q1 Q2].
    cbn [trace_workers flat_map] in W. apply incl_app_inv in W as [W1 W2].
    pose proof (step_inv ws s log a I W1 OK) as I'.
    pose proof (list_step ws s log a I L Q1) as L'.
    destruct (step_p s a) as [s1 r] eqn:E. cbn [fst] in *.
    specialize (IH s1 _ I' L' W2 NS Q2). destruct (run_p s1 t) as [s2 rs]. cbn [fst] in *.
    rewrite <- app_assoc in IH. destruct a; cbn [acc app] in *; exact IH.
Qed.

(* the listing a GetPartIds call returns when its second read happens now *)
Theorem listing_eq_committed tr es0 :
  no_steal lease UP pinit (trace_workers tr) tr = true ->
  quiet_listing lease UP pinit tr = true ->
  listing (fst (run_p pinit tr)) = Some (LOutbox es0) ->
  overlay_ids UP es0 (inner_parts (fst (run_p pinit tr))) =
    filter (fun p => match spec_store (committed tr) p with Some _ => true | None => false end) UP.
Proof.
  intros NS Q H.
  destruct (run_inv_list _ tr pinit [] (PInv_init _) (fun es0 E => ltac:(discriminate E)) (incl_refl _) NS Q) as [_ L].
  cbn [app] in L. destruct (L es0 H) as [_ Eq]. unfold overlay_ids. apply filter_ext. intros p.
  unfold overlay. rewrite (Eq p), fold_last, last_for_eops. reflexivity.
Qed.

(* ---- the tx-free GetPart, lookup by lookup under statement-level isolation ---- *)
Definition keys (es : list pentry) : list (N * pop) := map (fun e => (pe_id e, pe_op e)) es.
Definition RInv (s : pstate) (log : list pop) : Prop :=
  forall r, reading s = Some r ->
  rd_tries r = 1 /\
  match rd_phase r with
  | RPre => forall i o, In (i, o) (keys (entries s)) -> pop_pid o <> rd_pid r
  | RLooked id c | RStream id c _ =>
      spec_store log (rd_pid r) = Some c /\
      (forall i o, In (i, o) (keys (entries s)) -> pop_pid o = rd_pid r -> (i <= id)%N) /\
      (In id (map fst (keys (entries s))) \/ forall i o, In (i, o) (keys (entries s)) -> (id < i)%N)
  end.

Lemma no_entry_last_none es p : (forall i o, In (i, o) (keys es) -> pop_pid o <> p) -> last_entry es p = None.
Proof.
  intros H. unfold last_entry. destruct (find _ (rev es)) as [e|] eqn:F; [|reflexivity]. exfalso.
  pose proof (find_some _ _ F) as [FS1 FS2]. cbn in FS2. apply N.eqb_eq in FS2.
  apply (H (pe_id e) (pe_op e)); [|exact FS2]. unfold keys. apply in_rev in FS1.
  apply (in_map (fun e => (pe_id e, pe_op e))) in FS1. exact FS1.
Qed.

Lemma keys_map_entry es id f : (forall e, pe_op (f e) = pe_op e) -> (forall e, pe_id (f e) = pe_id e) ->
  keys (map_entry es id f) = keys es.
Proof.
  intros H1 H2. unfold keys, map_entry. rewrite map_map. apply map_ext. intros e.
  destruct (pe_id e =? id)%N; [now rewrite H1, H2 | reflexivity].
Qed.
Lemma present_keys es id : present es id = true <-> In id (map fst (keys es)).
Proof.
  unfold present, keys. rewrite map_map. cbn. rewrite existsb_exists. split.
  - intros (e & He & E). apply N.eqb_eq in E. subst. now apply in_map.
  - intros H. apply in_map_iff in H as (e & E & He). exists e. split; [exact He | now apply N.eqb_eq].
Qed.
Lemma last_entry_for es p : last_for es p = option_map snd (last_entry es p).
Proof. unfold last_for, last_entry. destruct (find _ (rev es)); reflexivity. Qed.

(* the last entry of a part carries the greatest id among the part's entries *)
Lemma last_entry_max es p id o : StronglySorted N.lt (map pe_id es) -> last_entry es p = Some (id, o) ->
  In id (map fst (keys es)) /\ pop_pid o = p /\
  forall i o', In (i, o') (keys es) -> pop_pid o' = p -> (i <= id)%N.
Proof.
  unfold last_entry. induction es as [|x es IH] using rev_ind; [cbn; discriminate|].
  rewrite rev_app_distr, map_app. cbn [rev List.app find map]. intros S F.
  assert (S' : StronglySorted N.lt (map pe_id es) /\ Forall (fun y => (y < pe_id x)%N) (map pe_id es)).
  { clear -S. induction (map pe_id es) as [|a l IHl]; cbn in *; [split; constructor|].
    inversion S as [|? ? S1 F1]; subst. destruct (IHl S1) as [A HB]. apply Forall_app in F1 as [F1 F2].
    split; constructor; auto. inversion F2; assumption. }
  destruct S' as [S1 S2].
  assert (KA : keys (es ++ [x]) = keys es ++ [(pe_id x, pe_op x)]) by (unfold keys; now rewrite map_app).
  rewrite KA, map_app. cbn [map fst].
  simpl in F. destruct (pop_pid (pe_op x) =? p)%N eqn:E; simpl in F.
  - inversion F; subst. apply N.eqb_eq in E. split; [apply in_or_app; right; left; reflexivity|]. split; [exact E|].
    intros i o' H Hp. apply in_app_or in H as [H|[H|[]]].
    + unfold keys in H. apply in_map_iff in H as (e & He & Ie). inversion He; subst.
      rewrite Forall_map, Forall_forall in S2. specialize (S2 e Ie). cbn in S2. lia.
    + inversion H; subst. lia.
  - destruct (IH S1 F) as (A & HB & C). split; [apply in_or_app; left; exact A|]. split; [exact HB|].
    intros i o' H Hp. apply in_app_or in H as [H|[H|[]]]; [apply (C i o' H Hp)|].
    inversion H; subst. apply N.eqb_neq in E. congruence.
Qed.

Definition reading_ok (s : pstate) (a : pstep) : bool :=
  match a, reading s with SCommit _, Some _ => false | _, _ => true end.

(* what a fresh first lookup establishes *)
Lemma lookup_inv ws s log p id c : PInv ws s log -> last_entry (entries s) p = Some (id, PPutPart p c) ->
  spec_store log p = Some c /\
  (forall i o, In (i, o) (keys (entries s)) -> pop_pid o = p -> (i <= id)%N) /\
  (In id (map fst (keys (entries s))) \/ forall i o, In (i, o) (keys (entries s)) -> (id < i)%N).
Proof.
  intros I L. destruct (last_entry_max _ _ _ _ (proj1 (pi_ids _ _ _ I)) L) as (A & _ & C).
  split; [|split; [exact C | left; exact A]].
  rewrite (pi_spec _ _ _ I p), <- get_part_fold. unfold get_part. rewrite last_entry_for, L. reflexivity.
Qed.
Lemma last_entry_pid es p id o : last_entry es p = Some (id, o) -> pop_pid o = p.
Proof.
  unfold last_entry. destruct (find _ (rev es)) as [e|] eqn:F; [|discriminate].
  pose proof (find_some _ _ F) as FS. destruct FS as [FS1 FS2]. cbn in FS2. apply N.eqb_eq in FS2. intros H; inversion H. exact FS2.
Qed.

Lemma rd_step ws s log a : PInv ws s log -> RInv s log -> reading_ok s a = true ->
  RInv (fst (step_p s a)) (log ++ acc a).
Proof.
  intros I R Q. pose proof I as [Sp [Srt Flt] Ws One Hd Dn]. unfold RInv in *.
  assert (LK : forall p r', reading (fst (match last_entry (entries s) p with
              | None => ({| entries := entries s; inner_parts := inner_parts s; now := now s; pnext := pnext s;
                            workers := workers s; listing := listing s; reading := None |}, PRContent (inner_parts s p))
              | Some (_, PDelPart _) => ({| entries := entries s; inner_parts := inner_parts s; now := now s; pnext := pnext s;
                            workers := workers s; listing := listing s; reading := None |}, PRContent None)
              | Some (id, PPutPart _ c) => ({| entries := entries s; inner_parts := inner_parts s; now := now s; pnext := pnext s;
                            workers := workers s; listing := listing s;
                            reading := Some {| rd_pid := p; rd_tries := 1; rd_phase := RLooked id c |} |}, PROk)
              end)) = Some r' ->
            rd_tries r' = 1 /\
            match rd_phase r' with
            | RPre => forall i o, In (i, o) (keys (entries s)) -> pop_pid o <> rd_pid r'
            | RLooked id c | RStream id c _ =>
                spec_store log (rd_pid r') = Some c /\
                (forall i o, In (i, o) (keys (entries s)) -> pop_pid o = rd_pid r' -> (i <= id)%N) /\
                (In id (map fst (keys (entries s))) \/ forall i o, In (i, o) (keys (entries s)) -> (id < i)%N)
            end).
  { intros p r'. destruct (last_entry (entries s) p) as [[id [pp c|pp]]|] eqn:L; cbn [fst reading]; try discriminate.
    intros H; inversion H; subst. cbn [rd_phase rd_pid rd_tries]. split; [reflexivity|].
    pose proof (last_entry_pid _ _ _ _ L) as Ep. cbn in Ep. subst pp. exact (lookup_inv ws s log p id c I L). }
  destruct a as [ops|ops|w|w|w|w|w|w|n|p| | | | | |p'|p'| ]; cbn [PartOutbox.step_p acc]; try rewrite app_nil_r.
  - unfold reading_ok in Q. destruct (commit_ops (entries s) (pnext s) ops) as [es n]. cbn [fst reading].
    intros r H. rewrite H in Q. discriminate.
  - exact R.
  - (* claim *) destruct (workers s w); try exact R. destruct (entries s) as [|e t] eqn:Es; cbn [fst]; [rewrite Es; exact R|].
    destruct (claimable e (now s)); cbn [fst reading entries]; [|rewrite Es; exact R]. exact R.
  - destruct (workers s w); exact R.
  - (* finalize *)
    destruct (workers s w) eqn:Ww; try exact R.
    destruct (Hd w id o) as (e & t & E & I1 & I2 & I3); [rewrite Ww; reflexivity|].
    assert (Own : owned_by e w = true) by (unfold owned_by; rewrite I3; apply Nat.eqb_refl).
    assert (Ex : existsb (fun e0 => (pe_id e0 =? id)%N && owned_by e0 w) (entries s) = true).
    { rewrite E. cbn. now rewrite I1, N.eqb_refl, Own. }
    rewrite Ex. cbn [fst reading entries].
    assert (Flt' : filter (fun e0 => negb ((pe_id e0 =? id)%N && owned_by e0 w)) (entries s) = t).
    { rewrite E. cbn. rewrite I1, N.eqb_refl, Own. cbn.
      rewrite E in Srt. cbn in Srt. inversion Srt as [|? ? S1 F1]; subst.
      clear -F1. induction t as [|x t IH]; cbn in *; [reflexivity|]. inversion F1; subst.
      replace (pe_id x =? pe_id e)%N with false by (symmetry; apply N.eqb_neq; lia). cbn. f_equal. auto. }
    rewrite Flt'. intros r H. destruct (R r H) as [Rt R']. split; [exact Rt|]. clear R. rename R' into R.
    destruct (rd_phase r) as [|id' c|id' c nx];
      [intros i o' Hi; apply (R i o'); rewrite E; right; exact Hi|..];
      (destruct R as (R1 & R2 & R3); rewrite E in R2, R3; cbn [keys map fst In] in R2, R3;
       split; [exact R1|]; split; [intros i o' Hi; apply R2; right; exact Hi|];
       rewrite E in Srt; cbn in Srt; inversion Srt as [|? ? S1 F1]; subst;
       destruct R3 as [[R3|R3]|R3];
       [ right; intros i o' Hi; unfold keys in Hi; apply in_map_iff in Hi as (x & Hx & Ix); inversion Hx; subst;
         rewrite Forall_map, Forall_forall in F1; specialize (F1 x Ix); cbn in F1; lia
       | left; exact R3
       | right; intros i o' Hi; apply (R3 i o'); right; exact Hi ]).
  - (* heartbeat *)
    destruct (workers s w); cbn [fst reading entries]; try exact R;
      (rewrite keys_map_entry by (intros e; destruct (owned_by e w); reflexivity); exact R).
  - (* release *)
    destruct (workers s w); try exact R. cbn [fst reading entries].
    rewrite keys_map_entry by (intros e; destruct (owned_by e w); reflexivity). exact R.
  - exact R.
  - exact R.
  - exact R.
  - exact R.
  - destruct (listing s); exact R.
  - destruct (listing s) as [[?|?]|]; exact R.
  - destruct (listing s); exact R.
  - destruct (listing s) as [[?|?]|]; exact R.
  - exact R.
  - (* first lookup *)
    destruct (reading s) eqn:Rd; [cbn [fst]; rewrite Rd; exact R|]. intros r' H.
    apply LK in H. cbn [fst entries]. destruct (last_entry (entries s) p') as [[? [? ?|?]]|]; exact H.
  - (* next lookup *)
    destruct (reading s) as [r|] eqn:Rd; [|cbn [fst]; rewrite Rd; exact R]. destruct (R r eq_refl) as [Rt R']. clear R. rename R' into R.
    destruct (rd_phase r) as [|id c|id c nx] eqn:Ph.
    + rewrite Rt. cbn [Nat.leb]. rewrite (no_entry_last_none _ _ R). cbn [fst reading]. intros ? H; discriminate.
    + destruct (present (entries s) id) eqn:Pr.
      * destruct (nchunks c); cbn [fst reading entries]; intros r' H; inversion H; subst; cbn [rd_phase rd_pid rd_tries];
          (split; [exact Rt | exact R]).
      * cbn [fst reading entries]. intros r' H; inversion H; subst. cbn [rd_phase rd_pid rd_tries]. split; [exact Rt|].
        destruct R as (R1 & R2 & R3). destruct R3 as [R3|R3].
        -- apply present_keys in R3. congruence.
        -- intros i o Hi Hp. specialize (R2 i o Hi Hp). specialize (R3 i o Hi). lia.
    + destruct (present (entries s) id).
      * destruct (Nat.ltb nx (nchunks c)); cbn [fst reading entries]; intros r' H; inversion H; subst; cbn [rd_phase rd_pid rd_tries];
          (split; [exact Rt | exact R]).
      * destruct (inner_parts s (rd_pid r)) as [c'|]; cbn [fst reading];
          repeat (match goal with |- context [if ?x then _ else _] => destruct x end); cbn [fst reading]; intros r' H; discriminate.
Qed.

Lemma run_inv_read ws tr : forall s log, PInv ws s log -> RInv s log -> incl (trace_workers tr) ws ->
  no_steal lease UP s ws tr = true -> quiet_reading lease UP s tr = true ->
  PInv ws (fst (run_p s tr)) (log ++ committed tr) /\ RInv (fst (run_p s tr)) (log ++ committed tr).
Proof.
  induction tr as [|a t IH]; intros s log I R W NS Q; cbn [PartOutbox.run_p committed].
  - rewrite app_nil_r. auto.
  - cbn [no_steal] in NS. apply andb_true_iff in NS as [OK NS].
    cbn [quiet_reading] in Q. apply andb_true_iff in Q as [Q1 Q2].
    cbn [trace_workers flat_map] in W. apply incl_app_inv in W as [W1 W2].
    pose proof (step_inv ws s log a I W1 OK) as I'.
    pose proof (rd_step ws s log a I R Q1) as R'.
    destruct (step_p s a) as [s1 r] eqn:E. cbn [fst] in *.
    specialize (IH s1 _ I' R' W2 NS Q2). destruct (run_p s1 t) as [s2 rs]. cbn [fst] in *.
    rewrite <- app_assoc in IH. destruct a; cbn [acc app] in *; exact IH.
Qed.

Lemma lookup_result ws s log p : PInv ws s log ->
  match last_entry (entries s) p with
  | None => inner_parts s p = spec_store log p
  | Some (_, PDelPart _) => spec_store log p = None
  | Some (_, PPutPart _ c) => spec_store log p = Some c
  end.
Proof.
  intros I. rewrite (pi_spec _ _ _ I p), <- get_part_fold. unfold get_part. rewrite last_entry_for.
  destruct (last_entry (entries s) p) as [[id [pp c|pp]]|]; reflexivity.
Qed.

(* the tx-free GetPart reflects the latest committed operation: as one snapshot (SQLite) and lookup by
   lookup under statement-level isolation with flush steps of any worker in between *)
Theorem txfree_read_reflects_latest_commit tr :
  no_steal lease UP pinit (trace_workers tr) tr = true ->
  quiet_reading lease UP pinit tr = true ->
  let s := fst (run_p pinit tr) in
  (forall p, snd (step_p s (SGetFree p)) = PRContent (spec_store (committed tr) p)) /\
  (forall p, reading s = None ->
     snd (step_p s (SRBegin p)) = PROk \/ snd (step_p s (SRBegin p)) = PRContent (spec_store (committed tr) p)) /\
  (forall r, reading s = Some r ->
     snd (step_p s SRStep) = PROk \/ snd (step_p s SRStep) = PRContent (spec_store (committed tr) (rd_pid r))).
Proof.
  intros NS Q s.
  assert (R0 : RInv pinit []) by (intros r H; discriminate H).
  destruct (run_inv_read _ tr pinit [] (PInv_init _) R0 (incl_refl _) NS Q) as [I R]. cbn [app] in I, R. fold s in I, R.
  split; [|split].
  - intros p. cbn [PartOutbox.step_p snd]. f_equal. rewrite get_part_fold. symmetry. apply (pi_spec _ _ _ I).
  - intros p H. cbn [PartOutbox.step_p]. rewrite H. pose proof (lookup_result _ s _ p I) as L.
    destruct (last_entry (entries s) p) as [[id [pp c|pp]]|]; cbn [snd]; [left; reflexivity | right; now rewrite L | right; now rewrite L].
  - intros r H. destruct (R r H) as [Rt R']. cbn [PartOutbox.step_p]. rewrite H.
    destruct (rd_phase r) as [|id c|id c nx].
    + rewrite Rt. cbn [Nat.leb]. rewrite (no_entry_last_none _ _ R'). cbn [snd]. right. f_equal.
      pose proof (lookup_result _ s _ (rd_pid r) I) as L. rewrite (no_entry_last_none _ _ R') in L. exact L.
    + destruct R' as (R1 & R2 & R3). destruct (present (entries s) id); [|left; reflexivity].
      destruct (nchunks c); cbn [snd]; [right; now rewrite R1 | left; reflexivity].
    + destruct R' as (R1 & R2 & R3). destruct (present (entries s) id) eqn:Pr.
      * destruct (Nat.ltb nx (nchunks c)); cbn [snd]; [left; reflexivity | right; now rewrite R1].
      * assert (NoP : forall i o, In (i, o) (keys (entries s)) -> pop_pid o <> rd_pid r).
        { destruct R3 as [R3|R3]; [apply present_keys in R3; congruence|].
          intros i o Hi Hp. specialize (R2 i o Hi Hp). specialize (R3 i o Hi). lia. }
        pose proof (lookup_result _ s _ (rd_pid r) I) as L. rewrite (no_entry_last_none _ _ NoP) in L.
        rewrite L, R1, N.eqb_refl.
        assert (LE : (psize c <? emitted c nx)%N = false).
        { apply N.ltb_ge. unfold emitted, psize, nchunks. destruct (c =? 0)%N; [destruct nx; lia|].
          destruct (900 <=? c)%N; [destruct nx as [|[|?]]; lia | destruct nx; lia]. }
        rewrite LE. cbn [snd]. right. reflexivity.
Qed.

(* one worker never steals *)
Lemma one_worker_no_steal w0 ws tr : (forall x, In x ws -> x = w0) -> incl (trace_workers tr) ws ->
  forall s, no_steal lease UP s ws tr = true.
Proof.
  intros A. induction tr as [|a t IH]; intros W s; cbn [no_steal]; [reflexivity|].
  cbn [trace_workers flat_map] in W. apply incl_app_inv in W as [W1 W2].
  apply andb_true_iff. split; [|apply IH; exact W2].
  destruct a; try reflexivity. destruct (entries s) as [|e t']; [reflexivity|].
  assert (w = w0) as -> by (apply A, W1; cbn; auto).
  replace (held_by_other s ws w0 (pe_id e)) with false; [now rewrite andb_false_r|].
  symmetry. unfold held_by_other. apply not_true_is_false. intros H. apply existsb_exists in H as (x & Hx & H).
  rewrite (A x Hx), Nat.eqb_refl in H. discriminate.
Qed.
End P.
