(* Proofs/FieldsOps.v — the operation-level lemmas behind Properties/C11.v *)
From Verif Require Import Bytes Codec Fields FieldsProofs.
From Coq Require Import ZifyBool ZifyN ZifyNat.

(* same in every field except the storage class / except the tags *)
Definition same_but_class (f f' : fields) : Prop :=
  f_ct f' = f_ct f /\ f_cc f' = f_cc f /\ f_cd f' = f_cd f /\ f_ce f' = f_ce f /\ f_cl f' = f_cl f /\
  f_ex f' = f_ex f /\ f_wr f' = f_wr f /\ f_um f' = f_um f /\ f_tags f' = f_tags f.
Definition same_but_tags (f f' : fields) : Prop :=
  f_ct f' = f_ct f /\ f_cc f' = f_cc f /\ f_cd f' = f_cd f /\ f_ce f' = f_ce f /\ f_cl f' = f_cl f /\
  f_ex f' = f_ex f /\ f_wr f' = f_wr f /\ f_um f' = f_um f /\ f_class f' = f_class f.

Lemma put_replaces_all s k hs f :
  req_fields hs = inl f ->
  step s (OPut k hs) = (install s k f, None) /\
  find_version (install s k f) k None = Some f /\
  f_ct f = hget B"content-type" hs /\
  f_cc f = hget B"cache-control" hs /\ f_cd f = hget B"content-disposition" hs /\
  f_ce f = hget B"content-encoding" hs /\ f_cl f = hget B"content-language" hs /\
  f_ex f = hget B"expires" hs /\ f_wr f = hget B"x-amz-website-redirect-location" hs /\
  usermeta_parse hs = Some (f_um f) /\ req_tags hs = Some (f_tags f) /\ req_class hs = Some (f_class f) /\
  (forall k' v, k' <> k -> find_version (install s k f) k' v = find_version s k' v).
Proof.
  intros Hr. split; [cbn [step]; unfold do_put; rewrite Hr; reflexivity|].
  split; [apply find_latest_install|].
  destruct (req_fields_inl _ _ Hr) as (um & tags & cls & Hu & Ht & Hc & ->).
  cbn [req_meta_fields f_ct f_cc f_cd f_ce f_cl f_ex f_wr f_um f_tags f_class].
  repeat split; try assumption. intros k' v Hn. apply find_install_other, Hn.
Qed.

Lemma put_rejected s k hs e : req_fields hs = inr e -> step s (OPut k hs) = (s, Some e).
Proof. intros Hr. cbn [step]; unfold do_put; rewrite Hr; reflexivity. Qed.

Lemma put_no_headers_clears s k : find_version (fst (step s (OPut k []))) k None = Some empty_fields.
Proof. cbn [step]. unfold do_put. change (req_fields []) with (inl err empty_fields). cbn [fst]. apply find_latest_install. Qed.

Lemma complete_applies ops1 k hs f ops2 :
  req_fields hs = inl f ->
  forallb (fun o => negb (completes (s_nmc (run init ops1)) o)) ops2 = true ->
  snd (step (run init ops1) (OCreate k hs)) = None /\
  snd (step (run (fst (step (run init ops1) (OCreate k hs))) ops2) (OComplete (s_nmc (run init ops1)))) = None /\
  find_version (fst (step (run (fst (step (run init ops1) (OCreate k hs))) ops2) (OComplete (s_nmc (run init ops1))))) k None = Some f.
Proof.
  intros Hr Hc. set (s1 := run init ops1) in *.
  assert (Hb1 : pending_bounded s1) by (apply run_pending_bounded, init_pending_bounded).
  assert (Hb2 : pending_bounded (fst (step s1 (OCreate k hs)))) by (apply step_pending_bounded, Hb1).
  assert (Hs : step s1 (OCreate k hs) =
               (mkS (s_objs s1) (s_next s1) ((s_nmc s1, (k, f)) :: s_pending s1) (s_nmc s1 + 1), None)).
  { cbn [step]. unfold do_create. rewrite Hr. reflexivity. }
  rewrite Hs in *. cbn [fst snd] in *. split; [reflexivity|].
  set (s2 := mkS _ _ _ _) in *.
  assert (Hf : find_pending (s_nmc s1) (s_pending (run s2 ops2)) = Some (k, f)).
  { apply run_keeps_pending; [exact Hb2 | exact Hc|]. subst s2. cbn [s_pending find_pending].
    rewrite N.eqb_refl. reflexivity. }
  cbn [step]. unfold do_complete. rewrite Hf. cbn [fst snd]. split; [reflexivity|]. apply find_latest_install.
Qed.

Lemma complete_unknown s u : find_pending u (s_pending s) = None -> step s (OComplete u) = (s, Some NoUpload).
Proof. intros H. cbn [step]. unfold do_complete. rewrite H. reflexivity. Qed.

Definition tagging_value (hs : list hdr) : bytes :=
  match hget B"x-amz-tagging" hs with Some v => v | None => [] end.

Lemma copy_directives s src sv dst hs s' :
  step s (OCopy src sv dst hs) = (s', None) ->
  exists fs fd mrep trep,
    find_version s src sv = Some fs /\ find_version s' dst None = Some fd /\
    directive B"x-amz-metadata-directive" hs = Some mrep /\
    directive B"x-amz-tagging-directive" hs = Some trep /\
    (mrep = false ->
       f_ct fd = f_ct fs /\ f_cc fd = f_cc fs /\ f_cd fd = f_cd fs /\ f_ce fd = f_ce fs /\
       f_cl fd = f_cl fs /\ f_ex fd = f_ex fs /\ f_um fd = f_um fs) /\
    (mrep = true ->
       f_ct fd = hget B"content-type" hs /\ f_cc fd = hget B"cache-control" hs /\
       f_cd fd = hget B"content-disposition" hs /\ f_ce fd = hget B"content-encoding" hs /\
       f_cl fd = hget B"content-language" hs /\ f_ex fd = hget B"expires" hs /\
       usermeta_parse hs = Some (f_um fd)) /\
    (trep = false -> f_tags fd = f_tags fs) /\
    (trep = true -> tagging_parse (tagging_value hs) = Some (f_tags fd)) /\
    f_wr fd = hget B"x-amz-website-redirect-location" hs /\
    req_class hs = Some (f_class fd) /\
    (forall k' v, k' <> dst -> find_version s' k' v = find_version s k' v).
Proof.
  cbn [step]. unfold do_copy.
  destruct (negb (known_version s src sv)); [discriminate|].
  destruct (directive B"x-amz-metadata-directive" hs) as [mrep|] eqn:Hm; [|discriminate].
  destruct (directive B"x-amz-tagging-directive" hs) as [trep|] eqn:Ht; [|discriminate].
  fold (tagging_value hs).
  destruct (if trep then tagging_parse (tagging_value hs) else Some []) as [tags|] eqn:Htg; [|discriminate].
  destruct (negb mrep && _ && okey_eqb src dst); [discriminate|].
  destruct (usermeta_parse hs) as [um|] eqn:Hu; [|discriminate].
  destruct (req_class hs) as [cls|] eqn:Hc; [|discriminate].
  destruct (find_version s src sv) as [fs|] eqn:Hs; [|discriminate].
  intros E; inversion E; subst s'; clear E.
  exists fs, (copy_fields fs hs mrep trep um tags cls), mrep, trep.
  split; [reflexivity|]. split; [apply find_latest_install|]. split; [reflexivity|]. split; [reflexivity|].
  unfold copy_fields; cbn [req_meta_fields f_ct f_cc f_cd f_ce f_cl f_ex f_wr f_um f_tags f_class].
  split; [intros ->; repeat split|]. split; [intros ->; repeat split|].
  split; [intros ->; reflexivity|]. split; [intros ->; exact Htg|].
  split; [reflexivity|]. split; [reflexivity|].
  intros k' v Hn. apply find_install_other, Hn.
Qed.

Lemma append_preserves_unversioned s k f :
  fst k <> 1%N -> find_version s k None = Some f -> step s (OAppend k) = (s, None).
Proof.
  intros Hb Hf. cbn [step]. unfold do_append. rewrite Hf. apply N.eqb_neq in Hb. rewrite Hb. reflexivity.
Qed.
Lemma append_enabled s k f :
  fst k = 1%N -> find_version s k None = Some f ->
  find_version (fst (step s (OAppend k))) k None = Some (append_fields_enabled f) /\
  find_version (fst (step s (OAppend k))) k (Some (s_next s)) = Some (append_fields_enabled f).
Proof.
  intros Hb Hf. cbn [step]. unfold do_append. rewrite Hf, Hb. cbn [N.eqb Pos.eqb fst].
  split; [apply find_latest_install|].
  unfold install, find_version. rewrite Hb. cbn [N.eqb Pos.eqb s_objs]. rewrite versions_of_set_same.
  cbn [find_ord]. rewrite N.eqb_refl. reflexivity.
Qed.
Lemma append_creates s k : find_version s k None = None ->
  find_version (fst (step s (OAppend k))) k None = Some empty_fields.
Proof. intros Hf. cbn [step]. unfold do_append. rewrite Hf. cbn [fst]. apply find_latest_install. Qed.

Lemma transition_preserves s k v c s' :
  step s (OTransition k v c) = (s', None) ->
  exists f f', find_version s k v = Some f /\ find_version s' k v = Some f' /\
               valid_class c = true /\ f_class f' = Some c /\ same_but_class f f' /\
               (forall k' v', k' <> k -> find_version s' k' v' = find_version s k' v').
Proof.
  cbn [step]. unfold do_transition.
  destruct (negb (known_version s k v)); [discriminate|].
  destruct (valid_class c) eqn:Hv; cbn [negb]; [|discriminate].
  destruct (find_version s k v) as [f|] eqn:Hf; [|discriminate].
  intros E; inversion E; subst s'; clear E.
  exists f, (set_class c f). split; [reflexivity|]. split; [apply find_update_same, Hf|].
  split; [reflexivity|]. split; [reflexivity|]. split; [unfold same_but_class, set_class; cbn; tauto|].
  intros k' v' Hn. apply find_update_other, Hn.
Qed.

Lemma put_tagging_replaces s k v t s' :
  step s (OPutTagging k v t) = (s', None) ->
  exists f f', find_version s k v = Some f /\ find_version s' k v = Some f' /\
               f_tags f' = t /\ dup_keys t = false /\ tags_valid t = true /\ same_but_tags f f' /\
               (forall k' v', k' <> k -> find_version s' k' v' = find_version s k' v').
Proof.
  cbn [step]. unfold do_put_tagging.
  destruct (negb (known_version s k v)); [discriminate|].
  destruct (dup_keys t) eqn:Hd; cbn [orb]; [discriminate|].
  destruct (tags_valid t) eqn:Hv; cbn [negb]; [|discriminate].
  destruct (find_version s k v) as [f|] eqn:Hf; [|discriminate].
  intros E; inversion E; subst s'; clear E.
  exists f, (set_tags t f). split; [reflexivity|]. split; [apply find_update_same, Hf|].
  split; [reflexivity|]. split; [reflexivity|]. split; [reflexivity|].
  split; [unfold same_but_tags, set_tags; cbn; tauto|].
  intros k' v' Hn. apply find_update_other, Hn.
Qed.
Lemma delete_tagging_clears s k v s' :
  step s (ODeleteTagging k v) = (s', None) ->
  exists f f', find_version s k v = Some f /\ find_version s' k v = Some f' /\
               f_tags f' = [] /\ same_but_tags f f' /\
               (forall k' v', k' <> k -> find_version s' k' v' = find_version s k' v').
Proof.
  cbn [step]. unfold do_delete_tagging.
  destruct (negb (known_version s k v)); [discriminate|].
  destruct (find_version s k v) as [f|] eqn:Hf; [|discriminate].
  intros E; inversion E; subst s'; clear E.
  exists f, (set_tags [] f). split; [reflexivity|]. split; [apply find_update_same, Hf|].
  split; [reflexivity|]. split; [unfold same_but_tags, set_tags; cbn; tauto|].
  intros k' v' Hn. apply find_update_other, Hn.
Qed.

(* a rejected operation changes no object *)
Lemma rejected_changes_nothing s o e :
  snd (step s o) = Some e -> forall k v, find_version (fst (step s o)) k v = find_version s k v.
Proof.
  intros H k v. destruct o; cbn [step] in *.
  - unfold do_put in *. destruct (req_fields hs); [discriminate | reflexivity].
  - unfold do_create in *. destruct (req_fields hs); [discriminate | reflexivity].
  - unfold do_complete in *. destruct (find_pending u (s_pending s)) as [[? ?]|]; [discriminate | reflexivity].
  - unfold do_copy in *.
    repeat match type of H with
           | context [if ?c then _ else _] => destruct c
           | context [match ?c with _ => _ end] => destruct c
           end; try discriminate; reflexivity.
  - unfold do_append in *. destruct (find_version s k0 None); [destruct (fst k0 =? 1)%N|]; discriminate.
  - unfold do_transition in *.
    repeat match type of H with
           | context [if ?c then _ else _] => destruct c
           | context [match ?c with _ => _ end] => destruct c
           end; try discriminate; reflexivity.
  - unfold do_put_tagging in *.
    repeat match type of H with
           | context [if ?c then _ else _] => destruct c
           | context [match ?c with _ => _ end] => destruct c
           end; try discriminate; reflexivity.
  - unfold do_delete_tagging in *.
    repeat match type of H with
           | context [if ?c then _ else _] => destruct c
           | context [match ?c with _ => _ end] => destruct c
           end; try discriminate; reflexivity.
  - reflexivity.
  - reflexivity.
  - reflexivity.
Qed.
