(* Proofs/MetaNewest3.v — M-META, "latest is newest" (C02), layer 3: transfer lemmas, PutObject, CopyObject,
   AppendObject. *)
From Verif Require Import Bytes Codec Md5 Meta MetaBasics MetaRows1 MetaRows2 MetaRows3 MetaRows4 MetaRows5 MetaRows6.
From Verif Require Import MetaNewest1 MetaNewest2.
From Coq Require Import ZifyBool ZifyN ZifyNat.

Lemma commit_cases_u s0 r :
  fst (commit s0 r) = s0 \/ (fst (commit s0 r) = fst r /\ not_err (snd r) /\ unique_ok (fst r) = true).
Proof.
  unfold commit. destruct r as [s1 r1]. cbn [fst snd]. destruct r1; try (left; reflexivity);
  (destruct (unique_ok s1 && parts_unique_ok s1) eqn:X; [right | left; reflexivity]);
  apply andb_true_iff in X; cbn; tauto.
Qed.

Section Key.
Variables (b k : bytes).
Notation K := (K b k).
Notation Q := (Q b k).

Lemma Q_ext i i' s s' : (i <= i')%N -> objs s' = objs s -> Q i s -> Q i' s'.
Proof.
  intros L E H. apply (Q_sub b k i i' s s' L).
  - rewrite (K_ext b k s s' E). tauto.
  - rewrite (proj1 (find_ext_objs E)), (K_ext b k s s' E). apply (qLM b k i s H).
  - exact H.
Qed.

Lemma K_krows s : K s = map core (filter completed (krows s b k)).
Proof.
  unfold MetaNewest1.K, cores, krows, MetaNewest1.isK. induction (objs s) as [|x l IH]; cbn; [reflexivity|].
  change (on_key b k (core x)) with (on_key b k x). change (completed (core x)) with (completed x).
  destruct (on_key b k x); cbn; [destruct (completed x); cbn; rewrite IH; reflexivity | exact IH].
Qed.
Lemma Q_frame i i' s s' : (i <= i')%N -> krows s' b k = krows s b k -> Q i s -> Q i' s'.
Proof.
  intros L E H. assert (EK : K s' = K s) by (rewrite !K_krows, E; reflexivity).
  apply (Q_sub b k i i' s s' L).
  - rewrite EK. tauto.
  - rewrite !find_latest_krows, E, <- find_latest_krows, EK. apply (qLM b k i s H).
  - exact H.
Qed.

Definition enabled (s : mstate) : bool := match bucket_ver s b with Some VEnabled => true | _ => false end.

Lemma null_current_ext s s' : objs s' = objs s -> null_current b k s' = null_current b k s.
Proof.
  intros E. unfold null_current, find_null. rewrite (proj1 (proj2 (find_ext_objs E))), (proj1 (find_ext_objs E)). reflexivity.
Qed.

(* common tail of put / copy / append-into-a-new-version *)
Lemma meta_put_tail_Q i s S vn w c u :
  same (with_ids s i) S -> clock S = (i * 1000)%N ->
  IdsOk s -> unique_ok s = true -> Q i s -> (enabled s || null_current b k s = true) ->
  not_err (snd (fst (meta_put S vn b k w c))) ->
  unique_ok (delete_unreferenced (fst (fst (meta_put S vn b k w c))) u) = true ->
  Q (i + 1) (delete_unreferenced (fst (fst (meta_put S vn b k w c))) u).
Proof.
  intros [Eo _ Eb Ln] Ck I U HQ G Ne U'.
  pose proof (meta_put_res S vn b k w c) as R. destruct (snd (fst (meta_put S vn b k w c))) as [| | v e | | | | | | |] eqn:Hr;
    try contradiction.
  assert (IS : IdsOk S).
  { split; rewrite Eo; [exact (proj1 I) | intros x Hx; pose proof (proj2 I x Hx); cbn in Ln; lia]. }
  destruct (find_bucket S b) as [bk|] eqn:Hbk.
  2:{ exfalso. revert Hr. unfold meta_put. rewrite Hbk. discriminate. }
  apply (meta_put_Q b k i S vn w c v e _ bk IS); try assumption.
  - rewrite (unique_ok_ext S (with_ids s i) Eo). exact U.
  - apply (Q_ext i i s S); [lia | exact Eo | exact HQ].
  - intros Nv. rewrite (null_current_ext s S Eo). apply orb_true_iff in G. destruct G as [G|G]; [|exact G].
    exfalso. unfold enabled, bucket_ver, find_bucket in G. unfold find_bucket in Hbk. rewrite Eb in Hbk.
    cbn [buckets with_ids] in Hbk. rewrite Hbk in G. cbn in G. destruct (b_ver bk); congruence.
  - apply (sm_objs _ _ (same_delete_unreferenced _ _)).
Qed.

Lemma op_put_Q i s c cd : IdsOk s -> unique_ok s = true -> Q i s -> (enabled s || null_current b k s = true) ->
  Q (i + 1) (fst (op_put (with_ids s i) i b k c cd)).
Proof.
  intros I U HQ G. unfold op_put.
  match goal with |- context[commit ?s0 ?body] => destruct (commit_cases_u s0 body) as [E|(E & Ne & U')]; rewrite E end.
  - apply (Q_ext i (i + 1) s); [lia | reflexivity | exact HQ].
  - clear E. revert Ne U'. repeat dm. cbn [fst snd]. intros Ne U'.
    apply (meta_put_tail_Q i s); try assumption.
    + eapply same_trans; [apply same_refl | apply same_put_fresh_part].
    + rewrite clock_put_fresh_part. reflexivity.
Qed.

Lemma op_copy_Q i s sb sk sv : IdsOk s -> unique_ok s = true -> Q i s -> (enabled s || null_current b k s = true) ->
  Q (i + 1) (fst (op_copy (with_ids s i) i sb sk sv b k)).
Proof.
  intros I U HQ G. unfold op_copy.
  match goal with |- context[commit ?s0 ?body] => destruct (commit_cases_u s0 body) as [E|(E & Ne & U')]; rewrite E end.
  - apply (Q_ext i (i + 1) s); [lia | reflexivity | exact HQ].
  - clear E. revert Ne U'. cbv beta zeta. repeat dm; cbn [fst snd]; intros Ne U'; try contradiction.
    apply (meta_put_tail_Q i s); try assumption.
    + apply same_set_registry.
    + reflexivity.
Qed.

Lemma op_append_Q i s c off : IdsOk s -> unique_ok s = true -> Q i s ->
  Q (i + 1) (fst (op_append (with_ids s i) i b k c off)).
Proof.
  intros I U HQ. unfold op_append.
  match goal with |- context[commit ?s0 ?body] => destruct (commit_cases_u s0 body) as [E|(E & Ne & U')]; rewrite E end.
  - apply (Q_ext i (i + 1) s); [lia | reflexivity | exact HQ].
  - clear E. revert Ne U'. cbv beta zeta. repeat dm; cbn [fst snd]; intros Ne U'; try contradiction.
    all: pose proof (sm_objs _ _ (same_put_fresh_part (with_ids s i) c)) as Eo1.
    all: repeat match goal with Hf : find_latest (snd (put_fresh_part _ _)) _ _ = _ |- _ =>
           rewrite (proj1 (find_ext_objs Eo1)) in Hf end.
    (* a new version through meta_put: the bucket is Enabled *)
    all: try match goal with |- context[meta_put] =>
           apply (meta_put_tail_Q i s); try assumption;
           [ eapply same_trans; [apply same_put_fresh_part | apply same_set_registry]
           | cbn [clock set_registry]; rewrite clock_put_fresh_part; reflexivity
           | apply orb_true_iff; left; unfold enabled, bucket_ver;
             match goal with Hb : find_bucket _ _ = Some ?bk, Hv : b_ver ?bk = VEnabled |- _ =>
               change (find_bucket (with_ids s i) b) with (find_bucket s b) in Hb; rewrite Hb; cbn; rewrite Hv; reflexivity end
           | match goal with Hr : snd (fst (meta_put _ _ _ _ _ _)) = _ |- _ => rewrite Hr; exact Ne end ] end.
    (* in place on the current row *)
    all: try match type of U' with context[update_row ?S2 ?r'] =>
           match goal with Hl : find_latest _ _ _ = Some ?old |- _ =>
             destruct (find_latest_some _ _ _ _ Hl) as (Hold & Kold & Cold & _);
             apply (rewrite_close b k i s S2 _ r' old I HQ);
             [ apply cores_ext; exact Eo1
             | rewrite clock_put_fresh_part; cbn [clock with_ids]; lia
             | apply in_map; exact Hold
             | apply isK_true; split; assumption
             | exists old; split; [exact Hl | reflexivity]
             | reflexivity | reflexivity | reflexivity
             | unfold on_key; cbn [o_bucket o_key]; rewrite !bytes_eqb_refl; reflexivity
             | reflexivity | reflexivity
             | apply save_part_rows_objs | exact U' ] end end.
    (* a fresh null row *)
    all: match type of U' with context[insert_row ?S2 ?mk] =>
           apply (insert_close b k i s S2 _ mk (cores s) HQ);
           [ apply cores_ext; exact Eo1 | tauto
           | rewrite clock_put_fresh_part; cbn [clock with_ids]; lia
           | intros id now; unfold MetaNewest1.isK, on_key, completed, mk_row;
             cbn [o_bucket o_key o_upload o_created o_written o_latest]; rewrite !bytes_eqb_refl; repeat split; reflexivity
           | apply save_part_rows_objs | exact U' ] end.
Qed.
End Key.
