(* Proofs/MetaExtProofs.v — the extended runner restricted to core operations is the core runner, so every
   theorem about [Meta.run] applies verbatim to histories of core operations executed through MetaExt. *)
From Verif Require Import Bytes Codec Md5 Meta MetaExt.

Lemma xrun_from_core ops : forall i hist s, xrun_from i hist s (map Core ops) = run_from i hist s ops.
Proof.
  induction ops as [|o ops IH]; intros i hist s; cbn [map xrun_from run_from]; [reflexivity|].
  cbn [xstep]. destruct (step i hist s o) as [s' r]. apply IH.
Qed.

Lemma xrun_core ops : xrun (map Core ops) = run ops.
Proof. apply xrun_from_core. Qed.

(* range_of returns a non-empty interval inside the object, or the empty interval of an empty object *)
Local Open Scope Z_scope.
From Coq Require Import ZifyBool.
Lemma range_of_bounds size s e gs ge :
  0 <= size -> range_of size s e = Some (gs, ge) ->
  (0 <= gs < ge /\ ge <= size) \/ (size = 0 /\ gs = 0 /\ ge = 0 /\ s = None /\ e = None).
Proof.
  intros Hs. unfold range_of. destruct s as [x|], e as [y|].
  - destruct (x <? 0) eqn:E1; [discriminate|].
    destruct (x >=? Z.min y size) eqn:E2; [discriminate|].
    destruct (x >=? Z.min y size) eqn:E3; [discriminate|].
    intros H; inversion H; subst. left. lia.
  - destruct (x <? 0) eqn:E1; [discriminate|]. destruct (x >=? size) eqn:E2; [discriminate|].
    intros H; inversion H; subst. left. lia.
  - destruct (y <=? 0) eqn:E1; [discriminate|].
    destruct (size - Z.min y size >=? size) eqn:E2; [discriminate|].
    intros H; inversion H; subst. left. lia.
  - destruct (0 >=? size) eqn:E1.
    + destruct (size =? 0) eqn:E2; [|discriminate]. intros H; inversion H; subst. right. repeat split; lia.
    + intros H; inversion H; subst. left. lia.
Qed.
