(* Proofs/NotifyProofs.v — lemmas for C22 *)
From Verif Require Import Bytes Codec Notify.
From Coq Require Import ZifyBool ZifyN ZifyNat.

(* ---------- RuleMatches ---------- *)
Lemma removelast_app_star (p : bytes) : removelast (p ++ B":*") = p ++ B":".
Proof. induction p as [|x p IH]; [reflexivity|]. cbn [app]. rewrite <- IH. destruct p; reflexivity. Qed.

Lemma event_matches_spec conf name :
  event_matches conf name = true <->
  conf = name \/ exists p rest, conf = p ++ B":*" /\ name = p ++ B":" ++ rest.
Proof.
  unfold event_matches. rewrite orb_true_iff, andb_true_iff, bytes_eqb_eq, is_suffix_spec, is_prefix_spec. split.
  - intros [H | [[p ->] [rest Hr]]]; [left; exact H|]. right. exists p, rest. split; [reflexivity|].
    rewrite removelast_app_star in Hr. rewrite Hr, <- app_assoc. reflexivity.
  - intros [H | (p & rest & -> & ->)]; [left; exact H|]. right. split; [exists p; reflexivity|].
    exists rest. rewrite removelast_app_star, <- app_assoc. reflexivity.
Qed.

Lemma filter_ok_spec key f :
  filter_ok key f = true <->
  (f_name f = B"prefix" -> exists rest, key = f_value f ++ rest) /\
  (f_name f = B"suffix" -> exists pre, key = pre ++ f_value f).
Proof.
  unfold filter_ok. destruct (bytes_eqb (f_name f) B"prefix") eqn:E1.
  - apply bytes_eqb_eq in E1. rewrite is_prefix_spec. split.
    + intros H. split; [intros _; exact H | intros E2; rewrite E1 in E2; discriminate].
    + intros [H _]. apply H, E1.
  - apply bytes_eqb_neq in E1. destruct (bytes_eqb (f_name f) B"suffix") eqn:E2.
    + apply bytes_eqb_eq in E2. rewrite is_suffix_spec. split.
      * intros H. split; [intros E; contradiction | intros _; exact H].
      * intros [_ H]. apply H, E2.
    + apply bytes_eqb_neq in E2. split; [intros _; split; intros E; contradiction | reflexivity].
Qed.

Lemma rule_matches_spec r name key :
  rule_matches r name key = true <->
  (exists c, In c (r_events r) /\ (c = name \/ exists p rest, c = p ++ B":*" /\ name = p ++ B":" ++ rest)) /\
  (forall f, In f (r_filters r) ->
     (f_name f = B"prefix" -> exists rest, key = f_value f ++ rest) /\
     (f_name f = B"suffix" -> exists pre, key = pre ++ f_value f)).
Proof.
  unfold rule_matches. rewrite andb_true_iff, existsb_exists, forallb_forall. split.
  - intros [(c & Hin & Hc) Hf]. split.
    + exists c. split; [exact Hin | apply event_matches_spec, Hc].
    + intros f Hi. apply filter_ok_spec, Hf, Hi.
  - intros [(c & Hin & Hc) Hf]. split.
    + exists c. split; [exact Hin | apply event_matches_spec, Hc].
    + intros f Hi. apply filter_ok_spec, Hf, Hi.
Qed.

(* ---------- backoff ---------- *)
Lemma defaults_ok c : (0 < d_min (with_defaults c) <= d_max (with_defaults c))%Z.
Proof.
  unfold with_defaults; cbn.
  repeat match goal with |- context [if ?b then _ else _] => destruct b eqn:? end; lia.
Qed.

Lemma delay_bounds c a : (0 < d_min c <= d_max c)%Z -> (d_min c <= delay c a <= d_max c)%Z.
Proof.
  intros H. unfold delay. destruct (63 <=? Z.max 0 (a - 1))%Z; [lia|].
  assert (1 <= 2 ^ Z.max 0 (a - 1))%Z as Hp by (apply (Z.pow_le_mono_r 2 0); lia).
  generalize dependent (2 ^ Z.max 0 (a - 1))%Z. intros p Hp.
  assert (d_min c * 1 <= d_min c * p)%Z by (apply Z.mul_le_mono_nonneg_l; lia).
  destruct (d_max c <? d_min c * p)%Z eqn:E; lia.
Qed.

Lemma delay_exponential c a :
  (0 < d_min c <= d_max c)%Z -> (d_max c < 2 ^ 63)%Z -> (1 <= a)%Z ->
  delay c a = Z.min (d_min c * 2 ^ (a - 1)) (d_max c).
Proof.
  intros H Hm Ha. unfold delay. replace (Z.max 0 (a - 1)) with (a - 1)%Z by lia.
  destruct (63 <=? a - 1)%Z eqn:E.
  - assert (2 ^ 63 <= 2 ^ (a - 1))%Z as Hp by (apply Z.pow_le_mono_r; lia).
    assert (1 * 2 ^ (a - 1) <= d_min c * 2 ^ (a - 1))%Z by (apply Z.mul_le_mono_nonneg_r; lia).
    change (2 ^ 63)%Z with 9223372036854775808%Z in *. lia.
  - destruct (d_max c <? d_min c * 2 ^ (a - 1))%Z eqn:E2; lia.
Qed.

Lemma delay_monotone c a a' : (0 < d_min c <= d_max c)%Z -> (a <= a')%Z -> (delay c a <= delay c a')%Z.
Proof.
  intros H Ha. pose proof (delay_bounds c a' H) as Hb'. pose proof (delay_bounds c a H) as Hb. unfold delay in *.
  set (e := Z.max 0 (a - 1)) in *. set (e' := Z.max 0 (a' - 1)) in *. assert (e <= e')%Z by lia.
  destruct (63 <=? e')%Z eqn:E'; [lia|]. destruct (63 <=? e)%Z eqn:E; [lia|].
  assert (2 ^ e <= 2 ^ e')%Z as Hpp by (apply Z.pow_le_mono_r; lia).
  assert (d_min c * 2 ^ e <= d_min c * 2 ^ e')%Z by (apply Z.mul_le_mono_nonneg_l; lia).
  destruct (d_max c <? d_min c * 2 ^ e')%Z eqn:E2', (d_max c <? d_min c * 2 ^ e)%Z eqn:E2; lia.
Qed.

(* ---------- transaction: outbox rows iff the mutation committed ---------- *)
Lemma run_mut_atomic m j cf s s' ok es :
  run_mut m j cf s = (s', ok, es) ->
  (ok = false -> s' = s /\ es = []) /\
  (ok = true -> cf = false /\ ~ (0 < j <= length es) /\ s_outbox s' = s_outbox s ++ es /\
     exists b name key, apply_mut m (s_buckets s) = Some (s_buckets s', b, name, key) /\
       es = match blookup b (s_buckets s') with Some bk => entries_for bk b name key | None => [] end).
Proof.
  unfold run_mut. destruct (apply_mut m (s_buckets s)) as [[[[bs' b] name] key]|] eqn:E.
  - set (es0 := match blookup b bs' with Some bk => entries_for bk b name key | None => [] end).
    destruct (((0 <? j) && (j <=? length es0)) || cf) eqn:Ec; intros H; inversion H; subst; clear H.
    + split; [auto | discriminate].
    + split; [discriminate|]. intros _. apply orb_false_iff in Ec as [Ec ->].
      split; [reflexivity|]. split; [lia|]. split; [reflexivity|]. cbn.
      exists b, name, key. auto.
  - intros H; inversion H; subst. split; [auto | discriminate].
Qed.

Lemma entries_for_spec bk b name key e :
  In e (entries_for bk b name key) <->
  (exists r, In r (b_rules bk) /\ rule_matches r name key = true /\ e = new_entry (r_dest r) name key)
  \/ (b_eb bk = true /\ e = new_entry (eb_dest b) name key).
Proof.
  unfold entries_for. rewrite in_app_iff, in_map_iff. split.
  - intros [(r & <- & Hr) | H].
    + apply filter_In in Hr as [Hi Hm]. left. exists r. auto.
    + destruct (b_eb bk); [|contradiction]. destruct H as [<-|[]]. right. auto.
  - intros [(r & Hi & Hm & ->) | [He ->]].
    + left. exists r. split; [reflexivity | apply filter_In; auto].
    + right. rewrite He. left. reflexivity.
Qed.

(* a history of mutations with arbitrary fault positions *)
Fixpoint run_muts (l : list (mut * nat * bool)) (s : st) : st * list (list entry) :=
  match l with
  | [] => (s, [])
  | (m, j, cf) :: rest =>
      let '(s', ok, es) := run_mut m j cf s in
      let (s'', ess) := run_muts rest s' in
      (s'', es :: ess)
  end.

Lemma run_muts_outbox l : forall s, s_outbox (fst (run_muts l s)) = s_outbox s ++ concat (snd (run_muts l s)).
Proof.
  induction l as [|[[m j] cf] l IH]; intros s; cbn; [rewrite app_nil_r; reflexivity|].
  destruct (run_mut m j cf s) as [[s' ok] es] eqn:E.
  specialize (IH s'). destruct (run_muts l s') as [s'' ess]. cbn in *. rewrite IH.
  destruct (run_mut_atomic _ _ _ _ _ _ _ E) as [Hf Ht]. destruct ok.
  - destruct (Ht eq_refl) as (_ & _ & -> & _). rewrite app_assoc. reflexivity.
  - destruct (Hf eq_refl) as [-> ->]. reflexivity.
Qed.

(* ---------- dispatcher: the life of one entry over rounds (time passes between rounds) ---------- *)
Fixpoint traj (c : dcfg) (fails : bytes -> Z -> bool) (n : nat) (e : entry) : list pubrec * option entry :=
  match n with
  | O => ([], Some e)
  | S n' =>
      match dispatch_entry c fails e with
      | (ps, []) => (ps, None)
      | (ps, e' :: _) => let (ps2, r) := traj c fails n' (age_entry e') in (ps ++ ps2, r)
      end
  end.

Lemma traj_dead c fails n : forall e, n_state e = Dead ->
  exists e', traj c fails n e = ([], Some e') /\ n_state e' = Dead /\ n_attempts e' = n_attempts e.
Proof.
  induction n as [|n IH]; intros e H; cbn [traj].
  - exists e. auto.
  - unfold dispatch_entry. rewrite H.
    destruct (IH (age_entry {| n_dest := n_dest e; n_event := n_event e; n_key := n_key e; n_attempts := n_attempts e;
                                n_state := Dead; n_delay := None |}) eq_refl) as (e' & -> & H1 & H2).
    exists e'. cbn in *. auto.
Qed.

Lemma map_seq_shift (a : Z) n :
  map (fun i => (a + 1 + 1 + Z.of_nat i)%Z) (seq 0 n) = map (fun i => (a + 1 + Z.of_nat i)%Z) (seq 1 n).
Proof.
  rewrite <- seq_shift, map_map. apply map_ext. intros i. lia.
Qed.

Lemma traj_spec c fails : forall n e,
  n_state e = Pending true ->
  ((0 < d_maxatt c)%Z -> (n_attempts e < d_maxatt c)%Z) ->
  forall ps r, traj c fails n e = (ps, r) ->
    map p_attempt ps = map (fun i => (n_attempts e + 1 + Z.of_nat i)%Z) (seq 0 (length ps))
    /\ (forall i p, nth_error ps i = Some p -> p_ok p = true -> S i = length ps /\ r = None)
    /\ (r = None -> exists p, nth_error ps (length ps - 1) = Some p /\ p_ok p = true)
    /\ (forall e', r = Some e' ->
          (forall p, In p ps -> p_ok p = false) /\ n_attempts e' = (n_attempts e + Z.of_nat (length ps))%Z /\
          match n_state e' with
          | Dead => (0 < d_maxatt c)%Z /\ n_attempts e' = d_maxatt c
          | Pending _ => length ps = n /\ ((0 < d_maxatt c)%Z -> (n_attempts e' < d_maxatt c)%Z)
          end).
Proof.
  induction n as [|n IH]; intros e Hs Hlt ps r H; cbn [traj] in H.
  - inversion H; subst; clear H. cbn. split; [reflexivity|]. split; [intros [|i] p Hn; discriminate Hn|].
    split; [discriminate|]. intros e' He; inversion He; subst. split; [intros p []|]. split; [lia|].
    rewrite Hs. split; [reflexivity | exact Hlt].
  - unfold dispatch_entry in H. rewrite Hs in H.
    remember (n_attempts e + 1)%Z as a eqn:Ha.
    destruct (fails (n_dest e) a) eqn:Ef.
    + destruct ((0 <? d_maxatt c)%Z && (d_maxatt c <=? a)%Z) eqn:Ed.
      * (* dead-lettered now *)
        apply andb_true_iff in Ed as [Ed1 Ed2].
        set (ed := {| n_dest := n_dest e; n_event := n_event e; n_key := n_key e; n_attempts := a; n_state := Dead; n_delay := None |}) in *.
        destruct (traj_dead c fails n (age_entry ed) eq_refl) as (e' & Ht & Hd & Hatt). rewrite Ht in H.
        inversion H; subst ps r; clear H. cbn [app length seq map].
        split; [f_equal; cbn; lia|].
        split. { intros [|[|i]] p Hn Hok; cbn in Hn; try discriminate Hn. inversion Hn; subst p. cbn in Hok. discriminate. }
        split; [discriminate|].
        intros e'' He; inversion He; subst e''; clear He.
        split; [intros p [<-|[]]; reflexivity|].
        cbn in Hatt. rewrite Hatt, Hd. split; [lia|]. split; [lia|]. specialize (Hlt ltac:(lia)). lia.
      * (* released: retried in the next round *)
        set (ep := {| n_dest := n_dest e; n_event := n_event e; n_key := n_key e; n_attempts := a;
                      n_state := Pending false; n_delay := Some (delay c a) |}) in *.
        assert ((0 < d_maxatt c)%Z -> (n_attempts (age_entry ep) < d_maxatt c)%Z) as Hlt'.
        { cbn. intros Hm. apply andb_false_iff in Ed as [Ed|Ed]; lia. }
        destruct (traj c fails n (age_entry ep)) as [ps2 r2] eqn:Et.
        destruct (IH (age_entry ep) eq_refl Hlt' ps2 r2 Et) as (I1 & I2 & I3 & I4).
        inversion H; subst ps r; clear H. cbn [app length seq map]. cbn [age_entry ep n_attempts] in I1, I4.
        split; [f_equal; [cbn; lia|]; rewrite I1, Ha; apply map_seq_shift|].
        split.
        { intros [|i] p Hn Hok; cbn in Hn.
          - inversion Hn; subst p; cbn in Hok; discriminate.
          - destruct (I2 i p Hn Hok) as [Hl ->]. split; [lia | reflexivity]. }
        split.
        { intros Hr. destruct (I3 Hr) as (p & Hn & Hok). exists p. split; [|exact Hok].
          destruct ps2 as [|q ps2']; [cbn in Hn; discriminate|]. cbn [length] in *.
          replace (S (S (length ps2')) - 1) with (S (S (length ps2') - 1)) by lia. cbn [nth_error]. exact Hn. }
        intros e' He. destruct (I4 e' He) as (J1 & J2 & J3).
        split; [intros p [<-|Hi]; [reflexivity | apply J1, Hi]|].
        split; [rewrite J2; lia|].
        destruct (n_state e'); [|exact J3]. destruct J3 as [J3 J4]. split; [lia | exact J4].
    + (* published *)
      inversion H; subst ps r; clear H. cbn [length seq map].
      split; [f_equal; cbn; lia|].
      split; [intros [|[|i]] p Hn Hok; cbn in Hn; try discriminate Hn; split; reflexivity|].
      split; [intros _; eexists; split; [reflexivity | reflexivity] | discriminate].
Qed.

(* the rounds of the whole outbox, and the single-row case *)
Fixpoint rounds (c : dcfg) (fails : bytes -> Z -> bool) (n : nat) (es : list entry) : list pubrec * list entry :=
  match n with
  | O => ([], es)
  | S n' => let (p, es1) := dispatch_round c fails es in
            let (p2, es2) := rounds c fails n' (map age_entry es1) in (p ++ p2, es2)
  end.

Lemma dispatch_round_single c fails e : dispatch_round c fails [e] = dispatch_entry c fails e.
Proof. cbn. destruct (dispatch_entry c fails e) as [ps es]. rewrite !app_nil_r. reflexivity. Qed.

Lemma dispatch_entry_shape c fails e :
  snd (dispatch_entry c fails e) = [] \/ exists e', snd (dispatch_entry c fails e) = [e'].
Proof.
  unfold dispatch_entry. destruct (n_state e) as [[|]|]; cbn; eauto.
  destruct (fails (n_dest e) (n_attempts e + 1)%Z); cbn; auto.
  destruct ((0 <? d_maxatt c)%Z && (d_maxatt c <=? n_attempts e + 1)%Z); cbn; eauto.
Qed.

Lemma rounds_nil c fails n : rounds c fails n [] = ([], []).
Proof. induction n as [|n IH]; [reflexivity|]. cbn. rewrite IH. reflexivity. Qed.

Lemma rounds_single c fails n : forall e,
  rounds c fails n [e] = (fst (traj c fails n e), match snd (traj c fails n e) with Some e' => [e'] | None => [] end).
Proof.
  induction n as [|n IH]; intros e; [reflexivity|].
  cbn [rounds traj]. rewrite dispatch_round_single.
  pose proof (dispatch_entry_shape c fails e) as Hs.
  destruct (dispatch_entry c fails e) as [ps es1]. cbn [snd] in Hs. destruct Hs as [->|[e' ->]].
  - cbn [map]. rewrite rounds_nil, app_nil_r. reflexivity.
  - cbn [map]. rewrite IH. destruct (traj c fails n (age_entry e')) as [ps2 r]. reflexivity.
Qed.
